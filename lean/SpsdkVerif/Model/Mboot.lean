/-
Hand-written executable model for property C10 (bootloader protocols).

Host side (models the code that exists, quirks included; tied to /repo by harness/props/C10.py):
  * `spsdk/mboot/protocol/serial_protocol.py`  – frame codec, ACK/NAK/ABORT handling, ping
  * `spsdk/mboot/protocol/bulk_protocol.py`    – HID report codec
  * `spsdk/mboot/commands.py`                  – `CmdPacket.to_bytes`, `parse_cmd_response`
  * `spsdk/mboot/mcuboot.py`                   – `_process_cmd/_read_data/_send_data/_split_data/
                                                  _get_max_packet_size` and the public operations built on them
Device side: a small *reference bootloader* written from the protocol description (`Dev`), never generated.

The host is a state/exception machine over a `Host` record.  `device.write(w)` hands `w` to the peer, which
*releases* device→host bytes (serial) or reports (HID): the peer is either the live reference device
(closed loop, used by the refinement theorems) or a script (replay of a recorded / fault-injected
transcript, used by the correspondence).  Reading when nothing has been released = timeout.
-/
import SpsdkVerif.Base.Py

namespace SpsdkVerif.Mboot
open SpsdkVerif

abbrev Bytes := List UInt8

/-! ## Protocol constants (MCU bootloader protocol description; hand-written, NOT generated).
    `Properties/C10.lean` proves that the constants generated from /repo agree with them. -/
namespace Spec
abbrev startByte : Nat := 0x5A
abbrev fAck : Nat := 0xA1
abbrev fNak : Nat := 0xA2
abbrev fAbort : Nat := 0xA3
abbrev fCmd : Nat := 0xA4
abbrev fData : Nat := 0xA5
abbrev fPing : Nat := 0xA6
abbrev fPingR : Nat := 0xA7
abbrev crcPoly : Nat := 0x1021
abbrev ridCmdOut : Nat := 1
abbrev ridDataOut : Nat := 2
abbrev ridCmdIn : Nat := 3
abbrev ridDataIn : Nat := 4
abbrev cFlashEraseAll : Nat := 0x01
abbrev cFlashEraseRegion : Nat := 0x02
abbrev cReadMemory : Nat := 0x03
abbrev cWriteMemory : Nat := 0x04
abbrev cFillMemory : Nat := 0x05
abbrev cGetProperty : Nat := 0x07
abbrev cReceiveSbFile : Nat := 0x08
abbrev cExecute : Nat := 0x09
abbrev cCall : Nat := 0x0A
abbrev cReset : Nat := 0x0B
abbrev cSetProperty : Nat := 0x0C
abbrev cFlashProgramOnce : Nat := 0x0E
abbrev cFlashReadOnce : Nat := 0x0F
abbrev cFlashReadResource : Nat := 0x10
abbrev cKeyProvisioning : Nat := 0x15
abbrev kpEnroll : Nat := 0
abbrev kpSetUserKey : Nat := 1
abbrev kpSetIntrinsicKey : Nat := 2
abbrev kpWriteNonVolatile : Nat := 3
abbrev kpReadNonVolatile : Nat := 4
abbrev kpWriteKeyStore : Nat := 5
abbrev kpReadKeyStore : Nat := 6
abbrev cFlashEraseAllUnsecure : Nat := 0x0D
abbrev cConfigureMemory : Nat := 0x11
abbrev cReliableUpdate : Nat := 0x12
abbrev cFuseProgram : Nat := 0x14
abbrev cTrustProvisioning : Nat := 0x16
abbrev cFuseRead : Nat := 0x17
abbrev cUpdateLifeCycle : Nat := 0x18
abbrev cEleMessage : Nat := 0x19
abbrev tpOemSetMasterShare : Nat := 1
abbrev tpHsmEncBlock : Nat := 5
abbrev rGeneric : Nat := 0xA0
abbrev rReadMemory : Nat := 0xA3
abbrev rGetProperty : Nat := 0xA7
abbrev rFlashReadOnce : Nat := 0xAF
abbrev rFlashReadResource : Nat := 0xB0
abbrev rKeyBlob : Nat := 0xB3
abbrev rKeyProv : Nat := 0xB5
abbrev rTrustProv : Nat := 0xB6
abbrev flagHasDataPhase : Nat := 1
abbrev stSuccess : Nat := 0
abbrev stFail : Nat := 1
abbrev stSendingOperationConditionError : Nat := 1812
abbrev stOtpVerifyFail : Nat := 52009
abbrev stUnknownCommand : Nat := 10000
abbrev stAbortDataPhase : Nat := 10002
abbrev stNoResponse : Nat := 10004
abbrev stMemoryRangeInvalid : Nat := 10200
abbrev stUnknownProperty : Nat := 10300
abbrev stReadOnlyProperty : Nat := 10301
abbrev propMaxPacketSize : Nat := 0x0B
abbrev defaultMaxPacket : Nat := 32
abbrev maxPingDummy : Nat := 50
abbrev openAttempts : Nat := 3
end Spec

/-! ## little-endian integers -/

/-- `v.to_bytes(n, "little")` (truncating) -/
def le : Nat → Nat → Bytes
  | 0, _ => []
  | n + 1, v => UInt8.ofNat (v % 256) :: le n (v / 256)

/-- `int.from_bytes(b, "little")` -/
def fromLe : Bytes → Nat
  | [] => 0
  | b :: r => b.toNat + 256 * fromLe r

/-- `n` little-endian 32-bit words from the front of `b` (missing bytes read as absent: caller checks the length) -/
def u32s : Nat → Bytes → List Nat
  | 0, _ => []
  | n + 1, b => fromLe (b.take 4) :: u32s n (b.drop 4)

/-! ## CRC-16/XMODEM (poly 0x1021, init 0, no reflection, xor-out 0), bitwise -/

/-- one shift of the 16-bit register (`s < 2^16`) -/
def crcBit (s : Nat) : Nat :=
  if 32768 ≤ s then ((s - 32768) * 2) ^^^ Spec.crcPoly else s * 2

def crcByte (s : Nat) (b : UInt8) : Nat :=
  crcBit (crcBit (crcBit (crcBit (crcBit (crcBit (crcBit (crcBit (s ^^^ (b.toNat * 256)))))))))

def crc16 (d : Bytes) : Nat := d.foldl crcByte 0

/-! ## serial frame codec -/

/-- the bytes the CRC of a frame is computed over: start byte, type, length, payload -/
def crcInput (t : Nat) (p : Bytes) : Bytes :=
  [UInt8.ofNat Spec.startByte, UInt8.ofNat t] ++ le 2 p.length ++ p

def frameCrc (t : Nat) (p : Bytes) : Nat := crc16 (crcInput t p)

/-- `0x5A, type, len16, crc16, payload` -/
def mkFrame (t : Nat) (p : Bytes) : Bytes :=
  [UInt8.ofNat Spec.startByte, UInt8.ofNat t] ++ le 2 p.length ++ le 2 (frameCrc t p) ++ p

def ackFrame : Bytes := [UInt8.ofNat Spec.startByte, UInt8.ofNat Spec.fAck]
def nakFrame : Bytes := [UInt8.ofNat Spec.startByte, UInt8.ofNat Spec.fNak]
def abortFrame : Bytes := [UInt8.ofNat Spec.startByte, UInt8.ofNat Spec.fAbort]
def pingFrame : Bytes := [UInt8.ofNat Spec.startByte, UInt8.ofNat Spec.fPing]

inductive FrameErr where
  | short | badStart | badCrc
  deriving DecidableEq, Repr

/-- clean frame decoder (the device's view, and the specification of the codec):
    `(type, payload, rest)` -/
def parseFrame : Bytes → Except FrameErr (Nat × Bytes × Bytes)
  | s :: t :: l0 :: l1 :: c0 :: c1 :: rest =>
    if s.toNat ≠ Spec.startByte then .error .badStart
    else
      let n := fromLe [l0, l1]
      if rest.length < n then .error .short
      else
        let p := rest.take n
        if fromLe [c0, c1] = frameCrc t.toNat p then .ok (t.toNat, p, rest.drop n) else .error .badCrc
  | s :: _ => if s.toNat ≠ Spec.startByte then .error .badStart else .error .short
  | [] => .error .short

/-- ping response: `0x5A 0xA7 version(4) options(2) crc16(2)`; the CRC covers the first 8 bytes -/
def pingResponse (version options : Nat) : Bytes :=
  let body := [UInt8.ofNat Spec.startByte, UInt8.ofNat Spec.fPingR] ++ le 4 version ++ le 2 options
  body ++ le 2 (crc16 body)

/-! ## HID report codec -/

/-- `id, 0, len16, payload` -/
def mkReport (rid : Nat) (p : Bytes) : Bytes :=
  [UInt8.ofNat rid, 0] ++ le 2 p.length ++ p

/-- clean report decoder: `(id, payload)`; `none` for a report shorter than its header says -/
def parseReport : Bytes → Option (Nat × Bytes)
  | rid :: _ :: l0 :: l1 :: rest =>
    let n := fromLe [l0, l1]
    if rest.length < n then none else some (rid.toNat, rest.take n)
  | _ => none

/-! ## command packets and responses -/

structure CmdPkt where
  tag : Nat
  flags : Nat
  params : List Nat
  deriving DecidableEq, Repr

/-- header `tag, flags, 0, count` + `count` little-endian words (no padding) -/
def CmdPkt.encode (p : CmdPkt) : Bytes :=
  [UInt8.ofNat p.tag, UInt8.ofNat p.flags, 0, UInt8.ofNat p.params.length] ++ p.params.flatMap (le 4)

/-- the device's decoder of a command packet -/
def parseCmd : Bytes → Option CmdPkt
  | t :: f :: _ :: n :: rest =>
    if rest.length = 4 * n.toNat then some ⟨t.toNat, f.toNat, u32s n.toNat rest⟩ else none
  | _ => none

inductive RKind where
  | generic | getProperty | readMemory | flashReadResource | flashReadOnce | keyProv | trustProv | plain | noResponse
  deriving DecidableEq, Repr

/-- the table `known_response` of `parse_cmd_response` -/
def kindOf (tag : Nat) : RKind :=
  if tag = Spec.rGeneric then .generic
  else if tag = Spec.rGetProperty then .getProperty
  else if tag = Spec.rReadMemory then .readMemory
  else if tag = Spec.rFlashReadResource then .flashReadResource
  else if tag = Spec.rFlashReadOnce then .flashReadOnce
  else if tag = Spec.rKeyBlob then .readMemory
  else if tag = Spec.rKeyProv then .keyProv
  else if tag = Spec.rTrustProv then .trustProv
  else .plain

/-- what the host keeps of a parsed response -/
structure Resp where
  kind : RKind
  tag : Nat
  pc : Nat
  status : Nat
  cmdTag : Nat := 0
  length : Nat := 0
  values : List Nat := []
  /-- `FlashReadOnceResponse.data` -/
  data : Bytes := []
  deriving DecidableEq, Repr

/-- exception classes of the host (`spsdk.mboot.exceptions`), error messages never modelled -/
inductive HErr where
  | timeout          -- SPSDKTimeoutError (an SPSDKError and a TimeoutError)
  | conn             -- McuBootConnectionError
  | abort            -- McuBootDataAbortError
  | cmd (status : Nat)  -- McuBootCommandError(error_value)
  | mboot            -- McuBootError (base class itself)
  | spsdk            -- any other SPSDKError
  | other            -- struct.error, AssertionError, ValueError, IndexError, ZeroDivisionError …
  | fuel             -- model artefact: loop fuel exhausted (never reached; reported as a disagreement)
  deriving DecidableEq, Repr

def HErr.isSpsdk : HErr → Bool
  | .timeout | .conn | .abort | .cmd _ | .mboot | .spsdk => true
  | _ => false

def HErr.isMcuBoot : HErr → Bool
  | .conn | .abort | .cmd _ | .mboot => true
  | _ => false

/-- `parse_cmd_response(data)` -/
def parseCmdResponse (data : Bytes) : Except HErr Resp :=
  match data with
  | t :: _ :: _ :: n :: raw =>
    let tag := t.toNat
    let pc := n.toNat
    if raw.length < 4 then .error .other          -- struct.error in CmdResponse.__init__
    else
      let status := fromLe (raw.take 4)
      match kindOf tag with
      | .generic =>
        if raw.length < 8 then .error .other
        else .ok { kind := .generic, tag, pc, status, cmdTag := fromLe ((raw.drop 4).take 4) }
      | .getProperty =>
        if raw.length < 4 * pc ∨ pc = 0 then .error .other
        else .ok { kind := .getProperty, tag, pc, status, values := u32s (pc - 1) (raw.drop 4) }
      | .readMemory =>
        if raw.length < 8 then .error .other
        else .ok { kind := .readMemory, tag, pc, status, length := fromLe ((raw.drop 4).take 4) }
      | .flashReadResource =>
        if raw.length < 8 then .error .other
        else .ok { kind := .flashReadResource, tag, pc, status, length := fromLe ((raw.drop 4).take 4) }
      | .keyProv =>
        if raw.length < 8 then .error .other
        else .ok { kind := .keyProv, tag, pc, status, length := fromLe ((raw.drop 4).take 4) }
      | .flashReadOnce =>
        if raw.length < 4 * pc ∨ pc < 2 then .error .other
        else
          let length := fromLe ((raw.drop 4).take 4)
          .ok { kind := .flashReadOnce, tag, pc, status, length, values := u32s (pc - 2) (raw.drop 8),
                data := if 0 < length then (raw.drop 8).take length else [] }
      | .trustProv =>
        if raw.length ≠ 4 * pc ∨ pc = 0 then .error .other
        else .ok { kind := .trustProv, tag, pc, status, values := u32s (pc - 1) (raw.drop 4) }
      | _ => .ok { kind := .plain, tag, pc, status }
  | _ => .error .mboot                              -- "Invalid format of RX packet"

/-- response payloads as the reference device builds them -/
def genericResp (status cmdTag : Nat) : Bytes :=
  [UInt8.ofNat Spec.rGeneric, 0, 0, 2] ++ le 4 status ++ le 4 cmdTag
def readMemResp (status len : Nat) : Bytes :=
  [UInt8.ofNat Spec.rReadMemory, 0, 0, 2] ++ le 4 status ++ le 4 len
def getPropResp (status : Nat) (vals : List Nat) : Bytes :=
  [UInt8.ofNat Spec.rGetProperty, 0, 0, UInt8.ofNat (1 + vals.length)] ++ le 4 status ++ vals.flatMap (le 4)
/-- responses that announce a data phase of `len` bytes: `rtag` ∈ {ReadMemory, FlashReadResource, KeyProvisioning} -/
def lenResp (rtag status len : Nat) : Bytes :=
  [UInt8.ofNat rtag, 0, 0, 2] ++ le 4 status ++ le 4 len
def readOnceResp (status len : Nat) (vals : List Nat) : Bytes :=
  [UInt8.ofNat Spec.rFlashReadOnce, 0, 0, UInt8.ofNat (2 + vals.length)] ++ le 4 status ++ le 4 len ++ vals.flatMap (le 4)

/-! ## data splitting -/

def splitN (n : Nat) : Nat → Bytes → List Bytes
  | 0, _ => []
  | f + 1, l => if l.isEmpty then [] else l.take n :: splitN n f (l.drop n)

/-- `[data[i:i+n] for i in range(0, len(data), n)]` for `n ≥ 1` -/
def split (n : Nat) (l : Bytes) : List Bytes := splitN n l.length l

/-! ## the reference bootloader -/

inductive Phase where
  | idle
  /-- host→device data phase: command tag, write cursor, bytes still expected, status of the final response -/
  | recv (tag addr remaining finalSt : Nat)
  /-- serial only: device→host data phase paced by the host's ACKs: remaining chunks, then the final response -/
  | send (tag : Nat) (chunks : List Bytes) (finalSt : Nat)
  deriving DecidableEq, Repr

structure Dev where
  mem : Bytes
  maxPacket : Nat
  props : List (Nat × Nat) := []
  rwProps : List Nat := []
  sb : Bytes := []
  log : List (Nat × List Nat) := []
  phase : Phase := .idle
  ncmd : Nat := 0
  /-- forced device errors: (command index, in the final response of the data phase?, status) -/
  faults : List (Nat × Bool × Nat) := []
  hidPad : Nat := 0
  pingDummy : Nat := 0
  version : Nat := 0x50010300  -- protocol version word of the ping response (bugfix 0, minor 3, major 1, 'P')
  options : Nat := 0
  /-- program-once (OTP) words: index ↦ 32-bit value; programming ORs bits in; locked indices silently keep their value -/
  fuses : List (Nat × Nat) := []
  lockedFuses : List Nat := []
  /-- flash resource (IFR / firmware id) read by `flash_read_resource` -/
  resource : Bytes := []
  keyStore : Bytes := []
  userKeys : List (Nat × Bytes) := []
  /-- key provisioning data phase in flight: (operation, key type), bytes so far -/
  kpTarget : Nat × Nat := (0, 0)
  kpBuf : Bytes := []
  /-- the ROM accepts data packets without a command (`load_image`) and collects them here -/
  imageMode : Bool := false
  image : Bytes := []
  /-- forced abort of a host→device data phase: the (n+1)-th data packet of a phase is answered by ABORT -/
  abortAfter : Option Nat := none
  pktCount : Nat := 0
  resets : Nat := 0
  deriving DecidableEq, Repr

def splice (mem : Bytes) (a : Nat) (d : Bytes) : Bytes := mem.take a ++ d ++ mem.drop (a + d.length)

/-- `n` bytes of the little-endian 32-bit `pattern`, repeated -/
def fillBytes : Nat → Nat → Bytes
  | 0, _ => []
  | n + 1, pat => (le 4 pat ++ fillBytes n pat)
def fillPattern (n pat : Nat) : Bytes := (fillBytes (n / 4 + 1) pat).take n

/-- OTP programming: bits are ORed in; a locked word silently keeps its value -/
def Dev.programFuse (d : Dev) (i v : Nat) : Dev :=
  if d.lockedFuses.contains i then d
  else { d with fuses := (i, (d.fuses.lookup i).getD 0 ||| v) :: d.fuses.filter (fun q => q.1 != i) }

def faultAt (d : Dev) (final : Bool) : Option Nat :=
  (d.faults.find? (fun f => f.1 == d.ncmd && f.2.1 == final)).map (·.2.2)

/-- what a command does (transport independent) -/
inductive Outcome where
  | single (d : Dev) (resp : Bytes)
  | toHost (d : Dev) (resp : Bytes) (data : Bytes) (finalSt : Nat)
  | fromHost (d : Dev) (resp : Bytes) (addr len finalSt : Nat)

def Dev.exec (d0 : Dev) (p : CmdPkt) : Outcome :=
  let d := { d0 with ncmd := d0.ncmd + 1, phase := .idle, pktCount := 0 }
  let finalSt := (faultAt d0 true).getD Spec.stSuccess
  match faultAt d0 false with
  | some st => .single d (genericResp st p.tag)
  | none =>
    if p.tag = Spec.cGetProperty then
      match p.params with
      | [t, _] =>
        if t = Spec.propMaxPacketSize then .single d (getPropResp 0 [d.maxPacket])
        else match d.props.lookup t with
          | some v => .single d (getPropResp 0 [v])
          | none => .single d (getPropResp Spec.stUnknownProperty [0])
      | _ => .single d (genericResp Spec.stFail p.tag)
    else if p.tag = Spec.cSetProperty then
      match p.params with
      | [t, v] =>
        if d.rwProps.contains t then
          .single { d with props := (t, v) :: d.props.filter (fun q => q.1 != t) } (genericResp 0 p.tag)
        else if (d.props.lookup t).isSome ∨ t = Spec.propMaxPacketSize then .single d (genericResp Spec.stReadOnlyProperty p.tag)
        else .single d (genericResp Spec.stUnknownProperty p.tag)
      | _ => .single d (genericResp Spec.stFail p.tag)
    else if p.tag = Spec.cFillMemory then
      match p.params with
      | [a, n, pat] =>
        if a + n ≤ d.mem.length then .single { d with mem := splice d.mem a (fillPattern n pat) } (genericResp 0 p.tag)
        else .single d (genericResp Spec.stMemoryRangeInvalid p.tag)
      | _ => .single d (genericResp Spec.stFail p.tag)
    else if p.tag = Spec.cFlashEraseRegion then
      match p.params with
      | [a, n, _] =>
        if a + n ≤ d.mem.length then .single { d with mem := splice d.mem a (List.replicate n 0xFF) } (genericResp 0 p.tag)
        else .single d (genericResp Spec.stMemoryRangeInvalid p.tag)
      | _ => .single d (genericResp Spec.stFail p.tag)
    else if p.tag = Spec.cFlashEraseAll then
      .single { d with mem := List.replicate d.mem.length 0xFF } (genericResp 0 p.tag)
    else if p.tag = Spec.cReadMemory then
      match p.params with
      | [a, n, _] =>
        if a + n ≤ d.mem.length then .toHost d (readMemResp 0 n) ((d.mem.drop a).take n) finalSt
        else .single d (genericResp Spec.stMemoryRangeInvalid p.tag)
      | _ => .single d (genericResp Spec.stFail p.tag)
    else if p.tag = Spec.cWriteMemory then
      match p.params with
      | [a, n, _] =>
        if a + n ≤ d.mem.length then .fromHost d (genericResp 0 p.tag) a n finalSt
        else .single d (genericResp Spec.stMemoryRangeInvalid p.tag)
      | _ => .single d (genericResp Spec.stFail p.tag)
    else if p.tag = Spec.cReceiveSbFile then
      match p.params with
      | [n] => .fromHost { d with sb := [] } (genericResp 0 p.tag) 0 n finalSt
      | _ => .single d (genericResp Spec.stFail p.tag)
    else if p.tag = Spec.cExecute ∨ p.tag = Spec.cCall ∨ p.tag = Spec.cFlashEraseAllUnsecure
         ∨ p.tag = Spec.cConfigureMemory ∨ p.tag = Spec.cReliableUpdate then
      .single { d with log := d.log ++ [(p.tag, p.params)] } (genericResp 0 p.tag)
    else if p.tag = Spec.cReset then
      .single { d with resets := d.resets + 1 } (genericResp 0 p.tag)
    else if p.tag = Spec.cFlashReadResource then
      match p.params with
      | [a, n, _] =>
        if a + n ≤ d.resource.length then
          .toHost d (lenResp Spec.rFlashReadResource 0 n) ((d.resource.drop a).take n) finalSt
        else .single d (genericResp Spec.stMemoryRangeInvalid p.tag)
      | _ => .single d (genericResp Spec.stFail p.tag)
    else if p.tag = Spec.cFlashReadOnce then
      match p.params with
      | [i, n] =>
        if n = 4 then .single d (readOnceResp 0 4 [(d.fuses.lookup i).getD 0])
        else if n = 8 then .single d (readOnceResp 0 8 [(d.fuses.lookup i).getD 0, (d.fuses.lookup (i + 1)).getD 0])
        else .single d (genericResp Spec.stFail p.tag)
      | _ => .single d (genericResp Spec.stFail p.tag)
    else if p.tag = Spec.cFlashProgramOnce then
      match p.params with
      | [i, 4, v] => .single (d.programFuse i v) (genericResp 0 p.tag)
      | [i, 8, v, w] => .single ((d.programFuse i v).programFuse (i + 1) w) (genericResp 0 p.tag)
      | _ => .single d (genericResp Spec.stFail p.tag)
    else if p.tag = Spec.cKeyProvisioning then
      match p.params with
      | [op] =>
        if op = Spec.kpEnroll then .single { d with log := d.log ++ [(p.tag, p.params)] } (genericResp 0 p.tag)
        else if op = Spec.kpReadKeyStore then
          .toHost d (lenResp Spec.rKeyProv 0 d.keyStore.length) d.keyStore finalSt
        else .single d (genericResp Spec.stFail p.tag)
      | [op, _] =>
        if op = Spec.kpWriteNonVolatile ∨ op = Spec.kpReadNonVolatile then
          .single { d with log := d.log ++ [(p.tag, p.params)] } (genericResp 0 p.tag)
        else .single d (genericResp Spec.stFail p.tag)
      | [op, t, n] =>
        if op = Spec.kpSetIntrinsicKey then .single { d with log := d.log ++ [(p.tag, p.params)] } (genericResp 0 p.tag)
        else if op = Spec.kpSetUserKey ∨ op = Spec.kpWriteKeyStore then
          .fromHost { d with kpTarget := (op, t), kpBuf := [] } (genericResp 0 p.tag) 0 n finalSt
        else .single d (genericResp Spec.stFail p.tag)
      | _ => .single d (genericResp Spec.stFail p.tag)
    else if p.tag = Spec.cUpdateLifeCycle ∨ p.tag = Spec.cEleMessage then
      .single { d with log := d.log ++ [(p.tag, p.params)] } (genericResp 0 p.tag)
    else if p.tag = Spec.cTrustProvisioning then
      match p.params with
      | op :: _ =>
        if op = Spec.tpOemSetMasterShare ∨ op = Spec.tpHsmEncBlock then
          .single { d with log := d.log ++ [(p.tag, p.params)] } (genericResp 0 p.tag)
        else .single d (genericResp Spec.stFail p.tag)
      | [] => .single d (genericResp Spec.stFail p.tag)
    else if p.tag = Spec.cFuseRead then
      -- the fuse / IFR area is the device's `resource` region; the memory id is not interpreted
      match p.params with
      | [a, n, _] =>
        if a + n ≤ d.resource.length then .toHost d (readMemResp 0 n) ((d.resource.drop a).take n) finalSt
        else .single d (genericResp Spec.stMemoryRangeInvalid p.tag)
      | _ => .single d (genericResp Spec.stFail p.tag)
    else if p.tag = Spec.cFuseProgram then
      -- the bytes to program are collected in the receive buffer `sb`; address, length and memory id are recorded
      match p.params with
      | [_, n, _] => .fromHost { d with sb := [], log := d.log ++ [(p.tag, p.params)] } (genericResp 0 p.tag) 0 n finalSt
      | _ => .single d (genericResp Spec.stFail p.tag)
    else .single d (genericResp Spec.stUnknownCommand p.tag)

/-- end of a host→device data phase: key provisioning data goes to its target -/
def Dev.finishData (d : Dev) (tag : Nat) : Dev :=
  if tag = Spec.cKeyProvisioning then
    if d.kpTarget.1 = Spec.kpWriteKeyStore then { d with keyStore := d.kpBuf }
    else { d with userKeys := (d.kpTarget.2, d.kpBuf) :: d.userKeys.filter (fun q => q.1 != d.kpTarget.2) }
  else d

/-- a data packet of the host→device data phase; `none` = refused (wrong size / no data phase) -/
def Dev.acceptData (d : Dev) (p : Bytes) : Option (Dev × Option Bytes) :=
  match d.phase with
  | .recv tag addr rem fs =>
    if p.isEmpty ∨ d.maxPacket < p.length ∨ rem < p.length then none
    else
      let d0 := { d with pktCount := d.pktCount + 1 }
      let d1 := if tag = Spec.cWriteMemory then { d0 with mem := splice d.mem addr p }
                else if tag = Spec.cKeyProvisioning then { d0 with kpBuf := d.kpBuf ++ p }
                else { d0 with sb := d.sb ++ p }
      if rem = p.length then some ({ d1.finishData tag with phase := .idle }, some (genericResp fs tag))
      else some ({ d1 with phase := .recv tag (addr + p.length) (rem - p.length) fs }, none)
  | _ => none

/-- the forced abort of the data phase hits this packet -/
def Dev.abortsNow (d : Dev) : Bool :=
  match d.phase, d.abortAfter with
  | .recv _ _ _ _, some k => d.pktCount == k
  | _, _ => false

/-- a data packet outside a data phase: collected in image mode, otherwise not accepted -/
def Dev.strayData (d : Dev) (p : Bytes) : Option Dev :=
  if d.imageMode ∧ d.phase = .idle ∧ ¬ p.isEmpty ∧ p.length ≤ d.maxPacket then some { d with image := d.image ++ p } else none

def Dev.refuseData (d : Dev) : Dev × Bytes :=
  match d.phase with
  | .recv tag _ _ _ => ({ d with phase := .idle }, genericResp Spec.stAbortDataPhase tag)
  | _ => (d, genericResp Spec.stFail 0)

/-- serial transport: one host write (a whole frame) in, the bytes the device sends in reaction out -/
def Dev.stepSerial (d : Dev) (w : Bytes) : Dev × Bytes :=
  if w = pingFrame then (d, List.replicate d.pingDummy 0 ++ pingResponse d.version d.options)
  else if w = ackFrame then
    match d.phase with
    | .send tag (c :: cs) fs => ({ d with phase := .send tag cs fs }, mkFrame Spec.fData c)
    | .send tag [] fs => ({ d with phase := .idle }, mkFrame Spec.fCmd (genericResp fs tag))
    | _ => (d, [])
  else
    match parseFrame w with
    | .ok (t, p, []) =>
      if t = Spec.fCmd then
        match parseCmd p with
        | none => (d, nakFrame)
        | some pkt =>
          match d.exec pkt with
          | .single d' r => (d', ackFrame ++ mkFrame Spec.fCmd r)
          | .toHost d' r data fs =>
            ({ d' with phase := .send pkt.tag (split d'.maxPacket data) fs }, ackFrame ++ mkFrame Spec.fCmd r)
          | .fromHost d' r a n fs =>
            (if n = 0 then { d'.finishData pkt.tag with phase := .send pkt.tag [] fs } else { d' with phase := .recv pkt.tag a n fs },
              ackFrame ++ mkFrame Spec.fCmd r)
      else if t = Spec.fData then
        if d.abortsNow then
          let (d', fin) := d.refuseData; (d', abortFrame ++ mkFrame Spec.fCmd fin)
        else
          match d.acceptData p with
          | some (d', none) => (d', ackFrame)
          | some (d', some fin) => (d', ackFrame ++ mkFrame Spec.fCmd fin)
          | none =>
            match d.phase with
            | .recv _ _ _ _ => let (d', fin) := d.refuseData; (d', ackFrame ++ mkFrame Spec.fCmd fin)
            | _ =>
              match d.strayData p with
              | some d' => (d', ackFrame)
              | none => (d, nakFrame)
      else (d, nakFrame)
    | _ => (d, nakFrame)

def padTo (n : Nat) (b : Bytes) : Bytes := b ++ List.replicate (n - b.length) 0

/-- HID transport: one report in, the reports the device sends in reaction out -/
def Dev.stepHid (d : Dev) (w : Bytes) : Dev × List Bytes :=
  let rep := fun (rid : Nat) (p : Bytes) => padTo d.hidPad (mkReport rid p)
  match parseReport w with
  | some (rid, p) =>
    if rid = Spec.ridCmdOut then
      match parseCmd p with
      | none => (d, [])
      | some pkt =>
        match d.exec pkt with
        | .single d' r => (d', [rep Spec.ridCmdIn r])
        | .toHost d' r data fs =>
          (d', [rep Spec.ridCmdIn r] ++ (split d'.maxPacket data).map (rep Spec.ridDataIn) ++ [rep Spec.ridCmdIn (genericResp fs pkt.tag)])
        | .fromHost d' r a n fs =>
          if n = 0 then (d'.finishData pkt.tag, [rep Spec.ridCmdIn r, rep Spec.ridCmdIn (genericResp fs pkt.tag)])
          else ({ d' with phase := .recv pkt.tag a n fs }, [rep Spec.ridCmdIn r])
    else if rid = Spec.ridDataOut then
      if d.abortsNow then
        let (d', fin) := d.refuseData; (d', [rep Spec.ridCmdIn [], rep Spec.ridCmdIn fin])   -- zero length report = abort
      else
        match d.acceptData p with
        | some (d', none) => (d', [])
        | some (d', some fin) => (d', [rep Spec.ridCmdIn fin])
        | none =>
          match d.phase with
          | .recv _ _ _ _ => let (d', fin) := d.refuseData; (d', [rep Spec.ridCmdIn fin])
          | _ =>
            match d.strayData p with
            | some d' => (d', [])
            | none => (d, [])
    else (d, [])
  | none => (d, [])

/-! ## the host -/

inductive Transport where
  | serial | hid
  deriving DecidableEq, Repr

structure Cfg where
  tr : Transport := .serial
  /-- the device object is a `UsbDevice` (chunked `read_memory` workaround) -/
  usb : Bool := false
  /-- serial `device.read(n)` returns fewer bytes when fewer are available (pyserial) instead of timing out -/
  partialReads : Bool := false
  cmdExc : Bool := false
  deriving DecidableEq, Repr

inductive Peer where
  | none
  /-- replay: the i-th host write releases the i-th chunk (serial: its concatenation, HID: its reports) -/
  | script (chunks : List (List Bytes))
  | live (d : Dev)
  deriving DecidableEq

structure Host where
  cfg : Cfg := {}
  status : Nat := 0
  mps : Option Nat := none
  eda : Bool := false
  /-- `device.is_opened` -/
  opened : Bool := true
  rxB : Bytes := []
  rxR : List Bytes := []
  txRev : List Bytes := []
  relRev : List (List Bytes) := []
  peer : Peer := .none
  fuelHint : Nat := 0
  /-- number of `device.read` calls made so far (the bounded-time clause counts them) -/
  reads : Nat := 0
  deriving DecidableEq

/-- `device.write(w)` -/
def Host.write (h : Host) (w : Bytes) : Host :=
  let (peer', out) : Peer × List Bytes :=
    match h.peer with
    | .none => (.none, [])
    | .script [] => (.script [], [])
    | .script (c :: cs) => (.script cs, c)
    | .live d =>
      match h.cfg.tr with
      | .serial => let (d', o) := d.stepSerial w; (.live d', [o])
      | .hid => let (d', o) := d.stepHid w; (.live d', o)
  match h.cfg.tr with
  | .serial => { h with txRev := w :: h.txRev, relRev := out :: h.relRev, peer := peer', rxB := h.rxB ++ out.flatten }
  | .hid => { h with txRev := w :: h.txRev, relRev := out :: h.relRev, peer := peer', rxR := h.rxR ++ out }

def H (α : Type) : Type := Host → Except HErr α × Host

namespace H
@[inline] protected def pure {α} (a : α) : H α := fun s => (.ok a, s)
@[inline] protected def bind {α β} (m : H α) (f : α → H β) : H β := fun s =>
  match m s with
  | (.ok a, s') => f a s'
  | (.error e, s') => (.error e, s')
instance : Monad H where
  pure := H.pure
  bind := H.bind
@[inline] def fail {α} (e : HErr) : H α := fun s => (.error e, s)
@[inline] def catch_ {α} (m : H α) (hd : HErr → H α) : H α := fun s =>
  match m s with
  | (.ok a, s') => (.ok a, s')
  | (.error e, s') => hd e s'
@[inline] def get : H Host := fun s => (.ok s, s)
@[inline] def modify (f : Host → Host) : H Unit := fun s => (.ok (), f s)
@[inline] def lift {α} (x : Except HErr α) : H α := fun s => (x, s)
end H
open H

def setStatus (st : Nat) : H Unit := modify (fun h => { h with status := st })
def devWrite (w : Bytes) : H Unit := modify (·.write w)

/-! ### serial link -/

/-- `device.read(n)` of the serial stub -/
def devRead (n : Nat) : H Bytes := fun h0 =>
  let h := { h0 with reads := h0.reads + 1 }
  if n = 0 ∨ h.rxB.isEmpty then (.error .timeout, h)
  else if n ≤ h.rxB.length then (.ok (h.rxB.take n), { h with rxB := h.rxB.drop n })
  else if h.cfg.partialReads then (.ok h.rxB, { h with rxB := [] })
  else (.error .timeout, { h with rxB := [] })

/-- `_wait_for_data`: skip "not ready" zero bytes (the wall-clock bound of the loop is not modelled:
    the stub never makes the host wait, so the loop ends at a non-zero byte or with a read timeout) -/
def waitGo : Nat → H Nat
  | 0 => fail .conn
  | f + 1 => do
    let b ← devRead 1
    let v := fromLe b
    if v = 0 then waitGo f else pure v

def waitForData : H Nat := fun h => waitGo (h.rxB.length + 1) h

/-- `_read_frame_header(expected_frame_type)` -/
def readFrameHeader (expected : Option Nat) : H (Nat × Nat) := do
  let header ← waitForData
  if header ≠ Spec.startByte ∧ header ≠ Spec.fAck then fail .conn
  else do
    let ftype ← if header = Spec.fAck then pure header else (do let b ← devRead 1; pure (fromLe b))
    if ftype = Spec.fAbort then fail .abort
    else
      match expected with
      | some e =>
        let ft := if ftype = Spec.startByte then header else ftype
        if ft ≠ e then fail .conn else pure (header, ft)
      | none => pure (header, ftype)

inductive RxItem where
  | resp (r : Resp)
  | data (b : Bytes)
  deriving DecidableEq, Repr

def sendAck : H Unit := devWrite ackFrame

/-- `MbootSerialProtocol.read()` -/
def serialRead : H RxItem := do
  let (_, ftype) ← readFrameHeader none
  let lenB ← devRead 2
  let crcB ← devRead 2
  let len := fromLe lenB
  if len = 0 then do sendAck; fail .abort
  else do
    let data ← devRead len
    sendAck
    if fromLe crcB ≠ frameCrc ftype data then fail .conn
    else if ftype = Spec.fCmd then
      match parseCmdResponse data with
      | .ok r => pure (.resp r)
      | .error e => fail e
    else pure (.data data)

/-- `_create_frame` + `_send_frame(frame)` (waits for the ACK) -/
def serialSendFrame (t : Nat) (data : Bytes) : H Unit :=
  if 65536 ≤ data.length then fail .other      -- struct.error: 'H' format
  else do
    devWrite (mkFrame t data)
    let _ ← readFrameHeader (some Spec.fAck)
    pure ()

/-! ### HID link -/

/-- `device.read(1024)` of the HID stub: the next report -/
def hidDevRead : H Bytes := fun h0 =>
  let h := { h0 with reads := h0.reads + 1 }
  match h.rxR with
  | [] => (.error .timeout, h)
  | r :: rs => if r.isEmpty then (.error .timeout, { h with rxR := rs }) else (.ok r, { h with rxR := rs })

/-- `MbootBulkProtocol._parse_frame` (with the length checks of fix C10-1) -/
def hidParseFrame (raw : Bytes) : Except HErr RxItem :=
  match raw with
  | rid :: _ :: l0 :: l1 :: rest =>
    let plen := fromLe [l0, l1]
    if plen = 0 then .error .abort
    else if rest.length < plen then .error .conn
    else
      let data := rest.take plen
      if rid.toNat = Spec.ridCmdIn then
        match parseCmdResponse data with
        | .ok r => .ok (.resp r)
        | .error e => .error e
      else .ok (.data data)
  | _ => .error .conn

def hidRead : H RxItem := do
  let raw ← hidDevRead
  lift (hidParseFrame raw)

def hidWriteReport (rid : Nat) (data : Bytes) : H Unit :=
  if 65536 ≤ data.length then fail .other else devWrite (mkReport rid data)

/-- `MbootBulkProtocol.write_data` -/
def hidWriteData (allowAbort : Bool) (data : Bytes) : H Unit :=
  if 65536 ≤ data.length then fail .other
  else do
    if allowAbort then
      let got ← catch_ (do let r ← hidDevRead; pure (some r)) (fun e => if e = .timeout then pure none else fail e)
      match got with
      | some _ => fail .abort
      | none => devWrite (mkReport Spec.ridDataOut data)
    else devWrite (mkReport Spec.ridDataOut data)

/-! ### protocol interface used by `McuBoot` -/

def readAny : H RxItem := do
  let h ← get
  match h.cfg.tr with
  | .serial => serialRead
  | .hid => hidRead

/-- `CmdPacket.to_bytes(padding=False)`: `struct.pack` refuses values that do not fit -/
def CmdPkt.toBytes (p : CmdPkt) : Except HErr Bytes :=
  if 256 ≤ p.tag ∨ 256 ≤ p.flags ∨ 256 ≤ p.params.length ∨ p.params.any (fun v => 4294967296 ≤ v) then .error .other
  else .ok p.encode

def writeCommand (p : CmdPkt) : H Unit := do
  let data ← lift p.toBytes
  let h ← get
  match h.cfg.tr with
  | .serial => serialSendFrame Spec.fCmd data
  | .hid => hidWriteReport Spec.ridCmdOut data

def writeData (allowAbort : Bool) (data : Bytes) : H Unit := do
  let h ← get
  match h.cfg.tr with
  | .serial => serialSendFrame Spec.fData data
  | .hid => hidWriteData allowAbort data

/-! ### `McuBoot` -/

def noResponse (tag : Nat) : Resp := { kind := .noResponse, tag, pc := 0, status := Spec.stNoResponse }

/-- `_process_cmd` -/
def requireOpen : H Unit := do
  let h ← get
  if h.opened then pure () else fail .conn     -- "Device not opened"

def processCmd (p : CmdPkt) : H Resp := do
  requireOpen
  let r ← catch_ (do writeCommand p; readAny)
    (fun e => if e = .timeout then do setStatus Spec.stNoResponse; pure (.resp (noResponse p.tag)) else fail e)
  match r with
  | .data _ => fail .other                 -- assert isinstance(response, CmdResponse)
  | .resp r => do
    setStatus r.status
    let h ← get
    if h.cfg.cmdExc ∧ r.status ≠ Spec.stSuccess then fail (.cmd r.status) else pure r

/-- the `while True` loop of `_read_data`; `none` result of one read = timeout (break) -/
def readDataLoop (cmdTag : Nat) : Nat → Bytes → H Bytes
  | 0, _ => fail .fuel
  | f + 1, acc => do
    let r ← catch_ (do let x ← readAny; pure (some x))
      (fun e =>
        if e = .abort then (do let x ← readAny; pure (some x))
        else if e = .timeout then (do setStatus Spec.stNoResponse; pure none)
        else fail e)
    match r with
    | none => pure acc
    | some (.data b) => readDataLoop cmdTag f (acc ++ b)
    | some (.resp r) =>
      if r.kind = .generic then do
        setStatus r.status
        if r.cmdTag = cmdTag then pure acc else readDataLoop cmdTag f acc
      else readDataLoop cmdTag f acc

/-- `_read_data(cmd_tag, length)` (with the status correction of fix C10-2) -/
def readData (cmdTag length : Nat) : H Bytes := do
  requireOpen
  let h ← get
  let data ← readDataLoop cmdTag (length + h.fuelHint + h.rxB.length + h.rxR.length + 8) []
  let h ← get
  if data.length < length ∨ h.status ≠ Spec.stSuccess then do
    if h.status = Spec.stSuccess then setStatus Spec.stFail
    let h ← get
    if h.cfg.cmdExc then fail (.cmd h.status) else pure (data.take length)
  else pure (data.take length)

/-- the `for data_chunk in data` loop of `_send_data`: never throws, reports the bytes sent and the error -/
def sendChunks (allowAbort : Bool) : List Bytes → Nat → H (Nat × Option HErr)
  | [], sent => pure (sent, none)
  | c :: cs, sent => fun h =>
    match writeData allowAbort c h with
    | (.ok _, h') => sendChunks allowAbort cs (sent + c.length) h'
    | (.error e, h') => (.ok (sent, some e), h')

def sendDataHandler (e : HErr) : H RxItem :=
  if e = .timeout then do setStatus Spec.stNoResponse; fail .conn
  else if e.isSpsdk then readAny
  else fail e

/-- `_send_data(cmd_tag, chunks)` for a command that expects a final response -/
def sendData (chunks : List Bytes) : H Bool := do
  requireOpen
  let h ← get
  let total := (chunks.map List.length).sum
  let (sent, err) ← sendChunks h.eda chunks 0
  let r ← match err with
    | none => catch_ readAny sendDataHandler
    | some e => sendDataHandler e
  match r with
  | .data _ => fail .other
  | .resp r => do
    setStatus r.status
    if r.status ≠ Spec.stSuccess then
      if h.cfg.cmdExc then fail (.cmd r.status) else pure false
    else pure (sent == total)

/-- `_send_data(CommandTag.NO_COMMAND, chunks)` (`load_image`): no final response is expected -/
def sendDataNoResp (chunks : List Bytes) : H Bool := do
  requireOpen
  let h ← get
  let total := (chunks.map List.length).sum
  let (sent, err) ← sendChunks h.eda chunks 0
  match err with
  | none => pure (sent == total)
  | some e =>
    if e = .timeout then do setStatus Spec.stNoResponse; fail .conn
    else if e.isSpsdk then do setStatus Spec.stSendingOperationConditionError; pure (sent == total)
    else fail e

/-- `get_property(prop_tag, index)` -/
def getProperty (tag index : Nat) : H (Option (List Nat)) := do
  let r ← processCmd ⟨Spec.cGetProperty, 0, [tag, index]⟩
  if r.status = Spec.stSuccess then
    if r.kind = .getProperty then pure (some r.values) else fail .mboot
  else pure none

/-- `_get_max_packet_size` -/
def getMaxPacketSize : H Nat := do
  let h ← get
  match h.mps with
  | some v => pure v
  | none => do
    let v ← catch_ (getProperty Spec.propMaxPacketSize 0) (fun e => if e.isMcuBoot then pure none else fail e)
    let vals := v.getD [Spec.defaultMaxPacket]
    match vals with
    | [] => fail .other                      -- IndexError
    | x :: _ => do
      modify (fun h => { h with mps := some x })
      pure x

/-- `_split_data` (`need_data_split` is `True` for both protocols) -/
def splitData (data : Bytes) : H (List Bytes) := do
  let n ← getMaxPacketSize
  if n = 0 then fail .other else pure (split n data)   -- ValueError: range() arg 3 must not be zero

/-- `_clamp_down_memory_id` -/
def clampMemId (m : Nat) : Nat := if 255 < m ∨ m = 0 then m else 0

/-- the USB-HID chunk loop of `read_memory` (with the early return of fix C10-3) -/
def readChunks (addr memId payload remainder packets : Nat) : Nat → Bytes → H Bytes
  | 0, acc => pure acc
  | k + 1, acc => do
    let idx := packets - (k + 1)
    let dataLen := if idx = packets - 1 ∧ remainder ≠ 0 then remainder else payload
    let r ← processCmd ⟨Spec.cReadMemory, 0, [addr + idx * payload, dataLen, memId]⟩
    if r.status = Spec.stSuccess then do
      let d ← readData Spec.cReadMemory dataLen
      let h ← get
      if h.status ≠ Spec.stSuccess then pure (acc ++ d)
      else readChunks addr memId payload remainder packets k (acc ++ d)
    else pure []

inductive Val where
  | unit
  | none
  | bool (b : Bool)
  | bytes (b : Bytes)
  | ints (l : List Nat)
  | int (n : Nat)
  deriving DecidableEq, Repr

/-- `read_memory(address, length, mem_id, fast_mode)` -/
def readMemory (addr length memId : Nat) (fast : Bool) : H Val := do
  let m := clampMemId memId
  let h ← get
  if h.cfg.usb ∧ ¬ fast then do
    let payload ← getMaxPacketSize
    if payload = 0 then fail .other           -- ZeroDivisionError
    else do
      let remainder := length % payload
      let packets := length / payload + (if remainder ≠ 0 then 1 else 0)
      let d ← readChunks addr m payload remainder packets packets []
      pure (.bytes d)
  else do
    let r ← processCmd ⟨Spec.cReadMemory, 0, [addr, length, m]⟩
    if r.status = Spec.stSuccess then
      if r.kind = .readMemory then do
        let d ← readData Spec.cReadMemory r.length
        pure (.bytes d)
      else fail .other                        -- assert isinstance(cmd_response, ReadMemoryResponse)
    else pure .none

/-- `write_memory(address, data, mem_id)` -/
def writeMemory (addr : Nat) (data : Bytes) (memId : Nat) : H Val := do
  let chunks ← splitData data
  let m := clampMemId memId
  let r ← processCmd ⟨Spec.cWriteMemory, Spec.flagHasDataPhase, [addr, data.length, m]⟩
  if r.status = Spec.stSuccess then do
    let ok ← sendData chunks
    pure (.bool ok)
  else pure (.bool false)

/-- `receive_sb_file(data, check_errors=…)` -/
def receiveSbFile (data : Bytes) (checkErrors : Bool) : H Val := do
  let chunks ← splitData data
  let r ← processCmd ⟨Spec.cReceiveSbFile, Spec.flagHasDataPhase, [data.length]⟩
  if r.status = Spec.stSuccess then do
    modify (fun h => { h with eda := checkErrors })
    let ok ← sendData chunks
    modify (fun h => { h with eda := false })
    pure (.bool ok)
  else pure (.bool false)

/-- API methods of the shape: `_split_data`; command with data phase flag; `_send_data` if the command succeeded -/
def dataOutCmd (tag : Nat) (params : List Nat) (data : Bytes) : H Val := do
  let chunks ← splitData data
  let r ← processCmd ⟨tag, Spec.flagHasDataPhase, params⟩
  if r.status = Spec.stSuccess then do
    let ok ← sendData chunks
    pure (.bool ok)
  else pure (.bool false)

/-- API methods of the shape: command; `assert isinstance(response, cls)`; `_read_data(tag, response.length)` -/
def dataInCmd (tag : Nat) (params : List Nat) (kind : RKind) : H Val := do
  let r ← processCmd ⟨tag, 0, params⟩
  if r.status = Spec.stSuccess then
    if r.kind = kind then do
      let d ← readData tag r.length
      pure (.bytes d)
    else fail .other
  else pure .none

/-- `load_image(data)` -/
def loadImage (data : Bytes) : H Val := do
  let chunks ← splitData data
  setStatus Spec.stSuccess
  let ok ← sendDataNoResp chunks
  pure (.bool ok)

/-- `efuse_read_once(index)` -/
def efuseReadOnce (index : Nat) : H (Option Nat) := do
  let r ← processCmd ⟨Spec.cFlashReadOnce, 0, [index, 4]⟩
  if r.status = Spec.stSuccess then
    if r.kind = .flashReadOnce then
      match r.values with
      | v :: _ => pure (some v)
      | [] => fail .other                      -- IndexError
    else fail .other
  else pure none

/-- `efuse_program_once(index, value, verify)` -/
def efuseProgramOnce (index value : Nat) (verify : Bool) : H Val := do
  let r ← processCmd ⟨Spec.cFlashProgramOnce, 0, [index, 4, value]⟩
  if r.status ≠ Spec.stSuccess then pure (.bool false)
  else if verify then do
    let rv ← efuseReadOnce (index % 16777216)
    match rv with
    | none => pure (.bool false)
    | some x =>
      if x &&& value = value then pure (.bool true)
      else do setStatus Spec.stOtpVerifyFail; pure (.bool false)
  else pure (.bool true)

/-- `flash_read_once(index, count)` -/
def flashReadOnce (index count : Nat) : H Val :=
  if count ≠ 4 ∧ count ≠ 8 then fail .spsdk
  else do
    let r ← processCmd ⟨Spec.cFlashReadOnce, 0, [index, count]⟩
    if r.status = Spec.stSuccess then
      if r.kind = .flashReadOnce then pure (.bytes r.data) else fail .other
    else pure .none

/-- `CmdPacket(..., data=data)`: the data are appended as little-endian words (zero padded) -/
def wordsOf : Bytes → List Nat
  | [] => []
  | a :: b :: c :: d :: r => fromLe [a, b, c, d] :: wordsOf r
  | l => [fromLe l]

/-- `flash_program_once(index, data)` -/
def flashProgramOnce (index : Nat) (data : Bytes) : H Val :=
  if data.length ≠ 4 ∧ data.length ≠ 8 then fail .spsdk
  else do
    let r ← processCmd ⟨Spec.cFlashProgramOnce, 0, [index, data.length] ++ wordsOf data⟩
    pure (.bool (r.status = Spec.stSuccess))

/-- every API method of the shape `return self._process_cmd(CmdPacket(tag, NONE, *args)).status == SUCCESS` -/
def simpleCmd (tag : Nat) (params : List Nat) : H Val := do
  let r ← processCmd ⟨tag, 0, params⟩
  pure (.bool (r.status = Spec.stSuccess))

/-- `MbootSerialProtocol._ping` -/
def pingDummyLoop : Nat → H Bool
  | 0 => pure false
  | f + 1 => do
    let b ← devRead 1
    if b = [UInt8.ofNat Spec.startByte] then pure true else pingDummyLoop f

def ping : H Unit := do
  devWrite pingFrame
  let found ← pingDummyLoop Spec.maxPingDummy
  if ¬ found then fail .conn
  else do
    let t ← devRead 1
    let ft := fromLe t
    if ft < Spec.fAck ∨ Spec.fPingR < ft then fail .spsdk   -- FPType.from_tag: SPSDKKeyError
    else if ft ≠ Spec.fPingR then fail .conn
    else do
      let body ← devRead 8
      if body.length ≠ 8 then fail .conn                    -- struct.error -> McuBootConnectionError
      else
        let crc := fromLe (body.drop 6)
        if crc16 ([UInt8.ofNat Spec.startByte, UInt8.ofNat ft] ++ body.take 6) ≠ crc then fail .conn else pure ()

/-- `MbootSerialProtocol.open()`: up to three ping attempts -/
def openSerial : Nat → H Unit
  | 0 => fail .conn
  | k + 1 => do
    modify (fun h => { h with opened := true })
    catch_ ping (fun e => do
      modify (fun h => { h with opened := false })
      if e = .timeout ∨ e = .conn then openSerial k else fail .conn)

/-- `reset(reopen=…)` (the sleep before re-opening is not modelled) -/
def reset (reopen : Bool) : H Val := do
  let r ← processCmd ⟨Spec.cReset, 0, []⟩
  modify (fun h => { h with opened := false })
  let h ← get
  let bad : Bool := r.status ≠ Spec.stNoResponse ∧ r.status ≠ Spec.stSuccess
  if bad ∧ h.cfg.cmdExc then fail .conn                  -- "Reset command failed"
  else do
    if r.status = Spec.stNoResponse then setStatus Spec.stSuccess
    if reopen then
      match h.cfg.tr with
      | .hid => do
        modify (fun h => { h with opened := true })
        pure (.bool (!bad))
      | .serial =>
        catch_ (do openSerial Spec.openAttempts; pure (.bool (!bad)))
          (fun e => if e.isSpsdk then (if h.cfg.cmdExc then fail .conn else pure (.bool false)) else fail e)
    else pure (.bool (!bad))

inductive Op where
  | open_
  | getProperty (tag index : Nat)
  | setProperty (tag value : Nat)
  | fillMemory (addr len pattern : Nat)
  | eraseRegion (addr len memId : Nat)
  | eraseAll (memId : Nat)
  | execute (addr arg sp : Nat)
  | call (addr arg : Nat)
  | eraseAllUnsecure
  | configureMemory (addr memId : Nat)
  | reliableUpdate (addr : Nat)
  | readMemory (addr len memId : Nat) (fast : Bool)
  | writeMemory (addr : Nat) (data : Bytes) (memId : Nat)
  | receiveSbFile (data : Bytes) (checkErrors : Bool)
  | loadImage (data : Bytes)
  | flashReadOnce (index count : Nat)
  | flashProgramOnce (index : Nat) (data : Bytes)
  | efuseReadOnce (index : Nat)
  | efuseProgramOnce (index value : Nat) (verify : Bool)
  | flashReadResource (addr len option : Nat)
  | kpEnroll
  | kpSetIntrinsicKey (keyType keySize : Nat)
  | kpWriteNonvolatile (memId : Nat)
  | kpReadNonvolatile (memId : Nat)
  | kpSetUserKey (keyType : Nat) (data : Bytes)
  | kpWriteKeyStore (data : Bytes)
  | kpReadKeyStore
  | reset (reopen : Bool)
  /-- every API method `return self._process_cmd(CmdPacket(tag, NONE, *params)).status == SUCCESS` not listed above:
      `update_life_cycle`, `ele_message`, `tp_oem_set_master_share`, `tp_hsm_enc_blk` (see the `Op.…` abbreviations below) -/
  | logCmd (tag : Nat) (params : List Nat)
  | fuseProgram (addr : Nat) (data : Bytes) (memId : Nat)
  | fuseRead (addr len memId : Nat)
  deriving DecidableEq, Repr

/-- `update_life_cycle(life_cycle)` -/
abbrev Op.updateLifeCycle (lc : Nat) : Op := .logCmd Spec.cUpdateLifeCycle [lc]
/-- `ele_message(cmdMsgAddr, cmdMsgCnt, respMsgAddr, respMsgCnt)` (first word reserved = 0) -/
abbrev Op.eleMessage (ca cc ra rc : Nat) : Op := .logCmd Spec.cEleMessage [0, ca, cc, ra, rc]
/-- `tp_oem_set_master_share(share_addr, share_size, enc_master_share_addr, enc_master_share_size)` -/
abbrev Op.tpOemSetMasterShare (a b c d : Nat) : Op := .logCmd Spec.cTrustProvisioning [Spec.tpOemSetMasterShare, a, b, c, d]
/-- `tp_hsm_enc_blk(blob_addr, blob_size, kek_id, hdr_addr, hdr_size, block_num, block_addr, block_size)` -/
abbrev Op.tpHsmEncBlk (a b k c d n e f : Nat) : Op := .logCmd Spec.cTrustProvisioning [Spec.tpHsmEncBlock, a, b, k, c, d, n, e, f]

def runOp : Op → H Val
  | .open_ => do
    let h ← get
    match h.cfg.tr with
    | .serial => do openSerial Spec.openAttempts; pure .unit
    | .hid => do modify (fun h => { h with opened := true }); pure .unit
  | .getProperty t i => do
    let v ← getProperty t i
    match v with
    | some l => pure (.ints l)
    | none => pure .none
  | .setProperty t v => simpleCmd Spec.cSetProperty [t, v]
  | .fillMemory a n p => simpleCmd Spec.cFillMemory [a, n, p]
  | .eraseRegion a n m => simpleCmd Spec.cFlashEraseRegion [a, n, clampMemId m]
  | .eraseAll m => simpleCmd Spec.cFlashEraseAll [m]
  | .execute a g s => simpleCmd Spec.cExecute [a, g, s]
  | .call a g => simpleCmd Spec.cCall [a, g]
  | .eraseAllUnsecure => simpleCmd Spec.cFlashEraseAllUnsecure []
  | .configureMemory a m => simpleCmd Spec.cConfigureMemory [m, a]
  | .reliableUpdate a => simpleCmd Spec.cReliableUpdate [a]
  | .readMemory a n m f => readMemory a n m f
  | .writeMemory a d m => writeMemory a d m
  | .receiveSbFile d c => receiveSbFile d c
  | .loadImage d => loadImage d
  | .flashReadOnce i c => flashReadOnce i c
  | .flashProgramOnce i d => flashProgramOnce i d
  | .efuseReadOnce i => do
    let v ← efuseReadOnce i
    match v with
    | some x => pure (.int x)
    | none => pure .none
  | .efuseProgramOnce i v c => efuseProgramOnce i v c
  | .flashReadResource a n o =>
    if n % 4 ≠ 0 then fail .mboot else dataInCmd Spec.cFlashReadResource [a, n, o] .flashReadResource
  | .kpEnroll => simpleCmd Spec.cKeyProvisioning [Spec.kpEnroll]
  | .kpSetIntrinsicKey t z => simpleCmd Spec.cKeyProvisioning [Spec.kpSetIntrinsicKey, t, z]
  | .kpWriteNonvolatile m => simpleCmd Spec.cKeyProvisioning [Spec.kpWriteNonVolatile, m]
  | .kpReadNonvolatile m => simpleCmd Spec.cKeyProvisioning [Spec.kpReadNonVolatile, m]
  | .kpSetUserKey t d => dataOutCmd Spec.cKeyProvisioning [Spec.kpSetUserKey, t, d.length] d
  | .kpWriteKeyStore d => dataOutCmd Spec.cKeyProvisioning [Spec.kpWriteKeyStore, 0, d.length] d
  | .kpReadKeyStore => dataInCmd Spec.cKeyProvisioning [Spec.kpReadKeyStore] .keyProv
  | .reset r => reset r
  | .logCmd t ps => simpleCmd t ps
  | .fuseProgram a d m => dataOutCmd Spec.cFuseProgram [a, d.length, clampMemId m] d
  | .fuseRead a n m => dataInCmd Spec.cFuseRead [a, n, clampMemId m] .readMemory

/-- *Observable success* (DESIGN §6 C10): nothing raised, the value is not `None`/`False`, status is SUCCESS -/
def succeeded (r : Except HErr Val) (h : Host) : Prop :=
  h.status = Spec.stSuccess ∧ ∃ v, r = .ok v ∧ v ≠ .none ∧ v ≠ .bool false

instance (r : Except HErr Val) (h : Host) : Decidable (succeeded r h) := by
  unfold succeeded
  cases r with
  | error e => exact isFalse (by rintro ⟨_, v, hv, _⟩; cases hv)
  | ok v =>
    exact if hs : h.status = Spec.stSuccess ∧ v ≠ .none ∧ v ≠ .bool false
      then isTrue ⟨hs.1, v, rfl, hs.2.1, hs.2.2⟩
      else isFalse (by rintro ⟨h1, v', hv, h2, h3⟩; cases hv; exact hs ⟨h1, h2, h3⟩)

/-! ## specification vocabulary (used by Properties/C10.lean) -/

/-- host and live reference device are in step: nothing in flight, device idle, interface open -/
structure Synced (h : Host) (d : Dev) : Prop where
  peer : h.peer = .live d
  idle : d.phase = .idle
  rxB : h.rxB = []
  rxR : h.rxR = []
  opened : h.opened = true

/-- a well-formed reference device without forced errors -/
structure Dev.OK (d : Dev) : Prop where
  mp_pos : 0 < d.maxPacket
  mp_lt : d.maxPacket < 65536
  mem_lt : d.mem.length < 4294967296
  nofault : d.faults = []
  props_lt : ∀ q ∈ d.props, q.2 < 4294967296
  fuses_lt : ∀ q ∈ d.fuses, q.2 < 4294967296
  noabort : d.abortAfter = none
  keystore_lt : d.keyStore.length < 4294967296

/-- the device after a command it only records -/
def Dev.logged (d : Dev) (tag : Nat) (params : List Nat) : Dev :=
  { d with ncmd := d.ncmd + 1, pktCount := 0, log := d.log ++ [(tag, params)] }

/-- result of an operation the device refused with status `st` -/
def specFail (ce : Bool) (st : Nat) (v : Val) : Except HErr Val := if ce then .error (.cmd st) else .ok v

/-! ### truncation of the device→host stream, and the read budget -/

/-- cut a replay script: keep the first `k` bytes of what the chunks release (serial link), nothing afterwards -/
def truncChunks : Nat → List (List Bytes) → List (List Bytes)
  | _, [] => []
  | k, c :: cs =>
    if c.flatten.length ≤ k then c :: truncChunks (k - c.flatten.length) cs
    else [c.flatten.take k] :: cs.map (fun _ => [])

/-- the serial device→host stream (what is readable now followed by everything the script will release) cut after `k` bytes -/
def Host.truncate (k : Nat) (h : Host) : Host :=
  match h.peer with
  | .script cs =>
    if h.rxB.length ≤ k then { h with peer := .script (truncChunks (k - h.rxB.length) cs) }
    else { h with rxB := h.rxB.take k, peer := .script (cs.map (fun _ => [])) }
  | _ => h

/-- cut a replay script after `k` whole HID reports -/
def truncReports : Nat → List (List Bytes) → List (List Bytes)
  | _, [] => []
  | k, c :: cs =>
    if c.length ≤ k then c :: truncReports (k - c.length) cs
    else c.take k :: cs.map (fun _ => [])

/-- the HID device→host stream cut after `k` reports (the following reports are missing) -/
def Host.truncateReports (k : Nat) (h : Host) : Host :=
  match h.peer with
  | .script cs =>
    if h.rxR.length ≤ k then { h with peer := .script (truncReports (k - h.rxR.length) cs) }
    else { h with rxR := h.rxR.take k, peer := .script (cs.map (fun _ => [])) }
  | _ => h

/-- what an observer sees of a finished operation -/
def observable (x : Except HErr Val × Host) : Except HErr Val × Nat × List Bytes := (x.1, x.2.status, x.2.txRev)

/-- everything the host can still read: available now plus what a replay script will release
    (every report / released string counts one extra unit, so that every successful read consumes at least one unit) -/
def Host.pending (h : Host) : Nat :=
  h.rxB.length + (h.rxR.map (fun r => r.length + 1)).sum +
    (match h.peer with
     | .script cs => (cs.map (fun c => (c.map (fun r => r.length + 1)).sum)).sum
     | _ => 0)

/-- bytes of host→device payload of an operation (its data phase has at most this many packets) -/
def Op.dataLen : Op → Nat
  | .writeMemory _ d _ => d.length
  | .receiveSbFile d _ => d.length
  | .loadImage d => d.length
  | .kpSetUserKey _ d => d.length
  | .kpWriteKeyStore d => d.length
  | .fuseProgram _ d _ => d.length
  | _ => 0

/-- What the protocol defines as the effect of one operation on the device, its result and the status code
    (no link faults; `ce` = cmd_exception, `usb` = the device object is a `UsbDevice`).
    `none`: operation (or argument range) not covered by the refinement theorem.
    Bookkeeping fields of the reference device (`ncmd`, `pktCount`, `kpTarget`, `kpBuf`) are part of the state. -/
def specOp (ce usb : Bool) (d : Dev) : Op → Option (Dev × Except HErr Val × Nat)
  | .writeMemory a data _ =>
    let d1 := { d with ncmd := d.ncmd + 1, pktCount := 0 }
    if a + data.length ≤ d.mem.length then
      some ({ d1 with mem := splice d.mem a data, pktCount := (split d.maxPacket data).length }, .ok (.bool true), Spec.stSuccess)
    else some (d1, specFail ce Spec.stMemoryRangeInvalid (.bool false), Spec.stMemoryRangeInvalid)
  | .readMemory a n _ fast =>
    if usb ∧ fast = false then
      -- USB-HID workaround: one READ_MEMORY command per max-packet-size chunk
      if 0 < n ∧ a + n ≤ d.mem.length then
        some ({ d with ncmd := d.ncmd + (n / d.maxPacket + (if n % d.maxPacket ≠ 0 then 1 else 0)), pktCount := 0 },
              .ok (.bytes ((d.mem.drop a).take n)), Spec.stSuccess)
      else none
    else
      let d1 := { d with ncmd := d.ncmd + 1, pktCount := 0 }
      if a + n ≤ d.mem.length then some (d1, .ok (.bytes ((d.mem.drop a).take n)), Spec.stSuccess)
      else some (d1, specFail ce Spec.stMemoryRangeInvalid .none, Spec.stMemoryRangeInvalid)
  | .receiveSbFile data _ =>
    some ({ d with ncmd := d.ncmd + 1, sb := data, pktCount := (split d.maxPacket data).length }, .ok (.bool true), Spec.stSuccess)
  | .fillMemory a n pat =>
    let d1 := { d with ncmd := d.ncmd + 1, pktCount := 0 }
    if a + n ≤ d.mem.length then some ({ d1 with mem := splice d.mem a (fillPattern n pat) }, .ok (.bool true), Spec.stSuccess)
    else some (d1, specFail ce Spec.stMemoryRangeInvalid (.bool false), Spec.stMemoryRangeInvalid)
  | .eraseRegion a n _ =>
    let d1 := { d with ncmd := d.ncmd + 1, pktCount := 0 }
    if a + n ≤ d.mem.length then some ({ d1 with mem := splice d.mem a (List.replicate n 0xFF) }, .ok (.bool true), Spec.stSuccess)
    else some (d1, specFail ce Spec.stMemoryRangeInvalid (.bool false), Spec.stMemoryRangeInvalid)
  | .eraseAll _ =>
    some ({ d with ncmd := d.ncmd + 1, pktCount := 0, mem := List.replicate d.mem.length 0xFF }, .ok (.bool true), Spec.stSuccess)
  | .getProperty t _ =>
    let d1 := { d with ncmd := d.ncmd + 1, pktCount := 0 }
    if t = Spec.propMaxPacketSize then some (d1, .ok (.ints [d.maxPacket]), Spec.stSuccess)
    else match d.props.lookup t with
      | some v => some (d1, .ok (.ints [v]), Spec.stSuccess)
      | none => some (d1, specFail ce Spec.stUnknownProperty .none, Spec.stUnknownProperty)
  | .setProperty t v =>
    let d1 := { d with ncmd := d.ncmd + 1, pktCount := 0 }
    if d.rwProps.contains t then
      some ({ d1 with props := (t, v) :: d.props.filter (fun q => q.1 != t) }, .ok (.bool true), Spec.stSuccess)
    else if (d.props.lookup t).isSome ∨ t = Spec.propMaxPacketSize then
      some (d1, specFail ce Spec.stReadOnlyProperty (.bool false), Spec.stReadOnlyProperty)
    else some (d1, specFail ce Spec.stUnknownProperty (.bool false), Spec.stUnknownProperty)
  -- commands the reference device only records
  | .execute a g sp => some (d.logged Spec.cExecute [a, g, sp], .ok (.bool true), Spec.stSuccess)
  | .call a g => some (d.logged Spec.cCall [a, g], .ok (.bool true), Spec.stSuccess)
  | .eraseAllUnsecure => some (d.logged Spec.cFlashEraseAllUnsecure [], .ok (.bool true), Spec.stSuccess)
  | .configureMemory a m => some (d.logged Spec.cConfigureMemory [m, a], .ok (.bool true), Spec.stSuccess)
  | .reliableUpdate a => some (d.logged Spec.cReliableUpdate [a], .ok (.bool true), Spec.stSuccess)
  | .kpEnroll => some (d.logged Spec.cKeyProvisioning [Spec.kpEnroll], .ok (.bool true), Spec.stSuccess)
  | .kpSetIntrinsicKey t z => some (d.logged Spec.cKeyProvisioning [Spec.kpSetIntrinsicKey, t, z], .ok (.bool true), Spec.stSuccess)
  | .kpWriteNonvolatile m => some (d.logged Spec.cKeyProvisioning [Spec.kpWriteNonVolatile, m], .ok (.bool true), Spec.stSuccess)
  | .kpReadNonvolatile m => some (d.logged Spec.cKeyProvisioning [Spec.kpReadNonVolatile, m], .ok (.bool true), Spec.stSuccess)
  -- key provisioning with data phases
  | .kpSetUserKey t data =>
    some ({ d with ncmd := d.ncmd + 1, pktCount := (split d.maxPacket data).length, kpTarget := (Spec.kpSetUserKey, t), kpBuf := data,
                   userKeys := (t, data) :: d.userKeys.filter (fun q => q.1 != t) }, .ok (.bool true), Spec.stSuccess)
  | .kpWriteKeyStore data =>
    some ({ d with ncmd := d.ncmd + 1, pktCount := (split d.maxPacket data).length, kpTarget := (Spec.kpWriteKeyStore, 0), kpBuf := data,
                   keyStore := data }, .ok (.bool true), Spec.stSuccess)
  | .kpReadKeyStore =>
    some ({ d with ncmd := d.ncmd + 1, pktCount := 0 }, .ok (.bytes d.keyStore), Spec.stSuccess)
  | .flashReadResource a n _ =>
    let d1 := { d with ncmd := d.ncmd + 1, pktCount := 0 }
    if n % 4 ≠ 0 then none
    else if a + n ≤ d.resource.length then some (d1, .ok (.bytes ((d.resource.drop a).take n)), Spec.stSuccess)
    else some (d1, specFail ce Spec.stMemoryRangeInvalid .none, Spec.stMemoryRangeInvalid)
  -- program-once words
  | .efuseReadOnce i =>
    some ({ d with ncmd := d.ncmd + 1, pktCount := 0 }, .ok (.int ((d.fuses.lookup i).getD 0)), Spec.stSuccess)
  | .flashReadOnce i c =>
    let d1 := { d with ncmd := d.ncmd + 1, pktCount := 0 }
    if c = 4 then some (d1, .ok (.bytes (le 4 ((d.fuses.lookup i).getD 0))), Spec.stSuccess)
    else if c = 8 then
      some (d1, .ok (.bytes (le 4 ((d.fuses.lookup i).getD 0) ++ le 4 ((d.fuses.lookup (i + 1)).getD 0))), Spec.stSuccess)
    else none
  | .flashProgramOnce i data =>
    match data with
    | [a, b, c, e] =>
      some ({ (d.programFuse i (fromLe [a, b, c, e])) with ncmd := d.ncmd + 1, pktCount := 0 }, .ok (.bool true), Spec.stSuccess)
    | _ => none
  | .efuseProgramOnce i v verify =>
    let d1 := d.programFuse i v
    if verify then
      let x := (d1.fuses.lookup (i % 16777216)).getD 0
      if x &&& v = v then some ({ d1 with ncmd := d.ncmd + 2, pktCount := 0 }, .ok (.bool true), Spec.stSuccess)
      else some ({ d1 with ncmd := d.ncmd + 2, pktCount := 0 }, .ok (.bool false), Spec.stOtpVerifyFail)
    else some ({ d1 with ncmd := d.ncmd + 1, pktCount := 0 }, .ok (.bool true), Spec.stSuccess)
  -- boot image without a command (the ROM collects data packets)
  | .loadImage data =>
    if d.imageMode then some ({ d with image := d.image ++ data }, .ok (.bool true), Spec.stSuccess) else none
  -- update_life_cycle / ele_message / tp_oem_set_master_share / tp_hsm_enc_blk: the device records the command as sent
  | .logCmd t ps =>
    if t = Spec.cUpdateLifeCycle ∨ t = Spec.cEleMessage ∨
        (t = Spec.cTrustProvisioning ∧ (ps.head? = some Spec.tpOemSetMasterShare ∨ ps.head? = some Spec.tpHsmEncBlock)) then
      some (d.logged t ps, .ok (.bool true), Spec.stSuccess)
    else none
  -- fuse_program: the bytes arrive once and in order in the device's receive buffer; address / length / clamped id recorded
  | .fuseProgram a data m =>
    some ({ d with ncmd := d.ncmd + 1, pktCount := (split d.maxPacket data).length, sb := data,
                   log := d.log ++ [(Spec.cFuseProgram, [a, data.length, clampMemId m])] }, .ok (.bool true), Spec.stSuccess)
  -- fuse_read: exactly the bytes of the fuse / IFR area
  | .fuseRead a n _ =>
    let d1 := { d with ncmd := d.ncmd + 1, pktCount := 0 }
    if a + n ≤ d.resource.length then some (d1, .ok (.bytes ((d.resource.drop a).take n)), Spec.stSuccess)
    else some (d1, specFail ce Spec.stMemoryRangeInvalid .none, Spec.stMemoryRangeInvalid)
  | _ => none

/-- arguments fit the 32-bit words of a command packet -/
def Op.argsOK : Op → Prop
  | .writeMemory a data m => a < 4294967296 ∧ data.length < 4294967296 ∧ m < 4294967296
  | .readMemory a n m _ => a < 4294967296 ∧ n < 4294967296 ∧ m < 4294967296
  | .receiveSbFile data _ => data.length < 4294967296
  | .fillMemory a n p => a < 4294967296 ∧ n < 4294967296 ∧ p < 4294967296
  | .eraseRegion a n m => a < 4294967296 ∧ n < 4294967296 ∧ m < 4294967296
  | .eraseAll m => m < 4294967296
  | .getProperty t i => t < 4294967296 ∧ i < 4294967296
  | .setProperty t v => t < 4294967296 ∧ v < 4294967296
  | .execute a g sp => a < 4294967296 ∧ g < 4294967296 ∧ sp < 4294967296
  | .call a g => a < 4294967296 ∧ g < 4294967296
  | .configureMemory a m => a < 4294967296 ∧ m < 4294967296
  | .reliableUpdate a => a < 4294967296
  | .kpSetIntrinsicKey t z => t < 4294967296 ∧ z < 4294967296
  | .kpWriteNonvolatile m => m < 4294967296
  | .kpReadNonvolatile m => m < 4294967296
  | .kpSetUserKey t data => t < 4294967296 ∧ data.length < 4294967296
  | .kpWriteKeyStore data => data.length < 4294967296
  | .flashReadResource a n o => a < 4294967296 ∧ n < 4294967296 ∧ o < 4294967296
  | .efuseReadOnce i => i < 4294967296
  | .flashReadOnce i _ => i < 4294967296
  | .flashProgramOnce i _ => i < 4294967296
  | .efuseProgramOnce i v _ => i < 4294967296 ∧ v < 4294967296
  | .logCmd t ps => t < 256 ∧ ps.length < 255 ∧ ∀ v ∈ ps, v < 4294967296
  | .fuseProgram a data m => a < 4294967296 ∧ data.length < 4294967296 ∧ m < 4294967296
  | .fuseRead a n m => a < 4294967296 ∧ n < 4294967296 ∧ m < 4294967296
  | _ => True

/-! ### the device aborts a host→device data phase -/

/-- where the bytes of a data-out operation go on the device: `(command tag, params builder, apply prefix)` -/
def abortPrefix (d : Dev) (tag : Nat) (a : Nat) (pre : Bytes) : Dev :=
  if tag = Spec.cWriteMemory then { d with mem := splice d.mem a pre }
  else if tag = Spec.cKeyProvisioning then { d with kpBuf := pre }
  else { d with sb := pre }

/-- What the protocol defines when the device aborts the data phase at its `(k+1)`-th packet (`d.abortAfter = some k`,
    the phase has more than `k` packets): the first `k` packets took effect, the operation fails with
    `kStatus_AbortDataPhase`.  `none`: not a data-out operation / not covered. -/
def specAbort (ce : Bool) (d : Dev) (k : Nat) : Op → Option (Dev × Except HErr Val × Nat)
  | .writeMemory a data _ =>
    let chunks := split d.maxPacket data
    if a + data.length ≤ d.mem.length ∧ k < chunks.length then
      some ({ (abortPrefix d Spec.cWriteMemory a (chunks.take k).flatten) with ncmd := d.ncmd + 1, pktCount := k },
            specFail ce Spec.stAbortDataPhase (.bool false), Spec.stAbortDataPhase)
    else none
  | .receiveSbFile data _ =>
    let chunks := split d.maxPacket data
    if k < chunks.length then
      some ({ (abortPrefix d Spec.cReceiveSbFile 0 (chunks.take k).flatten) with ncmd := d.ncmd + 1, pktCount := k },
            specFail ce Spec.stAbortDataPhase (.bool false), Spec.stAbortDataPhase)
    else none
  | .kpWriteKeyStore data =>
    let chunks := split d.maxPacket data
    if k < chunks.length then
      some ({ (abortPrefix d Spec.cKeyProvisioning 0 (chunks.take k).flatten) with
                ncmd := d.ncmd + 1, pktCount := k, kpTarget := (Spec.kpWriteKeyStore, 0) },
            specFail ce Spec.stAbortDataPhase (.bool false), Spec.stAbortDataPhase)
    else none
  | _ => none

end SpsdkVerif.Mboot
