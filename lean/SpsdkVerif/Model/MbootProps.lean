/-
Hand-written executable model of the property-value decoding of `spsdk/mboot/properties.py`
(`parse_property_value(tag, raw_values, ext_mem_id)` for the default property table, `Version`, and the value classes'
observable attributes).  Tied to /repo by harness/props/C10.py (stream `properties`); the table `classOf` is proved equal to
the `PROPERTIES` dict regenerated from the source (Generated/MbootProps.lean).
String rendering (`to_str`, size formatting) is not modelled.
-/
import SpsdkVerif.Base.Py

namespace SpsdkVerif.MbootProps
open SpsdkVerif

inductive PClass where
  | version | peripherals | int | commands | enum | bool (trueVals : List Nat) | regions | uid | extMem | irq | fuseLock | intList
  deriving DecidableEq, Repr

/-- the `PROPERTIES` table; tags not in it are handled as `PropertyTag.UNKNOWN` (0xFF, `IntListValue`) -/
def classOf (tag : Nat) : PClass :=
  if tag = 0x01 ∨ tag = 0x18 then .version
  else if tag = 0x02 then .peripherals
  else if tag = 0x07 then .commands
  else if tag = 0x08 ∨ tag = 0x09 ∨ tag = 0x16 ∨ tag = 0x17 ∨ tag = 0x1A ∨ tag = 0x1D then .enum
  else if tag = 0x0A ∨ tag = 0x0D ∨ tag = 0x13 ∨ tag = 0x22 then .bool [1]
  else if tag = 0x11 then .bool [0, 0x5AA55AA5]
  else if tag = 0x0C then .regions
  else if tag = 0x12 then .uid
  else if tag = 0x19 then .extMem
  else if tag = 0x1C then .irq
  else if tag = 0x1F then .fuseLock
  else if tag = 0x03 ∨ tag = 0x04 ∨ tag = 0x05 ∨ tag = 0x06 ∨ tag = 0x0B ∨ tag = 0x0E ∨ tag = 0x0F ∨ tag = 0x10
       ∨ tag = 0x14 ∨ tag = 0x15 ∨ tag = 0x1B ∨ tag = 0x1E ∨ tag = 0x20 ∨ tag = 0x21 then .int
  else .intList

/-! ### `Version` -/

structure Version where
  /-- `None`, or the code of an upper-case letter -/
  mark : Option Nat
  major : Nat
  minor : Nat
  fixation : Nat
  deriving DecidableEq, Repr

/-- `Version.from_int` -/
def Version.fromInt (v : Nat) : Version :=
  let m := (v >>> 24) % 256
  { mark := if 64 < m ∧ m < 91 then some m else none, major := (v >>> 16) % 256, minor := (v >>> 8) % 256, fixation := v % 256 }

/-- `Version.to_int(no_mark)` -/
def Version.toInt (x : Version) (noMark : Bool := false) : Nat :=
  let value := x.major <<< 16 ||| x.minor <<< 8 ||| x.fixation
  let mark := if noMark then 0 else match x.mark with | some m => m <<< 24 | none => 0
  value ||| mark

/-- `a <= b` of two versions (`to_int(True)` comparison) -/
def Version.le (a b : Version) : Bool := a.toInt true ≤ b.toInt true

/-! ### value classes -/

/-- `CommandTag` tags in declaration order, `PeripheryTag` tags (protocol constants; proved equal to the generated lists) -/
def allCommandTags : List Nat :=
  [0, 1, 2, 3, 4, 5, 6, 7, 8, 9, 10, 11, 12, 13, 14, 15, 16, 17, 18, 19, 20, 21, 22, 23, 24, 25, 32, 193, 194, 195]
def allPeripheryTags : List Nat := [1, 2, 4, 8, 16, 32, 64, 128]

/-- `[cmd_tag.tag for cmd_tag in CommandTag if cmd_tag.tag > 0 and (1 << cmd_tag.tag - 1) & value]` -/
def commandTagsOf (allTags : List Nat) (value : Nat) : List Nat :=
  allTags.filter (fun t => 0 < t ∧ value.testBit (t - 1))

/-- `PeripheryTag` members whose bit is set -/
def peripheralsOf (allTags : List Nat) (value : Nat) : List Nat :=
  allTags.filter (fun t => t &&& value ≠ 0)

/-- `ReservedRegionsValue`: pairs `(start, end)` with a non-zero end; an odd number of words is an `IndexError` -/
def regionsOf : List Nat → Except PyErr (List (Nat × Nat))
  | [] => .ok []
  | [_] => .error .other
  | s :: e :: rest =>
    match regionsOf rest with
    | .error x => .error x
    | .ok r => .ok (if e = 0 then r else (s, e) :: r)

def le4 (v : Nat) : List UInt8 :=
  [UInt8.ofNat (v % 256), UInt8.ofNat (v / 256 % 256), UInt8.ofNat (v / 65536 % 256), UInt8.ofNat (v / 16777216 % 256)]

/-- `DeviceUidValue.value`: the words as little-endian bytes -/
def uidBytes (raw : List Nat) : List UInt8 := raw.flatMap le4

structure ExtMem where
  value : Nat
  start : Option Nat
  totalSize : Option Nat
  pageSize : Option Nat
  sectorSize : Option Nat
  blockSize : Option Nat
  deriving DecidableEq, Repr

/-- `ExternalMemoryAttributesValue`: a field is present iff its flag bit is set (then its word must exist: `IndexError`) -/
def extMemOf (raw : List Nat) : Except PyErr ExtMem :=
  match raw with
  | [] => .error .other
  | f :: _ =>
    let field := fun (bit idx : Nat) (mul : Nat) =>
      if f &&& bit ≠ 0 then
        match raw[idx]? with
        | some v => Except.ok (some (v * mul))
        | none => Except.error PyErr.other
      else Except.ok none
    -- evaluation order of the constructor: start, size, page, sector, block
    match field 1 1 1, field 2 2 1024, field 4 3 1, field 8 4 1, field 16 5 1 with
    | .ok a, .ok b, .ok c, .ok d, .ok e => .ok ⟨f, a, b, c, d, e⟩
    | _, _, _, _, _ => .error .other

/-- `FuseLockRegister`: `32 - start` entries `(index + shift, bit shift of value)`, shift from 0 -/
def fuseRegister (value index start : Nat) : List (Nat × Bool) :=
  (List.range (32 - start)).map (fun sh => (index + sh, value.testBit sh))

/-- `FuseLockedStatus.get_fuses()` -/
def fuseLocks : List Nat → Nat → Bool → List (Nat × Bool)
  | [], _, _ => []
  | v :: rest, idx, first =>
    fuseRegister v idx (if first then 16 else 0) ++ fuseLocks rest (if first then idx + 16 else idx + 32) false

inductive PVal where
  | version (v : Version)
  | word (v : Nat)                      -- Int / Enum / AvailablePeripherals / AvailableCommands / IrqNotifierPin: `value`
  | bool (v : Nat) (truth : Bool)
  | regions (r : List (Nat × Nat))
  | uid (b : List UInt8)
  | extMem (e : ExtMem)
  | fuses (f : List (Nat × Bool))
  | words (l : List Nat)
  deriving DecidableEq, Repr

/-- `parse_property_value(tag, raw_values)` (default table, no family override) -/
def parseProperty (tag : Nat) (raw : List Nat) : Except PyErr PVal :=
  match classOf tag with
  | .intList => .ok (.words raw)
  | .regions => (regionsOf raw).map .regions
  | .uid => .ok (.uid (uidBytes raw))
  | .extMem => (extMemOf raw).map .extMem
  | .fuseLock => .ok (.fuses (fuseLocks raw 0 true))
  | c =>
    match raw with
    | [] => .error .other                 -- raw_values[0]: IndexError
    | v :: _ =>
      match c with
      | .version => .ok (.version (Version.fromInt v))
      | .bool tv => .ok (.bool v (tv.contains v))
      | _ => .ok (.word v)

end SpsdkVerif.MbootProps
