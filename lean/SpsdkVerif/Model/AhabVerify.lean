/-
Model of the *range / consistency* part of the AHAB `verify()` trees
(`AHABImage.verify`, `AHABContainer.verify/_verify`, `HeaderContainer._verify_header`, `ImageArrayEntry.verify`,
`SignatureBlock[V2].verify`, `AhabBlob.verify`) as functions returning the names of the records that are ERRORs.

The range records themselves (record name, which attribute is fed in, bounds, whether `misc.check_range` is used) are the
GENERATED tables `AhabConsts.recs*`, and `check_range` is the GENERATED translation of `spsdk/utils/misc.py::check_range`:
feeding another attribute into a record, changing a bit width or breaking `check_range` changes this model.
Records whose outcome depends on cryptography (image hash, signature, decryption) or on key parsing are inputs
(`hashOk`, `subOk`), not modelled here.  Fields are `Int` because the verifier exists to judge out-of-range values.
-/
import SpsdkVerif.Model.Ahab

namespace SpsdkVerif.AhabVerify
open SpsdkVerif SpsdkVerif.Misc SpsdkVerif.Ahab
open SpsdkVerif.Generated

/-- is the record an ERROR for the value fed in (`none` = the attribute is `None` / not known to the model)? -/
def recFails (r : AhabConsts.RangeRec) (v : Option Int) : Bool :=
  match v with
  | none => true
  | some x =>
    if r.viaCheckRange then
      match PyFuns.check_range x 0 r.hi with
      | .ok b => !b
      | .error _ => true
    else decide (x < r.lo) || decide (x > r.hi)

/-- names of the failing records of a generated table under an attribute environment -/
def failed (recs : List AhabConsts.RangeRec) (env : String → Option Int) : List String :=
  (recs.filter (fun r => recFails r (env r.value))).map (·.name)

/-! ### header (`_verify_header(tag, length, version, len(self))`) -/

structure VHeader where
  tag : Int
  length : Int
  version : Int
  objLen : Int             -- `len(self)`
  deriving Repr, DecidableEq

def headerEnv (h : VHeader) (s : String) : Option Int :=
  if s == "tag" then some h.tag else if s == "length" then some h.length
  else if s == "version" then some h.version else none

def verifyHeader (tags versions : List Nat) (h : VHeader) : List String :=
  failed AhabConsts.recsHeader (headerEnv h)
    ++ (if tags.any (fun t => (t : Int) == h.tag) then [] else ["Tag value"])
    ++ (if h.objLen == h.length then [] else ["Computed length"])
    ++ (if versions.any (fun t => (t : Int) == h.version) then [] else ["Version value"])

/-! ### image array entry -/

structure VIae where
  imageOffset : Int        -- `_image_offset`
  imageSize : Int
  loadAddress : Int
  entryPoint : Int
  flags : Int
  metaData : Int
  imageLen : Nat           -- `len(self.image)`
  sizeAlign : Nat
  hashOk : Bool            -- outcome of the "Image hash" record (cryptographic part, an input)
  deriving Repr, DecidableEq

def iaeEnv (e : VIae) (s : String) : Option Int :=
  if s == "_image_offset" then some e.imageOffset else if s == "image_size" then some e.imageSize
  else if s == "load_address" then some e.loadAddress else if s == "entry_point" then some e.entryPoint
  else if s == "flags" then some e.flags else if s == "image_meta_data" then some e.metaData else none

def verifyIae (ch : Chip) (v : Ver) (e : VIae) : List String :=
  let valid : Nat :=
    if e.imageLen = 0 then 0
    else if e.sizeAlign ≠ 0 then alignNat e.imageLen e.sizeAlign
    else alignNat e.imageLen (if ch.isEle v e.flags.toNat then 4 else 1)
  (if (valid : Int) == e.imageSize then [] else ["Image"])
    ++ failed AhabConsts.recsIae (iaeEnv e)
    ++ (if e.hashOk then [] else ["Image hash"])

/-! ### signature block -/

/-- one optional sub block: present (`bool(obj)`), its stored offset, its length, outcome of its own verifier -/
structure VBlock where
  present : Bool
  offset : Int
  len : Nat
  subOk : Bool
  deriving Repr, DecidableEq

structure VBlob where
  size : Int               -- key size in bits
  mode : Int
  dekLen : Option Nat
  keyblobLen : Nat
  keyIdentifier : Int
  hdr : VHeader
  deriving Repr, DecidableEq

structure VSigBlock where
  hdr : VHeader
  srk : VBlock
  sig : VBlock
  cert : VBlock
  blob : VBlock
  blobData : Option VBlob
  deriving Repr, DecidableEq

def sbRecs (v : Ver) : List AhabConsts.RangeRec := match v with | .v1 => AhabConsts.recsSigBlock | .v2 => AhabConsts.recsSigBlockV2

/-- environment for the "Offset" record of `verify_block` (the other record of the table is not looked at there) -/
def offsetEnv (off : Int) (s : String) : Option Int := if s == "offset" then some off else some 0
/-- environment for the "Key identifier" record -/
def keyIdEnv (kid : Int) (s : String) : Option Int := if s == "blob.key_identifier" then some kid else some 0

/-- `verify_block(name, obj, min_offset, offset)`; `sub` = the errors of the block's own verifier (run only when the
    block exists and its presence matches its offset) -/
def verifyBlock (v : Ver) (name : String) (b : VBlock) (minOff : Int) (sub : List String) : List String :=
  if (b.offset != 0) != b.present then [name ++ ": Block validity"]
  else if !b.present then []
  else
    (if b.offset < minOff then [name ++ ": Offset"]
     else if v == .v1 && b.offset % (AhabConsts.containerAlignment : Int) != 0 then [name ++ ": Offset"]
     else (failed (sbRecs v) (offsetEnv b.offset)).filter (· == "Offset") |>.map (name ++ ": " ++ ·))
    ++ (if b.subOk then [] else [name ++ ": content"]) ++ sub

def blobEnv (b : VBlob) (s : String) : Option Int := if s == "mode" then some b.mode else none

def verifyBlob (b : VBlob) : List String :=
  verifyHeader [AhabConsts.blobTag] [AhabConsts.blobVersion] b.hdr
    ++ (if AhabConsts.blobKeySizes.any (fun t => (t.2.1 : Int) == b.size) then [] else ["Key size"])
    ++ failed AhabConsts.recsBlob (blobEnv b)
    ++ (match b.dekLen with
        | some n => if (n : Int) == Int.fdiv b.size 8 then [] else ["DEK key"]
        | none => [])
    ++ (if b.keyblobLen = 0 then ["Wrapped key"]
        else if (b.keyblobLen : Int) == Int.fdiv b.size 8 + 48 then [] else ["Wrapped key"])

def verifySigBlock (v : Ver) (sb : VSigBlock) : List String :=
  let fixed : Int := ((v.sbLayout).size : Nat)
  let m1 := if sb.srk.present then sb.srk.offset + sb.srk.len else fixed
  let m2 := if sb.sig.present then sb.sig.offset + sb.sig.len else m1
  let m3 := if sb.cert.present then sb.cert.offset + sb.cert.len else m2
  verifyHeader [AhabConsts.sigBlockTag] [v.sigBlockVersion] sb.hdr
    ++ verifyBlock v "SRK Table" sb.srk fixed []
    ++ verifyBlock v "Signature" sb.sig m1 []
    ++ verifyBlock v "Certificate" sb.cert m2 []
    ++ verifyBlock v "Blob" sb.blob m3 (match sb.blobData with | some b => verifyBlob b | none => [])
    ++ (match sb.blobData with
        | some b =>
          (if sb.blob.present then
            (failed (sbRecs v) (keyIdEnv b.keyIdentifier))
           else [])
        | none => [])

/-! ### container -/

structure VContainer where
  hdr : VHeader
  flags : Int
  swVersion : Int
  fuseVersion : Int
  containerOffset : Int    -- `chip_config.container_offset`
  images : List VIae
  sb : Option VSigBlock
  deriving Repr, DecidableEq

/-- `(flags >> off) & mask` on a Python integer (two's complement for negative values) -/
def getFI (x : Int) (off size : Nat) : Int := (x >>> off) % (2 ^ size : Nat)

def containerEnv (v : Ver) (c : VContainer) (s : String) : Option Int :=
  if s == "flags" then some c.flags else if s == "sw_version" then some c.swVersion
  else if s == "fuse_version" then some c.fuseVersion
  else if s == "flag_used_srk_id" then some (getFI c.flags AhabConsts.cFlagsUsedSrkIdOffset AhabConsts.cFlagsUsedSrkIdSize)
  else if s == "flag_srk_revoke_keys" then some (getFI c.flags AhabConsts.cFlagsSrkRevokeMaskOffset AhabConsts.cFlagsSrkRevokeMaskSize)
  else if s == "_signature_block_offset" then some (sigBlockOffset v c.images.length : Nat)
  else none

/-- `verify_authenticity` without the cryptographic part: a container whose SRK set is 'none' must not carry an SRK table
    or a signature (the SRK set is part of the signed flags; commit 457be4d) -/
def authenticityRecord (c : VContainer) : List String :=
  if getFI c.flags AhabConsts.cFlagsSrkSetOffset AhabConsts.cFlagsSrkSetSize == 0 then
    match c.sb with
    | some sb => if sb.srk.present || sb.sig.present then ["Signature block"] else []
    | none => []
  else []

def verifyContainer (ch : Chip) (v : Ver) (c : VContainer) : List String :=
  verifyHeader [AhabConsts.containerTag] [v.containerVersion] c.hdr
    ++ failed AhabConsts.recsContainer (containerEnv v c)
    ++ (match c.sb with | some sb => verifySigBlock v sb | none => [])
    ++ (if c.images.isEmpty then ["Image array"] else c.images.flatMap (verifyIae ch v))
    ++ authenticityRecord c

/-! ### whole image -/

structure VImage where
  ver : Ver
  chip : Chip
  containers : List VContainer
  overlapOk : Bool         -- `image_info().validate()` did not raise (geometry: model `imageInfo` + C16 `validate`)
  deriving Repr

/-- the records of `AHABImage.verify` whose upper bound is a chip parameter (symbolic in the generated table) -/
def symbolicMax (value : String) (bound : Nat) : List AhabConsts.RangeRec :=
  (AhabConsts.recsImage.filter (fun r => r.value == value)).map (fun r => { r with hi := (bound : Int) })

def verifyContainersAt (ch : Chip) (v : Ver) : Nat → List VContainer → List String
  | _, [] => []
  | ix, c :: cs =>
    verifyContainer ch v c
      ++ (match v.containerOffset ix with
          | .ok o => if (o : Int) == c.containerOffset then [] else ["Container offset"]
          | .error _ => ["Container offset"])
      ++ failed (symbolicMax "len(container.image_array)≤chip_config.images_max_cnt" ch.row.imagesMax)
           (fun _ => some (c.images.length : Nat))
      ++ verifyContainersAt ch v (ix + 1) cs

/-- the records of `AHABImage.verify()` that do not depend on cryptography -/
def verifyImage (img : VImage) : List String :=
  failed (symbolicMax "len(ahab_containers)≤chip_config.containers_max_cnt" img.chip.row.containersMax)
      (fun _ => some (img.containers.length : Nat))
    ++ verifyContainersAt img.chip img.ver 0 img.containers
    ++ (if img.overlapOk then [] else ["Image overlapping"])

end SpsdkVerif.AhabVerify
