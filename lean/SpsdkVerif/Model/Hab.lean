/-
C07 — hand-written executable model of the HAB container builder / parser
(`spsdk/image/hab/hab_container.py`, `hab/segments.py`, `image/segments.py` SegIVT2/SegBDT/SegCSF/XMCD,
`image/commands.py` Install Key / Authenticate Data / Set / Unlock, `image/secret.py` MAC/Signature/Certificate blobs).

* The integer arithmetic of the builder (CSF offset alignment, IVT pointers, BDT length, application offset,
  signed-block addresses, nonce length, flag predicates, Install-Secret-Key location) is NOT written here: it is
  the AST translation in `Generated/HabFuns.lean`, read through the `…N` wrappers below.
* Byte formats follow the `Spec` constants below; `Properties/C07.lean` proves `Spec = Generated` agreements
  against the tables extracted from the current source (`Generated/HabConsts.lean`).
* `BinaryImage` placement (children at their offsets, zero fill) is property C16; here the container image is
  the closed form "segments in ascending offset order, zero filled" (`placeAt`), which coincides with it whenever
  the segments do not overlap (`Cfg.WF`).  DCD, XMCD, SRK table, certificates and CMS signatures are opaque
  byte blocks with a declared length.  The CMS signer is a parameter (`Signer`), AES-CCM is `Crypto.ccmEnc`
  over an arbitrary `c : CryptoOps`.
Tied to /repo by the correspondence streams of harness/props/C07.py (driver: lean/Driver/C07.lean).
-/
import SpsdkVerif.Model.Misc
import SpsdkVerif.Crypto.Modes
import SpsdkVerif.Generated.HabConsts
import SpsdkVerif.Generated.HabFuns

namespace SpsdkVerif.Hab
open SpsdkVerif SpsdkVerif.Misc
open SpsdkVerif.Generated

abbrev Bytes := SpsdkVerif.Misc.Bytes

/-! ## format constants as documented for HAB4 (the ROM side); compared with the generated tables in Properties/C07 -/
namespace Spec
def tagIVT : Nat := 0xD1
def tagDCD : Nat := 0xD2
def tagCSF : Nat := 0xD4
def tagCRT : Nat := 0xD7
def tagSIG : Nat := 0xD8
def tagMAC : Nat := 0xAC
def cmdSET : Nat := 0xB1
def cmdINS_KEY : Nat := 0xBE
def cmdAUT_DAT : Nat := 0xCA
def cmdUNLK : Nat := 0xB2
def cmdNOP : Nat := 0xC0
def insKeyABS : Nat := 1
def fmtAEAD : Nat := 0xA3
def fmtCMS : Nat := 0xC5
def engOCOTP : Nat := 0x21
def ivtSize : Nat := 32
def bdtSize : Nat := 32          -- space reserved for the boot data (12 bytes are written)
def dcdOffset : Nat := 64
def xmcdOffset : Nat := 64
def csfSize : Nat := 0x2000
def keyblobSize : Nat := 0x200
end Spec

/-! ## bytes -/
def zeros (n : Nat) : Bytes := List.replicate n 0
def slice (b : Bytes) (off len : Nat) : Bytes := (b.drop off).take len
def u8 (n : Nat) : UInt8 := UInt8.ofNat n
def be16 (v : Nat) : Bytes := beEnc 2 v
def be32 (v : Nat) : Bytes := beEnc 4 v
def be64 (v : Nat) : Bytes := beEnc 8 v
def le32 (v : Nat) : Bytes := leEnc 4 v
def alignUp (n a : Nat) : Nat := (n + (a - 1)) / a * a
/-- `align_block(d, a)` with zero padding -/
def padAlign (d : Bytes) (a : Nat) : Bytes := d ++ zeros (alignUp d.length a - d.length)
/-- place `b` at `off` behind what is already there (zero fill in between) -/
def placeAt (acc : Bytes) (off : Nat) (b : Bytes) : Bytes := acc ++ zeros (off - acc.length) ++ b

/-- `Header.export`: tag, 16-bit big-endian length, parameter -/
def hdr (tag len param : Nat) : Bytes := u8 tag :: (be16 len ++ [u8 param])

/-- `Header.parse` (no tag check): `(tag, length, param)`; `none` = fewer than 4 bytes (struct.error) -/
def parseHdr : Bytes → Option (Nat × Nat × Nat)
  | t :: a :: b :: p :: _ => some (t.toNat, a.toNat * 256 + b.toNat, p.toNat)
  | _ => none

def rdBE (d : Bytes) (off n : Nat) : Option Nat :=
  let s := slice d off n
  if s.length = n then some (beDec s) else none
def rdLE (d : Bytes) (off n : Nat) : Option Nat :=
  let s := slice d off n
  if s.length = n then some (leDec s) else none

/-! ## generated arithmetic, read as natural-number functions -/
def natOf (r : PyRes Int) : Nat := match r with | .ok v => v.toNat | .error _ => 0
def boolOf (r : PyRes Bool) : Bool := match r with | .ok v => v | .error _ => false

def csfOffsetN (ils appLen ivtOff : Nat) : Nat := natOf (HabFuns.csfOffset ils appLen ivtOff)
def appOffsetN (ils ivtOff : Nat) : Nat := natOf (HabFuns.appOffset ils ivtOff)
def isAuth (flags : Nat) : Bool := boolOf (HabFuns.isAuthenticated flags)
def isEnc (flags : Nat) : Bool := boolOf (HabFuns.isEncrypted flags)
def appAligned (flags : Nat) : Bool := boolOf (HabFuns.appAligned flags)
def ivtSelfN (start ivtOff : Nat) : Nat := natOf (HabFuns.ivtSelfAddress start ivtOff)
def ivtBdtN (self : Nat) : Nat := natOf (HabFuns.ivtBdtAddress self Spec.ivtSize)
def ivtDcdN (self : Nat) : Nat := natOf (HabFuns.ivtDcdAddress self)
def ivtCsfN (flags ils appLen ivtOff self : Nat) : Nat := natOf (HabFuns.ivtCsfAddress flags ils appLen ivtOff self)
def bdtLenN (ivtOff endOff endSize : Nat) : Nat := natOf (HabFuns.bdtAppLength ivtOff endOff endSize)
def bdtEndIsCsf (flags : Nat) : Bool := natOf (HabFuns.bdtEndSel flags) != 0
def bdtSegOffN : Nat := natOf HabFuns.bdtSegOffset
def dcdSegOffN : Nat := natOf HabFuns.dcdSegOffset
def blockBaseN (start ivtOff off : Nat) : Nat := natOf (HabFuns.blockBase start ivtOff off)
def blockStartN (ivtOff off : Nat) : Nat := natOf (HabFuns.blockStart ivtOff off)
def signedPrefixN (ivtOff csfOff : Nat) : Nat := natOf (HabFuns.signedPrefixLen ivtOff csfOff)
def nonceLenN (n : Nat) : Nat := natOf (HabFuns.aeadNonceLen n)
def macLenOk (n : Nat) : Bool := match HabFuns.macLenSet n with | .ok _ => true | .error _ => false
def secretKeyLocN (ils appLen start : Nat) : Nat := natOf (HabFuns.secretKeyLocation ils appLen start)

/-! ## CSF commands -/
inductive Cmd where
  | insKey (flags certFmt alg src tgt loc : Nat)
  | autDat (flags key sigFmt eng engCfg loc : Nat) (blocks : List (Nat × Nat))
  | set (itm alg eng cfg : Nat)
  | unlock (eng features uid : Nat)
  | nop (param : Nat)
  deriving Repr, DecidableEq

/-- `CmdUnlockAbstract.need_uid` -/
def needUid (eng features : Nat) : Bool :=
  eng == Spec.engOCOTP && (features &&& HabConsts.needUidMask) != 0

def encBlocks : List (Nat × Nat) → Bytes
  | [] => []
  | (a, s) :: r => be32 a ++ be32 s ++ encBlocks r

def Cmd.size : Cmd → Nat
  | .insKey .. => 12
  | .autDat _ _ _ _ _ _ bl => 12 + 8 * bl.length
  | .set .. => 8
  | .unlock e f _ => if needUid e f then 16 else 8
  | .nop _ => 4

def Cmd.encode : Cmd → Bytes
  | .insKey fl cf alg src tgt loc => hdr Spec.cmdINS_KEY 12 fl ++ [u8 cf, u8 alg, u8 src, u8 tgt] ++ be32 loc
  | .autDat fl key sf eng cfg loc bl =>
    hdr Spec.cmdAUT_DAT (12 + 8 * bl.length) fl ++ [u8 key, u8 sf, u8 eng, u8 cfg] ++ be32 loc ++ encBlocks bl
  | .set itm alg eng cfg => hdr Spec.cmdSET 8 itm ++ [0, u8 alg, u8 eng, u8 cfg]
  | .unlock e f uid =>
    hdr Spec.cmdUNLK (if needUid e f then 16 else 8) e ++ be32 f ++ (if needUid e f then be64 uid else [])
  | .nop p => hdr Spec.cmdNOP 4 p

/-- blocks of an Authenticate Data command: pairs of 32-bit big-endian words up to the header length -/
def decBlocks : Nat → Bytes → Option (List (Nat × Nat))
  | 0, _ => some []
  | n + 1, d =>
    match rdBE d 0 4, rdBE d 4 4, decBlocks n (d.drop 8) with
    | some a, some s, some r => some ((a, s) :: r)
    | _, _, _ => none

/-- `parse_command`: the command at the head of `d` (`none`: unknown tag or short data) -/
def Cmd.decode (d : Bytes) : Option Cmd :=
  match parseHdr d with
  | none => none
  | some (tag, len, par) =>
    if tag = Spec.cmdINS_KEY then
      match d.drop 4 with
      | cf :: alg :: src :: tgt :: rest =>
        (rdBE rest 0 4).map (fun loc => .insKey par cf.toNat alg.toNat src.toNat tgt.toNat loc)
      | _ => none
    else if tag = Spec.cmdAUT_DAT then
      match d.drop 4 with
      | key :: sf :: eng :: cfg :: rest =>
        match rdBE rest 0 4, decBlocks ((len - 12 + 7) / 8) (rest.drop 4) with
        | some loc, some bl => some (.autDat par key.toNat sf.toNat eng.toNat cfg.toNat loc bl)
        | _, _ => none
      | _ => none
    else if tag = Spec.cmdSET then
      match d.drop 4 with
      | _ :: alg :: eng :: cfg :: _ => some (.set par alg.toNat eng.toNat cfg.toNat)
      | _ => none
    else if tag = Spec.cmdUNLK then
      match rdBE d 4 4 with
      | none => none
      | some f =>
        if needUid par f then (rdBE d 8 8).map (fun uid => .unlock par f uid) else some (.unlock par f 0)
    else if tag = Spec.cmdNOP then some (.nop par)
    else none

/-- a command together with the data block it refers to (SRK table, certificate, signature or MAC; exported form) -/
structure CsfCmd where
  cmd : Cmd
  data : Option Bytes
  deriving Repr, DecidableEq

/-- `needs_cmd_data_reference` -/
def needsRef : Cmd → Bool
  | .insKey fl .. => fl != Spec.insKeyABS
  | .autDat .. => true
  | _ => false

def Cmd.setLoc (c : Cmd) (loc : Nat) : Cmd :=
  match c with
  | .insKey fl cf alg src tgt _ => .insKey fl cf alg src tgt loc
  | .autDat fl key sf eng cfg _ bl => .autDat fl key sf eng cfg loc bl
  | c => c

def Cmd.loc : Cmd → Nat
  | .insKey _ _ _ _ _ loc => loc
  | .autDat _ _ _ _ _ loc _ => loc
  | _ => 0

def cmdsSize : List CsfCmd → Nat
  | [] => 0
  | c :: r => c.cmd.size + cmdsSize r

/-- `SegCSF._header.length` as maintained by append_command / the `+= 8` bookkeeping -/
def csfHdrLen (cmds : List CsfCmd) : Nat := 4 + cmdsSize cmds

/-- `SegCSF.update(True)`: running data offset behind the commands, 4-byte aligned blocks -/
def assignLocs (cur : Nat) : List CsfCmd → List CsfCmd
  | [] => []
  | c :: r =>
    if needsRef c.cmd then
      match c.data with
      | some d => { c with cmd := c.cmd.setLoc cur } :: assignLocs (cur + alignUp d.length 4) r
      | none => { c with cmd := c.cmd.setLoc 0 } :: assignLocs cur r
    else c :: assignLocs cur r

def encCmds : List CsfCmd → Bytes
  | [] => []
  | c :: r => c.cmd.encode ++ encCmds r

def encData : List CsfCmd → Bytes
  | [] => []
  | c :: r =>
    (if needsRef c.cmd then (match c.data with | some d => padAlign d 4 | none => []) else []) ++ encData r

/-- `SegCSF._export_base()`: header and commands, data references refreshed -/
def csfBase (version : Nat) (cmds : List CsfCmd) : Bytes :=
  hdr Spec.tagCSF (csfHdrLen cmds) version ++ encCmds (assignLocs (csfHdrLen cmds) cmds)

/-- `CsfHabSegment.export()`: base, data blocks, zero padding to a multiple of CSF_SIZE -/
def csfBytes (version : Nat) (cmds : List CsfCmd) : Bytes :=
  padAlign (csfBase version cmds ++ encData cmds) HabConsts.csfSize

/-! ## XMCD block (`XMCDHeader`, `SegXMCD`) -/
/-- `XMCDHeader.export()`; the four byte expressions are the translated source (`Generated/HabFuns.lean`) -/
def xmcdHdr (size type iface inst : Nat) : Bytes :=
  [u8 (natOf (HabFuns.xmcdHdrByte0 size)), u8 (natOf (HabFuns.xmcdHdrByte1 type size)),
   u8 (natOf (HabFuns.xmcdHdrByte2 iface inst)), u8 (natOf (HabFuns.xmcdHdrByte3 HabConsts.xmcdHeaderTag 0))]

/-- `SegXMCD.parse(file).export()`: what `XmcdHabSegment.load_from_config` puts into the image -/
def xmcdLoad (file : Bytes) : PyRes Bytes :=
  match file with
  | lo :: ts :: ii :: tv :: rest =>
    if tv.toNat / 16 ≠ HabConsts.xmcdHeaderTag ∨ tv.toNat % 16 ≠ 0 then .error .spsdk
    else if ii.toNat / 16 > 1 ∨ ts.toNat / 16 > 1 then .error .spsdk
    else if (ts.toNat % 16) * 256 + lo.toNat ≠ file.length then .error .spsdk
    else .ok (xmcdHdr (HabConsts.xmcdHeaderSize + rest.length) (ts.toNat / 16) (ii.toNat / 16) (ii.toNat % 16) ++ rest)
  | _ => .error .other

/-! ## configuration of one container -/
structure Cfg where
  flags : Nat
  start : Nat
  ivtOff : Nat
  ils : Nat                    -- initial load size
  entry : Nat                  -- resolved entry point (option, ELF start address or reset vector)
  dcd : Option Bytes           -- exported DCD segment
  xmcd : Option Bytes          -- exported XMCD segment (header + data)
  app : Bytes                  -- application as loaded
  version : Nat                -- CSF header version
  cmds : List CsfCmd           -- CSF commands as loaded from the configuration (empty = no CSF segment)
  dek : Bytes
  nonce : Bytes
  macLen : Nat
  deriving Repr

namespace Cfg
def appBin (c : Cfg) : Bytes := if appAligned c.flags then padAlign c.app 16 else c.app
def appOff (c : Cfg) : Nat := appOffsetN c.ils c.ivtOff
def csfOff (c : Cfg) : Nat := csfOffsetN c.ils c.app.length c.ivtOff
def hasCsf (c : Cfg) : Bool := !c.cmds.isEmpty
def ivtSelf (c : Cfg) : Nat := ivtSelfN c.start c.ivtOff
end Cfg

structure Ivt where
  version : Nat
  entry : Nat
  rs1 : Nat
  dcd : Nat
  bdt : Nat
  self : Nat
  csf : Nat
  rs2 : Nat
  deriving Repr, DecidableEq

def Ivt.encode (v : Ivt) : Bytes :=
  hdr Spec.tagIVT Spec.ivtSize v.version ++ le32 v.entry ++ le32 v.rs1 ++ le32 v.dcd ++ le32 v.bdt ++
    le32 v.self ++ le32 v.csf ++ le32 v.rs2

structure Bdt where
  start : Nat
  length : Nat
  plugin : Nat
  deriving Repr, DecidableEq

def Bdt.encode (b : Bdt) : Bytes := le32 b.start ++ le32 b.length ++ le32 b.plugin

/-- `IvtHabSegment.load_from_config` -/
def Cfg.ivt (c : Cfg) : Ivt :=
  { version := HabConsts.ivtVersion, entry := c.entry, rs1 := 0,
    dcd := if c.dcd.isSome then ivtDcdN c.ivtSelf else 0,
    bdt := ivtBdtN c.ivtSelf, self := c.ivtSelf,
    csf := ivtCsfN c.flags c.ils c.app.length c.ivtOff c.ivtSelf, rs2 := 0 }

/-- `BdtHabSegment.load_from_config` + the key-blob increment of `update_csf` -/
def Cfg.bdt (c : Cfg) : Bdt :=
  let base := if bdtEndIsCsf c.flags then bdtLenN c.ivtOff c.csfOff HabConsts.csfSize
              else bdtLenN c.ivtOff c.appOff c.appBin.length
  { start := c.start, length := base + (if isEnc c.flags then HabConsts.keyblobSize else 0), plugin := 0 }

/-- the container image (`export()`): segments in ascending offset order, zero filled -/
def image (c : Cfg) (app : Bytes) (csf : Option Bytes) : Bytes :=
  let s0 := c.ivt.encode
  let s1 := placeAt s0 bdtSegOffN c.bdt.encode
  let s2 := match c.dcd with | some d => placeAt s1 dcdSegOffN d | none => s1
  let s3 := match c.xmcd with | some x => placeAt s2 HabConsts.xmcdSegOffset x | none => s2
  let s4 := placeAt s3 c.appOff app
  match csf with
  | some b => placeAt s4 c.csfOff b
  | none => s4

/-- `export_padding()`: the same with `ivt_offset` leading zero bytes -/
def imagePadded (c : Cfg) (app : Bytes) (csf : Option Bytes) : Bytes := zeros c.ivtOff ++ image c app csf

/-! ## signed / encrypted block lists -/
structure Block where
  base : Nat     -- address written into the command
  start : Nat    -- offset in the padded image
  size : Nat
  deriving Repr, DecidableEq

def Cfg.mkBlock (c : Cfg) (off size : Nat) : Block :=
  { base := blockBaseN c.start c.ivtOff off, start := blockStartN c.ivtOff off, size := size }

/-- `_get_signed_blocks` (with `SegXMCD.size` = length of the exported XMCD) -/
def Cfg.signedBlocks (c : Cfg) : List Block :=
  [c.mkBlock HabConsts.ivtSegOffset (HabConsts.ivt2Size + HabConsts.bdtSize)] ++
  (match c.dcd with | some d => [c.mkBlock dcdSegOffN d.length] | none => []) ++
  (match c.xmcd with | some x => [c.mkBlock HabConsts.xmcdSegOffset x.length] | none => []) ++
  (if isEnc c.flags then [] else [c.mkBlock c.appOff c.appBin.length])

/-- `_get_encrypted_blocks` -/
def Cfg.encryptedBlocks (c : Cfg) : List Block := [c.mkBlock c.appOff c.appBin.length]

def blocksData (img : Bytes) : List Block → Bytes
  | [] => []
  | b :: r => slice img b.start b.size ++ blocksData img r

def blockPairs (bl : List Block) : List (Nat × Nat) := bl.map (fun b => (b.base, b.size))

/-! ## update of the n-th Authenticate-Data command (0 = CSF, 1 = image data, 2 = decrypt) -/
def isAut : Cmd → Bool
  | .autDat .. => true
  | _ => false

/-- apply `f` to the `n`-th Authenticate Data command -/
def mapAut (f : CsfCmd → CsfCmd) : Nat → List CsfCmd → List CsfCmd
  | _, [] => []
  | n, c :: r =>
    if isAut c.cmd then (match n with | 0 => f c :: r | n + 1 => c :: mapAut f n r)
    else c :: mapAut f n r

def getAut : Nat → List CsfCmd → Option CsfCmd
  | _, [] => none
  | n, c :: r =>
    if isAut c.cmd then (match n with | 0 => some c | n + 1 => getAut n r) else getAut n r

def Cmd.addBlocks (c : Cmd) (bl : List (Nat × Nat)) : Cmd :=
  match c with
  | .autDat fl key sf eng cfg loc b => .autDat fl key sf eng cfg loc (b ++ bl)
  | c => c

/-- `Signature.export()` -/
def sigBlob (version : Nat) (cms : Bytes) : Bytes := hdr Spec.tagSIG (4 + cms.length) version ++ cms
/-- `MAC.export()` -/
def macBlob (version : Nat) (nonce mac : Bytes) : Bytes :=
  hdr Spec.tagMAC (8 + nonce.length + mac.length) version ++ [0, u8 nonce.length, 0, u8 mac.length] ++ nonce ++ mac

/-- the CMS signer: third party (asn1crypto + OpenSSL); `csf i m` is the i-th attempt of the re-sign loop -/
structure Signer where
  data : Bytes → Bytes
  csf : Nat → Bytes → Bytes

/-- one pass of the loop body: sign header+commands as they are now, install the new signature block -/
def resign (s : Signer) (version i : Nat) (cmds : List CsfCmd) : List CsfCmd :=
  mapAut (fun c => { c with data := some (sigBlob version (s.csf i (csfBase version cmds))) }) 0 cmds

/-- 4-aligned size of the data block of the Authenticate CSF command -/
def autSize (cmds : List CsfCmd) : Nat :=
  match getAut 0 cmds with
  | some c => alignUp (c.data.getD []).length 4
  | none => 0

/-- the loop of `CsfHabSegment.update_signature`: sign header+commands, repeat while the 4-aligned size of the
    signature block changed (it moves every later data reference).  Fuel-bounded; `none` = fuel exhausted or no
    Authenticate CSF command. -/
def signLoop (s : Signer) (version : Nat) : Nat → Nat → List CsfCmd → Option (List CsfCmd × Nat)
  | 0, _, _ => none
  | fuel + 1, i, cmds =>
    if (getAut 0 cmds).isNone then none
    else if autSize (resign s version i cmds) = autSize cmds then some (resign s version i cmds, i + 1)
    else signLoop s version fuel (i + 1) (resign s version i cmds)

structure Built where
  app : Bytes                   -- final application segment (ciphertext when encrypted)
  cmds : List CsfCmd            -- final CSF commands with their data blocks
  msgData : Bytes               -- what the image-data signature was computed over
  msgCsf : Bytes                -- what the last CSF signature was computed over
  attempts : Nat
  deriving Repr

/-- the padded image cut in front of the CSF, as `update_csf` collects it BEFORE encrypting / signing -/
def img0 (c : Cfg) : Bytes :=
  (imagePadded c c.appBin (some (csfBytes c.version c.cmds))).take (signedPrefixN c.ivtOff c.csfOff)

/-- `CsfHabSegment.encrypt`: plaintext, AES-CCM output, its two halves, the updated Decrypt Data command -/
def encPlain (c : Cfg) : Bytes := blocksData (img0 c) c.encryptedBlocks
def encOut (cr : Crypto.CryptoOps) (c : Cfg) : Bytes := Crypto.ccmEnc cr c.dek c.nonce [] c.macLen (encPlain c)
def encMac (cr : Crypto.CryptoOps) (c : Cfg) : Bytes := (encOut cr c).drop (encPlain c).length
def encCt (cr : Crypto.CryptoOps) (c : Cfg) : Bytes := (encOut cr c).take (encPlain c).length
def cmdsEnc (cr : Crypto.CryptoOps) (c : Cfg) : List CsfCmd :=
  mapAut (fun x => { cmd := x.cmd.addBlocks (blockPairs c.encryptedBlocks),
                     data := some (macBlob c.version c.nonce (encMac cr c)) }) 2 c.cmds

/-- `CsfHabSegment.update_signature`, first half: the image-data message and the updated Authenticate Data command -/
def signedMsg (c : Cfg) : Bytes := blocksData (img0 c) c.signedBlocks
def cmdsSigned (s : Signer) (c : Cfg) (cmds1 : List CsfCmd) : List CsfCmd :=
  mapAut (fun x => { cmd := x.cmd.addBlocks (blockPairs c.signedBlocks),
                     data := some (sigBlob c.version (s.data (signedMsg c))) }) 1 cmds1

/-- `HabContainer.update_csf` (after `load_from_config`); `none`: fuel of the sign loop exhausted or a required
    Authenticate Data command is missing (SPSDKValueError) -/
def build (cr : Crypto.CryptoOps) (s : Signer) (fuel : Nat) (c : Cfg) : Option Built :=
  if !c.hasCsf then some { app := c.appBin, cmds := [], msgData := [], msgCsf := [], attempts := 0 }
  else if isEnc c.flags && (getAut 2 c.cmds).isNone then none
  else
    let app := if isEnc c.flags then encCt cr c else c.appBin
    let cmds1 := if isEnc c.flags then cmdsEnc cr c else c.cmds
    if isAuth c.flags then
      if (getAut 1 cmds1).isNone then none
      else
        match signLoop s c.version fuel 0 (cmdsSigned s c cmds1) with
        | none => none
        | some (cmds3, n) =>
          some { app := app, cmds := cmds3, msgData := signedMsg c, msgCsf := csfBase c.version cmds3, attempts := n }
    else some { app := app, cmds := cmds1, msgData := [], msgCsf := [], attempts := 0 }

/-- `HabContainer.export()` after `load_from_config` -/
def exportImage (c : Cfg) (b : Built) : Bytes :=
  image c b.app (if c.hasCsf then some (csfBytes c.version b.cmds) else none)

/-! ## parse -/
structure Seg where
  name : String
  offset : Nat
  bytes : Bytes
  deriving Repr, DecidableEq

structure Parsed where
  flags : Nat
  start : Nat
  ivtOff : Int
  segs : List Seg
  deriving Repr, DecidableEq

/-- `SegIVT2.parse` incl. `validate()` -/
def parseIvt (d : Bytes) : PyRes Ivt :=
  match parseHdr d with
  | none => .error .other
  | some (tag, _len, par) =>
    if tag ≠ Spec.tagIVT then .error .spsdk else
    match rdLE d 4 4, rdLE d 8 4, rdLE d 12 4, rdLE d 16 4, rdLE d 20 4, rdLE d 24 4, rdLE d 28 4 with
    | some e, some r1, some dcd, some bdt, some self, some csf, some r2 =>
      if self = 0 ∨ bdt = 0 ∨ bdt < self then .error .spsdk
      else if dcd ≠ 0 ∧ dcd < self then .error .spsdk
      else if csf ≠ 0 ∧ csf < self then .error .spsdk
      else if bdt > self + Spec.ivtSize then .error .spsdk     -- padding > 0
      else .ok { version := par, entry := e, rs1 := r1, dcd := dcd, bdt := bdt, self := self, csf := csf, rs2 := r2 }
    | _, _, _, _, _, _, _ => .error .other

def parseBdt (d : Bytes) : PyRes Bdt :=
  match rdLE d 0 4, rdLE d 4 4, rdLE d 8 4 with
  | some s, some l, some p => if p ≤ 2 then .ok { start := s, length := l, plugin := p } else .error .spsdk
  | _, _, _ => .error .other

/-- an opaque block with a `Header`: `(declared length, bytes)`; tag check as in `Header.parse(data, tag)` -/
def parseBlock (d : Bytes) (tag : Option Nat) : PyRes Bytes :=
  match parseHdr d with
  | none => .error .other
  | some (t, len, _) =>
    if tag.isSome ∧ tag ≠ some t then .error .spsdk else .ok (d.take len)

/-- commands of a CSF up to the header length (`SegCSF.parse` loop) -/
def parseCmds : Nat → Bytes → Nat → PyRes (List Cmd)
  | 0, _, _ => .ok []
  | fuel + 1, d, remaining =>
    if remaining = 0 then .ok [] else
    match Cmd.decode d with
    | none => .error .spsdk
    | some c =>
      match parseCmds fuel (d.drop c.size) (remaining - c.size) with
      | .ok r => .ok (c :: r)
      | .error e => .error e

/-- data block a command refers to: `Header` with a length, the tag decides the class -/
def parseCmdData (csf : Bytes) (c : Cmd) : PyRes CsfCmd :=
  if needsRef c then
    match parseBlock (csf.drop c.loc) none with
    | .ok b => .ok { cmd := c, data := some b }
    | .error e => .error e
  else .ok { cmd := c, data := none }

def mapM' {α β} (f : α → PyRes β) : List α → PyRes (List β)
  | [] => .ok []
  | a :: r => match f a, mapM' f r with
    | .ok b, .ok br => .ok (b :: br)
    | .error e, _ => .error e
    | _, .error e => .error e

/-- `SegCSF.parse` on the CSF region: `(version, commands with data)` -/
def parseCsf (d : Bytes) : PyRes (Nat × List CsfCmd) :=
  match parseHdr d with
  | none => .error .other
  | some (tag, len, ver) =>
    if tag ≠ Spec.tagCSF then .error .spsdk else
    match parseCmds len (d.drop 4) (len - 4) with
    | .error e => .error e
    | .ok cmds =>
      match mapM' (parseCmdData d) cmds with
      | .error e => .error e
      | .ok cc => .ok (ver, cc)

/-- the test `get_app_offset` applies to the second word `rv` at a probed offset: non-zero, inside
    `range(entry - 0x400, entry + len(data))`, odd (Thumb) -/
def vectorOk (entry len rv : Nat) : Bool :=
  rv != 0 && decide ((entry : Int) - HabConsts.resetVectorWindow ≤ rv) && decide (rv < entry + len) && rv % 2 == 1

/-- `AppHabSegment.parse.get_app_offset`: first known offset whose second word looks like a Thumb reset vector -/
def findAppOffset (d : Bytes) (entry : Nat) : List Nat → Option Nat
  | [] => none
  | off :: rest =>
    if vectorOk entry d.length (leDec (slice d (off + 4) 4)) then some off else findAppOffset d entry rest

/-- `XMCDHeader.parse` + block size: `some bytes` when an XMCD block is recognised at 0x40; the segment is
    re-exported from the parsed fields (`SegXMCD(header, data).export()`) -/
def parseXmcd (d : Bytes) : PyRes (Option Bytes) :=
  match d.drop HabConsts.xmcdSegOffset with
  | lo :: ts :: ii :: tv :: rest =>
    if tv.toNat / 16 ≠ HabConsts.xmcdHeaderTag ∨ tv.toNat % 16 ≠ 0 then .ok none
    else if ii.toNat / 16 > 1 ∨ ts.toNat / 16 > 1 then .error .spsdk
    else
      let size := (ts.toNat % 16) * 256 + lo.toNat
      let cfgData := rest.take (size - HabConsts.xmcdHeaderSize)
      .ok (some (xmcdHdr (HabConsts.xmcdHeaderSize + cfgData.length) (ts.toNat / 16) (ii.toNat / 16) (ii.toNat % 16) ++ cfgData))
  | _ => .error .other

/-- `DcdHabSegment.parse`: present iff the IVT has a DCD pointer -/
def parseDcdSeg (d : Bytes) (ivt : Ivt) : PyRes (List Seg) :=
  if ivt.dcd ≠ 0 then
    match parseBlock (d.drop (ivt.dcd - ivt.self)) (some Spec.tagDCD) with
    | .ok b => .ok [⟨"dcd", ivt.dcd - ivt.self, b⟩]
    | .error e => .error e
  else .ok []

def Cmd.blocks : Cmd → List (Nat × Nat)
  | .autDat _ _ _ _ _ _ bl => bl
  | _ => []

/-- the application block `AppHabSegment.parse` takes from a parsed CSF: the last block of the Decrypt Data command
    (third Authenticate Data command) if it lists blocks, else of the Authenticate Data command (the second one)
    — `csf.get_decrypt_data_cmd() or csf.get_authenticate_data_cmd()`, a command without blocks being falsy -/
def csfAppBlock (cc : List CsfCmd) : Option (Nat × Nat) :=
  let b1 : Option (Nat × Nat) := ((getAut 1 cc).map (fun c => c.cmd.blocks)).bind List.getLast?
  match (getAut 2 cc).map (fun c => c.cmd.blocks) with
  | some bl => if bl.isEmpty then b1 else bl.getLast?
  | none => b1

/-- `CsfHabSegment.parse` + `HabContainer._get_flags`: present iff the IVT has a CSF pointer; also the application
    block the CSF lists -/
def parseCsfSeg (d : Bytes) (ivt : Ivt) : PyRes (List Seg × Nat × Option (Nat × Nat)) :=
  if ivt.csf ≠ 0 then
    match parseCsf (slice d (ivt.csf - ivt.self) HabConsts.csfSize) with
    | .ok (ver, cc) =>
      .ok ([⟨"csf", ivt.csf - ivt.self, csfBytes ver cc⟩], (if (getAut 2 cc).isSome then 0xC else 0x8), csfAppBlock cc)
    | .error e => .error e
  else .ok ([], 0, none)

/-- `AppHabSegment.parse` for an unsigned image once the offset is known: up to the end of the data
    (or up to the CSF when the IVT has a CSF pointer but the CSF lists no block) -/
def appSeg (d : Bytes) (ivt : Ivt) (aoff : Nat) : Seg :=
  ⟨"app", aoff, (d.drop aoff).take ((if ivt.csf > 0 then ivt.csf - ivt.self else d.length) - aoff)⟩

def xmcdSegs : Option Bytes → List Seg
  | some x => [⟨"xmcd", HabConsts.xmcdSegOffset, x⟩]
  | none => []

/-- `HabContainer.parse`; segments in the order of `SEGMENTS_MAPPING` -/
def parse (d : Bytes) : PyRes Parsed :=
  match parseIvt d with
  | .error e => .error e
  | .ok ivt =>
    match parseBdt (d.drop (ivt.bdt - ivt.self)) with
    | .error e => .error e
    | .ok bdt =>
      match parseDcdSeg d ivt with
      | .error e => .error e
      | .ok dcdS =>
        match parseXmcd d with
        | .error e => .error e
        | .ok xm =>
          match parseCsfSeg d ivt with
          | .error e => .error e
          | .ok (csfS, flags, blk) =>
            let front : List Seg := [⟨"ivt", 0, ivt.encode⟩, ⟨"bdt", ivt.bdt - ivt.self, bdt.encode⟩] ++ dcdS ++ xmcdSegs xm ++ csfS
            match blk with
            | some (addr, size) =>
              -- signed / encrypted image: the application is the block the CSF lists
              .ok { flags := flags, start := bdt.start, ivtOff := (ivt.self : Int) - bdt.start,
                    segs := front ++ [⟨"app", addr - ivt.self, slice d (addr - ivt.self) size⟩] }
            | none =>
              match findAppOffset d ivt.entry HabConsts.knownAppOffsets with
              | none => .error .spsdk
              | some aoff =>
                .ok { flags := flags, start := bdt.start, ivtOff := (ivt.self : Int) - bdt.start,
                      segs := front ++ [appSeg d ivt aoff] }

/-! ## what `parse (export c)` has to return -/
def expectedFlags (c : Cfg) : Nat :=
  if !c.hasCsf then 0 else if isEnc c.flags then 0xC else 0x8

def expectedSegs (c : Cfg) (b : Built) : List Seg :=
  [⟨"ivt", 0, c.ivt.encode⟩, ⟨"bdt", bdtSegOffN, c.bdt.encode⟩] ++
  (match c.dcd with | some d => [⟨"dcd", dcdSegOffN, d⟩] | none => []) ++
  xmcdSegs c.xmcd ++
  (if c.hasCsf then [⟨"csf", c.csfOff, csfBytes c.version b.cmds⟩] else []) ++
  [⟨"app", c.appOff, b.app⟩]

def expectedParse (c : Cfg) (b : Built) : Parsed :=
  { flags := expectedFlags c, start := c.start, ivtOff := c.ivtOff, segs := expectedSegs c b }

end SpsdkVerif.Hab
