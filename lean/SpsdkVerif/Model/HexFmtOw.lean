/-
The WRITER side of `BinaryImage.save_binary_image(.., 'HEX' | 'S19')` for arbitrary image trees
(spsdk/utils/images.py, nested function `add_into_binary`): every node hands bincopy first its whole
pattern block (when it has a pattern and a non-zero length), then its own binary (when non-empty), both
at its absolute address with `overwrite=True`, then its sub-images in order.  The data-carrying nodes of
a tree may touch and overlap (a binary over its own pattern, a child over its parent's pattern), so this
goes through the general `bincopy._Segments.add(segment, overwrite=True)` / `_Segment.add_data`
(bincopy 20.1.1), modelled here as written.  Tied to the real code by the `hexfmt_trees` stream of
harness/props/C16.py (segments of the `BinFile`, emitted text byte for byte).  Core Lean only.
-/
import SpsdkVerif.Model.HexFmt
import SpsdkVerif.Model.BinImage

namespace SpsdkVerif.HexFmt

/-- `_Segment.add_data(minimum_address, maximum_address, data, overwrite=True)` on segment `c`:
    adjacent behind / adjacent before / overlapping (prepend what lies before `c`, overwrite the common
    part, append what lies behind `c`) / otherwise `AddDataError`.
    Python (overlapping branch): `off = min - self.min`; if negative, `k = -off`, `self.data = data[:k] + self.data`,
    `del data[:k]`, and `off` stays `k`; then `self.data[off:off+len(data)] = data` resp. `self.data[off:] = data[:left]`
    followed by `self.data += data[left:]` - both are `D[:off] + data + D[off+len(data):]`. -/
def Seg.addDataOw (c seg : Seg) : Except HErr Seg :=
  if seg.addr = c.max then .ok ⟨c.addr, c.data ++ seg.data⟩
  else if seg.max = c.addr then .ok ⟨seg.addr, seg.data ++ c.data⟩
  else if seg.addr < c.max ∧ seg.max > c.addr then
    if seg.addr < c.addr then
      let k := c.addr - seg.addr
      let D := seg.data.take k ++ c.data
      let rem := seg.data.drop k
      .ok ⟨seg.addr, D.take k ++ rem ++ D.drop (k + rem.length)⟩
    else
      let off := seg.addr - c.addr
      .ok ⟨c.addr, c.data.take off ++ seg.data ++ c.data.drop (off + seg.data.length)⟩
  else .error .fmt

/-- the segment found by the linear search (`segment.minimum_address <= s.maximum_address`): insert before it
    when wholly below, else `s.add_data(.., overwrite=True)`; then the loop that deletes overwritten and merges
    adjacent following segments (`absorb`) -/
def hitOw (seg s : Seg) (rest : List Seg) : Except HErr (List Seg) :=
  if seg.max < s.addr then
    let r := absorb seg (s :: rest)
    .ok (r.1 :: r.2)
  else match s.addDataOw seg with
    | .error e => .error e
    | .ok s' =>
      let r := absorb s' rest
      .ok (r.1 :: r.2)

/-- the linear insert of `_Segments.add`: `for i, s in enumerate(self._list): if segment.minimum_address <= s.maximum_address: break`;
    no break = append behind everything.  Result: new list and the index of the current segment. -/
def owLinear (seg : Seg) : List Seg → Except HErr (List Seg × Nat)
  | [] => .ok ([seg], 0)
  | s :: rest =>
    if seg.addr ≤ s.max then
      match hitOw seg s rest with
      | .error e => .error e
      | .ok l => .ok (l, 0)
    else match owLinear seg rest with
      | .error e => .error e
      | .ok (l, i) => .ok (s :: l, i + 1)

/-- `_Segments.add(segment, overwrite=True)` -/
def SegList.addOw (st : SegList) (seg : Seg) : Except HErr SegList :=
  if st.list.isEmpty then .ok ⟨[seg], 0⟩
  else match st.list[st.cur]? with
    | none => .error .fmt   -- unreachable
    | some c =>
      if seg.addr = c.max then
        -- fast path: adjacent behind the current segment
        .ok (finishAdd (st.list.take st.cur) ⟨c.addr, c.data ++ seg.data⟩ (st.list.drop (st.cur + 1)))
      else match owLinear seg st.list with
        | .error e => .error e
        | .ok (l, i) => .ok ⟨l, i⟩

/-- a sequence of `add_binary(data, address, overwrite=True)` calls on a `BinFile` -/
def addAllOw : SegList → List Seg → Except HErr SegList
  | st, [] => .ok st
  | st, w :: ws =>
    match st.addOw w with
    | .error e => .error e
    | .ok st' => addAllOw st' ws

end SpsdkVerif.HexFmt

namespace SpsdkVerif.BinImg
open SpsdkVerif.HexFmt

mutual
/-- the `add_binary(.., overwrite=True)` calls of `add_into_binary(image)`, `abs` = absolute address of the parent -/
def Img.savePlan (abs : Nat) : Img → List Seg
  | .mk size off al bin pat ch =>
    let L := (Img.mk size off al bin pat ch).len
    let a := abs + off
    (match pat with
     | some p => if L ≠ 0 then [Seg.mk a (p.block L)] else []
     | none => []) ++
    (match bin with
     | some b => if b.isEmpty then [] else [Seg.mk a b]
     | none => []) ++
    savePlanList a ch
def savePlanList (abs : Nat) : List Img → List Seg
  | [] => []
  | c :: cs => c.savePlan abs ++ savePlanList abs cs
end

/-- the `BinFile` segments `save_binary_image` ends with (root image: no parent, absolute address = own offset) -/
def Img.saveSegs (i : Img) : Except HErr (List Seg) :=
  match addAllOw ⟨[], 0⟩ (i.savePlan 0) with
  | .error e => .error e
  | .ok st => .ok st.list

/-- the text of `save_binary_image(path, 'HEX')` -/
def Img.saveIhex (exec : Option Nat) (i : Img) : Except HErr HexFmt.Bytes :=
  match i.saveSegs with
  | .error e => .error e
  | .ok segs => ihexEncode exec segs

/-- the text of `save_binary_image(path, 'S19')` -/
def Img.saveSrec (exec : Option Nat) (i : Img) : Except HErr HexFmt.Bytes :=
  match i.saveSegs with
  | .error e => .error e
  | .ok segs => srecEncode exec segs

end SpsdkVerif.BinImg
