/-
Hand-written executable model of every TOOL PATH that computes the root-of-trust value (property C03).
Each path follows the code of the pinned tree statement by statement (including its checks and their
exception classes); constants come from `Generated/RotTypes.lean` (re-extracted from the source on every run).

  rkht.py            `RKHT.from_keys` / `_get_hash_algorithm` / `_calc_key_hash`, `RKHTv1.export/rkth`,
                     `RKHTv1.set_rkh`, `RKHTv21.export/parse/rkth`, `hash_algorithm(_size)`
  keys.py            `PublicKeyRsa.export(NXP, exp_length, modulus_length)`, `PublicKeyEcc.export(NXP)`
  cert_blocks.py     `CertBlockV1.set_root_key_hash` (hash of the exported key), `RootKeyRecord.calculate/_calculate_flags`
  pfr.py             `BaseConfigArea._calc_rotkh` / `get_cert_block_class`
  rot.py             `Rot.get_rot_class` dispatch, `RotCertBlockv1/v21`, `RotSrkTableAhab/AhabV2`, `RotSrkTableHab`
  debug_credential.py `RotMetaRSA`, `RotMetaEcc` + `DebugCredentialCertificateEcc.calculate_hash`, `RotMetaEdgeLockEnclave`
  ahab_srk.py        `SRKRecord(.V2).create_from_key`, `SRKData`, `SRKTable(.V2).update_fields/verify/export/compute_srk_hash`
  secret.py          `SrkItemRSA/SrkItemEcc.from_certificate/export/sha256`, `SrkTable.export_fuses`

Keys arrive as numbers (`Spec.Key`): turning PEM / DER / raw / certificate / private-key input into a public
key is `cryptography`'s job (assumed; exercised by the harness with every supply form).  The CA attribute that
AHAB / HAB copy into the record flags is an input (`Bool` per key).  Hashes are `c.hash` for an arbitrary
`c : CryptoOps`.  No Mathlib.
-/
import SpsdkVerif.Base.Py
import SpsdkVerif.Crypto.Iface
import SpsdkVerif.Spec.Rotkh
import SpsdkVerif.Generated.RotTypes

namespace SpsdkVerif.Rkht
open SpsdkVerif
open SpsdkVerif.Misc (beEnc beDec leEnc leDec byteLen bitLen)
open SpsdkVerif.Crypto (HashAlg CryptoOps Bytes)
open SpsdkVerif.Spec (Key Curve)

namespace G
export SpsdkVerif.Generated.RotTypes (rotRows rotClassTypes pfrRkhtTypes rkhtV1Slots rkhV1Size rkhtMaxKeys rsaHashName
  rkrCaBit rkrUsedShift rkrCountShift rkrCurveBits rkrHashAlg
  ahabTagSrkTable ahabTagSrkRecord ahabTagSrkData ahabSignRsaPssV1 ahabSignEcdsaV1 ahabHashTagsV1 ahabSignRsaPssV2
  ahabSignEcdsaV2 ahabHashTagsV2 ahabEccKeyType ahabRsaKeyType ahabKeySizes ahabCaMask ahabTableVersion ahabTableVersionV2
  ahabTableHash ahabTableHashV2 ahabRecordsCnt ahabV2ParamsLen ahabSrkDataVersion ahabEccHashByBits
  habTagKeyPublic habAlgPkcs1 habAlgEcdsa habEccKeyType habTagCrt
  habHeaderSize habEccExportFields habEccCoordAdd habEccCoordDiv habEccLenExtra habEccCurveRanges habEccParseFlagIdx
  habEccParseCurveIdx habEccParseBitsIdx habEccParseCoordOff habEccParseCoordAdd habEccParseCoordDiv
  datRsaExpLength datRsaTableLen datEccHashSizes)
end G

/-! ### Python integers -> bytes -/

/-- `math.ceil(v.bit_length() / 8)` -/
def pyByteLen (v : Nat) : Nat := (bitLen v + 7) / 8

/-- `v.to_bytes(w, "big")`: `OverflowError` when the value does not fit -/
def toBytes (w v : Nat) : PyRes Bytes :=
  if v < 256 ^ w then .ok (beEnc w v) else .error .other

def Curve.pyName : Curve → String
  | .p256 => "secp256r1" | .p384 => "secp384r1" | .p521 => "secp521r1"

/-- `key.key_size`: RSA = bit length of the modulus, EC = curve size -/
def keySize : Key → Nat
  | .rsa n _ => bitLen n
  | .ecc c _ _ => c.bits

/-- `PublicKeyEcc.coordinate_size = math.ceil(key_size / 8)` -/
def coordSize (c : Curve) : Nat := (c.bits + 7) / 8

/-- `EnumHashAlgorithm.from_label(f"sha{bits}")`: only sha256 / sha384 / sha512 are reachable with the sizes that
    occur (key sizes 256/384/521, digest sizes × 8); every other label is an `SPSDKKeyError`. -/
def shaLabel (bits : Nat) : PyRes HashAlg :=
  if bits = 256 then .ok .sha256 else if bits = 384 then .ok .sha384 else if bits = 512 then .ok .sha512
  else .error .spsdk

def hashOfName (s : String) : PyRes HashAlg :=
  match HashAlg.ofName? s with
  | some a => .ok a
  | none => .error .spsdk

/-- `RKHT._get_hash_algorithm` -/
def getHashAlgorithm : Key → PyRes HashAlg
  | .ecc c _ _ => shaLabel c.bits
  | .rsa _ _ => hashOfName G.rsaHashName

/-- `PublicKeyRsa.export(SPSDKEncoding.NXP, exp_length, modulus_length)` (`x or default`: 0 counts as absent) -/
def exportRsa (n e : Nat) (expLength modLength : Option Nat) : PyRes Bytes := do
  let el := match expLength with | some l => if l = 0 then pyByteLen e else l | none => pyByteLen e
  let ml := match modLength with | some l => if l = 0 then pyByteLen n else l | none => pyByteLen n
  let eb ← toBytes el e
  let mb ← toBytes ml n
  pure (mb ++ eb)

/-- `PublicKeyEcc.export(SPSDKEncoding.NXP)` -/
def exportEcc (cv : Curve) (x y : Nat) : PyRes Bytes := do
  let xb ← toBytes (coordSize cv) x
  let yb ← toBytes (coordSize cv) y
  pure (xb ++ yb)

/-- `PublicKey.export()` with the default arguments -/
def exportKey : Key → PyRes Bytes
  | .rsa n e => exportRsa n e none none
  | .ecc cv x y => exportEcc cv x y

/-- `RKHT._calc_key_hash(public_key)` (algorithm = None) -/
def calcKeyHash (c : CryptoOps) (k : Key) : PyRes Bytes := do
  let (n1, n1len, n2, n2len) := match k with
    | .rsa n e => (e, pyByteLen e, n, pyByteLen n)
    | .ecc cv x y => (y, coordSize cv, x, coordSize cv)
  let n1b ← toBytes n1len n1
  let n2b ← toBytes n2len n2
  let alg ← getHashAlgorithm k
  pure (c.hash alg (n2b ++ n1b))

def sameClass : Key → Key → Bool
  | .rsa _ _, .rsa _ _ => true
  | .ecc _ _ _, .ecc _ _ _ => true
  | _, _ => false

/-- the generator expression `all(_get_hash_algorithm(x) == _get_hash_algorithm(keys[0]) for x in keys)`;
    an exception of `_get_hash_algorithm` and a mismatch are both `SPSDKError`s -/
def sameAlgAll (k0 : Key) : List Key → PyRes Unit
  | [] => .ok ()
  | x :: rest => do
    let a ← getHashAlgorithm x
    let b ← getHashAlgorithm k0
    if a = b then sameAlgAll k0 rest else .error .spsdk

/-- `RKHT.from_keys` up to the list of hashes handed to the constructor -/
def fromKeysHashes (c : CryptoOps) (ks : List Key) : PyRes (List Bytes) :=
  match ks with
  | [] => .ok []
  | k0 :: _ => do
    if !(ks.all (sameClass k0)) then throw .spsdk
    sameAlgAll k0 ks
    ks.mapM (calcKeyHash c)

/-- `RKHT.__init__` -/
def rkhtInit (l : List Bytes) : PyRes (List Bytes) :=
  if l.length > G.rkhtMaxKeys then .error .spsdk else .ok l

/-- `RKHTv1.__init__` -/
def rkhtV1Init (l : List Bytes) : PyRes (List Bytes) :=
  if l.all (fun h => h.length == G.rkhV1Size) then rkhtInit l else .error .spsdk

def fromKeysV1 (c : CryptoOps) (ks : List Key) : PyRes (List Bytes) := fromKeysHashes c ks >>= rkhtV1Init
def fromKeysV21 (c : CryptoOps) (ks : List Key) : PyRes (List Bytes) := fromKeysHashes c ks >>= rkhtInit

/-- `RKHTv1.export`: slot `i` is the hash when present and non-empty, else zeros -/
def exportV1Slots (l : List Bytes) : Nat → Nat → Bytes
  | 0, _ => []
  | s + 1, i =>
    (match l[i]? with
     | some h => if h.isEmpty then List.replicate G.rkhV1Size 0 else h
     | none => List.replicate G.rkhV1Size 0) ++ exportV1Slots l s (i + 1)

def exportV1 (l : List Bytes) : PyRes Bytes :=
  let t := exportV1Slots l G.rkhtV1Slots 0
  if t.length ≠ G.rkhV1Size * G.rkhtV1Slots then .error .spsdk else .ok t

/-- `RKHTv1.rkth` (hash algorithm fixed to SHA-256) -/
def rkthV1 (c : CryptoOps) (l : List Bytes) : PyRes Bytes := do
  let t ← exportV1 l
  pure (c.hash .sha256 t)

/-- `RKHTv21.export` -/
def exportV21 (l : List Bytes) : Bytes := if l.length > 1 then l.flatten else []

/-- `RKHT.hash_algorithm_size` / `hash_algorithm` -/
def hashAlgorithmSize (l : List Bytes) : PyRes Nat :=
  match l with
  | [] => .error .spsdk
  | h :: _ => .ok (h.length * 8)

def hashAlgorithm (l : List Bytes) : PyRes HashAlg := do
  let s ← hashAlgorithmSize l
  shaLabel s

/-- `RKHTv21.rkth` -/
def rkthV21 (c : CryptoOps) (l : List Bytes) : PyRes Bytes :=
  match l with
  | [] => .ok []
  | [h] => .ok h
  | _ => do
    let a ← hashAlgorithm l
    pure (c.hash a (exportV21 l))

/-! ### path: `RKHTv1.from_keys(keys).rkth()` (= `RotCertBlockv1`, `nxpcrypto rot calc-hash`) -/
def pathRkhtV1 (c : CryptoOps) (ks : List Key) : PyRes Bytes := fromKeysV1 c ks >>= rkthV1 c

/-! ### path: `RKHTv21.from_keys(keys).rkth()` (= `RotCertBlockv21`) -/
def pathRkhtV21 (c : CryptoOps) (ks : List Key) : PyRes Bytes := fromKeysV21 c ks >>= rkthV21 c

/-! ### path: `CertBlockV1` — `set_root_key_hash(i, certificate_i)` for the configured slots, then `rkth` -/

/-- `RKHTv1.set_rkh(index, rkh)` -/
def setRkh (l : List Bytes) (index : Nat) (rkh : Bytes) : PyRes (List Bytes) :=
  if index > 3 then .error .spsdk
  else match l with
    | h0 :: _ => if rkh.length ≠ h0.length then .error .spsdk else fill l
    | [] => fill l
where
  fill (l : List Bytes) : PyRes (List Bytes) :=
    let l' := l ++ List.replicate (index + 1 - l.length) (List.replicate G.rkhV1Size 0)
    if l'.length > 4 then .error .spsdk else .ok (l'.set index rkh)

/-- any sequence of `RKHTv1.set_rkh(index, rkh)` calls on one table (the calls of `CertBlockV1.set_root_key_hash` in whatever order
    the API user makes them: signing slot first, descending, repeated, on a parsed table ...) -/
def setSeq : List Bytes → List (Nat × Bytes) → PyRes (List Bytes)
  | l, [] => .ok l
  | l, (i, h) :: ops => do
    let l' ← setRkh l i h
    setSeq l' ops

/-- `CertBlockV1.set_root_key_hash(index, certificate)`: SHA-256 of `public_key.export()` -/
def setRootKeyHash (c : CryptoOps) (l : List Bytes) (index : Nat) (k : Key) : PyRes (List Bytes) := do
  let e ← exportKey k
  let h := c.hash .sha256 e
  if h.length ≠ G.rkhV1Size then throw .spsdk
  setRkh l index h

def setAll (c : CryptoOps) : List Bytes → Nat → List Key → PyRes (List Bytes)
  | l, _, [] => .ok l
  | l, i, k :: ks => do
    let l' ← setRootKeyHash c l i k
    setAll c l' (i + 1) ks

/-- the RKH table of a `CertBlockV1` built from the root certificates 0.. (as `from_config` does);
    which certificate chain is added / which key signs does not enter -/
def certBlockV1Rkh (c : CryptoOps) (ks : List Key) : PyRes (List Bytes) := setAll c [] 0 ks

def pathCertBlockV1 (c : CryptoOps) (ks : List Key) (_usedIdx : Nat) : PyRes Bytes :=
  certBlockV1Rkh c ks >>= rkthV1 c

/-- `CertBlockV1.rkth_fuses`: consecutive 4-byte groups read little endian -/
def rkthFuses : Bytes → List Nat
  | [] => []
  | a :: rest => leDec ((a :: rest).take 4) :: rkthFuses (rest.drop 3)
termination_by b => b.length
decreasing_by simp [List.length_drop]; omega

/-! ### path: `CertBlockV21` / `RootKeyRecord.calculate` -/

def curveBit (cv : Curve) : Nat :=
  (G.rkrCurveBits.filter (fun p => p.2.contains (Curve.pyName cv))).foldl (fun acc p => acc ||| (1 <<< p.1)) 0

/-- `RootKeyRecord._calculate_flags` -/
def rkrFlags (ca : Bool) (used count : Nat) (cv : Curve) : Nat :=
  (if ca then 1 <<< G.rkrCaBit else 0) ||| (used <<< G.rkrUsedShift) ||| (count <<< G.rkrCountShift) ||| curveBit cv

/-- `RootKeyRecord.get_hash_algorithm(flags)`: dict lookup, `KeyError` otherwise -/
def rkrHashAlgorithm (flags : Nat) : PyRes HashAlg :=
  match G.rkrHashAlg.lookup (flags % 16) with
  | some nm => (match HashAlg.ofName? nm with | some a => .ok a | none => .error .other)
  | none => .error .other

structure RootKeyRecord where
  flags : Nat
  rkh : List Bytes          -- `_rkht.rkh_list`
  rootPublicKey : Bytes
  deriving Repr, DecidableEq

/-- `RootKeyRecord.calculate()` for EC keys (`convert_to_ecc_key` is cryptography's) -/
def rkrCalculate (c : CryptoOps) (ca : Bool) (ks : List Key) (used : Nat) : PyRes RootKeyRecord :=
  match ks with
  | [] => .error .spsdk
  | k0 :: _ => do
    let cv0 ← match k0 with | .ecc cv _ _ => pure cv | .rsa _ _ => throw PyErr.spsdk
    if !(ks.all (sameClass k0)) then throw .spsdk
    let flags := rkrFlags ca used ks.length cv0
    let rkh ← fromKeysV21 c ks
    let a ← hashAlgorithm rkh
    let b ← rkrHashAlgorithm flags
    if a ≠ b then throw .spsdk
    match ks[used]? with
    | none => throw .other          -- IndexError
    | some k => do
      let pk ← exportKey k
      pure { flags := flags, rkh := rkh, rootPublicKey := pk }

/-- `CertBlockV21(...).calculate(); .rkth` — the ISK certificate and the signer do not enter -/
def pathCertBlockV21 (c : CryptoOps) (ks : List Key) (used : Nat) (ca : Bool) : PyRes Bytes := do
  let r ← rkrCalculate c ca ks used
  rkthV21 c r.rkh

/-! ### path: PFR `BaseConfigArea._calc_rotkh(keys)` for a ROTKH register of `width` bits -/

def ljust (n : Nat) (b : Bytes) : Bytes := b ++ List.replicate (n - b.length) 0

def pathPfr (c : CryptoOps) (rotType : String) (width : Nat) (ks : List Key) : PyRes Bytes :=
  match G.pfrRkhtTypes.lookup rotType with
  | none => .error .spsdk
  | some cls => do
    let v1 := cls == "RKHTv1"
    let rkh ← if v1 then fromKeysV1 c ks else fromKeysV21 c ks
    let sz ← hashAlgorithmSize rkh
    if sz > width then throw .spsdk
    let h ← if v1 then rkthV1 c rkh else rkthV21 c rkh
    pure (ljust (width / 8) h)

/-! ### paths: AHAB SRK table (`SRKTable`, `SRKTableV2`) -/

def ahabHashTag (v2 : Bool) (a : HashAlg) : Nat :=
  ((if v2 then G.ahabHashTagsV2 else G.ahabHashTagsV1).lookup a.name).getD 999999

/-- `{256: SHA256, 384: SHA384, 521: SHA512}[public_key.key_size]` -/
def ahabEccHash (cv : Curve) : PyRes HashAlg :=
  match G.ahabEccHashByBits.lookup cv.bits with
  | some nm => (match HashAlg.ofName? nm with | some a => .ok a | none => .error .other)
  | none => .error .other

structure SrkRecord where
  signAlg : Nat
  hashAlg : HashAlg
  keySize : Nat
  flags : Nat
  params : Bytes
  length : Nat       -- after `update_fields`
  deriving Repr, DecidableEq

/-- `KEY_SIZES[key_size]` -/
def ahabKeyLens (code : Nat) : PyRes (Nat × Nat) :=
  match G.ahabKeySizes.lookup code with
  | some p => .ok p
  | none => .error .other

/-- key-size code and the two big-endian parameters at the widths of `KEY_SIZES` -/
def ahabKeyData (k : Key) : PyRes (Nat × Nat × HashAlg × Bytes) :=
  match k with
  | .rsa n e => do
    let code ← match G.ahabRsaKeyType.lookup (bitLen n) with | some c => pure c | none => throw PyErr.other
    let (l1, l2) ← ahabKeyLens code
    let p1 ← toBytes l1 n
    let p2 ← toBytes l2 e
    pure (code, 0, .sha256, p1 ++ p2)
  | .ecc cv x y => do
    let code ← match G.ahabEccKeyType.lookup (Curve.pyName cv) with | some c => pure c | none => throw PyErr.other
    let h ← ahabEccHash cv
    let (l1, l2) ← ahabKeyLens code
    let p1 ← toBytes l1 x
    let p2 ← toBytes l2 y
    pure (code, 1, h, p1 ++ p2)

def ahabSignAlg (v2 : Bool) (k : Key) : Nat :=
  match k with
  | .rsa _ _ => if v2 then G.ahabSignRsaPssV2 else G.ahabSignRsaPssV1
  | .ecc _ _ _ => if v2 then G.ahabSignEcdsaV2 else G.ahabSignEcdsaV1

/-- `SRKRecord.create_from_key(public_key)`; `ca` = the key object carries the `ca` attribute -/
def srkRecordCreate (k : Key) (ca : Bool) : PyRes SrkRecord := do
  let (code, _, h, params) ← ahabKeyData k
  pure { signAlg := ahabSignAlg false k, hashAlg := h, keySize := code, flags := if ca then G.ahabCaMask else 0,
         params := params, length := 12 + params.length }

/-- `SRKData.create_from_key(...).export()` after `update_fields` -/
def srkDataExport (k : Key) (id : Nat) : PyRes Bytes := do
  let (_, _, _, data) ← ahabKeyData k
  pure ([UInt8.ofNat G.ahabSrkDataVersion] ++ leEnc 2 (8 + data.length) ++ [UInt8.ofNat G.ahabTagSrkData] ++
        leEnc 2 id ++ [0, 0] ++ data)

/-- `extend_block(data, length, 0)` -/
def extendBlock (b : Bytes) (n : Nat) : PyRes Bytes :=
  if n < b.length then .error .spsdk else .ok (b ++ List.replicate (n - b.length) 0)

/-- `SRKRecordV2.create_from_key(public_key, srk_id=id)` + `update_fields` -/
def srkRecordV2Create (c : CryptoOps) (k : Key) (ca : Bool) (id : Nat) : PyRes SrkRecord := do
  let (code, _, h, _) ← ahabKeyData k
  let sd ← srkDataExport k id
  let params ← extendBlock (c.hash h sd) G.ahabV2ParamsLen
  pure { signAlg := ahabSignAlg true k, hashAlg := h, keySize := code, flags := if ca then G.ahabCaMask else 0,
         params := params, length := 12 + params.length }

/-- `SRKRecordBase.export` -/
def srkRecordExport (v2 : Bool) (r : SrkRecord) : PyRes Bytes := do
  let (l1, l2) ← match G.ahabKeySizes.lookup r.keySize with | some p => pure p | none => throw PyErr.spsdk
  pure ([UInt8.ofNat G.ahabTagSrkRecord] ++ leEnc 2 r.length ++
        [UInt8.ofNat r.signAlg, UInt8.ofNat (ahabHashTag v2 r.hashAlg), UInt8.ofNat r.keySize, 0, UInt8.ofNat r.flags] ++
        leEnc 2 l1 ++ leEnc 2 l2 ++ r.params)

def srkTableExport (v2 : Bool) (recs : List SrkRecord) : PyRes Bytes := do
  let bs ← recs.mapM (srkRecordExport v2)
  let len := 4 + (recs.map (·.length)).sum
  pure ([UInt8.ofNat G.ahabTagSrkTable] ++ leEnc 2 len ++
        [UInt8.ofNat (if v2 then G.ahabTableVersionV2 else G.ahabTableVersion)] ++ bs.flatten)

/-- the part of `SRKTable.verify()` that can fail for records created from keys:
    record count and "same in all SRK records" (signing algorithm, hash, key size, length, flags);
    `srk_records_info[0]` on an empty table is an `IndexError` -/
def srkTableVerify (recs : List SrkRecord) : PyRes Unit :=
  match recs with
  | [] => .error .other
  | r0 :: _ =>
    if recs.length ≠ G.ahabRecordsCnt then .error .spsdk
    else if recs.all (fun r => r.signAlg == r0.signAlg && r.hashAlg == r0.hashAlg && r.keySize == r0.keySize
                               && r.length == r0.length && r.flags == r0.flags) then .ok ()
    else .error .spsdk

def zipIdx {α} : List α → Nat → List (α × Nat)
  | [], _ => []
  | a :: l, i => (a, i) :: zipIdx l (i + 1)

/-- `RotSrkTableAhab(keys).calculate_hash()` -/
def pathAhab (c : CryptoOps) (ks : List (Key × Bool)) : PyRes Bytes := do
  let recs ← ks.mapM (fun kc => srkRecordCreate kc.1 kc.2)
  srkTableVerify recs
  let t ← srkTableExport false recs
  let a ← hashOfName G.ahabTableHash
  pure (c.hash a t)

/-- `RotSrkTableAhabV2(keys).calculate_hash()` -/
def pathAhabV2 (c : CryptoOps) (ks : List (Key × Bool)) : PyRes Bytes := do
  let recs ← (zipIdx ks 0).mapM (fun kci => srkRecordV2Create c kci.1.1 kci.1.2 kci.2)
  srkTableVerify recs
  let t ← srkTableExport true recs
  let a ← hashOfName G.ahabTableHashV2
  pure (c.hash a t)

/-! ### path: HAB `SrkTable.export_fuses()` -/

/-! #### `SrkItemEcc` (phase 3): `__init__` / `export` / `parse` driven by the GENERATED field description
(`habEccExportFields`, `habEccCoord*`, `habEccCurveRanges`, `habEccParse*` are obtained by evaluating the extracted function
bodies, see gen_C03.probe_hab_ecc).  The key-size field carries the key size in BITS (521 for P-521), not 8 x coordinate size. -/

structure HabEccItem where
  keySize : Nat
  x : Nat
  y : Nat
  flag : Nat
  deriving Repr, DecidableEq

/-- `SrkItemEcc.__init__`: `coordinate_size = math.ceil(key_size / 8)` -/
def habCoordSize (ks : Nat) : Nat := (ks + G.habEccCoordAdd) / G.habEccCoordDiv

/-- the same expression in `SrkItemEcc.parse` -/
def habParseCoordSize (ks : Nat) : Nat := (ks + G.habEccParseCoordAdd) / G.habEccParseCoordDiv

/-- `get_ecc_curve(self.key_size // 8)`: `SPSDKError` outside the table -/
def habCurveName (ks : Nat) : PyRes String :=
  match G.habEccCurveRanges.find? (fun r => decide (r.1 ≤ ks) && decide (ks ≤ r.2.1)) with
  | some r => .ok r.2.2
  | none => .error .spsdk

/-- one byte handed to `pack` after the header: `(source >> shift) & mask`, source 1 = flag, 2 = curve id, 3 = key_size; 0 = constant -/
def habEccField (flag curveId keySize : Nat) (f : Nat × Nat × Nat) : Nat :=
  if f.1 = 0 then f.2.1
  else ((if f.1 = 1 then flag else if f.1 = 2 then curveId else if f.1 = 3 then keySize else 999999) >>> f.2.1) &&& f.2.2

/-- `SrkItemEcc(key_size, x, y, flag).export()`: flag setter (`SPSDKError`), `to_bytes` (`OverflowError`), header `pack`
    (`struct.error` for a length of 65536 or more), `get_ecc_curve` (`SPSDKError`), `ECC_KEY_TYPE[...]` (`KeyError`), `pack(">8B", …)` -/
def habEccExport (it : HabEccItem) : PyRes Bytes := do
  if it.flag ≠ 0 ∧ it.flag ≠ 0x80 then throw .spsdk
  let cs := habCoordSize it.keySize
  let xb ← toBytes cs it.x
  let yb ← toBytes cs it.y
  let len := G.habHeaderSize + G.habEccLenExtra + xb.length + yb.length
  if len ≥ 65536 then throw .other
  let nm ← habCurveName it.keySize
  let id ← match G.habEccKeyType.lookup nm with | some i => pure i | none => throw PyErr.other
  let fields := G.habEccExportFields.map (habEccField it.flag id it.keySize)
  if fields.any (fun v => decide (v ≥ 256)) then throw .other
  pure ([UInt8.ofNat G.habTagKeyPublic] ++ beEnc 2 len ++ [UInt8.ofNat G.habAlgEcdsa] ++ fields.map UInt8.ofNat ++ xb ++ yb)

/-- `SrkItemEcc.parse(data)`: `Header.parse(data, KEY_PUBLIC)` (`struct.error`; wrong tag / length below the header size:
    `SPSDKError`), `unpack_from` of flag / curve id / key size (`struct.error`), unknown curve id (`SPSDKError`), coordinates sliced at
    `math.ceil(key_size / 8)` bytes each (slices never fail), then the constructor -/
def habEccParse (data : Bytes) : PyRes HabEccItem := do
  if data.length < G.habHeaderSize then throw .other
  if data.headD 0 ≠ UInt8.ofNat G.habTagKeyPublic then throw .spsdk
  if beDec ((data.drop 1).take 2) < G.habHeaderSize then throw .spsdk
  let need := (G.habEccParseBitsIdx.map (·.1)).foldl max (max G.habEccParseFlagIdx G.habEccParseCurveIdx) + 1
  if data.length < need then throw .other
  let flag := (data.getD G.habEccParseFlagIdx 0).toNat
  let curve := (data.getD G.habEccParseCurveIdx 0).toNat
  let ks := (G.habEccParseBitsIdx.map fun p => (data.getD p.1 0).toNat <<< p.2).sum
  if !(G.habEccKeyType.any (fun p => p.2 == curve)) then throw .spsdk
  let cs := habParseCoordSize ks
  let x := beDec ((data.drop G.habEccParseCoordOff).take cs)
  let y := beDec ((data.drop (G.habEccParseCoordOff + cs)).take cs)
  if flag ≠ 0 ∧ flag ≠ 0x80 then throw .spsdk
  let _ ← toBytes (habCoordSize ks) x
  let _ ← toBytes (habCoordSize ks) y
  pure { keySize := ks, x := x, y := y, flag := flag }

/-- `SrkItemRSA/SrkItemEcc.from_certificate(cert).export()`; `ca` = KeyUsage.key_cert_sign -/
def habItemExport (k : Key) (ca : Bool) : PyRes Bytes :=
  let flag : Nat := if ca then 0x80 else 0
  match k with
  | .rsa n e => do
    let m ← toBytes (pyByteLen n) n
    let x ← toBytes (pyByteLen e) e
    let len := 4 + 8 + m.length + x.length
    if len ≥ 65536 then throw .spsdk
    pure ([UInt8.ofNat G.habTagKeyPublic] ++ beEnc 2 len ++ [UInt8.ofNat G.habAlgPkcs1] ++ [0, 0, 0, UInt8.ofNat flag] ++
          beEnc 2 m.length ++ beEnc 2 x.length ++ m ++ x)
  | .ecc cv x y => habEccExport { keySize := cv.bits, x := x, y := y, flag := flag }   -- `cls(public_key.key_size, public_key.x, public_key.y, flag)`

def pathHab (c : CryptoOps) (ks : List (Key × Bool)) : PyRes Bytes := do
  let items ← ks.mapM (fun kc => habItemExport kc.1 kc.2)
  pure (c.hash .sha256 (items.map (c.hash .sha256)).flatten)

/-! ### path: `Rot(family, revision, keys).calculate_hash()` — dispatch on the database `rot_type` -/

def pathRot (c : CryptoOps) (rotType : String) (ks : List (Key × Bool)) : PyRes Bytes :=
  match (G.rotClassTypes.find? (fun p => p.2 == rotType)).map (·.1) with
  | none => .error .spsdk
  | some cls =>
    if cls == "RotCertBlockv1" then pathRkhtV1 c (ks.map (·.1))
    else if cls == "RotCertBlockv21" then pathRkhtV21 c (ks.map (·.1))
    else if cls == "RotSrkTableAhab" then pathAhab c ks
    else if cls == "RotSrkTableAhabV2" then pathAhabV2 c ks
    else if cls == "RotSrkTableHab" then pathHab c ks
    else .error .spsdk

/-! ### paths: debug credential RoT meta -/

/-- one `rot_item` of `RotMetaRSA.load_from_config`: SHA-256 of `rot.export(exp_length=3)` -/
def datRsaItem (c : CryptoOps) : Key → PyRes Bytes
  | .rsa n e => do
    let d ← exportRsa n e (some G.datRsaExpLength) none
    pure (c.hash .sha256 d)
  | .ecc _ _ _ => throw PyErr.other        -- `assert isinstance(rot, PublicKeyRsa)`

/-- `RotMetaRSA.load_from_config(...).calculate_hash()` -/
def pathDatRsa (c : CryptoOps) (ks : List Key) : PyRes Bytes :=
  if ks.length > 4 then .error .spsdk
  else do
    let items ← ks.mapM (datRsaItem c)
    -- `rot_meta[index*32:(index+1)*32] = rot_item` on a bytearray(128); items are 32 bytes
    let table := items.flatten ++ List.replicate (G.datRsaTableLen - items.flatten.length) 0
    pure (c.hash .sha256 table)

/-- one CRTK table item of `RotMetaEcc.load_from_config`: `get_hash(pub_key.export(), sha{HASH_SIZES[hash_size]})` -/
def datEccItem (c : CryptoOps) (a : HashAlg) (k : Key) : PyRes Bytes := do
  let e ← exportKey k
  pure (c.hash a e)

def eccCoordSize? : Key → Option Nat
  | .ecc cv _ _ => some (coordSize cv)
  | .rsa _ _ => none

/-- the `except SPSDKError:` fallback of `DebugCredentialCertificateEcc.calculate_hash`:
    `sha{HASH_SIZES[rot_pub.coordinate_size]}` of `rot_pub.export()` -/
def datEccFallback (c : CryptoOps) (k : Key) : PyRes Bytes := do
  let e ← exportKey k
  let b ← match (eccCoordSize? k).bind (G.datEccHashSizes.lookup ·) with | some b => pure b | none => throw PyErr.other
  let a ← shaLabel b
  pure (c.hash a e)

/-- `RotMetaEcc.load_from_config` + `calculate_hash`, wrapped by `DebugCredentialCertificateEcc.calculate_hash`
    (fallback for a single key); `used` = `rot_id`, `rot_pub` = the key at that index -/
def pathDatEcc (c : CryptoOps) (ks : List Key) (used : Nat) : PyRes Bytes :=
  match ks with
  | [] => .error .spsdk
  | k0 :: _ =>
    match eccCoordSize? k0 with
    | none => .error .spsdk
    | some hs =>
      if !(ks.all (fun k => eccCoordSize? k == some hs)) then .error .spsdk
      else match G.datEccHashSizes.lookup hs with
        | none => .error .spsdk
        | some bits => do
          let items ← if ks.length > 1 then do
              let a ← shaLabel bits
              ks.mapM (datEccItem c a)
            else pure []
          if ks.length > 4 then throw .spsdk
          if used + 1 > ks.length then throw .spsdk
          let table := if items.length > 1 then items.flatten else []
          if table.isEmpty then
            match ks[used]? with
            | none => throw .other
            | some k => datEccFallback c k
          else do
            -- `key_size` = item length in bits: `(len(self) - len(self.flags)) // cnt * 8`
            let a ← shaLabel (table.length / ks.length * 8)
            pure (c.hash a table)

end SpsdkVerif.Rkht
