/-
C17 (phase 2) — one call of a builder that serves SEVERAL artifacts (BEE region headers of engine 0 and 1, several IEE /
OTFAD key blobs, …).  A per-call draw site is not enough: the draw (or the call of the constructor that draws, e.g.
`kib = BeeKIB()`) must be INSIDE the loop that iterates over the artifacts, otherwise the artifacts of one call share one
value although every site is "per call".

`Generated.loopUses` lists every (local variable holding a drawn value, `for` loop over a collection in whose body the
variable is handed to a call) of /repo/spsdk with the position of the defining draw relative to the loop.
-/
import SpsdkVerif.Model.Fresh

namespace SpsdkVerif.Fresh

structure LoopUse where
  kind : Kind
  scope : String
  var : String
  /-- `file:line` of the draw / drawing constructor call that defines the variable -/
  drawLoc : String
  /-- `file:line` of the `for` statement -/
  loopLoc : String
  /-- the defining statement is inside the loop body (a new value per iteration) -/
  inside : Bool
  deriving Repr, Inhabited

/-- one call serving `n` artifacts: the values the artifacts get, and the RNG state afterwards -/
def serve (inside : Bool) (n : Nat) (next : Nat) : List Token × Nat :=
  if inside then ((List.range n).map (next + ·), next + n)       -- one draw per iteration
  else (List.replicate n next, next + 1)                          -- one draw before the loop, handed to every iteration

/-- a history of calls (each with its number of artifacts): the values of all artifacts, in order -/
def runCalls (inside : Bool) : List Nat → Nat → List Token
  | [], _ => []
  | n :: ns, next =>
    let r := serve inside n next
    r.1 ++ runCalls inside ns r.2

end SpsdkVerif.Fresh
