/-
Hand-written executable model of SPSDK's OWN logic in `spsdk/crypto/keys.py`, `crypto_types.py` and
`signature_provider.py` (property C08): the NXP raw encodings of public keys and ECDSA signatures and the
length / prefix sniffing that decides how a blob is read.  Everything that belongs to the `cryptography`
package (PEM/DER/PKCS#8 loaders, point validation, RSA number validation, the signature primitives) is a
*parameter* (`Ext`, `backend`) whose value the harness obtains by calling `cryptography` directly.

The one exception is the DER `ECDSA-Sig-Value` codec (`utils.encode_dss_signature` / `decode_dss_signature`):
its behaviour decides the sniffing, so it is modelled here (strict DER as implemented by rust-asn1: definite
minimal lengths with at most four length octets, minimal non-negative INTEGERs, no trailing data) and tied to
the library by the `der_codec` correspondence stream.

Tables and the integer tests of the sniffing come from `Generated/KeysTables.lean` (re-extracted from the
source on every run).  Tied to /repo by harness/props/C08.py.
-/
import SpsdkVerif.Base.Py
import SpsdkVerif.Model.Misc
import SpsdkVerif.Generated.KeysTables

namespace SpsdkVerif.Keys
open SpsdkVerif SpsdkVerif.Misc
open SpsdkVerif.Generated

/-! ### integers <-> big-endian bytes -/

/-- Python `n.to_bytes(w, "big")` for `n ≥ 0`: `OverflowError` when the value does not fit. -/
def toBytes (w n : Nat) : PyRes Bytes :=
  if n < 256 ^ w then .ok (beEnc w n) else .error .other

/-- minimal big-endian bytes (`[]` for 0) -/
def minBE (n : Nat) : Bytes := beEnc (byteLen n) n

/-! ### DER `ECDSA-Sig-Value ::= SEQUENCE { r INTEGER, s INTEGER }` -/

/-- DER length octets (definite, minimal) -/
def encLen (l : Nat) : Bytes :=
  if l < 128 then [UInt8.ofNat l] else UInt8.ofNat (128 + byteLen l) :: minBE l

/-- content octets of a non-negative INTEGER: minimal, with a leading zero when the top bit is set -/
def encIntContent (n : Nat) : Bytes :=
  match minBE n with
  | [] => [0]
  | b :: rest => if 128 ≤ b.toNat then 0 :: b :: rest else b :: rest

def encTLV (tag : UInt8) (c : Bytes) : Bytes := tag :: (encLen c.length ++ c)

/-- `utils.encode_dss_signature(r, s)` for `r, s ≥ 0` -/
def derEncode (r s : Nat) : Bytes :=
  encTLV 0x30 (encTLV 0x02 (encIntContent r) ++ encTLV 0x02 (encIntContent s))

/-- length octets -> (length, rest); rust-asn1 accepts `0x81 … 0x84` long forms only, each minimal -/
def readLen : Bytes → Option (Nat × Bytes)
  | [] => none
  | b :: rest =>
    if b.toNat < 128 then some (b.toNat, rest)
    else
      let k := b.toNat - 128
      if k = 0 ∨ 4 < k then none
      else if rest.length < k then none
      else
        let lb := rest.take k
        let l := beDec lb
        if lb.head? = some 0 ∨ l < 128 then none else some (l, rest.drop k)

/-- one TLV with the expected single-octet tag -> (content, rest) -/
def readTLV (tag : UInt8) : Bytes → Option (Bytes × Bytes)
  | [] => none
  | t :: rest =>
    if t ≠ tag then none
    else match readLen rest with
      | none => none
      | some (l, rest') => if rest'.length < l then none else some (rest'.take l, rest'.drop l)

/-- INTEGER content -> value; negative and non-minimal encodings are refused (`asn1::BigUint`) -/
def decIntContent : Bytes → Option Nat
  | [] => none
  | [b] => if b.toNat < 128 then some b.toNat else none
  | b0 :: b1 :: rest =>
    if 128 ≤ b0.toNat then none
    else if b0 = 0 ∧ b1.toNat < 128 then none
    else some (beDec (b0 :: b1 :: rest))

/-- `utils.decode_dss_signature(sig)`; `none` = `ValueError` -/
def derDecode (sig : Bytes) : Option (Nat × Nat) :=
  match readTLV 0x30 sig with
  | some (body, []) =>
    (match readTLV 0x02 body with
     | some (rc, rest1) =>
       (match readTLV 0x02 rest1 with
        | some (sc, []) =>
          (match decIntContent rc, decIntContent sc with
           | some r, some s => some (r, s)
           | _, _ => none)
        | _ => none)
     | none => none)
  | _ => none

/-! ### curves -/

inductive Curve where
  | p256 | p384 | p521
  deriving DecidableEq, Repr, Inhabited

/-- `list(EccCurve)`; agreement with the generated member list is `C08.curve_table_agrees` -/
def Curve.all : List Curve := [.p256, .p384, .p521]

def Curve.name : Curve → String
  | .p256 => "secp256r1" | .p384 => "secp384r1" | .p521 => "secp521r1"

def Curve.ofName (s : String) : Option Curve := Curve.all.find? (fun c => c.name == s)

/-- `curve.key_size` of the `cryptography` curve objects (assumption, cross-checked at run time) -/
def Curve.keySize : Curve → Nat
  | .p256 => 256 | .p384 => 384 | .p521 => 521

/-- `KeyEccCommon.coordinate_size` -/
def Curve.cl (c : Curve) : Nat := KeysTables.coordinateSize c.keySize
/-- `KeyEccCommon.signature_size` -/
def Curve.sigSize (c : Curve) : Nat := KeysTables.signatureSize c.cl

/-- `ECDSASignature.COORDINATE_LENGTHS` as (curve, length) in dict order -/
def sigTable : List (Curve × Nat) :=
  KeysTables.coordinateLengths.filterMap (fun (n, l) => (Curve.ofName n).map (fun c => (c, l)))

/-- `ECDSASignature.COORDINATE_LENGTHS[curve]` (`KeyError` cannot happen for the three members: `C08.coord_len_tables_agree`) -/
def sigCoordLen (c : Curve) : Nat :=
  match sigTable.find? (fun p => p.1 == c) with
  | some (_, l) => l
  | none => 0

inductive Enc where
  | nxp | pem | der
  deriving DecidableEq, Repr, Inhabited

/-! ### `ECDSASignature` -/

structure Sig where
  r : Nat
  s : Nat
  curve : Curve
  deriving DecidableEq, Repr

/-- `ECDSASignature.get_encoding`: raw by length first, then a DER decoding attempt -/
def sigSniff (sig : Bytes) : PyRes Enc :=
  if KeysTables.sigSniffNxp sig.length then .ok .nxp
  else match derDecode sig with
    | some _ => .ok .der
    | none => .error .spsdk

/-- `ECDSASignature.get_ecc_curve`: the first curve of the table whose raw length or DER window matches -/
def sigCurve (len : Nat) : PyRes Curve :=
  match sigTable.find? (fun p => KeysTables.sigCurveStep len p.2) with
  | some (c, _) => .ok c
  | none => .error .spsdk

/-- `ECDSASignature.parse` -/
def sigParse (sig : Bytes) : PyRes Sig :=
  match sigSniff sig with
  | .error e => .error e
  | .ok .der =>
    (match derDecode sig with
     | none => .error .other
     | some (r, s) =>
       match sigCurve sig.length with
       | .ok c => .ok ⟨r, s, c⟩
       | .error e => .error e)
  | .ok .nxp =>
    let h := sig.length / 2
    (match sigCurve sig.length with
     | .ok c => .ok ⟨beDec (sig.take h), beDec (sig.drop h), c⟩
     | .error e => .error e)
  | .ok .pem => .error .spsdk

/-- fixed-width `r ‖ s` -/
def rawPair (w a b : Nat) : PyRes Bytes :=
  match toBytes w a with
  | .error e => .error e
  | .ok ab => match toBytes w b with
    | .error e => .error e
    | .ok bb => .ok (ab ++ bb)

/-- `ECDSASignature.export` -/
def sigExport (x : Sig) : Enc → PyRes Bytes
  | .nxp => rawPair (sigCoordLen x.curve) x.r x.s
  | .der => .ok (derEncode x.r x.s)
  | .pem => .error .spsdk

/-- `KeyEccCommon.serialize_signature(der, coordinate_length)` (used by `PrivateKeyEcc.sign`) -/
def serializeSignature (der : Bytes) (cl : Nat) : PyRes Bytes :=
  match derDecode der with
  | none => .error .other
  | some (r, s) => rawPair cl r s

/-- `PublicKeyEcc.verify_signature`: the DER byte strings handed to the backend, in order.
    A signature exactly `signature_size` long is read as raw `r ‖ s` and re-encoded; since the repair
    (proposed_fixes/C08-1.diff) the data as given is tried as DER afterwards. -/
def verifyCandidates (c : Curve) (sig : Bytes) : List Bytes :=
  let cl := KeysTables.verifyCoordinateSize c.keySize
  if sig.length = c.sigSize then [derEncode (beDec (sig.take cl)) (beDec (sig.drop cl)), sig] else [sig]

/-- `PublicKeyEcc.verify_signature` over an abstract backend `key.verify(der, data, alg)` (true = no `InvalidSignature`) -/
def verifySignature (backend : Bytes → Bool) (c : Curve) (sig : Bytes) : Bool :=
  (verifyCandidates c sig).any backend

/-- `SignatureProvider.get_signature(data, encoding)` applied to what `self.sign(data)` returned -/
def getSignature (signed : Bytes) (enc : Option Enc) : PyRes Bytes :=
  match sigParse signed with
  | .error .spsdk => .ok signed          -- "Not an ECC signature"
  | .error .other => .error .other
  | .ok x =>
    match sigExport x (enc.getD .nxp) with
    | .ok b => .ok b
    | .error .spsdk => .ok signed        -- an unsupported target encoding is swallowed by the same `except`
    | .error .other => .error .other

/-! ### RSA public keys, NXP raw `modulus ‖ exponent` -/

/-- `PublicKeyRsa.export(NXP, exp_length, modulus_length)`; a length of 0 stands for `None` (Python tests truthiness);
    `math.ceil(x.bit_length() / 8)` is `byteLen x`. -/
def rsaExportNxp (n e : Nat) (expLen modLen : Nat := 0) : PyRes Bytes :=
  let el := if expLen ≠ 0 then expLen else byteLen e
  let ml := if modLen ≠ 0 then modLen else byteLen n
  match toBytes el e with
  | .error x => .error x
  | .ok eb => match toBytes ml n with
    | .error x => .error x
    | .ok mb => .ok (mb ++ eb)

/-- `PublicKeyRsa.recreate_public_numbers`: (modulus, exponent) -/
def rsaRecreateNumbers (data : Bytes) : PyRes (Nat × Nat) :=
  match KeysTables.rsaSupportedKeySizes.find? (fun ks => KeysTables.rsaRawWindow (KeysTables.rsaKeySizeBytes ks) data.length) with
  | none => .error .spsdk
  | some ks =>
    let kb := KeysTables.rsaKeySizeBytes ks
    .ok (beDec (data.take kb), beDec (data.drop kb))

/-! ### ECC public keys, NXP raw `X ‖ Y` -/

/-- `PublicKeyEcc.export(NXP)` -/
def eccExportNxp (c : Curve) (x y : Nat) : PyRes Bytes := rawPair c.cl x y

/-- `recreate_from_data.get_curve(data_length, curve)` -/
def eccGetCurve (len : Nat) (curve : Option Curve) : PyRes (Curve × Bool) :=
  let l := match curve with | some c => [c] | none => Curve.all
  match l.findSome? (fun c => (KeysTables.eccGetCurveStep c.keySize len).map (fun d => (c, d))) with
  | some r => .ok r
  | none => .error .spsdk

inductive PubKey where
  | ecc (c : Curve) (x y : Nat)
  | rsa (n e : Nat)
  deriving DecidableEq, Repr

/-- What the `cryptography` package answers for the blob under consideration (supplied, never modelled). -/
structure Ext where
  /-- `_load_der_public_key(data)`: `none` = `SPSDKError` (not loadable) -/
  loadDer : Option PubKey
  /-- `_load_pem_public_key(data)` -/
  loadPem : Option PubKey
  /-- `EllipticCurvePublicNumbers(x, y, curve).public_key()` succeeds (point on curve) -/
  onCurve : Curve → Nat → Nat → Bool
  /-- `RSAPublicNumbers(e, n).public_key()` succeeds -/
  rsaOk : Nat → Nat → Bool
  /-- the OTPS last resort of `PublicKey.parse` (`nxp_otps_extract_puk` + recursive parse) -/
  otps : Option PubKey

/-- `PublicKeyEcc.recreate_from_data(data, curve)` -/
def eccRecreateFromData (ext : Ext) (data : Bytes) (curve : Option Curve) : PyRes PubKey :=
  match eccGetCurve data.length curve with
  | .error e => .error e
  | .ok (_, true) =>
    (match ext.loadDer with
     | none => .error .spsdk
     | some (.ecc c x y) => .ok (.ecc c x y)
     | some (.rsa _ _) => .error .other)      -- `assert isinstance(der, ec.EllipticCurvePublicKey)`
  | .ok (c, false) =>
    let h := data.length / 2
    let x := beDec (data.take h)
    let y := beDec (data.drop h)
    if ext.onCurve c x y then .ok (.ecc c x y) else .error .spsdk

/-- `PublicKeyRsa.recreate_from_data(data)` -/
def rsaRecreateFromData (ext : Ext) (data : Bytes) : PyRes PubKey :=
  match rsaRecreateNumbers data with
  | .error e => .error e
  | .ok (n, e) => if ext.rsaOk n e then .ok (.rsa n e) else .error .other   -- `ValueError` of `public_key()` is not converted

/-! ### `SPSDKEncoding.get_file_encodings`: text containing `----` is PEM, everything else DER -/

def isCont (b : UInt8) : Bool := 0x80 ≤ b.toNat && b.toNat ≤ 0xBF

/-- Python's strict UTF-8 decoder accepts the byte string (no overlong forms, no surrogates, ≤ U+10FFFF);
    the fuel is the length (every step consumes at least one byte). -/
def utf8ValidF : Nat → Bytes → Bool
  | _, [] => true
  | 0, _ :: _ => false
  | f + 1, b0 :: rest =>
    let n := b0.toNat
    if n < 0x80 then utf8ValidF f rest
    else if 0xC2 ≤ n ∧ n ≤ 0xDF then
      (match rest with
       | b1 :: r => isCont b1 && utf8ValidF f r
       | _ => false)
    else if 0xE0 ≤ n ∧ n ≤ 0xEF then
      (match rest with
       | b1 :: b2 :: r =>
         let lo := if n = 0xE0 then 0xA0 else 0x80
         let hi := if n = 0xED then 0x9F else 0xBF
         decide (lo ≤ b1.toNat) && decide (b1.toNat ≤ hi) && isCont b2 && utf8ValidF f r
       | _ => false)
    else if 0xF0 ≤ n ∧ n ≤ 0xF4 then
      (match rest with
       | b1 :: b2 :: b3 :: r =>
         let lo := if n = 0xF0 then 0x90 else 0x80
         let hi := if n = 0xF4 then 0x8F else 0xBF
         decide (lo ≤ b1.toNat) && decide (b1.toNat ≤ hi) && isCont b2 && isCont b3 && utf8ValidF f r
       | _ => false)
    else false

def utf8Valid (b : Bytes) : Bool := utf8ValidF b.length b

/-- `"----"` occurs (on valid UTF-8 the search in the decoded text and in the bytes coincide: `-` is ASCII) -/
def hasDashes : Bytes → Bool
  | [] => false
  | b :: rest => (match b :: rest with
                  | 0x2D :: 0x2D :: 0x2D :: 0x2D :: _ => true
                  | _ => false) || hasDashes rest

/-- `SPSDKEncoding.get_file_encodings(data)` (never returns NXP) -/
def fileEncoding (data : Bytes) : Enc :=
  if utf8Valid data && hasDashes data then .pem else .der

/-! ### `PublicKey.parse` and the type-specific entry points -/

/-- `PublicKey.parse(data)`: PEM by sniffing; otherwise DER loader, raw ECC by length, raw RSA by length, OTPS.
    (Dilithium / ML-DSA / SM2 attempts are absent: those optional back ends are not installed here.) -/
def pubParse (ext : Ext) (data : Bytes) : PyRes PubKey :=
  if fileEncoding data = .pem then
    (match ext.loadPem with | some k => .ok k | none => .error .spsdk)
  else match ext.loadDer with
    | some k => .ok k
    | none =>
      match eccRecreateFromData ext data none with
      | .ok k => .ok k
      | .error .other => .error .other
      | .error .spsdk =>
        match rsaRecreateFromData ext data with
        | .ok k => .ok k
        | .error .other => .error .other
        | .error .spsdk =>
          match ext.otps with
          | some k => .ok k
          | none => .error .spsdk

/-- `PublicKeyRsa.parse(data)` -/
def pubParseRsa (ext : Ext) (data : Bytes) : PyRes PubKey :=
  match pubParse ext data with
  | .ok (.rsa n e) => .ok (.rsa n e)
  | .ok (.ecc _ _ _) => .error .spsdk
  | .error .other => .error .other
  | .error .spsdk => rsaRecreateFromData ext data

/-- `PublicKeyEcc.parse(data)` -/
def pubParseEcc (ext : Ext) (data : Bytes) : PyRes PubKey :=
  match pubParse ext data with
  | .ok (.ecc c x y) => .ok (.ecc c x y)
  | .ok (.rsa _ _) => .error .spsdk
  | .error .other => .error .other
  | .error .spsdk => eccRecreateFromData ext data none

/-- `PrivateKey.parse(data, password)`: which `cryptography` loader receives the data -/
def privLoader (data : Bytes) : Enc := fileEncoding data

end SpsdkVerif.Keys

/-! ### specification vocabulary used by Properties/C08.lean (not part of the modelled code) -/
namespace SpsdkVerif.Keys
open SpsdkVerif.Misc

/-- the NXP raw form of a pair of fixed-width big-endian numbers -/
def rawSig (c : Curve) (r s : Nat) : Bytes := beEnc c.cl r ++ beEnc c.cl s

/-- number of content octets of the DER INTEGER holding `n` -/
def intLen (n : Nat) : Nat := (encIntContent n).length
/-- total length of a TLV with `l` content octets -/
def tlvLen (l : Nat) : Nat := 1 + (encLen l).length + l
/-- total length of the DER signature of `(r, s)` -/
def derLen (r s : Nat) : Nat := tlvLen (tlvLen (intLen r) + tlvLen (intLen s))

/-- the DER length lies in the window `ECDSASignature.get_ecc_curve` attributes to curve `c` -/
def LenWindow (c : Curve) (r s : Nat) : Prop := 2 * c.cl + 3 ≤ derLen r s ∧ derLen r s ≤ 2 * c.cl + 8

/-- an RSA modulus of exactly `ks` bits -/
def TopBit (n ks : Nat) : Prop := 2 ^ (ks - 1) ≤ n ∧ n < 2 ^ ks

end SpsdkVerif.Keys
