/-
Hand-written executable model of the AHAB image builder of `spsdk/image/ahab/`:
container header, image-array entry (IAE), signature block, SRK record/table, signature container, blob,
`ImageArrayEntry.update_fields`, `AHABContainer.update_fields/export/get_signature_data`,
`AHABImage.update_fields` (offset assignment), `__len__`, `image_info()` / `export()`.

Everything that is a number or a table in the source is taken from `Generated/AhabConsts.lean` (struct formats,
tags, versions, bit positions, alignments, per-chip rows, `create_flags/create_meta/get_container_offset` translated
from the source); the composition logic is hand-written and tied to /repo by the export correspondence of
harness/props/C06.py.  Cryptography is the parameter `c : CryptoOps`; signatures are *inputs* (the model never signs).
The certificate and (for container version 2) the SRK table array are opaque byte blocks here.
-/
import SpsdkVerif.Base.Py
import SpsdkVerif.Model.Misc
import SpsdkVerif.Model.BinImage
import SpsdkVerif.Generated.PyFuns
import SpsdkVerif.Generated.AhabConsts
import SpsdkVerif.Crypto.Iface
import SpsdkVerif.Crypto.Modes

namespace SpsdkVerif.Ahab
open SpsdkVerif SpsdkVerif.Misc
open SpsdkVerif.Crypto (HashAlg CryptoOps cbcEnc zeroPad16)
open SpsdkVerif.Generated


/-! ## `struct.pack` / `unpack` for little-endian integer layouts -/

/-- `pack("<…", v₁, v₂, …)` for integer fields of the given byte widths (no range check) -/
def packInts : List Nat → List Nat → Bytes
  | w :: ws, v :: vs => leEnc w v ++ packInts ws vs
  | _, _ => []

/-- all values fit their field (otherwise `struct.error`) -/
def fits : List Nat → List Nat → Bool
  | w :: ws, v :: vs => decide (v < 256 ^ w) && fits ws vs
  | [], [] => true
  | _, _ => false

/-- `struct.pack` with Python's range check (`struct.error` is not an SPSDK error) -/
def packChecked (ws vs : List Nat) : PyRes Bytes :=
  if fits ws vs then .ok (packInts ws vs) else .error .other

/-- `unpack("<…", data[:size])`: the integer fields of a prefix of `b` (none when `b` is too short) -/
def unpackInts : List Nat → Bytes → Option (List Nat)
  | [], _ => some []
  | w :: ws, b =>
    if b.length < w then none
    else match unpackInts ws (b.drop w) with
      | some vs => some (leDec (b.take w) :: vs)
      | none => none

/-- the `Ns` format: truncate or zero-pad to exactly `n` bytes -/
def fitS (n : Nat) (b : Bytes) : Bytes := (b ++ List.replicate n 0).take n

/-- `extend_block(data, n, padding=0)` for `data.length ≤ n` (longer data is an SPSDKError) -/
def extendTo (n : Nat) (b : Bytes) : Bytes := b ++ List.replicate (n - b.length) 0

def zerosB (n : Nat) : Bytes := List.replicate n 0

/-- bit field `(x >> off) & ((1 << size) - 1)` -/
def getF (x off size : Nat) : Nat := (x >>> off) &&& ((1 <<< size) - 1)

/-! ## container versions -/

inductive Ver where
  | v1 | v2
  deriving DecidableEq, Repr, Inhabited

def Ver.containerSize : Ver → Nat | .v1 => AhabConsts.containerSizeV1 | .v2 => AhabConsts.containerSizeV2
def Ver.containerVersion : Ver → Nat | .v1 => AhabConsts.containerVersionV1 | .v2 => AhabConsts.containerVersionV2
def Ver.sigBlockVersion : Ver → Nat | .v1 => AhabConsts.sigBlockVersionV1 | .v2 => AhabConsts.sigBlockVersionV2
def Ver.startAddr : Ver → Nat | .v1 => AhabConsts.startImageAddrV1 | .v2 => AhabConsts.startImageAddrV2
def Ver.startAddrNand : Ver → Nat | .v1 => AhabConsts.startImageAddrNandV1 | .v2 => AhabConsts.startImageAddrNandV2
def Ver.hdrLayout : Ver → AhabConsts.Layout | .v1 => AhabConsts.containerLayout | .v2 => AhabConsts.containerV2Layout
def Ver.iaeLayout : Ver → AhabConsts.Layout | .v1 => AhabConsts.iaeLayout | .v2 => AhabConsts.iaeV2Layout
def Ver.sbLayout : Ver → AhabConsts.Layout | .v1 => AhabConsts.sigBlockLayout | .v2 => AhabConsts.sigBlockV2Layout
def Ver.hashOff : Ver → Nat | .v1 => AhabConsts.iFlagsHashOffsetV1 | .v2 => AhabConsts.iFlagsHashOffsetV2
def Ver.hashSize : Ver → Nat | .v1 => AhabConsts.iFlagsHashSizeV1 | .v2 => AhabConsts.iFlagsHashSizeV2
def Ver.encOff : Ver → Nat | .v1 => AhabConsts.iFlagsIsEncryptedOffsetV1 | .v2 => AhabConsts.iFlagsIsEncryptedOffsetV2
def Ver.encSize : Ver → Nat | .v1 => AhabConsts.iFlagsIsEncryptedSizeV1 | .v2 => AhabConsts.iFlagsIsEncryptedSizeV2
def Ver.typeOff : Ver → Nat | .v1 => AhabConsts.iFlagsTypeOffsetV1 | .v2 => AhabConsts.iFlagsTypeOffsetV2
def Ver.typeSize : Ver → Nat | .v1 => AhabConsts.iFlagsTypeSizeV1 | .v2 => AhabConsts.iFlagsTypeSizeV2
def Ver.coreOff : Ver → Nat | .v1 => AhabConsts.iFlagsCoreIdOffsetV1 | .v2 => AhabConsts.iFlagsCoreIdOffsetV2
def Ver.coreSize : Ver → Nat | .v1 => AhabConsts.iFlagsCoreIdSizeV1 | .v2 => AhabConsts.iFlagsCoreIdSizeV2
def Ver.bootOff : Ver → Nat | .v1 => AhabConsts.iFlagsBootFlagsOffsetV1 | .v2 => AhabConsts.iFlagsBootFlagsOffsetV2
def Ver.bootSize : Ver → Nat | .v1 => AhabConsts.iFlagsBootFlagsSizeV1 | .v2 => AhabConsts.iFlagsBootFlagsSizeV2

/-- `get_container_offset(ix)` (translated from the source) as a natural number -/
def Ver.containerOffset (v : Ver) (ix : Nat) : PyRes Nat :=
  match (match v with | .v1 => AhabConsts.containerOffsetV1 ix | .v2 => AhabConsts.containerOffsetV2 ix) with
  | .ok r => .ok r.toNat
  | .error e => .error e

/-! ## chip configuration (`create_chip_config`) -/

/-- target memory labels of `AhabTargetMemory` -/
structure Chip where
  row : AhabConsts.Chip
  targetMemory : String
  deriving Repr

def findChip (family revision : String) : Option AhabConsts.Chip :=
  AhabConsts.chips.find? (fun r => r.family == family && r.revision == revision)

def Chip.isNand (ch : Chip) : Bool := ch.targetMemory == "nand_2k" || ch.targetMemory == "nand_4k"
def Chip.isSerial (ch : Chip) : Bool := ch.targetMemory == "serial_downloader"

/-- `BINARY_IMAGE_ALIGNMENTS[target_memory]` (0 when the label is unknown: the constructor refuses it) -/
def Chip.binaryAlignment (ch : Chip) : Nat :=
  match AhabConsts.binaryImageAlignments.find? (fun p => p.1 == ch.targetMemory) with
  | some p => p.2
  | none => 0

/-- alignment of the whole image: `CONTAINER_ALIGNMENT` for serial downloader, else `container_image_size_alignment` -/
def Chip.imageAlignment (ch : Chip) : Nat :=
  if ch.isSerial then AhabConsts.containerAlignment else ch.row.imageSizeAlign

/-- `start_recommended_image_address` -/
def Chip.startAddr (ch : Chip) (v : Ver) : Nat := if ch.isNand then v.startAddrNand else v.startAddr

/-- `ImageArrayEntry.get_image_types(core).from_tag(type).label == "ele"` :
    group "application" unless a mapping entry lists the core id (the last such entry wins) -/
def Chip.imageTypeGroup (ch : Chip) (coreId : Nat) : String :=
  ch.row.imageTypesMapping.foldl (fun g kv => if kv.2.contains coreId then kv.1 else g) "application"

def Chip.imageTypeLabel (ch : Chip) (coreId typeTag : Nat) : Option String :=
  match ch.row.imageTypes.find? (fun p => p.1 == ch.imageTypeGroup coreId) with
  | some grp => (grp.2.find? (fun p => p.1 == typeTag)).map (·.2)
  | none => none

def Chip.isEle (ch : Chip) (v : Ver) (flags : Nat) : Bool :=
  ch.imageTypeLabel (getF flags v.coreOff v.coreSize) (getF flags v.typeOff v.typeSize) == some "ele"

/-! ## image array entry -/

/-- the fields that are written to the binary -/
structure Iae where
  imageOffset : Nat      -- `_image_offset`: relative to the container
  imageSize : Nat
  loadAddress : Nat
  entryPoint : Nat
  flags : Nat
  metaData : Nat
  hash : Bytes
  iv : Bytes
  deriving Repr, DecidableEq

def hashFieldLen (l : AhabConsts.Layout) : Nat := match l.strFields with | (_, n) :: _ => n | [] => 0
def ivFieldLen (l : AhabConsts.Layout) : Nat := match l.strFields with | _ :: (_, n) :: _ => n | _ => 0

def Iae.ints (e : Iae) : List Nat := [e.imageOffset, e.imageSize, e.loadAddress, e.entryPoint, e.flags, e.metaData]

/-- `ImageArrayEntry.export()` -/
def encodeIae (l : AhabConsts.Layout) (e : Iae) : PyRes Bytes :=
  match packChecked l.intWidths e.ints with
  | .error err => .error err
  | .ok b => .ok (b ++ fitS (hashFieldLen l) e.hash ++ fitS (ivFieldLen l) e.iv)

def intsLen (ws : List Nat) : Nat := ws.foldr (· + ·) 0

/-- the field part of `ImageArrayEntry.parse` -/
def decodeIae (l : AhabConsts.Layout) (b : Bytes) : Option Iae :=
  if b.length < l.size then none else
  match unpackInts l.intWidths b with
  | some [o, s, la, ep, fl, md] =>
    let rest := b.drop (intsLen l.intWidths)
    some ⟨o, s, la, ep, fl, md, rest.take (hashFieldLen l), (rest.drop (hashFieldLen l)).take (ivFieldLen l)⟩
  | _ => none

def hashAlgOfTag (t : Nat) : Option HashAlg :=
  if t = 0 then some .sha256 else if t = 1 then some .sha384 else if t = 2 then some .sha512 else none

def Iae.isEncrypted (v : Ver) (flags : Nat) : Bool := getF flags v.encOff v.encSize != 0
def Iae.hashTag (v : Ver) (flags : Nat) : Nat := getF flags v.hashOff v.hashSize

/-- one image of a container as the user configured it (`ImageArrayEntry.__init__` arguments) -/
structure Entry where
  data : Bytes            -- the image file content
  offset : Nat            -- absolute `image_offset` (0 = assign automatically)
  loadAddress : Nat
  entryPoint : Nat
  flags : Nat
  metaData : Nat
  gapAfter : Nat
  sizeAlign : Nat         -- `image_size_alignment` (0 = None)
  deriving Repr, DecidableEq

/-- the `image` setter of an unlocked container: `align_block(data, container_image_size_alignment, 0)` -/
def storedImage (ch : Chip) (d : Bytes) : Bytes :=
  d ++ zerosB (alignNat d.length ch.row.imageSizeAlign - d.length)

/-- `_get_valid_size(image)` -/
def validSize (ch : Chip) (v : Ver) (flags sizeAlign : Nat) (image : Bytes) : Nat :=
  if image.isEmpty then 0
  else if sizeAlign ≠ 0 then alignNat image.length sizeAlign
  else alignNat image.length (if ch.isEle v flags then 4 else 1)

/-- `get_valid_alignment()` -/
def validAlignment (ch : Chip) (v : Ver) (flags : Nat) : Nat :=
  if ch.isEle v flags then 4 else max ch.binaryAlignment 1024

/-- `get_valid_offset(original)` -/
def validOffset (ch : Chip) (v : Ver) (flags : Nat) (orig : Nat) : Nat :=
  alignNat orig (max (validAlignment ch v flags) ch.row.minOffsetAlign)

/-- an entry after `AHABContainer.update_fields` steps 1 and 3: the bytes that go to the file
    (`image`: cipher text when encrypted and a DEK is present), size, hash field and IV field -/
structure Ready where
  image : Bytes
  size : Nat
  hash : Bytes
  iv : Bytes
  deriving Repr, DecidableEq

/-- `dek = none`: no blob in the container (an encrypted-flagged image then stays plain). -/
def readyEntry (c : CryptoOps) (ch : Chip) (v : Ver) (dek : Option Bytes) (e : Entry) : PyRes Ready :=
  let plain := storedImage ch e.data
  let enc := Iae.isEncrypted v e.flags
  -- constructor: IV = SHA-256(plain image) for encrypted entries, zeros otherwise
  let iv : Bytes := if enc then c.hash .sha256 plain else zerosB AhabConsts.iaeIvLen
  -- step 1: `blob.encrypt_data(image_iv[16:], plain_image)` = AES-CBC over the zero-padded image
  let image : Bytes := match enc, dek with
    | true, some k => cbcEnc c k (iv.drop 16) (zeroPad16 plain)
    | _, _ => plain
  let size := validSize ch v e.flags e.sizeAlign image
  match hashAlgOfTag (Iae.hashTag v e.flags) with
  | none => .error .spsdk      -- hash algorithms outside SHA-2 are not modelled
  | some a =>
    .ok ⟨image, size, extendTo AhabConsts.iaeHashLen (c.hash a (extendTo size image)), iv⟩

/-! ## SRK record / table (container version 1) -/

structure SrkRecord where
  signAlg : Nat
  hashAlg : Nat
  keySize : Nat
  srkFlags : Nat
  length : Nat            -- the header's length field
  params : Bytes          -- modulus ‖ exponent or X ‖ Y
  deriving Repr, DecidableEq

def keySizes (ks : Nat) : Option (Nat × Nat) :=
  (AhabConsts.srkKeySizes.find? (fun t => t.1 == ks)).map (fun t => (t.2.1, t.2.2))

/-- `SRKRecord.export()`; an unknown key size is an SPSDKError (`parameter_lengths`) -/
def encodeSrkRecord (r : SrkRecord) : PyRes Bytes :=
  match keySizes r.keySize with
  | none => .error .spsdk
  | some (l1, l2) =>
    match packChecked AhabConsts.srkRecordLayout.intWidths [AhabConsts.srkRecordTag, r.length, r.signAlg, r.hashAlg, r.keySize, AhabConsts.reserved, r.srkFlags] with
    | .error e => .error e
    | .ok hdr =>
      if fits [2, 2] [l1, l2] then .ok (hdr ++ packInts [2, 2] [l1, l2] ++ r.params) else .error .other

/-- `SRKRecord.parse(data)`: head check (tag, algorithm in the enum, declared length available), parameter lengths -/
def decodeSrkRecord (b : Bytes) : Option SrkRecord :=
  let fl := AhabConsts.srkRecordLayout.size
  if b.length < fl then none else
  match unpackInts AhabConsts.srkRecordLayout.intWidths b with
  | some [tag, len, alg, hsh, ks, _res, fl8] =>
    if tag ≠ AhabConsts.srkRecordTag ∨ !(AhabConsts.srkRecordVersions.contains alg) ∨ b.length < len then none else
    -- `SIGN_ALGORITHM_ENUM.from_tag` / `HASH_ALGORITHM_ENUM.from_tag` of the version-1 record raise for unknown tags
    if !(AhabConsts.signAlgV1.any (fun t => t.2.1 == alg)) ∨ !(AhabConsts.hashAlgV1.any (fun t => t.2.1 == hsh)) then none else
    match unpackInts [2, 2] (b.drop (intsLen AhabConsts.srkRecordLayout.intWidths)) with
    | some [l1, l2] =>
      if l1 + l2 + fl > len then none
      else some ⟨alg, hsh, ks, fl8, len, (b.drop fl).take (l1 + l2)⟩
    | _ => none
  | _ => none

structure SrkTable where
  length : Nat
  records : List SrkRecord
  deriving Repr, DecidableEq

def encodeRecords : List SrkRecord → PyRes Bytes
  | [] => .ok []
  | r :: rs =>
    match encodeSrkRecord r, encodeRecords rs with
    | .ok a, .ok b => .ok (a ++ b)
    | .error e, _ => .error e
    | _, .error e => .error e

/-- `SRKTable.export()` -/
def encodeSrkTable (t : SrkTable) : PyRes Bytes :=
  match packChecked AhabConsts.srkTableLayout.intWidths [AhabConsts.srkTableTag, t.length, AhabConsts.srkTableVersion], encodeRecords t.records with
  | .ok h, .ok b => .ok (h ++ b)
  | .error e, _ => .error e
  | _, .error e => .error e

def decodeRecordsAt (b : Bytes) (recSize : Nat) : Nat → Nat → Option (List SrkRecord)
  | 0, _ => some []
  | n + 1, off =>
    match decodeSrkRecord (b.drop off), decodeRecordsAt b recSize n (off + recSize) with
    | some r, some rs => some (r :: rs)
    | _, _ => none

/-- `SRKTable.parse(data)` -/
def decodeSrkTable (b : Bytes) : Option SrkTable :=
  let fl := AhabConsts.srkTableLayout.size
  if b.length < fl then none else
  match unpackInts AhabConsts.srkTableLayout.intWidths b with
  | some [tag, len, ver] =>
    if tag ≠ AhabConsts.srkTableTag ∨ ver ≠ AhabConsts.srkTableVersion ∨ b.length < len ∨ len < fl then none
    else if (len - fl) % AhabConsts.srkRecordsCnt ≠ 0 then none
    else (decodeRecordsAt b ((len - fl) / AhabConsts.srkRecordsCnt) AhabConsts.srkRecordsCnt fl).map (fun rs => ⟨len, rs⟩)
  | _ => none

/-- lengths as `update_fields` computes them: record = fixed part + parameters, table = header + records -/
def SrkRecord.computedLength (r : SrkRecord) : Nat := AhabConsts.srkRecordLayout.size + r.params.length
def SrkTable.computedLength (rs : List SrkRecord) : Nat :=
  AhabConsts.srkTableLayout.size + (rs.map SrkRecord.computedLength).foldr (· + ·) 0

/-- `SRKTable.compute_srk_hash()` = SHA-256 of the exported table -/
def srkTableHash (c : CryptoOps) (tableBytes : Bytes) : Bytes := c.hash .sha256 tableBytes

/-! ## SRK table array (container version 2): SRK data, version-2 records (hash of the SRK data), table, array -/

/-- a version-2 SRK: the record fields and the key data (modulus ‖ exponent or X ‖ Y) that goes into its SRK data block -/
structure SrkV2 where
  signAlg : Nat
  hashAlg : Nat
  keySize : Nat
  srkFlags : Nat
  keyData : Bytes
  deriving Repr, DecidableEq

/-- `SRKData.export()` -/
def encodeSrkData (srkId : Nat) (data : Bytes) : PyRes Bytes :=
  match packChecked AhabConsts.srkDataLayout.intWidths
      [AhabConsts.srkDataVersion, AhabConsts.srkDataLayout.size + data.length, AhabConsts.srkDataTag, srkId, AhabConsts.reserved, AhabConsts.reserved] with
  | .ok h => .ok (h ++ data)
  | .error e => .error e

/-- `SRKRecordV2` as `update_fields` leaves it: crypto parameters = hash of the exported SRK data, zero-extended to 64 bytes -/
def srkRecordOfV2 (c : CryptoOps) (ix : Nat) (r : SrkV2) : PyRes SrkRecord :=
  match encodeSrkData ix r.keyData, hashAlgOfTag r.hashAlg with
  | .ok d, some a =>
    .ok ⟨r.signAlg, r.hashAlg, r.keySize, r.srkFlags, AhabConsts.srkRecordLayout.size + AhabConsts.srkRecordV2ParamsLen,
         extendTo AhabConsts.srkRecordV2ParamsLen (c.hash a d)⟩
  | .error e, _ => .error e
  | _, none => .error .spsdk

def srkRecordsOfV2 (c : CryptoOps) : Nat → List SrkV2 → PyRes (List SrkRecord)
  | _, [] => .ok []
  | ix, r :: rs =>
    match srkRecordOfV2 c ix r, srkRecordsOfV2 c (ix + 1) rs with
    | .ok a, .ok b => .ok (a :: b)
    | .error e, _ => .error e
    | _, .error e => .error e

/-- `SRKTableV2.export()` (header version 0x43, records of fixed length) -/
def encodeSrkTableV2 (recs : List SrkRecord) : PyRes Bytes :=
  match packChecked AhabConsts.srkTableLayout.intWidths
      [AhabConsts.srkTableTag, SrkTable.computedLength recs, AhabConsts.srkTableV2Version], encodeRecords recs with
  | .ok h, .ok b => .ok (h ++ b)
  | .error e, _ => .error e
  | _, .error e => .error e

/-- SRK data block of the record `chip_config.used_srk_id` selects (IndexError when there is no such record) -/
def usedSrkData (used : Nat) (srks : List SrkV2) : PyRes Bytes :=
  match srks[used]? with
  | some r => encodeSrkData used r.keyData
  | none => .error .other

/-- `SRKTableArray.export()` with one table: header ‖ table ‖ SRK data of the used record -/
def encodeSrkArray (c : CryptoOps) (used : Nat) (srks : List SrkV2) : PyRes Bytes :=
  match srkRecordsOfV2 c 0 srks with
  | .error e => .error e
  | .ok recs =>
    match encodeSrkTableV2 recs, usedSrkData used srks with
    | .ok t, .ok d =>
      (match packChecked AhabConsts.srkTableArrayLayout.intWidths
          [AhabConsts.srkTableArrayVersion, AhabConsts.srkTableArrayLayout.size + t.length + d.length, AhabConsts.srkTableArrayTag, 1,
           AhabConsts.reserved, AhabConsts.reserved] with
       | .ok h => .ok (h ++ t ++ d)
       | .error e => .error e)
    | .error e, _ => .error e
    | _, .error e => .error e

/-! ## signature container, blob -/

/-- `ContainerSignature.export()` for signature data `s` (`len(self) = 8 + len(s)`; empty data = no container) -/
def encodeSignature (s : Bytes) : PyRes Bytes :=
  if s.isEmpty then .ok [] else
  match packChecked AhabConsts.signatureLayout.intWidths [AhabConsts.signatureVersion, AhabConsts.signatureLayout.size + s.length, AhabConsts.signatureTag, AhabConsts.reserved] with
  | .ok h => .ok (h ++ s)
  | .error e => .error e

def signatureLen (s : Bytes) : Nat := if s.isEmpty then 0 else AhabConsts.signatureLayout.size + s.length

structure Blob where
  flags : Nat
  size : Nat             -- key size in bits
  algorithm : Nat
  mode : Nat
  length : Nat           -- header length field (`56 + size // 8` when built from a configuration)
  keyblob : Bytes
  keyIdentifier : Nat
  deriving Repr, DecidableEq

/-- `AhabBlob.export()` -/
def encodeBlob (b : Blob) : PyRes Bytes :=
  match packChecked AhabConsts.blobLayout.intWidths [AhabConsts.blobVersion, b.length, AhabConsts.blobTag, b.flags, b.size / 8, b.algorithm, b.mode] with
  | .ok h => .ok (h ++ b.keyblob)
  | .error e => .error e

/-! ## signature block -/

structure SigBlock where
  srk : Bytes             -- exported SRK table (v1) / SRK table array (v2); empty = none
  signature : Bytes       -- signature data; empty = no signature container
  signature2 : Bytes      -- v2 only
  cert : Bytes            -- exported certificate; empty = none
  blob : Option Blob
  deriving Repr, DecidableEq

structure SbOffsets where
  srkOff : Nat
  sigOff : Nat
  certOff : Nat
  blobOff : Nat
  length : Nat
  deriving Repr, DecidableEq

def al8 (n : Nat) : Nat := alignNat n AhabConsts.containerAlignment

/-- one step of `update_fields`: place a block of `size` bytes (0 = absent) after the previous one -/
def sbStep (aligned : Bool) (st : Nat × Nat) (size : Nat) : Nat × (Nat × Nat) :=
  if size = 0 then (0, st)
  else
    let off := if aligned then al8 (st.1 + st.2) else st.1 + st.2
    (off, (off, size))

def SigBlock.sigSize (v : Ver) (sb : SigBlock) : Nat :=
  match v with
  | .v1 => signatureLen sb.signature
  | .v2 => if sb.signature.isEmpty then 0 else signatureLen sb.signature + signatureLen sb.signature2

def SigBlock.blobLen (sb : SigBlock) : Nat := match sb.blob with | some b => b.length | none => 0

/-- `SignatureBlock.update_fields` / `SignatureBlockV2.update_fields` -/
def sbLayout (v : Ver) (sb : SigBlock) : SbOffsets :=
  let aligned := v == .v1
  let fixed := (v.sbLayout).size
  let st0 : Nat × Nat := (0, if aligned then al8 fixed else fixed)
  let (srkOff, st1) := sbStep aligned st0 sb.srk.length
  let (sigOff, st2) := sbStep aligned st1 (sb.sigSize v)
  let (certOff, st3) := sbStep aligned st2 sb.cert.length
  let (blobOff, st4) := sbStep aligned st3 sb.blobLen
  ⟨srkOff, sigOff, certOff, blobOff, st4.1 + st4.2⟩

/-- `buf[off : off+L] = d` on a bytearray (slice assignment: the slice of declared length `L` is replaced by `d`) -/
def blitL (buf : Bytes) (off L : Nat) (d : Bytes) : Bytes := buf.take off ++ d ++ buf.drop (off + L)

/-- `if block: buf[off : off+len(block)] = block.export()` for a block whose `len()` is the length of its bytes -/
def blitB (buf : Bytes) (off : Nat) (d : Bytes) : Bytes :=
  if d.isEmpty then buf else blitL buf off d.length d

def SigBlock.keyId (sb : SigBlock) : Nat := match sb.blob with | some b => b.keyIdentifier | none => AhabConsts.reserved

/-- the 16-byte header of the signature block -/
def sbHeader (v : Ver) (o : SbOffsets) (keyId : Nat) : PyRes Bytes :=
  packChecked (v.sbLayout).intWidths
    [v.sigBlockVersion, o.length, AhabConsts.sigBlockTag, o.certOff, o.srkOff, o.sigOff, o.blobOff, keyId]

def encodeBlobOpt (sb : SigBlock) : PyRes Bytes := match sb.blob with | some b => encodeBlob b | none => .ok []

/-- the buffer after header and SRK table (array) have been written -/
def sbHead (o : SbOffsets) (hdr srk : Bytes) : Bytes := blitB (blitB (zerosB o.length) 0 hdr) o.srkOff srk

/-- the second (PQC) signature of a version-2 block: written right behind the first one, only inside `if self.signature:` -/
def sig2Step (v : Ver) (sb : SigBlock) (o : SbOffsets) (buf sg sg2 : Bytes) : Bytes :=
  match v with
  | .v1 => buf
  | .v2 => if sb.signature.isEmpty then buf else blitB buf (o.sigOff + sg.length) sg2

/-- the blob: `len(self.blob)` is the length FIELD of the blob header -/
def blobStep (sb : SigBlock) (o : SbOffsets) (buf bl : Bytes) : Bytes :=
  match sb.blob with
  | some b => blitL buf o.blobOff b.length bl
  | none => buf

/-- signature(s), certificate and blob written into the buffer -/
def sbTail (v : Ver) (sb : SigBlock) (o : SbOffsets) (buf sg sg2 bl : Bytes) : Bytes :=
  blobStep sb o (blitB (sig2Step v sb o (blitB buf o.sigOff sg) sg sg2) o.certOff sb.cert) bl

/-- `SignatureBlock[V2].export()` with the offsets `o` stored in the object -/
def encodeSigBlock (v : Ver) (sb : SigBlock) (o : SbOffsets) : PyRes Bytes :=
  match sbHeader v o sb.keyId with
  | .error e => .error e
  | .ok hdr =>
    match encodeSignature sb.signature with
    | .error e => .error e
    | .ok sg =>
      match encodeSignature sb.signature2 with
      | .error e => .error e
      | .ok sg2 =>
        match encodeBlobOpt sb with
        | .error e => .error e
        | .ok bl => .ok (sbTail v sb o (sbHead o hdr sb.srk) sg sg2 bl)

/-! ## container -/

structure Container where
  flags : Nat
  swVersion : Nat
  fuseVersion : Nat
  entries : List Entry
  sb : SigBlock
  dek : Option Bytes       -- DEK of the blob (used to encrypt images)
  deriving Repr, DecidableEq

def Container.srkSet (c : Container) : Nat := getF c.flags AhabConsts.cFlagsSrkSetOffset AhabConsts.cFlagsSrkSetSize
def Container.usedSrkId (c : Container) : Nat := getF c.flags AhabConsts.cFlagsUsedSrkIdOffset AhabConsts.cFlagsUsedSrkIdSize
def Container.revokeMask (c : Container) : Nat := getF c.flags AhabConsts.cFlagsSrkRevokeMaskOffset AhabConsts.cFlagsSrkRevokeMaskSize

/-- `set_flags(srk_set, used_srk_id, srk_revoke_mask)` plus the glitch-detector field of `_load_from_config_flags` -/
def containerFlags (srkSet usedSrkId revokeMask gdet : Nat) : Nat :=
  srkSet ||| (usedSrkId <<< AhabConsts.cFlagsUsedSrkIdOffset) ||| (revokeMask <<< AhabConsts.cFlagsSrkRevokeMaskOffset)
    ||| (gdet <<< AhabConsts.cFlagsGdetEnableOffset)

/-- the flag word of a version-2 container: `AHABContainerV2._load_from_config_flags` additionally ORs the
    `check_all_signatures` option in at `FLAGS_CHECK_ALL_SIGNATURES_OFFSET` (bit 15; where `flag_check_all_signatures` reads it) -/
def containerFlagsV2 (srkSet usedSrkId revokeMask gdet checkAll : Nat) : Nat :=
  srkSet ||| (usedSrkId <<< AhabConsts.cFlagsUsedSrkIdOffset) ||| (revokeMask <<< AhabConsts.cFlagsSrkRevokeMaskOffset)
    ||| (checkAll <<< AhabConsts.cFlagsCheckAllSignaturesOffset) ||| (gdet <<< AhabConsts.cFlagsGdetEnableOffset)

/-- `_signature_block_offset` for `n` images -/
def sigBlockOffset (v : Ver) (n : Nat) : Nat := al8 ((v.hdrLayout).size + n * (v.iaeLayout).size)

/-- `header_length()` (a signature block always exists for containers built from a configuration) -/
def headerLength (v : Ver) (n : Nat) (sbLen : Nat) : Nat := (v.hdrLayout).size + n * (v.iaeLayout).size + sbLen

/-- the 16-byte container header (`AHABContainerBase._export`) -/
def encodeHeader (v : Ver) (length flags sw fuse nImages sbOff : Nat) : PyRes Bytes :=
  packChecked (v.hdrLayout).intWidths [v.containerVersion, length, AhabConsts.containerTag, flags, sw, fuse, nImages, sbOff, AhabConsts.reserved]

structure Header where
  version : Nat
  length : Nat
  tag : Nat
  flags : Nat
  swVersion : Nat
  fuseVersion : Nat
  nImages : Nat
  sbOffset : Nat
  deriving Repr, DecidableEq

/-- `AHABContainerBase._parse`: head check (tag, version, length available) and the fields -/
def decodeHeader (v : Ver) (b : Bytes) : Option Header :=
  if b.length < (v.hdrLayout).size then none else
  match unpackInts (v.hdrLayout).intWidths b with
  | some [ver, len, tag, fl, sw, fu, n, sbo, _r] =>
    if tag ≠ AhabConsts.containerTag ∨ ver ≠ v.containerVersion ∨ b.length < len then none
    else some ⟨ver, len, tag, fl, sw, fu, n, sbo⟩
  | _ => none

def encodeIaes (l : AhabConsts.Layout) : List Iae → PyRes Bytes
  | [] => .ok []
  | e :: es =>
    match encodeIae l e, encodeIaes l es with
    | .ok a, .ok b => .ok (a ++ b)
    | .error err, _ => .error err
    | _, .error err => .error err

def decodeIaes (l : AhabConsts.Layout) (b : Bytes) : Nat → Nat → Option (List Iae)
  | 0, _ => some []
  | n + 1, off =>
    match decodeIae l (b.drop off), decodeIaes l b n (off + l.size) with
    | some e, some es => some (e :: es)
    | _, _ => none

/-- `AHABContainer.export()` = header ‖ image array ‖ signature block
    (the bytearray slice assignments of the source reduce to a concatenation because the header part is 8-byte aligned) -/
def exportContainerWith (v : Ver) (c : Container) (iaes : List Iae) : PyRes Bytes :=
  let o := sbLayout v c.sb
  let n := iaes.length
  match encodeHeader v (headerLength v n o.length) c.flags c.swVersion c.fuseVersion n (sigBlockOffset v n) with
  | .error e => .error e
  | .ok h =>
    match encodeIaes v.iaeLayout iaes with
    | .error e => .error e
    | .ok a =>
      match encodeSigBlock v c.sb o with
      | .error e => .error e
      | .ok s => .ok (h ++ a ++ zerosB (sigBlockOffset v n - (h ++ a).length) ++ s)

/-- `get_signature_data()`: the exported container up to the signature container -/
def signatureData (v : Ver) (c : Container) (iaes : List Iae) : PyRes Bytes :=
  match exportContainerWith v c iaes with
  | .ok b => .ok (b.take (sigBlockOffset v iaes.length + (sbLayout v c.sb).sigOff))
  | .error e => .error e

/-! ## the whole image: offsets, length, placement -/

structure Image where
  ver : Ver
  chip : Chip
  containers : List Container
  deriving Repr

/-- an updated entry: configuration, bytes, absolute offset in the AHAB image, and the IAE that is exported -/
structure Placed where
  entry : Entry
  ready : Ready
  offset : Nat
  iae : Iae
  deriving Repr, DecidableEq

def mkIae (base off : Nat) (e : Entry) (r : Ready) : Iae :=
  ⟨off - base, r.size, e.loadAddress, e.entryPoint, e.flags, e.metaData, r.hash, r.iv⟩

/-- the cursor after an image at `off`: `get_valid_offset(offset + image_size + gap_after_image)` -/
def nextCursor (ch : Chip) (v : Ver) (e : Entry) (r : Ready) (off : Nat) : Nat :=
  validOffset ch v e.flags (off + r.size + e.gapAfter)

/-- the offset loop of `AHABImage.update_fields` over the images of one container (containers built from a
    configuration are unlocked): an explicit offset (> 0) is kept, otherwise the cursor is taken; returns the placed
    images and the cursor for the next container -/
def placeEntries (ch : Chip) (v : Ver) (base : Nat) : Nat → List (Entry × Ready) → List Placed × Nat
  | cur, [] => ([], cur)
  | cur, (e, r) :: rest =>
    let off := if e.offset > 0 then e.offset else cur
    let res := placeEntries ch v base (nextCursor ch v e r off) rest
    (⟨e, r, off, mkIae base off e r⟩ :: res.1, res.2)

def readyEntries (c : CryptoOps) (ch : Chip) (v : Ver) (dek : Option Bytes) : List Entry → PyRes (List Ready)
  | [] => .ok []
  | e :: es =>
    match readyEntry c ch v dek e, readyEntries c ch v dek es with
    | .ok r, .ok rs => .ok (r :: rs)
    | .error err, _ => .error err
    | _, .error err => .error err

/-- a container after `update_fields`: its index, byte offset, placed images -/
structure UContainer where
  index : Nat
  base : Nat               -- container offset
  cont : Container
  placed : List Placed
  deriving Repr

/-- `AHABImage.update_fields()` without the signing step (signatures are inputs of the model) -/
def updateContainers (c : CryptoOps) (ch : Chip) (v : Ver) : Nat → Nat → List Container → PyRes (List UContainer)
  | _, _, [] => .ok []
  | ix, cur, ct :: rest =>
    match v.containerOffset ix, readyEntries c ch v (if ct.sb.blob.isSome then ct.dek else none) ct.entries with
    | .ok base, .ok rs =>
      let res := placeEntries ch v base cur (ct.entries.zip rs)
      match updateContainers c ch v (ix + 1) res.2 rest with
      | .ok us => .ok (⟨ix, base, ct, res.1⟩ :: us)
      | .error e => .error e
    | .error e, _ => .error e
    | _, .error e => .error e

def Image.update (c : CryptoOps) (img : Image) : PyRes (List UContainer) :=
  updateContainers c img.chip img.ver 0 (img.chip.startAddr img.ver) img.containers

/-- a negative container-relative offset cannot be packed (`struct.error`) -/
def offsetsOk (us : List UContainer) : Bool :=
  us.all (fun u => u.placed.all (fun p => decide (u.base ≤ p.offset)))

def UContainer.export (v : Ver) (u : UContainer) : PyRes Bytes :=
  exportContainerWith v u.cont (u.placed.map (·.iae))

/-- `AHABImage.__len__` -/
def imageLength (ch : Chip) (us : List UContainer) : Nat :=
  let ends := us.flatMap (fun u => u.placed.map (fun p => alignNat (p.offset + p.ready.size) 4))
  alignNat (ends.foldl max 0) ch.imageAlignment

def minList : List Nat → Nat → Nat
  | [], d => d
  | x :: xs, d => minList xs (min d x)

/-- `start_real_image_address` (every container has at least one image, else `min()` raises) -/
def startReal (ch : Chip) (v : Ver) (us : List UContainer) : Nat :=
  al8 (minList (us.flatMap (fun u => u.placed.map (·.offset))) (ch.startAddr v))

section
open SpsdkVerif.BinImg

/-- the `BinaryImage` of one data image: `BinaryImage(binary=image, size=image_size, offset=image_offset)` -/
def dataImg (pl : Placed) : Img := Img.mk pl.ready.size pl.offset 1 (some pl.ready.image) none []

/-- `container.image_info()` placed at the container offset: `BinaryImage(size=header_length(), binary=export())` -/
def contImg (v : Ver) (u : UContainer) (b : Bytes) : Img :=
  Img.mk (headerLength v u.placed.length (sbLayout v u.cont.sb).length) u.base 1 (some b) none []

/-- a sequence of `add_image` calls -/
def addAll (p : Img) (l : List Img) : Img := l.foldl Img.addImage p

def allPlaced (us : List UContainer) : List Placed := us.flatMap (·.placed)

/-- the "AHAB Containers" block: zero filled up to the first data image, holding the containers at their offsets -/
def contNode (ch : Chip) (v : Ver) (us : List UContainer) (cbytes : List Bytes) : Img :=
  addAll (Img.mk (startReal ch v us) 0 1 none (some .zeros) []) ((us.zip cbytes).map (fun ub => contImg v ub.1 ub.2))

/-- `AHABImage.image_info()` as a `BinaryImage` tree (model of C16) -/
def imageInfo (ch : Chip) (v : Ver) (us : List UContainer) (cbytes : List Bytes) : Img :=
  let A := ch.imageAlignment
  addAll (Img.mk (alignNat (imageLength ch us) A) 0 A none (some .zeros) [contNode ch v us cbytes]) ((allPlaced us).map dataImg)

end

def exportAll (v : Ver) : List UContainer → PyRes (List Bytes)
  | [] => .ok []
  | u :: us =>
    match u.export v, exportAll v us with
    | .ok b, .ok bs => .ok (b :: bs)
    | .error e, _ => .error e
    | _, .error e => .error e

/-- `AHABImage.update_fields(); AHABImage.export()`; of the verifier run at the start of `export()` only the
    geometric record ("Image overlapping") is part of this function - the other records are Model/AhabVerify + the oracle -/
def Image.export (c : CryptoOps) (img : Image) : PyRes Bytes :=
  match img.update c with
  | .error e => .error e
  | .ok us =>
    if !offsetsOk us then .error .other else
    match exportAll img.ver us with
    | .error e => .error e
    | .ok cbytes =>
      let tree := imageInfo img.chip img.ver us cbytes
      -- `export()` starts with `verify().validate()`; its geometric record is `image_info().validate()`
      match tree.validate with
      | .error _ => .error .spsdk
      | .ok () => tree.export

end SpsdkVerif.Ahab
