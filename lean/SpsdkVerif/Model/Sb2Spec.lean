/-
C04 specification side: what the boot ROM is *expected* to see for a given builder input, written
directly from the meaning of the builder's arguments with plain arithmetic (`%`, `/`, `*`), not by
re-running the builder model.  `Properties/C04.lean` proves `Rom.romV21 kek (buildV21 cfg) = ok (expected21 cfg)`;
the harness evaluates the same expectation in Python, independently, on the real code's output.
No Mathlib (the driver prints `expected21` so that the Python twin of this file is tied to it).
-/
import SpsdkVerif.Model.Sb2

namespace SpsdkVerif.Sb2.Spec
open SpsdkVerif SpsdkVerif.Sb2 SpsdkVerif.Sb2.Rom
open SpsdkVerif.Misc (Bytes)
open SpsdkVerif.Crypto (zeros)

/-- memory id `m` (device in bits 0..7, group in bits 8..11) as it sits in command flags:
    device in bits 8..15, group in bits 4..7 -/
def memBits (m : Nat) : Nat := (m % 256) * 256 + (m / 256 % 16) * 16

/-- a 1-, 2- or 4-byte fill pattern replicated to 32 bits -/
def fillPattern (p : Nat) : Nat := if p < 256 then p * 0x01010101 else if p < 65536 then p * 0x10001 else p

def pad16 (d : Bytes) : Bytes := d ++ zeros ((16 - d.length % 16) % 16)

/-- What the loader does for a command given to the builder.
    LOAD: SPSDK exports the *padded* length as the byte count, so the loader writes the data followed by
    the zero padding up to a multiple of 16 (see `viewExact` and the known finding C04-load-count-padded). -/
def view : Cmd → RomCmd
  | .nop => .nop
  | .tag f a c d => .tag f a c d
  | .load a d m f => .load a (f ||| memBits m) (pad16 d)
  | .fill a p l => .fill a (fillPattern p) (if l = 0 then 4 else l)
  | .jump a arg sp => .jump a arg sp
  | .call a arg => .call a arg
  | .erase a l f m => .erase a l (f ||| memBits m)
  | .reset => .reset
  | .memEnable a s m => .memEnable a s (memBits m)
  | .prog a m w1 w2 f => .prog a w1 w2 ((f ||| (if w2 ≠ 0 then 1 else 0)) % 256 + m * 256)
  | .versionCheck t v => .fwVersionCheck t v
  | .keystoreToNv a cid => .keystoreToNv a (cid * 256)
  | .keystoreFromNv a cid => .keystoreFromNv a (cid * 256)

/-- the command exactly as given (LOAD writes exactly the given bytes) -/
def viewExact : Cmd → RomCmd
  | .load a d m f => .load a (f ||| memBits m) d
  | x => view x

/-- all fields in the range of their header slot / accepted by the constructor -/
def WFcmd : Cmd → Prop
  | .nop => True
  | .tag f a c d => f < 65536 ∧ a < 2 ^ 32 ∧ c < 2 ^ 32 ∧ d < 2 ^ 32
  | .load a d m f => a < 2 ^ 32 ∧ d.length + 16 < 2 ^ 32 ∧ m < 4096 ∧ f < 65536
  | .fill a p l => a < 2 ^ 32 ∧ p < 2 ^ 32 ∧ l < 2 ^ 32 ∧ l % 4 = 0
  | .jump a arg sp => a < 2 ^ 32 ∧ arg < 2 ^ 32 ∧ sp.getD 0 < 2 ^ 32
  | .call a arg => a < 2 ^ 32 ∧ arg < 2 ^ 32
  | .erase a l f m => a < 2 ^ 32 ∧ l < 2 ^ 32 ∧ f < 65536 ∧ m < 4096
  | .reset => True
  | .memEnable a s m => a < 2 ^ 32 ∧ s < 2 ^ 32 ∧ m < 4096
  | .prog a m w1 w2 f => a < 2 ^ 32 ∧ m < 256 ∧ w1 < 2 ^ 32 ∧ w2 < 2 ^ 32 ∧ f < 65536
  | .versionCheck t v => t < 2 ∧ v < 2 ^ 32
  | .keystoreToNv a cid => a < 2 ^ 32 ∧ cid ∈ [1, 4, 8, 9, 10, 11, 16]
  | .keystoreFromNv a cid => a < 2 ^ 32 ∧ cid ∈ [1, 4, 8, 9, 10, 11, 16]

instance : (x : Cmd) → Decidable (WFcmd x)
  | .nop => by unfold WFcmd; infer_instance
  | .tag .. => by unfold WFcmd; infer_instance
  | .load .. => by unfold WFcmd; infer_instance
  | .fill .. => by unfold WFcmd; infer_instance
  | .jump .. => by unfold WFcmd; infer_instance
  | .call .. => by unfold WFcmd; infer_instance
  | .erase .. => by unfold WFcmd; infer_instance
  | .reset => by unfold WFcmd; infer_instance
  | .memEnable .. => by unfold WFcmd; infer_instance
  | .prog .. => by unfold WFcmd; infer_instance
  | .versionCheck .. => by unfold WFcmd; infer_instance
  | .keystoreToNv .. => by unfold WFcmd; infer_instance
  | .keystoreFromNv .. => by unfold WFcmd; infer_instance

/-- bytes a command occupies in the stream -/
def cmdLen : Cmd → Nat
  | .load _ d _ _ => 16 + (d.length + 15) / 16 * 16
  | _ => 16

def cmdsLen (cmds : List Cmd) : Nat := (cmds.map cmdLen).sum

/-- number of MAC table entries: the requested number (0 means 1), at most one per 16-byte block -/
def macCount (s : Section) : Nat := min (max s.hmacCount 1) (cmdsLen s.cmds / 16)

def sectionLen (s : Section) : Nat := 16 + 32 + 32 * macCount s + cmdsLen s.cmds

def WFsection (s : Section) : Prop :=
  s.uid < 2 ^ 32 ∧ s.cmds ≠ [] ∧ (∀ x ∈ s.cmds, WFcmd x) ∧ cmdsLen s.cmds / 16 < 2 ^ 32

instance (s : Section) : Decidable (WFsection s) := by unfold WFsection; infer_instance

def expectedSection (s : Section) : RomSection :=
  { uid := s.uid, flags := 0x8001, hmacCount := macCount s, cmds := s.cmds.map view }

def bcdOk (v : Version3) : Prop := v.major < 65536 ∧ v.minor < 65536 ∧ v.service < 65536

def sectionsLen (ss : List Section) : Nat := (ss.map sectionLen).sum

/-- length of a V2.1 file -/
def fileLen21 (cfg : Cfg) : Nat :=
  96 + 32 + 80 + cfg.certBlock.length + (if cfg.flags / 0x8000 % 2 = 1 then 32 else 0) + cfg.signature.length +
  sectionsLen cfg.sections

/-- the certificate block is one the ROM can delimit: 'cert' marker, header length 32, and its length
    is the 16-aligned sum of header, certificate table and root-key-hash table -/
def certBlockOk (cb : Bytes) : Prop := Rom.certBlockLen cb 0 = .ok cb.length

instance (cb : Bytes) : Decidable (certBlockOk cb) := by unfold certBlockOk; infer_instance

/-- inputs `BootImageV21` is meant for.  (Not required: that the 32-bit block counter stays below 2^32 — builder
    model and ROM model encode the same counter value, so the theorems hold regardless; the Python `Counter`
    raises `OverflowError` at the wrap, which is C09's subject and excluded from the correspondence.) -/
def WF21 (cfg : Cfg) : Prop :=
  cfg.dek.length = 32 ∧ cfg.mac.length = 32 ∧ cfg.nonce.length = 16 ∧ cfg.padding.length = 8 ∧
  cfg.timestamp < 2 ^ 64 ∧ bcdOk cfg.productVersion ∧ bcdOk cfg.componentVersion ∧ cfg.buildNumber < 2 ^ 32 ∧
  cfg.flags < 65536 ∧ cfg.flags / 8 % 2 = 1 ∧
  certBlockOk cfg.certBlock ∧ cfg.signature.length % 16 = 0 ∧
  cfg.sections ≠ [] ∧ (∀ s ∈ cfg.sections, WFsection s) ∧
  fileLen21 cfg / 16 < 2 ^ 32 ∧ (cfg.sections.map macCount).sum < 65536

instance (cfg : Cfg) : Decidable (WF21 cfg) := by unfold WF21 bcdOk; infer_instance

/-- what the ROM must report for a V2.1 image built from `cfg` -/
def expected21 (cfg : Cfg) : Content :=
  let sha : Nat := if cfg.flags / 0x8000 % 2 = 1 then 32 else 0
  { major := 2, minor := 1, flags := cfg.flags,
    imageBlocks := fileLen21 cfg / 16,
    firstBootTagBlock := (208 + cfg.certBlock.length + sha + cfg.signature.length) / 16,
    firstBootSectionId := (cfg.sections.head?.map (·.uid)).getD 0,
    offsetToCert := 208, headerBlocks := 6, keyBlobBlock := 8, keyBlobBlockCount := 5,
    maxSectionMacCount := (cfg.sections.map macCount).sum,
    timestamp := cfg.timestamp, productVersion := cfg.productVersion, componentVersion := cfg.componentVersion,
    buildNumber := cfg.buildNumber, nonce := cfg.nonce, dek := cfg.dek, mac := cfg.mac,
    sections := cfg.sections.map expectedSection,
    signedLen := 208 + cfg.certBlock.length + sha, signature := cfg.signature, certBlock := cfg.certBlock }

/-- length of a V2.0 file without the signature -/
def bodyLen20 (cfg : Cfg) (signed : Bool) : Nat :=
  96 + 32 + 80 + (if signed then 16 + 32 + 32 + cfg.certBlock.length else 0) + sectionsLen cfg.sections

def WF20 (cfg : Cfg) (signed : Bool) : Prop :=
  cfg.dek.length = 32 ∧ cfg.mac.length = 32 ∧ cfg.nonce.length = 16 ∧ cfg.padding.length = 8 ∧
  cfg.timestamp < 2 ^ 64 ∧ bcdOk cfg.productVersion ∧ bcdOk cfg.componentVersion ∧ cfg.buildNumber < 2 ^ 32 ∧
  (signed = true → certBlockOk cfg.certBlock ∧ cfg.signature ≠ []) ∧
  cfg.sections ≠ [] ∧ (∀ s ∈ cfg.sections, WFsection s) ∧
  bodyLen20 cfg signed / 16 < 2 ^ 32 ∧ (cfg.sections.map macCount).sum + 1 < 65536

instance (cfg : Cfg) (signed : Bool) : Decidable (WF20 cfg signed) := by unfold WF20 bcdOk; infer_instance

/-- what the ROM must report for a V2.0 image built from `cfg` -/
def expected20 (cfg : Cfg) (signed : Bool) : Content :=
  let cs : Nat := if signed then 80 + cfg.certBlock.length else 0
  { major := 2, minor := 0, flags := if signed then 8 else 4,
    imageBlocks := bodyLen20 cfg signed / 16,
    firstBootTagBlock := (208 + cs) / 16,
    firstBootSectionId := (cfg.sections.head?.map (·.uid)).getD 0,
    offsetToCert := if signed then 288 else 0, headerBlocks := 6, keyBlobBlock := 8, keyBlobBlockCount := 5,
    maxSectionMacCount := (if signed then 1 else 0) + (cfg.sections.map macCount).sum,
    timestamp := cfg.timestamp, productVersion := cfg.productVersion, componentVersion := cfg.componentVersion,
    buildNumber := cfg.buildNumber, nonce := cfg.nonce, dek := cfg.dek, mac := cfg.mac,
    sections := cfg.sections.map expectedSection,
    signedLen := bodyLen20 cfg signed, signature := if signed then cfg.signature else [],
    certBlock := if signed then cfg.certBlock else [] }

end SpsdkVerif.Sb2.Spec
