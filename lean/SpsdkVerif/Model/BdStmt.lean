/-
C19 — model of the statement / program level of the BD command file:

  * `stmtDict`   : what `BDParser`'s statement rules build (command name + dictionary), `sly_bd_parser.py:438-1250`
  * `cmdOfDict`  : what `SB21Helper` makes of such a dictionary (`sb_21_helper.py`), as command objects `Cmd`
                   described by their operands
  * `runProgram` : blocks (options / constants / sources / keyblob) and sections in order, threading the symbol tables
                   `_variables` and the lexer's `_sources`; result = the configuration dictionary of `BDParser.parse`
  * `cmdsOfConfig` : `BootImageV21.load_from_config`'s loop over sections and commands.

External interfaces are parameters of `Env` (assumptions recorded by the harness): file contents (`load_binary`),
legacy memory names (`MemId.get_legacy_str`), valid `ExtMemId` tags.  Key-blob cryptography (keywrap / encrypt) is
abstract: the model delivers the resolved operands (`Cmd.loadCrypto`), the harness recomputes the bytes with SPSDK's `KeyBlob`.
-/
import SpsdkVerif.Model.Bd
namespace SpsdkVerif.Bd
open SpsdkVerif
open SpsdkVerif.Generated

/-! ### Dictionaries -/

/-- Python value stored in a configuration dictionary: int (bools as 0/1) or str -/
inductive DVal where
  | i (v : Int)
  | s (t : String)
  deriving DecidableEq, Repr, Inhabited

def DVal.ofVal : Val → DVal
  | .int v => .i v
  | .sym t => .s t

abbrev Dict := List (String × DVal)

def Dict.get? (d : Dict) (k : String) : Option DVal := (d.find? (fun p => p.1 == k)).map (·.2)

/-- `d.update(e)` (insertion order is irrelevant for every observable; duplicates: the new value wins) -/
def Dict.update (d e : Dict) : Dict :=
  e.foldl (fun acc p => (acc.filter (fun q => q.1 != p.1)) ++ [p]) d

/-! ### Statement syntax -/

inductive MemOpt where
  | none
  | at (e : Expr)
  | name (s : String)
  deriving DecidableEq, Repr, Inhabited

inductive LoadData where
  | file (path : String)        -- STRING_LITERAL
  | source (name : String)      -- SOURCE_NAME
  | blob (hex : String)         -- BINARY_BLOB (hex digits, blanks removed by the lexer)
  | pattern (e : Expr)          -- int_const_expr
  deriving DecidableEq, Repr, Inhabited

inductive Target where
  | addr (e : Expr)
  | range (a b : Expr)
  deriving DecidableEq, Repr, Inhabited

inductive CallArg where
  | none            -- no parentheses
  | empty           -- `()`
  | arg (e : Expr)
  deriving DecidableEq, Repr, Inhabited

inductive Stmt where
  | load (opt : MemOpt) (d : LoadData) (t : Target)
  | erase (opt : MemOpt) (t : Target)
  | eraseAll (opt : MemOpt)
  | eraseUnsecureAll
  | enable (opt : MemOpt) (e : Expr)
  | call (target : Expr) (a : CallArg)
  | jump (target : Expr) (a : CallArg)
  | jumpSp (sp target : Expr) (a : CallArg)
  | reset
  | versionCheck (nsec : Bool) (e : Expr)
  | keystoreToNv (opt : MemOpt) (t : Target)
  | keystoreFromNv (opt : MemOpt) (t : Target)
  | keywrap (id : Expr) (blob : String) (addr : Expr)
  | encrypt (id : Expr) (opt : MemOpt) (d : LoadData) (t : Target)
  | unsupported (kind : String)   -- if/else, mode, info/warning/error, from, section list, `> .`, no target, …
  deriving DecidableEq, Repr, Inhabited

/-! ### Environment -/

structure Env where
  vars : Vars := []
  /-- lexer `_sources`: (name, path) in definition order -/
  sources : List (String × String) := []
  externs : List String := []
  /-- path ↦ content as `load_binary(path, search_paths)` delivers it (absent = SPSDKError) -/
  files : List (String × List UInt8) := []
  /-- `MemId.get_legacy_str` -/
  memNames : List (String × Int) := []
  /-- tags of `ExtMemId` -/
  extMemTags : List Int := []
  deriving Repr, Inhabited

/-- errors: `syntax` = refused by the BD parser (SPSDKError), `py e` = exception of class e -/
abbrev R := Except EvalErr

def spsdkErr {α} : R α := .error (.py .spsdk)
def otherErr {α} : R α := .error (.py .other)

def evalE (env : Env) (e : Expr) : R Val := liftPy (eval env.vars e)

/-! ### Parser level: statement ↦ (command name, dictionary) -/

def memOptDict (env : Env) (key : String) : MemOpt → R Dict
  | .none => .ok []
  | .at e => do let v ← evalE env e; pure [(key, .ofVal v)]
  | .name s => .ok [(key, .s s)]

def targetDict (env : Env) : Target → R Dict
  | .addr e => do let v ← evalE env e; pure [("address", .ofVal v)]
  | .range a b => do
    let va ← evalE env a
    let vb ← evalE env b
    -- `length = token.int_const_expr1 - address_start` (a str operand raises TypeError)
    match va, vb with
    | .int x, .int y => do let l ← liftPy (BdGrammar.rangeLength x y); pure [("address", .i x), ("length", .i l)]
    | _, _ => otherErr

def loadDataDict (env : Env) : LoadData → R Dict
  | .file p => .ok [("file", .s p)]
  | .source n =>
    match env.sources.find? (fun p => p.1 == n) with
    | some p => .ok [("file", .s p.2)]
    | none => .error .syntax
  | .blob h => .ok [("values", .s h)]
  | .pattern e => do
    let v ← evalE env e
    match v with
    | .int x => pure [("pattern", .i x)]
    | .sym _ => .error .syntax   -- "identifier … is not a source identifier"

def callArgDict (env : Env) : CallArg → R Dict
  | .none => .ok []
  | .empty => .ok []
  | .arg e => do let v ← evalE env e; pure [("argument", .ofVal v)]

/-- dictionary of `LOAD load_opt load_data load_target` -/
def loadStmtDict (env : Env) (opt : MemOpt) (d : LoadData) (t : Target) : R (String × Dict) := do
  let o ← memOptDict env "load_opt" opt
  let dd ← loadDataDict env d
  let tt ← targetDict env t
  let cmd := if (dd.get? "pattern").isSome && (o.get? "load_opt").isNone then "fill" else "load"
  pure (cmd, (Dict.update (Dict.update o dd) tt))

def stmtDict (env : Env) : Stmt → R (String × Dict)
  | .load opt d t => loadStmtDict env opt d t
  | .erase opt t => do
    let tt ← targetDict env t
    let o ← memOptDict env "mem_opt" opt
    pure ("erase", Dict.update tt o)
  | .eraseAll opt => do
    let o ← memOptDict env "mem_opt" opt
    pure ("erase", Dict.update [("address", .i BdGrammar.eraseAllAddress), ("flags", .i BdGrammar.eraseAllFlags)] o)
  | .eraseUnsecureAll =>
    .ok ("erase", [("address", .i BdGrammar.eraseUnsecureAllAddress), ("flags", .i BdGrammar.eraseUnsecureAllFlags)])
  | .enable opt e => do
    let o ← memOptDict env "mem_opt" opt
    let v ← evalE env e
    pure ("enable", Dict.update o [("address", .ofVal v)])
  | .call tgt a => do
    let v ← evalE env tgt
    let aa ← callArgDict env a
    pure ("call", Dict.update [("address", .ofVal v)] aa)
  | .jump tgt a => do
    let v ← evalE env tgt
    let aa ← callArgDict env a
    pure ("jump", Dict.update [("address", .ofVal v)] aa)
  | .jumpSp sp tgt a => do
    let s ← evalE env sp
    let v ← evalE env tgt
    let aa ← callArgDict env a
    pure ("jump", Dict.update [("spreg", .ofVal s), ("address", .ofVal v)] aa)
  | .reset => .ok ("reset", [])
  | .versionCheck nsec e => do
    let v ← evalE env e
    pure ("version_check", [("ver_type", .i (if nsec then 1 else 0)), ("fw_version", .ofVal v)])
  | .keystoreToNv opt t => do
    let o ← memOptDict env "mem_opt" opt
    let tt ← targetDict env t
    pure ("keystore_to_nv", Dict.update o tt)
  | .keystoreFromNv opt t => do
    let o ← memOptDict env "mem_opt" opt
    let tt ← targetDict env t
    pure ("keystore_from_nv", Dict.update o tt)
  | .keywrap id blob addr => do
    let i ← evalE env id
    let a ← evalE env addr
    pure ("keywrap", [("keyblob_id", .ofVal i), ("address", .ofVal a), ("values", .s blob)])
  | .encrypt id opt d t => do
    let i ← evalE env id
    let (cmd, dd) ← loadStmtDict env opt d t
    -- `dictionary["encrypt"].update(token.load_stmt.get("load"))`: a pattern fill has no "load" entry -> update(None)
    if cmd == "load" then pure ("encrypt", Dict.update [("keyblob_id", .ofVal i)] dd) else otherErr
  | .unsupported _ => .error .syntax

/-! ### Helper level: dictionary ↦ command object -/

inductive Cmd where
  | load (addr memId : Int) (data : List UInt8)
  | fill (addr : Int) (pattern : List UInt8) (count : Int)
  | prog (addr memId w1 w2 : Int)
  | erase (addr len flags memId : Int)
  | enable (addr size memId : Int)
  | jump (addr : Int) (arg : DVal) (spreg : Option DVal)
  | call (addr : Int) (arg : DVal)
  | reset
  | versionCheck (ty : Int) (ver : DVal)
  | ksToNv (addr ctrl : Int)
  | ksFromNv (addr ctrl : Int)
  /-- keywrap / encrypt: a LOAD whose data SPSDK's `KeyBlob` derives from these resolved operands -/
  | loadCrypto (kind : String) (addr : Int) (kbStart kbEnd : Int) (key counter : String) (input : String) (byteSwap : Bool)
  deriving DecidableEq, Repr, Inhabited

/-- a key blob as `BDParser` records it -/
structure KeyBlobDef where
  id : DVal
  content : Dict
  deriving Repr, Inhabited

/-- `value_to_int` on a dictionary value: a str that is no number is an SPSDKError (BD identifiers never are numbers) -/
def valueToInt : DVal → R Int
  | .i v => .ok v
  | .s _ => spsdkErr

def checkAddr (a : Int) : R Unit := if a < 0 || a > 0xFFFFFFFF then spsdkErr else .ok ()

/-- `SB21Helper.get_mem_id` -/
def getMemId (env : Env) : DVal → R Int
  | .i v => .ok v
  | .s n => match env.memNames.find? (fun p => p.1 == n) with
    | some p => if p.2 != 0 then .ok p.2 else spsdkErr   -- `if mem_id:` (0 is falsy)
    | none => spsdkErr

def truthyD : DVal → Bool
  | .i v => v != 0
  | .s s => s != ""

/-- memory id of an optional `load_opt` / `mem_opt` entry (`if opt: mem_id = get_mem_id(opt)`) -/
def optMemId (env : Env) (d : Dict) (key : String) : R Int :=
  match d.get? key with
  | some v => if truthyD v then getMemId env v else .ok 0
  | none => .ok 0

def natBytesBE : Nat → Nat → List UInt8
  | 0, _ => []
  | n + 1, v => natBytesBE n (v / 256) ++ [UInt8.ofNat (v % 256)]

def natBytesLE (n v : Nat) : List UInt8 := (natBytesBE n v).reverse

/-- number of bytes of a non-negative int (0 ↦ 0) -/
def byteLen : Nat → Nat → Nat
  | 0, _ => 0
  | fuel + 1, v => if v = 0 then 0 else 1 + byteLen fuel (v / 256)

def hexNat (s : String) : Nat := hexVal s.toList

/-- `get_bytes_cnt_of_int(v)` (align_to_2n) for v ≥ 0 -/
def bytesCnt (v : Nat) : Nat :=
  if v = 0 then 1 else
    let c := byteLen (v + 1) v
    if c > 2 then (c + 3) / 4 * 4 else c

def swap32 (v : Nat) : Nat :=
  let b := natBytesBE 4 v
  b.reverse.foldl (fun acc x => acc * 256 + x.toNat) 0

/-- `SB21Helper._prog` -/
def progCmd (env : Env) (d : Dict) : R Cmd := do
  let addr ← valueToInt ((d.get? "address").getD (.s ""))
  let memId ← getMemId env ((d.get? "load_opt").getD (.i 4))
  let vals := d.get? "values"
  let pat := d.get? "pattern"
  let (w1, w2) ← (
    if (vals.map truthyD).getD false then
      match vals with
      | some (.s h) =>
        let v := hexNat h
        let bc := bytesCnt v
        if bc ≤ 4 then (.ok ((swap32 v : Int), (swap32 0 : Int)) : R (Int × Int))
        else if bc ≤ 8 then .ok ((swap32 (v / 2 ^ 32) : Int), (swap32 (v % 2 ^ 32) : Int))
        else spsdkErr
      | _ => otherErr
    else if (pat.map truthyD).getD false then
      match pat with
      | some (.i v) =>
        if v < 0 then spsdkErr   -- "Data word 1 must not be negative"
        else if bytesCnt v.toNat ≤ 4 then .ok (v, 0) else spsdkErr
      | _ => spsdkErr
    else spsdkErr)
  -- CmdProg.__init__
  if memId < 0 || memId > 0xFF then spsdkErr
  else do
    checkAddr addr
    if w1 < 0 || w1 > 0xFFFFFFFF then spsdkErr
    else if w2 < 0 || w2 > 0xFFFFFFFF then spsdkErr
    else pure (.prog addr memId w1 w2)

/-- `SB21Helper._load` -/
def loadCmd (env : Env) (d : Dict) : R Cmd := do
  let addr ← valueToInt ((d.get? "address").getD (.s ""))
  let memId ← optMemId env d "load_opt"
  match d.get? "file", d.get? "values", d.get? "pattern" with
  | some (.s p), _, _ =>
    if p != "" then
      match env.files.find? (fun q => q.1 == p) with
      | some q => do checkAddr addr; pure (.load addr memId q.2)
      | none => spsdkErr
    else spsdkErr
  | none, some (.s h), _ =>
    if h != "" then
      if memId == 4 then progCmd env d
      else
        let v := hexNat h
        if v > 0xFFFFFFFF then spsdkErr
        else do checkAddr addr; pure (.load addr memId (natBytesLE 4 v))
    else spsdkErr
  | none, none, some pv =>
    if truthyD pv && memId == 4 then progCmd env d else spsdkErr
  | _, _, _ => spsdkErr

/-- `CmdFill.__init__` -/
def fillCmd (addr pattern : Int) (length : Option Int) : R Cmd :=
  let len : Int := match length with | some l => if l != 0 then l else 4 | none => 4
  if Int.fmod len 4 != 0 then spsdkErr
  else if pattern < 0 then otherErr     -- int.to_bytes of a negative number: OverflowError
  else
    let p := pattern.toNat
    let n0 := byteLen (p + 1) p
    let n := if n0 == 0 then 1 else if n0 == 3 then 4 else n0
    if n != 1 && n != 2 && n != 4 then spsdkErr
    else
      let bytes := natBytesBE n p
      let rep := (List.replicate (4 / n) bytes).flatten
      match checkAddr addr with
      | .error e => .error e
      | .ok _ => .ok (.fill addr rep len)

/-- bits of a memory id inside a command's flags (`CmdBaseClass.ROM_MEM_*`) -/
def memFlags (memId : Int) : Int :=
  let dev := intAnd memId 0xFF
  let grp := (intAnd memId 0xF00) / 256
  intOr (intAnd (dev * 256) 0xFF00) (intAnd (grp * 16) 0xF0)

def lookupKeyblob (kbs : List KeyBlobDef) (id : DVal) : R (Option Dict) :=
  match kbs.find? (fun k => k.id == id) with
  | none => .ok none
  | some k =>
    if ["start", "end", "key", "counter"].all (fun key => (k.content.get? key).isSome) then .ok (some k.content)
    else spsdkErr

def strOf : DVal → R String
  | .s v => .ok v
  | .i _ => otherErr

def isHexStr (s : String) : Bool := s.length % 2 == 0 && s.toList.all isHexDigit

/-- `value_to_bool` on a dictionary value -/
def valueToBool : DVal → Bool
  | .i v => v != 0
  | .s t => t == "True" || t == "true" || t == "T" || t == "1"

/-- `useSwap`: `_encrypt` reads the key blob's `byteSwap` (falling back to `byte_swap`); `_keywrap` does not swap -/
def cryptoCmd (kind : String) (useSwap : Bool) (kbs : List KeyBlobDef) (d : Dict) (addr : Int) (input : String) : R Cmd := do
  let kb ← lookupKeyblob kbs ((d.get? "keyblob_id").getD (.s ""))
  match kb with
  | none => spsdkErr
  | some c => do
    let st ← valueToInt ((c.get? "start").getD (.s ""))
    let en ← valueToInt ((c.get? "end").getD (.s ""))
    let key ← strOf ((c.get? "key").getD (.i 0))
    let ctr ← strOf ((c.get? "counter").getD (.i 0))
    if !(isHexStr key) || !(isHexStr ctr) then otherErr    -- bytes.fromhex: ValueError
    else do
      checkAddr addr   -- CmdLoad.__init__
      let swap := useSwap && valueToBool ((c.get? "byteSwap").getD ((c.get? "byte_swap").getD (.i 0)))
      pure (.loadCrypto kind addr st en key ctr input swap)

/-- `SB21Helper.get_command(name)(dict)`; `kbs` = the configuration's key blobs -/
def cmdOfDict (env : Env) (kbs : List KeyBlobDef) (name : String) (d : Dict) : R Cmd :=
  if name == "load" then loadCmd env d
  else if name == "fill" then do
    let addr ← valueToInt ((d.get? "address").getD (.s ""))
    let pat ← valueToInt ((d.get? "pattern").getD (.s ""))
    match d.get? "length" with
    | some (.i l) => fillCmd addr pat (some l)
    | some (.s _) => otherErr
    | none => fillCmd addr pat none
  else if name == "erase" then do
    let addr ← valueToInt ((d.get? "address").getD (.s ""))
    let len ← valueToInt ((d.get? "length").getD (.i 0))
    let flags ← (match (d.get? "flags").getD (.i 0) with | .i f => (.ok f : R Int) | .s _ => otherErr)
    let memId ← optMemId env d "mem_opt"
    checkAddr addr
    pure (.erase addr len (intOr flags (memFlags memId)) memId)
  else if name == "enable" then do
    let addr ← valueToInt ((d.get? "address").getD (.s ""))
    let memId ← optMemId env d "mem_opt"
    pure (.enable addr 4 memId)
  else if name == "jump" then do
    let addr ← valueToInt ((d.get? "address").getD (.s ""))
    checkAddr addr
    pure (.jump addr ((d.get? "argument").getD (.i 0)) (d.get? "spreg"))
  else if name == "version_check" then
    match d.get? "ver_type", d.get? "fw_version" with
    | some (.i t), some v => .ok (.versionCheck t v)
    | _, _ => otherErr
  else if name == "keystore_to_nv" || name == "keystore_from_nv" then
    match d.get? "mem_opt" with
    | none => otherErr     -- KeyError
    | some m => do
      let addr ← valueToInt ((d.get? "address").getD (.s ""))
      match m with
      | .i tag =>
        if env.extMemTags.contains tag then
          (do checkAddr addr
              if tag < 0 || tag > 0xFF then spsdkErr
              else pure (if name == "keystore_to_nv" then .ksToNv addr tag else .ksFromNv addr tag))
        else spsdkErr
      | .s _ => spsdkErr
  else if name == "keywrap" then do
    let addr ← valueToInt ((d.get? "address").getD (.s ""))
    let inp ← strOf ((d.get? "values").getD (.i 0))
    cryptoCmd "keywrap" false kbs d addr inp
  else if name == "encrypt" then do
    let addr ← valueToInt ((d.get? "address").getD (.s ""))
    match d.get? "file", d.get? "values" with
    | some (.s p), _ =>
      if p != "" then
        match env.files.find? (fun q => q.1 == p) with
        | some q => cryptoCmd "encrypt" true kbs d addr (String.ofList (q.2.foldr (fun b acc =>
            Nat.toDigits 16 (b.toNat / 16) ++ Nat.toDigits 16 (b.toNat % 16) ++ acc) []))
        | none => spsdkErr
      else spsdkErr
    | none, some (.s h) =>
      if h != "" then
        let v := hexNat h
        -- struct.pack("<L", v): struct.error beyond 32 bits
        if v > 0xFFFFFFFF then otherErr
        else cryptoCmd "encrypt" true kbs d addr (String.ofList ((natBytesLE 4 v).foldr (fun b acc =>
            Nat.toDigits 16 (b.toNat / 16) ++ Nat.toDigits 16 (b.toNat % 16) ++ acc) []))
      else spsdkErr
    | _, _ => spsdkErr
  else if name == "call" then do
    let addr ← valueToInt ((d.get? "address").getD (.s ""))
    checkAddr addr
    pure (.call addr ((d.get? "argument").getD (.i 0)))
  else if name == "reset" then .ok .reset
  else otherErr   -- KeyError in `SB21Helper.cmds`

/-- one statement ↦ one command (parser rule, then helper) -/
def elabStmt (env : Env) (kbs : List KeyBlobDef) (s : Stmt) : R Cmd := do
  let (name, d) ← stmtDict env s
  cmdOfDict env kbs name d

/-! ### Program level -/

inductive ConstVal where
  | str (s : String)
  | bexpr (b : BExpr)
  deriving DecidableEq, Repr, Inhabited

inductive SourceVal where
  | path (s : String)
  | extern (e : Expr)
  deriving DecidableEq, Repr, Inhabited

inductive Block where
  | options (defs : List (String × ConstVal))
  | constants (defs : List (String × BExpr))
  | sources (defs : List (String × SourceVal))
  | keyblob (id : Expr) (opts : List (String × ConstVal))
  deriving Repr, Inhabited

structure Section where
  id : Expr
  stmts : List Stmt
  deriving Repr, Inhabited

/-- the dictionary `BDParser.parse` returns -/
structure Config where
  options : Option Dict := none          -- absent when the file has no options block
  keyblobs : List KeyBlobDef := []
  hasSources : Bool := false
  sections : List (DVal × List (String × Dict)) := []
  deriving Repr, Inhabited

def evalConst (env : Env) : ConstVal → R Val
  | .str s => .ok (.sym s)
  | .bexpr b => liftPy (evalB env.vars b)

def evalDefs (env : Env) : List (String × ConstVal) → R (Env × Dict)
  | [] => .ok (env, [])
  | (n, c) :: rest => do
    let v ← evalConst env c
    let env' := { env with vars := env.vars ++ [(n, v)] }
    let (env'', d) ← evalDefs env' rest
    pure (env'', Dict.update [(n, .ofVal v)] d)

/-- key blob options do not define variables -/
def evalKbOpts (env : Env) : List (String × ConstVal) → R Dict
  | [] => .ok []
  | (n, c) :: rest => do
    let v ← evalConst env c
    let d ← evalKbOpts env rest
    pure (Dict.update [(n, .ofVal v)] d)

def externAt (env : Env) (v : Val) : R String :=
  match v with
  | .sym _ => otherErr
  | .int i =>
    let n : Int := env.externs.length
    if i > n - 1 then .error .syntax            -- "extern() out of range"
    else if i ≥ 0 then .ok (env.externs.getD i.toNat "")
    else if -n ≤ i then .ok (env.externs.getD (n + i).toNat "")   -- Python negative index
    else otherErr                                -- IndexError

def runBlock (env : Env) (cfg : Config) : Block → R (Env × Config)
  | .options defs => do
    let (env', d) ← evalDefs env defs
    pure (env', { cfg with options := some (Dict.update (cfg.options.getD []) d) })
  | .constants defs => do
    let rec goC (env : Env) : List (String × BExpr) → R Env
      | [] => .ok env
      | (n, b) :: rest => do
        let v ← liftPy (evalB env.vars b)
        goC { env with vars := env.vars ++ [(n, v)] } rest
    let env' ← goC env defs
    pure (env', cfg)
  | .sources defs => do
    let rec goS (env : Env) : List (String × SourceVal) → R Env
      | [] => .ok env
      | (n, .path p) :: rest => goS { env with sources := env.sources ++ [(n, p)] } rest
      | (n, .extern e) :: rest => do
        let v ← evalE env e
        let p ← externAt env v
        goS { env with sources := env.sources ++ [(n, p)] } rest
    let env' ← goS env defs
    pure (env', { cfg with hasSources := true })
  | .keyblob id opts => do
    let i ← evalE env id
    let d ← evalKbOpts env opts
    pure (env, { cfg with keyblobs := cfg.keyblobs ++ [{ id := .ofVal i, content := d }] })

def runStmts (env : Env) : List Stmt → R (List (String × Dict))
  | [] => .ok []
  | s :: rest => do
    let c ← stmtDict env s
    let cs ← runStmts env rest
    pure (c :: cs)

def runSections (env : Env) : List Section → R (List (DVal × List (String × Dict)))
  | [] => .ok []
  | s :: rest => do
    let i ← evalE env s.id
    let cs ← runStmts env s.stmts
    let r ← runSections env rest
    pure ((.ofVal i, cs) :: r)

def runBlocks (env : Env) (cfg : Config) : List Block → R (Env × Config)
  | [] => .ok (env, cfg)
  | b :: rest => do
    let (env', cfg') ← runBlock env cfg b
    runBlocks env' cfg' rest

/-- `BDParser().parse(text, extern)` on the abstract syntax -/
def runProgram (env : Env) (blocks : List Block) (sections : List Section) : R (Env × Config) := do
  let (env', cfg) ← runBlocks env {} blocks
  let secs ← runSections env' sections
  pure (env', { cfg with sections := secs })

/-- ids of the boot sections: `value_to_int(section.get("section_id", index))` (the BD parser always delivers a section_id) -/
def sectionUids (cfg : Config) : R (List Int) := cfg.sections.mapM (fun s => valueToInt s.1)

/-- the command loop of `BootImageV21.load_from_config` -/
def cmdsOfConfig (env : Env) (cfg : Config) : R (List (List Cmd)) :=
  cfg.sections.mapM (fun sec => do
    let _ ← valueToInt sec.1
    sec.2.mapM (fun c => cmdOfDict env cfg.keyblobs c.1 c.2))

end SpsdkVerif.Bd
