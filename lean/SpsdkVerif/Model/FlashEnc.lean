/-
C13 — flash encryption (OTFAD, IEE, BEE).  Hand-written executable model, two sides:

  SOFTWARE side, as coded in /repo (with the fixes proposed_fixes/C13-1..4 applied):
    spsdk/utils/crypto/otfad.py   KeyBlob.{contains_addr, matches_range, is_encrypted, _get_ctr_nonce, encrypt_image,
                                  plain_data, export}, Otfad.{encrypt_image, encrypt_key_blobs}
    spsdk/utils/crypto/iee.py     IeeKeyBlobAttribute.{ctr_mode,key1_size,key2_size,export}, IeeKeyBlob.{plain_data,
                                  matches_range, encrypt_image(_xts/_ctr), calculate_tweak}, Iee.{encrypt_image,
                                  get_key_blobs, encrypt_key_blobs}
    spsdk/image/bee.py            BeeProtectRegionBlock.{update (region envelope), is_inside_region, encrypt_block},
                                  BeeNxp.export_image
    spsdk/crypto/symmetric.py     Counter (32-bit word, wraps), aes_ctr_encrypt = `ctrXor`, aes_xts_encrypt = `xtsEnc`,
                                  aes_key_wrap = `kwWrap` (library calls: assumption, validated by C09)

  HARDWARE side, written independently from the engine descriptions in the source comments:
    `otfadHw`  per absolute 16-byte address; context = first VLD context whose SRTADDR/ENDADDR[31:10] window holds
               the address; ADE decides decrypt/bypass; counter = {CTR_W0, CTR_W1, CTR_W0^CTR_W1, address[31:4]·0000b};
               contexts are what the ROM gets from the exported key-blob table (`otfadUnwrapEntry`).
    `ieeHw`    per 4 KiB page; region = first context with start ≤ page address < end; AES-XTS with the page
               number as tweak, AES-CTR with the 16-byte block address added to the counter word, bypass.
    `beeHw`    per absolute 16-byte address inside a FAC region: AES-CTR with counter = nonce[0:12] ‖ BE32(address>>4).

Everything is over an abstract `c : CryptoOps`; the driver instantiates `execOps`.  No Mathlib.
Tied to /repo by harness/props/C13.py (correspondence) — constants come from Generated/FlashEncConsts.lean.
-/
import SpsdkVerif.Spec.FlashEncHw
import SpsdkVerif.Generated.FlashEncConsts
import SpsdkVerif.Model.Misc

namespace SpsdkVerif.FlashEnc
open SpsdkVerif SpsdkVerif.Crypto
open SpsdkVerif.Misc (beEnc beDec leEnc leDec reverseBytesInLongs reverseBits)
open SpsdkVerif.Generated.FlashEncConsts

/-! ## Shared helpers -/

/-- Python `data[:i] + x + data[j:]` — the bytearray slice assignment `data[i:j] = x` (for `i ≤ j`) -/
def sliceAssign (data : Bytes) (i j : Nat) (x : Bytes) : Bytes := data.take i ++ x ++ data.drop j

/-- `Counter(nonce, ctr_value, BIG).value` after `k` increments by `inc`: `nonce[:12] ‖ BE32(word + ctr_value + k·inc mod 2^32)`
    (`beEnc 4` reduces mod 2^32 — the 32-bit wrap of `Counter.value`) -/
def counterValue (nonce : Bytes) (ctrValue : Nat) : Bytes :=
  nonce.take 12 ++ beEnc 4 (beDec (nonce.drop 12) + ctrValue)

/-- length of the first piece when an image at `base` is split at absolute `unit` boundaries: `min(-base % unit, len)` -/
def firstLen (unit base len : Nat) : Nat := min ((unit - base % unit) % unit) len

def validAesKeyLen (k : Bytes) : Bool := k.length == 16 || k.length == 24 || k.length == 32

/-- `Cipher(algorithms.AES(key), modes.XTS(tweak))`: the key is 32 or 64 bytes, split in halves (data key, tweak key);
    equal halves are refused (`ValueError`) -/
def xtsKeyCheck (key : Bytes) (k : Bytes → Bytes → PyRes Bytes) : PyRes Bytes :=
  if key.length ≠ 32 ∧ key.length ≠ 64 then .error .other
  else if key.take (key.length / 2) == key.drop (key.length / 2) then .error .other
  else k (key.take (key.length / 2)) (key.drop (key.length / 2))

/-! ## OTFAD — software side -/

structure KeyBlob where
  start : Nat
  end_ : Nat
  key : Bytes
  ctr : Bytes
  flags : Nat
  /-- constructor test parameter `zero_fill`; `[]` = `None` (random) -/
  zeroFill : Bytes := [0, 0, 0, 0]
  /-- constructor test parameter `crc`; `[]` = `None` (the computed CRC is stored) -/
  crcFill : Bytes := []
  deriving Repr, DecidableEq

namespace KeyBlob

/-- last address of the region as the engine sees it: `(end_addr - 1) | 0x3FF` (meaningless for `end_addr = 0`) -/
def effEnd (kb : KeyBlob) : Nat := (kb.end_ - 1) ||| otfadStartAddrMask

/-- `contains_addr`: `start_addr <= addr <= ((end_addr - 1) | _START_ADDR_MASK)`; for `end_addr = 0` Python compares with -1 -/
def containsAddr (kb : KeyBlob) (a : Nat) : Bool := kb.end_ != 0 && kb.start ≤ a && a ≤ kb.effEnd

def matchesRange (kb : KeyBlob) (s e : Nat) : Bool := kb.containsAddr s && kb.containsAddr e

/-- `is_encrypted`: ADE and VLD both set -/
def isEncrypted (kb : KeyBlob) : Bool :=
  (kb.flags &&& (otfadFlagADE ||| otfadFlagVLD)) == (otfadFlagADE ||| otfadFlagVLD)

/-- `_get_ctr_nonce` (for an 8-byte counter): `ctr[0:4] ‖ ctr[4:8] ‖ ctr[0:4]^ctr[4:8] ‖ 00000000` -/
def ctrNonce (kb : KeyBlob) : Bytes :=
  kb.ctr.take 4 ++ kb.ctr.drop 4 ++ xorBytes (kb.ctr.take 4) (kb.ctr.drop 4) ++ zeros 4

/-- one 16-byte block at counter value `cv` (= the block's address in `Otfad.encrypt_image`) -/
def encBlock (c : CryptoOps) (kb : KeyBlob) (swap : Bool) (cv : Nat) (blk : Bytes) : Bytes :=
  let d := if swap then swap8 blk else blk
  let e := ctrXor c kb.key (counterValue kb.ctrNonce cv) d
  if swap then swap8 e else e

/-- the `for index in range(0, data_len, 16)` loop: `n` blocks, counter value `cv`, then `cv + 16`, … -/
def encBlocks (c : CryptoOps) (kb : KeyBlob) (swap : Bool) : Nat → Nat → Bytes → Bytes
  | 0, _, _ => []
  | n + 1, cv, d => kb.encBlock c swap cv (d.take 16) ++ encBlocks c kb swap n (cv + otfadCtrIncrement) (d.drop 16)

/-- `KeyBlob.encrypt_image(base_address, data, byte_swap, counter_value)`; `counterValue = none` ⇒ Python `None` -/
def encryptImage (c : CryptoOps) (kb : KeyBlob) (base : Nat) (data : Bytes) (swap : Bool) (counterVal : Option Nat) :
    PyRes Bytes :=
  if base % 16 ≠ 0 then .error .spsdk
  else
    let d := zeroPad otfadEncBlockSize data
    -- `if not counter_value: counter_value = self.start_addr` (None and 0 both)
    let cv := match counterVal with
      | some v => if v = 0 then kb.start else v
      | none => kb.start
    if kb.ctr.length ≠ 8 then .error .spsdk           -- `_get_ctr_nonce`
    else if d.length ≠ 0 ∧ !validAesKeyLen kb.key then .error .other   -- `algorithms.AES(key)` ValueError
    else .ok (kb.encBlocks c swap (d.length / 16) cv d)

/-- `end_addr_with_flags` of `plain_data`; `pack("<I", negative)` is a `struct.error` -/
def endAddrWithFlags (kb : KeyBlob) : PyRes Nat :=
  if kb.end_ = 0 ∧ kb.flags = 0 then .ok 0
  else if kb.end_ = 0 then .error .other
  else .ok ((((kb.end_ - 1) / (otfadKeyFlagMask + 1) * (otfadKeyFlagMask + 1)) ||| kb.flags) ||| otfadEndAddrMask)

end KeyBlob

/-- CRC-32/MPEG-2 as configured in `CRC_ALGORITHMS` (crcmod: register init = initCrc xor xorOut) -/
def crcMpegParams : Crc.Params :=
  ⟨32, crcMpegPolyFull % 2 ^ 32, crcMpegInitCrc ^^^ crcMpegXorOut, crcMpegXorOut, crcMpegReverse, crcMpegReverse⟩
def crc32Mpeg (d : Bytes) : Nat := Crc.crc crcMpegParams d

/-- `KeyBlob.plain_data()`; `rnd` = the 4 bytes `random_bytes(4)` returns when `zero_fill` is not given -/
def KeyBlob.plainData (kb : KeyBlob) (rnd : Bytes) : PyRes Bytes :=
  match kb.endAddrWithFlags with
  | .error e => .error e
  | .ok ew =>
    if kb.start ≥ 2 ^ 32 ∨ ew ≥ 2 ^ 32 then .error .other
    else
      let head := kb.key ++ kb.ctr ++ leEnc 4 kb.start ++ leEnc 4 ew
      let crc := leEnc 4 (crc32Mpeg head)
      if ¬ kb.zeroFill.isEmpty ∧ kb.zeroFill.length ≠ 4 then .error .spsdk
      else if ¬ kb.crcFill.isEmpty ∧ kb.crcFill.length ≠ 4 then .error .spsdk
      else
        let r := head ++ (if kb.zeroFill.isEmpty then rnd else kb.zeroFill)
                      ++ (if kb.crcFill.isEmpty then crc else kb.crcFill) ++ zeros 8 ++ zeros 16
        if r.length ≠ 64 then .error .spsdk else .ok r

/-- `KeyBlob.export(kek, byte_swap_cnt=n)` -/
def KeyBlob.export (c : CryptoOps) (kb : KeyBlob) (kek : Bytes) (swapCnt : Nat) (rnd : Bytes) : PyRes Bytes :=
  if kek.length ≠ 16 then .error .spsdk
  else match kb.plainData rnd with
    | .error e => .error e
    | .ok p => .ok (zeroPad otfadExportBlobSize (revGroups swapCnt (kwWrap c kek (p.take otfadWrappedLen))))

/-- the loop of `Otfad.encrypt_key_blobs`; `scr = none` ⇒ scrambling disabled -/
def otfadExportAux (c : CryptoOps) (kek : Bytes) (scr : Option (Nat × Nat)) (reversed : Bool) (swapCnt : Nat) (rnd : Bytes) :
    List KeyBlob → Nat → Bytes → PyRes Bytes
  | [], _, acc => .ok acc
  | kb :: rest, i, acc =>
    match scr with
    | some (mask, align) =>
      -- `scrambled[(long_ix * 4) + j] ^= …` beyond the end of a short KEK: IndexError
      if kek.length < scrambleIx align i * otfadScrambleWord + 4 then .error .other
      else match kb.export c (scrambleKek kek mask align reversed i) swapCnt rnd with
        | .error e => .error e
        | .ok e => otfadExportAux c kek scr reversed swapCnt rnd rest (i + 1) (acc ++ e)
    | none => match kb.export c kek swapCnt rnd with
      | .error e => .error e
      | .ok e => otfadExportAux c kek scr reversed swapCnt rnd rest (i + 1) (acc ++ e)

/-- `Otfad.encrypt_key_blobs(kek, mask, align, byte_swap_cnt)` -/
def Otfad.encryptKeyBlobs (c : CryptoOps) (bs : List KeyBlob) (kek : Bytes) (scr : Option (Nat × Nat)) (reversed : Bool)
    (swapCnt : Nat) (rnd : Bytes) : PyRes Bytes :=
  let bad : Bool := match scr with
    | some (mask, align) => decide (mask ≥ 2 ^ 32) || decide (align ≥ 2 ^ 8)
    | none => false
  if bad then .error .spsdk
  else match otfadExportAux c kek scr reversed swapCnt rnd bs 0 [] with
    | .error e => .error e
    | .ok t => .ok (zeroPad otfadTableAlign t)

/-- `for key_blob in self._key_blobs:` for one block at `addr` — every matching blob overwrites the slice -/
def otfadBlobsStep (c : CryptoOps) (swap : Bool) (base addr : Nat) (block : Bytes) : List KeyBlob → Bytes → PyRes Bytes
  | [], data => .ok data
  | kb :: rest, data =>
    if kb.matchesRange addr (addr + block.length - 1) && kb.isEncrypted then
      match kb.encryptImage c addr block swap (some addr) with
      | .error e => .error e
      | .ok x => otfadBlobsStep c swap base addr block rest (sliceAssign data (addr - base) (block.length + addr - base) x)
    else otfadBlobsStep c swap base addr block rest data

/-- `for block in split_data(rest, OTFAD_DATA_UNIT)` (fuel = remaining length) -/
def otfadLoop (c : CryptoOps) (bs : List KeyBlob) (swap : Bool) (base : Nat) : Nat → Nat → Bytes → Bytes → PyRes Bytes
  | 0, _, _, data => .ok data
  | f + 1, addr, rest, data =>
    if rest.isEmpty then .ok data
    else
      let block := rest.take otfadDataUnit
      match otfadBlobsStep c swap base addr block bs data with
      | .error e => .error e
      | .ok data' => otfadLoop c bs swap base f (addr + block.length) (rest.drop otfadDataUnit) data'

/-- `Otfad.encrypt_image(image, base_addr, byte_swap)` (fixed: first piece up to the next absolute 1 KiB boundary) -/
def Otfad.encryptImage (c : CryptoOps) (bs : List KeyBlob) (image : Bytes) (base : Nat) (swap : Bool) : PyRes Bytes :=
  let fl := firstLen otfadDataUnit base image.length
  let r1 : PyRes Bytes := if fl = 0 then .ok image else otfadBlobsStep c swap base base (image.take fl) bs image
  match r1 with
  | .error e => .error e
  | .ok data => otfadLoop c bs swap base image.length (base + fl) (image.drop fl) data

/-- the context registers a key blob is meant to produce -/
def KeyBlob.ctx (kb : KeyBlob) : OtfadCtx :=
  ⟨kb.key, kb.ctr, kb.start, match kb.endAddrWithFlags with | .ok v => v | .error _ => 0⟩

/-! ## IEE — software side -/

inductive IeeMode where
  | bypass | xts | ctrAddr | ctrNoAddr | ctrKeystream
  deriving Repr, DecidableEq

inductive IeeKeySize where
  | k128 | k256      -- CTR128XTS256 | CTR256XTS512
  deriving Repr, DecidableEq

def IeeMode.tag : IeeMode → Nat
  | .bypass => ieeModeBypass | .xts => ieeModeXts | .ctrAddr => ieeModeCtrAddr
  | .ctrNoAddr => ieeModeCtrNoAddr | .ctrKeystream => ieeModeCtrKeystream
def IeeKeySize.tag : IeeKeySize → Nat
  | .k128 => ieeKey128 | .k256 => ieeKey256
def IeeMode.isCtr : IeeMode → Bool
  | .ctrAddr | .ctrNoAddr | .ctrKeystream => true
  | _ => false

structure IeeBlob where
  lock : Bool
  keySize : IeeKeySize
  mode : IeeMode
  start : Nat
  end_ : Nat
  key1 : Bytes
  key2 : Bytes
  pageOffset : Nat := 0
  deriving Repr, DecidableEq

namespace IeeBlob

def key1Size (b : IeeBlob) : Nat := match b.keySize with | .k128 => 16 | .k256 => 32
def key2Size (b : IeeBlob) : Nat := match b.keySize with | .k128 => 16 | .k256 => if b.mode.isCtr then 16 else 32

def containsAddr (b : IeeBlob) (a : Nat) : Bool := b.start ≤ a && a ≤ b.end_
def matchesRange (b : IeeBlob) (s e : Nat) : Bool := b.containsAddr s && b.containsAddr e

/-- `calculate_tweak(address)`: the sector number `address >> 12`, 16 bytes little endian -/
def tweak (a : Nat) : Bytes := leEnc 16 (a >>> ieeTweakShift)

def attrBytes (b : IeeBlob) : Bytes :=
  [UInt8.ofNat (if b.lock then ieeLock else ieeUnlock), UInt8.ofNat b.keySize.tag, UInt8.ofNat b.mode.tag, 0]

/-- `plain_data()`; the struct packs raise `struct.error` on values that do not fit 32 bits -/
def plainData (b : IeeBlob) : PyRes Bytes :=
  if b.pageOffset ≥ 2 ^ 32 ∨ b.start ≥ 2 ^ 32 ∨ b.end_ ≥ 2 ^ 32 then .error .other
  else
    let r := leEnc 4 ieeHeaderTag ++ leEnc 4 ieeKeyblobVersion ++ b.attrBytes ++ leEnc 4 b.pageOffset
      ++ zeroPad ieeKeyFieldSize b.key1 ++ zeroPad ieeKeyFieldSize b.key2 ++ leEnc 4 b.start ++ leEnc 4 b.end_ ++ leEnc 4 0
    .ok (r ++ leEnc 4 (crc32Mpeg r))

/-- `for block in split_data(data, 0x1000)` of `encrypt_image_xts` (fuel = remaining length) -/
def xtsChunks (c : CryptoOps) (k1 k2 : Bytes) : Nat → Nat → Bytes → Bytes
  | 0, _, _ => []
  | f + 1, a, d =>
    if d.isEmpty then []
    else xtsEnc c k1 k2 (tweak a) (d.take ieeXtsBlockSize)
      ++ xtsChunks c k1 k2 f (a + (d.take ieeXtsBlockSize).length) (d.drop ieeXtsBlockSize)

/-- `encrypt_image_xts(base, data)` for data that is a multiple of 16 bytes.  `cryptography` takes the XTS key
    `key1 + key2` (32 or 64 bytes), splits it in halves and refuses equal halves. -/
def encryptImageXts (c : CryptoOps) (b : IeeBlob) (base : Nat) (data : Bytes) : PyRes Bytes :=
  match reverseBytesInLongs b.key1, reverseBytesInLongs b.key2 with
  | .ok k1, .ok k2 =>
    if data.isEmpty then .ok []
    else xtsKeyCheck (k1 ++ k2) (fun ka kb => .ok (xtsChunks c ka kb data.length base data))
  | .error e, _ => .error e
  | _, .error e => .error e

/-- the `for block in split_data(data, 16)` loop of `encrypt_image_ctr`: counter word + 1 per block -/
def ctrBlocks (c : CryptoOps) (key nonce : Bytes) : Nat → Nat → Bytes → Bytes
  | 0, _, _ => []
  | f + 1, cv, d =>
    if d.isEmpty then []
    else ctrXor c key (counterValue nonce cv) (d.take ieeEncBlockSize)
      ++ ctrBlocks c key nonce f (cv + (ieeEncBlockSize >>> 4)) (d.drop ieeEncBlockSize)

def encryptImageCtr (c : CryptoOps) (b : IeeBlob) (base : Nat) (data : Bytes) : PyRes Bytes :=
  match reverseBytesInLongs b.key1, reverseBytesInLongs b.key2 with
  | .ok key, .ok nonce =>
    if nonce.length ≠ 16 then .error .spsdk        -- Counter: "nonce must be 16 bytes long"
    else if data.isEmpty then .ok []
    else if !validAesKeyLen key then .error .other
    else .ok (ctrBlocks c key nonce data.length (base >>> ieeCtrAddrShift) data)
  | .error e, _ => .error e
  | _, .error e => .error e

/-- `IeeKeyBlob.encrypt_image(base, data)` (fixed: a Bypass blob returns the data unchanged) -/
def encryptImage (c : CryptoOps) (b : IeeBlob) (base : Nat) (data : Bytes) : PyRes Bytes :=
  if base % 16 ≠ 0 then .error .spsdk
  else if b.mode = .bypass then .ok data
  else
    let d := zeroPad ieeEncBlockSize data
    if b.mode.isCtr then b.encryptImageCtr c base d else b.encryptImageXts c base d

end IeeBlob

def ieeBlobsStep (c : CryptoOps) (base addr : Nat) (block : Bytes) : List IeeBlob → Bytes → PyRes Bytes
  | [], data => .ok data
  | b :: rest, data =>
    if b.matchesRange addr (addr + block.length) then
      match b.encryptImage c addr block with
      | .error e => .error e
      | .ok x => ieeBlobsStep c base addr block rest (sliceAssign data (addr - base) (block.length + addr - base) x)
    else ieeBlobsStep c base addr block rest data

def ieeLoop (c : CryptoOps) (bs : List IeeBlob) (base : Nat) : Nat → Nat → Bytes → Bytes → PyRes Bytes
  | 0, _, _, data => .ok data
  | f + 1, addr, rest, data =>
    if rest.isEmpty then .ok data
    else
      let block := rest.take ieeDataUnit
      match ieeBlobsStep c base addr block bs data with
      | .error e => .error e
      | .ok data' => ieeLoop c bs base f (addr + block.length) (rest.drop ieeDataUnit) data'

/-- `Iee.encrypt_image(image, base_addr)` -/
def Iee.encryptImage (c : CryptoOps) (bs : List IeeBlob) (image : Bytes) (base : Nat) : PyRes Bytes :=
  ieeLoop c bs base image.length base image image

def ieePlainAux : List IeeBlob → Bytes → PyRes Bytes
  | [], acc => .ok acc
  | b :: rest, acc => match b.plainData with
    | .error e => .error e
    | .ok p => ieePlainAux rest (acc ++ p)

/-- `Iee.get_key_blobs()` -/
def Iee.getKeyBlobs (bs : List IeeBlob) : PyRes Bytes := (ieePlainAux bs []).map (zeroPad ieeKeyBlobsSize)

/-- `Iee.encrypt_key_blobs(ibkek1, ibkek2, keyblob_address)` for 32-byte KEKs -/
def Iee.encryptKeyBlobs (c : CryptoOps) (bs : List IeeBlob) (ibkek1 ibkek2 : Bytes) (kbAddr : Nat) : PyRes Bytes :=
  match Iee.getKeyBlobs bs with
  | .error e => .error e
  | .ok plain =>
    match reverseBytesInLongs ibkek1, reverseBytesInLongs ibkek2 with
    | .ok k1, .ok k2 =>
      xtsKeyCheck (k1 ++ k2) (fun ka kb =>
        if plain.length < 16 ∨ plain.length % 16 ≠ 0 then .error .other   -- (ciphertext stealing is not modelled)
        else .ok (xtsEnc c ka kb (IeeBlob.tweak kbAddr) plain))
    | .error e, _ => .error e
    | _, .error e => .error e

/-- the context a key blob is meant to produce -/
def IeeBlob.ctx (b : IeeBlob) : IeeCtx :=
  ⟨b.keySize.tag, b.mode.tag, b.pageOffset, zeroPad 32 b.key1, zeroPad 32 b.key2, b.start, b.end_⟩

/-- `IeeNxp.export_image` / `OtfadNxp.export_image` on the flattened image tree: every (absolute address, data) blob or
    SEGMENT is encrypted on its own, at ITS absolute address (tied to the code by the harness: the exported memory image
    equals `encrypt_image(segment, address)` segment by segment) -/
def Iee.exportSegments (c : CryptoOps) (bs : List IeeBlob) : List (Nat × Bytes) → PyRes (List (Nat × Bytes))
  | [] => .ok []
  | (a, d) :: rest =>
    match Iee.encryptImage c bs d a with
    | .error e => .error e
    | .ok x => match Iee.exportSegments c bs rest with
      | .error e => .error e
      | .ok xs => .ok ((a, x) :: xs)

/-! ## BEE — software side -/

namespace BeeEngine

/-- `BeeProtectRegionBlock.update()`: the envelope `[min start, max end)` of the FAC regions (`[0, 0)` without FAC) -/
def envStart (e : BeeEngine) : Nat := e.facs.foldl (fun m f => min m f.start) (if e.facs.isEmpty then 0 else 0xFFFFFFFF)
def envEnd (e : BeeEngine) : Nat := e.facs.foldl (fun m f => max m f.end_) 0
def isInsideRegion (e : BeeEngine) (a : Nat) : Bool := e.envStart ≤ a && a < e.envEnd

def facLoop (c : CryptoOps) (e : BeeEngine) (a : Nat) (data : Bytes) : List Fac → PyRes Bytes
  | [] => .ok data
  | f :: rest =>
    if f.start ≤ a && a < f.end_ then
      if a + data.length > f.end_ then .error .spsdk
      else if e.counter.length ≠ 16 then .error .spsdk     -- Counter: "nonce must be 16 bytes long"
      else .ok (ctrXor c e.key (counterValue e.counter (a >>> beeCtrAddrShift)) (zeroPad 16 data))
    else facLoop c e a data rest

/-- `BeeProtectRegionBlock.encrypt_block(key, start_addr, data)` (AES-CTR mode; the random padding of a short last
    block is modelled as zeros — the harness compares the unpadded part) -/
def encryptBlock (c : CryptoOps) (e : BeeEngine) (a : Nat) (data : Bytes) : PyRes Bytes :=
  if data.length > beeEncrBlockSize then .error .spsdk
  else if e.isInsideRegion a then
    if e.key.length ≠ 16 then .error .spsdk
    else facLoop c e a data e.facs
  else .ok data

end BeeEngine

/-- `for header in self.headers: if header: block = header.encrypt_block(base_address, block)` -/
def beeHeadersStep (c : CryptoOps) (a : Nat) : List (Option BeeEngine) → Bytes → PyRes Bytes
  | [], block => .ok block
  | none :: rest, block => beeHeadersStep c a rest block
  | some e :: rest, block => match e.encryptBlock c a block with
    | .error err => .error err
    | .ok b => beeHeadersStep c a rest b

def beeLoop (c : CryptoOps) (hs : List (Option BeeEngine)) : Nat → Nat → Bytes → Bytes → PyRes Bytes
  | 0, _, _, acc => .ok acc
  | f + 1, a, rest, acc =>
    if rest.isEmpty then .ok acc
    else match beeHeadersStep c a hs (rest.take beeEncrBlockSize) with
      | .error e => .error e
      | .ok b => beeLoop c hs f (a + b.length) (rest.drop beeEncrBlockSize) (acc ++ b)

/-- `BeeNxp.export_image()` (fixed: first piece up to the next absolute 1 KiB boundary) -/
def Bee.exportImage (c : CryptoOps) (hs : List (Option BeeEngine)) (image : Bytes) (base : Nat) : PyRes Bytes :=
  let fl := firstLen beeEncrBlockSize base image.length
  let r1 : PyRes Bytes := if fl = 0 then .ok [] else beeHeadersStep c base hs (image.take fl)
  match r1 with
  | .error e => .error e
  | .ok b => beeLoop c hs image.length (base + b.length) (image.drop fl) b

/-! ## OTFAD through SB2.1 (`spsdk/sbfile/sb2/sb_21_helper.py`: BD commands `encrypt (id) { load … > addr; }` and
    `keywrap (id) { load {{ kek }} > addr; }`) and the `KeyBlob` constructor -/

/-- the checks of `KeyBlob.__init__` (key 16 bytes, counter 8 bytes, `0 <= start <= end <= 0xFFFFFFFF`, flags within
    the mask, start aligned to 1 KiB) -/
def KeyBlob.ctorOk (kb : KeyBlob) : Bool :=
  !(kb.key.length != otfadKeySize || kb.ctr.length != otfadCtrSize)
  && decide (kb.start ≤ kb.end_) && decide (kb.end_ ≤ 0xFFFFFFFF)
  && kb.flags / (otfadKeyFlagMask + 1) == 0            -- `key_flags & ~_KEY_FLAG_MASK == 0`
  && kb.start % (otfadStartAddrMask + 1) == 0          -- `start_addr & _START_ADDR_MASK == 0`

/-- a key blob as the SB2.1 helper builds it (no test parameters) -/
def Sb21.blob (start end_ : Nat) (key ctr : Bytes) (flags : Nat) : KeyBlob :=
  { start := start, end_ := end_, key := key, ctr := ctr, flags := flags, zeroFill := [], crcFill := [] }

/-- `SB21Helper._encrypt`: key blob with the default flags; ADE / VLD are read from the low bits of the `end` value; the
    data are zero padded to 512 bytes and encrypted with the counter bound to the LOAD ADDRESS -/
def Sb21.encrypt (c : CryptoOps) (start end_ : Nat) (key ctr : Bytes) (swap : Bool) (address : Nat) (data : Bytes) : PyRes Bytes :=
  let kb := Sb21.blob start end_ key ctr (otfadFlagVLD ||| otfadFlagADE)
  if !kb.ctorOk then .error .spsdk
  else if end_ &&& otfadFlagADE ≠ 0 ∧ end_ &&& otfadFlagVLD ≠ 0 then
    kb.encryptImage c address (zeroPad sb21EncryptAlign data) swap (some address)
  else .ok data

/-- `SB21Helper._keywrap`: `KeyBlob(start, end, key, counter, key_flags = end & 7).export(kek)`; `rnd` = the random `zero_fill` -/
def Sb21.keywrap (c : CryptoOps) (start end_ : Nat) (key ctr kek rnd : Bytes) : PyRes Bytes :=
  let kb := Sb21.blob start end_ key ctr (end_ &&& otfadKeyFlagMask)
  if !kb.ctorOk then .error .spsdk else kb.export c kek 0 rnd

/-! ## BEE region header (`BeeRegionHeader.export`): EKIB = AES-ECB(sw_key, kib_key ‖ kib_iv) at offset 0,
    EPRDB = AES-CBC(kib_key, kib_iv, PRDB) at offset 0x80, 0x200 bytes in total -/

structure BeeHdr where
  engine : BeeEngine          -- sw key, counter, FAC regions
  levels : List Nat           -- protected level of every FAC region (missing = 0)
  lockOptions : Nat
  kibKey : Bytes
  kibIv : Bytes
  deriving Repr, DecidableEq

namespace BeeHdr

/-- `BeeFacRegion.validate()` as coded — note the `and`: only a region whose start AND length are both unaligned is refused -/
def facOk (f : Fac) (level : Nat) : Bool :=
  !(f.start % beeEncrBlockSize != 0 && f.length % beeEncrBlockSize != 0)
  && decide (level ≤ 3) && decide (f.end_ ≤ 0xFFFFFFFF) && decide (f.start < f.end_)

def facBytes (f : Fac) (level : Nat) : Bytes :=
  leEnc 4 f.start ++ leEnc 4 f.end_ ++ leEnc 4 level ++ zeros 20

def facsBytes : List Fac → List Nat → Bytes
  | [], _ => []
  | f :: fs, ls => facBytes f (ls.headD 0) ++ facsBytes fs ls.tail

def facsOk : List Fac → List Nat → Bool
  | [], _ => true
  | f :: fs, ls => facOk f (ls.headD 0) && facsOk fs ls.tail

/-- the plain 256-byte PRDB -/
def prdbPlain (h : BeeHdr) : Bytes :=
  let e := h.engine
  let r := leEnc 4 beeTagL ++ leEnc 4 beeTagH ++ leEnc 4 beeVersion ++ leEnc 4 e.facs.length
    ++ leEnc 4 e.envStart ++ leEnc 4 e.envEnd ++ leEnc 4 beeModeCtr ++ leEnc 4 h.lockOptions ++ e.counter.reverse ++ zeros 32
    ++ facsBytes e.facs h.levels
  zeroPadTo beePrdbSize r

end BeeHdr

/-- `BeeRegionHeader.export()` (AES/CTR mode PRDB) -/
def BeeHdr.export (c : CryptoOps) (h : BeeHdr) : PyRes Bytes :=
  let e := h.engine
  if h.kibKey.length ≠ 16 ∨ h.kibIv.length ≠ 16 then .error .spsdk                     -- BeeKIB.validate
  else if e.counter.length ≠ 16 then .error .spsdk
  else if e.counter.drop 12 ≠ [0, 0, 0, 0] then .error .spsdk
  else if e.facs.length = 0 ∨ e.facs.length > beeFacRegions then .error .spsdk
  else if !BeeHdr.facsOk e.facs h.levels then .error .spsdk
  else if e.key.length ≠ 16 then .error .spsdk
  else if h.lockOptions ≥ 2 ^ 32 then .error .other                                    -- struct.error
  else
    .ok (zeroPadTo beeHdrSize (zeroPadTo beeHdrPrdbOffset (ecbEnc c e.key (h.kibKey ++ h.kibIv))
      ++ cbcEnc c h.kibKey h.kibIv h.prdbPlain))

end SpsdkVerif.FlashEnc
