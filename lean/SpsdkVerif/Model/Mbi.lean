/-
Hand-written executable model of the Master Boot Image builder / parser
(`spsdk/image/mbi/mbi.py`, `mbi_mixin.py`, `mbi_classes.py`): an INTERPRETER OF MIXIN LISTS.

A class is (image type, ordered list of mixin names, TrustZone preset size of the family).  Which mixin provides
which pipeline method (Python's MRO), which attributes `hasattr` finds, PRE_PARSED and the legacy-length flag are
*generated* from the class bodies (Generated/MbiClasses.lean); IVT offsets, masks, flag getters, `create_flags` and
all layout constants are *generated* too (Generated/IvtConsts.lean).  Hand-written here: what each mixin's
`mix_len`/`mix_app_len`/`mix_parse`/`mix_validate` and each export mixin's `collect_data`/`encrypt`/`post_encrypt`/
`sign`/`finalize`/`disassemble_image` do with bytes, in the pipeline order of mbi.py (export 357-393, parse 396-468).

Opaque parts (parameters, see `Env` and the harness assumptions): certificate blocks are byte blocks with a declared
length and signature size (X.509 / key handling is `cryptography`'s); signatures are whatever the `signer` returns;
TrustZone / BCA / FCF blocks are fixed-length byte blocks (their register codecs are property C12).
Tied to /repo by the C01 correspondence run over every row of the class table (harness/props/C01.py).
-/
import SpsdkVerif.Base.Py
import SpsdkVerif.Model.Misc
import SpsdkVerif.Crypto.Iface
import SpsdkVerif.Crypto.Modes
import SpsdkVerif.Crypto.Crc
import SpsdkVerif.Generated.IvtConsts
import SpsdkVerif.Generated.MbiClasses

namespace SpsdkVerif.Mbi
open SpsdkVerif SpsdkVerif.Misc SpsdkVerif.Crypto
open SpsdkVerif.Generated.IvtConsts
open SpsdkVerif.Generated.MbiClasses (MixinName Method Attr provider attrs preParsed isData parent countInLegacyCertBlockLen)

abbrev Bytes := SpsdkVerif.Misc.Bytes

/-! ## byte helpers -/

def le32 (v : Nat) : Bytes := leEnc 4 v
/-- `int.from_bytes(data[off:off+4], "little")` (short data: fewer bytes, as Python) -/
def rd32 (b : Bytes) (off : Nat) : Nat := leDec ((b.drop off).take 4)
/-- `data[i:j]` for `0 ≤ i`, `0 ≤ j` -/
def slice (b : Bytes) (i j : Nat) : Bytes := (b.take j).drop i
/-- bytearray slice assignment `data[off:off+len(w)] = w` (beyond the end it appends, as Python) -/
def setAt (b : Bytes) (off : Nat) (w : Bytes) : Bytes := b.take off ++ w ++ b.drop (off + w.length)
/-- `align_block(data, 4)` with zero padding -/
def align4 (b : Bytes) : Bytes := b ++ zeros ((4 - b.length % 4) % 4)
/-- `data[-n:]` for `n > 0` -/
def lastN (b : Bytes) (n : Nat) : Bytes := b.drop (b.length - n)
/-- `data[:-n]` for `n > 0` -/
def dropLast (b : Bytes) (n : Nat) : Bytes := b.take (b.length - n)

/-! ## classes -/

structure Cls where
  imageType : Nat
  mixins : List MixinName
  /-- `TrustZone.get_preset_data_size(family, revision)` -/
  tzSize : Nat
  deriving Repr, DecidableEq

/-- `m` is `base` or derives from it (ancestry depth of mbi_mixin.py is ≤ 3) -/
def derivesFrom (m base : MixinName) : Bool :=
  m == base || (match parent m with
    | none => false
    | some p => p == base || (match parent p with
      | none => false
      | some q => q == base || (match parent q with | none => false | some r => r == base)))

def Cls.has (c : Cls) (base : MixinName) : Bool := c.mixins.any (derivesFrom · base)
/-- `_get_mixins()`: the bases derived from `Mbi_Mixin` -/
def Cls.dataMixins (c : Cls) : List MixinName := c.mixins.filter isData
/-- class-level `hasattr(self, a)` -/
def Cls.hasAttr (c : Cls) (a : Attr) : Bool := c.mixins.any (fun m => (attrs m).contains a)
/-- `trust_zone` is in NEEDED_MEMBERS of the TrustZone mixins only; the manifest mixins (derived from TrustZoneMandatory
    with their own NEEDED_MEMBERS) get it as an instance attribute in `mix_load_from_config` / `mix_parse` / by keyword. -/
def Cls.hasTrustZone (c : Cls) : Bool := c.hasAttr .trust_zone || c.has .Mbi_MixinTrustZone
/-- Python's MRO for a method of the export pipeline / IVT: the first mixin of the list whose ancestry (below the root
    base) defines it; `none` = the root base's default -/
def Cls.resolve (c : Cls) (meth : Method) : Option MixinName := c.mixins.findSome? (provider · meth)

/-! ## configuration (what the builder is given) -/

inductive TzCfg where
  | disabled | enabled
  | custom (data : Bytes)
  deriving Repr, DecidableEq

def TzCfg.tag : TzCfg → Nat
  | .enabled => tzEnabled | .custom _ => tzCustom | .disabled => tzDisabled
/-- `TrustZone.export()` -/
def TzCfg.bytes : TzCfg → Bytes
  | .custom d => d | _ => []

structure RelocEntry where
  image : Bytes
  dst : Nat
  deriving Repr, DecidableEq

structure Cfg where
  app : Bytes
  loadAddress : Nat := 0
  imageVersion : Nat := 0
  subType : Nat := 0
  tz : TzCfg := .enabled
  hwKey : Bool := false
  /-- `some b`: `KeyStore(KEYSTORE, b)`; `none`: no key store object or key source OTP -/
  keyStore : Option Bytes := none
  hmacKey : Option Bytes := none
  ctrIv : Bytes := []
  reloc : Option (List RelocEntry) := none
  /-- `cert_block.export()` as handed to the builder (opaque) -/
  cert : Bytes := []
  /-- `cert_block.signature_size` (= `signature_provider.signature_length`) -/
  sigLen : Nat := 0
  fwVersion : Nat := 0
  /-- manifest digest algorithm (`Mbi_MixinManifestDigest`) -/
  digest : Option HashAlg := none
  bca : Option Bytes := none
  fcf : Option Bytes := none
  deriving Repr, DecidableEq

/-- the signature provider: opaque function of the data to sign -/
abbrev Signer := Bytes → Bytes

/-! ## relocation table (mbi_classes.py 280-456) -/

def relocImages (es : List RelocEntry) : Bytes := (es.map (fun e => align4 e.image)).flatten

/-- entry records with running source addresses -/
def relocRecords : List RelocEntry → Nat → Bytes
  | [], _ => []
  | e :: es, src => le32 src ++ le32 e.dst ++ le32 e.image.length ++ le32 ltiLoad ++ relocRecords es (src + (align4 e.image).length)

/-- `MultipleImageTable.export(start_addr)` (all entries are LTI_LOAD: the constructor refuses anything else) -/
def relocExport (es : List RelocEntry) (start : Nat) : Bytes :=
  relocImages es ++ relocRecords es start
    ++ le32 relocMarkerExport ++ le32 relocHeaderVersion ++ le32 es.length ++ le32 (start + (relocImages es).length)

/-- `MultipleImageEntry.parse(data, offset)` -/
def relocEntryParse (data : Bytes) (off : Nat) : PyRes (RelocEntry × Nat) :=
  if off + 16 > data.length then .error .spsdk else
  let src := rd32 data off
  let dst := rd32 data (off + 4)
  let size := rd32 data (off + 8)
  let flags := rd32 data (off + 12)
  if src + size > data.length then .error .spsdk
  else if flags ≠ ltiLoad then .error .spsdk     -- constructor: only LTI_LOAD
  else .ok (⟨slice data src (src + size), dst⟩, src)

def relocEntriesParse (data : Bytes) : Nat → Nat → PyRes (List (RelocEntry × Nat))
  | 0, _ => .ok []
  | n + 1, off => do
    let e ← relocEntryParse data off
    let rest ← relocEntriesParse data n (off + 16)
    pure (e :: rest)

/-- `MultipleImageTable.parse(data)`: `none` = no table; else entries and `start_address` -/
def relocParse (data : Bytes) : PyRes (Option (List RelocEntry × Nat)) :=
  if data.length < 16 then .error .other else    -- struct.error
  let h := data.length - 16
  if rd32 data h ≠ relocMarkerParse ∨ rd32 data (h + 4) ≠ relocHeaderVersion then .ok none else
  let n := rd32 data (h + 8)
  let tbl := rd32 data (h + 12)
  match relocEntriesParse data n tbl with
  | .error e => .error e
  | .ok es => .ok (some (es.map (·.1), match es with | [] => tbl | e :: _ => e.2))

/-! ## manifest (mbi_classes.py 26-272) -/

def digestCode : Option HashAlg → Nat
  | some .sha256 => 1 | some .sha384 => 2 | some .sha512 => 3 | _ => 0

/-- `MasterBootImageManifestDigest._calculate_flags` -/
def manifestFlags (d : Option HashAlg) : Nat :=
  match d with
  | none => 0
  | some _ => manifestDigestPresentFlag ||| digestCode d

/-- `get_hash_size` -/
def digestSize : Option HashAlg → Nat
  | some .sha256 => 32 | some .sha384 => 48 | some .sha512 => 64 | _ => 0

inductive ManifestKind where | crc | digest
  deriving Repr, DecidableEq

def Cls.manifestKind (c : Cls) : Option ManifestKind :=
  if c.has .Mbi_MixinManifestCrc then some .crc
  else if c.has .Mbi_MixinManifestDigest then some .digest else none

/-- `manifest.total_length` -/
def manifestLen (k : ManifestKind) (cfg : Cfg) : Nat :=
  manifestHeaderSize + cfg.tz.bytes.length + (match k with | .crc => 4 | .digest => 0)

/-- `manifest.export()` with the given CRC word (ManifestCrc) -/
def manifestBytes (k : ManifestKind) (cfg : Cfg) (crc : Nat) : Bytes :=
  manifestMagic ++ le32 manifestFormatVersion ++ le32 cfg.fwVersion ++ le32 (manifestLen k cfg)
    ++ le32 (match k with | .crc => 0 | .digest => manifestFlags cfg.digest)
    ++ cfg.tz.bytes ++ (match k with | .crc => le32 crc | .digest => [])

def crc32m (b : Bytes) : Nat := Crc.crc Crc.crc32Mpeg2 b

/-! ## certificate block v1: the header fields the builder touches (cert_blocks.py 207-296, 381-408) -/

/-- `image_length` lives at bytes 20..24 of the header (`<4s2H6I`: signature, major, minor, length, flags, build,
    image_length, cert_count, cert_table_length) -/
def certImageLengthOffset : Nat := 20
def certTableLengthOffset : Nat := 28
def certSetImageLength (cert : Bytes) (v : Nat) : Bytes := setAt cert certImageLengthOffset (le32 v)
/-- `CertBlockV1.expected_size` with `alignment = 4` from the header found in the image -/
def certV1Size (cert : Bytes) : Nat :=
  alignNat (certHeaderSize + rd32 cert certTableLengthOffset + rkhtEntries * rkhSize) 4

/-! ## lengths: `mix_len`, `mix_app_len`, `total_len`, `app_len` (mbi.py 299-331) -/

def appData (cfg : Cfg) : Bytes := align4 cfg.app   -- the `app` setter aligns

def relocLen (c : Cls) (cfg : Cfg) : Nat :=
  match cfg.reloc with
  | some es => (relocExport es 0).length
  | none => 0

/-- `mix_len` by the class that provides it (Int: the mc56 BCA mixin contributes a negative constant) -/
def mixLenOf (c : Cls) (cfg : Cfg) (definer : MixinName) : Int :=
  match definer with
  | .Mbi_MixinApp => (appData cfg).length
  | .Mbi_MixinTrustZone => cfg.tz.bytes.length
  | .Mbi_MixinRelocTable => relocLen c cfg
  | .Mbi_MixinManifest => (match c.manifestKind with | some k => manifestLen k cfg | none => 0)
  | .Mbi_MixinManifestDigest =>
      (match c.manifestKind with | some k => manifestLen k cfg | none => 0) + digestSize cfg.digest
  | .Mbi_MixinCertBlockV1 => cfg.cert.length
  | .Mbi_MixinCertBlockV21 => cfg.cert.length + cfg.sigLen
  | .Mbi_MixinBca => if cfg.bca.isSome then bcaSize else 0
  | .Mbi_MixinFcf => if cfg.fcf.isSome then fcfSize else 0
  | .Mbi_MixinKeyStore => (match cfg.keyStore with | some b => b.length | none => 0)
  | .Mbi_MixinHmac => if cfg.hmacKey.isSome then hmacSize else 0
  | .Mbi_MixinBcaObsolete => (vxImgDigestOffset : Int) + (vxImgFcfOffset - vxImgBcaOffset : Int) - vxImgDataStart
  | _ => 0

def mixLen (c : Cls) (cfg : Cfg) (m : MixinName) : Int :=
  match provider m .mix_len with
  | some d => mixLenOf c cfg d
  | none => 0

def mixAppLen (c : Cls) (cfg : Cfg) (m : MixinName) : Nat :=
  match provider m .mix_app_len with
  | some .Mbi_MixinApp => (appData cfg).length
  | some .Mbi_MixinRelocTable => relocLen c cfg
  | _ => 0

def totalLen (c : Cls) (cfg : Cfg) : Int := (c.dataMixins.map (mixLen c cfg)).sum
def totalLenForCertBlock (c : Cls) (cfg : Cfg) : Int :=
  ((c.dataMixins.filter countInLegacyCertBlockLen).map (mixLen c cfg)).sum
def appLen (c : Cls) (cfg : Cfg) : Nat := (c.dataMixins.map (mixAppLen c cfg)).sum

/-! ## IVT (mbi_mixin.py 492-840) -/

/-- `create_flags` (generated body) applied to the class and configuration -/
def flagsOf (c : Cls) (cfg : Cfg) : Nat :=
  createFlags c.imageType c.hasTrustZone cfg.tz.tag (c.hasAttr .image_subtype) cfg.subType
    (c.hasAttr .user_hw_key_enabled) cfg.hwKey (c.hasAttr .key_store) cfg.keyStore.isSome
    (match cfg.keyStore with | some b => b.length | none => 0)
    (c.hasAttr .app_table) cfg.reloc.isSome (c.hasAttr .image_version) cfg.imageVersion
    (c.hasAttr .image_version_to_image_type) true

def Cls.zeroTotalLength (c : Cls) : Bool := c.resolve .update_ivt == some .Mbi_MixinIvtZeroTotalLength

/-- `update_ivt(app_data, total_len, crc_val_cert_offset)` -/
def updateIvt (c : Cls) (cfg : Cfg) (app : Bytes) (total crcOff : Nat) : Bytes :=
  let d := setAt app ivtImageFlagsOffset (le32 (flagsOf c cfg))
  let d := setAt d ivtImageLengthOffset (le32 (if c.zeroTotalLength then 0 else total))
  let d := setAt d ivtCrcCertificateOffset (le32 (if c.imageType = 0 then 0 else crcOff))
  setAt d ivtLoadAddrOffset (le32 (if c.hasAttr .load_address then cfg.loadAddress else 0))

/-- `clean_ivt` -/
def cleanIvt (app : Bytes) : Bytes :=
  let d := setAt app ivtImageLengthOffset (zeros 4)
  let d := setAt d ivtImageFlagsOffset (zeros 4)
  let d := setAt d ivtCrcCertificateOffset (zeros 4)
  setAt d ivtLoadAddrOffset (zeros 4)

/-- `check_total_length` of the IVT mixin of the class -/
def checkTotalLength (c : Cls) (data : Bytes) : PyRes Unit :=
  let total := rd32 data ivtImageLengthOffset
  if c.resolve .check_total_length == some .Mbi_MixinIvtZeroTotalLength then
    if total ≠ 0 ∧ total > data.length then .error .spsdk else .ok ()
  else if data.length < minIvtSize then .error .spsdk
  else if total > data.length then .error .spsdk else .ok ()

def flagsIn (data : Bytes) : Nat := rd32 data ivtImageFlagsOffset
/-- `get_cert_block_offset(data)` (validates the length first) -/
def certOffsetChecked (c : Cls) (data : Bytes) : PyRes Nat := do
  checkTotalLength c data
  pure (rd32 data ivtCrcCertificateOffset)

/-! ## validation (`mix_validate` of every data mixin, mbi.py 530-533) -/

def validateMixin (c : Cls) (cfg : Cfg) (m : MixinName) : PyRes Unit :=
  match provider m .mix_validate with
  | some .Mbi_MixinApp =>
      let a := appData cfg
      if a.length < minAppSize then .error .spsdk
      else if rd32 a 0 = rd32 a 4 ∧ rd32 a 4 = rd32 a 8 then .error .spsdk else .ok ()
  | some .Mbi_MixinTrustZoneMandatory => if cfg.tz = .disabled then .error .spsdk else .ok ()
  | some .Mbi_MixinManifest => if cfg.tz = .disabled then .error .spsdk else .ok ()
  | some .Mbi_MixinRelocTable => (match cfg.reloc with | some [] => .error .spsdk | _ => .ok ())
  | some .Mbi_MixinKeyStore => if cfg.keyStore.isSome ∧ cfg.hmacKey.isNone then .error .spsdk else .ok ()
  | some .Mbi_MixinHmac | some .Mbi_MixinHmacMandatory =>
      (match cfg.hmacKey with
       | none => if provider m .mix_validate == some .Mbi_MixinHmacMandatory then .error .spsdk else .ok ()
       | some k => if k.length ≠ hmacKeyLength then .error .spsdk
                   else if (appData cfg).length < hmacOffset then .error .spsdk else .ok ())
  | some .Mbi_MixinCtrInitVector => if cfg.ctrIv.length ≠ ctrInitVectorSize then .error .spsdk else .ok ()
  | some .Mbi_MixinFcf => if cfg.fcf.isNone then .error .spsdk else .ok ()
  | _ => .ok ()

def validate (c : Cls) (cfg : Cfg) : PyRes Unit := c.dataMixins.forM (validateMixin c cfg)

/-- `struct.pack("<I", v)` needs `0 ≤ v < 2^32`: total length, flags, load address, offsets -/
def packGuard (c : Cls) (cfg : Cfg) : PyRes Unit :=
  if totalLen c cfg < 0 ∨ totalLen c cfg + cfg.sigLen + encIvtCopySize + encIvSize ≥ 2 ^ 32 ∨ flagsOf c cfg ≥ 2 ^ 32
      ∨ cfg.loadAddress ≥ 2 ^ 32 ∨ cfg.fwVersion ≥ 2 ^ 32 then .error .other else .ok ()

/-! ## export pipeline (mbi.py 357-393): collect_data → encrypt → post_encrypt → sign → finalize -/

/-- `Mbi_ExportMixinApp.collect_data` -/
def collectApp (c : Cls) (cfg : Cfg) : PyRes Bytes :=
  let app := appData cfg
  if app.isEmpty then .error .spsdk else
  let binary := if c.hasAttr .ivt_table then updateIvt c cfg app (totalLen c cfg).toNat 0 else app
  let bcaP := c.hasAttr .bca && cfg.bca.isSome
  let fcfP := c.hasAttr .fcf && cfg.fcf.isSome
  let body :=
    if bcaP || fcfP then
      let off := if bcaP then bcaOffset else fcfOffset
      let b := if bcaP then cfg.bca.getD [] else []
      let f := if fcfP then cfg.fcf.getD [] else []
      binary.take off ++ b ++ f ++ binary.drop (off + (if bcaP then bcaSize else 0) + (if fcfP then fcfSize else 0))
    else binary
  match (if c.hasAttr .app_table then cfg.reloc else none) with
  | some es => .ok (body ++ relocExport es body.length)
  | none => .ok body

/-- `Mbi_ExportMixinAppTrustZone.collect_data` -/
def collectAppTz (c : Cls) (cfg : Cfg) : PyRes Bytes := do
  let b ← collectApp c cfg
  pure (b ++ cfg.tz.bytes)

/-- `Mbi_ExportMixinAppTrustZoneCertBlock.collect_data` -/
def collectAppTzCert (c : Cls) (cfg : Cfg) : PyRes Bytes :=
  let app := appData cfg
  if app.isEmpty ∨ cfg.cert.isEmpty then .error .spsdk else
  if totalLenForCertBlock c cfg ≤ 0 then .error .spsdk else     -- image_length setter
  let cert := certSetImageLength cfg.cert (totalLenForCertBlock c cfg).toNat
  let a := updateIvt c cfg app ((totalLen c cfg).toNat + cfg.sigLen) (appLen c cfg)
  let r := match (if c.hasAttr .app_table then cfg.reloc else none) with
    | some es => relocExport es a.length
    | none => []
  .ok (a ++ r ++ cert ++ cfg.tz.bytes)

/-- `Mbi_ExportMixinAppCertBlockManifest.collect_data` -/
def collectAppCertManifest (c : Cls) (cfg : Cfg) : PyRes Bytes :=
  let app := appData cfg
  match c.manifestKind with
  | none => .error .other
  | some k =>
    if app.isEmpty then .error .spsdk else
    let a := updateIvt c cfg app (totalLen c cfg).toNat (appLen c cfg)
    let pre := a ++ cfg.cert
    match k with
    | .digest => .ok (pre ++ manifestBytes k cfg 0)
    | .crc =>
      let m0 := manifestBytes k cfg 0
      let crc := crc32m (dropLast (pre ++ m0) 4)
      .ok (pre ++ manifestBytes k cfg crc)

/-- `img_len` of the encrypted class -/
def encImgLen (c : Cls) (cfg : Cfg) : Nat := (totalLen c cfg).toNat + cfg.sigLen + encIvtCopySize + encIvSize

/-- `Mbi_ExportMixinAppTrustZoneCertBlockEncrypt.collect_data` -/
def collectEncrypt (c : Cls) (cfg : Cfg) : PyRes Bytes :=
  let app := appData cfg
  if app.isEmpty ∨ cfg.cert.isEmpty then .error .spsdk else
  let a := updateIvt c cfg app (encImgLen c cfg) (appLen c cfg)
  let r := match (if c.hasAttr .app_table then cfg.reloc else none) with
    | some es => relocExport es a.length
    | none => []
  .ok (a ++ r ++ cfg.tz.bytes)

def collect (c : Cls) (cfg : Cfg) : PyRes Bytes :=
  match c.resolve .collect_data with
  | some .Mbi_ExportMixinApp => collectApp c cfg
  | some .Mbi_ExportMixinAppTrustZone => collectAppTz c cfg
  | some .Mbi_ExportMixinAppTrustZoneCertBlock => collectAppTzCert c cfg
  | some .Mbi_ExportMixinAppCertBlockManifest => collectAppCertManifest c cfg
  | some .Mbi_ExportMixinAppTrustZoneCertBlockEncrypt => collectEncrypt c cfg
  | none => .ok []                      -- `BinaryImage(name="General")`
  | _ => .error .other                  -- mc56 (Vx) collectors: not modelled here

/-- `KeyStore.derive_hmac_key` / `derive_enc_image_key`: AES-ECB of generated constants under the user key -/
def deriveHmacKey (co : CryptoOps) (k : Bytes) : Bytes := ecbEnc co k deriveHmacKeyConst
def deriveEncImageKey (co : CryptoOps) (k : Bytes) : Bytes := ecbEnc co k deriveEncImageKeyConst

/-- the AES-CTR key of the encrypted class: the user key itself with a key store, else the derived key -/
def encKey (co : CryptoOps) (hmacKey : Bytes) (keyStorePresent : Bool) : Bytes :=
  if keyStorePresent then hmacKey else deriveEncImageKey co hmacKey

/-- `encrypt(image, revert=False)` -/
def encryptStage (co : CryptoOps) (c : Cls) (cfg : Cfg) (img : Bytes) : PyRes Bytes :=
  match c.resolve .encrypt with
  | some .Mbi_ExportMixinAppTrustZoneCertBlockEncrypt =>
    (match cfg.hmacKey with
     | none => .error .spsdk
     | some k => if cfg.ctrIv.isEmpty then .error .spsdk
                 else .ok (ctrXor co (encKey co k cfg.keyStore.isSome) cfg.ctrIv img))
  | _ => .ok img

/-- `post_encrypt(image, revert=False)` -/
def postEncryptStage (c : Cls) (cfg : Cfg) (img : Bytes) : PyRes Bytes :=
  match c.resolve .post_encrypt with
  | some .Mbi_ExportMixinAppTrustZoneCertBlockEncrypt =>
    if cfg.cert.isEmpty then .error .spsdk else
    let encIvt := updateIvt c cfg (img.take hmacOffset) (encImgLen c cfg) (appLen c cfg)
    let cert := certSetImageLength cfg.cert (img.length + cfg.cert.length + encIvtCopySize + cfg.ctrIv.length)
    .ok (encIvt ++ slice img hmacOffset (appLen c cfg) ++ cert ++ img.take encIvtCopySize ++ cfg.ctrIv
          ++ (if cfg.tz.bytes.isEmpty then [] else img.drop (appLen c cfg)))
  | _ => .ok img

/-- CRC over the image with exactly the CRC word removed, stored into that word -/
def crcSign (img : Bytes) : Bytes :=
  setAt img ivtCrcCertificateOffset
    (le32 (crc32m (img.take ivtCrcCertificateOffset ++ img.drop (ivtCrcCertificateOffset + 4))))

inductive SignKind where | none | crc | rsa | ecc | other
  deriving Repr, DecidableEq

def Cls.signKind (c : Cls) : SignKind :=
  match c.resolve .sign with
  | none => .none
  | some .Mbi_ExportMixinCrcSign => .crc
  | some .Mbi_ExportMixinRsaSign => .rsa
  | some .Mbi_ExportMixinEccSign => .ecc
  | _ => .other

/-- `sign(image, revert=False)`; returns the image and the data that was signed -/
def signStage (c : Cls) (signer : Signer) (img : Bytes) : PyRes Bytes :=
  match c.signKind with
  | .none => .ok img
  | .crc => if img.isEmpty then .error .spsdk else .ok (crcSign img)
  | .rsa | .ecc => .ok (img ++ signer img)
  | .other => .error .other

/-- HMAC-SHA256 over the first 64 bytes under the derived key -/
def computeHmac (co : CryptoOps) (cfg : Cfg) (head : Bytes) : Bytes :=
  match cfg.hmacKey with
  | none => []
  | some k => hmac co .sha256 (deriveHmacKey co k) head

/-- `finalize(image, revert=False)`; `unsigned` is `data_to_sign` of the ECC signer -/
def finalizeStage (co : CryptoOps) (c : Cls) (cfg : Cfg) (unsigned img : Bytes) : PyRes Bytes :=
  match c.resolve .finalize with
  | some .Mbi_ExportMixinHmacKeyStoreFinalize =>
    let h := computeHmac co cfg (img.take hmacOffset)
    if img.length < hmacOffset then .ok img   -- no sub-image reaches the offset: nothing is inserted
    else .ok (img.take hmacOffset ++ h ++ (cfg.keyStore.getD []) ++ img.drop hmacOffset)
  | some .Mbi_ExportMixinAppCertBlockManifest =>
    (match c.manifestKind, cfg.digest with
     | some .digest, some a => .ok (img ++ co.hash a unsigned)
     | _, _ => .ok img)
  | _ => .ok img

/-- `MasterBootImage.export()` -/
def exportImage (co : CryptoOps) (c : Cls) (cfg : Cfg) (signer : Signer) : PyRes Bytes := do
  validate c cfg
  packGuard c cfg
  let raw ← collect c cfg
  let enc ← encryptStage co c cfg raw
  let pe ← postEncryptStage c cfg enc
  let signed ← signStage c signer pe
  finalizeStage co c cfg pe signed

/-! ## parse pipeline (mbi.py 396-468) -/

/-- what the external certificate code answers about the bytes at the certificate block position -/
structure Env where
  /-- `CertBlockV1.parse(data).signature_size` / `CertBlockV21.parse(data).signature_size` -/
  sigSize : Bytes → Nat
  /-- `CertBlockV21.parse(data).expected_size` -/
  certV21Size : Bytes → Nat
  /-- does the certificate block at the head of these bytes parse (certificates, keys)? -/
  certOk : Bytes → Bool

structure CertInfo where
  bytes : Bytes       -- the block as the parsed object exports it
  size : Nat          -- expected_size
  sigSize : Nat
  v1 : Bool
  deriving Repr, DecidableEq

/-- the object `MasterBootImage.parse` builds (same fields as `Cfg`; `cert` = parsed block) -/
structure Parsed where
  app : Option Bytes := none
  loadAddress : Nat := 0
  imageVersion : Nat := 0
  subType : Nat := 0
  tz : TzCfg := .enabled
  hwKey : Bool := false
  keyStore : Option Bytes := none
  hmacKey : Option Bytes := none
  ctrIv : Bytes := []
  reloc : Option (List RelocEntry) := none
  cert : Option CertInfo := none
  fwVersion : Nat := 0
  digest : Option HashAlg := none
  manifestSeen : Bool := false
  manifestFlags : Nat := 0
  bca : Option Bytes := none
  fcf : Option Bytes := none
  deriving Repr, DecidableEq

/-- offset shift of everything behind offset 64 in a finalized image with HMAC (+ key store) -/
def hmacShift (c : Cls) (data : Bytes) : Nat :=
  if c.hasAttr .hmac_key then hmacSize + (if getKeyStorePresented (flagsIn data) then keyStoreSize else 0) else 0

/-- `TrustZone.from_binary(raw)` for the family: the first `tzSize` bytes, refused when shorter -/
def tzFromBinary (c : Cls) (raw : Bytes) : PyRes TzCfg :=
  if c.tzSize = 0 then .error .spsdk       -- family without TrustZone database: `get_preset_data_size` / the preset file lookup raise
  else if raw.length / 4 < c.tzSize / 4 then .error .spsdk else .ok (.custom (raw.take c.tzSize))

/-! ## configuration path: the TrustZone keys (`mix_load_from_config`; loaders and their decisions are GENERATED) -/

/-- the two TrustZone keys of a configuration: `enableTrustZone` (absent / a boolean) and `trustZonePresetFile`
    (absent / the empty string / a binary preset file with the given content; YAML preset files are property C12) -/
structure TzKeys where
  enable : Option Bool := none
  preset : Option (Option Bytes) := none
  deriving Repr, DecidableEq

def TzKeys.enableTruthy (k : TzKeys) : Bool := k.enable.getD false
def TzKeys.presetTruthy (k : TzKeys) : Bool := match k.preset with | some (some _) => true | _ => false

/-- the class whose `mix_load_from_config` decides the TrustZone of images of this class (Python's MRO over the mixin list:
    `load_from_config` calls every mixin's loader; at most one mixin of a database class reads the TrustZone keys) -/
def Cls.tzLoader (c : Cls) : Option MixinName := c.mixins.findSome? Generated.MbiClasses.tzConfigLoader

/-- the TrustZone setting `load_from_config` gives the image (`none`: the class has no TrustZone setting) -/
def tzOfConfig (c : Cls) (k : TzKeys) : PyRes (Option TzCfg) :=
  match c.tzLoader with
  | none => .ok none
  | some l =>
    match Generated.MbiClasses.tzLoad l k.enableTruthy k.presetTruthy with
    | none => .error .other
    | some .disabled => .ok (some .disabled)
    | some .enabled => .ok (some .enabled)
    | some .preset =>
      match k.preset with
      | some (some d) => (tzFromBinary c d).map some
      | _ => .error .other

/-- what the configuration REQUESTS (schema text of `enableTrustZone` / `trustZonePresetFile`, independent of the loaders):
    optional TrustZone - disabled unless enabled, then the preset file if one is named, else the default;
    mandatory TrustZone - the preset file if one is named, else the default -/
def tzRequestedTag (optional : Bool) (k : TzKeys) : Nat :=
  if optional && !k.enableTruthy then tzDisabled else if k.presetTruthy then tzCustom else tzEnabled

def parseManifest (c : Cls) (k : ManifestKind) (d : Bytes) : PyRes (Nat × Nat × Bytes) :=
  if d.length < manifestHeaderSize then .error .other else     -- struct.error
  let magic := d.take 4
  let ver := rd32 d 4
  let fw := rd32 d 8
  let tl := rd32 d 12
  let fl := rd32 d 16
  if magic ≠ manifestMagic then .error .spsdk
  else if ver ≠ manifestFormatVersion then .error .spsdk
  else if tl ≥ d.length then .error .spsdk
  else
    let extra := slice d manifestHeaderSize tl
    match k with
    | .crc => if extra.length < 4 then .error .spsdk else .ok (fw, 0, dropLast extra 4)
    | .digest =>
      if fl &&& manifestDigestPresentFlag ≠ 0 ∧ (fl &&& manifestHashTypeMask) > 3 then .error .other   -- KeyError
      else .ok (fw, fl, extra)

def digestOfFlags (fl : Nat) : Option HashAlg :=
  if fl &&& manifestDigestPresentFlag = 0 then none
  else match fl &&& manifestHashTypeMask with
    | 1 => some .sha256 | 2 => some .sha384 | 3 => some .sha512 | _ => none

/-- one `mix_parse` call (by the providing class) -/
def mixParse (env : Env) (c : Cls) (dek : Option Bytes) (data : Bytes) (p : Parsed) (m : MixinName) : PyRes Parsed :=
  let flags := flagsIn data
  match provider m .mix_parse with
  | some .Mbi_MixinTrustZone =>
    let t := getTzType flags
    if t ≠ tzEnabled ∧ t ≠ tzCustom ∧ t ≠ tzDisabled then .error .spsdk
    else if t = tzCustom then
      if c.hasAttr .cert_block then
        match p.cert with
        | none => .error .other                     -- assert isinstance(self.cert_block, ...)
        | some ci => do
          let off ← certOffsetChecked c data
          let o := off + ci.size + hmacShift c data
          let tz ← tzFromBinary c (slice data o (o + c.tzSize))
          pure { p with tz := tz }
      else do
        let tz ← tzFromBinary c (lastN data c.tzSize)
        pure { p with tz := tz }
    else .ok { p with tz := if t = tzEnabled then .enabled else .disabled }
  | some .Mbi_MixinLoadAddress => .ok { p with loadAddress := rd32 data ivtLoadAddrOffset }
  | some .Mbi_MixinImageVersion => .ok { p with imageVersion := getImageVersion flags }
  | some .Mbi_MixinImageSubType => .ok { p with subType := getSubType flags }
  | some .Mbi_MixinHwKey => .ok { p with hwKey := getHwKeyEnabled flags }
  | some .Mbi_MixinKeyStore =>
    if getKeyStorePresented flags then
      let ks := slice data (hmacOffset + hmacSize) (hmacOffset + hmacSize + keyStoreSize)
      if ks.isEmpty then .ok { p with keyStore := some [] }
      else if ks.length ≠ keyStoreSize then .error .spsdk else .ok { p with keyStore := some ks }
    else .ok { p with keyStore := none }
  | some .Mbi_MixinHmac => .ok (match dek with | some k => { p with hmacKey := some k } | none => p)
  | some .Mbi_MixinCtrInitVector =>
    (match p.cert with
     | some ci =>
       if ¬ ci.v1 then .error .other else do
       let off ← certOffsetChecked c data
       let o := off + ci.size + encIvtCopySize + hmacShift c data
       pure { p with ctrIv := slice data o (o + ctrInitVectorSize) }
     | none => .error .other)
  | some .Mbi_MixinCertBlockV1 => do
    let off ← certOffsetChecked c data
    let d := data.drop (off + hmacShift c data)
    if d.length < certHeaderSize then .error .spsdk
    else if d.take 4 ≠ certHeaderSignature then .error .spsdk
    else if rd32 d 8 ≠ certHeaderSize then .error .spsdk
    else if d.length < rd32 d certTableLengthOffset + rkhtEntries * rkhSize then .error .spsdk
    else if ¬ env.certOk d then .error .spsdk
    else
      let sz := certV1Size d
      pure { p with cert := some ⟨d.take sz, sz, env.sigSize d, true⟩ }
  | some .Mbi_MixinCertBlockV21 => do
    let off ← certOffsetChecked c data
    let d := data.drop off
    if ¬ env.certOk d then .error .spsdk
    else pure { p with cert := some ⟨d.take (env.certV21Size d), env.certV21Size d, env.sigSize d, false⟩ }
  | some .Mbi_MixinManifest =>
    (match p.cert, c.manifestKind with
     | some ci, some k =>
       if ci.v1 then .error .other else do
       let off ← certOffsetChecked c data
       let (fw, fl, tzd) ← parseManifest c k (data.drop (off + ci.size))
       let tz ← (if tzd.isEmpty then
                   pure (if getTzType flags = tzEnabled then TzCfg.enabled else TzCfg.disabled)
                 else tzFromBinary c tzd)
       pure { p with fwVersion := fw, tz := tz, manifestSeen := true, manifestFlags := fl,
                      digest := (match k with | .digest => digestOfFlags fl | .crc => none) }
     | _, _ => .error .other)
  | some .Mbi_MixinBca =>
    let d := data.drop bcaOffset
    .ok { p with bca := if d.length ≥ bcaSize ∧ d.take 4 = [0x6B, 0x63, 0x66, 0x67] then some (d.take bcaSize) else none }
  | some .Mbi_MixinFcf =>
    let d := data.drop fcfOffset
    if d.length < fcfSize then .error .spsdk else .ok { p with fcf := some (d.take fcfSize) }
  | _ => .ok p

/-- is an attribute the mixin waits for still `None`?  (`cert_block` is the only PRE_PARSED attribute) -/
def mustWait (c : Cls) (certDone : Bool) (m : MixinName) : Bool :=
  (preParsed m).any (fun a => c.hasAttr a && !(a == .cert_block && certDone))

def setsCert (m : MixinName) : Bool :=
  provider m .mix_parse == some .Mbi_MixinCertBlockV1 || provider m .mix_parse == some .Mbi_MixinCertBlockV21

/-- one round of the waiting loop over the mixins still to parse: (order of this round, left over, cert parsed) -/
def parseRound (c : Cls) : List MixinName → Bool → List MixinName × List MixinName × Bool
  | [], done => ([], [], done)
  | m :: ms, done =>
    if mustWait c done m then
      let (o, w, d) := parseRound c ms done
      (o, m :: w, d)
    else
      let (o, w, d) := parseRound c ms (done || setsCert m)
      (m :: o, w, d)

/-- the order in which `MasterBootImage.parse` calls `mix_parse`; `none` = the loop makes no progress -/
def parseOrderF (c : Cls) : Nat → List MixinName → Bool → Option (List MixinName)
  | _, [], _ => some []
  | 0, _ :: _, _ => none
  | f + 1, todo, done =>
    let (o, w, d) := parseRound c todo done
    if w.length = todo.length then none
    else (parseOrderF c f w d).map (o ++ ·)

def parseOrder (c : Cls) : Option (List MixinName) := parseOrderF c (c.dataMixins.length + 1) c.dataMixins false

def mixParseAll (env : Env) (c : Cls) (dek : Option Bytes) (data : Bytes) : PyRes Parsed :=
  match parseOrder c with
  | none => .error .spsdk
  | some order => order.foldlM (mixParse env c dek data) {}

/-- `finalize(image, revert=True)` -/
def finalizeRevert (c : Cls) (p : Parsed) (img : Bytes) : PyRes Bytes :=
  match c.resolve .finalize with
  | some .Mbi_ExportMixinHmacKeyStoreFinalize =>
    let e := hmacOffset + hmacSize + (if getKeyStorePresented (flagsIn img) then keyStoreSize else 0)
    .ok (img.take hmacOffset ++ img.drop e)
  | some .Mbi_ExportMixinAppCertBlockManifest =>
    if p.manifestSeen ∧ p.manifestFlags ≠ 0 ∧ p.digest.isSome then .ok (dropLast img (digestSize p.digest)) else .ok img
  | _ => .ok img

/-- `sign(image, revert=True)` -/
def signRevert (c : Cls) (p : Parsed) (img : Bytes) : PyRes Bytes :=
  match c.signKind with
  | .rsa => (match p.cert with
    | some ci => if img.isEmpty then .error .spsdk else if ¬ ci.v1 then .error .spsdk
                 else .ok (dropLast img ci.sigSize)
    | none => .error .spsdk)
  | .ecc => (match p.cert with
    | some ci => if img.isEmpty then .error .spsdk else if ci.v1 then .error .spsdk
                 else .ok (dropLast img ci.sigSize)
    | none => .error .spsdk)
  | .other => .error .other
  | _ => .ok img

/-- `post_encrypt(image, revert=True)` -/
def postEncryptRevert (c : Cls) (p : Parsed) (img : Bytes) : PyRes Bytes :=
  match c.resolve .post_encrypt with
  | some .Mbi_ExportMixinAppTrustZoneCertBlockEncrypt =>
    (match p.cert with
     | some ci =>
       if ¬ ci.v1 then .error .spsdk else
       let off := rd32 img ivtCrcCertificateOffset
       .ok (slice img (off + ci.size) (off + ci.size + encIvtCopySize) ++ slice img encIvtCopySize off
             ++ img.drop (off + ci.size + encIvtCopySize + encIvSize))
     | none => .error .spsdk)
  | _ => .ok img

/-- `encrypt(image, revert=True)` -/
def encryptRevert (co : CryptoOps) (c : Cls) (p : Parsed) (img : Bytes) : PyRes Bytes :=
  match c.resolve .encrypt with
  | some .Mbi_ExportMixinAppTrustZoneCertBlockEncrypt =>
    (match p.hmacKey with
     | some k => if p.ctrIv.isEmpty then .ok img else .ok (ctrXor co (encKey co k p.keyStore.isSome) p.ctrIv img)
     | none => .ok img)          -- "Cannot parse the encrypted image without decrypting key!"
  | _ => .ok img

/-- `Mbi_MixinRelocTable.disassembly_app_data` (only when the class has the mixin) -/
def disassemblyAppData (c : Cls) (p : Parsed) (img : Bytes) : PyRes (Parsed × Bytes) :=
  if c.hasAttr .disassembly_app_data then
    if ¬ getAppTablePresented (flagsIn img) then .ok ({ p with reloc := none }, img)
    else match relocParse img with
      | .error e => .error e
      | .ok none => .ok ({ p with reloc := none }, img)
      | .ok (some (es, start)) => .ok ({ p with reloc := some es }, img.take start)
  else .ok (p, img)

/-- `disassemble_image(image)` -/
def disassemble (c : Cls) (p : Parsed) (img : Bytes) : PyRes Parsed :=
  let fin (p : Parsed) (img : Bytes) (clean : Bool) : PyRes Parsed := do
    let (p, a) ← disassemblyAppData c p img
    -- the `app` setter pads what it is given to a multiple of 4 again
    pure { p with app := some (align4 (if clean then cleanIvt a else a)) }
  match c.resolve .disassemble_image with
  | some .Mbi_ExportMixinApp => fin p img (c.hasAttr .clean_ivt)
  | some .Mbi_ExportMixinAppTrustZone =>
    let n := p.tz.bytes.length
    fin p (if n = 0 then img else dropLast img n) (c.hasAttr .clean_ivt)
  | some .Mbi_ExportMixinAppTrustZoneCertBlock => fin p (img.take (rd32 img ivtCrcCertificateOffset)) true
  | some .Mbi_ExportMixinAppCertBlockManifest =>
    fin p (if p.cert.isSome then img.take (rd32 img ivtCrcCertificateOffset) else img) true
  | some .Mbi_ExportMixinAppTrustZoneCertBlockEncrypt => do
    -- re-parse the decrypted TrustZone data
    let tz ← (match p.tz with
      | .custom _ => tzFromBinary c (lastN img c.tzSize)
      | t => pure t)
    let p := { p with tz := tz }
    let n := tz.bytes.length
    fin p (if n = 0 then img else dropLast img n) true
  | none => .ok p
  | _ => .error .other

/-- `MasterBootImage.parse(family, data, dek)` for the class the image type selects -/
def parseImage (co : CryptoOps) (env : Env) (c : Cls) (dek : Option Bytes) (data : Bytes) : PyRes Parsed := do
  let p ← mixParseAll env c dek data
  let a ← finalizeRevert c p data
  let b ← signRevert c p a
  let d ← postEncryptRevert c p b
  let e ← encryptRevert co c p d
  disassemble c p e

/-! ## class selection (mbi.py 408-431): the first class of the family with the image type, preferring the one that can
    represent the IVT (zero total length ↔ IvtZeroTotalLength; non-zero load address → a load-address mixin) -/

def classMismatch (data : Bytes) (c : Cls) : Nat :=
  (if c.has .Mbi_MixinIvtZeroTotalLength != (rd32 data ivtImageLengthOffset == 0) then 1 else 0)
    + (if rd32 data ivtLoadAddrOffset != 0 && !c.has .Mbi_MixinLoadAddress then 1 else 0)

/-- stable minimum by `classMismatch` (what `candidates.sort(key=…)` followed by "take the first" gives) -/
def pickBest (data : Bytes) : List Cls → Option Cls
  | [] => none
  | c :: cs => match pickBest data cs with
    | none => some c
    | some b => if classMismatch data b < classMismatch data c then some b else some c

def selectClass (fixedType : Int) (family : List Cls) (data : Bytes) : Option Cls :=
  let t := if fixedType < 0 then getImageType (flagsIn data) else fixedType.toNat
  pickBest data (family.filter (·.imageType == t))

/-! ## the value `parse (export x)` is expected to give: `x` in the parser's normal form -/

def Cls.hasM (c : Cls) (m : MixinName) : Bool := c.has m

/-- the v1 certificate block as it is emitted: `image_length` filled in by the collector / `post_encrypt` -/
def certInImage (c : Cls) (cfg : Cfg) : Bytes :=
  match c.resolve .post_encrypt with
  | some .Mbi_ExportMixinAppTrustZoneCertBlockEncrypt =>
    certSetImageLength cfg.cert
      ((appData cfg).length + (match (if c.hasAttr .app_table then cfg.reloc else none) with
          | some es => (relocExport es 0).length | none => 0) + cfg.tz.bytes.length
        + cfg.cert.length + encIvtCopySize + cfg.ctrIv.length)
  | _ => certSetImageLength cfg.cert (totalLenForCertBlock c cfg).toNat

/-- settings the image carries for this class; everything else is the constructor default -/
def canon (c : Cls) (cfg : Cfg) (dek : Option Bytes) : Parsed :=
  { app := some (if c.hasAttr .clean_ivt then cleanIvt (appData cfg) else
                  (match collectApp c { cfg with reloc := none } with | .ok b => b | .error _ => appData cfg))
    loadAddress := if c.has .Mbi_MixinLoadAddress then cfg.loadAddress else 0
    imageVersion := if c.has .Mbi_MixinImageVersion then cfg.imageVersion else 0
    subType := if c.has .Mbi_MixinImageSubType then cfg.subType else 0
    tz := if c.hasTrustZone then cfg.tz else .enabled
    hwKey := c.has .Mbi_MixinHwKey && cfg.hwKey
    keyStore := if c.has .Mbi_MixinKeyStore then (match cfg.keyStore with | some [] => none | k => k) else none
    hmacKey := if c.has .Mbi_MixinHmac then dek else none
    ctrIv := if c.has .Mbi_MixinCtrInitVector then cfg.ctrIv else []
    reloc := if c.has .Mbi_MixinRelocTable then cfg.reloc else none
    cert := if c.has .Mbi_MixinCertBlockV1 then some ⟨certInImage c cfg, cfg.cert.length, cfg.sigLen, true⟩
            else if c.has .Mbi_MixinCertBlockV21 then some ⟨cfg.cert, cfg.cert.length, cfg.sigLen, false⟩ else none
    fwVersion := if c.manifestKind.isSome then cfg.fwVersion else 0
    digest := if c.manifestKind = some .digest then cfg.digest else none
    manifestSeen := c.manifestKind.isSome
    manifestFlags := if c.manifestKind = some .digest then manifestFlags cfg.digest else 0
    bca := if c.has .Mbi_MixinBca then cfg.bca else none
    fcf := if c.has .Mbi_MixinFcf then cfg.fcf else none }

/-- the builder's view of a parsed image (to export it again) -/
def Parsed.toCfg (p : Parsed) : Cfg :=
  { app := p.app.getD [], loadAddress := p.loadAddress, imageVersion := p.imageVersion, subType := p.subType, tz := p.tz,
    hwKey := p.hwKey, keyStore := p.keyStore, hmacKey := p.hmacKey, ctrIv := p.ctrIv, reloc := p.reloc,
    cert := (match p.cert with | some ci => ci.bytes | none => []),
    sigLen := (match p.cert with | some ci => ci.sigSize | none => 0),
    fwVersion := p.fwVersion, digest := p.digest, bca := p.bca, fcf := p.fcf }

end SpsdkVerif.Mbi

/-! ## well-formedness predicates (executable, so that the harness can evaluate them on every generated case and the
    class predicate can be decided over the generated table); the theorems of Properties/C01.lean are stated under them -/

namespace SpsdkVerif.Mbi
open SpsdkVerif SpsdkVerif.Misc SpsdkVerif.Crypto
open SpsdkVerif.Generated.IvtConsts
open SpsdkVerif.Generated.MbiClasses (MixinName Method Attr provider attrs preParsed isData parent countInLegacyCertBlockLen shapes rowKeys)

/-- every class of the generated table: (shape, TrustZone preset size) of every database row -/
def allClasses : List Cls :=
  rowKeys.filterMap (fun (k : Nat × Nat × Int) => (shapes[k.1]?).map (fun (s : Nat × List MixinName) => (⟨s.1, s.2, k.2.1⟩ : Cls)))

/-- the classes with an IVT (everything except the mc56 "Vx" images, which have no header of this kind) -/
def ivtClasses : List Cls := allClasses.filter (fun c => c.hasAttr .ivt_table)

/-- providers of `mix_len` of the data mixins, in class order (`none` = the base default 0) -/
def Cls.lenProviders (c : Cls) : List (Option MixinName) := c.dataMixins.map (provider · .mix_len)
def Cls.legacyLenProviders (c : Cls) : List (Option MixinName) :=
  (c.dataMixins.filter countInLegacyCertBlockLen).map (provider · .mix_len)
def Cls.appLenProviders (c : Cls) : List (Option MixinName) := c.dataMixins.map (provider · .mix_app_len)
def Cls.parseProviders (c : Cls) : Option (List (Option MixinName)) := (parseOrder c).map (·.map (provider · .mix_parse))

/-- drop the `none`s and sort by constructor position (a canonical form for "the same terms in any order") -/
def provKey (m : MixinName) : Nat :=
  match m with
  | .Mbi_MixinApp => 0 | .Mbi_MixinRelocTable => 1 | .Mbi_MixinTrustZone => 2 | .Mbi_MixinCertBlockV1 => 3
  | .Mbi_MixinCertBlockV21 => 4 | .Mbi_MixinManifest => 5 | .Mbi_MixinManifestDigest => 6 | .Mbi_MixinHmac => 7
  | .Mbi_MixinKeyStore => 8 | .Mbi_MixinBca => 9 | .Mbi_MixinFcf => 10 | _ => 99

/-- how often a provider occurs -/
def provCount (l : List (Option MixinName)) (m : MixinName) : Nat := l.count (some m)

def insertByKey (m : MixinName) : List MixinName → List MixinName
  | [] => [m]
  | x :: xs => if provKey m ≤ provKey x then m :: x :: xs else x :: insertByKey m xs

/-- insertion sort by `provKey` (structural, so that `decide` evaluates it) -/
def sortByKey : List MixinName → List MixinName
  | [] => []
  | x :: xs => insertByKey x (sortByKey xs)

/-- the `mix_len` providers (ignoring the `none`s, which contribute 0) are a permutation of the expected list -/
def lenProvidersAre (l : List (Option MixinName)) (exp : List MixinName) : Bool :=
  sortByKey (l.filterMap id) == sortByKey exp && exp.all (fun m => provKey m < 99)

inductive Family where | plain | signedV1 | signedV21 | encrypted
  deriving Repr, DecidableEq

def Cls.family (c : Cls) : Option Family :=
  match c.resolve .collect_data with
  | some .Mbi_ExportMixinApp | some .Mbi_ExportMixinAppTrustZone => some .plain
  | some .Mbi_ExportMixinAppTrustZoneCertBlock => some .signedV1
  | some .Mbi_ExportMixinAppCertBlockManifest => some .signedV21
  | some .Mbi_ExportMixinAppTrustZoneCertBlockEncrypt => some .encrypted
  | _ => none

def optList (b : Bool) (m : MixinName) : List MixinName := if b then [m] else []

/-- structural well-formedness of a class (decidable; proved for every generated IVT class by `decide`):
    the pipeline methods fit together and the length terms are the blocks the collector emits -/
def ClassWF (c : Cls) : Bool :=
  let hasReloc := c.has .Mbi_MixinRelocTable
  let hasTzM := c.has .Mbi_MixinTrustZone && c.manifestKind.isNone
  let hasHmac := c.has .Mbi_MixinHmac
  let hasKs := c.has .Mbi_MixinKeyStore
  c.imageType ≤ imageTypeMask && c.tzSize % 4 == 0
  && c.hasAttr .ivt_table && c.hasAttr .clean_ivt && c.has .Mbi_MixinIvt && c.has .Mbi_MixinApp
  && (parseOrder c).isSome
  && (c.appLenProviders.all (fun o => o == none || o == some .Mbi_MixinApp || o == some .Mbi_MixinRelocTable))
  && provCount c.appLenProviders .Mbi_MixinApp == 1
  && provCount c.appLenProviders .Mbi_MixinRelocTable == (if hasReloc then 1 else 0)
  && c.hasAttr .app_table == hasReloc && c.hasAttr .disassembly_app_data == hasReloc
  && c.hasAttr .load_address == c.has .Mbi_MixinLoadAddress
  && c.hasAttr .image_subtype == c.has .Mbi_MixinImageSubType
  && c.hasAttr .image_version == c.has .Mbi_MixinImageVersion
  && c.hasAttr .image_version_to_image_type == c.has .Mbi_MixinImageVersion
  && c.hasAttr .user_hw_key_enabled == c.has .Mbi_MixinHwKey
  && c.hasAttr .key_store == hasKs && c.hasAttr .hmac_key == hasHmac
  && !(c.hasAttr .bca) && !(c.hasAttr .fcf)
  && (match c.family with
      | some .plain =>
        c.resolve .disassemble_image == c.resolve .collect_data
        && (c.resolve .encrypt).isNone && (c.resolve .post_encrypt).isNone && (c.resolve .finalize).isNone
        && (c.signKind == .none || c.signKind == .crc)
        && (c.signKind == .crc) == (c.imageType != 0)
        && !(c.hasAttr .cert_block) && !hasHmac && !hasKs && c.manifestKind.isNone && !(c.has .Mbi_MixinCtrInitVector)
        && (c.resolve .collect_data == some .Mbi_ExportMixinAppTrustZone) == hasTzM
        && lenProvidersAre c.lenProviders ([.Mbi_MixinApp] ++ optList hasReloc .Mbi_MixinRelocTable ++ optList hasTzM .Mbi_MixinTrustZone)
      | some .signedV1 =>
        c.resolve .disassemble_image == some .Mbi_ExportMixinAppTrustZoneCertBlock
        && (c.resolve .encrypt).isNone && (c.resolve .post_encrypt).isNone
        && c.signKind == .rsa && c.imageType != 0
        && c.has .Mbi_MixinCertBlockV1 && !(c.has .Mbi_MixinCertBlockV21) && c.hasAttr .cert_block && hasTzM
        && c.manifestKind.isNone && !(c.has .Mbi_MixinCtrInitVector)
        && (c.resolve .finalize == some .Mbi_ExportMixinHmacKeyStoreFinalize) == hasHmac
        && ((c.resolve .finalize).isNone || hasHmac) && (!hasKs || hasHmac)
        && lenProvidersAre c.lenProviders ([.Mbi_MixinApp, .Mbi_MixinTrustZone, .Mbi_MixinCertBlockV1]
              ++ optList hasReloc .Mbi_MixinRelocTable ++ optList hasHmac .Mbi_MixinHmac ++ optList hasKs .Mbi_MixinKeyStore)
        && lenProvidersAre c.legacyLenProviders ([.Mbi_MixinApp, .Mbi_MixinTrustZone, .Mbi_MixinCertBlockV1]
              ++ optList hasReloc .Mbi_MixinRelocTable)
      | some .signedV21 =>
        c.resolve .disassemble_image == some .Mbi_ExportMixinAppCertBlockManifest
        && (c.resolve .encrypt).isNone && (c.resolve .post_encrypt).isNone
        && c.resolve .finalize == some .Mbi_ExportMixinAppCertBlockManifest
        && c.signKind == .ecc && c.imageType != 0
        && c.has .Mbi_MixinCertBlockV21 && !(c.has .Mbi_MixinCertBlockV1) && c.hasAttr .cert_block
        && c.manifestKind.isSome && !hasReloc && !hasHmac && !hasKs && !(c.has .Mbi_MixinCtrInitVector)
        && !(c.hasAttr .trust_zone)
        && lenProvidersAre c.lenProviders ([.Mbi_MixinApp, .Mbi_MixinCertBlockV21]
              ++ (if c.manifestKind == some .digest then [.Mbi_MixinManifestDigest] else [.Mbi_MixinManifest]))
      | some .encrypted =>
        c.resolve .disassemble_image == some .Mbi_ExportMixinAppTrustZoneCertBlockEncrypt
        && c.resolve .encrypt == some .Mbi_ExportMixinAppTrustZoneCertBlockEncrypt
        && c.resolve .post_encrypt == some .Mbi_ExportMixinAppTrustZoneCertBlockEncrypt
        && c.resolve .finalize == some .Mbi_ExportMixinHmacKeyStoreFinalize
        && c.signKind == .rsa && c.imageType != 0
        && c.has .Mbi_MixinCertBlockV1 && !(c.has .Mbi_MixinCertBlockV21) && c.hasAttr .cert_block && hasTzM
        && c.manifestKind.isNone && c.has .Mbi_MixinCtrInitVector && c.has .Mbi_MixinHmacMandatory && hasKs
        && lenProvidersAre c.lenProviders ([.Mbi_MixinApp, .Mbi_MixinTrustZone, .Mbi_MixinCertBlockV1, .Mbi_MixinHmac, .Mbi_MixinKeyStore]
              ++ optList hasReloc .Mbi_MixinRelocTable)
      | none => false)

/-- a relocation entry the table format can carry -/
def relocEntryOk (e : RelocEntry) : Bool := e.dst < 2 ^ 32 && e.image.length < 2 ^ 32

/-- the option set is one the builder accepts and every value fits its field -/
def cfgWF (c : Cls) (cfg : Cfg) : Bool :=
  let a := appData cfg
  (validate c cfg == .ok ()) && (packGuard c cfg == .ok ())
  && cfg.loadAddress < 2 ^ 32 && cfg.imageVersion < 2 ^ 16 && cfg.subType ≤ subTypeMask && cfg.fwVersion < 2 ^ 32
  && flagsOf c cfg < 2 ^ 32
  && (match cfg.tz with | .custom d => d.length == c.tzSize && c.tzSize > 0 | _ => true)
  && (!c.hasTrustZone → cfg.tz == .enabled)
  && (match cfg.reloc with | some es => es.all relocEntryOk && c.has .Mbi_MixinRelocTable && !es.isEmpty | none => true)
  && (match cfg.keyStore with | some k => k.length == keyStoreSize && c.has .Mbi_MixinKeyStore | none => true)
  && (match cfg.hmacKey with | some k => k.length == hmacKeyLength && c.has .Mbi_MixinHmac | none => !c.has .Mbi_MixinHmac)
  && (c.has .Mbi_MixinCtrInitVector → cfg.ctrIv.length == ctrInitVectorSize)
  && (c.has .Mbi_MixinHmac → a.length ≥ hmacOffset)
  && cfg.bca.isNone && cfg.fcf.isNone
  && (c.has .Mbi_MixinCertBlockV1 →
        cfg.cert.length ≥ certHeaderSize && cfg.cert.take 4 == certHeaderSignature && rd32 cfg.cert 8 == certHeaderSize
        && certV1Size cfg.cert == cfg.cert.length && cfg.sigLen > 0)
  && (c.has .Mbi_MixinCertBlockV21 → !cfg.cert.isEmpty && cfg.sigLen > 0)
  && (!(c.has .Mbi_MixinCertBlockV1 || c.has .Mbi_MixinCertBlockV21) → cfg.cert.isEmpty && cfg.sigLen == 0)
  && (c.manifestKind != some .digest → cfg.digest.isNone) && cfg.digest != some .sha1
  && (c.manifestKind.isNone → cfg.fwVersion == 0)
  && (!c.has .Mbi_MixinImageVersion → cfg.imageVersion == 0) && (!c.has .Mbi_MixinImageSubType → cfg.subType == 0)
  && (!c.has .Mbi_MixinHwKey → !cfg.hwKey) && (!c.has .Mbi_MixinLoadAddress → cfg.loadAddress == 0)
  && (!c.has .Mbi_MixinCtrInitVector → cfg.ctrIv.isEmpty)

/-- the external certificate code answers what the builder was told, wherever the block is followed by more data -/
def EnvOK (env : Env) (c : Cls) (cfg : Cfg) : Prop :=
  (c.has .Mbi_MixinCertBlockV1 = true → ∀ rest, env.certOk (certInImage c cfg ++ rest) = true
      ∧ env.sigSize (certInImage c cfg ++ rest) = cfg.sigLen)
  ∧ (c.has .Mbi_MixinCertBlockV21 = true → ∀ rest, env.certOk (cfg.cert ++ rest) = true
      ∧ env.sigSize (cfg.cert ++ rest) = cfg.sigLen ∧ env.certV21Size (cfg.cert ++ rest) = cfg.cert.length)

/-- offset of the signature field in the exported image (`none`: no signature) -/
def sigOffset (c : Cls) (cfg : Cfg) (e : Bytes) : Option Nat :=
  match c.signKind with
  | .rsa => some (e.length - cfg.sigLen)
  | .ecc => some (e.length - (if c.manifestKind = some .digest then digestSize cfg.digest else 0) - cfg.sigLen)
  | _ => none

/-- equality outside the signature field -/
def eqOutsideSig (c : Cls) (cfg : Cfg) (a b : Bytes) : Prop :=
  match sigOffset c cfg a with
  | none => a = b
  | some o => a.length = b.length ∧ a.take o = b.take o ∧ a.drop (o + cfg.sigLen) = b.drop (o + cfg.sigLen)

end SpsdkVerif.Mbi
