/-
Specification vocabulary for C14 (used by Properties/C14.lean and Proofs/Bimg.lean): well-formedness of a resolved
memory-type description (`descOK`, decided for every generated layout), the hypotheses of the placement theorems (`Ctx`),
what parsing is expected to find (`expectedFound`) and the assumption on the external container parsers (`Delimit`).
-/
import SpsdkVerif.Model.Bimg

namespace SpsdkVerif.Bimg
open SpsdkVerif SpsdkVerif.Misc SpsdkVerif.BinImg SpsdkVerif.Generated

/-! ### well-formedness of a description -/

/-- strictly increasing -/
def ltChain : List Nat → Bool
  | a :: b :: r => decide (a < b) && ltChain (b :: r)
  | _ => true

/-- a static segment follows a static one; a dynamic segment directly follows a static application segment and is last -/
def dynOK : List Seg → Bool
  | s :: t :: r =>
    (match t.pos with
     | none => s.pos.isSome && !s.bootHeader && r.isEmpty
     | some _ => s.pos.isSome) && dynOK (t :: r)
  | _ => true

/-- the fixed-size window (`SIZE` bytes) of a static segment ends at or before the next static offset -/
def windowsFit : List Seg → Bool
  | s :: t :: r =>
    (match s.pos, t.pos with
     | some p, some q => !decide (0 < s.size) || decide (p + s.size.toNat ≤ q)
     | _, _ => true) && windowsFit (t :: r)
  | _ => true

/-- parsers that take the whole rest of the image (MBI, HAB, SB2.1, SB3.1) belong to the last entry only -/
def greedyLast : List Seg → Bool
  | s :: t :: r => (s.parser != .greedy && s.parser != .sb) && greedyLast (t :: r)
  | _ => true

/-- boot-header segments first, application segments after them -/
def headersFirst : List Seg → Bool
  | s :: r => if s.bootHeader then headersFirst r else r.all (fun x => !x.bootHeader)
  | [] => true

def segOK (pattern : Pattern) (s : Seg) : Bool :=
  decide (0 < s.align) && s.parser != .unknown && s.patterns.contains pattern && (s.pos.isSome || !s.initSeg)
  && (s.parser != .imageVersionAp || s.size == 4) && (s.parser != .imageVersion || s.size == 4)
  && (s.parser != .fcb || decide (4 ≤ s.size)) && (s.parser != .xmcd || decide (0 < s.size))
  && (!(s.parser == .raw && s.bootHeader) || decide (0 < s.size))
  && (!(s.parser == .greedy || s.parser == .ahab || s.parser == .sb) || (decide (s.size < 0) && !s.bootHeader))
  && (s.bootHeader || (s.parser == .greedy || s.parser == .ahab || s.parser == .sb))
  && (s.extFind == (s.parser == .ahab))

def descOK (d : Desc) : Bool :=
  (d.segs.head?.bind (·.pos)).isSome
  && d.segs.all (segOK d.pattern)
  && (d.pattern == .zeros || d.pattern == .ones)
  && ltChain (statics d.segs) && dynOK d.segs && windowsFit d.segs && greedyLast d.segs && headersFirst d.segs
  && d.segs.any (fun s => !s.bootHeader && s.pos.isSome)
  && (statics d.segs).all (fun o => d.segs.all (fun s => s.pos.isSome || o % s.align == 0))
  && (BimgTables.fcbTag.length == 4 && BimgTables.fcbTagSwapped.length == 4
      && BimgTables.fcbTag != [0, 0, 0, 0] && BimgTables.fcbTag != [0xFF, 0xFF, 0xFF, 0xFF]
      && BimgTables.fcbTagSwapped != [0, 0, 0, 0] && BimgTables.fcbTagSwapped != [0xFF, 0xFF, 0xFF, 0xFF])

/-! ### hypotheses of the placement theorems -/

/-- every supplied static segment ends at or before the next static offset of the table -/
def fits : List Slot → Bool
  | s :: t :: r =>
    (match s.seg.pos, t.seg.pos with
     | some p, some q => decide (p + s.len ≤ q)
     | _, _ => true) && fits (t :: r)
  | _ => true

structure Ctx (d : Desc) (init : Nat) (raws : List (Option Bytes)) : Prop where
  ok : descOK d = true
  len : raws.length = d.segs.length
  /-- what the init-offset setter can answer -/
  adm : init = 0 ∨ init ∈ statics d.segs
  fits : fits (mkSlots d.segs raws) = true
  /-- at least one segment is present (otherwise `len()` raises) -/
  nonempty : ∃ s ∈ mkSlots d.segs raws, s.present init = true

/-! ### parsing -/

def expectedGo (init : Nat) : List Slot → List (Option Nat) → List Found
  | s :: ss, o :: os =>
    (if s.present init then (match o with
       | some a => some (a - init, s.bytes)
       | none => none) else none) :: expectedGo init ss os
  | _, _ => []

/-- per table entry: `some (offset, bytes)` of a present segment, `none` for an excluded / not supplied one -/
def expectedFound (init : Nat) (slots : List Slot) : List Found := expectedGo init slots (absOffsets none slots)

/-- the application segments and the image-version words (which have no padding detection) are supplied -/
def Supplied (init : Nat) (slots : List Slot) : Prop :=
  ∀ s ∈ slots, excluded init s.seg = false →
    (s.seg.bootHeader = false ∧ s.seg.pos.isSome = true ∨ s.seg.parser = .imageVersion ∨ s.seg.parser = .imageVersionAp) →
    s.present init = true

/-- every supplied, non-excluded segment is accepted by its parser and delimits itself; `find_segment_offset` finds a
    supplied container right where it starts -/
structure Delimit (ext : Ext) (fcbSup : Bool) (init : Nat) (slots : List Slot) : Prop where
  good : ∀ s ∈ slots, s.present init = true → ∀ rest : Bytes,
    ((s.seg.parser = .greedy ∨ s.seg.parser = .sb) → rest = []) →
    parseSeg ext fcbSup s.seg (s.bytes ++ rest) = .present s.bytes
  find : ∀ s ∈ slots, s.present init = true → s.seg.extFind = true → ∀ rest : Bytes,
    ext.find s.seg.kind (s.bytes ++ rest) = some 0

/-- trailing bytes behind an exported image of `n` bytes (flash dump) that do not disturb the walk: the last table entry is
    not a whole-rest parser (MBI / HAB / SB2.1 / SB3.1 would swallow them) and, when it is an absent floating entry
    (secondary container set), the trailing bytes end at or before the aligned offset where `_parse` would look for it
    (otherwise `find_segment_offset` runs over the trailing bytes) -/
def TrailOK (init : Nat) (slots : List Slot) (n : Nat) (tail : Bytes) : Prop :=
  ∀ s, slots.getLast? = some s → s.seg.parser ≠ .greedy ∧ s.seg.parser ≠ .sb ∧
    (s.present init = false → n + tail.length ≤ alignNat n s.seg.align)


end SpsdkVerif.Bimg
