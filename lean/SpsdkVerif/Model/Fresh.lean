/-
C17 — secrets SPSDK invents are fresh for every artifact.

A tiny semantics of *when* a Python expression is evaluated.  The only thing that decides whether a
self-chosen key / nonce / IV can be shared by two artifacts is the time at which the drawing
expression (`random_bytes(..)`, `secrets.*`) runs:

  * `perCall`       in a function / method body: it runs every time the code path runs,
  * `atDefinition`  in a default-argument expression: it runs once, when the `def` is executed,
  * `atImport`      in a class body / at module level: it runs once, when the module is imported.

The program is abstracted to its list of drawing sites (`Generated.secretSites`, regenerated from the
AST of /repo on every run).  The RNG is an oracle handing out a token never handed out before
(`draw`; tokens are the values of a counter, hence pairwise distinct *by construction* — this is the
assumption on `secrets.token_bytes`, recorded in the harness).  A process first evaluates every early
site once (`boot`), then builds artifacts; a build is the list of sites whose value ends up in the
artifact (`Build`, any list of site indices — the theorems quantify over *all* of them, so no call
graph has to be trusted), a history is a list of builds of arbitrary length.

Boundary: an artifact gets a value only by evaluating a site during its own build or by reading an early site.  State
kept in a long-lived builder object / cache between two builds is NOT a site (see `C17.kept_value_shares`); the harness
detects it on the real code (every value must have been drawn during the build of the artifact that carries it).

Everything here is executable (`drv_c17` runs `run` on the traces observed on the real code).
-/
namespace SpsdkVerif.Fresh

inductive EvalTime where
  | perCall
  | atDefinition
  | atImport
  deriving DecidableEq, Repr, Inhabited

/-- artifact family a site belongs to (derived from the source path by the generator) -/
inductive Kind where
  | rng | sb1 | sb2 | sb3 | mbi | otfad | iee | bee | hab | image | filler | keys | tp | dice | other
  deriving DecidableEq, Repr, Inhabited

/-- where the entropy of a site comes from -/
inductive Source where
  | rngWrapper   -- a function of spsdk/crypto/rng.py (see `Wrapper`)
  | secrets      -- `secrets.*`
  | osUrandom    -- `os.urandom` / `os.getrandom`
  | pseudo       -- `random.*`, `numpy.random.*` (seedable PRNG: not fresh across restarts)
  | unknown
  deriving DecidableEq, Repr, Inhabited

structure Site where
  kind : Kind
  /-- name the value is bound to (assignment target / parameter / dict key, leading `_` stripped) -/
  field : String
  evalTime : EvalTime
  /-- `file:line` of the drawing call -/
  loc : String
  /-- `file:line` of the early-evaluated expression through which the draw is reached ("" = the draw itself) -/
  via : String := ""
  /-- enclosing function / class of the (early) expression -/
  scope : String := ""
  source : Source := .rngWrapper
  /-- dotted name of the callee, for the reader -/
  src : String := ""
  deriving Repr, Inhabited

/-- one function of spsdk/crypto/rng.py -/
structure Wrapper where
  name : String
  prim : String
  source : Source
  /-- every `return` of the function returns the result of a primitive call made right there -/
  everyReturnDraws : Bool
  deriving Repr, Inhabited

abbrev Token := Nat

/-- The RNG oracle: state = number of tokens handed out; the token returned is new. -/
def draw (n : Nat) : Token × Nat := (n, n + 1)

/-- value store of the early sites: `some t` = evaluated once with result `t`, `none` = per-call site -/
abbrev Env := List (Option Token)

/-- Process start: every early site is evaluated exactly once, in program order. -/
def boot : List Site → Nat → Env × Nat
  | [], n => ([], n)
  | s :: ss, n =>
    if s.evalTime = .perCall then
      let r := boot ss n
      (none :: r.1, r.2)
    else
      let d := draw n
      let r := boot ss d.2
      (some d.1 :: r.1, r.2)

/-- construction of one artifact: the sites (indices into the program) whose values it uses -/
abbrev Build := List Nat
abbrev History := List Build

/-- a self-chosen value observed in an artifact -/
structure Obs where
  art : Nat
  site : Nat
  tok : Token
  deriving DecidableEq, Repr, Inhabited

def runBuild (env : Env) (art : Nat) : Build → Nat → List Obs × Nat
  | [], n => ([], n)
  | i :: is, n =>
    match env[i]? with
    | none => runBuild env art is n                 -- not a site of this program
    | some (some t) =>                              -- early site: the stored value is used again
      let r := runBuild env art is n
      (⟨art, i, t⟩ :: r.1, r.2)
    | some none =>                                  -- per-call site: a new draw
      let d := draw n
      let r := runBuild env art is d.2
      (⟨art, i, d.1⟩ :: r.1, r.2)

def runFrom (env : Env) : Nat → History → Nat → List Obs
  | _, [], _ => []
  | art, b :: bs, n =>
    let r := runBuild env art b n
    r.1 ++ runFrom env (art + 1) bs r.2

/-- all self-chosen values of all artifacts of a history, in construction order -/
def run (P : List Site) (h : History) : List Obs :=
  let b := boot P 0
  runFrom b.1 0 h b.2

/-- The property: no self-chosen value occurs in two different artifacts. -/
def NoSharing (o : List Obs) : Prop :=
  ∀ a ∈ o, ∀ b ∈ o, a.art ≠ b.art → a.tok ≠ b.tok

/-- stronger: all self-chosen values are pairwise distinct (also inside one artifact: DEK ≠ MAC key) -/
def AllDistinct (o : List Obs) : Prop :=
  o.Pairwise (fun a b => a.tok ≠ b.tok)

/-- A component of an AES-CTR (key, nonce) pair: given by the user or chosen by SPSDK. -/
inductive Val where
  | user (b : List UInt8)
  | chosen (t : Token)
  deriving DecidableEq, Repr

def Val.isChosen : Val → Bool
  | .chosen _ => true
  | .user _ => false

/-- the (key, counter/nonce) pair an artifact feeds to AES-CTR -/
structure CtrUse where
  art : Nat
  key : Val
  nonce : Val
  deriving DecidableEq, Repr

/-- the self-chosen components of `u` are values observed in artifact `u.art` of the run `o` -/
def CtrUse.FromRun (o : List Obs) (u : CtrUse) : Prop :=
  (∀ t, u.key = .chosen t → ∃ x ∈ o, x.art = u.art ∧ x.tok = t) ∧
  (∀ t, u.nonce = .chosen t → ∃ x ∈ o, x.art = u.art ∧ x.tok = t)

end SpsdkVerif.Fresh
