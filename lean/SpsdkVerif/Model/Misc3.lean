/-
Phase-3 additions to the hand model of `spsdk/utils/misc.py`, `spsdk/sbfile/misc.py`, `spsdk/utils/spsdk_enum.py`
(Model/Misc.lean and Model/Misc2.lean stay untouched).

  * `reverse_bits` on arbitrary integers (negative / `x ≥ 2^bits_cnt`)
  * `format_value`
  * `value_to_bytes` on every source type, `extend_block` with an integer padding, `find_first`
  * `SpsdkSoftEnum` lookups (never fail: an unknown tag yields a synthetic `UNKNOWN` member)
  * `size_fmt` on integers (exact arithmetic; the implementation divides floats)
  * `BcdVersion3.from_str` / `__str__` at full strength (`str.split(".")`, validated component, base-16 value)
  * `SecBootBlckSize.align_block_fill_zeros`
  * the FILE branch of `load_hex_string` over an abstract file content

Constants (`Endianness` members, `size_fmt` tables, `BLOCK_SIZE`, `BcdVersion3.DEFAULT`) and the small integer slices
(`format_value` padding, `_num_from_str` length guard) are GENERATED from the source (Generated/Misc3Tables.lean, PyFuns3.lean).
Tied to /repo by the C20 correspondence streams `helpers3`, `bcd_version`, `load_hex_file` (harness/props/C20.py).
-/
import SpsdkVerif.Model.Misc2
import SpsdkVerif.Generated.PyFuns
import SpsdkVerif.Generated.PyFuns2
import SpsdkVerif.Generated.PyFuns3
import SpsdkVerif.Generated.Misc3Tables

namespace SpsdkVerif.Misc
open SpsdkVerif

/-! ### `reverse_bits(x, bits_cnt)` on arbitrary integers -/

/-- a negative `x` formats with a sign (`"-101"[::-1]` is no number) and a negative width is no format spec: `ValueError` -/
def reverseBitsI (x n : Int) : PyRes Nat :=
  if x < 0 ∨ n < 0 then .error .other else .ok (reverseBits x.toNat n.toNat)

/-! ### `format_value(value, size, delimiter, use_prefix)` -/

/-- digits of `v` in `base ≤ 16`, most significant first, lower case, `"0"` for 0; fuel `v` always suffices -/
def digitsF (base : Nat) : Nat → Nat → List Char → List Char
  | 0, _, acc => acc
  | f + 1, v, acc => if v < base then hexCh v :: acc else digitsF base f (v / base) (hexCh (v % base) :: acc)
def digitsOf (base v : Nat) : List Char := digitsF base (v + 1) v []

/-- `f"{…:0{w}…}"` -/
def zpad (w : Nat) (ds : List Char) : List Char := List.replicate (w - ds.length) '0' ++ ds

def chunks4F : Nat → List Char → List (List Char)
  | 0, _ => []
  | f + 1, l => if l.isEmpty then [] else l.take 4 :: chunks4F f (l.drop 4)

/-- groups of four counted from the RIGHT (`re.findall(".{1,4}", s[::-1])`, everything reversed back) -/
def groupsR (ds : List Char) : List (List Char) :=
  (if ds.length % 4 = 0 then [] else [ds.take (ds.length % 4)]) ++ chunks4F ds.length (ds.drop (ds.length % 4))

def joinWith (d : List Char) : List (List Char) → List Char
  | [] => []
  | [g] => g
  | g :: g' :: gs => g ++ d ++ joinWith d (g' :: gs)

/-- `padding` is the GENERATED slice of the function; a negative width is a `ValueError`.  The joined string is reversed
    as a whole, so a multi-character delimiter comes out reversed. -/
def formatValue (value size : Int) (delim : List Char) (usePrefix : Bool) : PyRes (List Char) :=
  match Generated.PyFuns3.formatValuePadding size with
  | .error e => .error e
  | .ok padding =>
    if padding < 0 then .error .other
    else
      let bin : Bool := size % 8 != 0
      let ds := zpad padding.toNat (digitsOf (if bin then 2 else 16) value.natAbs)
      .ok ((if value < 0 then ['-'] else []) ++ (if usePrefix then ['0', if bin then 'b' else 'x'] else [])
            ++ joinWith delim.reverse (groupsR ds))

/-! ### `value_to_bytes` on every source type -/

inductive ValSrc where
  | bytes (b : Bytes)
  | int (v : Int)
  | str (s : List Char)
  deriving Repr, DecidableEq

/-- bytes are returned unchanged (whatever `byte_cnt` says); a string goes through `value_to_int`; a NEGATIVE int is
    refused with an SPSDK error (fix 55a6c57; it never returned before).  `byte_cnt`: `None`/`0` = not given;
    a negative one is refused (SPSDK error) unless the value is 0, where `to_bytes(-n)` is a `ValueError`. -/
def valueToBytesAny (src : ValSrc) (a2n : Bool) (bc : Option Int) (little : Bool) : PyRes Bytes :=
  let ofNat (v : Nat) : PyRes Bytes :=
    let c := bc.getD 0
    if c < 0 then (if v = 0 then .error .other else .error .spsdk) else valueToBytes v a2n c.toNat little
  match src with
  | .bytes b => .ok b
  | .int v => if v < 0 then .error .spsdk else ofNat v.toNat
  | .str s => match valueToInt s with
    | none => .error .spsdk
    | some v => ofNat v

/-! ### `extend_block` with an integer padding value, `find_first` -/

/-- `bytes([padding])` is only evaluated when something has to be appended -/
def extendBlockI (d : Bytes) (len pad : Int) : PyRes Bytes :=
  match Generated.PyFuns2.extendBlockNumPadding d.length len pad with
  | .error e => .error e
  | .ok np =>
    if np = 0 then .ok d
    else if pad < 0 ∨ pad > 255 then .error .other
    else .ok (d ++ List.replicate np.toNat (UInt8.ofNat pad.toNat))

def findFirst {α} (l : List α) (p : α → Bool) : Option α := l.find? p

/-! ### `SpsdkSoftEnum` -/

/-- Python `str(int)` / `hex(int)` -/
def pyStrI (v : Int) : List Char := if v < 0 then '-' :: digitsOf 10 v.natAbs else digitsOf 10 v.toNat
def pyHexI (v : Int) : List Char := if v < 0 then '-' :: pyHex v.natAbs else pyHex v.toNat

/-- the synthetic member `UnknownEnum.UNKNOWN` -/
def softUnknownRow (cls : List Char) (t : Int) : EnumRow :=
  (t, cls ++ ":Unknown_".toList ++ pyHexI t,
   some ("This is non-existing tag(".toList ++ pyHexI t ++ ") from enum: ".toList ++ cls))

/-- `SpsdkSoftEnum.from_tag`: never fails -/
def softFromTag (E : List EnumRow) (cls : List Char) (t : Int) : EnumRow :=
  match fromTag E t with
  | .ok m => m
  | .error _ => softUnknownRow cls t

/-- `get_label` / `get_description` go through the class's own (soft) `from_tag`, so their `except SPSDKKeyError`
    fallbacks (`"Unknown (tag)"`) are never reached -/
def softGetLabel (E : List EnumRow) (cls : List Char) (t : Int) : List Char := (softFromTag E cls t).2.1

def softGetDescription (E : List EnumRow) (cls : List Char) (t : Int) (dflt : Option (List Char)) : Option (List Char) :=
  match (softFromTag E cls t).2.2 with
  | some d => if d.isEmpty then dflt else some d
  | none => dflt

/-- `contains(int)` of a soft enum: `from_attr` → soft `from_tag` never raises, so the answer is always `True` -/
def softContainsTag (_E : List EnumRow) (_t : Int) : Bool := true

/-! ### `size_fmt(num, use_kibibyte)` on integers -/

/-- `for i in units: if num < base: break; num /= base` on the exact quotient `n / base^k`:
    `(number of divisions, unit the loop variable ends with)`.  NOTE the last unit divides as well. -/
def sizeFmtLoop (base n : Nat) : List (List Char) → Nat → List Char → Nat × List Char
  | [], k, last => (k, last)
  | u :: us, k, _ => if n < base ^ (k + 1) then (k, u) else sizeFmtLoop base n us (k + 1) u

/-- nearest integer to `a / d`, ties to even (correctly rounded decimal conversion of an exact quotient) -/
def roundHalfEven (a d : Nat) : Nat :=
  if 2 * (a % d) > d then a / d + 1 else if 2 * (a % d) = d then a / d + (a / d) % 2 else a / d

def sizeFmtUnits (suffix : List Char) : List (List Char) :=
  ['B'] :: Generated.Misc3Tables.sizeFmtPrefixes.map (fun c => c :: suffix)

/-- exact-arithmetic model; equals the float implementation for `use_kibibyte=True` and `|num| < 2^53` (divisions by 1024 are exact) -/
def sizeFmt (n : Int) (kibi : Bool) : List Char :=
  match Generated.Misc3Tables.sizeFmtBases[if kibi then 1 else 0]? with
  | none => []
  | some (base, suffix) =>
    let r := sizeFmtLoop base n.toNat (sizeFmtUnits suffix) 0 ['B']
    if n < 0 ∨ r.2 == ['B'] then pyStrI n ++ " B".toList
    else
      let m := roundHalfEven (n.toNat * 10) (base ^ r.1)
      digitsOf 10 (m / 10) ++ '.' :: digitsOf 10 (m % 10) ++ ' ' :: r.2

/-! ### `BcdVersion3.from_str` / `__str__` -/

/-- `str.split(sep)` for a one-character separator -/
def splitOn (sep : Char) : List Char → List (List Char)
  | [] => [[]]
  | c :: cs =>
    if c == sep then [] :: splitOn sep cs
    else match splitOn sep cs with
      | g :: gs => (c :: g) :: gs
      | [] => [[c]]

/-- `_num_from_str` (after fix 619e9e1): generated length guard (1..4 characters), every character from the GENERATED
    alphabet of the `char not in "…"` test (hex digits of either case), then `int(text, 16)` — on such a text simply its
    base-16 value — and the generated `_check_number`.  Every refusal is an SPSDK error. -/
def hexTextValue (text : List Char) : Nat := text.foldl (fun acc c => acc * 16 + digitVal (lowerCh c)) 0

def bcdNumFromStr (text : List Char) : PyRes Nat :=
  match Generated.PyFuns3.bcdNumFromStrGuard text.length with
  | .error e => .error e
  | .ok _ =>
    if text.all (fun c => Generated.Misc3Tables.bcdNumAlphabet.contains c) then
      match Generated.PyFuns2.bcdCheckNumber (hexTextValue text : Nat) with
      | .error e => .error e
      | .ok _ => .ok (hexTextValue text)
    else .error .spsdk

/-- `BcdVersion3.from_str(text)` → `(major, minor, service)` -/
def bcdFromStr (text : List Char) : PyRes (Nat × Nat × Nat) :=
  match splitOn '.' text with
  | [a, b, c] =>
    (match bcdNumFromStr a with
     | .error e => .error e
     | .ok x => match bcdNumFromStr b with
       | .error e => .error e
       | .ok y => match bcdNumFromStr c with
         | .error e => .error e
         | .ok z => .ok (x, y, z))
  | _ => .error .spsdk

/-- `str(BcdVersion3(major, minor, service))` (the constructor only accepts valid BCD numbers) -/
def bcdStr (v : Nat × Nat × Nat) : List Char :=
  bcdToDigits v.1 ++ '.' :: bcdToDigits v.2.1 ++ '.' :: bcdToDigits v.2.2

/-! ### `SecBootBlckSize.align_block_fill_zeros` -/

def sbAlignBlockFillZeros (d : Bytes) : PyRes Bytes := alignBlock d Generated.Misc3Tables.sbBlockSize 0

/-! ### `load_hex_string`: the FILE branch

`file` is the raw content of the file that `find_file(source)` finds (`none`: no such file).  The file is read as UTF-8
text; the model covers ASCII content (decoded text = the bytes) and treats any byte ≥ 0x80 as "not text" — exact for
undecodable content, an approximation for valid non-ASCII UTF-8 (Unicode whitespace around a number; sampled by the
oracle only).  Universal-newline translation does not matter: `\r`, `\n` are whitespace either way. -/

def asciiText (b : Bytes) : Option (List Char) :=
  if b.all (fun x => x.toNat < 128) then some (b.map (fun x => Char.ofNat x.toNat)) else none

/-- text that denotes a number fitting `expected_size` bytes → that number big-endian on `expected_size` bytes
    (same call as the literal branch); anything else → the raw file content, which must have exactly `expected_size` bytes -/
def loadHexFile (content : Bytes) (n : Int) : PyRes (Option Bytes) :=
  let bin : PyRes (Option Bytes) := if (content.length : Int) = n then .ok (some content) else .error .spsdk
  match asciiText content with
  | none => bin
  | some t =>
    if t.isEmpty then bin
    else match loadHexString (.str t) n with
      | .ok r => .ok r
      | .error _ => bin

def loadHexStringFS (file : Option Bytes) (src : HexSrc) (n : Int) : PyRes (Option Bytes) :=
  match src, file with
  | .str s, some content => if s.isEmpty ∨ n < 1 then loadHexString src n else loadHexFile content n
  | _, _ => loadHexString src n

end SpsdkVerif.Misc
