/-
Field ORDER of the debug-authentication objects at their three sites (data to sign / export / parse), as list statements over
the tables `tools/extract/gen_C15.py` obtains separately for each site by running the current classes on distinctive values,
and what ties those tables to the hand-written parts of the model (EdgeLock v2 certificate head, response message);
`hash depends only on the key list`.  Helper file of Properties/C15.lean (Phase 3).  Core Lean only.
-/
import SpsdkVerif.Model.Dat
import SpsdkVerif.Model.DatV2
import SpsdkVerif.Proofs.Dat
import SpsdkVerif.Proofs.DatV2
namespace SpsdkVerif.Dat
open SpsdkVerif SpsdkVerif.Misc SpsdkVerif.Generated
open SpsdkVerif.Crypto (CryptoOps CryptoLaws SigAlg HashAlg PrivKey Rand)

/-- what `parse()` of the class reads, by offset (third table; `exportLayout` / `signLayout` are the other two) -/
def parseLayout : Cls → List (DatFld × DatArg)
  | .rsa => DatConsts.rsaParse | .ecc => DatConsts.eccParse | .ele => DatConsts.eleParse

/-- the attributes a layout packs / reads, in order -/
def argsOf (l : List (DatFld × DatArg)) : List DatArg := l.map (·.2)

/-- every attribute of a credential object except the signature (`rot_pub` is not a field of its own in the EdgeLock class:
    the key is inside the SRK table of the RoT meta) -/
def dcAttrs : Cls → List DatArg
  | .ele => [.major, .minor, .socc, .uuid, .rotMeta, .dck, .ccSocu, .ccVu, .beacon]
  | _ => [.major, .minor, .socc, .uuid, .rotMeta, .dck, .ccSocu, .ccVu, .beacon, .rotPub]

theorem order_v1 (c : Cls) :
    exportLayout c = signLayout c ++ [sigField c] ∧ (sigField c).2 = .sig ∧
    argsOf (parseLayout c) = argsOf (exportLayout c) ∧
    (argsOf (parseLayout c)).take (signLayout c).length = argsOf (signLayout c) ∧
    (argsOf (signLayout c)).Nodup ∧ (∀ a ∈ dcAttrs c, a ∈ argsOf (signLayout c)) ∧ DatArg.sig ∉ argsOf (signLayout c) ∧
    (argsOf (signLayout c)).length = (dcAttrs c).length := by
  cases c <;> decide

/-! ### EdgeLock v2 (AHAB certificate) -/
section V2
open SpsdkVerif.DatV2

/-- bytes of one field of the certificate, by its generated (struct code, role) -/
def certFieldBytes (c : Cert) : CertW × CertRole → Bytes
  | (.u8, .version) => [UInt8.ofNat AhabConsts.certificateVersion]
  | (.u16, .length) => leEnc 2 c.length
  | (.u8, .tag) => [UInt8.ofNat AhabConsts.certificateTag]
  | (.u16, .sigOffset) => leEnc 2 c.sigOffset
  | (.u8, .invPerm) => [UInt8.ofNat (255 - c.permissions)]
  | (.u8, .perm) => [UInt8.ofNat c.permissions]
  | (.bytes n, .permData) => fitS n c.permData
  | (.u8, .fuse) => [UInt8.ofNat c.fuseVersion]
  | (.u8, .reserved) => [0]
  | (.u16, .reserved) => leEnc 2 0
  | (.bytes n, .uuid) => fitS n c.uuid
  /- the key block is one opaque string in the model: record ‖ data -/
  | (.raw, .keyRecord) => c.key0
  | (.raw, .keyData) => []
  | (.raw, .sig0) => match sigContainer c.sig0 with | .ok s => s | .error _ => []
  | _ => []

theorem order_v2 :
    DatConsts.certExportFields = DatConsts.certSignFields ++ [(.raw, .sig0)] ∧
    DatConsts.certParseFields.map (·.1) = DatConsts.certExportFields.map (·.1) ∧
    (∀ p ∈ DatConsts.certParseFields.zip DatConsts.certExportFields, p.1.2 = .dropped ∨ p.1.2 = p.2.2) ∧
    (DatConsts.certSignFields.map (·.2)).eraseDups.length + 1 = (DatConsts.certSignFields.map (·.2)).length ∧
    (∀ r ∈ [CertRole.version, .length, .tag, .sigOffset, .invPerm, .perm, .permData, .fuse, .uuid, .keyRecord, .keyData],
      r ∈ DatConsts.certSignFields.map (·.2)) ∧
    CertRole.sig0 ∉ DatConsts.certSignFields.map (·.2) ∧
    (∀ r ∈ [CertRole.length, .sigOffset, .perm, .permData, .fuse, .uuid, .keyRecord, .keyData, .sig0],
      r ∈ DatConsts.certParseFields.map (·.2)) := by
  decide

/-- the model's signed data / export are the generated tables, field by field (the hand-written `certHead` cannot drift from the
    order the source packs) -/
theorem signedData_follows_table (c : Cert) (d : Bytes) (h : signedData c = .ok d) :
    d = DatConsts.certSignFields.flatMap (certFieldBytes c) := by
  unfold signedData at h
  split at h
  · rename_i hd hh
    injection h with h
    subst h
    unfold certHead at hh
    split at hh
    · cases hh
    · split at hh
      · injection hh with hh
        subst hh
        simp [DatConsts.certSignFields, certFieldBytes, DatConsts.certPermDataSize, DatConsts.certUuidSize]
      · cases hh
  · cases h

theorem exportCert_follows_table (c : Cert) (b : Bytes) (h : exportCert c = .ok b) :
    b = DatConsts.certExportFields.flatMap (certFieldBytes c) ∧
    ∃ d, signedData c = .ok d ∧ d = DatConsts.certSignFields.flatMap (certFieldBytes c) ∧ d <+: b := by
  unfold exportCert at h
  split at h
  · rename_i d s hd hs
    split at h
    · cases h
    · injection h with h
      subst h
      have hd' := signedData_follows_table c d hd
      refine ⟨?_, d, hd, hd', List.prefix_append _ _⟩
      rw [order_v2.1, List.flatMap_append, ← hd']
      simp [certFieldBytes, hs]
  · cases h
  · cases h

/-- the widths `readHead` steps over are those of the parse table (the two reserved fields are skipped together) -/
theorem readHead_widths :
    (DatConsts.certParseFields.take 11).map (·.1) =
      [.u8, .u16, .u8, .u16, .u8, .u8, .bytes DatConsts.certPermDataSize, .u8, .u8, .u16, .bytes DatConsts.certUuidSize] ∧
    (DatConsts.certParseFields.take 11).map (·.2) =
      [.dropped, .length, .dropped, .sigOffset, .dropped, .perm, .permData, .fuse, .dropped, .dropped, .uuid] ∧
    (DatConsts.certParseFields.drop 11).map (·.2) = [.keyRecord, .keyData, .sig0] := by decide

end V2

/-! ### responses -/

/-- a response layout with the `common data` placeholder replaced by the common layout of the class -/
def darFlat (usesEcc : Bool) (l : List (DatFld × DatArg)) : List (DatFld × DatArg) :=
  l.flatMap fun f => if f = (.raw, .skip) then darCommonLayout usesEcc else [f]

def darSignedFields (usesEcc : Bool) : List (DatFld × DatArg) := darFlat usesEcc DatConsts.darSignLayout
def darExportedFields (usesEcc : Bool) : List (DatFld × DatArg) := darFlat usesEcc DatConsts.darExportLayout

/-- bytes of one response field (`darFieldBytes` + the two trailing fields) -/
def darFieldBytesX (r : DAR) (sig : Bytes) (f : DatFld × DatArg) : Bytes :=
  if f = (.raw, .dacChallenge) then r.challenge else if f = (.raw, .signature) then sig else darFieldBytes r f

theorem order_dar (u : Bool) :
    darSignedFields u = darCommonLayout u ++ [(.raw, .dacChallenge)] ∧
    darExportedFields u = darCommonLayout u ++ [(.raw, .signature)] ∧
    (darExportedFields u).dropLast = (darSignedFields u).dropLast ∧
    (darCommonLayout u).head? = some (.raw, .dcExport) ∧
    (argsOf (darSignedFields u)).Nodup ∧
    ((DatArg.dacUuid ∈ argsOf (darSignedFields u)) ↔ u = true) ∧
    DatArg.authBeacon ∈ argsOf (darSignedFields u) ∧ DatArg.dacChallenge ∈ argsOf (darSignedFields u) ∧
    DatArg.signature ∉ argsOf (darSignedFields u) := by
  cases u <;> decide

theorem darMsg_follows_table (r : DAR) (m : Bytes) (h : darMsg r = .ok m) (sig : Bytes) :
    m = (darSignedFields r.usesEcc).flatMap (darFieldBytesX r sig) := by
  unfold darMsg at h
  split at h
  · split at h
    · rename_i b hb
      injection h with h
      subst h
      unfold darCommon at hb
      split at hb
      · cases hb
      · dsimp only at hb
        split at hb
        · injection hb with hb
          subst hb
          rw [(order_dar r.usesEcc).1]
          cases hu : r.usesEcc <;>
            simp [darCommonLayout, DatConsts.darCommonBase, DatConsts.darCommonEcc, darFieldBytesX]
        · cases hb
    · cases h
  · cases h

/-! ### EdgeLock v2 response: payload of the signed message (`MessageDat`) -/

/-- `MessageDat.export_payload()`: the first 32 bytes of the challenge vector ‖ authentication beacon on two bytes
    (`int.to_bytes(2)`: OverflowError above 65535) -/
def datPayload (challenge : Bytes) (beacon : Nat) : PyRes Bytes :=
  if beacon < 65536 then .ok (challenge.take 32 ++ leEnc 2 beacon) else .error .other

/-- `MessageDat.parse_payload()` -/
def datPayloadParse (d : Bytes) : Bytes × Nat := (d.take 32, leDec ((d.drop 32).take 2))

/-- the payload written field by field from a layout table -/
def datFieldBytes (challenge : Bytes) (beacon : Nat) : DatFld × DatArg → Bytes
  | (.bytes (.fixed n), .dacChallenge) => challenge.take n
  | (.u16, .authBeacon) => leEnc 2 beacon
  | _ => []

theorem order_datmsg :
    DatConsts.datMsgExport = [(.bytes (.fixed 32), .dacChallenge), (.u16, .authBeacon)] ∧
    DatConsts.datMsgParse = DatConsts.datMsgExport ∧ DatConsts.datMsgPayloadLen = 34 := by decide

theorem datPayload_follows_table (ch : Bytes) (b : Nat) (p : Bytes) (h : datPayload ch b = .ok p) :
    p = DatConsts.datMsgExport.flatMap (datFieldBytes ch b) := by
  unfold datPayload at h
  split at h
  · injection h with h; subst h; simp [DatConsts.datMsgExport, datFieldBytes]
  · cases h

theorem datPayload_roundtrip (ch : Bytes) (b : Nat) (hc : ch.length = 32) (hb : b < 65536) :
    ∃ p, datPayload ch b = .ok p ∧ p.length = DatConsts.datMsgPayloadLen ∧ ∀ t, datPayloadParse (p ++ t) = (ch, b) := by
  have ht : ch.take 32 = ch := by rw [← hc]; exact List.take_length
  refine ⟨ch ++ leEnc 2 b, by simp [datPayload, hb, ht], by simp [leEnc_length, hc, DatConsts.datMsgPayloadLen], ?_⟩
  intro t
  have h1 : (ch ++ leEnc 2 b ++ t).take 32 = ch := by rw [List.append_assoc, List.take_left' hc]
  have h2 : (ch ++ leEnc 2 b ++ t).drop 32 = leEnc 2 b ++ t := by rw [List.append_assoc, List.drop_left' hc]
  simp only [datPayloadParse, h1, h2, List.take_left' (leEnc_length 2 b), leDec_leEnc2 b hb]

theorem datPayload_inj (c₁ c₂ : Bytes) (b₁ b₂ : Nat) (h₁ : c₁.length = 32) (h₂ : c₂.length = 32) (p : Bytes)
    (e₁ : datPayload c₁ b₁ = .ok p) (e₂ : datPayload c₂ b₂ = .ok p) : c₁ = c₂ ∧ b₁ = b₂ := by
  have hb₁ : b₁ < 65536 := by
    unfold datPayload at e₁; split at e₁
    · assumption
    · cases e₁
  have hb₂ : b₂ < 65536 := by
    unfold datPayload at e₂; split at e₂
    · assumption
    · cases e₂
  obtain ⟨p₁, q₁, _, r₁⟩ := datPayload_roundtrip c₁ b₁ h₁ hb₁
  obtain ⟨p₂, q₂, _, r₂⟩ := datPayload_roundtrip c₂ b₂ h₂ hb₂
  have e1 : p₁ = p := Except.ok.inj (q₁.symm.trans e₁)
  have e2 : p₂ = p := Except.ok.inj (q₂.symm.trans e₂)
  subst e1
  subst e2
  have := (r₁ []).symm.trans (r₂ [])
  exact ⟨congrArg Prod.fst this, congrArg Prod.snd this⟩

/-! ### DAC -/
theorem order_dac :
    argsOf DatConsts.dacExport = argsOf DatConsts.dacParseLayout ∧ (argsOf DatConsts.dacExport).Nodup ∧
    argsOf DatConsts.dacExport = [.major, .minor, .socc, .uuid, .revocation, .rkthHash, .socPinned, .socDefault, .ccVu, .challenge] ∧
    DatConsts.dacParseLayout.getLast? = some (.bytes (.fixed 32), .challenge) := by decide

/-! ### RoT hash: a function of the key list -/

/-- hash algorithm `RotMetaEcc.load_from_config` derives from the first key -/
def eccAlgOf : List Bytes → Option HashAlg
  | [] => none
  | k0 :: _ => (eccHashBits (k0.length / 2)).bind hashOfBits

theorem eccMeta_ok (c : CryptoOps) (ks : List Bytes) (u : Nat) (m : RotMeta) (h : eccMetaOfKeys c ks u = .ok m) :
    ∃ a, eccAlgOf ks = some a ∧ u < ks.length ∧
      m = .ecc u ks.length (if ks.length > 1 then ks.map (c.hash a) else []) := by
  unfold eccMetaOfKeys at h
  cases ks with
  | nil => cases h
  | cons k0 r =>
    dsimp only at h
    split at h
    · cases h
    · split at h
      · cases h
      · rename_i bits hb
        split at h
        · cases h
        · rename_i a ha
          split at h
          · rename_i hv
            injection h with h
            refine ⟨a, by simp [eccAlgOf, hb, ha], ?_, h.symm⟩
            simp only [flagsValid, Bool.and_eq_true, decide_eq_true_eq] at hv
            exact hv.1
          · cases h

theorem hash_size_pos (a : HashAlg) : 0 < a.size := by cases a <;> decide

theorem rot_hash_only_keys_ecc (c : CryptoOps) (hl : CryptoLaws c) (ks : List Bytes) (u₁ u₂ : Nat) (d₁ d₂ : DC)
    (hc₁ : d₁.cls = .ecc) (hc₂ : d₂.cls = .ecc)
    (hm₁ : eccMetaOfKeys c ks u₁ = .ok d₁.rotMeta) (hm₂ : eccMetaOfKeys c ks u₂ = .ok d₂.rotMeta)
    (hp₁ : ks[u₁]? = some d₁.rotPub) (hp₂ : ks[u₂]? = some d₂.rotPub) :
    calculateHash c d₁ = calculateHash c d₂ := by
  obtain ⟨a₁, ha₁, hu₁, e₁⟩ := eccMeta_ok c ks u₁ _ hm₁
  obtain ⟨a₂, ha₂, hu₂, e₂⟩ := eccMeta_ok c ks u₂ _ hm₂
  have ha : a₁ = a₂ := by rw [ha₁] at ha₂; exact Option.some.inj ha₂
  subst ha
  by_cases hgt : ks.length > 1
  · simp only [hgt, if_true] at e₁ e₂
    have hne : (crtkTable (ks.map (c.hash a₁))).isEmpty = false := by
      have hlen : (ks.map (c.hash a₁)).flatten.length = ks.length * a₁.size :=
        flatten_length_const ks (c.hash a₁) a₁.size (fun x _ => hl.hash_len a₁ x)
      have hpos : 0 < ks.length * a₁.size := Nat.mul_pos (by omega) (hash_size_pos a₁)
      simp only [crtkTable, List.length_map, hgt, if_true]
      rw [List.isEmpty_eq_false_iff, ← List.length_pos_iff, hlen]
      exact hpos
    simp only [calculateHash, hc₁, hc₂, e₁, e₂, hne, Bool.false_eq_true, if_false]
  · have h1 : ks.length = 1 := by omega
    have z₁ : u₁ = 0 := by omega
    have z₂ : u₂ = 0 := by omega
    subst z₁ z₂
    have hp : d₁.rotPub = d₂.rotPub := Option.some.inj (hp₁.symm.trans hp₂)
    simp only [hgt, if_false] at e₁ e₂
    simp only [calculateHash, hc₁, hc₂, e₁, e₂, hp]

end SpsdkVerif.Dat
