/- C07 helper lemmas, part 7: the ROM-side reader reads the commands of an exported CSF. -/
import SpsdkVerif.Proofs.HabRomBase

namespace SpsdkVerif.Hab
open SpsdkVerif SpsdkVerif.Misc SpsdkVerif.Generated
open SpsdkVerif.Spec
open SpsdkVerif.Spec.HabRom (bindE chk sub rdN u8at u16be u32be u32le RCmd)

/-- a slice inside the middle part of `pre ++ mid ++ post` -/
theorem slice_in_mid (pre mid post : Bytes) (o n : Nat) (h : o + n ≤ mid.length) :
    slice (pre ++ mid ++ post) (pre.length + o) n = slice mid o n := by
  rw [List.append_assoc, slice_append_right _ _ _ _ (by omega), Nat.add_sub_cancel_left,
    slice_append_left _ _ _ _ h]

theorem u8at_mid (pre mid post : Bytes) (o v : Nat) (hv : v < 256) (h : slice mid o 1 = [u8 v]) (ho : o + 1 ≤ mid.length) :
    u8at (pre ++ mid ++ post) (pre.length + o) = .ok v :=
  u8at_of_slice _ _ _ hv (by rw [slice_in_mid _ _ _ _ _ ho]; exact h)

theorem u16be_mid (pre mid post : Bytes) (o v : Nat) (hv : v < 65536) (h : slice mid o 2 = be16 v) (ho : o + 2 ≤ mid.length) :
    u16be (pre ++ mid ++ post) (pre.length + o) = .ok v :=
  u16be_of_slice _ _ _ hv (by rw [slice_in_mid _ _ _ _ _ ho]; exact h)

theorem u32be_mid (pre mid post : Bytes) (o v : Nat) (hv : v < 2 ^ 32) (h : slice mid o 4 = be32 v) (ho : o + 4 ≤ mid.length) :
    u32be (pre ++ mid ++ post) (pre.length + o) = .ok v :=
  u32be_of_slice _ _ _ hv (by rw [slice_in_mid _ _ _ _ _ ho]; exact h)

/-- the first eight bytes of a command with a 4-byte header and four byte fields -/
theorem cmd8 (t l p a b c d : Nat) (rest : Bytes) :
    hdr t l p ++ [u8 a, u8 b, u8 c, u8 d] ++ rest =
      u8 t :: u8 (l / 256 % 256) :: u8 (l % 256) :: u8 p :: u8 a :: u8 b :: u8 c :: u8 d :: rest := by
  simp [hdr, be16_eq]

theorem hdr4 (t l p : Nat) (rest : Bytes) :
    hdr t l p ++ rest = u8 t :: u8 (l / 256 % 256) :: u8 (l % 256) :: u8 p :: rest := by
  simp [hdr, be16_eq]

theorem be16_two (l : Nat) : [u8 (l / 256 % 256), u8 (l % 256)] = be16 l := (be16_eq l).symm

def cmdTag : Cmd → Nat
  | .insKey .. => 0xBE | .autDat .. => 0xCA | .set .. => 0xB1 | .unlock .. => 0xB2 | .nop _ => 0xC0
def cmdPar : Cmd → Nat
  | .insKey fl .. => fl | .autDat fl .. => fl | .set itm .. => itm | .unlock e .. => e | .nop p => p

theorem cmdPar_lt (c : Cmd) (hw : c.WF) : cmdPar c < 256 := by
  cases c with
  | insKey => exact hw.1
  | autDat => exact hw.1
  | set => exact hw.1
  | unlock => exact hw.1
  | nop => exact hw

theorem size_lt (c : Cmd) (hw : c.WF) : c.size < 65536 := by
  cases c with
  | insKey => simp [Cmd.size]
  | autDat fl key sf eng cfg loc bl => have := hw.2.2.2.2.2.2.1; simp [Cmd.size]; omega
  | set => simp [Cmd.size]
  | unlock => simp only [Cmd.size]; split <;> decide
  | nop => simp [Cmd.size]

/-- every command starts with its header -/
theorem encode_hdr (c : Cmd) : ∃ rest, c.encode = hdr (cmdTag c) c.size (cmdPar c) ++ rest := by
  cases c with
  | insKey fl cf alg src tgt loc => exact ⟨[u8 cf, u8 alg, u8 src, u8 tgt] ++ be32 loc, by simp [Cmd.encode, Cmd.size, cmdTag, cmdPar, Hab.Spec.cmdINS_KEY]⟩
  | autDat fl key sf eng cfg loc bl =>
    exact ⟨[u8 key, u8 sf, u8 eng, u8 cfg] ++ be32 loc ++ encBlocks bl, by simp [Cmd.encode, Cmd.size, cmdTag, cmdPar, Hab.Spec.cmdAUT_DAT]⟩
  | set itm alg eng cfg => exact ⟨[0, u8 alg, u8 eng, u8 cfg], by simp [Cmd.encode, Cmd.size, cmdTag, cmdPar, Hab.Spec.cmdSET]⟩
  | unlock e f uid => exact ⟨be32 f ++ (if needUid e f then be64 uid else []), by simp [Cmd.encode, Cmd.size, cmdTag, cmdPar, Hab.Spec.cmdUNLK]⟩
  | nop p => exact ⟨[], by simp [Cmd.encode, Cmd.size, cmdTag, cmdPar, Hab.Spec.cmdNOP]⟩

theorem cmdTag_lt (c : Cmd) : cmdTag c < 256 := by cases c <;> simp [cmdTag]

/-- header reads of any command -/
theorem cmd_header_reads (c : Cmd) (hw : c.WF) (pre post : Bytes) :
    u8at (pre ++ c.encode ++ post) pre.length = .ok (cmdTag c) ∧
    u16be (pre ++ c.encode ++ post) (pre.length + 1) = .ok c.size ∧
    u8at (pre ++ c.encode ++ post) (pre.length + 3) = .ok (cmdPar c) := by
  obtain ⟨rest, e⟩ := encode_hdr c
  have e' := hdr4 (cmdTag c) c.size (cmdPar c) rest
  rw [e]
  refine ⟨?_, ?_, ?_⟩
  · have := u8at_mid pre (hdr (cmdTag c) c.size (cmdPar c) ++ rest) post 0 _ (cmdTag_lt c) (by rw [e']; rfl) (by simp <;> omega)
    simpa using this
  · exact u16be_mid pre _ post 1 _ (size_lt c hw) (by rw [e', ← be16_two]; rfl) (by simp <;> omega)
  · exact u8at_mid pre _ post 3 _ (cmdPar_lt c hw) (by rw [e']; rfl) (by simp <;> omega)

theorem readBlocks_enc (bl : List (Nat × Nat)) (pre post : Bytes) (hb : ∀ p ∈ bl, p.1 < 2 ^ 32 ∧ p.2 < 2 ^ 32) :
    HabRom.readBlocks (pre ++ encBlocks bl ++ post) bl.length pre.length = .ok bl := by
  induction bl generalizing pre with
  | nil => rfl
  | cons x r ih =>
    obtain ⟨a, s⟩ := x
    have ha := (hb (a, s) (by simp)).1
    have hs := (hb (a, s) (by simp)).2
    have e1 : u32be (pre ++ encBlocks ((a, s) :: r) ++ post) pre.length = .ok a := by
      have := u32be_mid pre (encBlocks ((a, s) :: r)) post 0 a ha
        (by simp only [encBlocks, List.append_assoc]
            have := slice_append_mid' [] (be32 a) (be32 s ++ encBlocks r) 0 4 rfl (by simp)
            simpa using this)
        (by simp [encBlocks] <;> omega)
      simpa using this
    have e2 : u32be (pre ++ encBlocks ((a, s) :: r) ++ post) (pre.length + 4) = .ok s := by
      exact u32be_mid pre (encBlocks ((a, s) :: r)) post 4 s hs
        (by simp only [encBlocks]; exact slice_append_mid' (be32 a) (be32 s) (encBlocks r) 4 4 (by simp) (by simp))
        (by simp [encBlocks] <;> omega)
    have e3 : pre ++ encBlocks ((a, s) :: r) ++ post = (pre ++ be32 a ++ be32 s) ++ encBlocks r ++ post := by
      simp [encBlocks, List.append_assoc]
    have ih' := ih (pre ++ be32 a ++ be32 s) (fun p hp => hb p (by simp [hp]))
    have hl : (pre ++ be32 a ++ be32 s).length = pre.length + 8 := by simp <;> omega
    rw [hl, ← e3] at ih'
    simp only [List.length_cons, HabRom.readBlocks, e1, e2, bindE_ok, ih']

theorem slice8 (a b c d e f g h : UInt8) (r : Bytes) (n : Nat) :
    slice (a :: b :: c :: d :: e :: f :: g :: h :: r) 8 n = r.take n := rfl

/-- the reader decodes a well-formed command (header fields already read) -/
theorem readCmd_encode (c : Cmd) (hw : c.WF) (pre post : Bytes) :
    HabRom.readCmd (pre ++ c.encode ++ post) pre.length (cmdTag c) c.size (cmdPar c) = .ok (toR c) := by
  cases c with
  | insKey fl cf alg src tgt loc =>
    obtain ⟨h1, h2, h3, h4, h5, h6⟩ := hw
    have e : (Cmd.insKey fl cf alg src tgt loc).encode =
        u8 Hab.Spec.cmdINS_KEY :: u8 (12 / 256 % 256) :: u8 (12 % 256) :: u8 fl :: u8 cf :: u8 alg :: u8 src :: u8 tgt :: be32 loc := by
      simp only [Cmd.encode]; exact cmd8 _ _ _ _ _ _ _ _
    have r4 := u8at_mid pre (Cmd.insKey fl cf alg src tgt loc).encode post 4 cf h2 (by rw [e]; rfl) (by rw [e]; simp <;> omega)
    have r5 := u8at_mid pre (Cmd.insKey fl cf alg src tgt loc).encode post 5 alg h3 (by rw [e]; rfl) (by rw [e]; simp <;> omega)
    have r6 := u8at_mid pre (Cmd.insKey fl cf alg src tgt loc).encode post 6 src h4 (by rw [e]; rfl) (by rw [e]; simp <;> omega)
    have r7 := u8at_mid pre (Cmd.insKey fl cf alg src tgt loc).encode post 7 tgt h5 (by rw [e]; rfl) (by rw [e]; simp <;> omega)
    have r8 := u32be_mid pre (Cmd.insKey fl cf alg src tgt loc).encode post 8 loc h6 (by rw [e, slice8]; exact List.take_of_length_le (by simp)) (by rw [e]; simp)
    simp only [HabRom.readCmd, cmdTag, cmdPar, Cmd.size, ↓reduceIte, r4, r5, r6, r7, r8, bindE_ok, toR]
    exact chk_of _ _ _ (by decide)
  | autDat fl key sf eng cfg loc bl =>
    obtain ⟨h1, h2, h3, h4, h5, h6, h7, h8⟩ := hw
    have e : (Cmd.autDat fl key sf eng cfg loc bl).encode =
        u8 Hab.Spec.cmdAUT_DAT :: u8 ((12 + 8 * bl.length) / 256 % 256) :: u8 ((12 + 8 * bl.length) % 256) :: u8 fl ::
          u8 key :: u8 sf :: u8 eng :: u8 cfg :: (be32 loc ++ encBlocks bl) := by
      simp only [Cmd.encode, List.append_assoc]
      have := cmd8 Hab.Spec.cmdAUT_DAT (12 + 8 * bl.length) fl key sf eng cfg (be32 loc ++ encBlocks bl)
      simpa [List.append_assoc] using this
    have r4 := u8at_mid pre (Cmd.autDat fl key sf eng cfg loc bl).encode post 4 key h2 (by rw [e]; rfl) (by rw [e]; simp <;> omega)
    have r5 := u8at_mid pre (Cmd.autDat fl key sf eng cfg loc bl).encode post 5 sf h3 (by rw [e]; rfl) (by rw [e]; simp <;> omega)
    have r6 := u8at_mid pre (Cmd.autDat fl key sf eng cfg loc bl).encode post 6 eng h4 (by rw [e]; rfl) (by rw [e]; simp <;> omega)
    have r7 := u8at_mid pre (Cmd.autDat fl key sf eng cfg loc bl).encode post 7 cfg h5 (by rw [e]; rfl) (by rw [e]; simp <;> omega)
    have r8 := u32be_mid pre (Cmd.autDat fl key sf eng cfg loc bl).encode post 8 loc h6
      (by rw [e, slice8]; exact List.take_append_of_le_length (by simp) |>.trans (List.take_of_length_le (by simp)))
      (by rw [e]; simp <;> omega)
    have e12 : pre ++ (Cmd.autDat fl key sf eng cfg loc bl).encode ++ post =
        (pre ++ (hdr Hab.Spec.cmdAUT_DAT (12 + 8 * bl.length) fl ++ [u8 key, u8 sf, u8 eng, u8 cfg] ++ be32 loc)) ++ encBlocks bl ++ post := by
      simp [Cmd.encode, List.append_assoc]
    have rb := readBlocks_enc bl (pre ++ (hdr Hab.Spec.cmdAUT_DAT (12 + 8 * bl.length) fl ++ [u8 key, u8 sf, u8 eng, u8 cfg] ++ be32 loc)) post h8
    have hl : (pre ++ (hdr Hab.Spec.cmdAUT_DAT (12 + 8 * bl.length) fl ++ [u8 key, u8 sf, u8 eng, u8 cfg] ++ be32 loc)).length = pre.length + 12 := by
      simp <;> omega
    rw [hl, ← e12] at rb
    have hn : (12 + 8 * bl.length - 12) / 8 = bl.length := by omega
    have hc : (decide (12 ≤ 12 + 8 * bl.length) && (12 + 8 * bl.length - 12) % 8 == 0) = true := by
      simp
    simp only [HabRom.readCmd, cmdTag, cmdPar, Cmd.size, ↓reduceIte, r4, r5, r6, r7, r8, bindE_ok, toR, hn, rb]
    exact chk_of _ _ _ hc
  | set itm alg eng cfg => rfl
  | unlock e f uid => rfl
  | nop p => rfl


/-- the reader walks over a list of encoded commands -/
theorem readCmds_encCmds (l : List CsfCmd) (fuel : Nat) (pre post : Bytes) (hw : ∀ c ∈ l, c.cmd.WF)
    (hf : l.length ≤ fuel) :
    HabRom.readCmds (pre ++ encCmds l ++ post) fuel pre.length (pre.length + cmdsSize l) = .ok (l.map (fun c => toR c.cmd)) := by
  induction l generalizing fuel pre with
  | nil =>
    cases fuel with
    | zero => rfl
    | succ f => simp [HabRom.readCmds, cmdsSize]
  | cons c r ih =>
    cases fuel with
    | zero => simp at hf
    | succ f =>
      have hwc := hw c (by simp)
      have hsz := Cmd.size_ge c.cmd
      have e : pre ++ encCmds (c :: r) ++ post = pre ++ c.cmd.encode ++ (encCmds r ++ post) := by
        simp [encCmds, List.append_assoc]
      obtain ⟨r1, r2, r3⟩ := cmd_header_reads c.cmd hwc pre (encCmds r ++ post)
      have rc := readCmd_encode c.cmd hwc pre (encCmds r ++ post)
      have hnot : ¬ pre.length ≥ pre.length + cmdsSize (c :: r) := by simp [cmdsSize]; omega
      have hsize4 : c.cmd.size % 4 = 0 := by
        cases c.cmd with
        | insKey => simp [Cmd.size]
        | autDat fl key sf eng cfg loc bl => simp [Cmd.size]; omega
        | set => simp [Cmd.size]
        | unlock e f uid => simp only [Cmd.size]; split <;> decide
        | nop => simp [Cmd.size]
      have hchk : (decide (4 ≤ c.cmd.size) && c.cmd.size % 4 == 0 &&
          decide (pre.length + c.cmd.size ≤ pre.length + cmdsSize (c :: r))) = true := by
        simp [cmdsSize, hsize4]; omega
      have e2 : pre ++ c.cmd.encode ++ (encCmds r ++ post) = (pre ++ c.cmd.encode) ++ encCmds r ++ post := by
        simp [List.append_assoc]
      have ih' := ih f (pre ++ c.cmd.encode) (fun x hx => hw x (by simp [hx])) (by simp at hf; omega)
      have hl : (pre ++ c.cmd.encode).length = pre.length + c.cmd.size := by simp [encode_length]
      have hst : pre.length + c.cmd.size + cmdsSize r = pre.length + cmdsSize (c :: r) := by simp [cmdsSize]; omega
      rw [hl, hst, ← e2] at ih'
      rw [e]
      unfold HabRom.readCmds
      rw [if_neg hnot, r1, bindE_ok, r2, bindE_ok, r3, bindE_ok, chk_of _ _ _ hchk, rc, bindE_ok, ih', bindE_ok]
      rfl

/-- header of the exported CSF as the reader sees it -/
theorem csf_header_read (version : Nat) (cmds : List CsfCmd) (h : CsfWF version cmds) :
    u8at (csfBytes version cmds) 0 = .ok 0xD4 ∧ u16be (csfBytes version cmds) 1 = .ok (csfHdrLen cmds) ∧
    u8at (csfBytes version cmds) 3 = .ok version := by
  obtain ⟨hv, _, hfit⟩ := h
  have hlen : csfHdrLen cmds < 65536 := by
    have := csfBase_length version cmds
    have e : HabConsts.csfSize = 8192 := rfl
    simp only [List.length_append] at hfit
    omega
  have e : csfBytes version cmds = [] ++ (hdr Hab.Spec.tagCSF (csfHdrLen cmds) version ++
      (encCmds (assignLocs (csfHdrLen cmds) cmds) ++ encData cmds)) ++
      zeros (alignUp (csfBase version cmds ++ encData cmds).length HabConsts.csfSize - (csfBase version cmds ++ encData cmds).length) := by
    simp [csfBytes, padAlign, csfBase, List.append_assoc]
  rw [e]
  generalize (encCmds (assignLocs (csfHdrLen cmds) cmds) ++ encData cmds) = R
  generalize zeros (alignUp (csfBase version cmds ++ encData cmds).length HabConsts.csfSize - (csfBase version cmds ++ encData cmds).length) = Z
  have e' := hdr4 Hab.Spec.tagCSF (csfHdrLen cmds) version R
  refine ⟨?_, ?_, ?_⟩
  · have := u8at_mid [] (hdr Hab.Spec.tagCSF (csfHdrLen cmds) version ++ R) Z 0 Hab.Spec.tagCSF (by decide) (by rw [e']; rfl) (by simp <;> omega)
    have e4 : (Except.ok Hab.Spec.tagCSF : Except String Nat) = .ok 212 := rfl
    rw [e4] at this
    simpa using this
  · have := u16be_mid [] (hdr Hab.Spec.tagCSF (csfHdrLen cmds) version ++ R) Z 1 (csfHdrLen cmds) hlen (by rw [e', ← be16_two]; rfl) (by simp <;> omega)
    simpa using this
  · have := u8at_mid [] (hdr Hab.Spec.tagCSF (csfHdrLen cmds) version ++ R) Z 3 version hv (by rw [e']; rfl) (by simp <;> omega)
    simpa using this

/-- the reader's command list of an exported CSF = the model's commands (data references assigned), translated -/
theorem readCmds_csfBytes (version : Nat) (cmds : List CsfCmd) (h : CsfWF version cmds) :
    HabRom.readCmds (csfBytes version cmds) (csfHdrLen cmds) 4 (csfHdrLen cmds)
      = .ok ((assignLocs (csfHdrLen cmds) cmds).map (fun c => toR c.cmd)) := by
  obtain ⟨hv, hw, hfit⟩ := h
  have hblen := csfBase_length version cmds
  have e8 : HabConsts.csfSize = 8192 := rfl
  have hdata : ∀ c ∈ cmds, needsRef c.cmd = true → ∀ d, c.data = some d → True := fun _ _ _ _ _ => trivial
  -- assigned commands are well-formed (offsets stay below 2^32)
  have hwf : ∀ c ∈ assignLocs (csfHdrLen cmds) cmds, c.cmd.WF := by
    apply assignLocs_WF (csfHdrLen cmds) cmds (fun c hc => (hw c hc).1)
    have := hfit
    rw [List.length_append, hblen, e8] at this
    omega
  have e : csfBytes version cmds = hdr Hab.Spec.tagCSF (csfHdrLen cmds) version ++
      encCmds (assignLocs (csfHdrLen cmds) cmds) ++
      (encData cmds ++ zeros (alignUp (csfBase version cmds ++ encData cmds).length HabConsts.csfSize - (csfBase version cmds ++ encData cmds).length)) := by
    simp [csfBytes, padAlign, csfBase, List.append_assoc]
  have := readCmds_encCmds (assignLocs (csfHdrLen cmds) cmds) (csfHdrLen cmds) (hdr Hab.Spec.tagCSF (csfHdrLen cmds) version)
    (encData cmds ++ zeros (alignUp (csfBase version cmds ++ encData cmds).length HabConsts.csfSize - (csfBase version cmds ++ encData cmds).length))
    hwf (by
      have := length_le_cmdsSize (assignLocs (csfHdrLen cmds) cmds)
      rw [cmdsSize_assignLocs] at this
      have e : csfHdrLen cmds = 4 + cmdsSize cmds := rfl
      omega)
  rw [hdr_length, cmdsSize_assignLocs, ← e] at this
  exact this

end SpsdkVerif.Hab
