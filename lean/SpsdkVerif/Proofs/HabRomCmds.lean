/- C07 helper lemmas, part 7: the ROM-side reader reads the commands of an exported CSF. -/
import SpsdkVerif.Proofs.HabRomBase

namespace SpsdkVerif.Hab
open SpsdkVerif SpsdkVerif.Misc SpsdkVerif.Generated
open SpsdkVerif.Spec
open SpsdkVerif.Spec.HabRom (bindE chk sub rdN u8at u16be u32be u32le RCmd)

/-- header of the exported CSF as the reader sees it -/
theorem csf_header_read (version : Nat) (cmds : List CsfCmd) (h : CsfWF version cmds) :
    u8at (csfBytes version cmds) 0 = .ok 0xD4 ∧ u16be (csfBytes version cmds) 1 = .ok (csfHdrLen cmds) ∧
    u8at (csfBytes version cmds) 3 = .ok version := by
  sorry

/-- the reader's command list of an exported CSF = the model's commands (data references assigned), translated -/
theorem readCmds_csfBytes (version : Nat) (cmds : List CsfCmd) (h : CsfWF version cmds) :
    HabRom.readCmds (csfBytes version cmds) (csfHdrLen cmds) 4 (csfHdrLen cmds)
      = .ok ((assignLocs (csfHdrLen cmds) cmds).map (fun c => toR c.cmd)) := by
  sorry

end SpsdkVerif.Hab
