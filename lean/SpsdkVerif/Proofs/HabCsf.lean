/- C07 helper lemmas, part 2: CSF command codec, CSF segment round trip, XMCD header. -/
import SpsdkVerif.Model.HabWF
import SpsdkVerif.Proofs.HabBase

namespace SpsdkVerif.Hab
open SpsdkVerif SpsdkVerif.Misc SpsdkVerif.Generated

/-! ### command codec -/
theorem encBlocks_length (bl : List (Nat × Nat)) : (encBlocks bl).length = 8 * bl.length := by
  induction bl with
  | nil => rfl
  | cons p r ih => obtain ⟨a, s⟩ := p; simp [encBlocks, ih]; omega

theorem encode_length (c : Cmd) : c.encode.length = c.size := by
  cases c with
  | insKey => simp [Cmd.encode, Cmd.size]
  | autDat => simp [Cmd.encode, Cmd.size, encBlocks_length]; omega
  | set => simp [Cmd.encode, Cmd.size]
  | unlock e f uid => simp only [Cmd.encode, Cmd.size]; split <;> simp
  | nop => simp [Cmd.encode, Cmd.size]

theorem decBlocks_encBlocks (bl : List (Nat × Nat)) (rest : Bytes)
    (h : ∀ p ∈ bl, p.1 < 2 ^ 32 ∧ p.2 < 2 ^ 32) :
    decBlocks bl.length (encBlocks bl ++ rest) = some bl := by
  induction bl with
  | nil => rfl
  | cons p r ih =>
    obtain ⟨a, s⟩ := p
    have ha := (h (a, s) (by simp)).1
    have hs := (h (a, s) (by simp)).2
    have ih' := ih (fun p hp => h p (by simp [hp]))
    have e1 : rdBE (be32 a ++ be32 s ++ encBlocks r ++ rest) 0 4 = some a := by
      have := rdBE_at [] (be32 s ++ encBlocks r ++ rest) 4 a 0 (by simpa using ha) rfl
      simpa [be32, List.append_assoc] using this
    have e2 : rdBE (be32 a ++ be32 s ++ encBlocks r ++ rest) 4 4 = some s := by
      have := rdBE_at (be32 a) (encBlocks r ++ rest) 4 s 4 (by simpa using hs) (by simp)
      simpa [be32, List.append_assoc] using this
    have e3 : (be32 a ++ be32 s ++ encBlocks r ++ rest).drop 8 = encBlocks r ++ rest := by
      rw [List.append_assoc]
      exact drop_append_len _ _ _ (by simp)
    simp only [List.length_cons, decBlocks, encBlocks, e1, e2, e3, ih']


theorem decode_encode (c : Cmd) (rest : Bytes) (h : c.WF) : Cmd.decode (c.encode ++ rest) = some c := by
  cases c with
  | insKey fl cf alg src tgt loc =>
    obtain ⟨h1, h2, h3, h4, h5, h6⟩ := h
    have e : (Cmd.insKey fl cf alg src tgt loc).encode ++ rest =
        hdr Spec.cmdINS_KEY 12 fl ++ (u8 cf :: u8 alg :: u8 src :: u8 tgt :: (be32 loc ++ rest)) := by
      simp [Cmd.encode]
    have r : rdBE (be32 loc ++ rest) 0 4 = some loc := by
      have := rdBE_at [] rest 4 loc 0 (by simpa using h6) rfl
      simpa [be32] using this
    rw [e]
    unfold Cmd.decode
    rw [parseHdr_hdr _ _ _ _ (by decide) (by decide) h1]
    simp only [drop_append_len _ _ 4 (hdr_length _ _ _).symm, r, u8_toNat _ h2, u8_toNat _ h3,
      u8_toNat _ h4, u8_toNat _ h5, ↓reduceIte, Option.map_some]
  | autDat fl key sf eng cfg loc bl =>
    obtain ⟨h1, h2, h3, h4, h5, h6, h7, h8⟩ := h
    have e : (Cmd.autDat fl key sf eng cfg loc bl).encode ++ rest =
        hdr Spec.cmdAUT_DAT (12 + 8 * bl.length) fl ++
          (u8 key :: u8 sf :: u8 eng :: u8 cfg :: (be32 loc ++ (encBlocks bl ++ rest))) := by
      simp [Cmd.encode]
    have r : rdBE (be32 loc ++ (encBlocks bl ++ rest)) 0 4 = some loc := by
      have := rdBE_at [] (encBlocks bl ++ rest) 4 loc 0 (by simpa using h6) rfl
      simpa [be32] using this
    have d : (be32 loc ++ (encBlocks bl ++ rest)).drop 4 = encBlocks bl ++ rest :=
      drop_append_len _ _ _ (by simp)
    have n : (12 + 8 * bl.length - 12 + 7) / 8 = bl.length := by omega
    have t1 : ¬ Spec.cmdAUT_DAT = Spec.cmdINS_KEY := by decide
    rw [e]
    unfold Cmd.decode
    rw [parseHdr_hdr _ _ _ _ (by decide) (by omega) h1]
    simp only [drop_append_len _ _ 4 (hdr_length _ _ _).symm, r, d, n, t1, decBlocks_encBlocks bl rest h8,
      u8_toNat _ h2, u8_toNat _ h3, u8_toNat _ h4, u8_toNat _ h5, ↓reduceIte]
  | set itm alg eng cfg =>
    obtain ⟨h1, h2, h3, h4⟩ := h
    have e : (Cmd.set itm alg eng cfg).encode ++ rest =
        hdr Spec.cmdSET 8 itm ++ (0 :: u8 alg :: u8 eng :: u8 cfg :: rest) := by
      simp [Cmd.encode]
    have t1 : ¬ Spec.cmdSET = Spec.cmdINS_KEY := by decide
    have t2 : ¬ Spec.cmdSET = Spec.cmdAUT_DAT := by decide
    rw [e]
    unfold Cmd.decode
    rw [parseHdr_hdr _ _ _ _ (by decide) (by decide) h1]
    simp only [drop_append_len _ _ 4 (hdr_length _ _ _).symm, t1, t2,
      u8_toNat _ h2, u8_toNat _ h3, u8_toNat _ h4, ↓reduceIte]
  | unlock e f uid =>
    obtain ⟨h1, h2, h3, h4⟩ := h
    have t1 : ¬ Spec.cmdUNLK = Spec.cmdINS_KEY := by decide
    have t2 : ¬ Spec.cmdUNLK = Spec.cmdAUT_DAT := by decide
    have t3 : ¬ Spec.cmdUNLK = Spec.cmdSET := by decide
    have r1 : ∀ tl l, rdBE (hdr Spec.cmdUNLK l e ++ be32 f ++ tl) 4 4 = some f := by
      intro tl l
      exact rdBE_at _ tl 4 f 4 (by simpa using h2) (by simp)
    by_cases hu : needUid e f = true
    · have e' : (Cmd.unlock e f uid).encode ++ rest = hdr Spec.cmdUNLK 16 e ++ (be32 f ++ be64 uid ++ rest) := by
        simp [Cmd.encode, hu]
      have r2 : rdBE (hdr Spec.cmdUNLK 16 e ++ (be32 f ++ be64 uid ++ rest)) 8 8 = some uid := by
        have := rdBE_at (hdr Spec.cmdUNLK 16 e ++ be32 f) rest 8 uid 8 (by simpa using h3) (by simp)
        simpa [be64, List.append_assoc] using this
      have r1' := r1 (be64 uid ++ rest) 16
      simp only [List.append_assoc] at r1' r2
      rw [e']
      unfold Cmd.decode
      rw [parseHdr_hdr _ _ _ _ (by decide) (by decide) h1]
      simp only [List.append_assoc, t1, t2, t3, r1', r2, hu, ↓reduceIte, Option.map_some]
    · have hu' : needUid e f = false := by simpa using hu
      have e' : (Cmd.unlock e f uid).encode ++ rest = hdr Spec.cmdUNLK 8 e ++ (be32 f ++ rest) := by
        simp [Cmd.encode, hu']
      have r1' := r1 rest 8
      simp only [List.append_assoc] at r1'
      rw [e']
      unfold Cmd.decode
      rw [parseHdr_hdr _ _ _ _ (by decide) (by decide) h1]
      simp only [t1, t2, t3, r1', hu', h4 hu', ↓reduceIte, Bool.false_eq_true]
  | nop p =>
    have h1 : p < 256 := h
    have t1 : ¬ Spec.cmdNOP = Spec.cmdINS_KEY := by decide
    have t2 : ¬ Spec.cmdNOP = Spec.cmdAUT_DAT := by decide
    have t3 : ¬ Spec.cmdNOP = Spec.cmdSET := by decide
    have t4 : ¬ Spec.cmdNOP = Spec.cmdUNLK := by decide
    unfold Cmd.decode
    simp only [Cmd.encode]
    rw [parseHdr_hdr _ _ _ _ (by decide) (by decide) h1]
    simp only [t1, t2, t3, t4, ↓reduceIte]

/-! ### lengths, `assignLocs` -/

theorem setLoc_size (c : Cmd) (x : Nat) : (c.setLoc x).size = c.size := by
  cases c <;> rfl

theorem needsRef_setLoc (c : Cmd) (x : Nat) : needsRef (c.setLoc x) = needsRef c := by
  cases c <;> rfl

theorem setLoc_setLoc (c : Cmd) (x y : Nat) : (c.setLoc x).setLoc y = c.setLoc y := by
  cases c <;> rfl

theorem cmdsSize_assignLocs (n : Nat) (l : List CsfCmd) : cmdsSize (assignLocs n l) = cmdsSize l := by
  induction l generalizing n with
  | nil => rfl
  | cons c r ih =>
    simp only [assignLocs]
    split
    · split <;> simp [cmdsSize, ih, setLoc_size]
    · simp [cmdsSize, ih]

theorem csfHdrLen_assignLocs (n : Nat) (l : List CsfCmd) : csfHdrLen (assignLocs n l) = csfHdrLen l := by
  simp [csfHdrLen, cmdsSize_assignLocs]

theorem encCmds_length (l : List CsfCmd) : (encCmds l).length = cmdsSize l := by
  induction l with
  | nil => rfl
  | cons c r ih => simp [encCmds, cmdsSize, ih, encode_length]

theorem encData_assignLocs (n : Nat) (l : List CsfCmd) : encData (assignLocs n l) = encData l := by
  induction l generalizing n with
  | nil => rfl
  | cons c r ih =>
    simp only [assignLocs]
    by_cases hr : needsRef c.cmd = true
    · cases hd : c.data with
      | none => simp [hr, hd, encData, ih, needsRef_setLoc]
      | some d => simp [hr, hd, encData, ih, needsRef_setLoc]
    · simp [hr, encData, ih]

theorem assignLocs_idem (m n : Nat) (l : List CsfCmd) : assignLocs m (assignLocs n l) = assignLocs m l := by
  induction l generalizing m n with
  | nil => rfl
  | cons c r ih =>
    by_cases hr : needsRef c.cmd = true
    · cases hd : c.data with
      | none => simp [hr, hd, assignLocs, ih, needsRef_setLoc, setLoc_setLoc]
      | some d => simp [hr, hd, assignLocs, ih, needsRef_setLoc, setLoc_setLoc]
    · simp [hr, assignLocs, ih]

/-- length of header + commands -/
theorem csfBase_length (version : Nat) (cmds : List CsfCmd) : (csfBase version cmds).length = csfHdrLen cmds := by
  simp [csfBase, encCmds_length, cmdsSize_assignLocs, csfHdrLen]

theorem csfBytes_length (version : Nat) (cmds : List CsfCmd) (h : CsfWF version cmds) :
    (csfBytes version cmds).length = HabConsts.csfSize := by
  obtain ⟨_, _, h3⟩ := h
  unfold csfBytes
  rw [padAlign_length _ _ (by decide)]
  have h4 : 4 ≤ (csfBase version cmds ++ encData cmds).length := by
    rw [List.length_append, csfBase_length]; unfold csfHdrLen; omega
  generalize (csfBase version cmds ++ encData cmds).length = L at *
  have : HabConsts.csfSize = 8192 := rfl
  rw [this] at h3 ⊢
  unfold alignUp
  omega

theorem csfBytes_assignLocs (version : Nat) (cmds : List CsfCmd) :
    csfBytes version (assignLocs (csfHdrLen cmds) cmds) = csfBytes version cmds := by
  simp only [csfBytes, csfBase, csfHdrLen_assignLocs, assignLocs_idem, encData_assignLocs]

/-! ### CSF segment round trip -/

theorem Cmd.size_ge (c : Cmd) : 4 ≤ c.size := by
  cases c <;> simp only [Cmd.size] <;> first | omega | (split <;> omega)

theorem length_le_cmdsSize (l : List CsfCmd) : l.length ≤ cmdsSize l := by
  induction l with
  | nil => simp [cmdsSize]
  | cons c r ih => have := c.cmd.size_ge; simp only [List.length_cons, cmdsSize]; omega

theorem setLoc_WF (c : Cmd) (x : Nat) (h : c.WF) (hx : x < 2 ^ 32) : (c.setLoc x).WF := by
  cases c with
  | insKey => obtain ⟨h1, h2, h3, h4, h5, _⟩ := h; exact ⟨h1, h2, h3, h4, h5, hx⟩
  | autDat => obtain ⟨h1, h2, h3, h4, h5, _, h7⟩ := h; exact ⟨h1, h2, h3, h4, h5, hx, h7⟩
  | set => exact h
  | unlock => exact h
  | nop => exact h

theorem loc_setLoc (c : Cmd) (x : Nat) (h : needsRef c = true) : (c.setLoc x).loc = x := by
  cases c <;> first | rfl | (simp [needsRef] at h)

theorem assignLocs_WF (cur : Nat) (l : List CsfCmd) (hw : ∀ c ∈ l, c.cmd.WF)
    (hb : cur + (encData l).length < 2 ^ 32) : ∀ c ∈ assignLocs cur l, c.cmd.WF := by
  induction l generalizing cur with
  | nil => intro c hc; simp [assignLocs] at hc
  | cons a r ih =>
    have hwa := hw a (by simp)
    have hwr : ∀ c ∈ r, c.cmd.WF := fun c hc => hw c (by simp [hc])
    by_cases hr : needsRef a.cmd = true
    · cases hd : a.data with
      | none =>
        have hb' : cur + (encData r).length < 2 ^ 32 := by simpa [encData, hr, hd] using hb
        intro c hc
        simp only [assignLocs, hr, hd, ↓reduceIte, List.mem_cons] at hc
        rcases hc with rfl | hc
        · exact setLoc_WF _ _ hwa (by omega)
        · exact ih cur hwr hb' c hc
      | some d =>
        have hb' : cur + alignUp d.length 4 + (encData r).length < 2 ^ 32 := by
          have := hb
          simp only [encData, hr, hd, ↓reduceIte, List.length_append, padAlign_length _ _ (show 0 < 4 by decide)] at this
          omega
        intro c hc
        simp only [assignLocs, hr, hd, ↓reduceIte, List.mem_cons] at hc
        rcases hc with rfl | hc
        · exact setLoc_WF _ _ hwa (by omega)
        · exact ih _ hwr hb' c hc
    · have hr' : needsRef a.cmd = false := by simpa using hr
      have hb' : cur + (encData r).length < 2 ^ 32 := by simpa [encData, hr'] using hb
      intro c hc
      simp only [assignLocs, hr', Bool.false_eq_true, ↓reduceIte, List.mem_cons] at hc
      rcases hc with rfl | hc
      · exact hwa
      · exact ih cur hwr hb' c hc

theorem parseCmds_encCmds (l : List CsfCmd) (fuel : Nat) (rest : Bytes) (hw : ∀ c ∈ l, c.cmd.WF)
    (hf : l.length ≤ fuel) :
    parseCmds fuel (encCmds l ++ rest) (cmdsSize l) = .ok (l.map (·.cmd)) := by
  induction l generalizing fuel with
  | nil => cases fuel <;> simp [parseCmds, cmdsSize]
  | cons c r ih =>
    obtain ⟨f, rfl⟩ : ∃ f, fuel = f + 1 := ⟨fuel - 1, by simp at hf; omega⟩
    have hs := c.cmd.size_ge
    have h0 : ¬ (c.cmd.size + cmdsSize r = 0) := by omega
    have e : encCmds (c :: r) ++ rest = c.cmd.encode ++ (encCmds r ++ rest) := by simp [encCmds]
    have d : (c.cmd.encode ++ (encCmds r ++ rest)).drop c.cmd.size = encCmds r ++ rest :=
      drop_append_len _ _ _ (encode_length _).symm
    have s : c.cmd.size + cmdsSize r - c.cmd.size = cmdsSize r := by omega
    have ih' := ih f (fun c hc => hw c (by simp [hc])) (by simp at hf; omega)
    rw [e]
    simp only [parseCmds, cmdsSize, h0, ↓reduceIte, decode_encode _ _ (hw c (by simp)), d, s, ih', List.map_cons]

theorem parseBlock_blob (d tail : Bytes) (h : BlobWF d) : parseBlock (d ++ tail) none = .ok d := by
  obtain ⟨h1, t, p, body, ht, hp, hd⟩ := h
  have e : parseHdr (d ++ tail) = some (t, d.length, p) := by
    conv => lhs; rw [hd, List.append_assoc]
    exact parseHdr_hdr _ _ _ _ ht h1 hp
  unfold parseBlock
  rw [e]
  simp

theorem mapM_parseCmdData (l : List CsfCmd) (cur : Nat) (pre post full : Bytes) (hp : pre.length = cur)
    (hfull : full = pre ++ encData l ++ post)
    (hw : ∀ c ∈ l, (needsRef c.cmd = true → ∃ d, c.data = some d ∧ BlobWF d) ∧ (needsRef c.cmd = false → c.data = none)) :
    mapM' (parseCmdData full) ((assignLocs cur l).map (·.cmd)) = .ok (assignLocs cur l) := by
  induction l generalizing cur pre with
  | nil => rfl
  | cons a r ih =>
    have hwa := hw a (by simp)
    have hwr := fun c (hc : c ∈ r) => hw c (by simp [hc])
    by_cases hr : needsRef a.cmd = true
    · obtain ⟨d, hd, hb⟩ := hwa.1 hr
      have hfull' : full = (pre ++ padAlign d 4) ++ encData r ++ post := by
        rw [hfull]; simp [encData, hr, hd]
      have ih' := ih (cur + alignUp d.length 4) (pre ++ padAlign d 4)
        (by rw [List.length_append, padAlign_length _ _ (by decide), hp]) hfull' hwr
      have hdrop : full.drop cur = d ++ (zeros (alignUp d.length 4 - d.length) ++ (encData r ++ post)) := by
        rw [hfull', List.append_assoc, List.append_assoc, drop_append_len _ _ _ hp.symm]
        simp [padAlign]
      have e1 : parseCmdData full (a.cmd.setLoc cur) = .ok { a with cmd := a.cmd.setLoc cur } := by
        unfold parseCmdData
        rw [needsRef_setLoc, hr, loc_setLoc _ _ hr, hdrop, parseBlock_blob _ _ hb]
        simp [hd]
      simp only [assignLocs, hr, hd, ↓reduceIte, List.map_cons, mapM', e1, ih']
    · have hr' : needsRef a.cmd = false := by simpa using hr
      have hd := hwa.2 hr'
      have hfull' : full = pre ++ encData r ++ post := by
        rw [hfull]; simp [encData, hr']
      have ih' := ih cur pre hp hfull' hwr
      have e1 : parseCmdData full a.cmd = .ok a := by
        unfold parseCmdData
        rw [hr']
        cases a
        simp_all
      simp only [assignLocs, hr', ↓reduceIte, List.map_cons, mapM', e1, ih', Bool.false_eq_true]

theorem parseCsf_csfBytes (version : Nat) (cmds : List CsfCmd) (h : CsfWF version cmds) :
    parseCsf (csfBytes version cmds) = .ok (version, assignLocs (csfHdrLen cmds) cmds) := by
  obtain ⟨hv, hw, hfit⟩ := h
  have hlen := csfBase_length version cmds
  have hfit' : csfHdrLen cmds + (encData cmds).length ≤ 8192 := by
    have := hfit
    rw [List.length_append, hlen] at this
    exact this
  have h4 : 4 ≤ csfHdrLen cmds := by unfold csfHdrLen; omega
  generalize hk : alignUp (csfBase version cmds ++ encData cmds).length HabConsts.csfSize
    - (csfBase version cmds ++ encData cmds).length = k
  have e1 : csfBytes version cmds = csfBase version cmds ++ encData cmds ++ zeros k := by
    unfold csfBytes padAlign; rw [hk]
  have e2 : csfBytes version cmds = hdr Spec.tagCSF (csfHdrLen cmds) version ++
      (encCmds (assignLocs (csfHdrLen cmds) cmds) ++ (encData cmds ++ zeros k)) := by
    rw [e1]; simp [csfBase]
  have hA : ∀ c ∈ assignLocs (csfHdrLen cmds) cmds, c.cmd.WF :=
    assignLocs_WF _ _ (fun c hc => (hw c hc).1) (by omega)
  have hH : parseHdr (csfBytes version cmds) = some (Spec.tagCSF, csfHdrLen cmds, version) := by
    rw [e2]; exact parseHdr_hdr _ _ _ _ (by decide) (by omega) hv
  have hC : parseCmds (csfHdrLen cmds) ((csfBytes version cmds).drop 4) (csfHdrLen cmds - 4) =
      .ok ((assignLocs (csfHdrLen cmds) cmds).map (·.cmd)) := by
    rw [e2, drop_append_len _ _ 4 (hdr_length _ _ _).symm]
    have : csfHdrLen cmds - 4 = cmdsSize (assignLocs (csfHdrLen cmds) cmds) := by
      rw [cmdsSize_assignLocs]; unfold csfHdrLen; omega
    rw [this]
    apply parseCmds_encCmds _ _ _ hA
    have := length_le_cmdsSize (assignLocs (csfHdrLen cmds) cmds)
    omega
  have hM := mapM_parseCmdData cmds (csfHdrLen cmds) (csfBase version cmds) (zeros k) _ hlen e1
    (fun c hc => (hw c hc).2)
  unfold parseCsf
  simp only [hH, hC, hM, ne_eq, not_true_eq_false, ↓reduceIte]

/-! ### XMCD header -/
theorem xmcdByte0_eq (n : Nat) : natOf (HabFuns.xmcdHdrByte0 (n : Int)) = n % 256 := by
  unfold HabFuns.xmcdHdrByte0
  py_bits

theorem xmcdByte1_eq (t n : Nat) : natOf (HabFuns.xmcdHdrByte1 (t : Int) (n : Int)) = t * 16 + n / 256 := by
  unfold HabFuns.xmcdHdrByte1
  py_bits

theorem xmcdByte2_eq (i j : Nat) (hi : i ≤ 1) (hj : j < 16) :
    natOf (HabFuns.xmcdHdrByte2 (i : Int) (j : Int)) = i * 16 + j := by
  have : ∀ (a : Fin 2) (b : Fin 16),
      natOf (HabFuns.xmcdHdrByte2 ((a.val : Nat) : Int) ((b.val : Nat) : Int)) = a.val * 16 + b.val := by decide
  exact this ⟨i, by omega⟩ ⟨j, hj⟩

theorem xmcdByte3_eq : natOf (HabFuns.xmcdHdrByte3 (HabConsts.xmcdHeaderTag : Nat) 0) = 192 := by decide

theorem xmcdHdr_canon (L type iface inst : Nat) (hi : iface ≤ 1) (hj : inst < 16) :
    xmcdHdr L type iface inst = [u8 (L % 256), u8 (type * 16 + L / 256), u8 (iface * 16 + inst), 0xC0] := by
  unfold xmcdHdr
  rw [xmcdByte0_eq, xmcdByte1_eq, xmcdByte2_eq _ _ hi hj, xmcdByte3_eq]
  rfl

/-- the shape of a well-formed XMCD block with the header fields read back -/
theorem XmcdWF.shape {x : Bytes} (h : XmcdWF x) :
    ∃ lo ts ii body, x = lo :: ts :: ii :: (0xC0 : UInt8) :: body ∧ ii.toNat / 16 ≤ 1 ∧ ts.toNat / 16 ≤ 1 ∧
      ts.toNat % 16 * 256 + lo.toNat = 4 + body.length ∧
      xmcdHdr (4 + body.length) (ts.toNat / 16) (ii.toNat / 16) (ii.toNat % 16) = [lo, ts, ii, 0xC0] := by
  obtain ⟨h1, type, iface, inst, body, ht, hi, hj, hx⟩ := h
  have hL : x.length = 4 + body.length := by rw [hx]; simp; omega
  generalize x.length = L at hx hL h1
  refine ⟨_, _, _, body, hx, ?_, ?_, ?_, ?_⟩
  · rw [u8_toNat _ (by omega)]; omega
  · rw [u8_toNat _ (by omega)]; omega
  · rw [u8_toNat _ (by omega), u8_toNat _ (by omega)]; omega
  · rw [u8_toNat _ (by omega), u8_toNat _ (by omega), ← hL, xmcdHdr_canon L _ _ _ (by omega) (by omega)]
    have e1 : (type * 16 + L / 256) / 16 * 16 + L / 256 = type * 16 + L / 256 := by omega
    have e2 : (iface * 16 + inst) / 16 * 16 + (iface * 16 + inst) % 16 = iface * 16 + inst := by omega
    rw [e1, e2]

theorem xmcdLoad_id (x : Bytes) (h : XmcdWF x) : xmcdLoad x = .ok x := by
  obtain ⟨lo, ts, ii, body, rfl, h1, h2, h3, h4⟩ := h.shape
  have c : (0xC0 : UInt8).toNat = 192 := by decide
  have t : HabConsts.xmcdHeaderTag = 12 := rfl
  have s : HabConsts.xmcdHeaderSize = 4 := rfl
  have g1 : ¬ ((192 / 16 ≠ 12) ∨ 192 % 16 ≠ 0) := by decide
  have g2 : ¬ (ii.toNat / 16 > 1 ∨ ts.toNat / 16 > 1) := by omega
  have g3 : ¬ (ts.toNat % 16 * 256 + lo.toNat ≠ (lo :: ts :: ii :: (0xC0 : UInt8) :: body).length) := by
    simp only [List.length_cons]; omega
  simp only [xmcdLoad, c, t, s, g1, g2, g3, h4, ↓reduceIte]
  rfl

theorem parseXmcd_at (x pre rest : Bytes) (h : XmcdWF x) (hp : pre.length = HabConsts.xmcdSegOffset) :
    parseXmcd (pre ++ x ++ rest) = .ok (some x) := by
  obtain ⟨lo, ts, ii, body, rfl, h1, h2, h3, h4⟩ := h.shape
  have c : (0xC0 : UInt8).toNat = 192 := by decide
  have t : HabConsts.xmcdHeaderTag = 12 := rfl
  have s : HabConsts.xmcdHeaderSize = 4 := rfl
  have g1 : ¬ ((192 / 16 ≠ 12) ∨ 192 % 16 ≠ 0) := by decide
  have g2 : ¬ (ii.toNat / 16 > 1 ∨ ts.toNat / 16 > 1) := by omega
  have d : (pre ++ (lo :: ts :: ii :: (0xC0 : UInt8) :: body) ++ rest).drop HabConsts.xmcdSegOffset =
      lo :: ts :: ii :: (0xC0 : UInt8) :: (body ++ rest) := by
    rw [List.append_assoc, drop_append_len _ _ _ hp.symm]; rfl
  have k : (body ++ rest).take (ts.toNat % 16 * 256 + lo.toNat - 4) = body := by
    rw [h3]; exact take_append_len _ _ _ (by omega)
  unfold parseXmcd
  rw [d]
  simp only [c, t, s, g1, g2, k, h4, ↓reduceIte]
  rfl

end SpsdkVerif.Hab
