/- C07 helper lemmas, part 15: the ROM-side reader accepts the general command shapes of `Model/HabGen.lean`
   (fast authentication; Set / Unlock / NOP commands in every gap). -/
import SpsdkVerif.Model.HabGen
import SpsdkVerif.Proofs.HabRomAccept

namespace SpsdkVerif.Hab
open SpsdkVerif SpsdkVerif.Misc SpsdkVerif.Generated
open SpsdkVerif.Spec
open SpsdkVerif.Spec.HabRom (bindE chk sub rdN u8at u16be u32be u32le RCmd Walk View)
open SpsdkVerif.Crypto (CryptoOps CryptoLaws ccmEnc ccmDec ccm_inv ccmEnc_length)

/-! ### extras woven into the gaps change nothing the builder or the reader looks at -/

def GapsOk (gs : List (List Cmd)) : Prop := ∀ g ∈ gs, ∀ e ∈ g, isExtra e = true

theorem GapsOk.head {g : List Cmd} {gs : List (List Cmd)} (h : GapsOk (g :: gs)) : ∀ e ∈ g, isExtra e = true :=
  h g (by simp)
theorem GapsOk.tail {g : List Cmd} {gs : List (List Cmd)} (h : GapsOk (g :: gs)) : GapsOk gs :=
  fun g' hg' => h g' (by simp [hg'])

theorem mapAut_weave (f : CsfCmd → CsfCmd) (n : Nat) (gs : List (List Cmd)) (ms : List CsfCmd) (h : GapsOk gs) :
    mapAut f n (weave gs ms) = weave gs (mapAut f n ms) := by
  induction gs generalizing ms n with
  | nil => rfl
  | cons g gs ih =>
    have hg := extras_noaut g h.head
    cases ms with
    | nil =>
      simp only [weave, mapAut]
      rw [mapAut_app_noaut _ _ _ _ hg]; simp [mapAut]
    | cons m ms =>
      simp only [weave]
      rw [mapAut_app_noaut _ _ _ _ hg]
      by_cases hm : isAut m.cmd = true
      · cases n with
        | zero => simp [mapAut, hm]
        | succ n => simp [mapAut, hm, ih n ms h.tail]
      · simp [mapAut, hm, ih n ms h.tail]

theorem assignLocs_weave (n : Nat) (gs : List (List Cmd)) (ms : List CsfCmd) (h : GapsOk gs) :
    assignLocs n (weave gs ms) = weave gs (assignLocs n ms) := by
  induction gs generalizing ms n with
  | nil => rfl
  | cons g gs ih =>
    have hg := extras_noref g h.head
    cases ms with
    | nil =>
      simp only [weave, assignLocs]
      rw [assignLocs_app_noref _ _ _ hg]; simp [assignLocs]
    | cons m ms =>
      simp only [weave]
      rw [assignLocs_app_noref _ _ _ hg]
      by_cases hr : needsRef m.cmd = true
      · cases hd : m.data with
        | none => simp [assignLocs, hr, hd, ih n ms h.tail]
        | some d => simp [assignLocs, hr, hd, ih (n + alignUp d.length 4) ms h.tail]
      · simp [assignLocs, hr, ih n ms h.tail]

theorem refsOf_weave (gs : List (List Cmd)) (ms : List CsfCmd) (h : GapsOk gs) :
    refsOf (weave gs ms) = refsOf ms := by
  induction gs generalizing ms with
  | nil => rfl
  | cons g gs ih =>
    have hg := extras_noref g h.head
    cases ms with
    | nil => simp only [weave]; rw [refsOf_app_noref _ _ hg]
    | cons m ms =>
      simp only [weave]
      rw [refsOf_app_noref _ _ hg]
      simp only [refsOf]
      rw [ih ms h.tail]

theorem mem_weave (gs : List (List Cmd)) (ms : List CsfCmd) (c : CsfCmd) (hc : c ∈ ms) : c ∈ weave gs ms := by
  induction gs generalizing ms with
  | nil => exact hc
  | cons g gs ih =>
    cases ms with
    | nil => cases hc
    | cons m ms =>
      simp only [weave, List.mem_append, List.mem_cons]
      rcases List.mem_cons.1 hc with e | e
      · exact Or.inr (Or.inl e)
      · exact Or.inr (Or.inr (ih ms e))

theorem walk_weave (region : Bytes) (hdrLen self csf : Nat) (w : Walk) (gs : List (List Cmd)) (ms : List CsfCmd)
    (h : GapsOk gs) :
    HabRom.walk region hdrLen self csf w ((weave gs ms).map (fun c => toR c.cmd)) =
      HabRom.walk region hdrLen self csf w (ms.map (fun c => toR c.cmd)) := by
  induction gs generalizing ms w with
  | nil => rfl
  | cons g gs ih =>
    have hmap : (g.map bare).map (fun c => toR c.cmd) = g.map toR := by
      simp [List.map_map, Function.comp_def]
    cases ms with
    | nil =>
      simp only [weave, List.map_append, hmap, List.map_nil]
      rw [walk_append, walk_extras _ _ _ _ _ _ h.head, bindE_ok]
    | cons m ms =>
      simp only [weave, List.map_append, hmap, List.map_cons]
      rw [walk_append, walk_extras _ _ _ _ _ _ h.head, bindE_ok]
      simp only [HabRom.walk]
      cases HabRom.stepCmd region hdrLen self csf w (toR m.cmd) with
      | error e => rfl
      | ok w' => simp only [bindE_ok]; exact ih w' ms h.tail

/-! ### the fast-authentication chain -/

theorem assign_fast (s : StdCsf) (n : Nat) (L0 : Nat → Nat) (sigC : Bytes)
    (bd : List (Nat × Nat)) (sigD : Bytes) (enc : Option EncPart) (hm : ∀ e, enc = some e → e.mac.isSome) :
    ∃ L, assignLocs n (mainFast s L0 sigC bd sigD enc) = mainFast s L sigC bd sigD enc := by
  cases enc with
  | none =>
    refine ⟨fun k => if k = 1 then n else if k = 3 then n + alignUp s.srkBlob.length 4
      else n + alignUp s.srkBlob.length 4 + alignUp sigC.length 4, ?_⟩
    simp [mainFast, assignLocs, needsRef, Cmd.setLoc, Hab.Spec.insKeyABS]
  | some e =>
    obtain ⟨m, hmm⟩ := Option.isSome_iff_exists.1 (hm e rfl)
    refine ⟨fun k => if k = 1 then n else if k = 3 then n + alignUp s.srkBlob.length 4
      else if k = 5 then n + alignUp s.srkBlob.length 4 + alignUp sigC.length 4
      else n + alignUp s.srkBlob.length 4 + alignUp sigC.length 4 + alignUp sigD.length 4, ?_⟩
    simp [mainFast, assignLocs, needsRef, Cmd.setLoc, Hab.Spec.insKeyABS, hmm]

theorem refsOf_fast (s : StdCsf) (L : Nat → Nat) (sigC : Bytes)
    (bd : List (Nat × Nat)) (sigD : Bytes) (enc : Option EncPart) :
    refsOf (mainFast s L sigC bd sigD enc) =
      [(L 1, s.srkBlob.length), (L 3, sigC.length), (L 5, sigD.length)] ++
       (match enc with
        | some e => (match e.mac with | some m => [(L 6, m.length)] | none => [])
        | none => []) := by
  cases enc with
  | none => simp [mainFast, refsOf, needsRef, Cmd.loc, Hab.Spec.insKeyABS]
  | some e =>
    cases hm : e.mac <;> simp [mainFast, refsOf, needsRef, Cmd.loc, Hab.Spec.insKeyABS, hm]

section steps
variable (region : Bytes) (hdrLen self csf : Nat)

theorem step_autcsf_fast (w : Walk) (eng cfg loc n : Nat) (hw : HabRom.fastAuth w = true) (hn : w.csfSig = none)
    (d : HabRom.dataRef region hdrLen loc 0xD8 "signature" = .ok (loc, n)) :
    HabRom.stepCmd region hdrLen self csf w (.autDat 0 1 0xC5 eng cfg loc []) =
      .ok { w with csfSig := some (loc, n), refs := (loc, n) :: w.refs } := by
  simp [HabRom.stepCmd, HabRom.toOffsets, d, hw, hn, chk]

theorem step_autdat_fast (w : Walk) (eng cfg loc n : Nat) (bd offs : List (Nat × Nat)) (hbd : bd ≠ [])
    (hw : HabRom.fastAuth w = true) (hc : w.csfSig.isSome = true) (hn : w.dataSig = none)
    (ho : HabRom.toOffsets self csf bd = .ok offs)
    (d : HabRom.dataRef region hdrLen loc 0xD8 "signature" = .ok (loc, n)) :
    HabRom.stepCmd region hdrLen self csf w (.autDat 0 0 0xC5 eng cfg loc bd) =
      .ok { w with dataSig := some (loc, n), auth := offs, refs := (loc, n) :: w.refs } := by
  have hbe : bd.isEmpty = false := by cases bd <;> simp_all
  simp [HabRom.stepCmd, d, hw, hc, hn, ho, hbe, chk]

end steps

/-- what the rest of the reader needs to know about the state after the walk -/
structure WalkOut (w : Walk) (offsD offsE : List (Nat × Nat)) (enc : Option EncPart) (L6 n6 : Nat)
    (refs : List (Nat × Nat)) : Prop where
  auth : w.auth = offsD
  dec : w.dec = (match enc with | none => [] | some _ => offsE)
  csfSig : w.csfSig.isSome = true
  dataSig : w.dataSig.isSome = true
  refs : w.refs = (match enc with | none => [] | some _ => [(L6, n6)]) ++ refs
  macRef : w.macRef = (match enc with | none => none | some _ => some (L6, n6))
  secretLoc : w.secretLoc = enc.map (·.loc)

theorem walk_fast (region : Bytes) (hdrLen self csf : Nat) (s : StdCsf)
    (L : Nat → Nat) (sigC : Bytes) (bd : List (Nat × Nat)) (sigD : Bytes) (enc : Option EncPart)
    (n1 n3 n5 n6 : Nat) (offsD offsE : List (Nat × Nat))
    (d1 : HabRom.dataRef region hdrLen (L 1) 0xD7 "SRK table" = .ok (L 1, n1))
    (d3 : HabRom.dataRef region hdrLen (L 3) 0xD8 "signature" = .ok (L 3, n3))
    (d5 : HabRom.dataRef region hdrLen (L 5) 0xD8 "signature" = .ok (L 5, n5))
    (hsrc : s.srkSrc ≤ 3) (hbd : bd ≠ [])
    (ho : HabRom.toOffsets self csf bd = .ok offsD)
    (henc : ∀ e, enc = some e → s.kek ≤ 3 ∧ s.keySlot ≤ 3 ∧ e.blocks ≠ [] ∧
      HabRom.dataRef region hdrLen (L 6) 0xAC "MAC" = .ok (L 6, n6) ∧ HabRom.toOffsets self csf e.blocks = .ok offsE) :
    ∃ w, HabRom.walk region hdrLen self csf {} ((mainFast s L sigC bd sigD enc).map (fun c => toR c.cmd)) = .ok w ∧
      WalkOut w offsD offsE enc (L 6) n6 [(L 5, n5), (L 3, n3), (L 1, n1)] ∧
      w.csfCert = none ∧ w.imgCert = none ∧ w.srk = some (L 1, n1, s.srkSrc) := by
  have f1 : HabRom.stepCmd region hdrLen self csf {} (.insKey 0 3 s.srkAlg s.srkSrc 0 (L 1)) = .ok (wA s L n1) :=
    step_srk region hdrLen self csf {} s.srkAlg s.srkSrc (L 1) n1 hsrc rfl d1
  have f2 := step_autcsf_fast region hdrLen self csf (wA s L n1) s.engCsf s.cfgCsf (L 3) n3 (by rfl) rfl d3
  have f3 := step_autdat_fast region hdrLen self csf
    { wA s L n1 with csfSig := some (L 3, n3), refs := (L 3, n3) :: (wA s L n1).refs }
    s.engDat s.cfgDat (L 5) n5 bd offsD hbd (by rfl) rfl rfl ho d5
  cases enc with
  | none =>
    simp only [mainFast, List.append_nil, List.map_cons, List.map_nil, toR, HabRom.walk]
    rw [f1, bindE_ok, f2, bindE_ok, f3, bindE_ok]
    exact ⟨_, rfl, ⟨rfl, rfl, rfl, rfl, rfl, rfl, rfl⟩, rfl, rfl, rfl⟩
  | some e =>
    obtain ⟨hk, hks, hbe, d6, hoe⟩ := henc e rfl
    have e1 := step_secret region hdrLen self csf
      { wA s L n1 with csfSig := some (L 3, n3), dataSig := some (L 5, n5), auth := offsD,
                       refs := (L 5, n5) :: (L 3, n3) :: (wA s L n1).refs }
      s.skAlg s.kek s.keySlot e.loc hk hks
    have e2 := step_decrypt region hdrLen self csf
      { wA s L n1 with csfSig := some (L 3, n3), dataSig := some (L 5, n5), auth := offsD,
                       refs := (L 5, n5) :: (L 3, n3) :: (wA s L n1).refs,
                       secretLoc := some e.loc, slots := (s.keySlot, 3) :: (wA s L n1).slots }
      s.keySlot s.engDec s.cfgDec (L 6) n6 e.blocks offsE hbe (by simp [HabRom.hasSlot]) rfl hoe d6
    simp only [mainFast, List.cons_append, List.nil_append, List.map_cons, List.map_nil, toR, HabRom.walk]
    rw [f1, bindE_ok, f2, bindE_ok, f3, bindE_ok, e1, bindE_ok, e2, bindE_ok]
    exact ⟨_, rfl, ⟨rfl, rfl, rfl, rfl, rfl, rfl, rfl⟩, rfl, rfl, rfl⟩

theorem walk_stdP (region : Bytes) (hdrLen self csf : Nat) (s : StdCsf) (hex : ∀ e ∈ s.extras, isExtra e = true)
    (L : Nat → Nat) (sigC : Bytes) (bd : List (Nat × Nat)) (sigD : Bytes) (enc : Option EncPart)
    (n1 n2 n3 n4 n5 n6 : Nat) (offsD offsE : List (Nat × Nat))
    (d1 : HabRom.dataRef region hdrLen (L 1) 0xD7 "SRK table" = .ok (L 1, n1))
    (d2 : HabRom.dataRef region hdrLen (L 2) 0xD7 "certificate" = .ok (L 2, n2))
    (d3 : HabRom.dataRef region hdrLen (L 3) 0xD8 "signature" = .ok (L 3, n3))
    (d4 : HabRom.dataRef region hdrLen (L 4) 0xD7 "certificate" = .ok (L 4, n4))
    (d5 : HabRom.dataRef region hdrLen (L 5) 0xD8 "signature" = .ok (L 5, n5))
    (hsrc : s.srkSrc ≤ 3) (hslot : 2 ≤ s.imgSlot ∧ s.imgSlot ≤ 5) (hbd : bd ≠ [])
    (ho : HabRom.toOffsets self csf bd = .ok offsD)
    (henc : ∀ e, enc = some e → s.kek ≤ 3 ∧ s.keySlot ≤ 3 ∧ e.blocks ≠ [] ∧
      HabRom.dataRef region hdrLen (L 6) 0xAC "MAC" = .ok (L 6, n6) ∧ HabRom.toOffsets self csf e.blocks = .ok offsE) :
    ∃ w, HabRom.walk region hdrLen self csf {} ((s.list L sigC bd sigD enc).map (fun c => toR c.cmd)) = .ok w ∧
      WalkOut w offsD offsE enc (L 6) n6 [(L 5, n5), (L 4, n4), (L 3, n3), (L 2, n2), (L 1, n1)] ∧
      w.csfCert = some (L 2, n2) ∧ w.imgCert = some (L 4, n4) ∧ w.srk = some (L 1, n1, s.srkSrc) := by
  refine ⟨_, walk_std region hdrLen self csf s hex L sigC bd sigD enc n1 n2 n3 n4 n5 n6 offsD offsE d1 d2 d3 d4 d5
    hsrc hslot hbd ho henc, ?_⟩
  cases enc <;> exact ⟨⟨rfl, rfl, rfl, rfl, rfl, rfl, rfl⟩, rfl, rfl, rfl⟩

/-- the final command list of a general configuration -/
theorem build_gen (cr : Crypto.CryptoOps) (sg : Signer) (fuel : Nat) (c : Cfg) (b : Built) (s : StdCsf) (fast : Bool)
    (gaps : List (List Cmd)) (L0 : Nat → Nat) (hs : GenCfg c s fast gaps L0) (hb : build cr sg fuel c = some b) (hc : c.hasCsf = true)
    (ha : isAuth c.flags = true) :
    ∃ x, b.cmds = weave gaps (mainList fast s L0 (sigBlob c.version x) (blockPairs c.signedBlocks)
      (sigBlob c.version (sg.data b.msgData))
      (if isEnc c.flags then some ⟨secretKeyLocN c.ils c.app.length c.start, blockPairs c.encryptedBlocks,
                                   some (macBlob c.version c.nonce (encMac cr c))⟩ else none)) := by
  obtain ⟨_, _, hmd, _, _, hl⟩ := build_inv cr sg fuel c b hb hc ha
  obtain ⟨blob, e, x, hx⟩ := signLoop_shape sg c.version fuel 0 _ b.cmds b.attempts hl
  refine ⟨x, ?_⟩
  rw [e, hx, hmd]
  unfold cmdsSigned cmdsEnc
  rw [hs.cmds]
  have hg : GapsOk gaps := hs.gaps
  by_cases he : isEnc c.flags = true
  · simp only [he, ↓reduceIte, mapAut_weave _ _ _ _ hg]
    congr 1
    cases fast <;> simp [mainList, mainStd, mainFast, StdCsf.core, StdCsf.list, mapAut, isAut, Cmd.addBlocks]
  · simp only [he, Bool.false_eq_true, ↓reduceIte, mapAut_weave _ _ _ _ hg]
    congr 1
    cases fast <;> simp [mainList, mainStd, mainFast, StdCsf.core, StdCsf.list, mapAut, isAut, Cmd.addBlocks]

/-- the reader's run after the walk, for ANY walk result with the properties `WalkOut` (refactoring of
    `rom_accepts_lemma`, which fixes the standard chain) -/
theorem rom_accepts_of_walk (cr : CryptoOps) (hl : CryptoLaws cr) (sg : Signer) (fuel : Nat) (c : Cfg) (b : Built)
    (w : Walk) (enc : Option EncPart) (L6 n6 : Nat) (refs : List (Nat × Nat))
    (h : c.WF) (ha : c.flags ≠ 0) (hb : build cr sg fuel c = some b)
    (hfit : CsfWF c.version b.cmds)
    (hd : ∀ d, c.dcd = some d → DcdWF d) (hx : ∀ x, c.xmcd = some x → XmcdWF x)
    (hm : macLenOk c.macLen = true) (hn : 7 ≤ c.nonce.length ∧ c.nonce.length ≤ 13) (hver : c.version / 16 = 4)
    (hentry : c.start + c.ils ≤ c.entry ∧ c.entry < c.start + c.ils + c.appBin.length)
    (hW : HabRom.walk (csfBytes c.version b.cmds) (csfHdrLen b.cmds) (c.start + c.ivtOff) (c.start + c.ivtOff + c.csfOff) {}
          ((assignLocs (csfHdrLen b.cmds) b.cmds).map (fun c => toR c.cmd)) = .ok w)
    (hE : enc.isSome = isEnc c.flags)
    (hloc : ∀ e, enc = some e → e.loc = secretKeyLocN c.ils c.app.length c.start)
    (hO : WalkOut w (offs c.ivtOff c.signedBlocks) (offs c.ivtOff c.encryptedBlocks) enc L6 n6 refs)
    (hdis : HabRom.disjoint w.refs = true)
    (hMac : isEnc c.flags = true →
      slice (csfBytes c.version b.cmds) L6 n6 = macBlob c.version c.nonce (encMac cr c) ∧
      n6 = (macBlob c.version c.nonce (encMac cr c)).length) :
    ∃ r, HabRom.habCheck cr (exportImage c b) (if isEnc c.flags then some c.dek else none) = .ok r ∧
      r.msgCsf = b.msgCsf ∧ r.msgData = b.msgData ∧ r.plain = (if isEnc c.flags then some c.appBin else none) ∧
      r.csfOff = c.csfOff ∧ r.hdrLen = csfHdrLen b.cmds ∧ r.authBlocks = offs c.ivtOff c.signedBlocks ∧
      r.decBlocks = (if isEnc c.flags then offs c.ivtOff c.encryptedBlocks else []) ∧
      r.srk = w.srk ∧ r.csfCert = w.csfCert ∧ r.imgCert = w.imgCert := by
  have hf := flags_cases c.flags h.flags
  have hcsf : c.hasCsf = true := by rw [h.csf]; simpa using ha
  have hau : isAuth c.flags = true := by rw [hf.1]; simpa using ha
  have happ := build_app_length cr hl sg fuel c b h hb ha hm
  have hcl : c.hasCsf = true → (csfBytes c.version b.cmds).length = HabConsts.csfSize := fun _ => csfBytes_length _ _ hfit
  obtain ⟨_, pSelf, _, _, _, pDcd, pDcd0, _, pAppOff, _, pCsf, _, pBs, _, pBl⟩ := ivt_points_lemma c b h happ hcl
  obtain ⟨hcsfp, hbef, hreg, hilen⟩ := pCsf hcsf
  have hV := readView_export c b h happ hcl
  have hFL := frontLens_export c b h happ hcl hd hx
    { entry := c.entry, dcd := c.ivt.dcd, self := c.start + c.ivtOff, csf := c.ivt.csf, start := c.start, blen := c.bdt.length }
    ⟨rfl, rfl⟩
  obtain ⟨hin, hasc, hc0, hcd, hcx, hca⟩ := blocks_cover_lemma c h ha
  have hin' : ∀ bl ∈ c.allBlocks, c.ivtOff ≤ bl.start := fun bl hbl => (hin bl hbl).2.1
  have hR := readCmds_csfBytes c.version b.cmds hfit
  obtain ⟨hH0, hH1, hH3⟩ := csf_header_read c.version b.cmds hfit
  obtain ⟨hmc, hmt, _, hmg⟩ := auth_csf_lemma cr sg fuel c b hb hcsf hau
  obtain ⟨hmd, _⟩ := auth_data_lemma cr sg fuel c b h hb ha
  have hge := appOff_ge c h
  have hnz := h.nonzero
  have e8 : HabConsts.csfSize = 8192 := rfl
  have hao := appOff_eq c
  have hle := h.ivtLe
  have hwa := hO.auth
  -- the image
  generalize himg : exportImage c b = img at *
  have hpad : imagePadded c b.app (some (csfBytes c.version b.cmds)) = zeros c.ivtOff ++ img := by
    rw [← himg]; unfold imagePadded exportImage; rw [hcsf]; rfl
  have hcsfne : c.ivt.csf ≠ 0 := by rw [hcsfp, pSelf]; omega
  have hoff : c.ivt.csf - (c.start + c.ivtOff) = c.csfOff := by rw [hcsfp, pSelf]; omega
  have hregion : sub img c.csfOff 0x2000 = csfBytes c.version b.cmds := by
    rw [sub_eq_slice]; rw [hcsfp, Nat.add_sub_cancel_left, e8] at hreg; exact hreg
  -- facts about the block lists as the reader sees them
  have hd4 : HabRom.disjoint (offs c.ivtOff c.allBlocks) = true := disjoint_offs _ _ hin' hasc
  have hc5 : HabRom.covered (offs c.ivtOff c.allBlocks) 0 64 = true := covered_offs _ _ 0 64 hin' (by simpa using hc0)
  have hc6 : HabRom.covered (offs c.ivtOff c.allBlocks) 64 (dcdLenOf c) = true := by
    unfold dcdLenOf
    cases hdd : c.dcd with
    | some d => exact covered_offs _ _ 64 d.length hin' (hcd d hdd)
    | none => simp [HabRom.covered]
  have hc7 : HabRom.covered (offs c.ivtOff c.allBlocks) 64 (xmcdLenOf c) = true := by
    unfold xmcdLenOf
    cases hxx : c.xmcd with
    | some x => exact covered_offs _ _ 64 x.length hin' (hcx x hxx)
    | none => simp [HabRom.covered]
  have hc8 : HabRom.nzCov (offs c.ivtOff c.allBlocks) c.csfOff 0 img = true := by rw [← himg]; exact nzCov_export c b h ha happ
  have hc9 : (decide (c.start + c.ivtOff ≤ c.entry) && HabRom.inBlocks (offs c.ivtOff c.allBlocks) (c.entry - (c.start + c.ivtOff))) = true := by
    have hib := inBlocks_offs c.ivtOff c.allBlocks c.appOff c.appBin.length (c.entry - (c.start + c.ivtOff)) hin' hca
      ⟨by omega, by omega⟩
    simp [hib]; omega
  have hgS : HabRom.gather img (offs c.ivtOff c.signedBlocks) = b.msgData := by
    rw [gather_offs _ _ _ (fun bl hbl => hin' bl (by unfold Cfg.allBlocks; simp [hbl])), hmd, hpad]
  have hmsgC : (csfBytes c.version b.cmds).take (csfHdrLen b.cmds) = b.msgCsf := hmt
  have hlen4 : 4 ≤ csfHdrLen b.cmds := by unfold csfHdrLen; omega
  -- run the reader
  unfold HabRom.habCheck
  rw [hV, bindE_ok, hFL, bindE_ok]
  simp only []
  rw [if_neg hcsfne, chk_of _ _ _ (by simp; rw [hcsfp, pSelf]; omega)]
  rw [hoff, hregion, chk_of _ _ _ (by simp; omega), hH0, bindE_ok, hH1, bindE_ok, hH3, bindE_ok,
    chk_of _ _ _ (by simp [hver, hlen4]), hR, bindE_ok]
  have hcsfeq : c.ivt.csf = c.start + c.ivtOff + c.csfOff := by rw [hcsfp, pSelf]
  rw [hcsfeq, hW, bindE_ok]
  by_cases he : isEnc c.flags = true
  · -- encrypted
    simp only [he, ↓reduceIte]
    obtain ⟨e, rfl⟩ : ∃ e, enc = some e := Option.isSome_iff_exists.1 (by rw [hE, he])
    have hwd : w.dec = offs c.ivtOff c.encryptedBlocks := hO.dec
    have hwm : w.macRef = some (L6, n6) := hO.macRef
    have hws : w.secretLoc = some (secretKeyLocN c.ils c.app.length c.start) := by
      rw [hO.secretLoc, ← hloc e rfl]; rfl
    have h12 : c.flags = 12 := by
      rcases h.flags with h0 | h0 | h0
      · exact absurd h0 ha
      · rw [hf.2.1, h0] at he; cases he
      · exact h0
    obtain ⟨c0, hml, _, _, hdec⟩ := enc_restores_explicit cr sg fuel c b h hb h12 hl hm
    have hmlr := (macLenOk_iff c.macLen).1 hm
    obtain ⟨hms, hmn⟩ := hMac he
    have hall : (offs c.ivtOff c.signedBlocks) ++ (offs c.ivtOff c.encryptedBlocks) = offs c.ivtOff c.allBlocks := by
      unfold Cfg.allBlocks offs; simp [he]
    have hrm := readMac_blob (csfBytes c.version b.cmds) L6 n6 c.version c.nonce (encMac cr c) hms hmn hn
      (by rw [hml]; exact hmlr)
    have hgE : HabRom.gather img (offs c.ivtOff c.encryptedBlocks) =
        blocksData (imagePadded c b.app (some (csfBytes c.version b.cmds))) c.encryptedBlocks := by
      rw [gather_offs _ _ _ (fun bl hbl => hin' bl (by unfold Cfg.allBlocks; simp [hbl, he])), hpad]
    have hdb : HabRom.decryptBlocks cr img w c.nonce (encMac cr c) (some c.dek) = .ok (some c.appBin) := by
      simp only [HabRom.decryptBlocks, hwm, Option.isSome_some, ↓reduceIte, hwd]
      rw [hgE, hml, hdec]
    have hsec : HabRom.secretOk (some (secretKeyLocN c.ils c.app.length c.start)) (some (L6, n6)) (c.start + c.ivtOff + c.csfOff) = true := by
      simp only [HabRom.secretOk, secret_key_loc_lemma c h, e8]
      simp
    have hfin := finish_ok cr img (csfBytes c.version b.cmds)
      { entry := c.entry, dcd := c.ivt.dcd, self := c.start + c.ivtOff, csf := c.start + c.ivtOff + c.csfOff, start := c.start, blen := c.bdt.length }
      c.csfOff (csfHdrLen b.cmds) _ _ w
      (some c.dek) (c.nonce, encMac cr c) (some c.appBin) hO.csfSig hO.dataSig hdis
      (by rw [hwa, hwd, hall]; exact hd4) (by rw [hwa, hwd, hall]; exact hc5)
      (by rw [hwa, hwd, hall]; exact hc6) (by rw [hwa, hwd, hall]; exact hc7)
      (by rw [hwa, hwd, hall]; exact hc8) (by rw [hwa, hwd, hall]; exact hc9)
      (by rw [hwm]; simp only [Option.isSome_some, ↓reduceIte]; rw [pBl, hilen]; simp [he, HabConsts.keyblobSize, e8] <;> omega)
      (by rw [hws, hwm]; exact hsec) (by rw [hwm]; exact hrm) hdb
    rw [hfin]
    exact ⟨_, rfl, hmsgC, by simp only; rw [hwa]; exact hgS, rfl, rfl, rfl, hwa, hwd, rfl, rfl, rfl⟩
  · -- authenticated
    simp only [he, Bool.false_eq_true, ↓reduceIte]
    have hen : enc = none := by
      cases enc with
      | none => rfl
      | some e => rw [← hE] at he; simp at he
    subst hen
    have hwd : w.dec = [] := hO.dec
    have hwm : w.macRef = none := hO.macRef
    have hall : (offs c.ivtOff c.signedBlocks) ++ [] = offs c.ivtOff c.allBlocks := by
      unfold Cfg.allBlocks offs; simp [he]
    have hfin := finish_ok cr img (csfBytes c.version b.cmds)
      { entry := c.entry, dcd := c.ivt.dcd, self := c.start + c.ivtOff, csf := c.start + c.ivtOff + c.csfOff, start := c.start, blen := c.bdt.length }
      c.csfOff (csfHdrLen b.cmds) _ _ w none ([], []) none hO.csfSig hO.dataSig hdis
      (by rw [hwa, hwd, hall]; exact hd4) (by rw [hwa, hwd, hall]; exact hc5)
      (by rw [hwa, hwd, hall]; exact hc6) (by rw [hwa, hwd, hall]; exact hc7)
      (by rw [hwa, hwd, hall]; exact hc8) (by rw [hwa, hwd, hall]; exact hc9)
      (by rw [hwm]; simp only [Option.isSome_none, Bool.false_eq_true, ↓reduceIte]; rw [pBl, hilen]; simp [he, e8] <;> omega)
      (by rw [hwm]; cases w.secretLoc <;> rfl) (by rw [hwm]; rfl) rfl
    rw [hfin]
    exact ⟨_, rfl, hmsgC, by simp only; rw [hwa]; exact hgS, rfl, rfl, rfl, hwa, hwd, rfl, rfl, rfl⟩

/-- commands and walk: what the reader has after walking the CSF of a general container -/
theorem rom_walk_gen (cr : CryptoOps) (sg : Signer) (fuel : Nat) (c : Cfg) (b : Built) (s : StdCsf)
    (fast : Bool) (gaps : List (List Cmd)) (L0 : Nat → Nat)
    (h : c.WF) (hs : GenCfg c s fast gaps L0) (ha : c.flags ≠ 0) (hb : build cr sg fuel c = some b)
    (hfit : CsfWF c.version b.cmds) :
    ∃ (w : Walk) (enc : Option EncPart) (L6 n6 : Nat) (refs : List (Nat × Nat)),
      HabRom.walk (csfBytes c.version b.cmds) (csfHdrLen b.cmds) (c.start + c.ivtOff) (c.start + c.ivtOff + c.csfOff) {}
          ((assignLocs (csfHdrLen b.cmds) b.cmds).map (fun c => toR c.cmd)) = .ok w ∧
      enc.isSome = isEnc c.flags ∧
      (∀ e, enc = some e → e.loc = secretKeyLocN c.ils c.app.length c.start) ∧
      WalkOut w (offs c.ivtOff c.signedBlocks) (offs c.ivtOff c.encryptedBlocks) enc L6 n6 refs ∧
      HabRom.disjoint w.refs = true ∧
      (isEnc c.flags = true →
        slice (csfBytes c.version b.cmds) L6 n6 = macBlob c.version c.nonce (encMac cr c) ∧
        n6 = (macBlob c.version c.nonce (encMac cr c)).length) ∧
      w.csfCert.isSome = !fast ∧ w.imgCert.isSome = !fast ∧ w.srk.map (·.2.2) = some s.srkSrc := by
  have hf := flags_cases c.flags h.flags
  have hcsf : c.hasCsf = true := by rw [h.csf]; simpa using ha
  have hau : isAuth c.flags = true := by rw [hf.1]; simpa using ha
  have hg : GapsOk gaps := hs.gaps
  obtain ⟨x, hF⟩ := build_gen cr sg fuel c b s fast gaps L0 hs hb hcsf hau
  obtain ⟨hin, _, _⟩ := blocks_cover_lemma c h ha
  have hinS : ∀ bl ∈ c.signedBlocks, bl.base = c.start + bl.start ∧ c.ivtOff ≤ bl.start ∧ bl.start + bl.size ≤ c.ivtOff + c.csfOff :=
    fun bl hbl => hin bl (by unfold Cfg.allBlocks; simp [hbl])
  have hoD := toOffsets_blocks c.start c.ivtOff c.csfOff c.signedBlocks hinS
  have hbdne : blockPairs c.signedBlocks ≠ [] := by simp [blockPairs, Cfg.signedBlocks]
  -- the final encrypted part
  generalize hencF : (if isEnc c.flags then some (⟨secretKeyLocN c.ils c.app.length c.start, blockPairs c.encryptedBlocks,
      some (macBlob c.version c.nonce (encMac cr c))⟩ : EncPart) else none) = encF at hF
  have hencS : encF.isSome = isEnc c.flags := by rw [← hencF]; split <;> simp_all
  have hencE : ∀ e, encF = some e → isEnc c.flags = true ∧ e = ⟨secretKeyLocN c.ils c.app.length c.start,
      blockPairs c.encryptedBlocks, some (macBlob c.version c.nonce (encMac cr c))⟩ := by
    intro e he; rw [← hencF] at he; split at he
    · injection he with he; exact ⟨by assumption, he.symm⟩
    · cases he
  have hmacS : ∀ e, encF = some e → e.mac.isSome := fun e he => by rw [(hencE e he).2]; rfl
  -- the assigned list
  have hA : ∀ n, ∃ L, assignLocs n b.cmds = weave gaps (mainList fast s L (sigBlob c.version x)
      (blockPairs c.signedBlocks) (sigBlob c.version (sg.data b.msgData)) encF) := by
    intro n
    cases fast with
    | false =>
      obtain ⟨L, hL⟩ := assign_std s.core (by simp [StdCsf.core]) n L0 (sigBlob c.version x)
        (blockPairs c.signedBlocks) (sigBlob c.version (sg.data b.msgData)) encF hmacS
      refine ⟨L, ?_⟩
      rw [hF, assignLocs_weave _ _ _ hg]
      simp only [mainList, Bool.false_eq_true, ↓reduceIte, mainStd]
      rw [hL]
    | true =>
      obtain ⟨L, hL⟩ := assign_fast s n L0 (sigBlob c.version x)
        (blockPairs c.signedBlocks) (sigBlob c.version (sg.data b.msgData)) encF hmacS
      refine ⟨L, ?_⟩
      rw [hF, assignLocs_weave _ _ _ hg]
      simp only [mainList, ↓reduceIte]
      rw [hL]
  obtain ⟨L, hA⟩ := hA (csfHdrLen b.cmds)
  have hasc := refsOf_ascending c.version b.cmds hfit
  rw [hA, refsOf_weave _ _ hg] at hasc
  -- data references
  have dr : ∀ (cc : CsfCmd) (d : Bytes) (t p : Nat) (body : Bytes) (what : String),
      cc ∈ assignLocs (csfHdrLen b.cmds) b.cmds → needsRef cc.cmd = true → cc.data = some d → t < 256 → p < 256 →
      d = hdr t d.length p ++ body →
      HabRom.dataRef (csfBytes c.version b.cmds) (csfHdrLen b.cmds) cc.cmd.loc t what = .ok (cc.cmd.loc, d.length) :=
    fun cc d t p body what hc hr hd ht hp he => dataRef_located c.version b.cmds hfit cc hc hr d hd t p body ht hp he what
  obtain ⟨p1, body1, hp1, e1⟩ := hs.srkBlob
  obtain ⟨p2, body2, hp2, e2⟩ := hs.csfCert
  obtain ⟨p4, body4, hp4, e4⟩ := hs.imgCert
  have hv : c.version < 256 := hfit.1
  -- the encrypted part, whichever chain
  have hencR : ∀ e, encF = some e →
      (⟨.autDat 0 s.keySlot 0xA3 s.engDec s.cfgDec (L 6) (blockPairs c.encryptedBlocks),
        some (macBlob c.version c.nonce (encMac cr c))⟩ : CsfCmd) ∈ assignLocs (csfHdrLen b.cmds) b.cmds →
      s.kek ≤ 3 ∧ s.keySlot ≤ 3 ∧ e.blocks ≠ [] ∧
      HabRom.dataRef (csfBytes c.version b.cmds) (csfHdrLen b.cmds) (L 6) 0xAC "MAC" =
        .ok (L 6, (macBlob c.version c.nonce (encMac cr c)).length) ∧
      HabRom.toOffsets (c.start + c.ivtOff) (c.start + c.ivtOff + c.csfOff) e.blocks = .ok (offs c.ivtOff c.encryptedBlocks) := by
    intro e hee hmem6
    obtain ⟨he, rfl⟩ := hencE e hee
    have hinE : ∀ bl ∈ c.encryptedBlocks, bl.base = c.start + bl.start ∧ c.ivtOff ≤ bl.start ∧ bl.start + bl.size ≤ c.ivtOff + c.csfOff :=
      fun bl hbl => hin bl (by unfold Cfg.allBlocks; simp [hbl, he])
    have hoE := toOffsets_blocks c.start c.ivtOff c.csfOff c.encryptedBlocks hinE
    have d6 := dr _ (macBlob c.version c.nonce (encMac cr c)) Hab.Spec.tagMAC c.version _ "MAC" hmem6 rfl rfl (by decide) hv
      (macBlob_form _ _ _)
    exact ⟨hs.kek, hs.keySlot, by simp [blockPairs, Cfg.encryptedBlocks], d6, hoE⟩
  have hMacG : (⟨.autDat 0 s.keySlot 0xA3 s.engDec s.cfgDec (L 6) (blockPairs c.encryptedBlocks),
        some (macBlob c.version c.nonce (encMac cr c))⟩ : CsfCmd) ∈ assignLocs (csfHdrLen b.cmds) b.cmds →
      slice (csfBytes c.version b.cmds) (L 6) (macBlob c.version c.nonce (encMac cr c)).length =
        macBlob c.version c.nonce (encMac cr c) :=
    fun hmem6 => (blob_at_loc c.version b.cmds hfit _ hmem6 rfl _ rfl).1
  have hd3 := dr ⟨.autDat 0 1 0xC5 s.engCsf s.cfgCsf (L 3) [], some (sigBlob c.version x)⟩ (sigBlob c.version x)
    Hab.Spec.tagSIG c.version x "signature"
  cases fast with
  | false =>
    simp only [mainList, Bool.false_eq_true, ↓reduceIte, mainStd] at hA hasc
    have hmem : ∀ cc, cc ∈ s.core.list L (sigBlob c.version x) (blockPairs c.signedBlocks)
        (sigBlob c.version (sg.data b.msgData)) encF → cc ∈ assignLocs (csfHdrLen b.cmds) b.cmds :=
      fun cc hcc => by rw [hA]; exact mem_weave _ _ _ hcc
    rw [refsOf_std s.core (by simp [StdCsf.core])] at hasc
    have hdis := disjoint_reverse_of_ascending _ hasc
    have d1 := dr ⟨.insKey 0 3 s.srkAlg s.srkSrc 0 (L 1), some s.srkBlob⟩ s.srkBlob Hab.Spec.tagCRT p1 body1 "SRK table"
      (hmem _ (by simp [StdCsf.list, StdCsf.core])) rfl rfl (by decide) hp1 e1
    have d2 := dr ⟨.insKey 2 9 s.csfkAlg 0 1 (L 2), some s.csfCert⟩ s.csfCert Hab.Spec.tagCRT p2 body2 "certificate"
      (hmem _ (by simp [StdCsf.list, StdCsf.core])) rfl rfl (by decide) hp2 e2
    have d3 := hd3 (hmem _ (by simp [StdCsf.list, StdCsf.core])) rfl rfl (by decide) hv (sigBlob_form _ _)
    have d4 := dr ⟨.insKey 0 9 s.imgAlg 0 s.imgSlot (L 4), some s.imgCert⟩ s.imgCert Hab.Spec.tagCRT p4 body4 "certificate"
      (hmem _ (by simp [StdCsf.list, StdCsf.core])) rfl rfl (by decide) hp4 e4
    have d5 := dr ⟨.autDat 0 s.imgSlot 0xC5 s.engDat s.cfgDat (L 5) (blockPairs c.signedBlocks), some (sigBlob c.version (sg.data b.msgData))⟩
      (sigBlob c.version (sg.data b.msgData)) Hab.Spec.tagSIG c.version _ "signature"
      (hmem _ (by simp [StdCsf.list, StdCsf.core])) rfl rfl (by decide) hv (sigBlob_form _ _)
    have hmem6 : ∀ e, encF = some e → (⟨.autDat 0 s.keySlot 0xA3 s.engDec s.cfgDec (L 6) (blockPairs c.encryptedBlocks),
        some (macBlob c.version c.nonce (encMac cr c))⟩ : CsfCmd) ∈ assignLocs (csfHdrLen b.cmds) b.cmds := by
      intro e hee
      obtain ⟨he, rfl⟩ := hencE e hee
      exact hmem _ (by rw [hee]; simp [StdCsf.list, StdCsf.core])
    obtain ⟨w, hw, hO, hcc, hic, hsk⟩ := walk_stdP (csfBytes c.version b.cmds) (csfHdrLen b.cmds) (c.start + c.ivtOff)
      (c.start + c.ivtOff + c.csfOff) s.core (by simp [StdCsf.core]) L (sigBlob c.version x) (blockPairs c.signedBlocks)
      (sigBlob c.version (sg.data b.msgData)) encF _ _ _ _ _ (macBlob c.version c.nonce (encMac cr c)).length
      (offs c.ivtOff c.signedBlocks) (offs c.ivtOff c.encryptedBlocks) d1 d2 d3 d4 d5 hs.srkSrc hs.imgSlot hbdne hoD
      (fun e hee => hencR e hee (hmem6 e hee))
    refine ⟨w, encF, L 6, _, _, ?_, hencS, fun e hee => by rw [(hencE e hee).2], hO, ?_, ?_, by rw [hcc]; rfl, by rw [hic]; rfl,
      by rw [hsk]; rfl⟩
    · rw [hA, walk_weave _ _ _ _ _ _ _ hg]; exact hw
    · rw [hO.refs]
      cases encF with
      | none => simpa [StdCsf.core] using hdis
      | some e => obtain ⟨_, rfl⟩ := hencE e rfl; simpa [StdCsf.core] using hdis
    · intro he
      obtain ⟨e, hee⟩ := Option.isSome_iff_exists.1 (by rw [hencS, he] : encF.isSome = true)
      exact ⟨hMacG (hmem6 e hee), rfl⟩
  | true =>
    simp only [mainList, ↓reduceIte] at hA hasc
    have hmem : ∀ cc, cc ∈ mainFast s L (sigBlob c.version x) (blockPairs c.signedBlocks)
        (sigBlob c.version (sg.data b.msgData)) encF → cc ∈ assignLocs (csfHdrLen b.cmds) b.cmds :=
      fun cc hcc => by rw [hA]; exact mem_weave _ _ _ hcc
    rw [refsOf_fast] at hasc
    have hdis := disjoint_reverse_of_ascending _ hasc
    have d1 := dr ⟨.insKey 0 3 s.srkAlg s.srkSrc 0 (L 1), some s.srkBlob⟩ s.srkBlob Hab.Spec.tagCRT p1 body1 "SRK table"
      (hmem _ (by simp [mainFast])) rfl rfl (by decide) hp1 e1
    have d3 := hd3 (hmem _ (by simp [mainFast])) rfl rfl (by decide) hv (sigBlob_form _ _)
    have d5 := dr ⟨.autDat 0 0 0xC5 s.engDat s.cfgDat (L 5) (blockPairs c.signedBlocks), some (sigBlob c.version (sg.data b.msgData))⟩
      (sigBlob c.version (sg.data b.msgData)) Hab.Spec.tagSIG c.version _ "signature"
      (hmem _ (by simp [mainFast])) rfl rfl (by decide) hv (sigBlob_form _ _)
    have hmem6 : ∀ e, encF = some e → (⟨.autDat 0 s.keySlot 0xA3 s.engDec s.cfgDec (L 6) (blockPairs c.encryptedBlocks),
        some (macBlob c.version c.nonce (encMac cr c))⟩ : CsfCmd) ∈ assignLocs (csfHdrLen b.cmds) b.cmds := by
      intro e hee
      obtain ⟨he, rfl⟩ := hencE e hee
      exact hmem _ (by rw [hee]; simp [mainFast])
    obtain ⟨w, hw, hO, hcc, hic, hsk⟩ := walk_fast (csfBytes c.version b.cmds) (csfHdrLen b.cmds) (c.start + c.ivtOff)
      (c.start + c.ivtOff + c.csfOff) s L (sigBlob c.version x) (blockPairs c.signedBlocks)
      (sigBlob c.version (sg.data b.msgData)) encF _ _ _ (macBlob c.version c.nonce (encMac cr c)).length
      (offs c.ivtOff c.signedBlocks) (offs c.ivtOff c.encryptedBlocks) d1 d3 d5 hs.srkSrc hbdne hoD
      (fun e hee => hencR e hee (hmem6 e hee))
    refine ⟨w, encF, L 6, _, _, ?_, hencS, fun e hee => by rw [(hencE e hee).2], hO, ?_, ?_, by rw [hcc]; rfl, by rw [hic]; rfl,
      by rw [hsk]; rfl⟩
    · rw [hA, walk_weave _ _ _ _ _ _ _ hg]; exact hw
    · rw [hO.refs]
      cases encF with
      | none => simpa using hdis
      | some e => obtain ⟨_, rfl⟩ := hencE e rfl; simpa using hdis
    · intro he
      obtain ⟨e, hee⟩ := Option.isSome_iff_exists.1 (by rw [hencS, he] : encF.isSome = true)
      exact ⟨hMacG (hmem6 e hee), rfl⟩

/-- **the ROM-side reader accepts what the builder exports** — standard chain or fast authentication, Set / Unlock /
    NOP commands in any gap -/
theorem rom_accepts_general_lemma (cr : CryptoOps) (hl : CryptoLaws cr) (sg : Signer) (fuel : Nat) (c : Cfg) (b : Built)
    (s : StdCsf) (fast : Bool) (gaps : List (List Cmd)) (L0 : Nat → Nat)
    (h : c.WF) (hs : GenCfg c s fast gaps L0) (ha : c.flags ≠ 0) (hb : build cr sg fuel c = some b)
    (hfit : CsfWF c.version b.cmds)
    (hd : ∀ d, c.dcd = some d → DcdWF d) (hx : ∀ x, c.xmcd = some x → XmcdWF x)
    (hm : macLenOk c.macLen = true) (hn : 7 ≤ c.nonce.length ∧ c.nonce.length ≤ 13) (hver : c.version / 16 = 4)
    (hentry : c.start + c.ils ≤ c.entry ∧ c.entry < c.start + c.ils + c.appBin.length) :
    ∃ r, HabRom.habCheck cr (exportImage c b) (if isEnc c.flags then some c.dek else none) = .ok r ∧
      r.msgCsf = b.msgCsf ∧ r.msgData = b.msgData ∧ r.plain = (if isEnc c.flags then some c.appBin else none) ∧
      r.csfOff = c.csfOff ∧ r.hdrLen = csfHdrLen b.cmds ∧ r.authBlocks = offs c.ivtOff c.signedBlocks ∧
      r.decBlocks = (if isEnc c.flags then offs c.ivtOff c.encryptedBlocks else []) ∧
      r.srk.map (·.2.2) = some s.srkSrc ∧ r.csfCert.isSome = !fast ∧ r.imgCert.isSome = !fast := by
  obtain ⟨w, enc, L6, n6, refs, hW, hE, hloc, hO, hdis, hMac, hcc, hic, hsk⟩ :=
    rom_walk_gen cr sg fuel c b s fast gaps L0 h hs ha hb hfit
  obtain ⟨r, hr, q1, q2, q3, q4, q5, q6, q7, q8, q9, q10⟩ := rom_accepts_of_walk cr hl sg fuel c b w enc L6 n6 refs h ha hb hfit hd hx hm hn
    hver hentry hW hE hloc hO hdis hMac
  exact ⟨r, hr, q1, q2, q3, q4, q5, q6, q7, by rw [q8]; exact hsk, by rw [q9]; exact hcc, by rw [q10]; exact hic⟩

/-! ### the executable recogniser is sound -/

theorem crtBlobB_sound (d : Bytes) (h : crtBlobB d = true) : CrtBlob d := by
  unfold crtBlobB at h
  split at h
  · next a b c p body =>
    exact ⟨p.toNat, body, p.toNat_lt, by simpa using h⟩
  · cases h

theorem shapeOk_sound (c : Cfg) (s : StdCsf) (fast : Bool) (gaps : List (List Cmd)) (L0 : Nat → Nat)
    (h : shapeOk c s fast gaps L0 = true) : GenCfg c s fast gaps L0 := by
  unfold shapeOk at h
  simp only [Bool.and_eq_true, decide_eq_true_eq, List.all_eq_true] at h
  obtain ⟨⟨⟨⟨⟨⟨⟨⟨⟨h1, h2⟩, h3⟩, h4⟩, h5⟩, h6⟩, h7⟩, h8⟩, h9⟩, h10⟩ := h
  exact { cmds := h1, gaps := h2, srkSrc := h3, imgSlot := ⟨h4, h5⟩, kek := h6, keySlot := h7,
          srkBlob := crtBlobB_sound _ h8, csfCert := crtBlobB_sound _ h9, imgCert := crtBlobB_sound _ h10 }

theorem genShape_sound_lemma (c : Cfg) (s : StdCsf) (fast : Bool) (gaps : List (List Cmd)) (L0 : Nat → Nat)
    (h : genShape c = some (s, fast, gaps, L0)) : GenCfg c s fast gaps L0 := by
  unfold genShape at h
  simp only at h
  split at h
  · next hk =>
    injection h with h; injection h with h1 h; injection h with h2 h; injection h with h3 h4
    subst h1 h2 h3 h4; exact shapeOk_sound _ _ _ _ _ hk
  · split at h
    · next hk =>
      injection h with h; injection h with h1 h; injection h with h2 h; injection h with h3 h4
      subst h1 h2 h3 h4; exact shapeOk_sound _ _ _ _ _ hk
    · cases h

end SpsdkVerif.Hab
