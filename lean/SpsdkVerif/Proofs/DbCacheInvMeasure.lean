/-
C18 — interleavings of N processes (with crashes): the step bound (`pstep_measure`, `gstep_measure`,
`sched_length_le`).  Helper file of `Proofs/DbCacheInv.lean`.
-/
import SpsdkVerif.Proofs.DbCacheSpec
namespace SpsdkVerif.DbCache.Sched
open SpsdkVerif

theorem writerStart_rank (G : Guards) : (writerStart G).rank ≤ 8 := by
  unfold writerStart afterWAcquire
  repeat' split
  all_goals simp [PC.rank]

theorem afterWAcquire_rank (G : Guards) : (afterWAcquire G).rank ≤ 7 := by
  unfold afterWAcquire
  repeat' split
  all_goals simp [PC.rank]

theorem rq_measure (env : Env) (G : Guards) (p : Proc) (qs : List Nat) :
    (runQueries env G p qs).measure ≤ qs.length * 32 := by
  induction qs generalizing p with
  | nil => simp [runQueries, Proc.measure, PC.rank]
  | cons k rest ih =>
    simp only [runQueries]
    split
    · rename_i c _
      have := ih { p with answers := p.answers ++ [(k, c)] }
      simp only [List.length_cons]; omega
    · split
      · have := ih { p with mem := p.mem ++ [(k, env.loadCfg k)], answers := p.answers ++ [(k, env.loadCfg k)] }
        simp only [List.length_cons]; omega
      · have := writerStart_rank G
        simp only [Proc.measure, List.length_cons]; omega

theorem fl_measure (env : Env) (G : Guards) (p : Proc) :
    (finishLoader env G p).measure ≤ p.todo.length * 32 := by
  unfold finishLoader; exact rq_measure ..

theorem lr_measure (env : Env) (G : Guards) (p : Proc) (e : Exc) :
    (loaderRaise env G p e).measure ≤ p.todo.length * 32 + 14 := by
  simp only [loaderRaise]
  split
  · split
    · split <;> split <;> simp [Proc.measure, PC.rank]
    · split
      · have := fl_measure env G { p with loaded := none }; simp only at this; omega
      · have := fl_measure env G p; omega
  · simp [Proc.measure, PC.rank]

theorem lc_measure (env : Env) (G : Guards) (p : Proc) :
    (loaderChecks env G p).measure ≤ p.todo.length * 32 + 15 := by
  simp only [loaderChecks]
  split
  · have := fl_measure env G p; omega
  · rename_i v _
    split
    · split
      · have := lr_measure env G p G.l.typeExc; omega
      · simp [Proc.measure, PC.rank]
    · split
      · have := fl_measure env G { p with selfFp := some v.fp }; simp only at this; omega
      · split
        · split <;> simp [Proc.measure, PC.rank]
        · split
          · have := fl_measure env G { p with loaded := none }; simp only at this; omega
          · have := fl_measure env G p; omega

theorem lvr_measure (env : Env) (G : Guards) (p : Proc) (c : Cont) :
    (leaveRead env G p c).measure ≤ p.todo.length * 32 + 16 := by
  unfold leaveRead
  split
  · simp [Proc.measure, PC.rank]
  · split
    · have := lc_measure env G p; omega
    · have := lr_measure env G p ‹_›; omega

theorem wr_measure (env : Env) (G : Guards) (p : Proc) (e : Exc) :
    (writerRaise env G p e).measure ≤ p.todo.length * 32 := by
  unfold writerRaise
  split
  · exact rq_measure ..
  · simp [Proc.measure, PC.rank]

theorem lvw_measure (env : Env) (G : Guards) (p : Proc) (c : Cont) :
    (leaveWrite env G p c).measure ≤ p.todo.length * 32 + 2 := by
  unfold leaveWrite
  split
  · simp [Proc.measure, PC.rank]
  · split
    · have := rq_measure env G p p.todo; omega
    · have := wr_measure env G p ‹_›; omega


theorem lt_fl {env G p n} (h : p.todo.length * 32 < n) : (finishLoader env G p).measure < n :=
  Nat.lt_of_le_of_lt (fl_measure _ _ _) h
theorem lt_lvr {env G p c n} (h : p.todo.length * 32 + 16 < n) : (leaveRead env G p c).measure < n :=
  Nat.lt_of_le_of_lt (lvr_measure _ _ _ _) h
theorem lt_lc {env G p n} (h : p.todo.length * 32 + 15 < n) : (loaderChecks env G p).measure < n :=
  Nat.lt_of_le_of_lt (lc_measure _ _ _) h
theorem lt_lr {env G p e n} (h : p.todo.length * 32 + 14 < n) : (loaderRaise env G p e).measure < n :=
  Nat.lt_of_le_of_lt (lr_measure _ _ _ _) h
theorem lt_lvw {env G p c n} (h : p.todo.length * 32 + 2 < n) : (leaveWrite env G p c).measure < n :=
  Nat.lt_of_le_of_lt (lvw_measure _ _ _ _) h
theorem lt_wr {env G p e n} (h : p.todo.length * 32 < n) : (writerRaise env G p e).measure < n :=
  Nat.lt_of_le_of_lt (wr_measure _ _ _ _) h
theorem lt_rq {env G p qs n} (h : qs.length * 32 < n) : (runQueries env G p qs).measure < n :=
  Nat.lt_of_le_of_lt (rq_measure _ _ _ _) h

attribute [local irreducible] finishLoader leaveRead loaderChecks loaderRaise leaveWrite writerRaise runQueries Proc.measure in
/-- every action strictly decreases the bound of the acting process -/
theorem pstep_measure_aux (env : Env) (G : Guards) (i : Nat) (sh sh' : Sh) (p p' : Proc)
    (h : pstep env G i sh p = some (sh', p')) : p'.measure < p.measure := by
  have hm : p.measure = p.todo.length * 32 + p.pc.rank := by simp only [Proc.measure]
  unfold pstep at h
  split at h
  all_goals (rename_i hpc; rw [hm, hpc]; simp only [PC.rank])
  all_goals repeat' (split at h)
  all_goals first
    | (cases h; done)
    | (simp only [Option.some.injEq, Prod.mk.injEq] at h
       obtain ⟨-, rfl⟩ := h)
  all_goals first
    | (apply lt_fl) 
    | (apply lt_lvr) 
    | (apply lt_lc) 
    | (apply lt_lr) 
    | (apply lt_lvw) 
    | (apply lt_wr) 
    | (apply lt_rq) 
    | skip
  all_goals first
    | omega
    | (simp only [Proc.measure, PC.rank]; omega)
    | (have := afterWAcquire_rank G; simp only [Proc.measure]; omega)

theorem sum_set_lt {α} (f : α → Nat) (l : List α) (i : Nat) (a b : α) (h : l[i]? = some a) (hlt : f b < f a) :
    ((l.set i b).map f).sum < (l.map f).sum := by
  induction l generalizing i with
  | nil => simp at h
  | cons x xs ih =>
    cases i with
    | zero => simp at h; subst h; simp; omega
    | succ i =>
      simp only [List.getElem?_cons_succ] at h
      have := ih i h
      simp only [List.set_cons_succ, List.map_cons, List.sum_cons]; omega

theorem crashStep_measure (env : Env) (G : Guards) (i n : Nat) (sh sh' : Sh) (p p' : Proc)
    (h : crashStep env G i n sh p = some (sh', p')) : p'.measure < p.measure := by
  unfold crashStep at h
  split at h
  · cases h
  · rename_i ht
    simp only [Option.some.injEq, Prod.mk.injEq] at h
    obtain ⟨-, rfl⟩ := h
    simp only [Proc.measure, PC.rank]
    cases hpc : p.pc <;> simp [hpc, PC.terminal] at ht ⊢

attribute [local irreducible] finishLoader leaveRead loaderChecks loaderRaise leaveWrite writerRaise runQueries Proc.measure in
theorem failStep_measure (env : Env) (G : Guards) (e : Exc) (n : Nat) (sh sh' : Sh) (p p' : Proc)
    (h : failStep env G e n sh p = some (sh', p')) : p'.measure < p.measure := by
  have hm : p.measure = p.todo.length * 32 + p.pc.rank := by simp only [Proc.measure]
  unfold failStep at h
  split at h
  · cases h
  · split at h
    all_goals first
      | (cases h; done)
      | (rename_i hpc; rw [hm, hpc]; simp only [PC.rank]
         simp only [Option.some.injEq, Prod.mk.injEq] at h
         obtain ⟨-, rfl⟩ := h)
    all_goals first
      | (apply lt_lvr)
      | (apply lt_lr)
      | (apply lt_lvw)
      | (apply lt_wr)
    all_goals omega

theorem gstep_measure_aux (env : Env) (G : Guards) (s s' : St) (l : Lbl) (hl : l.isWipe = false)
    (h : gstep env G s l = some s') : s'.totalMeasure < s.totalMeasure := by
  unfold gstep at h
  split at h
  · split at h
    · cases h
    · rename_i p hp
      split at h
      · cases h
      · rename_i sh' p' hs
        simp only [Option.some.injEq] at h; subst h
        exact sum_set_lt _ _ _ _ _ hp (pstep_measure_aux _ _ _ _ _ _ _ hs)
  · split at h
    · cases h
    · rename_i p hp
      split at h
      · cases h
      · rename_i sh' p' hs
        simp only [Option.some.injEq] at h; subst h
        exact sum_set_lt _ _ _ _ _ hp (crashStep_measure _ _ _ _ _ _ _ _ hs)
  · split at h
    · cases h
    · rename_i p hp
      split at h
      · cases h
      · rename_i sh' p' hs
        simp only [Option.some.injEq] at h; subst h
        exact sum_set_lt _ _ _ _ _ hp (failStep_measure _ _ _ _ _ _ _ _ hs)
  · simp [Lbl.isWipe] at hl

/-- a schedule is never longer than the initial bound (wipes do not count: they do not change the processes) -/
theorem sched_length_le_aux (env : Env) (G : Guards) (s s' : St) (sched : List Lbl)
    (h : runSched env G s sched = some s') :
    (sched.filter (fun l => !l.isWipe)).length + s'.totalMeasure ≤ s.totalMeasure := by
  induction sched generalizing s with
  | nil => simp [runSched] at h; subst h; simp
  | cons l ls ih =>
    simp only [runSched] at h
    split at h
    · cases h
    · rename_i s1 hs1
      have := ih s1 h
      cases hw : l.isWipe with
      | false =>
        have := gstep_measure_aux env G s s1 l hw hs1
        simp only [List.filter_cons, hw, Bool.not_false, if_true, List.length_cons]; omega
      | true =>
        have hl : l = .wipe := by cases l <;> simp [Lbl.isWipe] at hw ⊢
        subst hl
        simp only [gstep, Option.some.injEq] at hs1
        subst hs1
        simp only [List.filter_cons, hw, Bool.not_true]
        exact this

end SpsdkVerif.DbCache.Sched
