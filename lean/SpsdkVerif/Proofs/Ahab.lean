/- Helper lemmas for Properties/C06.lean (AHAB image). Core Lean only. -/
import SpsdkVerif.Model.Ahab
import SpsdkVerif.Model.AhabVerify
import SpsdkVerif.Spec.AhabRom
import SpsdkVerif.Proofs.Misc

namespace SpsdkVerif.Ahab
open SpsdkVerif SpsdkVerif.Misc
open SpsdkVerif.Generated

/-! ### little-endian integers, `struct.pack` / `unpack` -/

theorem leEnc_length (n v : Nat) : (leEnc n v).length = n := by
  simp [leEnc, beEnc_length']

theorem leDec_leEnc (n v : Nat) (h : v < 256 ^ n) : leDec (leEnc n v) = v := by
  simp [leDec, leEnc, beDec_beEnc_mod, Nat.mod_eq_of_lt h]

theorem fits_cons (w v : Nat) (ws vs : List Nat) :
    fits (w :: ws) (v :: vs) = true ↔ v < 256 ^ w ∧ fits ws vs = true := by
  simp [fits]

theorem packInts_length : ∀ (ws vs : List Nat), fits ws vs = true → (packInts ws vs).length = intsLen ws
  | [], [], _ => rfl
  | [], _ :: _, h => by simp [fits] at h
  | _ :: _, [], h => by simp [fits] at h
  | w :: ws, v :: vs, h => by
    rw [fits_cons] at h
    simp [packInts, intsLen, leEnc_length, packInts_length ws vs h.2]

/-- `unpack(fmt, pack(fmt, *vs) + rest)` returns the values -/
theorem unpack_pack : ∀ (ws vs : List Nat) (rest : Bytes), fits ws vs = true →
    unpackInts ws (packInts ws vs ++ rest) = some vs
  | [], [], _, _ => rfl
  | [], _ :: _, _, h => by simp [fits] at h
  | _ :: _, [], _, h => by simp [fits] at h
  | w :: ws, v :: vs, rest, h => by
    rw [fits_cons] at h
    have hl : (leEnc w v).length = w := leEnc_length w v
    simp only [unpackInts, packInts, List.append_assoc]
    have h1 : ¬ ((leEnc w v ++ (packInts ws vs ++ rest)).length < w) := by
      simp [hl]
    rw [if_neg h1]
    have h2 : (leEnc w v ++ (packInts ws vs ++ rest)).drop w = packInts ws vs ++ rest := by
      rw [List.drop_append_of_le_length (by omega)]
      simp [List.drop_of_length_le (Nat.le_of_eq hl)]
    have h3 : (leEnc w v ++ (packInts ws vs ++ rest)).take w = leEnc w v := by
      rw [List.take_append_of_le_length (by omega)]
      exact List.take_of_length_le (Nat.le_of_eq hl)
    rw [h2, h3, unpack_pack ws vs rest h.2, leDec_leEnc w v h.1]

theorem packChecked_ok {ws vs : List Nat} {b : Bytes} (h : packChecked ws vs = .ok b) :
    fits ws vs = true ∧ b = packInts ws vs := by
  unfold packChecked at h
  split at h
  · cases h; exact ⟨by assumption, rfl⟩
  · cases h


theorem drop_packInts (ws vs : List Nat) (rest : Bytes) (h : fits ws vs = true) :
    (packInts ws vs ++ rest).drop (intsLen ws) = rest := by
  rw [List.drop_append_of_le_length (by rw [packInts_length ws vs h]; exact Nat.le_refl _)]
  simp [List.drop_of_length_le (Nat.le_of_eq (packInts_length ws vs h))]

theorem fitS_of_length (n : Nat) (b : Bytes) (h : b.length = n) : fitS n b = b := by
  unfold fitS
  rw [List.take_append_of_le_length (by omega)]
  exact List.take_of_length_le (Nat.le_of_eq h)

theorem fitS_length (n : Nat) (b : Bytes) : (fitS n b).length = n := by
  simp [fitS]

/-! ### image array entry -/

theorem iae_roundtrip' (l : AhabConsts.Layout) (hw : l.intWidths = [4, 4, 8, 8, 4, 4]) (hs : l.strFields = [(6, 64), (7, 32)])
    (hsz : l.size = 128) (e : Iae) (b rest : Bytes) (hh : e.hash.length = 64) (hi : e.iv.length = 32)
    (h : encodeIae l e = .ok b) : decodeIae l (b ++ rest) = some e := by
  unfold encodeIae at h
  cases hp : packChecked l.intWidths e.ints with
  | error err => rw [hp] at h; cases h
  | ok hb =>
    rw [hp] at h
    obtain ⟨hf, rfl⟩ := packChecked_ok hp
    have hH : hashFieldLen l = 64 := by simp [hashFieldLen, hs]
    have hI : ivFieldLen l = 32 := by simp [ivFieldLen, hs]
    simp only [hH, hI, fitS_of_length _ _ hh, fitS_of_length _ _ hi] at h
    cases h
    have hlen : (packInts l.intWidths e.ints).length = 32 := by
      rw [packInts_length _ _ hf, hw]; rfl
    unfold decodeIae
    have h1 : ¬ ((packInts l.intWidths e.ints ++ e.hash ++ e.iv ++ rest).length < l.size) := by
      simp [hlen, hh, hi, hsz]; omega
    rw [if_neg h1]
    have hu := unpack_pack l.intWidths e.ints (e.hash ++ (e.iv ++ rest)) hf
    simp only [List.append_assoc] at hu ⊢
    rw [hu]
    have hd := drop_packInts l.intWidths e.ints (e.hash ++ (e.iv ++ rest)) hf
    simp only [Iae.ints] at hd
    simp only [Iae.ints, hd, hH, hI]
    have t1 : (e.hash ++ (e.iv ++ rest)).take 64 = e.hash := by
      rw [List.take_append_of_le_length (by omega)]; exact List.take_of_length_le (Nat.le_of_eq hh)
    have t2 : (e.hash ++ (e.iv ++ rest)).drop 64 = e.iv ++ rest := by
      rw [List.drop_append_of_le_length (by omega)]; simp [List.drop_of_length_le (Nat.le_of_eq hh)]
    have t3 : (e.iv ++ rest).take 32 = e.iv := by
      rw [List.take_append_of_le_length (by omega)]; exact List.take_of_length_le (Nat.le_of_eq hi)
    rw [t1, t2, t3]

theorem encodeIae_length (l : AhabConsts.Layout) (hw : l.intWidths = [4, 4, 8, 8, 4, 4]) (hs : l.strFields = [(6, 64), (7, 32)])
    (e : Iae) (b : Bytes) (h : encodeIae l e = .ok b) : b.length = 128 := by
  unfold encodeIae at h
  cases hp : packChecked l.intWidths e.ints with
  | error err => rw [hp] at h; cases h
  | ok hb =>
    rw [hp] at h
    obtain ⟨hf, rfl⟩ := packChecked_ok hp
    cases h
    have hlen : (packInts l.intWidths e.ints).length = 32 := by
      rw [packInts_length _ _ hf, hw]; rfl
    simp [hlen, fitS_length, hashFieldLen, ivFieldLen, hs]


/-! ### container header -/

theorem hdrLayout_widths (v : Ver) : (v.hdrLayout).intWidths = [1, 2, 1, 4, 2, 1, 1, 2, 2] ∧ (v.hdrLayout).size = 16 := by
  cases v <;> exact ⟨rfl, rfl⟩

theorem iaeLayout_facts (v : Ver) : (v.iaeLayout).intWidths = [4, 4, 8, 8, 4, 4] ∧ (v.iaeLayout).strFields = [(6, 64), (7, 32)] ∧
    (v.iaeLayout).size = 128 := by
  cases v <;> exact ⟨rfl, rfl, rfl⟩

theorem encodeHeader_length (v : Ver) (length flags sw fuse n sbo : Nat) (b : Bytes)
    (h : encodeHeader v length flags sw fuse n sbo = .ok b) : b.length = 16 := by
  unfold encodeHeader at h
  obtain ⟨hf, rfl⟩ := packChecked_ok h
  rw [packInts_length _ _ hf, (hdrLayout_widths v).1]; rfl

theorem header_roundtrip' (v : Ver) (length flags sw fuse n sbo : Nat) (b rest : Bytes)
    (h : encodeHeader v length flags sw fuse n sbo = .ok b) (hl : length ≤ (b ++ rest).length) :
    decodeHeader v (b ++ rest) = some ⟨v.containerVersion, length, AhabConsts.containerTag, flags, sw, fuse, n, sbo⟩ := by
  have hb := encodeHeader_length v length flags sw fuse n sbo b h
  unfold encodeHeader at h
  obtain ⟨hf, rfl⟩ := packChecked_ok h
  unfold decodeHeader
  have h1 : ¬ ((packInts (v.hdrLayout).intWidths
      [v.containerVersion, length, AhabConsts.containerTag, flags, sw, fuse, n, sbo, AhabConsts.reserved] ++ rest).length
      < (v.hdrLayout).size) := by
    rw [(hdrLayout_widths v).2, List.length_append, hb]; omega
  rw [if_neg h1, unpack_pack _ _ rest hf]
  simp only
  have h2 : ¬ (AhabConsts.containerTag ≠ AhabConsts.containerTag ∨ v.containerVersion ≠ v.containerVersion ∨
      (packInts (v.hdrLayout).intWidths
      [v.containerVersion, length, AhabConsts.containerTag, flags, sw, fuse, n, sbo, AhabConsts.reserved] ++ rest).length < length) := by
    intro hc
    rcases hc with hc | hc | hc
    · exact hc rfl
    · exact hc rfl
    · omega
  rw [if_neg h2]


def IaeWF (e : Iae) : Prop := e.hash.length = 64 ∧ e.iv.length = 32

theorem encodeIaes_cons {l : AhabConsts.Layout} {e : Iae} {es : List Iae} {a : Bytes} (h : encodeIaes l (e :: es) = .ok a) :
    ∃ a1 a2, encodeIae l e = .ok a1 ∧ encodeIaes l es = .ok a2 ∧ a = a1 ++ a2 := by
  unfold encodeIaes at h
  cases h1 : encodeIae l e with
  | error err => rw [h1] at h; cases h2 : encodeIaes l es <;> rw [h2] at h <;> cases h
  | ok a1 =>
    cases h2 : encodeIaes l es with
    | error err => rw [h1, h2] at h; cases h
    | ok a2 => rw [h1, h2] at h; cases h; exact ⟨a1, a2, rfl, rfl, rfl⟩

theorem iaes_roundtrip' (l : AhabConsts.Layout) (hw : l.intWidths = [4, 4, 8, 8, 4, 4]) (hs : l.strFields = [(6, 64), (7, 32)])
    (hsz : l.size = 128) : ∀ (es : List Iae) (a pre rest : Bytes), (∀ e ∈ es, IaeWF e) → encodeIaes l es = .ok a →
    decodeIaes l (pre ++ a ++ rest) es.length pre.length = some es
  | [], _, _, _, _, _ => rfl
  | e :: es, a, pre, rest, hwf, h => by
    obtain ⟨a1, a2, h1, h2, rfl⟩ := encodeIaes_cons h
    have hl1 := encodeIae_length l hw hs e a1 h1
    have hd : (pre ++ (a1 ++ a2) ++ rest).drop pre.length = a1 ++ (a2 ++ rest) := by
      simp [List.append_assoc]
    have hwe := hwf e (List.mem_cons_self)
    have hdec := iae_roundtrip' l hw hs hsz e a1 (a2 ++ rest) hwe.1 hwe.2 h1
    have ih := iaes_roundtrip' l hw hs hsz es a2 (pre ++ a1) rest (fun x hx => hwf x (List.mem_cons_of_mem _ hx)) h2
    simp only [List.length_cons, decodeIaes, hd, hdec]
    have e1 : pre ++ (a1 ++ a2) ++ rest = pre ++ a1 ++ a2 ++ rest := by simp [List.append_assoc]
    have e2 : pre.length + l.size = (pre ++ a1).length := by simp [hl1, hsz]
    rw [e1, e2, ih]

theorem encodeIaes_length (l : AhabConsts.Layout) (hw : l.intWidths = [4, 4, 8, 8, 4, 4]) (hs : l.strFields = [(6, 64), (7, 32)]) :
    ∀ (es : List Iae) (a : Bytes), encodeIaes l es = .ok a → a.length = 128 * es.length
  | [], a, h => by cases h; rfl
  | e :: es, a, h => by
    obtain ⟨a1, a2, h1, h2, rfl⟩ := encodeIaes_cons h
    rw [List.length_append, encodeIae_length l hw hs e a1 h1, encodeIaes_length l hw hs es a2 h2, List.length_cons]
    omega


/-! ### SRK record / table -/

structure SrkRecWF (r : SrkRecord) : Prop where
  alg1 : AhabConsts.srkRecordVersions.contains r.signAlg = true
  alg2 : AhabConsts.signAlgV1.any (fun t => t.2.1 == r.signAlg) = true
  hsh : AhabConsts.hashAlgV1.any (fun t => t.2.1 == r.hashAlg) = true
  len : r.length = AhabConsts.srkRecordLayout.size + r.params.length
  par : ∃ l1 l2, keySizes r.keySize = some (l1, l2) ∧ r.params.length = l1 + l2

theorem encodeSrkRecord_ok {r : SrkRecord} {b : Bytes} (h : encodeSrkRecord r = .ok b) :
    ∃ l1 l2, keySizes r.keySize = some (l1, l2) ∧
      fits AhabConsts.srkRecordLayout.intWidths [AhabConsts.srkRecordTag, r.length, r.signAlg, r.hashAlg, r.keySize, AhabConsts.reserved, r.srkFlags] = true ∧
      fits [2, 2] [l1, l2] = true ∧
      b = packInts AhabConsts.srkRecordLayout.intWidths [AhabConsts.srkRecordTag, r.length, r.signAlg, r.hashAlg, r.keySize, AhabConsts.reserved, r.srkFlags]
            ++ packInts [2, 2] [l1, l2] ++ r.params := by
  unfold encodeSrkRecord at h
  cases hk : keySizes r.keySize with
  | none => rw [hk] at h; cases h
  | some p =>
    obtain ⟨l1, l2⟩ := p
    rw [hk] at h
    simp only at h
    cases hp : packChecked AhabConsts.srkRecordLayout.intWidths [AhabConsts.srkRecordTag, r.length, r.signAlg, r.hashAlg, r.keySize, AhabConsts.reserved, r.srkFlags] with
    | error e => rw [hp] at h; cases h
    | ok hb =>
      rw [hp] at h
      obtain ⟨hf, rfl⟩ := packChecked_ok hp
      simp only at h
      split at h
      · cases h; exact ⟨l1, l2, rfl, hf, by assumption, rfl⟩
      · cases h

theorem encodeSrkRecord_length {r : SrkRecord} {b : Bytes} (h : encodeSrkRecord r = .ok b) :
    b.length = AhabConsts.srkRecordLayout.size + r.params.length := by
  obtain ⟨l1, l2, _, hf, hf2, rfl⟩ := encodeSrkRecord_ok h
  simp only [List.length_append, packInts_length _ _ hf, packInts_length _ _ hf2]
  rfl

theorem srkRecord_roundtrip' (r : SrkRecord) (b rest : Bytes) (hwf : SrkRecWF r) (h : encodeSrkRecord r = .ok b) :
    decodeSrkRecord (b ++ rest) = some r := by
  have hbl := encodeSrkRecord_length h
  obtain ⟨l1, l2, hk, hf, hf2, rfl⟩ := encodeSrkRecord_ok h
  obtain ⟨l1', l2', hk', hpl⟩ := hwf.par
  rw [hk] at hk'; cases hk'
  have hsz : AhabConsts.srkRecordLayout.size = 12 := rfl
  unfold decodeSrkRecord
  simp only [List.append_assoc]
  have hu := unpack_pack AhabConsts.srkRecordLayout.intWidths _ (packInts [2, 2] [l1, l2] ++ (r.params ++ rest)) hf
  have h1 : ¬ ((packInts AhabConsts.srkRecordLayout.intWidths [AhabConsts.srkRecordTag, r.length, r.signAlg, r.hashAlg, r.keySize, AhabConsts.reserved, r.srkFlags]
      ++ (packInts [2, 2] [l1, l2] ++ (r.params ++ rest))).length < AhabConsts.srkRecordLayout.size) := by
    simp only [List.length_append, packInts_length _ _ hf, packInts_length _ _ hf2]
    show ¬ (8 + (4 + _) < 12); omega
  rw [if_neg h1, hu]
  simp only
  have hlen : (packInts AhabConsts.srkRecordLayout.intWidths [AhabConsts.srkRecordTag, r.length, r.signAlg, r.hashAlg, r.keySize, AhabConsts.reserved, r.srkFlags]
      ++ (packInts [2, 2] [l1, l2] ++ (r.params ++ rest))).length = 12 + r.params.length + rest.length := by
    simp only [List.length_append, packInts_length _ _ hf, packInts_length _ _ hf2]
    show 8 + (4 + _) = _; omega
  have h2 : ¬ (AhabConsts.srkRecordTag ≠ AhabConsts.srkRecordTag ∨ (!AhabConsts.srkRecordVersions.contains r.signAlg) = true ∨
      (packInts AhabConsts.srkRecordLayout.intWidths [AhabConsts.srkRecordTag, r.length, r.signAlg, r.hashAlg, r.keySize, AhabConsts.reserved, r.srkFlags]
      ++ (packInts [2, 2] [l1, l2] ++ (r.params ++ rest))).length < r.length) := by
    rw [hlen, hwf.len, hsz, hwf.alg1]
    simp
  rw [if_neg h2]
  have h3 : ¬ ((!AhabConsts.signAlgV1.any (fun t => t.2.1 == r.signAlg)) = true ∨ (!AhabConsts.hashAlgV1.any (fun t => t.2.1 == r.hashAlg)) = true) := by
    rw [hwf.alg2, hwf.hsh]; simp
  rw [if_neg h3]
  have hd := drop_packInts AhabConsts.srkRecordLayout.intWidths _ (packInts [2, 2] [l1, l2] ++ (r.params ++ rest)) hf
  rw [hd, unpack_pack [2, 2] [l1, l2] (r.params ++ rest) hf2]
  simp only
  have h4 : ¬ (l1 + l2 + AhabConsts.srkRecordLayout.size > r.length) := by
    rw [hwf.len, hpl]; omega
  rw [if_neg h4]
  have hd2 : (packInts AhabConsts.srkRecordLayout.intWidths [AhabConsts.srkRecordTag, r.length, r.signAlg, r.hashAlg, r.keySize, AhabConsts.reserved, r.srkFlags]
      ++ (packInts [2, 2] [l1, l2] ++ (r.params ++ rest))).drop AhabConsts.srkRecordLayout.size = r.params ++ rest := by
    have e : packInts AhabConsts.srkRecordLayout.intWidths [AhabConsts.srkRecordTag, r.length, r.signAlg, r.hashAlg, r.keySize, AhabConsts.reserved, r.srkFlags]
      ++ (packInts [2, 2] [l1, l2] ++ (r.params ++ rest)) =
      (packInts AhabConsts.srkRecordLayout.intWidths [AhabConsts.srkRecordTag, r.length, r.signAlg, r.hashAlg, r.keySize, AhabConsts.reserved, r.srkFlags]
      ++ packInts [2, 2] [l1, l2]) ++ (r.params ++ rest) := by simp [List.append_assoc]
    rw [e, List.drop_append_of_le_length (by
      simp only [List.length_append, packInts_length _ _ hf, packInts_length _ _ hf2]; exact Nat.le_refl _)]
    have : (packInts AhabConsts.srkRecordLayout.intWidths [AhabConsts.srkRecordTag, r.length, r.signAlg, r.hashAlg, r.keySize, AhabConsts.reserved, r.srkFlags]
      ++ packInts [2, 2] [l1, l2]).length = AhabConsts.srkRecordLayout.size := by
      simp only [List.length_append, packInts_length _ _ hf, packInts_length _ _ hf2]; rfl
    simp [List.drop_of_length_le (Nat.le_of_eq this)]
  rw [hd2, ← hpl, List.take_append_of_le_length (Nat.le_refl _), List.take_of_length_le (Nat.le_refl _)]


theorem encodeRecords_cons {r : SrkRecord} {rs : List SrkRecord} {a : Bytes} (h : encodeRecords (r :: rs) = .ok a) :
    ∃ a1 a2, encodeSrkRecord r = .ok a1 ∧ encodeRecords rs = .ok a2 ∧ a = a1 ++ a2 := by
  unfold encodeRecords at h
  cases h1 : encodeSrkRecord r with
  | error err => rw [h1] at h; cases h2 : encodeRecords rs <;> rw [h2] at h <;> cases h
  | ok a1 =>
    cases h2 : encodeRecords rs with
    | error err => rw [h1, h2] at h; cases h
    | ok a2 => rw [h1, h2] at h; cases h; exact ⟨a1, a2, rfl, rfl, rfl⟩

theorem records_roundtrip' (recSize : Nat) : ∀ (rs : List SrkRecord) (a pre rest : Bytes),
    (∀ r ∈ rs, SrkRecWF r ∧ AhabConsts.srkRecordLayout.size + r.params.length = recSize) → encodeRecords rs = .ok a →
    decodeRecordsAt (pre ++ a ++ rest) recSize rs.length pre.length = some rs ∧ a.length = recSize * rs.length
  | [], a, _, _, _, h => by cases h; exact ⟨rfl, rfl⟩
  | r :: rs, a, pre, rest, hwf, h => by
    obtain ⟨a1, a2, h1, h2, rfl⟩ := encodeRecords_cons h
    have hr := hwf r (List.mem_cons_self)
    have hl1 : a1.length = recSize := by rw [encodeSrkRecord_length h1]; exact hr.2
    have hd : (pre ++ (a1 ++ a2) ++ rest).drop pre.length = a1 ++ (a2 ++ rest) := by
      simp [List.append_assoc]
    have hdec := srkRecord_roundtrip' r a1 (a2 ++ rest) hr.1 h1
    have ih := records_roundtrip' recSize rs a2 (pre ++ a1) rest (fun x hx => hwf x (List.mem_cons_of_mem _ hx)) h2
    refine ⟨?_, ?_⟩
    · simp only [List.length_cons, decodeRecordsAt, hd, hdec]
      have e1 : pre ++ (a1 ++ a2) ++ rest = pre ++ a1 ++ a2 ++ rest := by simp [List.append_assoc]
      have e2 : pre.length + recSize = (pre ++ a1).length := by simp [hl1]
      rw [e1, e2, ih.1]
    · rw [List.length_append, hl1, ih.2, List.length_cons, Nat.mul_succ]; omega

/-- a table as `update_fields` leaves it: four well-formed records of one key type, computed lengths -/
structure SrkTableWF (t : SrkTable) : Prop where
  cnt : t.records.length = AhabConsts.srkRecordsCnt
  recs : ∀ r ∈ t.records, SrkRecWF r
  same : ∃ P, ∀ r ∈ t.records, r.params.length = P
  len : t.length = SrkTable.computedLength t.records

theorem computedLength_same (P : Nat) : ∀ (rs : List SrkRecord), (∀ r ∈ rs, r.params.length = P) →
    (rs.map SrkRecord.computedLength).foldr (· + ·) 0 = (AhabConsts.srkRecordLayout.size + P) * rs.length
  | [], _ => rfl
  | r :: rs, h => by
    simp only [List.map_cons, List.foldr_cons, List.length_cons]
    rw [computedLength_same P rs (fun x hx => h x (List.mem_cons_of_mem _ hx))]
    simp only [SrkRecord.computedLength, h r (List.mem_cons_self), Nat.mul_succ]
    omega

theorem srkTable_roundtrip' (t : SrkTable) (b rest : Bytes) (hwf : SrkTableWF t) (h : encodeSrkTable t = .ok b) :
    decodeSrkTable (b ++ rest) = some t := by
  obtain ⟨P, hP⟩ := hwf.same
  unfold encodeSrkTable at h
  cases hp : packChecked AhabConsts.srkTableLayout.intWidths [AhabConsts.srkTableTag, t.length, AhabConsts.srkTableVersion] with
  | error e => rw [hp] at h; cases h2 : encodeRecords t.records <;> rw [h2] at h <;> cases h
  | ok hb =>
    cases h2 : encodeRecords t.records with
    | error e => rw [hp, h2] at h; cases h
    | ok a =>
      rw [hp, h2] at h
      cases h
      obtain ⟨hf, rfl⟩ := packChecked_ok hp
      have hhl : (packInts AhabConsts.srkTableLayout.intWidths [AhabConsts.srkTableTag, t.length, AhabConsts.srkTableVersion]).length = 4 := by
        rw [packInts_length _ _ hf]; rfl
      have hr := records_roundtrip' (AhabConsts.srkRecordLayout.size + P) t.records a
        (packInts AhabConsts.srkTableLayout.intWidths [AhabConsts.srkTableTag, t.length, AhabConsts.srkTableVersion]) rest
        (fun r hr => ⟨hwf.recs r hr, by rw [hP r hr]⟩) h2
      have hcnt : t.records.length = 4 := hwf.cnt
      have htl : t.length = 4 + (AhabConsts.srkRecordLayout.size + P) * 4 := by
        rw [hwf.len, SrkTable.computedLength, computedLength_same P t.records hP, hcnt]; rfl
      unfold decodeSrkTable
      simp only [List.append_assoc]
      have hsz : AhabConsts.srkTableLayout.size = 4 := rfl
      have h1 : ¬ ((packInts AhabConsts.srkTableLayout.intWidths [AhabConsts.srkTableTag, t.length, AhabConsts.srkTableVersion] ++ (a ++ rest)).length
          < AhabConsts.srkTableLayout.size) := by
        rw [List.length_append, hhl, hsz]; omega
      rw [if_neg h1, unpack_pack _ _ (a ++ rest) hf]
      simp only
      have hlen : (packInts AhabConsts.srkTableLayout.intWidths [AhabConsts.srkTableTag, t.length, AhabConsts.srkTableVersion] ++ (a ++ rest)).length
          = 4 + (AhabConsts.srkRecordLayout.size + P) * 4 + rest.length := by
        simp only [List.length_append, hhl, hr.2, hcnt]; omega
      have h2' : ¬ (AhabConsts.srkTableTag ≠ AhabConsts.srkTableTag ∨ AhabConsts.srkTableVersion ≠ AhabConsts.srkTableVersion ∨
          (packInts AhabConsts.srkTableLayout.intWidths [AhabConsts.srkTableTag, t.length, AhabConsts.srkTableVersion] ++ (a ++ rest)).length < t.length ∨
          t.length < AhabConsts.srkTableLayout.size) := by
        rw [hlen, htl, hsz]
        intro hc
        rcases hc with hc | hc | hc | hc
        · exact hc rfl
        · exact hc rfl
        · omega
        · omega
      rw [if_neg h2']
      have hcnt4 : AhabConsts.srkRecordsCnt = 4 := rfl
      have h3 : ¬ ((t.length - AhabConsts.srkTableLayout.size) % AhabConsts.srkRecordsCnt ≠ 0) := by
        rw [htl, hsz, hcnt4]; omega
      rw [if_neg h3]
      have hrs : (t.length - AhabConsts.srkTableLayout.size) / AhabConsts.srkRecordsCnt = AhabConsts.srkRecordLayout.size + P := by
        rw [htl, hsz, hcnt4]; omega
      have hr1 := hr.1
      rw [hcnt, hhl] at hr1
      simp only [List.append_assoc] at hr1
      rw [hrs, hcnt4, hsz, hr1]
      simp [htl]
      cases t
      simp_all


/-! ### flag / meta-data words -/

theorem or_shl (x y n : Nat) (h : x < 2 ^ n) : x ||| (y <<< n) = x + y * 2 ^ n := by
  rw [Nat.or_comm, ← Nat.shiftLeft_add_eq_or_of_lt h, Nat.shiftLeft_eq, Nat.add_comm]

theorem getF_eq (x off size : Nat) : getF x off size = x / 2 ^ off % 2 ^ size := by
  unfold getF
  rw [Nat.one_shiftLeft, Nat.and_two_pow_sub_one_eq_mod, Nat.shiftRight_eq_div_pow]

/-! The value lemmas are proved in two steps so that a harmless rewrite of the Python source (other order of the `|`
    operands, one expression instead of `|=` statements) does not break them: (1) whatever OR-tree the translation produces
    equals the canonical one up to associativity / commutativity (`ac_rfl` over opaque shifted atoms), (2) the canonical
    OR-tree of disjoint fields is their sum. -/

theorem createMeta_or (a b c : Nat) :
    AhabConsts.createMeta a b c = .ok ((a ||| b <<< 10 ||| c <<< 20 : Nat) : Int) := by
  simp only [AhabConsts.createMeta, pyShl_nat, pyOr_nat, Int.reduceToNat]
  try (refine congrArg (fun n : Nat => (Except.ok (n : Int) : PyRes Int)) ?_
       generalize b <<< 10 = x; generalize c <<< 20 = y; ac_rfl)

theorem createMeta_val (a b c : Nat) (ha : a < 2 ^ 10) (hb : b < 2 ^ 10) :
    AhabConsts.createMeta a b c = .ok ((a + b * 2 ^ 10 + c * 2 ^ 20 : Nat) : Int) := by
  rw [createMeta_or, or_shl a b 10 ha, or_shl _ c 20 (by omega)]

theorem createFlagsV1_or (ty core h boot : Nat) (enc : Bool) :
    AhabConsts.createFlagsV1 ty core h enc boot =
      .ok ((ty ||| core <<< 4 ||| h <<< 8 ||| (if enc then 1 else 0) <<< 11 ||| boot <<< 16 : Nat) : Int) := by
  cases enc
  · simp only [AhabConsts.createFlagsV1, Bool.false_eq_true, if_false, pyShl_nat,
      show ((0 : Int)) = ((0 : Nat) : Int) from rfl, pyOr_nat, Int.reduceToNat, Nat.zero_shiftLeft, Nat.or_zero, Nat.zero_or]
    try (refine congrArg (fun n : Nat => (Except.ok (n : Int) : PyRes Int)) ?_
         generalize core <<< 4 = x; generalize h <<< 8 = y; generalize boot <<< 16 = z; ac_rfl)
  · simp only [AhabConsts.createFlagsV1, if_true, show ((1 : Int)) = ((1 : Nat) : Int) from rfl, pyShl_nat, pyOr_nat, Int.reduceToNat]
    try (refine congrArg (fun n : Nat => (Except.ok (n : Int) : PyRes Int)) ?_
         generalize core <<< 4 = x; generalize h <<< 8 = y; generalize boot <<< 16 = z; generalize 1 <<< 11 = w; ac_rfl)

theorem createFlagsV1_val (ty core h boot : Nat) (enc : Bool) (ht : ty < 2 ^ 4) (hc : core < 2 ^ 4) (hh : h < 2 ^ 3) :
    AhabConsts.createFlagsV1 ty core h enc boot =
      .ok ((ty + core * 2 ^ 4 + h * 2 ^ 8 + (if enc then 1 else 0) * 2 ^ 11 + boot * 2 ^ 16 : Nat) : Int) := by
  have he : (if enc = true then 1 else 0 : Nat) ≤ 1 := by cases enc <;> simp
  rw [createFlagsV1_or, or_shl ty core 4 ht, or_shl _ h 8 (by omega), or_shl _ _ 11 (by omega), or_shl _ boot 16 (by omega)]

theorem createFlagsV2_or (ty core h boot : Nat) (enc : Bool) :
    AhabConsts.createFlagsV2 ty core h enc boot =
      .ok ((ty ||| core <<< 4 ||| h <<< 8 ||| (if enc then 1 else 0) <<< 12 ||| boot <<< 16 : Nat) : Int) := by
  cases enc
  · simp only [AhabConsts.createFlagsV2, Bool.false_eq_true, if_false, pyShl_nat,
      show ((0 : Int)) = ((0 : Nat) : Int) from rfl, pyOr_nat, Int.reduceToNat, Nat.zero_shiftLeft, Nat.or_zero, Nat.zero_or]
    try (refine congrArg (fun n : Nat => (Except.ok (n : Int) : PyRes Int)) ?_
         generalize core <<< 4 = x; generalize h <<< 8 = y; generalize boot <<< 16 = z; ac_rfl)
  · simp only [AhabConsts.createFlagsV2, if_true, show ((1 : Int)) = ((1 : Nat) : Int) from rfl, pyShl_nat, pyOr_nat, Int.reduceToNat]
    try (refine congrArg (fun n : Nat => (Except.ok (n : Int) : PyRes Int)) ?_
         generalize core <<< 4 = x; generalize h <<< 8 = y; generalize boot <<< 16 = z; generalize 1 <<< 12 = w; ac_rfl)

theorem createFlagsV2_val (ty core h boot : Nat) (enc : Bool) (ht : ty < 2 ^ 4) (hc : core < 2 ^ 4) (hh : h < 2 ^ 4) :
    AhabConsts.createFlagsV2 ty core h enc boot =
      .ok ((ty + core * 2 ^ 4 + h * 2 ^ 8 + (if enc then 1 else 0) * 2 ^ 12 + boot * 2 ^ 16 : Nat) : Int) := by
  have he : (if enc = true then 1 else 0 : Nat) ≤ 1 := by cases enc <;> simp
  rw [createFlagsV2_or, or_shl ty core 4 ht, or_shl _ h 8 (by omega), or_shl _ _ 12 (by omega), or_shl _ boot 16 (by omega)]

theorem flags_arith_v1 (ty core h boot e : Nat) (ht : ty < 16) (hc : core < 16) (hh : h < 8) (he : e ≤ 1) (hb : boot < 32768) :
    ty + core * 16 + h * 256 + e * 2048 + boot * 65536 < 4294967296 ∧
    (ty + core * 16 + h * 256 + e * 2048 + boot * 65536) / 1 % 16 = ty ∧
    (ty + core * 16 + h * 256 + e * 2048 + boot * 65536) / 16 % 16 = core ∧
    (ty + core * 16 + h * 256 + e * 2048 + boot * 65536) / 256 % 8 = h ∧
    (ty + core * 16 + h * 256 + e * 2048 + boot * 65536) / 2048 % 2 = e ∧
    (ty + core * 16 + h * 256 + e * 2048 + boot * 65536) / 65536 % 32768 = boot := by
  refine ⟨by omega, by omega, by omega, by omega, by omega, by omega⟩

theorem flags_arith_v2 (ty core h boot e : Nat) (ht : ty < 16) (hc : core < 16) (hh : h < 16) (he : e ≤ 1) (hb : boot < 32768) :
    ty + core * 16 + h * 256 + e * 4096 + boot * 65536 < 4294967296 ∧
    (ty + core * 16 + h * 256 + e * 4096 + boot * 65536) / 1 % 16 = ty ∧
    (ty + core * 16 + h * 256 + e * 4096 + boot * 65536) / 16 % 16 = core ∧
    (ty + core * 16 + h * 256 + e * 4096 + boot * 65536) / 256 % 16 = h ∧
    (ty + core * 16 + h * 256 + e * 4096 + boot * 65536) / 4096 % 2 = e ∧
    (ty + core * 16 + h * 256 + e * 4096 + boot * 65536) / 65536 % 32768 = boot := by
  refine ⟨by omega, by omega, by omega, by omega, by omega, by omega⟩

theorem meta_arith (a b m : Nat) (ha : a < 1024) (hb : b < 1024) (hm : m < 256) :
    a + b * 1024 + m * 1048576 < 268435456 ∧ (a + b * 1024 + m * 1048576) / 1 % 1024 = a ∧
    (a + b * 1024 + m * 1048576) / 1024 % 1024 = b ∧ (a + b * 1024 + m * 1048576) / 1048576 % 256 = m := by
  refine ⟨by omega, by omega, by omega, by omega⟩

theorem containerFlagsV2_val (s u r g ca : Nat) (hs : s < 4) (hu : u < 4) (hr : r < 16) (hca : ca < 2) :
    containerFlagsV2 s u r g ca = s + u * 2 ^ 4 + r * 2 ^ 8 + ca * 2 ^ 15 + g * 2 ^ 20 := by
  unfold containerFlagsV2
  have e1 : (s ||| u <<< AhabConsts.cFlagsUsedSrkIdOffset) = s + u * 2 ^ 4 := or_shl s u 4 (by omega)
  have e2 : ((s + u * 2 ^ 4) ||| r <<< AhabConsts.cFlagsSrkRevokeMaskOffset) = s + u * 2 ^ 4 + r * 2 ^ 8 := or_shl _ r 8 (by omega)
  have e3 : ((s + u * 2 ^ 4 + r * 2 ^ 8) ||| ca <<< AhabConsts.cFlagsCheckAllSignaturesOffset) = s + u * 2 ^ 4 + r * 2 ^ 8 + ca * 2 ^ 15 :=
    or_shl _ ca 15 (by omega)
  have e4 : ((s + u * 2 ^ 4 + r * 2 ^ 8 + ca * 2 ^ 15) ||| g <<< AhabConsts.cFlagsGdetEnableOffset) =
      s + u * 2 ^ 4 + r * 2 ^ 8 + ca * 2 ^ 15 + g * 2 ^ 20 := or_shl _ g 20 (by omega)
  rw [e1, e2, e3, e4]

theorem cflags_arith (s u r g ca : Nat) (hs : s < 4) (hu : u < 4) (hr : r < 16) (hca : ca < 2) (hg : g < 4) :
    s + u * 16 + r * 256 + ca * 32768 + g * 1048576 < 4294967296 ∧
    (s + u * 16 + r * 256 + ca * 32768 + g * 1048576) / 1 % 4 = s ∧
    (s + u * 16 + r * 256 + ca * 32768 + g * 1048576) / 16 % 4 = u ∧
    (s + u * 16 + r * 256 + ca * 32768 + g * 1048576) / 256 % 16 = r ∧
    (s + u * 16 + r * 256 + ca * 32768 + g * 1048576) / 32768 % 2 = ca ∧
    (s + u * 16 + r * 256 + ca * 32768 + g * 1048576) / 1048576 % 4 = g := by
  refine ⟨by omega, by omega, by omega, by omega, by omega, by omega⟩

/-! ### signature block layout -/

theorem al8_spec (n : Nat) : n ≤ al8 n ∧ al8 n % 8 = 0 ∧ al8 n < n + 8 := by
  have h := alignNat_spec n 8 (by decide)
  exact ⟨h.2.1, h.1, h.2.2⟩

theorem sbStep_zero (aligned : Bool) (st : Nat × Nat) : sbStep aligned st 0 = (0, st) := by
  simp [sbStep]

theorem sbStep_pos (aligned : Bool) (st : Nat × Nat) (size : Nat) (h : size ≠ 0) :
    (sbStep aligned st size).2 = ((sbStep aligned st size).1, size) ∧
    st.1 + st.2 ≤ (sbStep aligned st size).1 ∧
    (aligned = true → (sbStep aligned st size).1 % 8 = 0 ∧ (sbStep aligned st size).1 < st.1 + st.2 + 8) ∧
    (aligned = false → (sbStep aligned st size).1 = st.1 + st.2) := by
  simp only [sbStep, if_neg h]
  cases aligned
  · simp
  · simp only [if_true]
    have := al8_spec (st.1 + st.2)
    exact ⟨trivial, this.1, fun _ => ⟨this.2.1, this.2.2⟩, fun h => by cases h⟩

/-- the running end `last_offset + last_block_size` after a step -/
def stEnd (st : Nat × Nat) : Nat := st.1 + st.2

theorem sbStep_end (aligned : Bool) (st : Nat × Nat) (size : Nat) :
    stEnd st ≤ stEnd (sbStep aligned st size).2 ∧
    (size ≠ 0 → stEnd st ≤ (sbStep aligned st size).1 ∧ stEnd (sbStep aligned st size).2 = (sbStep aligned st size).1 + size) := by
  by_cases h : size = 0
  · subst h; rw [sbStep_zero]; exact ⟨Nat.le_refl _, fun h => absurd rfl h⟩
  · obtain ⟨h1, h2, _, _⟩ := sbStep_pos aligned st size h
    rw [h1]
    simp only [stEnd] at *
    exact ⟨by omega, fun _ => ⟨h2, trivial⟩⟩

theorem sbLayout_eq (v : Ver) (sb : SigBlock) :
    sbLayout v sb =
      let aligned := v == .v1
      let fixed := (v.sbLayout).size
      let st0 : Nat × Nat := (0, if aligned then al8 fixed else fixed)
      let r1 := sbStep aligned st0 sb.srk.length
      let r2 := sbStep aligned r1.2 (sb.sigSize v)
      let r3 := sbStep aligned r2.2 sb.cert.length
      let r4 := sbStep aligned r3.2 sb.blobLen
      ⟨r1.1, r2.1, r3.1, r4.1, stEnd r4.2⟩ := rfl

theorem sbLayout_fixed (v : Ver) : (v.sbLayout).size = 16 := by cases v <;> rfl


theorem sbStep_off_zero (aligned : Bool) (st : Nat × Nat) (size : Nat) (h : size = 0) : (sbStep aligned st size).1 = 0 := by
  subst h; rw [sbStep_zero]

theorem sbStep_aligned (st : Nat × Nat) (size : Nat) : (sbStep true st size).1 % 8 = 0 := by
  by_cases h : size = 0
  · rw [sbStep_off_zero _ _ _ h]
  · exact ((sbStep_pos true st size h).2.2.1 rfl).1

/-- offsets of the four optional blocks after `update_fields`: every present block starts after the fixed header and after
    every earlier present block, ends inside the signature block; absent blocks have offset 0 -/
theorem sigblock_layout (v : Ver) (sb : SigBlock) :
    let o := sbLayout v sb
    let s1 := sb.srk.length
    let s2 := sb.sigSize v
    let s3 := sb.cert.length
    let s4 := sb.blobLen
    (s1 = 0 → o.srkOff = 0) ∧ (s2 = 0 → o.sigOff = 0) ∧ (s3 = 0 → o.certOff = 0) ∧ (s4 = 0 → o.blobOff = 0) ∧
    (s1 ≠ 0 → 16 ≤ o.srkOff ∧ o.srkOff + s1 ≤ o.length) ∧
    (s2 ≠ 0 → 16 ≤ o.sigOff ∧ (s1 ≠ 0 → o.srkOff + s1 ≤ o.sigOff) ∧ o.sigOff + s2 ≤ o.length) ∧
    (s3 ≠ 0 → 16 ≤ o.certOff ∧ (s1 ≠ 0 → o.srkOff + s1 ≤ o.certOff) ∧ (s2 ≠ 0 → o.sigOff + s2 ≤ o.certOff) ∧
              o.certOff + s3 ≤ o.length) ∧
    (s4 ≠ 0 → 16 ≤ o.blobOff ∧ (s1 ≠ 0 → o.srkOff + s1 ≤ o.blobOff) ∧ (s2 ≠ 0 → o.sigOff + s2 ≤ o.blobOff) ∧
              (s3 ≠ 0 → o.certOff + s3 ≤ o.blobOff) ∧ o.blobOff + s4 = o.length) ∧
    16 ≤ o.length ∧
    (v = .v1 → o.srkOff % 8 = 0 ∧ o.sigOff % 8 = 0 ∧ o.certOff % 8 = 0 ∧ o.blobOff % 8 = 0) := by
  intro o s1 s2 s3 s4
  have ho : o = sbLayout v sb := rfl
  rw [sbLayout_eq] at ho
  simp only at ho
  generalize hst0 : ((0, if (v == Ver.v1) = true then al8 (v.sbLayout).size else (v.sbLayout).size) : Nat × Nat) = st0 at ho
  have e0 : 16 ≤ stEnd st0 := by
    rw [← hst0, sbLayout_fixed]
    simp only [stEnd]
    have := al8_spec 16
    split <;> omega
  generalize hr1 : sbStep (v == Ver.v1) st0 sb.srk.length = r1 at ho
  generalize hr2 : sbStep (v == Ver.v1) r1.2 (sb.sigSize v) = r2 at ho
  generalize hr3 : sbStep (v == Ver.v1) r2.2 sb.cert.length = r3 at ho
  generalize hr4 : sbStep (v == Ver.v1) r3.2 sb.blobLen = r4 at ho
  have f1 := sbStep_end (v == Ver.v1) st0 sb.srk.length
  have f2 := sbStep_end (v == Ver.v1) r1.2 (sb.sigSize v)
  have f3 := sbStep_end (v == Ver.v1) r2.2 sb.cert.length
  have f4 := sbStep_end (v == Ver.v1) r3.2 sb.blobLen
  have z1 := sbStep_off_zero (v == Ver.v1) st0 sb.srk.length
  have z2 := sbStep_off_zero (v == Ver.v1) r1.2 (sb.sigSize v)
  have z3 := sbStep_off_zero (v == Ver.v1) r2.2 sb.cert.length
  have z4 := sbStep_off_zero (v == Ver.v1) r3.2 sb.blobLen
  rw [hr1] at f1 z1; rw [hr2] at f2 z2; rw [hr3] at f3 z3; rw [hr4] at f4 z4
  have a1 : v = .v1 → r1.1 % 8 = 0 ∧ r2.1 % 8 = 0 ∧ r3.1 % 8 = 0 ∧ r4.1 % 8 = 0 := by
    intro hv; subst hv
    rw [← hr1, ← hr2, ← hr3, ← hr4]
    exact ⟨sbStep_aligned _ _, sbStep_aligned _ _, sbStep_aligned _ _, sbStep_aligned _ _⟩
  rw [ho]
  simp only
  show (s1 = 0 → r1.1 = 0) ∧ (s2 = 0 → r2.1 = 0) ∧ (s3 = 0 → r3.1 = 0) ∧ (s4 = 0 → r4.1 = 0) ∧ _
  refine ⟨z1, z2, z3, z4, ?_, ?_, ?_, ?_, ?_, a1⟩
  · intro h; have := f1.2 h; omega
  · intro h; have := f2.2 h
    refine ⟨by omega, fun h1 => ?_, by omega⟩
    have := f1.2 h1; omega
  · intro h; have := f3.2 h
    refine ⟨by omega, fun h1 => ?_, fun h2 => ?_, by omega⟩
    · have := f1.2 h1; omega
    · have := f2.2 h2; omega
  · intro h; have := f4.2 h
    refine ⟨by omega, fun h1 => ?_, fun h2 => ?_, fun h3 => ?_, by omega⟩
    · have := f1.2 h1; omega
    · have := f2.2 h2; omega
    · have := f3.2 h3; omega
  · omega


/-! ### slice assignment on the signature-block buffer -/

theorem blitL_length (buf : Bytes) (off L : Nat) (d : Bytes) (h : off + L ≤ buf.length) (hd : d.length = L) :
    (blitL buf off L d).length = buf.length := by
  simp only [blitL, List.length_append, List.length_take, List.length_drop]
  omega

theorem take_blitL (buf : Bytes) (off L : Nat) (d : Bytes) (n : Nat) (h1 : n ≤ off) (h2 : n ≤ buf.length) :
    (blitL buf off L d).take n = buf.take n := by
  simp only [blitL, List.append_assoc]
  rw [List.take_append_of_le_length (by rw [List.length_take]; omega), List.take_take]
  congr 1
  omega

theorem blitB_length (buf : Bytes) (off : Nat) (d : Bytes) (h : off + d.length ≤ buf.length) :
    (blitB buf off d).length = buf.length := by
  unfold blitB
  split
  · rfl
  · exact blitL_length buf off d.length d h rfl

theorem take_blitB (buf : Bytes) (off : Nat) (d : Bytes) (n : Nat) (h : d = [] ∨ (n ≤ off ∧ n ≤ buf.length)) :
    (blitB buf off d).take n = buf.take n := by
  unfold blitB
  split
  · rfl
  · rcases h with h | h
    · subst h; simp at *
    · exact take_blitL buf off d.length d n h.1 h.2

theorem encodeSignature_length {s b : Bytes} (h : encodeSignature s = .ok b) : b.length = signatureLen s := by
  unfold encodeSignature at h
  unfold signatureLen
  split at h
  · cases h; simp [*]
  · rename_i hne
    cases hp : packChecked AhabConsts.signatureLayout.intWidths
        [AhabConsts.signatureVersion, AhabConsts.signatureLayout.size + s.length, AhabConsts.signatureTag, AhabConsts.reserved] with
    | error e => rw [hp] at h; cases h
    | ok hb =>
      rw [hp] at h; cases h
      obtain ⟨hf, rfl⟩ := packChecked_ok hp
      rw [if_neg hne, List.length_append, packInts_length _ _ hf]
      rfl

theorem encodeBlob_length {b : Blob} {bl : Bytes} (h : encodeBlob b = .ok bl) : bl.length = 8 + b.keyblob.length := by
  unfold encodeBlob at h
  cases hp : packChecked AhabConsts.blobLayout.intWidths
      [AhabConsts.blobVersion, b.length, AhabConsts.blobTag, b.flags, b.size / 8, b.algorithm, b.mode] with
  | error e => rw [hp] at h; cases h
  | ok hb =>
    rw [hp] at h; cases h
    obtain ⟨hf, rfl⟩ := packChecked_ok hp
    rw [List.length_append, packInts_length _ _ hf]
    rfl


/-- the blob's header length field describes its bytes -/
def BlobLenOK (sb : SigBlock) : Prop := ∀ b, sb.blob = some b → b.length = 8 + b.keyblob.length

theorem sbLayoutWidths (v : Ver) : (v.sbLayout).intWidths = [1, 2, 1, 2, 2, 2, 2, 4] := by cases v <;> rfl

theorem sbHeader_length {v : Ver} {o : SbOffsets} {k : Nat} {hdr : Bytes} (h : sbHeader v o k = .ok hdr) : hdr.length = 16 := by
  unfold sbHeader at h
  obtain ⟨hf, rfl⟩ := packChecked_ok h
  rw [packInts_length _ _ hf, sbLayoutWidths]; rfl

theorem zerosB_length (n : Nat) : (zerosB n).length = n := by simp [zerosB]

theorem sigSize_zero_sig (v : Ver) (sb : SigBlock) (h : sb.sigSize v = 0) : signatureLen sb.signature = 0 := by
  unfold SigBlock.sigSize at h
  cases v
  · exact h
  · simp only at h
    split at h
    · rename_i he; simp [signatureLen, he]
    · omega

theorem sigSize_ge (v : Ver) (sb : SigBlock) :
    signatureLen sb.signature ≤ sb.sigSize v ∧
    (v = .v2 → sb.sigSize v ≠ 0 → signatureLen sb.signature + signatureLen sb.signature2 = sb.sigSize v) := by
  unfold SigBlock.sigSize
  cases v
  · exact ⟨Nat.le_refl _, fun h => by cases h⟩
  · simp only
    split
    · rename_i he; simp [signatureLen, he]
    · exact ⟨by omega, fun _ _ => rfl⟩

/-- the bytes of the signature block in front of the signature do not depend on signature(s), certificate or blob bytes;
    the block has the computed length -/
theorem sbTail_take (v : Ver) (sb : SigBlock) (buf sg sg2 bl : Bytes) (hb : BlobLenOK sb)
    (hbuf : buf.length = (sbLayout v sb).length)
    (hsg : sg.length = signatureLen sb.signature) (hsg2 : sg2.length = signatureLen sb.signature2)
    (hbl : ∀ b, sb.blob = some b → bl.length = 8 + b.keyblob.length) :
    (sbTail v sb (sbLayout v sb) buf sg sg2 bl).take (sbLayout v sb).sigOff = buf.take (sbLayout v sb).sigOff ∧
    (sbTail v sb (sbLayout v sb) buf sg sg2 bl).length = (sbLayout v sb).length := by
  have L := sigblock_layout v sb
  simp only at L
  obtain ⟨_, z2, z3, z4, _, p2, p3, p4, _, _⟩ := L
  have hge := sigSize_ge v sb
  generalize ho : sbLayout v sb = o at *
  unfold sbTail
  -- certificate and blob steps, shared by both cases
  have tailStep : ∀ (buf4 : Bytes), buf4.length = o.length → buf4.take o.sigOff = buf.take o.sigOff →
      (sb.sigSize v ≠ 0 ∨ o.sigOff = 0) →
      ((blobStep sb o (blitB buf4 o.certOff sb.cert) bl).take o.sigOff = buf.take o.sigOff ∧
       (blobStep sb o (blitB buf4 o.certOff sb.cert) bl).length = o.length) := by
    intro buf4 l4 t4 hsig
    have hsigOff_le : o.sigOff ≤ o.length := by
      rcases hsig with h | h
      · have := p2 h; omega
      · omega
    -- certificate
    have l5 : (blitB buf4 o.certOff sb.cert).length = o.length := by
      rw [blitB_length _ _ _ (by
        by_cases hc : sb.cert.length = 0
        · rw [z3 hc, hc]; omega
        · have := p3 hc; omega), l4]
    have t5 : (blitB buf4 o.certOff sb.cert).take o.sigOff = buf.take o.sigOff := by
      rw [take_blitB _ _ _ _ (by
        by_cases hc : sb.cert = []
        · exact Or.inl hc
        · right
          have hc' : sb.cert.length ≠ 0 := fun h => hc (List.eq_nil_of_length_eq_zero h)
          have := p3 hc'
          rcases hsig with h | h
          · have := this.2.2.1 h; omega
          · omega), t4]
    unfold blobStep
    cases hblob : sb.blob with
    | none => exact ⟨t5, l5⟩
    | some b =>
      simp only
      have hbL : b.length = 8 + b.keyblob.length := hb b hblob
      have hs4 : sb.blobLen = b.length := by simp [SigBlock.blobLen, hblob]
      have hs4' : sb.blobLen ≠ 0 := by omega
      have q4 := p4 hs4'
      rw [hs4] at q4
      refine ⟨?_, ?_⟩
      · rw [take_blitL _ _ _ _ _ (by
          rcases hsig with h | h
          · have := q4.2.2.1 h; omega
          · omega) (by omega), t5]
      · rw [blitL_length _ _ _ _ (by omega) (by rw [hbl b hblob, hbL]), l5]
  by_cases hs2 : sb.sigSize v = 0
  · -- no signature: offset 0, nothing of the block is signed
    have hz := sigSize_zero_sig v sb hs2
    have hsgE : sg = [] := List.eq_nil_of_length_eq_zero (by rw [hsg, hz])
    have hsE : sb.signature.isEmpty = true := by
      unfold signatureLen at hz
      split at hz
      · assumption
      · have : AhabConsts.signatureLayout.size = 8 := rfl
        omega
    subst hsgE
    have b3 : (blitB buf o.sigOff ([] : Bytes)) = buf := by simp [blitB]
    rw [b3]
    have b4 : sig2Step v sb o buf [] sg2 = buf := by
      unfold sig2Step
      cases v
      · rfl
      · simp [hsE]
    rw [b4]
    exact tailStep buf hbuf rfl (Or.inr (z2 hs2))
  · have q2 := p2 hs2
    -- first signature
    have l3 : (blitB buf o.sigOff sg).length = o.length := by
      rw [blitB_length _ _ _ (by rw [hsg]; omega), hbuf]
    have t3 : (blitB buf o.sigOff sg).take o.sigOff = buf.take o.sigOff :=
      take_blitB _ _ _ _ (Or.inr ⟨Nat.le_refl _, by omega⟩)
    -- second signature (v2)
    have h4 : (sig2Step v sb o (blitB buf o.sigOff sg) sg sg2).length = o.length ∧
        (sig2Step v sb o (blitB buf o.sigOff sg) sg sg2).take o.sigOff = buf.take o.sigOff := by
      unfold sig2Step
      cases v
      · exact ⟨l3, t3⟩
      · simp only
        split
        · exact ⟨l3, t3⟩
        · have hsum := hge.2 rfl hs2
          refine ⟨?_, ?_⟩
          · rw [blitB_length _ _ _ (by rw [hsg, hsg2, l3]; omega), l3]
          · rw [take_blitB _ _ _ _ (Or.inr ⟨by omega, by rw [l3]; omega⟩), t3]
    exact tailStep _ h4.1 h4.2 (Or.inl hs2)


theorem blitB_nil (buf : Bytes) (off : Nat) : blitB buf off [] = buf := by simp [blitB]

theorem take_add_append (X s : Bytes) (k : Nat) : (X ++ s).take (X.length + k) = X ++ s.take k := by
  rw [List.take_append, List.take_of_length_le (by omega)]
  simp

theorem sbHead_length (o : SbOffsets) (hdr srk : Bytes) (hh : hdr.length = 16) (h16 : 16 ≤ o.length)
    (hs : srk.length = 0 ∨ o.srkOff + srk.length ≤ o.length) : (sbHead o hdr srk).length = o.length := by
  unfold sbHead
  have l1 : (blitB (zerosB o.length) 0 hdr).length = o.length := by
    rw [blitB_length _ _ _ (by rw [hh, zerosB_length]; omega), zerosB_length]
  rcases hs with hs | hs
  · have : srk = [] := List.eq_nil_of_length_eq_zero hs
    subst this; rw [blitB_nil]; exact l1
  · rw [blitB_length _ _ _ (by rw [l1]; exact hs), l1]

theorem encodeSigBlock_spec (v : Ver) (sb : SigBlock) (s : Bytes) (hb : BlobLenOK sb)
    (h : encodeSigBlock v sb (sbLayout v sb) = .ok s) :
    ∃ hdr, sbHeader v (sbLayout v sb) sb.keyId = .ok hdr ∧
      s.take (sbLayout v sb).sigOff = (sbHead (sbLayout v sb) hdr sb.srk).take (sbLayout v sb).sigOff ∧
      s.length = (sbLayout v sb).length := by
  unfold encodeSigBlock at h
  cases hh : sbHeader v (sbLayout v sb) sb.keyId with
  | error e => rw [hh] at h; cases h
  | ok hdr =>
    rw [hh] at h; simp only at h
    cases hsg : encodeSignature sb.signature with
    | error e => rw [hsg] at h; cases h
    | ok sg =>
      rw [hsg] at h; simp only at h
      cases hsg2 : encodeSignature sb.signature2 with
      | error e => rw [hsg2] at h; cases h
      | ok sg2 =>
        rw [hsg2] at h; simp only at h
        cases hbl : encodeBlobOpt sb with
        | error e => rw [hbl] at h; cases h
        | ok bl =>
          rw [hbl] at h; cases h
          have L := sigblock_layout v sb
          simp only at L
          have hlen := sbHead_length (sbLayout v sb) hdr sb.srk (sbHeader_length hh) L.2.2.2.2.2.2.2.2.1 (by
            by_cases hs : sb.srk.length = 0
            · exact Or.inl hs
            · exact Or.inr (L.2.2.2.2.1 hs).2)
          have hblen : ∀ b, sb.blob = some b → bl.length = 8 + b.keyblob.length := by
            intro b hbs
            unfold encodeBlobOpt at hbl
            rw [hbs] at hbl
            exact encodeBlob_length hbl
          have := sbTail_take v sb (sbHead (sbLayout v sb) hdr sb.srk) sg sg2 bl hb hlen
            (encodeSignature_length hsg) (encodeSignature_length hsg2) hblen
          exact ⟨hdr, rfl, this.1, this.2⟩

theorem sbo_ge (v : Ver) (n : Nat) : (v.hdrLayout).size + n * (v.iaeLayout).size ≤ sigBlockOffset v n :=
  (al8_spec _).1

/-- shape of the exported container and of the data that is signed -/
theorem exportContainer_spec (v : Ver) (c : Container) (iaes : List Iae) (b : Bytes) (hb : BlobLenOK c.sb)
    (h : exportContainerWith v c iaes = .ok b) :
    ∃ hd a s hdr,
      encodeHeader v (headerLength v iaes.length (sbLayout v c.sb).length) c.flags c.swVersion c.fuseVersion iaes.length
        (sigBlockOffset v iaes.length) = .ok hd ∧
      encodeIaes v.iaeLayout iaes = .ok a ∧ encodeSigBlock v c.sb (sbLayout v c.sb) = .ok s ∧
      sbHeader v (sbLayout v c.sb) c.sb.keyId = .ok hdr ∧
      b = hd ++ a ++ zerosB (sigBlockOffset v iaes.length - (hd ++ a).length) ++ s ∧
      (hd ++ a ++ zerosB (sigBlockOffset v iaes.length - (hd ++ a).length)).length = sigBlockOffset v iaes.length ∧
      b.length = sigBlockOffset v iaes.length + (sbLayout v c.sb).length ∧
      b.take (sigBlockOffset v iaes.length + (sbLayout v c.sb).sigOff) =
        hd ++ a ++ zerosB (sigBlockOffset v iaes.length - (hd ++ a).length) ++
          (sbHead (sbLayout v c.sb) hdr c.sb.srk).take (sbLayout v c.sb).sigOff := by
  unfold exportContainerWith at h
  simp only at h
  cases hh : encodeHeader v (headerLength v iaes.length (sbLayout v c.sb).length) c.flags c.swVersion c.fuseVersion iaes.length
      (sigBlockOffset v iaes.length) with
  | error e => rw [hh] at h; cases h
  | ok hd =>
    rw [hh] at h; simp only at h
    cases ha : encodeIaes v.iaeLayout iaes with
    | error e => rw [ha] at h; cases h
    | ok a =>
      rw [ha] at h; simp only at h
      cases hs : encodeSigBlock v c.sb (sbLayout v c.sb) with
      | error e => rw [hs] at h; cases h
      | ok s =>
        rw [hs] at h; cases h
        obtain ⟨hdr, hhdr, htake, hslen⟩ := encodeSigBlock_spec v c.sb s hb hs
        have hl1 := encodeHeader_length v _ _ _ _ _ _ hd hh
        have hl2 := encodeIaes_length v.iaeLayout (iaeLayout_facts v).1 (iaeLayout_facts v).2.1 iaes a ha
        have hge := sbo_ge v iaes.length
        rw [(hdrLayout_widths v).2, (iaeLayout_facts v).2.2] at hge
        have hX : (hd ++ a ++ zerosB (sigBlockOffset v iaes.length - (hd ++ a).length)).length = sigBlockOffset v iaes.length := by
          simp only [List.length_append, zerosB_length, hl1, hl2]; omega
        refine ⟨hd, a, s, hdr, rfl, rfl, rfl, hhdr, rfl, hX, ?_, ?_⟩
        · rw [List.length_append, hX, hslen]
        · generalize hXd : hd ++ a ++ zerosB (sigBlockOffset v iaes.length - (hd ++ a).length) = X at hX ⊢
          rw [← hX, take_add_append, htake]


theorem isEmpty_congr {a b : Bytes} (h : a.length = b.length) : a.isEmpty = b.isEmpty := by
  cases a <;> cases b <;> simp_all

theorem signatureLen_congr {a b : Bytes} (h : a.length = b.length) : signatureLen a = signatureLen b := by
  unfold signatureLen
  rw [isEmpty_congr h, h]

theorem sbLayout_congr (v : Ver) (sb sb' : SigBlock) (h1 : sb'.srk.length = sb.srk.length)
    (h2 : sb'.signature.length = sb.signature.length) (h3 : sb'.signature2.length = sb.signature2.length)
    (h4 : sb'.cert.length = sb.cert.length) (h5 : sb'.blobLen = sb.blobLen) : sbLayout v sb' = sbLayout v sb := by
  have hs : sb'.sigSize v = sb.sigSize v := by
    unfold SigBlock.sigSize
    rw [signatureLen_congr h2, signatureLen_congr h3, isEmpty_congr h2]
  rw [sbLayout_eq, sbLayout_eq, h1, hs, h4, h5]

/-- the signed data of a container does not depend on the bytes of the signature(s), of the certificate or of the blob -
    only on their lengths (and on the blob's key identifier, which is stored in the block header) -/
theorem signed_data_independent (v : Ver) (c c' : Container) (iaes : List Iae) (b b' : Bytes)
    (hb : BlobLenOK c.sb) (hb' : BlobLenOK c'.sb)
    (hf : c'.flags = c.flags) (hsw : c'.swVersion = c.swVersion) (hfu : c'.fuseVersion = c.fuseVersion)
    (h1 : c'.sb.srk = c.sb.srk) (h2 : c'.sb.signature.length = c.sb.signature.length)
    (h3 : c'.sb.signature2.length = c.sb.signature2.length) (h4 : c'.sb.cert.length = c.sb.cert.length)
    (h5 : c'.sb.blobLen = c.sb.blobLen) (h6 : c'.sb.keyId = c.sb.keyId)
    (h : exportContainerWith v c iaes = .ok b) (h' : exportContainerWith v c' iaes = .ok b') :
    b'.take (sigBlockOffset v iaes.length + (sbLayout v c.sb).sigOff) =
      b.take (sigBlockOffset v iaes.length + (sbLayout v c.sb).sigOff) := by
  have ho := sbLayout_congr v c.sb c'.sb (by rw [h1]) h2 h3 h4 h5
  obtain ⟨hd, a, s, hdr, e1, e2, _, e4, _, _, _, e8⟩ := exportContainer_spec v c iaes b hb h
  obtain ⟨hd', a', s', hdr', e1', e2', _, e4', _, _, _, e8'⟩ := exportContainer_spec v c' iaes b' hb' h'
  rw [ho, hf, hsw, hfu] at e1'
  rw [e1] at e1'; cases e1'
  rw [e2] at e2'; cases e2'
  rw [ho, h6, e4] at e4'; cases e4'
  rw [ho, h1] at e8'
  rw [e8, e8']


/-! ### offset assignment -/

/-- every image sits where the loop of `update_fields` puts it: at its explicit offset, or at the cursor, and the cursor
    moves to the aligned end (+ gap) of the image -/
def Assigned (ch : Chip) (v : Ver) : Nat → List Placed → Prop
  | _, [] => True
  | cur, p :: ps =>
    p.offset = (if p.entry.offset > 0 then p.entry.offset else cur) ∧ Assigned ch v (nextCursor ch v p.entry p.ready p.offset) ps

def endCursor (ch : Chip) (v : Ver) : Nat → List Placed → Nat
  | cur, [] => cur
  | _, p :: ps => endCursor ch v (nextCursor ch v p.entry p.ready p.offset) ps

/-- no explicit offset lies behind the cursor -/
def ExplicitAhead (ch : Chip) (v : Ver) : Nat → List Placed → Prop
  | _, [] => True
  | cur, p :: ps => (p.entry.offset > 0 → cur ≤ p.entry.offset) ∧ ExplicitAhead ch v (nextCursor ch v p.entry p.ready p.offset) ps

/-- increasing and non-overlapping, starting at or after `lo` -/
def OrderedFrom : Nat → List Placed → Prop
  | _, [] => True
  | lo, p :: ps => lo ≤ p.offset ∧ OrderedFrom (p.offset + p.ready.size) ps

theorem Assigned_append (ch : Chip) (v : Ver) : ∀ (l1 l2 : List Placed) (cur : Nat),
    Assigned ch v cur (l1 ++ l2) ↔ Assigned ch v cur l1 ∧ Assigned ch v (endCursor ch v cur l1) l2
  | [], l2, cur => by simp [Assigned, endCursor]
  | p :: l1, l2, cur => by
    simp only [List.cons_append, Assigned, endCursor, Assigned_append ch v l1 l2]
    exact and_assoc.symm

theorem placeEntries_assigned (ch : Chip) (v : Ver) (base : Nat) : ∀ (ers : List (Entry × Ready)) (cur : Nat),
    Assigned ch v cur (placeEntries ch v base cur ers).1 ∧
    (placeEntries ch v base cur ers).2 = endCursor ch v cur (placeEntries ch v base cur ers).1 ∧
    (placeEntries ch v base cur ers).1.map (fun p => (p.entry, p.ready)) = ers ∧
    ∀ p ∈ (placeEntries ch v base cur ers).1, p.iae = mkIae base p.offset p.entry p.ready
  | [], cur => ⟨trivial, rfl, rfl, fun _ h => by cases h⟩
  | (e, r) :: rest, cur => by
    have ih := placeEntries_assigned ch v base rest (nextCursor ch v e r (if e.offset > 0 then e.offset else cur))
    simp only [placeEntries, Assigned, endCursor, List.map_cons]
    refine ⟨⟨trivial, ih.1⟩, ih.2.1, by rw [ih.2.2.1], ?_⟩
    intro p hp
    rcases List.mem_cons.1 hp with rfl | hp
    · rfl
    · exact ih.2.2.2 p hp

theorem updateContainers_assigned (c : Crypto.CryptoOps) (ch : Chip) (v : Ver) : ∀ (cs : List Container) (ix cur : Nat)
    (us : List UContainer), updateContainers c ch v ix cur cs = .ok us → Assigned ch v cur (allPlaced us)
  | [], _, _, us, h => by cases h; trivial
  | ct :: rest, ix, cur, us, h => by
    unfold updateContainers at h
    cases hb : v.containerOffset ix with
    | error e => rw [hb] at h; simp at h
    | ok base =>
      cases hr : readyEntries c ch v (if ct.sb.blob.isSome then ct.dek else none) ct.entries with
      | error e => rw [hb, hr] at h; simp at h
      | ok rs =>
        rw [hb, hr] at h
        simp only at h
        cases hu : updateContainers c ch v (ix + 1) (placeEntries ch v base cur (ct.entries.zip rs)).2 rest with
        | error e => rw [hu] at h; cases h
        | ok us' =>
          rw [hu] at h; cases h
          have ih := updateContainers_assigned c ch v rest (ix + 1) _ us' hu
          have hp := placeEntries_assigned ch v base (ct.entries.zip rs) cur
          simp only [allPlaced, List.flatMap_cons]
          rw [Assigned_append]
          refine ⟨hp.1, ?_⟩
          rw [← hp.2.1]
          exact ih

theorem validAlignment_pos (ch : Chip) (v : Ver) (flags : Nat) : 0 < max (validAlignment ch v flags) ch.row.minOffsetAlign := by
  unfold validAlignment
  split <;> omega

theorem nextCursor_ge (ch : Chip) (v : Ver) (e : Entry) (r : Ready) (off : Nat) :
    off + r.size + e.gapAfter ≤ nextCursor ch v e r off ∧
    nextCursor ch v e r off % (max (validAlignment ch v e.flags) ch.row.minOffsetAlign) = 0 := by
  unfold nextCursor validOffset
  have := alignNat_spec (off + r.size + e.gapAfter) _ (validAlignment_pos ch v e.flags)
  exact ⟨this.2.1, this.1⟩

theorem OrderedFrom_mono : ∀ (ps : List Placed) (lo lo' : Nat), lo' ≤ lo → OrderedFrom lo ps → OrderedFrom lo' ps
  | [], _, _, _, _ => trivial
  | _ :: _, _, _, h, ⟨h1, h2⟩ => ⟨Nat.le_trans h h1, h2⟩

/-- images placed by the loop never overlap as long as no explicit offset points behind the cursor -/
theorem assigned_ordered (ch : Chip) (v : Ver) : ∀ (ps : List Placed) (cur : Nat),
    Assigned ch v cur ps → ExplicitAhead ch v cur ps → OrderedFrom cur ps
  | [], _, _, _ => trivial
  | p :: ps, cur, ⟨ha, hrest⟩, ⟨he, herest⟩ => by
    have hoff : cur ≤ p.offset := by
      rw [ha]; split
      · rename_i h; exact he h
      · exact Nat.le_refl _
    refine ⟨hoff, ?_⟩
    have ih := assigned_ordered ch v ps _ hrest herest
    exact OrderedFrom_mono ps _ _ (by have := (nextCursor_ge ch v p.entry p.ready p.offset).1; omega) ih

theorem explicitAhead_of_auto (ch : Chip) (v : Ver) : ∀ (ps : List Placed) (cur : Nat),
    (∀ p ∈ ps, p.entry.offset = 0) → ExplicitAhead ch v cur ps
  | [], _, _ => trivial
  | p :: ps, cur, h => by
    refine ⟨fun hp => ?_, explicitAhead_of_auto ch v ps _ (fun q hq => h q (List.mem_cons_of_mem _ hq))⟩
    have := h p (List.mem_cons_self); omega

theorem OrderedFrom_ge : ∀ (ps : List Placed) (lo : Nat), OrderedFrom lo ps → ∀ p ∈ ps, lo ≤ p.offset
  | [], _, _, _, h => by cases h
  | q :: ps, lo, ⟨h1, h2⟩, p, hp => by
    rcases List.mem_cons.1 hp with rfl | hp
    · exact h1
    · have := OrderedFrom_ge ps _ h2 p hp; omega

theorem OrderedFrom_pairwise : ∀ (ps : List Placed) (lo : Nat), OrderedFrom lo ps →
    ps.Pairwise (fun p q => p.offset + p.ready.size ≤ q.offset)
  | [], _, _ => List.Pairwise.nil
  | p :: ps, _, ⟨_, h2⟩ => List.Pairwise.cons (fun q hq => OrderedFrom_ge ps _ h2 q hq) (OrderedFrom_pairwise ps _ h2)


/-! ### fixed container offsets -/

theorem containerOffset_ok (v : Ver) (ix base : Nat) (h : v.containerOffset ix = .ok base) :
    base = ix * v.containerSize ∧ ix ≤ 3 := by
  unfold Ver.containerOffset at h
  cases v
  · simp only [AhabConsts.containerOffsetV1] at h
    by_cases h1 : ((ix : Int) < 0)
    · omega
    · by_cases h2 : ((ix : Int) > 3)
      · simp [h2] at h
      · simp [h2, h1] at h
        refine ⟨?_, by omega⟩
        show _ = ix * 1024
        omega
  · simp only [AhabConsts.containerOffsetV2] at h
    by_cases h1 : ((ix : Int) < 0)
    · omega
    · by_cases h2 : ((ix : Int) > 3)
      · simp [h2] at h
      · simp [h2, h1] at h
        refine ⟨?_, by omega⟩
        show _ = ix * 16384
        omega

theorem updateContainers_bases (c : Crypto.CryptoOps) (ch : Chip) (v : Ver) : ∀ (cs : List Container) (ix cur : Nat)
    (us : List UContainer), updateContainers c ch v ix cur cs = .ok us →
    us.length = cs.length ∧ ∀ k u, us[k]? = some u → u.index = ix + k ∧ u.base = (ix + k) * v.containerSize ∧ ix + k ≤ 3 ∧
      cs[k]? = some u.cont
  | [], _, _, us, h => by cases h; exact ⟨rfl, fun k u hk => by simp at hk⟩
  | ct :: rest, ix, cur, us, h => by
    unfold updateContainers at h
    cases hb : v.containerOffset ix with
    | error e => rw [hb] at h; simp at h
    | ok base =>
      cases hr : readyEntries c ch v (if ct.sb.blob.isSome then ct.dek else none) ct.entries with
      | error e => rw [hb, hr] at h; simp at h
      | ok rs =>
        rw [hb, hr] at h
        simp only at h
        cases hu : updateContainers c ch v (ix + 1) (placeEntries ch v base cur (ct.entries.zip rs)).2 rest with
        | error e => rw [hu] at h; cases h
        | ok us' =>
          rw [hu] at h; cases h
          have ih := updateContainers_bases c ch v rest (ix + 1) _ us' hu
          have hco := containerOffset_ok v ix base hb
          refine ⟨by simp [ih.1], ?_⟩
          intro k u hk
          cases k with
          | zero =>
            simp only [List.getElem?_cons_zero, Option.some.injEq] at hk
            subst hk
            exact ⟨rfl, by simpa using hco.1, by simpa using hco.2, rfl⟩
          | succ k =>
            simp only [List.getElem?_cons_succ] at hk
            have := ih.2 k u hk
            refine ⟨by omega, ?_, by omega, by simpa using this.2.2.2⟩
            rw [this.2.1]; congr 1; omega

end SpsdkVerif.Ahab
