/- Helper lemmas for Properties/C06.lean (AHAB image). Core Lean only. -/
import SpsdkVerif.Model.Ahab
import SpsdkVerif.Model.AhabVerify
import SpsdkVerif.Spec.AhabRom
import SpsdkVerif.Proofs.Misc

namespace SpsdkVerif.Ahab
open SpsdkVerif SpsdkVerif.Misc
open SpsdkVerif.Generated

/-! ### little-endian integers, `struct.pack` / `unpack` -/

theorem leEnc_length (n v : Nat) : (leEnc n v).length = n := by
  simp [leEnc, beEnc_length']

theorem leDec_leEnc (n v : Nat) (h : v < 256 ^ n) : leDec (leEnc n v) = v := by
  simp [leDec, leEnc, beDec_beEnc_mod, Nat.mod_eq_of_lt h]

theorem fits_cons (w v : Nat) (ws vs : List Nat) :
    fits (w :: ws) (v :: vs) = true ↔ v < 256 ^ w ∧ fits ws vs = true := by
  simp [fits]

theorem packInts_length : ∀ (ws vs : List Nat), fits ws vs = true → (packInts ws vs).length = intsLen ws
  | [], [], _ => rfl
  | [], _ :: _, h => by simp [fits] at h
  | _ :: _, [], h => by simp [fits] at h
  | w :: ws, v :: vs, h => by
    rw [fits_cons] at h
    simp [packInts, intsLen, leEnc_length, packInts_length ws vs h.2]

/-- `unpack(fmt, pack(fmt, *vs) + rest)` returns the values -/
theorem unpack_pack : ∀ (ws vs : List Nat) (rest : Bytes), fits ws vs = true →
    unpackInts ws (packInts ws vs ++ rest) = some vs
  | [], [], _, _ => rfl
  | [], _ :: _, _, h => by simp [fits] at h
  | _ :: _, [], _, h => by simp [fits] at h
  | w :: ws, v :: vs, rest, h => by
    rw [fits_cons] at h
    have hl : (leEnc w v).length = w := leEnc_length w v
    simp only [unpackInts, packInts, List.append_assoc]
    have h1 : ¬ ((leEnc w v ++ (packInts ws vs ++ rest)).length < w) := by
      simp [hl]
    rw [if_neg h1]
    have h2 : (leEnc w v ++ (packInts ws vs ++ rest)).drop w = packInts ws vs ++ rest := by
      rw [List.drop_append_of_le_length (by omega)]
      simp [List.drop_of_length_le (Nat.le_of_eq hl)]
    have h3 : (leEnc w v ++ (packInts ws vs ++ rest)).take w = leEnc w v := by
      rw [List.take_append_of_le_length (by omega)]
      exact List.take_of_length_le (Nat.le_of_eq hl)
    rw [h2, h3, unpack_pack ws vs rest h.2, leDec_leEnc w v h.1]

theorem packChecked_ok {ws vs : List Nat} {b : Bytes} (h : packChecked ws vs = .ok b) :
    fits ws vs = true ∧ b = packInts ws vs := by
  unfold packChecked at h
  split at h
  · cases h; exact ⟨by assumption, rfl⟩
  · cases h


theorem drop_packInts (ws vs : List Nat) (rest : Bytes) (h : fits ws vs = true) :
    (packInts ws vs ++ rest).drop (intsLen ws) = rest := by
  rw [List.drop_append_of_le_length (by rw [packInts_length ws vs h]; exact Nat.le_refl _)]
  simp [List.drop_of_length_le (Nat.le_of_eq (packInts_length ws vs h))]

theorem fitS_of_length (n : Nat) (b : Bytes) (h : b.length = n) : fitS n b = b := by
  unfold fitS
  rw [List.take_append_of_le_length (by omega)]
  exact List.take_of_length_le (Nat.le_of_eq h)

theorem fitS_length (n : Nat) (b : Bytes) : (fitS n b).length = n := by
  simp [fitS]

/-! ### image array entry -/

theorem iae_roundtrip' (l : AhabConsts.Layout) (hw : l.intWidths = [4, 4, 8, 8, 4, 4]) (hs : l.strFields = [(6, 64), (7, 32)])
    (hsz : l.size = 128) (e : Iae) (b rest : Bytes) (hh : e.hash.length = 64) (hi : e.iv.length = 32)
    (h : encodeIae l e = .ok b) : decodeIae l (b ++ rest) = some e := by
  unfold encodeIae at h
  cases hp : packChecked l.intWidths e.ints with
  | error err => rw [hp] at h; cases h
  | ok hb =>
    rw [hp] at h
    obtain ⟨hf, rfl⟩ := packChecked_ok hp
    have hH : hashFieldLen l = 64 := by simp [hashFieldLen, hs]
    have hI : ivFieldLen l = 32 := by simp [ivFieldLen, hs]
    simp only [hH, hI, fitS_of_length _ _ hh, fitS_of_length _ _ hi] at h
    cases h
    have hlen : (packInts l.intWidths e.ints).length = 32 := by
      rw [packInts_length _ _ hf, hw]; rfl
    unfold decodeIae
    have h1 : ¬ ((packInts l.intWidths e.ints ++ e.hash ++ e.iv ++ rest).length < l.size) := by
      simp [hlen, hh, hi, hsz]; omega
    rw [if_neg h1]
    have hu := unpack_pack l.intWidths e.ints (e.hash ++ (e.iv ++ rest)) hf
    simp only [List.append_assoc] at hu ⊢
    rw [hu]
    have hd := drop_packInts l.intWidths e.ints (e.hash ++ (e.iv ++ rest)) hf
    simp only [Iae.ints] at hd
    simp only [Iae.ints, hd, hH, hI]
    have t1 : (e.hash ++ (e.iv ++ rest)).take 64 = e.hash := by
      rw [List.take_append_of_le_length (by omega)]; exact List.take_of_length_le (Nat.le_of_eq hh)
    have t2 : (e.hash ++ (e.iv ++ rest)).drop 64 = e.iv ++ rest := by
      rw [List.drop_append_of_le_length (by omega)]; simp [List.drop_of_length_le (Nat.le_of_eq hh)]
    have t3 : (e.iv ++ rest).take 32 = e.iv := by
      rw [List.take_append_of_le_length (by omega)]; exact List.take_of_length_le (Nat.le_of_eq hi)
    rw [t1, t2, t3]

theorem encodeIae_length (l : AhabConsts.Layout) (hw : l.intWidths = [4, 4, 8, 8, 4, 4]) (hs : l.strFields = [(6, 64), (7, 32)])
    (e : Iae) (b : Bytes) (h : encodeIae l e = .ok b) : b.length = 128 := by
  unfold encodeIae at h
  cases hp : packChecked l.intWidths e.ints with
  | error err => rw [hp] at h; cases h
  | ok hb =>
    rw [hp] at h
    obtain ⟨hf, rfl⟩ := packChecked_ok hp
    cases h
    have hlen : (packInts l.intWidths e.ints).length = 32 := by
      rw [packInts_length _ _ hf, hw]; rfl
    simp [hlen, fitS_length, hashFieldLen, ivFieldLen, hs]


/-! ### container header -/

theorem hdrLayout_widths (v : Ver) : (v.hdrLayout).intWidths = [1, 2, 1, 4, 2, 1, 1, 2, 2] ∧ (v.hdrLayout).size = 16 := by
  cases v <;> exact ⟨rfl, rfl⟩

theorem iaeLayout_facts (v : Ver) : (v.iaeLayout).intWidths = [4, 4, 8, 8, 4, 4] ∧ (v.iaeLayout).strFields = [(6, 64), (7, 32)] ∧
    (v.iaeLayout).size = 128 := by
  cases v <;> exact ⟨rfl, rfl, rfl⟩

theorem encodeHeader_length (v : Ver) (length flags sw fuse n sbo : Nat) (b : Bytes)
    (h : encodeHeader v length flags sw fuse n sbo = .ok b) : b.length = 16 := by
  unfold encodeHeader at h
  obtain ⟨hf, rfl⟩ := packChecked_ok h
  rw [packInts_length _ _ hf, (hdrLayout_widths v).1]; rfl

theorem header_roundtrip' (v : Ver) (length flags sw fuse n sbo : Nat) (b rest : Bytes)
    (h : encodeHeader v length flags sw fuse n sbo = .ok b) (hl : length ≤ (b ++ rest).length) :
    decodeHeader v (b ++ rest) = some ⟨v.containerVersion, length, AhabConsts.containerTag, flags, sw, fuse, n, sbo⟩ := by
  have hb := encodeHeader_length v length flags sw fuse n sbo b h
  unfold encodeHeader at h
  obtain ⟨hf, rfl⟩ := packChecked_ok h
  unfold decodeHeader
  have h1 : ¬ ((packInts (v.hdrLayout).intWidths
      [v.containerVersion, length, AhabConsts.containerTag, flags, sw, fuse, n, sbo, AhabConsts.reserved] ++ rest).length
      < (v.hdrLayout).size) := by
    rw [(hdrLayout_widths v).2, List.length_append, hb]; omega
  rw [if_neg h1, unpack_pack _ _ rest hf]
  simp only
  have h2 : ¬ (AhabConsts.containerTag ≠ AhabConsts.containerTag ∨ v.containerVersion ≠ v.containerVersion ∨
      (packInts (v.hdrLayout).intWidths
      [v.containerVersion, length, AhabConsts.containerTag, flags, sw, fuse, n, sbo, AhabConsts.reserved] ++ rest).length < length) := by
    intro hc
    rcases hc with hc | hc | hc
    · exact hc rfl
    · exact hc rfl
    · omega
  rw [if_neg h2]


def IaeWF (e : Iae) : Prop := e.hash.length = 64 ∧ e.iv.length = 32

theorem encodeIaes_cons {l : AhabConsts.Layout} {e : Iae} {es : List Iae} {a : Bytes} (h : encodeIaes l (e :: es) = .ok a) :
    ∃ a1 a2, encodeIae l e = .ok a1 ∧ encodeIaes l es = .ok a2 ∧ a = a1 ++ a2 := by
  unfold encodeIaes at h
  cases h1 : encodeIae l e with
  | error err => rw [h1] at h; cases h2 : encodeIaes l es <;> rw [h2] at h <;> cases h
  | ok a1 =>
    cases h2 : encodeIaes l es with
    | error err => rw [h1, h2] at h; cases h
    | ok a2 => rw [h1, h2] at h; cases h; exact ⟨a1, a2, rfl, rfl, rfl⟩

theorem iaes_roundtrip' (l : AhabConsts.Layout) (hw : l.intWidths = [4, 4, 8, 8, 4, 4]) (hs : l.strFields = [(6, 64), (7, 32)])
    (hsz : l.size = 128) : ∀ (es : List Iae) (a pre rest : Bytes), (∀ e ∈ es, IaeWF e) → encodeIaes l es = .ok a →
    decodeIaes l (pre ++ a ++ rest) es.length pre.length = some es
  | [], _, _, _, _, _ => rfl
  | e :: es, a, pre, rest, hwf, h => by
    obtain ⟨a1, a2, h1, h2, rfl⟩ := encodeIaes_cons h
    have hl1 := encodeIae_length l hw hs e a1 h1
    have hd : (pre ++ (a1 ++ a2) ++ rest).drop pre.length = a1 ++ (a2 ++ rest) := by
      simp [List.append_assoc]
    have hwe := hwf e (List.mem_cons_self)
    have hdec := iae_roundtrip' l hw hs hsz e a1 (a2 ++ rest) hwe.1 hwe.2 h1
    have ih := iaes_roundtrip' l hw hs hsz es a2 (pre ++ a1) rest (fun x hx => hwf x (List.mem_cons_of_mem _ hx)) h2
    simp only [List.length_cons, decodeIaes, hd, hdec]
    have e1 : pre ++ (a1 ++ a2) ++ rest = pre ++ a1 ++ a2 ++ rest := by simp [List.append_assoc]
    have e2 : pre.length + l.size = (pre ++ a1).length := by simp [hl1, hsz]
    rw [e1, e2, ih]

theorem encodeIaes_length (l : AhabConsts.Layout) (hw : l.intWidths = [4, 4, 8, 8, 4, 4]) (hs : l.strFields = [(6, 64), (7, 32)]) :
    ∀ (es : List Iae) (a : Bytes), encodeIaes l es = .ok a → a.length = 128 * es.length
  | [], a, h => by cases h; rfl
  | e :: es, a, h => by
    obtain ⟨a1, a2, h1, h2, rfl⟩ := encodeIaes_cons h
    rw [List.length_append, encodeIae_length l hw hs e a1 h1, encodeIaes_length l hw hs es a2 h2, List.length_cons]
    omega


/-! ### SRK record / table -/

structure SrkRecWF (r : SrkRecord) : Prop where
  alg1 : AhabConsts.srkRecordVersions.contains r.signAlg = true
  alg2 : AhabConsts.signAlgV1.any (fun t => t.2.1 == r.signAlg) = true
  hsh : AhabConsts.hashAlgV1.any (fun t => t.2.1 == r.hashAlg) = true
  len : r.length = AhabConsts.srkRecordLayout.size + r.params.length
  par : ∃ l1 l2, keySizes r.keySize = some (l1, l2) ∧ r.params.length = l1 + l2

theorem encodeSrkRecord_ok {r : SrkRecord} {b : Bytes} (h : encodeSrkRecord r = .ok b) :
    ∃ l1 l2, keySizes r.keySize = some (l1, l2) ∧
      fits AhabConsts.srkRecordLayout.intWidths [AhabConsts.srkRecordTag, r.length, r.signAlg, r.hashAlg, r.keySize, AhabConsts.reserved, r.srkFlags] = true ∧
      fits [2, 2] [l1, l2] = true ∧
      b = packInts AhabConsts.srkRecordLayout.intWidths [AhabConsts.srkRecordTag, r.length, r.signAlg, r.hashAlg, r.keySize, AhabConsts.reserved, r.srkFlags]
            ++ packInts [2, 2] [l1, l2] ++ r.params := by
  unfold encodeSrkRecord at h
  cases hk : keySizes r.keySize with
  | none => rw [hk] at h; cases h
  | some p =>
    obtain ⟨l1, l2⟩ := p
    rw [hk] at h
    simp only at h
    cases hp : packChecked AhabConsts.srkRecordLayout.intWidths [AhabConsts.srkRecordTag, r.length, r.signAlg, r.hashAlg, r.keySize, AhabConsts.reserved, r.srkFlags] with
    | error e => rw [hp] at h; cases h
    | ok hb =>
      rw [hp] at h
      obtain ⟨hf, rfl⟩ := packChecked_ok hp
      simp only at h
      split at h
      · cases h; exact ⟨l1, l2, rfl, hf, by assumption, rfl⟩
      · cases h

theorem encodeSrkRecord_length {r : SrkRecord} {b : Bytes} (h : encodeSrkRecord r = .ok b) :
    b.length = AhabConsts.srkRecordLayout.size + r.params.length := by
  obtain ⟨l1, l2, _, hf, hf2, rfl⟩ := encodeSrkRecord_ok h
  simp only [List.length_append, packInts_length _ _ hf, packInts_length _ _ hf2]
  rfl

theorem srkRecord_roundtrip' (r : SrkRecord) (b rest : Bytes) (hwf : SrkRecWF r) (h : encodeSrkRecord r = .ok b) :
    decodeSrkRecord (b ++ rest) = some r := by
  have hbl := encodeSrkRecord_length h
  obtain ⟨l1, l2, hk, hf, hf2, rfl⟩ := encodeSrkRecord_ok h
  obtain ⟨l1', l2', hk', hpl⟩ := hwf.par
  rw [hk] at hk'; cases hk'
  have hsz : AhabConsts.srkRecordLayout.size = 12 := rfl
  unfold decodeSrkRecord
  simp only [List.append_assoc]
  have hu := unpack_pack AhabConsts.srkRecordLayout.intWidths _ (packInts [2, 2] [l1, l2] ++ (r.params ++ rest)) hf
  have h1 : ¬ ((packInts AhabConsts.srkRecordLayout.intWidths [AhabConsts.srkRecordTag, r.length, r.signAlg, r.hashAlg, r.keySize, AhabConsts.reserved, r.srkFlags]
      ++ (packInts [2, 2] [l1, l2] ++ (r.params ++ rest))).length < AhabConsts.srkRecordLayout.size) := by
    simp only [List.length_append, packInts_length _ _ hf, packInts_length _ _ hf2]
    show ¬ (8 + (4 + _) < 12); omega
  rw [if_neg h1, hu]
  simp only
  have hlen : (packInts AhabConsts.srkRecordLayout.intWidths [AhabConsts.srkRecordTag, r.length, r.signAlg, r.hashAlg, r.keySize, AhabConsts.reserved, r.srkFlags]
      ++ (packInts [2, 2] [l1, l2] ++ (r.params ++ rest))).length = 12 + r.params.length + rest.length := by
    simp only [List.length_append, packInts_length _ _ hf, packInts_length _ _ hf2]
    show 8 + (4 + _) = _; omega
  have h2 : ¬ (AhabConsts.srkRecordTag ≠ AhabConsts.srkRecordTag ∨ (!AhabConsts.srkRecordVersions.contains r.signAlg) = true ∨
      (packInts AhabConsts.srkRecordLayout.intWidths [AhabConsts.srkRecordTag, r.length, r.signAlg, r.hashAlg, r.keySize, AhabConsts.reserved, r.srkFlags]
      ++ (packInts [2, 2] [l1, l2] ++ (r.params ++ rest))).length < r.length) := by
    rw [hlen, hwf.len, hsz, hwf.alg1]
    simp
  rw [if_neg h2]
  have h3 : ¬ ((!AhabConsts.signAlgV1.any (fun t => t.2.1 == r.signAlg)) = true ∨ (!AhabConsts.hashAlgV1.any (fun t => t.2.1 == r.hashAlg)) = true) := by
    rw [hwf.alg2, hwf.hsh]; simp
  rw [if_neg h3]
  have hd := drop_packInts AhabConsts.srkRecordLayout.intWidths _ (packInts [2, 2] [l1, l2] ++ (r.params ++ rest)) hf
  rw [hd, unpack_pack [2, 2] [l1, l2] (r.params ++ rest) hf2]
  simp only
  have h4 : ¬ (l1 + l2 + AhabConsts.srkRecordLayout.size > r.length) := by
    rw [hwf.len, hpl]; omega
  rw [if_neg h4]
  have hd2 : (packInts AhabConsts.srkRecordLayout.intWidths [AhabConsts.srkRecordTag, r.length, r.signAlg, r.hashAlg, r.keySize, AhabConsts.reserved, r.srkFlags]
      ++ (packInts [2, 2] [l1, l2] ++ (r.params ++ rest))).drop AhabConsts.srkRecordLayout.size = r.params ++ rest := by
    have e : packInts AhabConsts.srkRecordLayout.intWidths [AhabConsts.srkRecordTag, r.length, r.signAlg, r.hashAlg, r.keySize, AhabConsts.reserved, r.srkFlags]
      ++ (packInts [2, 2] [l1, l2] ++ (r.params ++ rest)) =
      (packInts AhabConsts.srkRecordLayout.intWidths [AhabConsts.srkRecordTag, r.length, r.signAlg, r.hashAlg, r.keySize, AhabConsts.reserved, r.srkFlags]
      ++ packInts [2, 2] [l1, l2]) ++ (r.params ++ rest) := by simp [List.append_assoc]
    rw [e, List.drop_append_of_le_length (by
      simp only [List.length_append, packInts_length _ _ hf, packInts_length _ _ hf2]; exact Nat.le_refl _)]
    have : (packInts AhabConsts.srkRecordLayout.intWidths [AhabConsts.srkRecordTag, r.length, r.signAlg, r.hashAlg, r.keySize, AhabConsts.reserved, r.srkFlags]
      ++ packInts [2, 2] [l1, l2]).length = AhabConsts.srkRecordLayout.size := by
      simp only [List.length_append, packInts_length _ _ hf, packInts_length _ _ hf2]; rfl
    simp [List.drop_of_length_le (Nat.le_of_eq this)]
  rw [hd2, ← hpl, List.take_append_of_le_length (Nat.le_refl _), List.take_of_length_le (Nat.le_refl _)]


theorem encodeRecords_cons {r : SrkRecord} {rs : List SrkRecord} {a : Bytes} (h : encodeRecords (r :: rs) = .ok a) :
    ∃ a1 a2, encodeSrkRecord r = .ok a1 ∧ encodeRecords rs = .ok a2 ∧ a = a1 ++ a2 := by
  unfold encodeRecords at h
  cases h1 : encodeSrkRecord r with
  | error err => rw [h1] at h; cases h2 : encodeRecords rs <;> rw [h2] at h <;> cases h
  | ok a1 =>
    cases h2 : encodeRecords rs with
    | error err => rw [h1, h2] at h; cases h
    | ok a2 => rw [h1, h2] at h; cases h; exact ⟨a1, a2, rfl, rfl, rfl⟩

theorem records_roundtrip' (recSize : Nat) : ∀ (rs : List SrkRecord) (a pre rest : Bytes),
    (∀ r ∈ rs, SrkRecWF r ∧ AhabConsts.srkRecordLayout.size + r.params.length = recSize) → encodeRecords rs = .ok a →
    decodeRecordsAt (pre ++ a ++ rest) recSize rs.length pre.length = some rs ∧ a.length = recSize * rs.length
  | [], a, _, _, _, h => by cases h; exact ⟨rfl, rfl⟩
  | r :: rs, a, pre, rest, hwf, h => by
    obtain ⟨a1, a2, h1, h2, rfl⟩ := encodeRecords_cons h
    have hr := hwf r (List.mem_cons_self)
    have hl1 : a1.length = recSize := by rw [encodeSrkRecord_length h1]; exact hr.2
    have hd : (pre ++ (a1 ++ a2) ++ rest).drop pre.length = a1 ++ (a2 ++ rest) := by
      simp [List.append_assoc]
    have hdec := srkRecord_roundtrip' r a1 (a2 ++ rest) hr.1 h1
    have ih := records_roundtrip' recSize rs a2 (pre ++ a1) rest (fun x hx => hwf x (List.mem_cons_of_mem _ hx)) h2
    refine ⟨?_, ?_⟩
    · simp only [List.length_cons, decodeRecordsAt, hd, hdec]
      have e1 : pre ++ (a1 ++ a2) ++ rest = pre ++ a1 ++ a2 ++ rest := by simp [List.append_assoc]
      have e2 : pre.length + recSize = (pre ++ a1).length := by simp [hl1]
      rw [e1, e2, ih.1]
    · rw [List.length_append, hl1, ih.2, List.length_cons, Nat.mul_succ]; omega

/-- a table as `update_fields` leaves it: four well-formed records of one key type, computed lengths -/
structure SrkTableWF (t : SrkTable) : Prop where
  cnt : t.records.length = AhabConsts.srkRecordsCnt
  recs : ∀ r ∈ t.records, SrkRecWF r
  same : ∃ P, ∀ r ∈ t.records, r.params.length = P
  len : t.length = SrkTable.computedLength t.records

theorem computedLength_same (P : Nat) : ∀ (rs : List SrkRecord), (∀ r ∈ rs, r.params.length = P) →
    (rs.map SrkRecord.computedLength).foldr (· + ·) 0 = (AhabConsts.srkRecordLayout.size + P) * rs.length
  | [], _ => rfl
  | r :: rs, h => by
    simp only [List.map_cons, List.foldr_cons, List.length_cons]
    rw [computedLength_same P rs (fun x hx => h x (List.mem_cons_of_mem _ hx))]
    simp only [SrkRecord.computedLength, h r (List.mem_cons_self), Nat.mul_succ]
    omega

theorem srkTable_roundtrip' (t : SrkTable) (b rest : Bytes) (hwf : SrkTableWF t) (h : encodeSrkTable t = .ok b) :
    decodeSrkTable (b ++ rest) = some t := by
  obtain ⟨P, hP⟩ := hwf.same
  unfold encodeSrkTable at h
  cases hp : packChecked AhabConsts.srkTableLayout.intWidths [AhabConsts.srkTableTag, t.length, AhabConsts.srkTableVersion] with
  | error e => rw [hp] at h; cases h2 : encodeRecords t.records <;> rw [h2] at h <;> cases h
  | ok hb =>
    cases h2 : encodeRecords t.records with
    | error e => rw [hp, h2] at h; cases h
    | ok a =>
      rw [hp, h2] at h
      cases h
      obtain ⟨hf, rfl⟩ := packChecked_ok hp
      have hhl : (packInts AhabConsts.srkTableLayout.intWidths [AhabConsts.srkTableTag, t.length, AhabConsts.srkTableVersion]).length = 4 := by
        rw [packInts_length _ _ hf]; rfl
      have hr := records_roundtrip' (AhabConsts.srkRecordLayout.size + P) t.records a
        (packInts AhabConsts.srkTableLayout.intWidths [AhabConsts.srkTableTag, t.length, AhabConsts.srkTableVersion]) rest
        (fun r hr => ⟨hwf.recs r hr, by rw [hP r hr]⟩) h2
      have hcnt : t.records.length = 4 := hwf.cnt
      have htl : t.length = 4 + (AhabConsts.srkRecordLayout.size + P) * 4 := by
        rw [hwf.len, SrkTable.computedLength, computedLength_same P t.records hP, hcnt]; rfl
      unfold decodeSrkTable
      simp only [List.append_assoc]
      have hsz : AhabConsts.srkTableLayout.size = 4 := rfl
      have h1 : ¬ ((packInts AhabConsts.srkTableLayout.intWidths [AhabConsts.srkTableTag, t.length, AhabConsts.srkTableVersion] ++ (a ++ rest)).length
          < AhabConsts.srkTableLayout.size) := by
        rw [List.length_append, hhl, hsz]; omega
      rw [if_neg h1, unpack_pack _ _ (a ++ rest) hf]
      simp only
      have hlen : (packInts AhabConsts.srkTableLayout.intWidths [AhabConsts.srkTableTag, t.length, AhabConsts.srkTableVersion] ++ (a ++ rest)).length
          = 4 + (AhabConsts.srkRecordLayout.size + P) * 4 + rest.length := by
        simp only [List.length_append, hhl, hr.2, hcnt]; omega
      have h2' : ¬ (AhabConsts.srkTableTag ≠ AhabConsts.srkTableTag ∨ AhabConsts.srkTableVersion ≠ AhabConsts.srkTableVersion ∨
          (packInts AhabConsts.srkTableLayout.intWidths [AhabConsts.srkTableTag, t.length, AhabConsts.srkTableVersion] ++ (a ++ rest)).length < t.length ∨
          t.length < AhabConsts.srkTableLayout.size) := by
        rw [hlen, htl, hsz]
        intro hc
        rcases hc with hc | hc | hc | hc
        · exact hc rfl
        · exact hc rfl
        · omega
        · omega
      rw [if_neg h2']
      have hcnt4 : AhabConsts.srkRecordsCnt = 4 := rfl
      have h3 : ¬ ((t.length - AhabConsts.srkTableLayout.size) % AhabConsts.srkRecordsCnt ≠ 0) := by
        rw [htl, hsz, hcnt4]; omega
      rw [if_neg h3]
      have hrs : (t.length - AhabConsts.srkTableLayout.size) / AhabConsts.srkRecordsCnt = AhabConsts.srkRecordLayout.size + P := by
        rw [htl, hsz, hcnt4]; omega
      have hr1 := hr.1
      rw [hcnt, hhl] at hr1
      simp only [List.append_assoc] at hr1
      rw [hrs, hcnt4, hsz, hr1]
      simp [htl]
      cases t
      simp_all


/-! ### flag / meta-data words -/

theorem or_shl (x y n : Nat) (h : x < 2 ^ n) : x ||| (y <<< n) = x + y * 2 ^ n := by
  rw [Nat.or_comm, ← Nat.shiftLeft_add_eq_or_of_lt h, Nat.shiftLeft_eq, Nat.add_comm]

theorem getF_eq (x off size : Nat) : getF x off size = x / 2 ^ off % 2 ^ size := by
  unfold getF
  rw [Nat.one_shiftLeft, Nat.and_two_pow_sub_one_eq_mod, Nat.shiftRight_eq_div_pow]

theorem createMeta_val (a b c : Nat) (ha : a < 2 ^ 10) (hb : b < 2 ^ 10) :
    AhabConsts.createMeta a b c = .ok ((a + b * 2 ^ 10 + c * 2 ^ 20 : Nat) : Int) := by
  simp only [AhabConsts.createMeta, pyShl_nat, pyOr_nat]
  have e1 : (a ||| b <<< (10 : Int).toNat) = a + b * 2 ^ 10 := or_shl a b 10 ha
  have e2 : ((a + b * 2 ^ 10) ||| c <<< (20 : Int).toNat) = a + b * 2 ^ 10 + c * 2 ^ 20 := or_shl _ c 20 (by omega)
  simp only [e1, e2]

theorem createFlagsV1_val (ty core h boot : Nat) (enc : Bool) (ht : ty < 2 ^ 4) (hc : core < 2 ^ 4) (hh : h < 2 ^ 3) :
    AhabConsts.createFlagsV1 ty core h enc boot =
      .ok ((ty + core * 2 ^ 4 + h * 2 ^ 8 + (if enc then 1 else 0) * 2 ^ 11 + boot * 2 ^ 16 : Nat) : Int) := by
  have e1 : (ty ||| core <<< (4 : Int).toNat) = ty + core * 2 ^ 4 := or_shl ty core 4 ht
  have e2 : ((ty + core * 2 ^ 4) ||| h <<< (8 : Int).toNat) = ty + core * 2 ^ 4 + h * 2 ^ 8 := or_shl _ h 8 (by omega)
  cases enc
  · have e3 : ((ty + core * 2 ^ 4 + h * 2 ^ 8) ||| 0) = ty + core * 2 ^ 4 + h * 2 ^ 8 := Nat.or_zero _
    have e4 : ((ty + core * 2 ^ 4 + h * 2 ^ 8) ||| boot <<< (16 : Int).toNat) = ty + core * 2 ^ 4 + h * 2 ^ 8 + boot * 2 ^ 16 :=
      or_shl _ boot 16 (by omega)
    simp only [AhabConsts.createFlagsV1, pyShl_nat, pyOr_nat, Bool.false_eq_true, if_false]
    rw [show ((0 : Int)) = ((0 : Nat) : Int) from rfl]
    simp only [pyOr_nat, e1, e2, e3, e4]
    simp
  · have e3 : ((ty + core * 2 ^ 4 + h * 2 ^ 8) ||| 1 <<< (11 : Int).toNat) = ty + core * 2 ^ 4 + h * 2 ^ 8 + 1 * 2 ^ 11 :=
      or_shl _ 1 11 (by omega)
    have e4 : ((ty + core * 2 ^ 4 + h * 2 ^ 8 + 1 * 2 ^ 11) ||| boot <<< (16 : Int).toNat) =
        ty + core * 2 ^ 4 + h * 2 ^ 8 + 1 * 2 ^ 11 + boot * 2 ^ 16 := or_shl _ boot 16 (by omega)
    simp only [AhabConsts.createFlagsV1, if_true]
    rw [show ((1 : Int)) = ((1 : Nat) : Int) from rfl]
    simp only [pyShl_nat, pyOr_nat, e1, e2, e3, e4]

theorem createFlagsV2_val (ty core h boot : Nat) (enc : Bool) (ht : ty < 2 ^ 4) (hc : core < 2 ^ 4) (hh : h < 2 ^ 4) :
    AhabConsts.createFlagsV2 ty core h enc boot =
      .ok ((ty + core * 2 ^ 4 + h * 2 ^ 8 + (if enc then 1 else 0) * 2 ^ 12 + boot * 2 ^ 16 : Nat) : Int) := by
  have e1 : (ty ||| core <<< (4 : Int).toNat) = ty + core * 2 ^ 4 := or_shl ty core 4 ht
  have e2 : ((ty + core * 2 ^ 4) ||| h <<< (8 : Int).toNat) = ty + core * 2 ^ 4 + h * 2 ^ 8 := or_shl _ h 8 (by omega)
  cases enc
  · have e3 : ((ty + core * 2 ^ 4 + h * 2 ^ 8) ||| 0) = ty + core * 2 ^ 4 + h * 2 ^ 8 := Nat.or_zero _
    have e4 : ((ty + core * 2 ^ 4 + h * 2 ^ 8) ||| boot <<< (16 : Int).toNat) = ty + core * 2 ^ 4 + h * 2 ^ 8 + boot * 2 ^ 16 :=
      or_shl _ boot 16 (by omega)
    simp only [AhabConsts.createFlagsV2, pyShl_nat, pyOr_nat, Bool.false_eq_true, if_false]
    rw [show ((0 : Int)) = ((0 : Nat) : Int) from rfl]
    simp only [pyOr_nat, e1, e2, e3, e4]
    simp
  · have e3 : ((ty + core * 2 ^ 4 + h * 2 ^ 8) ||| 1 <<< (12 : Int).toNat) = ty + core * 2 ^ 4 + h * 2 ^ 8 + 1 * 2 ^ 12 :=
      or_shl _ 1 12 (by omega)
    have e4 : ((ty + core * 2 ^ 4 + h * 2 ^ 8 + 1 * 2 ^ 12) ||| boot <<< (16 : Int).toNat) =
        ty + core * 2 ^ 4 + h * 2 ^ 8 + 1 * 2 ^ 12 + boot * 2 ^ 16 := or_shl _ boot 16 (by omega)
    simp only [AhabConsts.createFlagsV2, if_true]
    rw [show ((1 : Int)) = ((1 : Nat) : Int) from rfl]
    simp only [pyShl_nat, pyOr_nat, e1, e2, e3, e4]

end SpsdkVerif.Ahab
