/- C07 helper lemmas, part 9: when the reset-vector heuristic of `AppHabSegment.parse` finds the application. -/
import SpsdkVerif.Model.HabWF
import SpsdkVerif.Proofs.HabBase
import SpsdkVerif.Proofs.HabCsf
import SpsdkVerif.Proofs.HabLayout
import SpsdkVerif.Proofs.HabRoundtrip
import SpsdkVerif.Proofs.HabSign

namespace SpsdkVerif.Hab
open SpsdkVerif SpsdkVerif.Misc SpsdkVerif.Generated

/-- the first element of an ascending list that passes the test is found -/
theorem find_first (d : Bytes) (entry a : Nat) (l : List Nat) (hs : l.Pairwise (· < ·)) (hm : a ∈ l)
    (hf : ∀ o ∈ l, o < a → vectorOk entry d.length (leDec (slice d (o + 4) 4)) = false)
    (ha : vectorOk entry d.length (leDec (slice d (a + 4) 4)) = true) :
    findAppOffset d entry l = some a := by
  induction l with
  | nil => cases hm
  | cons x r ih =>
    unfold findAppOffset
    by_cases hx : x = a
    · subst hx; rw [if_pos ha]
    · have har : a ∈ r := by
        rcases List.mem_cons.1 hm with h | h
        · exact absurd h.symm hx
        · exact h
      have hlt : x < a := (List.pairwise_cons.1 hs).1 a har
      rw [hf x (by simp) hlt]
      simp only [Bool.false_eq_true, ↓reduceIte]
      exact ih (List.pairwise_cons.1 hs).2 har (fun o ho => hf o (by simp [ho]))

theorem known_ascending : HabConsts.knownAppOffsets.Pairwise (· < ·) := by decide

/-- two different probed offsets are at least 8 apart -/
theorem known_gap (o a : Nat) (ho : o ∈ HabConsts.knownAppOffsets) (ha : a ∈ HabConsts.knownAppOffsets) (h : o < a) :
    o + 8 ≤ a := by
  simp [HabConsts.knownAppOffsets] at ho ha
  omega

theorem exportImage_length (c : Cfg) (b : Built) (h : c.WF) (happ : b.app.length = c.appBin.length)
    (hcsf : c.hasCsf = true → (csfBytes c.version b.cmds).length = HabConsts.csfSize) :
    (exportImage c b).length = c.imgLen := by
  obtain ⟨_, _, _, _, _, _, _, _, _, _, pCsf, pNoCsf, _⟩ := ivt_points_lemma c b h happ hcsf
  unfold Cfg.imgLen
  by_cases hh : c.hasCsf = true
  · rw [if_pos hh]; exact (pCsf hh).2.2.2
  · have hh' : c.hasCsf = false := by simpa using hh
    simp only [hh', Bool.false_eq_true, ↓reduceIte]
    rw [(pNoCsf hh').2, happ]

/-- the decidable predicate implies what `hab_roundtrip_partial` needs -/
theorem app_visible_lemma (c : Cfg) (b : Built) (h : c.WF) (happ : b.app.length = c.appBin.length)
    (hcsf : c.hasCsf = true → (csfBytes c.version b.cmds).length = HabConsts.csfSize)
    (hv : AppVisible c b.app) :
    findAppOffset (exportImage c b) c.entry HabConsts.knownAppOffsets = some c.appOff := by
  obtain ⟨_, h8, hvec, hfront⟩ := hv
  have hlen := exportImage_length c b h happ hcsf
  have hmem : c.appOff ∈ HabConsts.knownAppOffsets := by rw [appOff_eq]; exact h.appOffKnown
  have himg : exportImage c b = image c b.app (if c.hasCsf then some (csfBytes c.version b.cmds) else none) := rfl
  apply find_first _ _ _ _ known_ascending hmem
  · intro o ho hlt
    rw [hlen, himg, image_head_indep c h b.app [] _ none (o + 4) 4 (by have := known_gap o _ ho hmem hlt; omega)]
    exact hfront o ho hlt
  · rw [hlen]
    have hs : slice (exportImage c b) c.appOff b.app.length = b.app := by rw [himg]; exact image_app_slice c h b.app _
    have : slice (exportImage c b) (c.appOff + 4) 4 = slice b.app 4 4 := by
      rw [← slice_slice _ c.appOff b.app.length 4 4 (by omega), hs]
    rw [this]
    exact hvec

/-- a quiet front part: every earlier probe reads zero, so the third clause of `AppVisible` holds -/
theorem front_quiet_lemma (c : Cfg) (h : c.WF) (hq : c.FrontQuiet) (o : Nat) (ho : o ∈ HabConsts.knownAppOffsets)
    (hlt : o < c.appOff) : vectorOk c.entry c.imgLen (leDec (slice (image c [] none) (o + 4) 4)) = false := by
  have hmem : c.appOff ∈ HabConsts.knownAppOffsets := by rw [appOff_eq]; exact h.appOffKnown
  have hgap := known_gap o _ ho hmem hlt
  have ho256 : 256 ≤ o := by simp [HabConsts.knownAppOffsets] at ho; omega
  have hz : slice (image c [] none) (o + 4) 4 = zeros 4 := by
    obtain ⟨t, e⟩ := image_nf' c h [] none
    rw [e, List.append_assoc, slice_append_left _ _ _ _ (by rw [pre_length c h]; omega)]
    unfold pre
    have h3 : (st3 c).length ≤ 0x104 := by
      rw [st3_length c h]
      cases hd : c.dcd with
      | some d => simp only []; have := hq.1 d hd; omega
      | none =>
        cases hx : c.xmcd with
        | some x => simp only []; have := hq.2 x hx; omega
        | none => simp only []; omega
    rw [slice_append_right _ _ _ _ (by omega)]
    exact slice_zeros _ _ _ (by have := st3_le c h; omega)
  rw [hz]
  have : leDec (zeros 4) = 0 := by decide
  rw [this]
  simp [vectorOk]


theorem blocks_addBlocks (c : Cmd) (bl : List (Nat × Nat)) (h : isAut c = true) : (c.addBlocks bl).blocks = c.blocks ++ bl := by
  cases c <;> simp_all [isAut, Cmd.addBlocks, Cmd.blocks]

theorem getLast_append_ne {α} (a b : List α) (h : b ≠ []) : (a ++ b).getLast? = b.getLast? := by
  cases b with
  | nil => exact absurd rfl h
  | cons x r =>
    rw [List.getLast?_append]
    cases hh : (x :: r).getLast? with
    | none => simp at hh
    | some y => rfl

/-- the block `AppHabSegment.parse` takes from the CSF of a built container is the application block -/
theorem build_app_block (cr : Crypto.CryptoOps) (sg : Signer) (fuel : Nat) (c : Cfg) (b : Built) (h : c.WF)
    (hb : build cr sg fuel c = some b) (ha : c.flags ≠ 0) (hl : Crypto.CryptoLaws cr) (hm : macLenOk c.macLen = true)
    (h2 : (getAut 2 b.cmds).isSome = isEnc c.flags) :
    csfAppBlock b.cmds = some (c.start + c.ivtOff + c.appOff, c.appBin.length) := by
  have hf := flags_cases c.flags h.flags
  obtain ⟨_, c1, hc1, hg1⟩ := auth_data_lemma cr sg fuel c b h hb ha
  have ha1 := getAut_isAut 1 c.cmds c1 hc1
  have happblk : (c.mkBlock c.appOff c.appBin.length).base = c.start + c.ivtOff + c.appOff := by
    simp [Cfg.mkBlock, blockBaseN_eq]
  unfold csfAppBlock
  by_cases he : isEnc c.flags = true
  · have h12 : c.flags = 12 := by
      rcases h.flags with h0 | h0 | h0
      · exact absurd h0 ha
      · rw [hf.2.1, h0] at he; cases he
      · exact h0
    obtain ⟨mac, c2, _, hc2, hg2, _⟩ := enc_restores_lemma cr sg fuel c b h hb h12 hl hm
    have ha2 := getAut_isAut 2 c.cmds c2 hc2
    rw [hg2]
    simp only [Option.map_some, blocks_addBlocks _ _ ha2]
    have hne : (c2.cmd.blocks ++ blockPairs c.encryptedBlocks).isEmpty = false := by
      simp [blockPairs, Cfg.encryptedBlocks]
    rw [hne]
    simp only [Bool.false_eq_true, ↓reduceIte]
    rw [getLast_append_ne _ _ (by simp [blockPairs, Cfg.encryptedBlocks])]
    simp [blockPairs, Cfg.encryptedBlocks, Cfg.mkBlock, blockBaseN_eq]
  · have hn2 : getAut 2 b.cmds = none := by
      cases hg : getAut 2 b.cmds with
      | none => rfl
      | some x =>
        have : isEnc c.flags = true := by rw [← h2, hg]; rfl
        exact absurd this he
    rw [hn2, hg1]
    simp only [Option.map_none, Option.map_some, Option.bind_some, blocks_addBlocks _ _ ha1]
    have hne : blockPairs c.signedBlocks ≠ [] := by simp [blockPairs, Cfg.signedBlocks]
    rw [getLast_append_ne _ _ hne]
    have : ∃ pfx, blockPairs c.signedBlocks = pfx ++
        [((c.mkBlock c.appOff c.appBin.length).base, (c.mkBlock c.appOff c.appBin.length).size)] := by
      unfold Cfg.signedBlocks blockPairs
      simp only [he, Bool.false_eq_true, ↓reduceIte, List.map_append, List.map_cons, List.map_nil]
      exact ⟨_, rfl⟩
    obtain ⟨pfx, e⟩ := this
    rw [e, getLast_append_ne _ _ (by simp)]
    simp [Cfg.mkBlock, blockBaseN_eq]

end SpsdkVerif.Hab
