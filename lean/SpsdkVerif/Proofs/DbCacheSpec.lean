/-
C18 — specification vocabulary shared by `Properties/C18.lean` and the proof files
(`Proofs/DbCacheInv.lean`: interleavings, `Proofs/DbCacheSeq.lean`: one process run to completion).
-/
import SpsdkVerif.Model.DbCache

namespace SpsdkVerif.DbCache
open SpsdkVerif

/-- an entry equals what a load from the data folder yields now -/
def EntOK (env : Env) (e : Nat × Nat) : Prop := e.2 = env.loadCfg e.1

/-- **Fingerprint soundness** of a cache object: IF it has the expected class and its stored fingerprint
    equals the fingerprint of the current data files, THEN its entries are what a load yields now.
    (This is the assumption under which SPSDK's cache is correct at all: (mtime,size) fingerprints
    detect every change of a data file.)  A *stale* object is one with a different fingerprint
    and arbitrary entries — it satisfies `Sound` vacuously. -/
def Sound (env : Env) (v : Val) : Prop :=
  v.ty = env.expectedTy → env.fpOf (keys v.ents) = v.fp → ∀ e ∈ v.ents, EntOK env e

/-- an object whose entries are right whatever its fingerprint says (what running processes write) -/
def Good (env : Env) (v : Val) : Prop := v.ty = env.expectedTy → ∀ e ∈ v.ents, EntOK env e

/-- exception classes that both the loader's and (if it reads at all) the writer's `try` catch -/
def CaughtRW (G : Guards) (e : Exc) : Prop :=
  Exc.caughtBy G.l.caught e = true ∧ (G.w.mergesExisting = true → Exc.caughtBy G.w.caught e = true)

/-- A file content that cannot hurt: it does not unpickle and the exception is caught, or it unpickles
    to a fingerprint-sound object.  Covers: empty file, truncated prefix, stale cache, valid cache. -/
def Harmless (env : Env) (G : Guards) (b : Bytes) : Prop :=
  match env.unpickle b with
  | .ok v => Sound env v
  | .raises e => CaughtRW G e

/-- … and one whose entries can even be merged without validation -/
def BytesGood (env : Env) (G : Guards) (b : Bytes) : Prop :=
  match env.unpickle b with
  | .ok v => Good env v
  | .raises e => CaughtRW G e

/-- a complete, valid, up-to-date cache file -/
def Valid (env : Env) (b : Bytes) : Prop :=
  ∃ v, env.unpickle b = .ok v ∧ v.ty = env.expectedTy ∧ (∀ e ∈ v.ents, EntOK env e) ∧ env.fpOf (keys v.ents) = v.fp

/-- What is assumed about `pickle` (measured by the harness on every run, see `caught_covers`):
    a dumped object loads back, and no strict prefix of a dump loads — it raises one of `measured`. -/
structure PickleOK (env : Env) (measured : List Exc) : Prop where
  roundtrip : ∀ v, env.unpickle (env.pickle v) = .ok v
  prefix_raises : ∀ v n, n < (env.pickle v).length →
    ∃ e, env.unpickle ((env.pickle v).take n) = .raises e ∧ e ∈ measured
  /-- the empty file (the state a kill right after `open('wb')` leaves) -/
  empty_raises : ∃ e, env.unpickle [] = .raises e ∧ e ∈ measured

/-- The lexical facts about the code (as extracted into `Guards`) that the proofs need. -/
def wfGuards (G : Guards) : Bool :=
  -- loader: whatever can go wrong while using the cache ends in the handler
  Exc.caughtBy G.l.caught .FileNotFoundError &&
  G.l.typeChecked && G.l.typeCheckInTry && Exc.caughtBy G.l.caught G.l.typeExc &&
  G.l.fpChecked && G.l.staleClearsLoaded && G.l.handlerClearsLoaded &&
  (!G.l.removeStale || G.l.removeStaleInTry) &&
  (!G.l.handlerRemoves || Exc.caughtBy G.l.handlerRemoveTolerates .FileNotFoundError) &&
  -- writer: mutual exclusion, nothing escapes; a merging writer needs stale files to be removed by the loader
  G.w.lockWrite && G.w.allInTry &&
  (!G.w.mergesExisting ||
    (G.w.mergeTypeChecked && Exc.caughtBy G.w.caught G.w.mergeTypeExc &&
     Exc.caughtBy G.w.caught .FileNotFoundError && G.l.removeStale))

/-- every measured exception class is caught wherever the file is unpickled -/
def coversMeasured (G : Guards) (measured : List Exc) : Bool :=
  measured.all (fun e => Exc.caughtBy G.l.caught e && (!G.w.mergesExisting || Exc.caughtBy G.w.caught e))

def St.totalMeasure (s : St) : Nat := (s.procs.map Proc.measure).sum

/-- what `schedule_safe` guarantees about one process in a reachable state -/
def ProcSafe (env : Env) (p : Proc) : Prop :=
  (∀ e, p.pc ≠ .fatal e) ∧
  (∀ a ∈ p.answers, EntOK env a) ∧
  (p.pc = .done → p.answers = disabledAnswers env p.asked)

/-- the cache file in a reachable state -/
def FileSafe (env : Env) (G : Guards) (f : Option Bytes) : Prop :=
  ∀ b, f = some b → Harmless env G b

end SpsdkVerif.DbCache
