/-
C18 — specification vocabulary shared by `Properties/C18.lean` and the proof files
(`Proofs/DbCacheInv.lean`: interleavings, `Proofs/DbCacheSeq.lean`: one process run to completion).
-/
import SpsdkVerif.Model.DbCache

namespace SpsdkVerif.DbCache
open SpsdkVerif

/-- an entry equals what a load from the data folder yields now -/
def EntOK (env : Env) (e : Nat × Nat) : Prop := e.2 = env.loadCfg e.1

/-- **Fingerprint soundness** of a cache object: IF its stored fingerprint equals the fingerprint of the
    current data files, THEN its entries are what a load yields now — whatever its class.
    (This is the assumption under which SPSDK's cache is correct at all: (mtime,size) fingerprints
    detect every change of a data file.)  A *stale* object is one with a different fingerprint
    and arbitrary entries — it satisfies `Sound` vacuously. -/
def Sound (env : Env) (v : Val) : Prop :=
  env.fpOf (keys v.ents) = v.fp → ∀ e ∈ v.ents, EntOK env e

/-- an object whose entries are right whatever its fingerprint says (what running processes write) -/
def Good (env : Env) (v : Val) : Prop := ∀ e ∈ v.ents, EntOK env e

/-- exception classes that both the loader's and (if it reads at all) the writer's `try` catch -/
def CaughtRW (G : Guards) (e : Exc) : Prop :=
  Exc.caughtBy G.l.caught e = true ∧ (G.w.mergesExisting = true → Exc.caughtBy G.w.caught e = true)

/-- A file content that cannot hurt: it does not unpickle and the exception is caught, or it unpickles
    to a fingerprint-sound object.  Covers: empty file, truncated prefix, stale cache, valid cache. -/
def Harmless (env : Env) (G : Guards) (b : Bytes) : Prop :=
  match env.unpickle b with
  | .ok v => Sound env v
  | .raises e => CaughtRW G e

/-- … and one whose entries can even be merged without validation -/
def BytesGood (env : Env) (G : Guards) (b : Bytes) : Prop :=
  match env.unpickle b with
  | .ok v => Good env v
  | .raises e => CaughtRW G e

/-- a complete, valid, up-to-date cache file -/
def Valid (env : Env) (b : Bytes) : Prop :=
  ∃ v, env.unpickle b = .ok v ∧ (∀ e ∈ v.ents, EntOK env e) ∧ env.fpOf (keys v.ents) = v.fp

/-- What is assumed about `pickle` (measured by the harness on every run, see `caught_covers`):
    a dumped object loads back, and no strict prefix of a dump loads — it raises one of `measured`. -/
structure PickleOK (env : Env) (measured : List Exc) : Prop where
  roundtrip : ∀ v, env.unpickle (env.pickle v) = .ok v
  prefix_raises : ∀ v n, n < (env.pickle v).length →
    ∃ e, env.unpickle ((env.pickle v).take n) = .raises e ∧ e ∈ measured
  /-- the empty file (the state a kill right after `open('wb')` leaves) -/
  empty_raises : ∃ e, env.unpickle [] = .raises e ∧ e ∈ measured

/-- The lexical facts about the code (as extracted into `Guards`) that the proofs need.  Deliberately NOT required
    (the property holds without them): an `isinstance` check of the loaded / merged object (only: IF there is one, what
    it raises is caught), the lock around the loader's read, the exists-guards. -/
def wfGuards (G : Guards) : Bool :=
  -- loader: whatever can go wrong while using the cache (a vanished file, an I/O error, a lock time-out) ends in the handler
  ioExcs.all (Exc.caughtBy G.l.caught) &&
  (!G.l.typeChecked || (G.l.typeCheckInTry && Exc.caughtBy G.l.caught G.l.typeExc)) &&
  -- a cached object is used only after the fingerprint comparison, and never after a failed one
  G.l.fpChecked && G.l.staleClearsLoaded && G.l.handlerClearsLoaded &&
  (!G.l.removeStale || G.l.removeStaleInTry) &&
  (!G.l.handlerRemoves || Exc.caughtBy G.l.handlerRemoveTolerates .FileNotFoundError) &&
  -- writer: mutual exclusion of in-place writers; an I/O error of the store (read-only / full folder) is not fatal
  G.w.lockWrite && G.w.allInTry && ioExcs.all (Exc.caughtBy G.w.caught) &&
  -- a writer that merges the file it finds WITHOUT validating it needs every loader exit that does not trust the
  -- file to remove it (stale: remove; exception: the handler removes)
  (!G.w.mergesExisting ||
    ((!G.w.mergeTypeChecked || Exc.caughtBy G.w.caught G.w.mergeTypeExc) && G.l.removeStale && G.l.handlerRemoves))

/-- For `never_fatal`: the guards catch EVERY exception class below `Exception` (in fact: `except Exception`),
    at the loader, the writer and around the handler's `remove`; every raise site is inside its `try`. -/
def CatchAll (G : Guards) : Prop :=
  (∀ e, Exc.isSub e .Exception = true → Exc.caughtBy G.l.caught e = true ∧ Exc.caughtBy G.w.caught e = true) ∧
  (G.l.typeChecked = true → G.l.typeCheckInTry = true) ∧
  (G.l.removeStale = true → G.l.removeStaleInTry = true) ∧
  (G.l.handlerRemoves = true → Exc.caughtBy G.l.handlerRemoveTolerates .FileNotFoundError = true) ∧
  G.w.allInTry = true ∧
  Exc.isSub G.l.typeExc .Exception = true ∧ Exc.isSub G.w.mergeTypeExc .Exception = true

/-- `unpickle` raises only subclasses of `Exception` (no `KeyboardInterrupt`/`SystemExit`), on ANY bytes -/
def RaisesOnlyExceptions (env : Env) : Prop :=
  ∀ b e, env.unpickle b = .raises e → Exc.isSub e .Exception = true

/-- every measured exception class is caught wherever the file is unpickled -/
def coversMeasured (G : Guards) (measured : List Exc) : Bool :=
  measured.all (fun e => Exc.caughtBy G.l.caught e && (!G.w.mergesExisting || Exc.caughtBy G.w.caught e))

def St.totalMeasure (s : St) : Nat := (s.procs.map Proc.measure).sum

/-- what `schedule_safe` guarantees about one process in a reachable state -/
def ProcSafe (env : Env) (p : Proc) : Prop :=
  (∀ e, p.pc ≠ .fatal e) ∧
  (∀ a ∈ p.answers, EntOK env a) ∧
  (p.pc = .done → p.answers = disabledAnswers env p.asked)

/-- the cache file in a reachable state -/
def FileSafe (env : Env) (G : Guards) (f : Option Bytes) : Prop :=
  ∀ b, f = some b → Harmless env G b

end SpsdkVerif.DbCache
