/-
Fault-side lemmas for C10: a damaged frame is refused, a silent link never yields success, status codes are
mirrored, an unacknowledged data packet never yields `True`.
-/
import SpsdkVerif.Model.Mboot
import SpsdkVerif.Proofs.Mboot

namespace SpsdkVerif.Mboot.Fault
open SpsdkVerif SpsdkVerif.Mboot SpsdkVerif.Mboot.H

/-! ### monad plumbing -/

@[simp] theorem pure_run {α} (a : α) (s : Host) : (pure a : H α) s = (.ok a, s) := rfl
@[simp] theorem bind_run {α β} (m : H α) (f : α → H β) (s : Host) :
    (m >>= f) s = match m s with
      | (.ok a, s') => f a s'
      | (.error e, s') => (.error e, s') := rfl
@[simp] theorem fail_run {α} (e : HErr) (s : Host) : (fail e : H α) s = (.error e, s) := rfl
@[simp] theorem catch_run {α} (m : H α) (hd : HErr → H α) (s : Host) :
    catch_ m hd s = match m s with
      | (.ok a, s') => (.ok a, s')
      | (.error e, s') => hd e s' := rfl
@[simp] theorem get_run (s : Host) : H.get s = (.ok s, s) := rfl
@[simp] theorem modify_run (f : Host → Host) (s : Host) : H.modify f s = (.ok (), f s) := rfl
@[simp] theorem lift_run {α} (x : Except HErr α) (s : Host) : H.lift x s = (x, s) := rfl
@[simp] theorem setStatus_run (st : Nat) (s : Host) : setStatus st s = (.ok (), { s with status := st }) := rfl
@[simp] theorem devWrite_run (w : Bytes) (s : Host) : devWrite w s = (.ok (), s.write w) := rfl

/-! ### damaged frames -/

/-- raw frame assembly: start byte, type, length field, CRC field, payload -/
def rawFrame (t len crc : Nat) (p : Bytes) : Bytes :=
  [UInt8.ofNat Spec.startByte, UInt8.ofNat t] ++ le 2 len ++ le 2 crc ++ p

theorem mkFrame_eq_raw (t : Nat) (p : Bytes) : mkFrame t p = rawFrame t p.length (frameCrc t p) p := rfl

theorem parseFrame_raw (t crc : Nat) (p rest : Bytes) (ht : t < 256) (hp : p.length < 65536) (hc : crc < 65536) :
    parseFrame (rawFrame t p.length crc p ++ rest) =
      if crc = frameCrc t p then .ok (t, p, rest) else .error .badCrc := by
  have h1 : fromLe (le 2 p.length) = p.length := fromLe_le_of_lt 2 _ (by simpa using hp)
  have h2 : fromLe (le 2 crc) = crc := fromLe_le_of_lt 2 _ (by simpa using hc)
  rw [le2_cases] at h1 h2
  simp only [rawFrame, le2_cases, List.cons_append, List.nil_append, parseFrame]
  have e0 : (UInt8.ofNat Spec.startByte).toNat = Spec.startByte := by decide
  have e1 : (UInt8.ofNat t).toNat = t := toNat_ofNat8_lt ht
  simp only [e0, e1, h1, h2, ne_eq, not_true_eq_false, if_false, List.length_append]
  simp
  omega

/-- one byte of the type, CRC or payload region of `mkFrame t p` was changed (the CRC case even allows
    any other 16-bit value): the received type, CRC field and payload -/
inductive Corrupted (t : Nat) (p : Bytes) : Nat → Nat → Bytes → Prop
  | type (t' : Nat) : t' < 256 → t' ≠ t → Corrupted t p t' (frameCrc t p) p
  | crc (c' : Nat) : c' < 65536 → c' ≠ frameCrc t p → Corrupted t p t c' p
  | payload (pre suf : Bytes) (x y : UInt8) : p = pre ++ x :: suf → x ≠ y →
      Corrupted t p t (frameCrc t p) (pre ++ y :: suf)

theorem ofNat8_ne {a b : Nat} (ha : a < 256) (hb : b < 256) (h : a ≠ b) : UInt8.ofNat a ≠ UInt8.ofNat b := by
  intro e
  have := congrArg UInt8.toNat e
  rw [toNat_ofNat8_lt ha, toNat_ofNat8_lt hb] at this
  exact h this

theorem corrupted_facts {t : Nat} {p : Bytes} {t' c' : Nat} {p' : Bytes} (ht : t < 256)
    (h : Corrupted t p t' c' p') :
    c' ≠ frameCrc t' p' ∧ p'.length = p.length ∧ t' < 256 ∧ c' < 65536 := by
  cases h with
  | type t' h1 h2 =>
    refine ⟨?_, rfl, h1, crc16_lt _⟩
    have := crc16_single_byte_ne [UInt8.ofNat Spec.startByte] (le 2 p.length ++ p) (UInt8.ofNat t) (UInt8.ofNat t')
      (ofNat8_ne ht h1 (Ne.symm h2))
    simpa [frameCrc, crcInput] using this
  | crc c' h1 h2 => exact ⟨h2, rfl, ht, h1⟩
  | payload pre suf x y hp hxy =>
    subst hp
    refine ⟨?_, by simp, ht, crc16_lt _⟩
    have := crc16_single_byte_ne ([UInt8.ofNat Spec.startByte, UInt8.ofNat t] ++ le 2 (pre ++ x :: suf).length ++ pre) suf x y hxy
    have hl : (pre ++ y :: suf).length = (pre ++ x :: suf).length := by simp
    simpa [frameCrc, crcInput, hl] using this

/-! ### the host's reader on a damaged frame -/

theorem devRead_append (h : Host) (a r : Bytes) (ha : a ≠ []) (hrx : h.rxB = a ++ r) :
    devRead a.length h = (.ok a, { h with reads := h.reads + 1, rxB := r }) := by
  unfold devRead
  have h1 : a.length ≠ 0 := by
    intro e; exact ha (List.length_eq_zero_iff.mp e)
  have h2 : h.rxB.isEmpty = false := by
    rw [hrx]; cases a with
    | nil => exact absurd rfl ha
    | cons _ _ => rfl
  have h3 : a.length ≤ h.rxB.length := by rw [hrx]; simp
  simp only [h1, h2, false_or, Bool.false_eq_true, if_false, h3, if_true]
  rw [hrx]
  simp

theorem waitForData_nonzero (h : Host) (b : UInt8) (r : Bytes) (hb : b.toNat ≠ 0) (hrx : h.rxB = b :: r) :
    waitForData h = (.ok b.toNat, { h with reads := h.reads + 1, rxB := r }) := by
  unfold waitForData
  have : h.rxB.length + 1 = (h.rxB.length) + 1 := rfl
  rw [waitGo]
  have e := devRead_append h [b] r (by simp) (by simpa using hrx)
  simp only [List.length_cons, List.length_nil, Nat.zero_add] at e
  have hv : fromLe [b] = b.toNat := by simp [fromLe]
  have hv0 : fromLe [b] ≠ 0 := by rw [hv]; exact hb
  simp only [bind_run, e]
  rw [if_neg hv0, hv]
  rfl

theorem readFrameHeader_none (h : Host) (t : UInt8) (r : Bytes) (hrx : h.rxB = UInt8.ofNat Spec.startByte :: t :: r) :
    readFrameHeader none h =
      if t.toNat = Spec.fAbort then (.error .abort, { h with reads := h.reads + 1 + 1, rxB := r })
      else (.ok (Spec.startByte, t.toNat), { h with reads := h.reads + 1 + 1, rxB := r }) := by
  unfold readFrameHeader
  have e0 := waitForData_nonzero h (UInt8.ofNat Spec.startByte) (t :: r) (by decide) hrx
  have e1 := devRead_append { h with reads := h.reads + 1, rxB := t :: r } [t] r (by simp) rfl
  simp only [List.length_cons, List.length_nil, Nat.zero_add] at e1
  have s0 : (UInt8.ofNat Spec.startByte).toNat = Spec.startByte := by decide
  simp only [bind_run, e0, s0]
  have c1 : ¬ (Spec.startByte ≠ Spec.startByte ∧ Spec.startByte ≠ Spec.fAck) := by decide
  have c2 : ¬ (Spec.startByte = Spec.fAck) := by decide
  simp only [c1, c2, if_false, bind_run, e1, pure_run, fromLe, Nat.mul_zero, Nat.add_zero]
  split <;> simp_all

/-- `MbootSerialProtocol.read()` never returns a frame whose CRC field does not match:
    it raises McuBootConnectionError (or McuBootDataAbortError for an ABORT type / zero length). -/
theorem serialRead_rejects (h : Host) (t c : Nat) (p rest : Bytes) (ht : t < 256) (hp : p.length < 65536)
    (hc : c < 65536) (hrx : h.rxB = rawFrame t p.length c p ++ rest) (hbad : c ≠ frameCrc t p) :
    (serialRead h).1 = .error .conn ∨ (serialRead h).1 = .error .abort := by
  have e1 : (UInt8.ofNat t).toNat = t := toNat_ofNat8_lt ht
  have hrx' : h.rxB = UInt8.ofNat Spec.startByte :: UInt8.ofNat t :: (le 2 p.length ++ (le 2 c ++ (p ++ rest))) := by
    rw [hrx]; simp [rawFrame]
  have hh := readFrameHeader_none h (UInt8.ofNat t) _ hrx'
  unfold serialRead
  simp only [bind_run, hh, e1]
  by_cases hab : t = Spec.fAbort
  · right; simp [hab]
  · simp only [hab, if_false]
    have r1 := devRead_append { h with reads := h.reads + 1 + 1, rxB := le 2 p.length ++ (le 2 c ++ (p ++ rest)) } (le 2 p.length) _
      (by simp [le]) rfl
    have r2 := devRead_append { h with reads := h.reads + 1 + 1 + 1, rxB := le 2 c ++ (p ++ rest) } (le 2 c) _ (by simp [le]) rfl
    simp only [le_length] at r1 r2
    have l1 : fromLe (le 2 p.length) = p.length := fromLe_le_of_lt 2 _ (by simpa using hp)
    have l2 : fromLe (le 2 c) = c := fromLe_le_of_lt 2 _ (by simpa using hc)
    simp only [r1, r2, l1, l2]
    by_cases hz : p.length = 0
    · right; simp [hz, sendAck]
    · have r3 := devRead_append { h with reads := h.reads + 1 + 1 + 1 + 1, rxB := p ++ rest } p rest
        (by intro e; exact hz (by simp [e])) rfl
      left
      simp only [hz, if_false, bind_run, r3, sendAck, devWrite_run]
      rw [if_pos hbad]
      rfl

/-! ### a silent link (missing response, stream cut off): nothing is ever released again -/

def Peer.silent : Peer → Prop
  | .none => True
  | .script cs => ∀ c ∈ cs, ∀ r ∈ c, r = []
  | .live _ => False

/-- nothing to read now and nothing will ever arrive -/
structure Starved (h : Host) : Prop where
  rxB : h.rxB = []
  rxR : ∀ r ∈ h.rxR, r = []
  peer : Peer.silent h.peer

/-- the fields the link primitives never touch -/
def Same (h h' : Host) : Prop :=
  h'.cfg = h.cfg ∧ h'.mps = h.mps ∧ h'.eda = h.eda ∧ h'.opened = h.opened ∧ h'.status = h.status

theorem Same.refl (h : Host) : Same h h := ⟨rfl, rfl, rfl, rfl, rfl⟩
theorem Same.trans {a b c : Host} (h1 : Same a b) (h2 : Same b c) : Same a c := by
  obtain ⟨a1, a2, a3, a4, a5⟩ := h1
  obtain ⟨b1, b2, b3, b4, b5⟩ := h2
  exact ⟨b1.trans a1, b2.trans a2, b3.trans a3, b4.trans a4, b5.trans a5⟩

theorem flatten_all_nil (c : List Bytes) (h : ∀ r ∈ c, r = []) : c.flatten = [] := by
  induction c with
  | nil => rfl
  | cons x r ih =>
    have hx : x = [] := h x (by simp)
    simp [hx, ih (fun q hq => h q (by simp [hq]))]

theorem write_starved (h : Host) (w : Bytes) (hs : Starved h) : Starved (h.write w) ∧ Same h (h.write w) := by
  obtain ⟨h1, h2, h3⟩ := hs
  unfold Host.write
  cases hp : h.peer with
  | none =>
    cases htr : h.cfg.tr <;> simp only [hp, htr] <;>
      exact ⟨⟨by simp [h1], by simpa using h2, trivial⟩, rfl, rfl, rfl, rfl, rfl⟩
  | live d => rw [hp] at h3; exact absurd h3 (by simp [Peer.silent])
  | script cs =>
    rw [hp] at h3
    cases cs with
    | nil =>
      cases htr : h.cfg.tr <;> simp only [hp, htr] <;>
        exact ⟨⟨by simp [h1], by simpa using h2, by simp [Peer.silent]⟩, rfl, rfl, rfl, rfl, rfl⟩
    | cons c cs =>
      have hc : ∀ r ∈ c, r = [] := h3 c (by simp)
      have hcs : Peer.silent (.script cs) := fun c' hc' => h3 c' (by simp [hc'])
      cases htr : h.cfg.tr <;> simp only [hp, htr]
      · exact ⟨⟨by simp [h1, flatten_all_nil c hc], by simpa using h2, hcs⟩, rfl, rfl, rfl, rfl, rfl⟩
      · refine ⟨⟨by simp [h1], ?_, hcs⟩, rfl, rfl, rfl, rfl, rfl⟩
        intro r hr
        simp only [List.mem_append] at hr
        rcases hr with hr | hr
        · exact h2 r hr
        · exact hc r hr

/-- one more `device.read` call counted -/
def bump (h : Host) : Host := { h with reads := h.reads + 1 }

theorem bump_starved {h : Host} (hs : Starved h) : Starved (bump h) := ⟨hs.rxB, hs.rxR, hs.peer⟩
theorem bump_same (h : Host) : Same h (bump h) := ⟨rfl, rfl, rfl, rfl, rfl⟩

theorem devRead_starved (h : Host) (n : Nat) (hs : Starved h) : devRead n h = (.error .timeout, bump h) := by
  unfold devRead bump
  simp [hs.rxB]

theorem hidDevRead_starved (h : Host) (hs : Starved h) :
    ∃ h', hidDevRead h = (.error .timeout, h') ∧ Starved h' ∧ Same h h' := by
  unfold hidDevRead
  cases hr : h.rxR with
  | nil => exact ⟨bump h, by simp [bump, hr], bump_starved hs, bump_same h⟩
  | cons r rs =>
    have : r = [] := hs.rxR r (by simp [hr])
    subst this
    refine ⟨{ h with reads := h.reads + 1, rxR := rs }, by simp [hr], ⟨hs.rxB, ?_, hs.peer⟩, ⟨rfl, rfl, rfl, rfl, rfl⟩⟩
    intro q hq
    exact hs.rxR q (by simp [hr, hq])

theorem waitForData_starved (h : Host) (hs : Starved h) : waitForData h = (.error .timeout, bump h) := by
  unfold waitForData
  rw [hs.rxB]
  simp only [List.length_nil, Nat.zero_add, waitGo, bind_run, devRead_starved h 1 hs]

theorem readFrameHeader_starved (h : Host) (e : Option Nat) (hs : Starved h) :
    readFrameHeader e h = (.error .timeout, bump h) := by
  unfold readFrameHeader
  simp only [bind_run, waitForData_starved h hs]

theorem readAny_starved (h : Host) (hs : Starved h) :
    ∃ h', readAny h = (.error .timeout, h') ∧ Starved h' ∧ Same h h' := by
  unfold readAny
  simp only [bind_run, get_run]
  cases htr : h.cfg.tr with
  | serial =>
    refine ⟨bump h, ?_, bump_starved hs, bump_same h⟩
    simp only [serialRead, bind_run, readFrameHeader_starved h none hs]
  | hid =>
    obtain ⟨h', e, s1, s2⟩ := hidDevRead_starved h hs
    exact ⟨h', by simp only [hidRead, bind_run, e], s1, s2⟩

/-- same as `Same` but the status code may have changed -/
def SameButStatus (h h' : Host) : Prop :=
  h'.cfg = h.cfg ∧ h'.mps = h.mps ∧ h'.eda = h.eda ∧ h'.opened = h.opened

theorem Same.toSBS {h h' : Host} (s : Same h h') : SameButStatus h h' := ⟨s.1, s.2.1, s.2.2.1, s.2.2.2.1⟩
theorem SameButStatus.refl (h : Host) : SameButStatus h h := ⟨rfl, rfl, rfl, rfl⟩
theorem SameButStatus.trans {a b c : Host} (h1 : SameButStatus a b) (h2 : SameButStatus b c) : SameButStatus a c := by
  obtain ⟨a1, a2, a3, a4⟩ := h1
  obtain ⟨b1, b2, b3, b4⟩ := h2
  exact ⟨b1.trans a1, b2.trans a2, b3.trans a3, b4.trans a4⟩

theorem writeCommand_starved (h : Host) (p : CmdPkt) (hs : Starved h) :
    ∃ h', Starved h' ∧ Same h h' ∧
      (writeCommand p h = (.error .timeout, h') ∨ writeCommand p h = (.error .other, h') ∨
       writeCommand p h = (.ok (), h')) := by
  unfold writeCommand
  simp only [bind_run, lift_run, get_run]
  cases hb : p.toBytes with
  | error e =>
    refine ⟨h, hs, Same.refl h, ?_⟩
    unfold CmdPkt.toBytes at hb
    split at hb
    · cases hb; right; left; rfl
    · cases hb
  | ok data =>
    simp only
    cases htr : h.cfg.tr with
    | serial =>
      simp only [serialSendFrame]
      by_cases hl : 65536 ≤ data.length
      · exact ⟨h, hs, Same.refl h, Or.inr (Or.inl (by simp [hl]))⟩
      · refine ⟨bump (h.write (mkFrame Spec.fCmd data)), bump_starved (write_starved h _ hs).1,
          Same.trans (write_starved h _ hs).2 (bump_same _), Or.inl ?_⟩
        simp only [hl, if_false, bind_run, devWrite_run,
          readFrameHeader_starved _ (some Spec.fAck) (write_starved h _ hs).1]
    | hid =>
      simp only [hidWriteReport]
      by_cases hl : 65536 ≤ data.length
      · exact ⟨h, hs, Same.refl h, Or.inr (Or.inl (by simp [hl]))⟩
      · exact ⟨h.write (mkReport Spec.ridCmdOut data), (write_starved h _ hs).1, (write_starved h _ hs).2,
          Or.inr (Or.inr (by simp [hl]))⟩

theorem processCmd_starved (h : Host) (p : CmdPkt) (hs : Starved h) :
    ∃ h', Starved h' ∧ SameButStatus h h' ∧
      ((∃ e, processCmd p h = (.error e, h')) ∨
       (processCmd p h = (.ok (noResponse p.tag), h') ∧ h'.status = Spec.stNoResponse)) := by
  unfold processCmd
  simp only [bind_run, requireOpen, get_run]
  by_cases ho : h.opened = true
  · simp only [ho, if_true, pure_run, catch_run, bind_run]
    obtain ⟨h1, s1, m1, hw⟩ := writeCommand_starved h p hs
    rcases hw with hw | hw | hw
    · -- timeout while waiting for the ACK
      simp only [hw, setStatus_run, pure_run, if_true, bind_run, get_run]
      by_cases hce : h1.cfg.cmdExc = true
      · refine ⟨{ h1 with status := Spec.stNoResponse }, ⟨s1.rxB, s1.rxR, s1.peer⟩, ⟨m1.1, m1.2.1, m1.2.2.1, m1.2.2.2.1⟩,
          Or.inl ⟨.cmd Spec.stNoResponse, ?_⟩⟩
        simp [hce, noResponse]
      · refine ⟨{ h1 with status := Spec.stNoResponse }, ⟨s1.rxB, s1.rxR, s1.peer⟩, ⟨m1.1, m1.2.1, m1.2.2.1, m1.2.2.2.1⟩,
          Or.inr ⟨?_, rfl⟩⟩
        simp [hce, noResponse]
    · exact ⟨h1, s1, m1.toSBS, Or.inl ⟨.other, by simp [hw]⟩⟩
    · obtain ⟨h2, e2, s2, m2⟩ := readAny_starved h1 s1
      simp only [hw, e2, setStatus_run, pure_run, if_true, bind_run, get_run]
      have m12 := (Same.trans m1 m2)
      by_cases hce : h2.cfg.cmdExc = true
      · refine ⟨{ h2 with status := Spec.stNoResponse }, ⟨s2.rxB, s2.rxR, s2.peer⟩, ⟨m12.1, m12.2.1, m12.2.2.1, m12.2.2.2.1⟩,
          Or.inl ⟨.cmd Spec.stNoResponse, ?_⟩⟩
        simp [hce, noResponse]
      · refine ⟨{ h2 with status := Spec.stNoResponse }, ⟨s2.rxB, s2.rxR, s2.peer⟩, ⟨m12.1, m12.2.1, m12.2.2.1, m12.2.2.2.1⟩,
          Or.inr ⟨?_, rfl⟩⟩
        simp [hce, noResponse]
  · exact ⟨h, hs, SameButStatus.refl h, Or.inl ⟨.conn, by simp [ho]⟩⟩

/-! ### operations on a silent link never succeed -/

theorem not_succeeded_error (e : HErr) (h : Host) : ¬ succeeded (.error e) h := by
  rintro ⟨_, v, hv, _⟩; cases hv
theorem not_succeeded_false (h : Host) : ¬ succeeded (.ok (.bool false)) h := by
  rintro ⟨_, v, hv, _, h3⟩; cases hv; exact h3 rfl
theorem not_succeeded_none (h : Host) : ¬ succeeded (.ok .none) h := by
  rintro ⟨_, v, hv, h2, _⟩; cases hv; exact h2 rfl
theorem not_succeeded_status (r : Except HErr Val) (h : Host) (hst : h.status ≠ Spec.stSuccess) : ¬ succeeded r h := by
  rintro ⟨h1, _⟩; exact hst h1

theorem simpleCmd_starved (h : Host) (tag : Nat) (ps : List Nat) (hs : Starved h) :
    ¬ succeeded (simpleCmd tag ps h).1 (simpleCmd tag ps h).2 := by
  unfold simpleCmd
  obtain ⟨h', _, _, hr⟩ := processCmd_starved h ⟨tag, 0, ps⟩ hs
  rcases hr with ⟨e, he⟩ | ⟨he, _⟩
  · simp only [bind_run, he]; exact not_succeeded_error _ _
  · simp only [bind_run, he, pure_run, noResponse]
    exact not_succeeded_false _

theorem getProperty_starved (h : Host) (t i : Nat) (hs : Starved h) :
    ∃ h', Starved h' ∧ h'.cfg = h.cfg ∧
      ((∃ e, getProperty t i h = (.error e, h')) ∨ getProperty t i h = (.ok none, h')) := by
  unfold getProperty
  obtain ⟨h', s', m', hr⟩ := processCmd_starved h ⟨Spec.cGetProperty, 0, [t, i]⟩ hs
  rcases hr with ⟨e, he⟩ | ⟨he, _⟩
  · exact ⟨h', s', m'.1, Or.inl ⟨e, by simp only [bind_run, he]⟩⟩
  · exact ⟨h', s', m'.1, Or.inr (by simp [bind_run, he, noResponse])⟩

theorem getMaxPacketSize_starved (h : Host) (hs : Starved h) :
    Starved (getMaxPacketSize h).2 ∧ (getMaxPacketSize h).2.cfg = h.cfg := by
  unfold getMaxPacketSize
  simp only [bind_run, get_run]
  cases hm : h.mps with
  | some v => exact ⟨hs, rfl⟩
  | none =>
    obtain ⟨h', s', c', hr⟩ := getProperty_starved h Spec.propMaxPacketSize 0 hs
    rcases hr with ⟨e, he⟩ | he
    · by_cases hmb : e.isMcuBoot = true
      · simp only [bind_run, catch_run, he, hmb, if_true, pure_run, Option.getD, modify_run]
        exact ⟨⟨s'.rxB, s'.rxR, s'.peer⟩, c'⟩
      · simp only [bind_run, catch_run, he, hmb, Bool.false_eq_true, if_false, fail_run]
        exact ⟨s', c'⟩
    · simp only [bind_run, catch_run, he, pure_run, Option.getD, modify_run]
      exact ⟨⟨s'.rxB, s'.rxR, s'.peer⟩, c'⟩

theorem splitData_starved (h : Host) (data : Bytes) (hs : Starved h) :
    Starved (splitData data h).2 ∧ (splitData data h).2.cfg = h.cfg := by
  unfold splitData
  have := getMaxPacketSize_starved h hs
  simp only [bind_run]
  rcases hg : getMaxPacketSize h with ⟨r, h'⟩
  rw [hg] at this
  cases r with
  | error e => exact this
  | ok n =>
    simp only
    by_cases hn : n = 0
    · simp only [hn, if_true, fail_run]; exact this
    · simp only [hn, if_false, pure_run]; exact this

theorem getPropertyOp_starved (h : Host) (t i : Nat) (hs : Starved h) :
    ¬ succeeded (runOp (.getProperty t i) h).1 (runOp (.getProperty t i) h).2 := by
  simp only [runOp, bind_run]
  obtain ⟨h', _, _, hr⟩ := getProperty_starved h t i hs
  rcases hr with ⟨e, he⟩ | he
  · simp only [he]; exact not_succeeded_error _ _
  · simp only [he, pure_run]; exact not_succeeded_none _

theorem writeMemory_starved (h : Host) (a : Nat) (data : Bytes) (m : Nat) (hs : Starved h) :
    ¬ succeeded (writeMemory a data m h).1 (writeMemory a data m h).2 := by
  unfold writeMemory
  simp only [bind_run]
  have hsd := splitData_starved h data hs
  rcases hg : splitData data h with ⟨r, h1⟩
  rw [hg] at hsd
  cases r with
  | error e => exact not_succeeded_error _ _
  | ok chunks =>
    simp only
    obtain ⟨h', _, _, hr⟩ := processCmd_starved h1 ⟨Spec.cWriteMemory, Spec.flagHasDataPhase, [a, data.length, clampMemId m]⟩ hsd.1
    rcases hr with ⟨e, he⟩ | ⟨he, _⟩
    · simp only [he]; exact not_succeeded_error _ _
    · simp only [he, noResponse, pure_run]
      exact not_succeeded_false _

theorem receiveSbFile_starved (h : Host) (data : Bytes) (c : Bool) (hs : Starved h) :
    ¬ succeeded (receiveSbFile data c h).1 (receiveSbFile data c h).2 := by
  unfold receiveSbFile
  simp only [bind_run]
  have hsd := splitData_starved h data hs
  rcases hg : splitData data h with ⟨r, h1⟩
  rw [hg] at hsd
  cases r with
  | error e => exact not_succeeded_error _ _
  | ok chunks =>
    simp only
    obtain ⟨h', _, _, hr⟩ := processCmd_starved h1 ⟨Spec.cReceiveSbFile, Spec.flagHasDataPhase, [data.length]⟩ hsd.1
    rcases hr with ⟨e, he⟩ | ⟨he, _⟩
    · simp only [he]; exact not_succeeded_error _ _
    · simp only [he, noResponse, pure_run]
      exact not_succeeded_false _

theorem readChunks_starved (h : Host) (a m payload rem packets k : Nat) (acc : Bytes) (hs : Starved h) :
    ¬ succeeded ((readChunks a m payload rem packets (k + 1) acc h).1.map Val.bytes)
      (readChunks a m payload rem packets (k + 1) acc h).2 := by
  unfold readChunks
  simp only [bind_run]
  obtain ⟨h', _, _, hr⟩ := processCmd_starved h
    ⟨Spec.cReadMemory, 0, [a + (packets - (k + 1)) * payload,
      if packets - (k + 1) = packets - 1 ∧ rem ≠ 0 then rem else payload, m]⟩ hs
  rcases hr with ⟨e, he⟩ | ⟨he, hst⟩
  · simp only [he]; exact not_succeeded_error _ _
  · have hne : ¬ (Spec.stNoResponse = Spec.stSuccess) := by decide
    simp only [he, noResponse, hne, if_false, pure_run]
    exact not_succeeded_status _ _ (by rw [hst]; decide)

theorem readMemory_starved (h : Host) (a n m : Nat) (fast : Bool) (hs : Starved h)
    (ht : ¬ (h.cfg.usb = true ∧ fast = false ∧ n = 0)) :
    ¬ succeeded (readMemory a n m fast h).1 (readMemory a n m fast h).2 := by
  unfold readMemory
  simp only [bind_run, get_run]
  by_cases hu : h.cfg.usb = true ∧ ¬ fast = true
  · rw [if_pos hu]
    simp only [bind_run]
    have hg := getMaxPacketSize_starved h hs
    rcases hgm : getMaxPacketSize h with ⟨r, h1⟩
    rw [hgm] at hg
    cases r with
    | error e => exact not_succeeded_error _ _
    | ok payload =>
      simp only
      by_cases hp : payload = 0
      · simp only [hp, if_true, fail_run]; exact not_succeeded_error _ _
      · simp only [hp, if_false, bind_run]
        have hn : n ≠ 0 := by
          intro e; exact ht ⟨hu.1, by simpa using hu.2, e⟩
        have hpk : n / payload + (if n % payload ≠ 0 then 1 else 0) ≠ 0 := by
          intro e
          have h2 : n % payload = 0 := by
            by_cases hc : n % payload = 0
            · exact hc
            · simp [hc] at e
          have h1 : n / payload = 0 := by
            rw [h2] at e
            have e' : n / payload + 0 = 0 := by simpa using e
            simpa using e'
          have := Nat.div_add_mod n payload
          rw [h1, h2] at this; simp at this; exact hn this.symm
        obtain ⟨k, hk⟩ := Nat.exists_eq_succ_of_ne_zero hpk
        have := readChunks_starved h1 a (clampMemId m) payload (n % payload)
          (n / payload + (if n % payload ≠ 0 then 1 else 0)) k [] hg.1
        rw [hk] at this ⊢
        rcases hrc : readChunks a (clampMemId m) payload (n % payload) (k + 1) (k + 1) [] h1 with ⟨r, h2⟩
        rw [hrc] at this
        cases r with
        | error e => exact not_succeeded_error _ _
        | ok d => exact this
  · rw [if_neg hu]
    simp only [bind_run]
    obtain ⟨h', _, _, hr⟩ := processCmd_starved h ⟨Spec.cReadMemory, 0, [a, n, clampMemId m]⟩ hs
    rcases hr with ⟨e, he⟩ | ⟨he, _⟩
    · simp only [he]; exact not_succeeded_error _ _
    · simp only [he, noResponse, pure_run]
      exact not_succeeded_none _

theorem ping_starved (h : Host) (hs : Starved h) : ping h = (.error .timeout, bump (h.write pingFrame)) := by
  unfold ping
  have hw := (write_starved h pingFrame hs).1
  have : Spec.maxPingDummy = 49 + 1 := rfl
  simp only [bind_run, devWrite_run, this, pingDummyLoop, devRead_starved _ 1 hw]

theorem openSerial_starved (k : Nat) (h : Host) (hs : Starved h) : (openSerial k h).1 = .error .conn := by
  induction k generalizing h with
  | zero => rfl
  | succ k ih =>
    unfold openSerial
    have hs1 : Starved { h with opened := true } := ⟨hs.rxB, hs.rxR, hs.peer⟩
    have hp := ping_starved { h with opened := true } hs1
    have hw := bump_starved (write_starved _ pingFrame hs1).1
    simp only [bind_run, modify_run, catch_run, hp, true_or, if_true]
    exact ih _ ⟨hw.rxB, hw.rxR, hw.peer⟩

/-- operations whose success depends on an answer of the device: not `open` over HID, not a zero-length chunked read,
    not `load_image` over HID (neither ACK nor response is expected there) or of nothing, and not `reset`
    (a missing response to reset is ignored by design) -/
def talks (cfg : Cfg) : Op → Prop
  | .open_ => cfg.tr = .serial
  | .readMemory _ n _ fast => ¬ (cfg.usb = true ∧ fast = false ∧ n = 0)
  | .loadImage d => cfg.tr = .serial ∧ d ≠ []
  | .reset _ => False
  | _ => True

theorem dataOutCmd_starved (h : Host) (tag : Nat) (ps : List Nat) (data : Bytes) (hs : Starved h) :
    ¬ succeeded (dataOutCmd tag ps data h).1 (dataOutCmd tag ps data h).2 := by
  unfold dataOutCmd
  simp only [bind_run]
  have hsd := splitData_starved h data hs
  rcases hg : splitData data h with ⟨r, h1⟩
  rw [hg] at hsd
  cases r with
  | error e => exact not_succeeded_error _ _
  | ok chunks =>
    simp only
    obtain ⟨h', _, _, hr⟩ := processCmd_starved h1 ⟨tag, Spec.flagHasDataPhase, ps⟩ hsd.1
    rcases hr with ⟨e, he⟩ | ⟨he, _⟩
    · simp only [he]; exact not_succeeded_error _ _
    · simp only [he, noResponse, pure_run]
      exact not_succeeded_false _

theorem dataInCmd_starved (h : Host) (tag : Nat) (ps : List Nat) (k : RKind) (hs : Starved h) :
    ¬ succeeded (dataInCmd tag ps k h).1 (dataInCmd tag ps k h).2 := by
  unfold dataInCmd
  simp only [bind_run]
  obtain ⟨h', _, _, hr⟩ := processCmd_starved h ⟨tag, 0, ps⟩ hs
  rcases hr with ⟨e, he⟩ | ⟨he, _⟩
  · simp only [he]; exact not_succeeded_error _ _
  · simp only [he, noResponse, pure_run]
    exact not_succeeded_none _

theorem efuseReadOnce_starved (h : Host) (i : Nat) (hs : Starved h) :
    ∃ h', Starved h' ∧ ((∃ e, efuseReadOnce i h = (.error e, h')) ∨ efuseReadOnce i h = (.ok none, h')) := by
  unfold efuseReadOnce
  obtain ⟨h', s', _, hr⟩ := processCmd_starved h ⟨Spec.cFlashReadOnce, 0, [i, 4]⟩ hs
  rcases hr with ⟨e, he⟩ | ⟨he, _⟩
  · exact ⟨h', s', Or.inl ⟨e, by simp only [bind_run, he]⟩⟩
  · exact ⟨h', s', Or.inr (by simp [bind_run, he, noResponse])⟩

theorem efuseProgramOnce_starved (h : Host) (i v : Nat) (c : Bool) (hs : Starved h) :
    ¬ succeeded (efuseProgramOnce i v c h).1 (efuseProgramOnce i v c h).2 := by
  unfold efuseProgramOnce
  simp only [bind_run]
  obtain ⟨h', _, _, hr⟩ := processCmd_starved h ⟨Spec.cFlashProgramOnce, 0, [i, 4, v]⟩ hs
  rcases hr with ⟨e, he⟩ | ⟨he, _⟩
  · simp only [he]; exact not_succeeded_error _ _
  · simp only [he, noResponse, pure_run]
    have hne : Spec.stNoResponse ≠ Spec.stSuccess := by decide
    simp only [hne, ne_eq, not_false_eq_true, if_true, pure_run]
    exact not_succeeded_false _

theorem flashReadOnce_starved (h : Host) (i c : Nat) (hs : Starved h) :
    ¬ succeeded (flashReadOnce i c h).1 (flashReadOnce i c h).2 := by
  unfold flashReadOnce
  by_cases hc : c ≠ 4 ∧ c ≠ 8
  · rw [if_pos hc]; exact not_succeeded_error _ _
  · rw [if_neg hc]
    simp only [bind_run]
    obtain ⟨h', _, _, hr⟩ := processCmd_starved h ⟨Spec.cFlashReadOnce, 0, [i, c]⟩ hs
    rcases hr with ⟨e, he⟩ | ⟨he, _⟩
    · simp only [he]; exact not_succeeded_error _ _
    · simp only [he, noResponse, pure_run]
      exact not_succeeded_none _

theorem flashProgramOnce_starved (h : Host) (i : Nat) (d : Bytes) (hs : Starved h) :
    ¬ succeeded (flashProgramOnce i d h).1 (flashProgramOnce i d h).2 := by
  unfold flashProgramOnce
  by_cases hc : d.length ≠ 4 ∧ d.length ≠ 8
  · rw [if_pos hc]; exact not_succeeded_error _ _
  · rw [if_neg hc]
    simp only [bind_run]
    obtain ⟨h', _, _, hr⟩ := processCmd_starved h ⟨Spec.cFlashProgramOnce, 0, [i, d.length] ++ wordsOf d⟩ hs
    rcases hr with ⟨e, he⟩ | ⟨he, _⟩
    · simp only [he]; exact not_succeeded_error _ _
    · simp only [he, noResponse, pure_run]
      exact not_succeeded_false _

theorem writeData_starved_serial (h : Host) (a : Bool) (c : Bytes) (hs : Starved h) (htr : h.cfg.tr = .serial) :
    ∃ h', Starved h' ∧ Same h h' ∧ (writeData a c h = (.error .timeout, h') ∨ writeData a c h = (.error .other, h')) := by
  unfold writeData
  simp only [bind_run, get_run, htr, serialSendFrame]
  by_cases hl : 65536 ≤ c.length
  · exact ⟨h, hs, Same.refl h, Or.inr (by simp [hl])⟩
  · refine ⟨bump (h.write (mkFrame Spec.fData c)), bump_starved (write_starved h _ hs).1,
      Same.trans (write_starved h _ hs).2 (bump_same _), Or.inl ?_⟩
    simp only [hl, if_false, bind_run, devWrite_run,
      readFrameHeader_starved _ (some Spec.fAck) (write_starved h _ hs).1]

theorem loadImage_starved (h : Host) (data : Bytes) (hs : Starved h) (htr : h.cfg.tr = .serial) (hd : data ≠ []) :
    ¬ succeeded (loadImage data h).1 (loadImage data h).2 := by
  unfold loadImage splitData
  simp only [bind_run]
  have hg' := getMaxPacketSize_starved h hs
  rcases hg : getMaxPacketSize h with ⟨r, h1⟩
  rw [hg] at hg'
  cases r with
  | error e => exact not_succeeded_error _ _
  | ok n =>
    simp only at hg' ⊢
    by_cases hn : n = 0
    · simp only [hn, if_true, fail_run]; exact not_succeeded_error _ _
    · simp only [hn, if_false, pure_run]
      have hsplit := split_cons n (by omega) data hd
      simp only [setStatus_run, sendDataNoResp, bind_run, requireOpen, get_run]
      by_cases ho : h1.opened = true
      · rw [if_pos (show ({ h1 with status := Spec.stSuccess } : Host).opened = true from ho)]
        simp only [pure_run, hsplit, sendChunks]
        have hs1 : Starved { h1 with status := Spec.stSuccess } := ⟨hg'.1.rxB, hg'.1.rxR, hg'.1.peer⟩
        have htr1 : ({ h1 with status := Spec.stSuccess } : Host).cfg.tr = .serial := by
          show h1.cfg.tr = .serial
          rw [hg'.2]; exact htr
        obtain ⟨h2, _, _, hw⟩ := writeData_starved_serial { h1 with status := Spec.stSuccess } h1.eda (data.take n) hs1 htr1
        rcases hw with hw | hw
        · simp only [hw, if_true, bind_run, setStatus_run, fail_run]
          exact not_succeeded_error _ _
        · have c1 : ¬ (HErr.other = HErr.timeout) := by decide
          have c2 : HErr.other.isSpsdk = false := rfl
          simp only [hw, c1, c2, if_false, Bool.false_eq_true, fail_run]
          exact not_succeeded_error _ _
      · rw [if_neg (show ¬ ({ h1 with status := Spec.stSuccess } : Host).opened = true from ho)]
        exact not_succeeded_error _ _

/-- **Missing response / stream cut off**: on a link that stays silent no operation reports success. -/
theorem silent_link_never_succeeds (h : Host) (op : Op) (hs : Starved h) (ht : talks h.cfg op) :
    ¬ succeeded (runOp op h).1 (runOp op h).2 := by
  cases op with
  | open_ =>
    have htr : h.cfg.tr = .serial := ht
    have := openSerial_starved Spec.openAttempts h hs
    simp only [runOp, bind_run, get_run, htr]
    rcases ho : openSerial Spec.openAttempts h with ⟨r, h'⟩
    rw [ho] at this
    simp only at this
    subst this
    exact not_succeeded_error _ _
  | getProperty t i => exact getPropertyOp_starved h t i hs
  | setProperty t v => exact simpleCmd_starved h _ _ hs
  | fillMemory a n p => exact simpleCmd_starved h _ _ hs
  | eraseRegion a n m => exact simpleCmd_starved h _ _ hs
  | eraseAll m => exact simpleCmd_starved h _ _ hs
  | execute a g s => exact simpleCmd_starved h _ _ hs
  | call a g => exact simpleCmd_starved h _ _ hs
  | eraseAllUnsecure => exact simpleCmd_starved h _ _ hs
  | configureMemory a m => exact simpleCmd_starved h _ _ hs
  | reliableUpdate a => exact simpleCmd_starved h _ _ hs
  | readMemory a n m f => exact readMemory_starved h a n m f hs ht
  | writeMemory a d m => exact writeMemory_starved h a d m hs
  | receiveSbFile d c => exact receiveSbFile_starved h d c hs
  | loadImage d => exact loadImage_starved h d hs ht.1 ht.2
  | flashReadOnce i c => exact flashReadOnce_starved h i c hs
  | flashProgramOnce i d => exact flashProgramOnce_starved h i d hs
  | efuseReadOnce i =>
    simp only [runOp, bind_run]
    obtain ⟨h', _, hr⟩ := efuseReadOnce_starved h i hs
    rcases hr with ⟨e, he⟩ | he
    · simp only [he]; exact not_succeeded_error _ _
    · simp only [he, pure_run]; exact not_succeeded_none _
  | efuseProgramOnce i v c => exact efuseProgramOnce_starved h i v c hs
  | flashReadResource a n o =>
    simp only [runOp]
    by_cases hn : n % 4 ≠ 0
    · rw [if_pos hn]; exact not_succeeded_error _ _
    · rw [if_neg hn]; exact dataInCmd_starved h _ _ _ hs
  | kpEnroll => exact simpleCmd_starved h _ _ hs
  | kpSetIntrinsicKey t z => exact simpleCmd_starved h _ _ hs
  | kpWriteNonvolatile m => exact simpleCmd_starved h _ _ hs
  | kpReadNonvolatile m => exact simpleCmd_starved h _ _ hs
  | kpSetUserKey t d => exact dataOutCmd_starved h _ _ _ hs
  | kpWriteKeyStore d => exact dataOutCmd_starved h _ _ _ hs
  | kpReadKeyStore => exact dataInCmd_starved h _ _ _ hs
  | reset r => exact absurd ht id
  | logCmd t ps => exact simpleCmd_starved h _ _ hs
  | fuseProgram a d m => exact dataOutCmd_starved h _ _ _ hs
  | fuseRead a n m => exact dataInCmd_starved h _ _ _ hs

/-! ### status codes are mirrored; success needs a SUCCESS response -/

/-- `_process_cmd` returns a response only after storing its status; with `cmd_exception` only SUCCESS is returned -/
theorem processCmd_ok (h h' : Host) (p : CmdPkt) (r : Resp) (hr : processCmd p h = (.ok r, h')) :
    h'.status = r.status ∧ (h'.cfg.cmdExc = true → r.status = Spec.stSuccess) := by
  unfold processCmd at hr
  simp only [bind_run, requireOpen, get_run] at hr
  by_cases ho : h.opened = true
  · simp only [ho, if_true, pure_run] at hr
    rcases hc : (catch_ (do writeCommand p; readAny) (fun e =>
        if e = .timeout then do setStatus Spec.stNoResponse; pure (.resp (noResponse p.tag)) else fail e)) h with ⟨x, h1⟩
    rw [hc] at hr
    cases x with
    | error e => simp at hr
    | ok it =>
      cases it with
      | data b => simp at hr
      | resp r1 =>
        simp only [bind_run, setStatus_run, get_run] at hr
        by_cases hce : h1.cfg.cmdExc = true ∧ r1.status ≠ Spec.stSuccess
        · rw [if_pos hce] at hr; simp at hr
        · rw [if_neg hce] at hr
          simp only [pure_run, Prod.mk.injEq, Except.ok.injEq] at hr
          obtain ⟨rfl, rfl⟩ := hr
          refine ⟨rfl, ?_⟩
          intro hx
          by_cases hz : r1.status = Spec.stSuccess
          · exact hz
          · exact absurd ⟨hx, hz⟩ hce
  · simp [ho] at hr

/-- a simple command reports success only if a response with status SUCCESS was received -/
theorem simpleCmd_success (h : Host) (tag : Nat) (ps : List Nat)
    (hs : succeeded (simpleCmd tag ps h).1 (simpleCmd tag ps h).2) :
    ∃ r h', processCmd ⟨tag, 0, ps⟩ h = (.ok r, h') ∧ r.status = Spec.stSuccess ∧ h'.status = Spec.stSuccess := by
  unfold simpleCmd at hs
  simp only [bind_run] at hs
  rcases hp : processCmd ⟨tag, 0, ps⟩ h with ⟨x, h1⟩
  rw [hp] at hs
  cases x with
  | error e => exact absurd hs (not_succeeded_error _ _)
  | ok r =>
    simp only [pure_run] at hs
    obtain ⟨h2, v, hv, _, h4⟩ := hs
    simp only [Except.ok.injEq] at hv
    subst hv
    have hz : r.status = Spec.stSuccess := by
      by_cases hz : r.status = Spec.stSuccess
      · exact hz
      · simp [hz] at h4
    exact ⟨r, h1, rfl, hz, h2⟩

/-- device error status ⇒ failure: the converse reading of `simpleCmd_success` -/
theorem simpleCmd_error_status (h h' : Host) (tag : Nat) (ps : List Nat) (r : Resp)
    (hp : processCmd ⟨tag, 0, ps⟩ h = (.ok r, h')) (hst : r.status ≠ Spec.stSuccess) :
    simpleCmd tag ps h = (.ok (.bool false), h') ∧ h'.status = r.status := by
  refine ⟨?_, (processCmd_ok h h' _ r hp).1⟩
  unfold simpleCmd
  simp only [bind_run, hp, pure_run]
  simp [hst]

/-- `_read_data` (with fix C10-2): data returned together with status SUCCESS is complete -/
theorem readData_success_complete (h h' : Host) (tag n : Nat) (d : Bytes)
    (hr : readData tag n h = (.ok d, h')) (hst : h'.status = Spec.stSuccess) : d.length = n := by
  unfold readData at hr
  simp only [bind_run, requireOpen, get_run] at hr
  by_cases ho : h.opened = true
  · simp only [ho, if_true, pure_run] at hr
    rcases hl : readDataLoop tag (n + h.fuelHint + h.rxB.length + h.rxR.length + 8) [] h with ⟨x, h1⟩
    rw [hl] at hr
    cases x with
    | error e => simp at hr
    | ok data =>
      simp only [bind_run, get_run] at hr
      by_cases hc : data.length < n ∨ h1.status ≠ Spec.stSuccess
      · rw [if_pos hc] at hr
        by_cases hz : h1.status = Spec.stSuccess
        · simp only [bind_run, hz, if_true, setStatus_run, get_run] at hr
          by_cases hce : h1.cfg.cmdExc = true
          · simp [hce] at hr
          · simp only [hce, Bool.false_eq_true, if_false, pure_run, Prod.mk.injEq, Except.ok.injEq] at hr
            obtain ⟨_, rfl⟩ := hr
            have : Spec.stFail = Spec.stSuccess := hst
            exact absurd this (by decide)
        · simp only [bind_run, hz, if_false, pure_run, get_run] at hr
          by_cases hce : h1.cfg.cmdExc = true
          · simp [hce] at hr
          · simp only [hce, Bool.false_eq_true, if_false, pure_run, Prod.mk.injEq, Except.ok.injEq] at hr
            obtain ⟨_, rfl⟩ := hr
            exact absurd hst hz
      · rw [if_neg hc] at hr
        simp only [pure_run, Prod.mk.injEq, Except.ok.injEq] at hr
        obtain ⟨rfl, _⟩ := hr
        have : ¬ data.length < n := fun hx => hc (Or.inl hx)
        simp; omega
  · simp [ho] at hr

/-! ### an unacknowledged data packet never yields `True` -/

theorem sendChunks_result (a : Bool) (cs : List Bytes) (s0 : Nat) (h : Host) (hne : ∀ c ∈ cs, c ≠ []) :
    ∃ sent err h', sendChunks a cs s0 h = (.ok (sent, err), h') ∧
      ((err = none ∧ sent = s0 + (cs.map List.length).sum) ∨
       (err ≠ none ∧ sent < s0 + (cs.map List.length).sum)) := by
  induction cs generalizing s0 h with
  | nil => exact ⟨s0, none, h, rfl, Or.inl ⟨rfl, by simp⟩⟩
  | cons c cs ih =>
    unfold sendChunks
    have hc : 0 < c.length := List.length_pos_iff.mpr (hne c (by simp))
    rcases hw : writeData a c h with ⟨x, h1⟩
    cases x with
    | error e =>
      refine ⟨s0, some e, h1, by simp [hw], Or.inr ⟨by simp, ?_⟩⟩
      simp only [List.map_cons, List.sum_cons]; omega
    | ok u =>
      obtain ⟨sent, err, h', e1, e2⟩ := ih (s0 + c.length) h1 (fun q hq => hne q (by simp [hq]))
      refine ⟨sent, err, h', by simp [hw, e1], ?_⟩
      simp only [List.map_cons, List.sum_cons]
      rcases e2 with ⟨e3, e4⟩ | ⟨e3, e4⟩
      · exact Or.inl ⟨e3, by omega⟩
      · exact Or.inr ⟨e3, by omega⟩

theorem sendData_tail (m : H RxItem) (f : RxItem → H Bool) (h1 h' : Host) (ce : Bool) (sent total : Nat)
    (hfd : ∀ b s, f (.data b) s = (.error .other, s))
    (hfr : ∀ r s, f (.resp r) s = (do
                setStatus r.status
                if r.status ≠ Spec.stSuccess then
                  if ce then fail (.cmd r.status) else pure false
                else pure (sent == total) : H Bool) s)
    (hr : (m >>= f) h1 = (.ok true, h')) : sent = total ∧ h'.status = Spec.stSuccess := by
  simp only [bind_run] at hr
  rcases hm : m h1 with ⟨x, s'⟩
  rw [hm] at hr
  cases x with
  | error e => simp at hr
  | ok a =>
    cases a with
    | data b => simp [hfd] at hr
    | resp r =>
      simp only [hfr, bind_run, setStatus_run] at hr
      by_cases hz : r.status ≠ Spec.stSuccess
      · rw [if_pos hz] at hr
        cases ce <;> simp at hr
      · rw [if_neg hz] at hr
        simp only [pure_run, Prod.mk.injEq, Except.ok.injEq, beq_iff_eq] at hr
        obtain ⟨hx1, rfl⟩ := hr
        exact ⟨hx1, by simpa using hz⟩

/-- `_send_data` returns `True` only if every data packet was written without any error
    (ACK received on the serial link) and the final response carried status SUCCESS. -/
theorem sendData_true (h h' : Host) (cs : List Bytes) (hne : ∀ c ∈ cs, c ≠ [])
    (hr : sendData cs h = (.ok true, h')) :
    (∃ h1, sendChunks h.eda cs 0 h = (.ok ((cs.map List.length).sum, none), h1)) ∧ h'.status = Spec.stSuccess := by
  unfold sendData at hr
  simp only [bind_run, requireOpen, get_run] at hr
  by_cases ho : h.opened = true
  · simp only [ho, if_true, pure_run] at hr
    obtain ⟨sent, err, h1, e1, e2⟩ := sendChunks_result h.eda cs 0 h hne
    rw [e1] at hr
    simp only at hr
    cases err with
    | none =>
      simp only at hr
      have := sendData_tail _ _ h1 h' h.cfg.cmdExc sent _ (fun _ _ => rfl) (fun _ _ => rfl) hr
      rcases e2 with ⟨_, e4⟩ | ⟨e3, _⟩
      · exact ⟨⟨h1, by rw [e1, e4]; simp⟩, this.2⟩
      · exact absurd rfl e3
    | some e =>
      simp only at hr
      have := sendData_tail _ _ h1 h' h.cfg.cmdExc sent _ (fun _ _ => rfl) (fun _ _ => rfl) hr
      rcases e2 with ⟨e3, _⟩ | ⟨_, e4⟩
      · cases e3
      · omega
  · simp [ho] at hr

/-- `_send_data(NO_COMMAND, …)` (`load_image`) returns `True` only if every data packet was written without any error
    (on the serial link: acknowledged) — a NAK on the last packet yields `False` -/
theorem sendDataNoResp_true (h h' : Host) (cs : List Bytes) (hne : ∀ c ∈ cs, c ≠ [])
    (hr : sendDataNoResp cs h = (.ok true, h')) :
    ∃ h1, sendChunks h.eda cs 0 h = (.ok ((cs.map List.length).sum, none), h1) := by
  unfold sendDataNoResp at hr
  simp only [bind_run, requireOpen, get_run] at hr
  by_cases ho : h.opened = true
  · simp only [ho, if_true, pure_run] at hr
    obtain ⟨sent, err, h1, e1, e2⟩ := sendChunks_result h.eda cs 0 h hne
    rw [e1] at hr
    simp only at hr
    cases err with
    | none =>
      rcases e2 with ⟨_, e4⟩ | ⟨e3, _⟩
      · exact ⟨h1, by rw [e1, e4]; simp⟩
      · exact absurd rfl e3
    | some e =>
      simp only at hr
      rcases e2 with ⟨e3, _⟩ | ⟨_, e4⟩
      · cases e3
      · by_cases ht : e = .timeout
        · simp [ht] at hr
        · by_cases hsp : e.isSpsdk = true
          · simp only [ht, if_false, hsp, if_true, bind_run, setStatus_run, pure_run, Prod.mk.injEq, Except.ok.injEq,
              beq_iff_eq] at hr
            omega
          · simp [ht, hsp] at hr
  · simp [ho] at hr

/-! ### NAK / ABORT in place of an ACK -/

theorem readFrameHeader_ack (h : Host) (t : UInt8) (r : Bytes)
    (hrx : h.rxB = UInt8.ofNat Spec.startByte :: t :: r) :
    readFrameHeader (some Spec.fAck) h =
      if t.toNat = Spec.fAbort then (.error .abort, { h with reads := h.reads + 1 + 1, rxB := r })
      else if t.toNat = Spec.fAck then (.ok (Spec.startByte, Spec.fAck), { h with reads := h.reads + 1 + 1, rxB := r })
      else (.error .conn, { h with reads := h.reads + 1 + 1, rxB := r }) := by
  unfold readFrameHeader
  have e0 := waitForData_nonzero h (UInt8.ofNat Spec.startByte) (t :: r) (by decide) hrx
  have e1 := devRead_append { h with reads := h.reads + 1, rxB := t :: r } [t] r (by simp) rfl
  simp only [List.length_cons, List.length_nil, Nat.zero_add] at e1
  have s0 : (UInt8.ofNat Spec.startByte).toNat = Spec.startByte := by decide
  simp only [bind_run, e0, s0]
  have c1 : ¬ (Spec.startByte ≠ Spec.startByte ∧ Spec.startByte ≠ Spec.fAck) := by decide
  have c2 : ¬ (Spec.startByte = Spec.fAck) := by decide
  simp only [c1, c2, if_false, bind_run, e1, pure_run, fromLe, Nat.mul_zero, Nat.add_zero]
  by_cases ha : t.toNat = Spec.fAbort
  · simp [ha]
  · by_cases hk : t.toNat = Spec.fAck
    · simp [hk, Spec.fAck, Spec.fAbort, Spec.startByte]
    · by_cases hs : t.toNat = Spec.startByte
      · simp [hs, Spec.fAck, Spec.fAbort, Spec.startByte]
      · simp [ha, hk, hs]

/-- a frame answered by NAK raises McuBootConnectionError, one answered by ABORT raises McuBootDataAbortError -/
theorem serialSendFrame_nak_abort (h : Host) (t : Nat) (data x : Bytes) (hl : data.length < 65536) :
    ((h.write (mkFrame t data)).rxB = nakFrame ++ x → (serialSendFrame t data h).1 = .error .conn) ∧
    ((h.write (mkFrame t data)).rxB = abortFrame ++ x → (serialSendFrame t data h).1 = .error .abort) := by
  have hl' : ¬ 65536 ≤ data.length := by omega
  constructor
  · intro hrx
    have := readFrameHeader_ack (h.write (mkFrame t data)) (UInt8.ofNat Spec.fNak) x (by simpa [nakFrame] using hrx)
    unfold serialSendFrame
    simp only [hl', if_false, bind_run, devWrite_run, this]
    have c1 : ¬ ((UInt8.ofNat Spec.fNak).toNat = Spec.fAbort) := by decide
    have c2 : ¬ ((UInt8.ofNat Spec.fNak).toNat = Spec.fAck) := by decide
    simp only [c1, c2, if_false]
  · intro hrx
    have := readFrameHeader_ack (h.write (mkFrame t data)) (UInt8.ofNat Spec.fAbort) x (by simpa [abortFrame] using hrx)
    unfold serialSendFrame
    simp only [hl', if_false, bind_run, devWrite_run, this]
    have c1 : (UInt8.ofNat Spec.fAbort).toNat = Spec.fAbort := by decide
    simp only [c1, if_true]

/-- a command whose frame is answered by NAK / ABORT raises (nothing is swallowed by `_process_cmd`) -/
theorem processCmd_nak_abort (h : Host) (p : CmdPkt) (x : Bytes) (hwf : p.WF) (ho : h.opened = true)
    (htr : h.cfg.tr = .serial) :
    ((h.write (mkFrame Spec.fCmd p.encode)).rxB = nakFrame ++ x → (processCmd p h).1 = .error .conn) ∧
    ((h.write (mkFrame Spec.fCmd p.encode)).rxB = abortFrame ++ x → (processCmd p h).1 = .error .abort) := by
  have hlen : p.encode.length < 65536 := by
    rw [encode_length]; have := hwf.count; omega
  have hs := serialSendFrame_nak_abort h Spec.fCmd p.encode x hlen
  have hwc : writeCommand p h = serialSendFrame Spec.fCmd p.encode h := by
    unfold writeCommand
    simp only [bind_run, lift_run, toBytes_ok p hwf, get_run, htr]
  constructor
  · intro hrx
    have h1 := hs.1 hrx
    unfold processCmd
    simp only [bind_run, requireOpen, get_run, ho, if_true, pure_run, catch_run, hwc]
    rcases hsf : serialSendFrame Spec.fCmd p.encode h with ⟨r, h2⟩
    rw [hsf] at h1
    simp only at h1
    subst h1
    simp
  · intro hrx
    have h1 := hs.2 hrx
    unfold processCmd
    simp only [bind_run, requireOpen, get_run, ho, if_true, pure_run, catch_run, hwc]
    rcases hsf : serialSendFrame Spec.fCmd p.encode h with ⟨r, h2⟩
    rw [hsf] at h1
    simp only at h1
    subst h1
    simp

/-! ### the link goes silent before / during a data phase -/

theorem writeData_starved (h : Host) (a : Bool) (c : Bytes) (hs : Starved h) :
    ∃ h', Starved h' ∧ Same h h' ∧
      (writeData a c h = (.error .timeout, h') ∨ writeData a c h = (.error .other, h') ∨ writeData a c h = (.ok (), h')) := by
  unfold writeData
  simp only [bind_run, get_run]
  cases htr : h.cfg.tr with
  | serial =>
    simp only [serialSendFrame]
    by_cases hl : 65536 ≤ c.length
    · exact ⟨h, hs, Same.refl h, Or.inr (Or.inl (by simp [hl]))⟩
    · refine ⟨bump (h.write (mkFrame Spec.fData c)), bump_starved (write_starved h _ hs).1,
        Same.trans (write_starved h _ hs).2 (bump_same _), Or.inl ?_⟩
      simp only [hl, if_false, bind_run, devWrite_run,
        readFrameHeader_starved _ (some Spec.fAck) (write_starved h _ hs).1]
  | hid =>
    simp only [hidWriteData]
    by_cases hl : 65536 ≤ c.length
    · exact ⟨h, hs, Same.refl h, Or.inr (Or.inl (by simp [hl]))⟩
    · cases a with
      | false =>
        exact ⟨h.write (mkReport Spec.ridDataOut c), (write_starved h _ hs).1, (write_starved h _ hs).2,
          Or.inr (Or.inr (by simp [hl]))⟩
      | true =>
        obtain ⟨h1, e1, s1, m1⟩ := hidDevRead_starved h hs
        refine ⟨h1.write (mkReport Spec.ridDataOut c), (write_starved h1 _ s1).1,
          Same.trans m1 (write_starved h1 _ s1).2, Or.inr (Or.inr ?_)⟩
        simp [hl, e1]

theorem sendChunks_starved (a : Bool) (cs : List Bytes) (s0 : Nat) (h : Host) (hs : Starved h) :
    ∃ sent err h', sendChunks a cs s0 h = (.ok (sent, err), h') ∧ Starved h' ∧ Same h h' ∧
      (err = none ∨ err = some .timeout ∨ err = some .other) := by
  induction cs generalizing s0 h with
  | nil => exact ⟨s0, none, h, rfl, hs, Same.refl h, Or.inl rfl⟩
  | cons c cs ih =>
    unfold sendChunks
    obtain ⟨h1, s1, m1, hw⟩ := writeData_starved h a c hs
    rcases hw with hw | hw | hw
    · exact ⟨s0, some .timeout, h1, by simp [hw], s1, m1, Or.inr (Or.inl rfl)⟩
    · exact ⟨s0, some .other, h1, by simp [hw], s1, m1, Or.inr (Or.inr rfl)⟩
    · obtain ⟨sent, err, h2, e2, s2, m2, he⟩ := ih (s0 + c.length) h1 s1
      exact ⟨sent, err, h2, by simp [hw, e2], s2, Same.trans m1 m2, he⟩

/-- the data phase of a write on a silent link always raises -/
theorem sendData_starved (h : Host) (cs : List Bytes) (hs : Starved h) :
    ∃ e, (sendData cs h).1 = .error e := by
  unfold sendData
  simp only [bind_run, requireOpen, get_run]
  by_cases ho : h.opened = true
  · simp only [ho, if_true, pure_run]
    obtain ⟨sent, err, h1, e1, s1, _, he⟩ := sendChunks_starved h.eda cs 0 h hs
    obtain ⟨h2, e2, _, _⟩ := readAny_starved h1 s1
    rw [e1]
    rcases he with rfl | rfl | rfl
    · exact ⟨.conn, by simp [catch_run, e2, sendDataHandler]⟩
    · exact ⟨.conn, by simp [sendDataHandler]⟩
    · exact ⟨.other, by simp [sendDataHandler, HErr.isSpsdk]⟩
  · exact ⟨.conn, by simp [ho]⟩

theorem readDataLoop_starved (tag : Nat) (f : Nat) (acc : Bytes) (h : Host) (hs : Starved h) :
    ∃ h', readDataLoop tag (f + 1) acc h = (.ok acc, h') ∧ h'.status = Spec.stNoResponse ∧ h'.cfg = h.cfg := by
  unfold readDataLoop
  obtain ⟨h1, e1, _, m1⟩ := readAny_starved h hs
  refine ⟨{ h1 with status := Spec.stNoResponse }, ?_, rfl, m1.1⟩
  simp [e1]

/-- the data phase of a read on a silent link: NO_RESPONSE status, an exception with `cmd_exception` -/
theorem readData_starved (h : Host) (tag n : Nat) (hs : Starved h) :
    ¬ succeeded ((readData tag n h).1.map Val.bytes) (readData tag n h).2 := by
  unfold readData
  simp only [bind_run, requireOpen, get_run]
  by_cases ho : h.opened = true
  · simp only [ho, if_true, pure_run]
    obtain ⟨h1, e1, st1, c1⟩ := readDataLoop_starved tag (n + h.fuelHint + h.rxB.length + h.rxR.length + 7) [] h hs
    have : n + h.fuelHint + h.rxB.length + h.rxR.length + 8 = n + h.fuelHint + h.rxB.length + h.rxR.length + 7 + 1 := rfl
    rw [this, e1]
    have hne : h1.status ≠ Spec.stSuccess := by rw [st1]; decide
    simp only [hne, ne_eq, not_false_eq_true, or_true, if_true, if_false, bind_run, pure_run, get_run]
    by_cases hce : h1.cfg.cmdExc = true
    · simp only [hce, if_true, fail_run]; exact not_succeeded_error _ _
    · simp only [hce, Bool.false_eq_true, if_false, pure_run]
      exact not_succeeded_status _ _ hne
  · simp only [ho, Bool.false_eq_true, if_false, fail_run]; exact not_succeeded_error _ _

end SpsdkVerif.Mboot.Fault
