/-
C03 → C02 / C05: what the ROM models of the other properties answer on certificate blocks EXPORTED by the C03 model.
These theorems discharge the "opaque certificate block" hypotheses of Properties/C02.lean (`RomCertV1OK`, `RomCertV21OK`,
Proofs/MbiRomDefs.lean) and Properties/C05.lean (`DevOK.cert`, Model/Sb31.lean `Rom.romCert`) from the C03 model:
the exported block is self-delimiting, is accepted against the fuse value `Spec.rotkh`, and names the signing key.
Read-only imports of the other properties' ROM specifications; nothing there is changed.
-/
import SpsdkVerif.Proofs.CertBlock
import SpsdkVerif.Model.Sb31
import SpsdkVerif.Proofs.MbiRomDefs
import SpsdkVerif.Proofs.RkhtBinding

namespace SpsdkVerif.CertBlock
open SpsdkVerif SpsdkVerif.Spec
open SpsdkVerif.Misc hiding Bytes
open SpsdkVerif.Crypto (HashAlg SigAlg CryptoOps CryptoLaws Bytes)
open SpsdkVerif.Rkht (bind_ok pure_eq_ok RootKeyRecord rkrFlags curveBit exportV21 rkthV21)
open SpsdkVerif.Sb31.Rom (romCert takeB takeU check coordOfCurve algOfCoord R RomErr)

theorem sb_takeB (x r : Bytes) (n : Nat) (h : x.length = n) : takeB n (x ++ r) = .ok (x, r) := by
  subst h; simp [takeB]

theorem sb_takeU (w v : Nat) (r : Bytes) (h : v < 256 ^ w) : takeU w (leEnc w v ++ r) = .ok (v, r) := by
  have hl := leEnc_len w v
  simp only [takeU, List.length_append, hl]
  rw [if_pos (by omega), List.take_left' hl, List.drop_left' hl, leDec_leEnc w v h]

/-- the ISK certificate without its signature: what follows the root key record in the signed range -/
def iskSignedPart (i : IskCert) : Bytes :=
  leEnc 4 (iskSigOffset i) ++ leEnc 4 i.constraints ++ leEnc 4 i.flags ++ i.pubKey ++ i.userData

/-- the key that signs the container / image and its coordinate size, as the ROM reports them -/
def signerOf (cv : Curve) (cb : CertBlockV21) : Bytes × Nat :=
  match cb.isk with
  | none => (cb.rkr.rootPublicKey, cv.hashAlg.size)
  | some i => (i.pubKey, i.pubKey.length / 2)


theorem rbind_ok {ε α β} (a : α) (f : α → Except ε β) : ((Except.ok a : Except ε α) >>= f) = f a := rfl
theorem rpure_ok {ε α} (a : α) : (pure a : Except ε α) = Except.ok a := rfl
theorem check_true (e : RomErr) : check true e = .ok () := rfl

/-- the flags word read with `/` and `%` (as the ROM models of C02 / C05 do) -/
def RkrDivOK (ca : Bool) (u n : Nat) (cv : Curve) : Prop :=
  rkrFlags ca u n cv % 16 = curveBit cv ∧ rkrFlags ca u n cv / 16 % 16 = n ∧ rkrFlags ca u n cv / 256 % 16 = u ∧
  (rkrFlags ca u n cv / 2147483648 % 2 == 1) = ca

instance (ca : Bool) (u n : Nat) (cv : Curve) : Decidable (RkrDivOK ca u n cv) := by unfold RkrDivOK; infer_instance

theorem rkr_div_p256 : ∀ (ca : Bool) (u n : Fin 16), RkrDivOK ca u n .p256 := by decide
theorem rkr_div_p384 : ∀ (ca : Bool) (u n : Fin 16), RkrDivOK ca u n .p384 := by decide

theorem rkr_div (ca : Bool) (u n : Nat) (cv : Curve) (hu : u < 16) (hn : n < 16) (h : cv ≠ .p521) : RkrDivOK ca u n cv := by
  cases cv with
  | p256 => exact rkr_div_p256 ca ⟨u, hu⟩ ⟨n, hn⟩
  | p384 => exact rkr_div_p384 ca ⟨u, hu⟩ ⟨n, hn⟩
  | p521 => exact absurd rfl h

theorem flatten_entry (m : Nat) : ∀ (l : List Bytes) (i : Nat) (h : Bytes), (∀ x ∈ l, x.length = m) → l[i]? = some h →
    (l.flatten.drop (i * m)).take m = h
  | [], i, h, _, hi => by simp at hi
  | a :: l, 0, h, hl, hi => by
    simp only [List.getElem?_cons_zero, Option.some.injEq] at hi
    subst hi
    simp only [Nat.zero_mul, List.drop_zero, List.flatten_cons]
    exact List.take_left' (hl a (by simp))
  | a :: l, i + 1, h, hl, hi => by
    simp only [List.getElem?_cons_succ] at hi
    have ha := hl a (by simp)
    rw [List.flatten_cons, Nat.succ_mul, Nat.add_comm, ← List.drop_drop, List.drop_left' ha]
    exact flatten_entry m l i h (fun x hx => hl x (by simp [hx])) hi

/-- the fuse value the ROM compares the root key record with -/
def rotkhOfRecord (c : CryptoOps) (cv : Curve) (r : RootKeyRecord) : Bytes :=
  if r.rkh.length > 1 then c.hash cv.hashAlg r.rkh.flatten else c.hash cv.hashAlg r.rootPublicKey

/-- what a ROM additionally requires of a well-formed block: format version 2.1, the used index inside the table,
    and the announced table entry is the hash of the root key that follows -/
structure RomWF (c : CryptoOps) (used : Nat) (cv : Curve) (cb : CertBlockV21) : Prop where
  major : cb.major = 2
  minor : cb.minor = 1
  used_lt : used < cb.rkr.rkh.length
  entry : cb.rkr.rkh.length > 1 → cb.rkr.rkh[used]? = some (c.hash cv.hashAlg cb.rkr.rootPublicKey)


theorem iskFlags_div (ud : Bytes) (pl : Nat) (h : pl = 64 ∨ pl = 96) :
    coordOfCurve (iskCalcFlags ud pl % 16) = .ok (pl / 2) ∧
    ((iskCalcFlags ud pl / 2147483648 % 2 == 1) == !ud.isEmpty) = true := by
  cases hu : ud.isEmpty <;> rcases h with h | h <;> subst h <;> simp only [iskCalcFlags, hu] <;> decide

theorem coordOfCurve_bit (cv : Curve) (h : cv ≠ .p521) : coordOfCurve (curveBit cv) = .ok cv.hashAlg.size := by
  cases cv <;> first | (exact absurd rfl h) | decide

theorem algOfCoord_size (cv : Curve) (h : cv ≠ .p521) : algOfCoord cv.hashAlg.size = cv.hashAlg := by
  cases cv <;> first | (exact absurd rfl h) | decide

/-- SB3.1 loader (Model/Sb31.lean `Rom.romCert`): a well-formed exported block is accepted against the fuse value of its
    root key record; the loader reports the signing key (ISK if present, else the root key) and, for an ISK certificate,
    the obligation "root key signs record ‖ ISK certificate up to its signature" -/
theorem sb31_romCert_accepts {c : CryptoOps} {pointOk : Bytes → Bool} {ca : Bool} {used : Nat} {cv : Curve} {cb : CertBlockV21}
    (wf : WFv21 c pointOk ca used cv cb) (rw_ : RomWF c used cv cb)
    (hsig : ∀ i, cb.isk = some i →
      c.verify (.ecdsa cv.hashAlg) cb.rkr.rootPublicKey (rkrBytes cb.rkr ++ iskSignedPart i) i.signature = true) :
    romCert c (rotkhOfRecord c cv cb.rkr) (bytesV21 cb) =
      .ok (⟨(signerOf cv cb).1, (signerOf cv cb).2⟩,
           match cb.isk with
           | none => []
           | some i => [⟨cv.hashAlg.size, cb.rkr.rootPublicKey, rkrBytes cb.rkr ++ iskSignedPart i, i.signature⟩]) := by
  have hm : ([0x63, 0x68, 0x64, 0x72] : Bytes).length = 4 := rfl
  have p16 : (65536 : Nat) = 256 ^ 2 := by decide
  have p32 : (2 : Nat) ^ 32 = 256 ^ 4 := by decide
  have wr := wf.rkr
  obtain ⟨d1, d2, d3, d4⟩ := rkr_div ca used cb.rkr.rkh.length cv wr.used_lt (by have := wr.count4; omega) wr.cv_ok
  rw [← wr.flags] at d1 d2 d3 d4
  have hfl : cb.rkr.flags < 256 ^ 4 := by rw [← p32]; exact (rkrFlags_lt wr).1
  have hflat := Rkht.flatten_lenN _ _ wr.rkh
  have hcnt : (1 ≤ cb.rkr.rkh.length && cb.rkr.rkh.length ≤ 4 && used < cb.rkr.rkh.length) = true := by
    simp [wr.count1, wr.count4, rw_.used_lt]
  have hsz := wf.size
  have hpk2 : cb.rkr.rootPublicKey.length = 2 * cv.hashAlg.size := by rw [wr.pk]; omega
  -- the table as the ROM takes it
  have htab : exportV21 cb.rkr.rkh = if cb.rkr.rkh.length > 1 then cb.rkr.rkh.flatten else [] := rfl
  have htl : (exportV21 cb.rkr.rkh).length = if cb.rkr.rkh.length > 1 then cb.rkr.rkh.length * cv.hashAlg.size else 0 := by
    rw [htab]; split
    · rw [hflat, Nat.mul_comm]
    · rfl
  have hentry : cb.rkr.rkh.length > 1 →
      ((exportV21 cb.rkr.rkh).drop (used * cv.hashAlg.size)).take cv.hashAlg.size = c.hash cv.hashAlg cb.rkr.rootPublicKey := by
    intro h1
    have : exportV21 cb.rkr.rkh = cb.rkr.rkh.flatten := by simp [exportV21, h1]
    rw [this]; exact flatten_entry _ _ _ _ wr.rkh (rw_.entry h1)
  have hrk : rotkhOfRecord c cv cb.rkr = if cb.rkr.rkh.length > 1 then c.hash cv.hashAlg (exportV21 cb.rkr.rkh)
      else c.hash cv.hashAlg cb.rkr.rootPublicKey := by
    simp only [rotkhOfRecord, exportV21]; split <;> rfl
  cases ca with
  | true =>
    have hn := wf.isk_none rfl
    rw [hn] at hsz
    have hsz' : headerSizeV21 + (rkrBytes cb.rkr).length < 256 ^ 4 := by rw [← p32]; simpa using hsz
    have hb : bytesV21 cb = [0x63, 0x68, 0x64, 0x72] ++ (leEnc 2 cb.minor ++ (leEnc 2 cb.major ++
        (leEnc 4 (headerSizeV21 + (rkrBytes cb.rkr).length) ++ (leEnc 4 cb.rkr.flags ++ (exportV21 cb.rkr.rkh ++
        (cb.rkr.rootPublicKey ++ [])))))) := by
      simp only [bytesV21, hn, rkrBytes, List.append_assoc, List.length_nil, Nat.add_zero, List.append_nil]; rfl
    have hlen : (bytesV21 cb).length = headerSizeV21 + (rkrBytes cb.rkr).length := by
      simp only [bytesV21, hn, List.length_append, leEnc_len, List.length_nil, headerSizeV21]
      have : G.cbV21Magic.length = 4 := rfl
      omega
    simp only [romCert]
    rw [hlen, hb]
    simp only [sb_takeB _ _ 4 hm, rbind_ok, beq_self_eq_true, check_true,
      rw_.major, rw_.minor, sb_takeU 2 1 _ (by decide), sb_takeU 2 2 _ (by decide), Bool.and_self, sb_takeU 4 _ _ hsz', sb_takeU 4 cb.rkr.flags _ hfl, d1, d2, d3, d4,
      coordOfCurve_bit cv wr.cv_ok, hcnt, algOfCoord_size cv wr.cv_ok,
      sb_takeB (exportV21 cb.rkr.rkh) _ _ htl, sb_takeB cb.rkr.rootPublicKey _ _ hpk2, hrk]
    by_cases h1 : cb.rkr.rkh.length > 1
    · simp only [h1, ↓reduceIte, hentry h1, beq_self_eq_true, check_true, rbind_ok, List.isEmpty_nil, rpure_ok, signerOf, hn]
    · simp only [h1, ↓reduceIte, beq_self_eq_true, check_true, rbind_ok, List.isEmpty_nil, rpure_ok, signerOf, hn]
  | false =>
    obtain ⟨i, hi, wi⟩ := wf.isk_some rfl
    rw [hi] at hsz
    have hsz' : headerSizeV21 + (rkrBytes cb.rkr).length + (iskBytes i).length < 256 ^ 4 := by rw [← p32]; exact hsz
    obtain ⟨k1, k2⟩ := iskFlags_div i.userData i.pubKey.length wi.pub
    rw [← wi.flags] at k1 k2
    obtain ⟨f1, _, _⟩ := iskFlags_facts i.userData i.pubKey.length wi.pub
    have hif : i.flags < 256 ^ 4 := by rw [wi.flags, ← p32]; exact f1
    have hpl : 2 * (i.pubKey.length / 2) = i.pubKey.length := by rcases wi.pub with h | h <;> rw [h]
    have hso : iskSigOffset i = 12 + i.userData.length + i.pubKey.length := by simp [iskSigOffset, wi.offset]
    have hb : bytesV21 cb = [0x63, 0x68, 0x64, 0x72] ++ (leEnc 2 cb.minor ++ (leEnc 2 cb.major ++
        (leEnc 4 (headerSizeV21 + (rkrBytes cb.rkr).length + (iskBytes i).length) ++ (leEnc 4 cb.rkr.flags ++
        (exportV21 cb.rkr.rkh ++ (cb.rkr.rootPublicKey ++ (leEnc 4 (iskSigOffset i) ++ (leEnc 4 i.constraints ++
        (leEnc 4 i.flags ++ (i.pubKey ++ (i.userData ++ (i.signature ++ [])))))))))))) := by
      simp only [bytesV21, hi, rkrBytes, iskBytes, List.append_assoc, List.append_nil]; rfl
    have hlen : (bytesV21 cb).length = headerSizeV21 + (rkrBytes cb.rkr).length + (iskBytes i).length := by
      simp only [bytesV21, hi, List.length_append, leEnc_len, headerSizeV21]
      have : G.cbV21Magic.length = 4 := rfl
      omega
    have hrec : ((bytesV21 cb).drop 12).take (4 + (exportV21 cb.rkr.rkh).length + 2 * cv.hashAlg.size) = rkrBytes cb.rkr := by
      have : bytesV21 cb = ([0x63, 0x68, 0x64, 0x72] ++ leEnc 2 cb.minor ++ leEnc 2 cb.major ++
          leEnc 4 (headerSizeV21 + (rkrBytes cb.rkr).length + (iskBytes i).length)) ++ (rkrBytes cb.rkr ++ iskBytes i) := by
        simp only [bytesV21, hi, List.append_assoc]; rfl
      rw [this, List.drop_left' (by simp only [List.length_append, leEnc_len, hm])]
      exact List.take_left' (by simp only [rkrBytes, List.length_append, leEnc_len, hpk2])
    have hso2 : iskSigOffset i - 12 - 2 * (i.pubKey.length / 2) = i.userData.length := by rw [hpl, hso]; omega
    have hle : (12 + 2 * (i.pubKey.length / 2) ≤ iskSigOffset i) := by rw [hpl, hso]; omega
    have hsl : i.signature.length = 2 * cv.hashAlg.size := by rw [wi.sig, hpk2]
    have htk : (leEnc 4 (iskSigOffset i) ++ (leEnc 4 i.constraints ++ (leEnc 4 i.flags ++ (i.pubKey ++ (i.userData ++
        (i.signature ++ [])))))).take (iskSigOffset i) = iskSignedPart i := by
      have : leEnc 4 (iskSigOffset i) ++ (leEnc 4 i.constraints ++ (leEnc 4 i.flags ++ (i.pubKey ++ (i.userData ++
        (i.signature ++ []))))) = iskSignedPart i ++ (i.signature ++ []) := by simp only [iskSignedPart, List.append_assoc]
      rw [this]; exact List.take_left' (by simp only [iskSignedPart, List.length_append, leEnc_len, hso]; omega)
    simp only [romCert]
    rw [hlen, congrArg (takeB 4) hb]
    simp only [sb_takeB _ _ 4 hm, rbind_ok, beq_self_eq_true, check_true,
      rw_.major, rw_.minor, sb_takeU 2 1 _ (by decide), sb_takeU 2 2 _ (by decide), Bool.and_self,
      sb_takeU 4 _ _ hsz', sb_takeU 4 cb.rkr.flags _ hfl, d1, d2, d3, d4,
      coordOfCurve_bit cv wr.cv_ok, hcnt, algOfCoord_size cv wr.cv_ok,
      sb_takeB (exportV21 cb.rkr.rkh) _ _ htl, sb_takeB cb.rkr.rootPublicKey _ _ hpk2, hrk,
      sb_takeU 4 (iskSigOffset i) _ (by rw [← p32]; exact wi.sigoff),
      sb_takeU 4 i.constraints _ (by rw [← p32]; exact wi.constraints), sb_takeU 4 i.flags _ hif, k1, k2, hle, decide_true,
      sb_takeB i.pubKey _ _ hpl.symm, hso2, sb_takeB i.userData _ _ rfl, sb_takeB i.signature _ _ hsl, List.isEmpty_nil,
      htk, hrec, hsig i hi, signerOf, hi, rpure_ok, Bool.false_eq_true]
    by_cases h1 : cb.rkr.rkh.length > 1
    · simp only [h1, ↓reduceIte, hentry h1, beq_self_eq_true, check_true, rbind_ok]
    · simp only [h1, ↓reduceIte, beq_self_eq_true, check_true, rbind_ok]

/-- SB3.1 loader, for ANY fuse value `rot`: the walk over a well-formed exported block succeeds exactly when `rot` is the fuse
    value of the block's root key record (otherwise it stops with `certRotkh`) -/
theorem sb31_romCert_eval {c : CryptoOps} {pointOk : Bytes → Bool} {ca : Bool} {used : Nat} {cv : Curve} {cb : CertBlockV21}
    (wf : WFv21 c pointOk ca used cv cb) (rw_ : RomWF c used cv cb)
    (hsig : ∀ i, cb.isk = some i →
      c.verify (.ecdsa cv.hashAlg) cb.rkr.rootPublicKey (rkrBytes cb.rkr ++ iskSignedPart i) i.signature = true)
    (rot : Bytes) :
    romCert c rot (bytesV21 cb) =
      (check (rotkhOfRecord c cv cb.rkr == rot) .certRotkh >>= fun _ =>
      .ok (⟨(signerOf cv cb).1, (signerOf cv cb).2⟩,
           match cb.isk with
           | none => []
           | some i => [⟨cv.hashAlg.size, cb.rkr.rootPublicKey, rkrBytes cb.rkr ++ iskSignedPart i, i.signature⟩])) := by
  have hm : ([0x63, 0x68, 0x64, 0x72] : Bytes).length = 4 := rfl
  have p16 : (65536 : Nat) = 256 ^ 2 := by decide
  have p32 : (2 : Nat) ^ 32 = 256 ^ 4 := by decide
  have wr := wf.rkr
  obtain ⟨d1, d2, d3, d4⟩ := rkr_div ca used cb.rkr.rkh.length cv wr.used_lt (by have := wr.count4; omega) wr.cv_ok
  rw [← wr.flags] at d1 d2 d3 d4
  have hfl : cb.rkr.flags < 256 ^ 4 := by rw [← p32]; exact (rkrFlags_lt wr).1
  have hflat := Rkht.flatten_lenN _ _ wr.rkh
  have hcnt : (1 ≤ cb.rkr.rkh.length && cb.rkr.rkh.length ≤ 4 && used < cb.rkr.rkh.length) = true := by
    simp [wr.count1, wr.count4, rw_.used_lt]
  have hsz := wf.size
  have hpk2 : cb.rkr.rootPublicKey.length = 2 * cv.hashAlg.size := by rw [wr.pk]; omega
  -- the table as the ROM takes it
  have htab : exportV21 cb.rkr.rkh = if cb.rkr.rkh.length > 1 then cb.rkr.rkh.flatten else [] := rfl
  have htl : (exportV21 cb.rkr.rkh).length = if cb.rkr.rkh.length > 1 then cb.rkr.rkh.length * cv.hashAlg.size else 0 := by
    rw [htab]; split
    · rw [hflat, Nat.mul_comm]
    · rfl
  have hentry : cb.rkr.rkh.length > 1 →
      ((exportV21 cb.rkr.rkh).drop (used * cv.hashAlg.size)).take cv.hashAlg.size = c.hash cv.hashAlg cb.rkr.rootPublicKey := by
    intro h1
    have : exportV21 cb.rkr.rkh = cb.rkr.rkh.flatten := by simp [exportV21, h1]
    rw [this]; exact flatten_entry _ _ _ _ wr.rkh (rw_.entry h1)
  have hrk : rotkhOfRecord c cv cb.rkr = if cb.rkr.rkh.length > 1 then c.hash cv.hashAlg (exportV21 cb.rkr.rkh)
      else c.hash cv.hashAlg cb.rkr.rootPublicKey := by
    simp only [rotkhOfRecord, exportV21]; split <;> rfl
  cases ca with
  | true =>
    have hn := wf.isk_none rfl
    rw [hn] at hsz
    have hsz' : headerSizeV21 + (rkrBytes cb.rkr).length < 256 ^ 4 := by rw [← p32]; simpa using hsz
    have hb : bytesV21 cb = [0x63, 0x68, 0x64, 0x72] ++ (leEnc 2 cb.minor ++ (leEnc 2 cb.major ++
        (leEnc 4 (headerSizeV21 + (rkrBytes cb.rkr).length) ++ (leEnc 4 cb.rkr.flags ++ (exportV21 cb.rkr.rkh ++
        (cb.rkr.rootPublicKey ++ [])))))) := by
      simp only [bytesV21, hn, rkrBytes, List.append_assoc, List.length_nil, Nat.add_zero, List.append_nil]; rfl
    have hlen : (bytesV21 cb).length = headerSizeV21 + (rkrBytes cb.rkr).length := by
      simp only [bytesV21, hn, List.length_append, leEnc_len, List.length_nil, headerSizeV21]
      have : G.cbV21Magic.length = 4 := rfl
      omega
    simp only [romCert]
    rw [hlen, hb]
    simp only [sb_takeB _ _ 4 hm, rbind_ok, beq_self_eq_true, check_true,
      rw_.major, rw_.minor, sb_takeU 2 1 _ (by decide), sb_takeU 2 2 _ (by decide), Bool.and_self, sb_takeU 4 _ _ hsz', sb_takeU 4 cb.rkr.flags _ hfl, d1, d2, d3, d4,
      coordOfCurve_bit cv wr.cv_ok, hcnt, algOfCoord_size cv wr.cv_ok,
      sb_takeB (exportV21 cb.rkr.rkh) _ _ htl, sb_takeB cb.rkr.rootPublicKey _ _ hpk2, hrk]
    by_cases h1 : cb.rkr.rkh.length > 1
    · simp only [h1, ↓reduceIte, hentry h1, beq_self_eq_true, check_true, rbind_ok, List.isEmpty_nil, rpure_ok, signerOf, hn]
    · simp only [h1, ↓reduceIte, beq_self_eq_true, check_true, rbind_ok, List.isEmpty_nil, rpure_ok, signerOf, hn]
  | false =>
    obtain ⟨i, hi, wi⟩ := wf.isk_some rfl
    rw [hi] at hsz
    have hsz' : headerSizeV21 + (rkrBytes cb.rkr).length + (iskBytes i).length < 256 ^ 4 := by rw [← p32]; exact hsz
    obtain ⟨k1, k2⟩ := iskFlags_div i.userData i.pubKey.length wi.pub
    rw [← wi.flags] at k1 k2
    obtain ⟨f1, _, _⟩ := iskFlags_facts i.userData i.pubKey.length wi.pub
    have hif : i.flags < 256 ^ 4 := by rw [wi.flags, ← p32]; exact f1
    have hpl : 2 * (i.pubKey.length / 2) = i.pubKey.length := by rcases wi.pub with h | h <;> rw [h]
    have hso : iskSigOffset i = 12 + i.userData.length + i.pubKey.length := by simp [iskSigOffset, wi.offset]
    have hb : bytesV21 cb = [0x63, 0x68, 0x64, 0x72] ++ (leEnc 2 cb.minor ++ (leEnc 2 cb.major ++
        (leEnc 4 (headerSizeV21 + (rkrBytes cb.rkr).length + (iskBytes i).length) ++ (leEnc 4 cb.rkr.flags ++
        (exportV21 cb.rkr.rkh ++ (cb.rkr.rootPublicKey ++ (leEnc 4 (iskSigOffset i) ++ (leEnc 4 i.constraints ++
        (leEnc 4 i.flags ++ (i.pubKey ++ (i.userData ++ (i.signature ++ [])))))))))))) := by
      simp only [bytesV21, hi, rkrBytes, iskBytes, List.append_assoc, List.append_nil]; rfl
    have hlen : (bytesV21 cb).length = headerSizeV21 + (rkrBytes cb.rkr).length + (iskBytes i).length := by
      simp only [bytesV21, hi, List.length_append, leEnc_len, headerSizeV21]
      have : G.cbV21Magic.length = 4 := rfl
      omega
    have hrec : ((bytesV21 cb).drop 12).take (4 + (exportV21 cb.rkr.rkh).length + 2 * cv.hashAlg.size) = rkrBytes cb.rkr := by
      have : bytesV21 cb = ([0x63, 0x68, 0x64, 0x72] ++ leEnc 2 cb.minor ++ leEnc 2 cb.major ++
          leEnc 4 (headerSizeV21 + (rkrBytes cb.rkr).length + (iskBytes i).length)) ++ (rkrBytes cb.rkr ++ iskBytes i) := by
        simp only [bytesV21, hi, List.append_assoc]; rfl
      rw [this, List.drop_left' (by simp only [List.length_append, leEnc_len, hm])]
      exact List.take_left' (by simp only [rkrBytes, List.length_append, leEnc_len, hpk2])
    have hso2 : iskSigOffset i - 12 - 2 * (i.pubKey.length / 2) = i.userData.length := by rw [hpl, hso]; omega
    have hle : (12 + 2 * (i.pubKey.length / 2) ≤ iskSigOffset i) := by rw [hpl, hso]; omega
    have hsl : i.signature.length = 2 * cv.hashAlg.size := by rw [wi.sig, hpk2]
    have htk : (leEnc 4 (iskSigOffset i) ++ (leEnc 4 i.constraints ++ (leEnc 4 i.flags ++ (i.pubKey ++ (i.userData ++
        (i.signature ++ [])))))).take (iskSigOffset i) = iskSignedPart i := by
      have : leEnc 4 (iskSigOffset i) ++ (leEnc 4 i.constraints ++ (leEnc 4 i.flags ++ (i.pubKey ++ (i.userData ++
        (i.signature ++ []))))) = iskSignedPart i ++ (i.signature ++ []) := by simp only [iskSignedPart, List.append_assoc]
      rw [this]; exact List.take_left' (by simp only [iskSignedPart, List.length_append, leEnc_len, hso]; omega)
    simp only [romCert]
    rw [hlen, congrArg (takeB 4) hb]
    simp only [sb_takeB _ _ 4 hm, rbind_ok, beq_self_eq_true, check_true,
      rw_.major, rw_.minor, sb_takeU 2 1 _ (by decide), sb_takeU 2 2 _ (by decide), Bool.and_self,
      sb_takeU 4 _ _ hsz', sb_takeU 4 cb.rkr.flags _ hfl, d1, d2, d3, d4,
      coordOfCurve_bit cv wr.cv_ok, hcnt, algOfCoord_size cv wr.cv_ok,
      sb_takeB (exportV21 cb.rkr.rkh) _ _ htl, sb_takeB cb.rkr.rootPublicKey _ _ hpk2, hrk,
      sb_takeU 4 (iskSigOffset i) _ (by rw [← p32]; exact wi.sigoff),
      sb_takeU 4 i.constraints _ (by rw [← p32]; exact wi.constraints), sb_takeU 4 i.flags _ hif, k1, k2, hle, decide_true,
      sb_takeB i.pubKey _ _ hpl.symm, hso2, sb_takeB i.userData _ _ rfl, sb_takeB i.signature _ _ hsl, List.isEmpty_nil,
      htk, hrec, hsig i hi, signerOf, hi, rpure_ok, Bool.false_eq_true]
    by_cases h1 : cb.rkr.rkh.length > 1
    · simp only [h1, ↓reduceIte, hentry h1, beq_self_eq_true, check_true, rbind_ok]
    · simp only [h1, ↓reduceIte, beq_self_eq_true, check_true, rbind_ok]



/-- acceptance by the SB3.1 loader ⇒ the fuses hold the fuse value of the block's root key record -/
theorem sb31_romCert_ok_rot {c : CryptoOps} {pointOk : Bytes → Bool} {ca : Bool} {used : Nat} {cv : Curve} {cb : CertBlockV21}
    (wf : WFv21 c pointOk ca used cv cb) (rw_ : RomWF c used cv cb)
    (hsig : ∀ i, cb.isk = some i →
      c.verify (.ecdsa cv.hashAlg) cb.rkr.rootPublicKey (rkrBytes cb.rkr ++ iskSignedPart i) i.signature = true)
    (rot : Bytes) (x : Sb31.Rom.CertInfo × List Sb31.Rom.SigOb) (h : romCert c rot (bytesV21 cb) = .ok x) :
    rot = rotkhOfRecord c cv cb.rkr := by
  rw [sb31_romCert_eval wf rw_ hsig rot] at h
  by_cases e : (rotkhOfRecord c cv cb.rkr == rot) = true
  · exact (beq_iff_eq.mp e).symm
  · simp only [Bool.not_eq_true] at e
    rw [e] at h
    cases h

section MbiRom
open SpsdkVerif.Spec.MbiRom (rd32 rd16 sub need Rom romCertV21 romCertV1 Obligation coordSizeOfCode hashOfCoord)
open SpsdkVerif.Mbi (certAt RomCertV21OK RomCertV1OK romEnvOf)

/-! ### reading inside an image that contains the block at `off` -/

/-- a block sitting at `off` splits the image into what precedes it, the block, and what follows -/
theorem certAt_split {img cert : Bytes} {off : Nat} (h : certAt img cert off) (hne : cert ≠ []) :
    ∃ P Q, img = P ++ (cert ++ Q) ∧ P.length = off := by
  unfold certAt sub at h
  have hoff : off ≤ img.length := by
    by_cases hle : off ≤ img.length
    · exact hle
    · exfalso
      have : (img.take (off + cert.length)).drop off = [] := by
        apply List.drop_eq_nil_of_le
        rw [List.length_take]; omega
      rw [this] at h; exact hne h.symm
  refine ⟨img.take off, img.drop (off + cert.length), ?_, by rw [List.length_take]; omega⟩
  have e1 : img.take (off + cert.length) = img.take off ++ cert := by
    have := List.take_append_drop off (img.take (off + cert.length))
    rw [h, List.take_take, Nat.min_eq_left (Nat.le_add_right _ _)] at this
    exact this.symm
  calc img = img.take (off + cert.length) ++ img.drop (off + cert.length) := (List.take_append_drop _ _).symm
    _ = img.take off ++ (cert ++ img.drop (off + cert.length)) := by rw [e1, List.append_assoc]

theorem rd32_at (pre post : Bytes) (v o : Nat) (ho : pre.length = o) (hv : v < 256 ^ 4) :
    rd32 (pre ++ (leEnc 4 v ++ post)) o = v := by
  subst ho
  simp only [rd32, List.drop_left, List.take_left' (leEnc_len 4 v), leDec_leEnc 4 v hv]

theorem rd16_at (pre post : Bytes) (v o : Nat) (ho : pre.length = o) (hv : v < 256 ^ 2) :
    rd16 (pre ++ (leEnc 2 v ++ post)) o = v := by
  subst ho
  simp only [rd16, List.drop_left, List.take_left' (leEnc_len 2 v), leDec_leEnc 2 v hv]

theorem sub_at (pre x post : Bytes) (a b : Nat) (ha : pre.length = a) (hb : a + x.length = b) :
    sub (pre ++ (x ++ post)) a b = x := by
  subst ha; subst hb
  simp only [sub]
  rw [← List.append_assoc, List.take_left' (by simp), List.drop_left]


/-- the flags word read with shifts and masks (as Spec/MbiRom.lean does) -/
def RkrBitOK (ca : Bool) (u n : Nat) (cv : Curve) : Prop :=
  coordSizeOfCode (rkrFlags ca u n cv &&& 0xF) = some cv.hashAlg.size ∧ (rkrFlags ca u n cv >>> 4) &&& 0xF = n ∧
  (rkrFlags ca u n cv >>> 8) &&& 0xF = u ∧ (rkrFlags ca u n cv &&& 0x80000000 != 0) = ca

instance (ca : Bool) (u n : Nat) (cv : Curve) : Decidable (RkrBitOK ca u n cv) := by unfold RkrBitOK; infer_instance

theorem rkr_bit_p256 : ∀ (ca : Bool) (u n : Fin 16), RkrBitOK ca u n .p256 := by decide
theorem rkr_bit_p384 : ∀ (ca : Bool) (u n : Fin 16), RkrBitOK ca u n .p384 := by decide

theorem rkr_bit (ca : Bool) (u n : Nat) (cv : Curve) (hu : u < 16) (hn : n < 16) (h : cv ≠ .p521) : RkrBitOK ca u n cv := by
  cases cv with
  | p256 => exact rkr_bit_p256 ca ⟨u, hu⟩ ⟨n, hn⟩
  | p384 => exact rkr_bit_p384 ca ⟨u, hu⟩ ⟨n, hn⟩
  | p521 => exact absurd rfl h

theorem iskFlags_bit (ud : Bytes) (pl : Nat) (h : pl = 64 ∨ pl = 96) :
    coordSizeOfCode (iskCalcFlags ud pl &&& 0xF) = some (pl / 2) ∧
    (iskCalcFlags ud pl &&& 0x80000000 != 0) = !ud.isEmpty := by
  cases hu : ud.isEmpty <;> rcases h with h | h <;> subst h <;> simp only [iskCalcFlags, hu] <;> decide

theorem hashOfCoord_size (cv : Curve) (h : cv ≠ .p521) : hashOfCoord cv.hashAlg.size = cv.hashAlg := by
  cases cv <;> first | (exact absurd rfl h) | decide

theorem need_true (why : String) : need true why = .ok () := rfl

/-- the obligation the ROM leaves to the environment for a block with an ISK certificate -/
def obsOf (cb : CertBlockV21) : List Obligation :=
  match cb.isk with
  | none => []
  | some i => [.ecdsa cb.rkr.rootPublicKey (rkrBytes cb.rkr ++ iskSignedPart i) i.signature]

theorem rd32_drop (img : Bytes) (e k : Nat) : rd32 img (e + k) = rd32 (img.drop e) k := by
  simp only [rd32, List.drop_drop]

theorem rd16_drop (img : Bytes) (e k : Nat) : rd16 img (e + k) = rd16 (img.drop e) k := by
  simp only [rd16, List.drop_drop]

theorem sub_drop (img : Bytes) (e a b : Nat) : sub img (e + a) (e + b) = sub (img.drop e) a b := by
  simp only [sub]
  rw [← List.drop_drop, List.drop_take]
  congr 2
  omega

theorem sub_zero_len (x post : Bytes) (n : Nat) (h : x.length = n) : sub (x ++ post) 0 n = x := by
  simp only [sub, List.drop_zero]; exact List.take_left' h

theorem rd32_head (x post : Bytes) (h : x.length = 4) : rd32 (x ++ post) 0 = leDec x := by
  simp only [rd32, List.drop_zero, List.take_left' h]

theorem rd16_head (x post : Bytes) (h : x.length = 2) : rd16 (x ++ post) 0 = leDec x := by
  simp only [rd16, List.drop_zero, List.take_left' h]

/-- the ISK part of the exported block -/
def iskPart (cb : CertBlockV21) : Bytes := match cb.isk with | some i => iskBytes i | none => []

theorem bytesV21_eq (cb : CertBlockV21) :
    bytesV21 cb = G.cbV21Magic ++ (leEnc 2 cb.minor ++ (leEnc 2 cb.major ++
      (leEnc 4 (headerSizeV21 + (rkrBytes cb.rkr).length + (iskPart cb).length) ++
      (leEnc 4 cb.rkr.flags ++ (exportV21 cb.rkr.rkh ++ (cb.rkr.rootPublicKey ++ iskPart cb)))))) := by
  cases cb with
  | mk ma mi r isk => cases isk <;> simp [bytesV21, iskPart, rkrBytes, List.append_assoc]

/-- `X.drop n` for `X = x ++ rest` with `|x| = n` -/
theorem drop_piece (x rest : Bytes) (n : Nat) (h : x.length = n) : (x ++ rest).drop n = rest := List.drop_left' h

/-- reading the fields of `header | flags | table | root key | rest` at absolute offsets of an image -/
theorem walk_v21 (P M A B S F T K R : Bytes) (off : Nat) (hP : P.length = off) (hM : M.length = 4) (hA : A.length = 2)
    (hB : B.length = 2) (hS : S.length = 4) (hF : F.length = 4) (img : Bytes)
    (himg : img = P ++ (M ++ (A ++ (B ++ (S ++ (F ++ (T ++ (K ++ R)))))))) :
    sub img off (off + 4) = M ∧ rd16 img (off + 4) = leDec A ∧ rd16 img (off + 6) = leDec B ∧ rd32 img (off + 8) = leDec S ∧
    rd32 img (off + 12) = leDec F ∧ sub img (off + 12 + 4) (off + 12 + 4 + T.length) = T ∧
    sub img (off + 12 + 4 + T.length) (off + 12 + 4 + T.length + K.length) = K ∧
    img.drop (off + 12 + 4 + T.length + K.length) = R ∧ img.length = off + 16 + T.length + K.length + R.length := by
  subst himg; subst hP
  have d4 : (P ++ (M ++ (A ++ (B ++ (S ++ (F ++ (T ++ (K ++ R)))))))).drop (P.length + 4) = A ++ (B ++ (S ++ (F ++ (T ++ (K ++ R))))) := by
    rw [← List.drop_drop, List.drop_left, List.drop_left' hM]
  have d6 : (P ++ (M ++ (A ++ (B ++ (S ++ (F ++ (T ++ (K ++ R)))))))).drop (P.length + 6) = B ++ (S ++ (F ++ (T ++ (K ++ R)))) := by
    rw [show P.length + 6 = P.length + 4 + 2 from rfl, ← List.drop_drop, d4, List.drop_left' hA]
  have d8 : (P ++ (M ++ (A ++ (B ++ (S ++ (F ++ (T ++ (K ++ R)))))))).drop (P.length + 8) = S ++ (F ++ (T ++ (K ++ R))) := by
    rw [show P.length + 8 = P.length + 6 + 2 from rfl, ← List.drop_drop, d6, List.drop_left' hB]
  have d12 : (P ++ (M ++ (A ++ (B ++ (S ++ (F ++ (T ++ (K ++ R)))))))).drop (P.length + 12) = F ++ (T ++ (K ++ R)) := by
    rw [show P.length + 12 = P.length + 8 + 4 from rfl, ← List.drop_drop, d8, List.drop_left' hS]
  have d16 : (P ++ (M ++ (A ++ (B ++ (S ++ (F ++ (T ++ (K ++ R)))))))).drop (P.length + 12 + 4) = T ++ (K ++ R) := by
    rw [← List.drop_drop, d12, List.drop_left' hF]
  have dT : (P ++ (M ++ (A ++ (B ++ (S ++ (F ++ (T ++ (K ++ R)))))))).drop (P.length + 12 + 4 + T.length) = K ++ R := by
    rw [← List.drop_drop, d16, List.drop_left]
  refine ⟨?_, ?_, ?_, ?_, ?_, ?_, ?_, ?_, ?_⟩
  · exact sub_at P M _ _ _ rfl (by rw [hM])
  · rw [show P.length + 4 = P.length + 4 + 0 from rfl, rd16_drop, d4]; exact rd16_head _ _ hA
  · rw [show P.length + 6 = P.length + 6 + 0 from rfl, rd16_drop, d6]; exact rd16_head _ _ hB
  · rw [show P.length + 8 = P.length + 8 + 0 from rfl, rd32_drop, d8]; exact rd32_head _ _ hS
  · rw [show P.length + 12 = P.length + 12 + 0 from rfl, rd32_drop, d12]; exact rd32_head _ _ hF
  · have := sub_drop (P ++ (M ++ (A ++ (B ++ (S ++ (F ++ (T ++ (K ++ R)))))))) (P.length + 12 + 4) 0 T.length
    rw [Nat.add_zero] at this
    rw [this, d16]; exact sub_zero_len _ _ _ rfl
  · have := sub_drop (P ++ (M ++ (A ++ (B ++ (S ++ (F ++ (T ++ (K ++ R)))))))) (P.length + 12 + 4 + T.length) 0 K.length
    rw [Nat.add_zero] at this
    rw [this, dT]; exact sub_zero_len _ _ _ rfl
  · rw [← List.drop_drop, dT, List.drop_left]
  · simp only [List.length_append, hM, hA, hB, hS, hF]; omega


theorem walk_isk (O C Fl Pk U Sg Q : Bytes) (hO : O.length = 4) (hC : C.length = 4) (hFl : Fl.length = 4) (img : Bytes) (e : Nat)
    (h : img.drop e = O ++ (C ++ (Fl ++ (Pk ++ (U ++ (Sg ++ Q)))))) :
    rd32 img e = leDec O ∧ rd32 img (e + 8) = leDec Fl ∧ sub img (e + 12) (e + 12 + Pk.length) = Pk ∧
    sub img (e + (12 + Pk.length + U.length)) (e + (12 + Pk.length + U.length) + Sg.length) = Sg := by
  have d8 : img.drop (e + 8) = Fl ++ (Pk ++ (U ++ (Sg ++ Q))) := by
    rw [← List.drop_drop, h, show (8 : Nat) = 4 + 4 from rfl, ← List.drop_drop, List.drop_left' hO, List.drop_left' hC]
  have d12 : img.drop (e + 12) = Pk ++ (U ++ (Sg ++ Q)) := by
    rw [show e + 12 = e + 8 + 4 from rfl, ← List.drop_drop, d8, List.drop_left' hFl]
  have dS : img.drop (e + (12 + Pk.length + U.length)) = Sg ++ Q := by
    rw [show e + (12 + Pk.length + U.length) = e + 12 + Pk.length + U.length by omega, ← List.drop_drop, ← List.drop_drop, d12,
      List.drop_left, List.drop_left]
  refine ⟨?_, ?_, ?_, ?_⟩
  · have := rd32_drop img e 0; rw [Nat.add_zero] at this; rw [this, h]; exact rd32_head _ _ hO
  · have := rd32_drop img (e + 8) 0; rw [Nat.add_zero] at this; rw [this, d8]; exact rd32_head _ _ hFl
  · have := sub_drop img (e + 12) 0 Pk.length; rw [Nat.add_zero] at this; rw [this, d12]; exact sub_zero_len _ _ _ rfl
  · have := sub_drop img (e + (12 + Pk.length + U.length)) 0 Sg.length; rw [Nat.add_zero] at this
    rw [this, dS]; exact sub_zero_len _ _ _ rfl


/-- MBI ROM (Spec/MbiRom.lean `romCertV21`, property C02): wherever a well-formed exported block sits in an image, the walk
    accepts it against the fuse value of its root key record, ends exactly at `off + |block|`, reports the signing key and
    leaves the ISK obligation - this is `RomCertV21OK` of Proofs/MbiRomDefs.lean -/
theorem mbi_romCertV21_ok {c : CryptoOps} {pointOk : Bytes → Bool} {ca : Bool} {used : Nat} {cv : Curve} {cb : CertBlockV21}
    (wf : WFv21 c pointOk ca used cv cb) (rw_ : RomWF c used cv cb) (renv : Spec.MbiRom.RomEnv)
    (hrkth : renv.rkth = rotkhOfRecord c cv cb.rkr) :
    RomCertV21OK c renv (bytesV21 cb) (signerOf cv cb).1.length (signerOf cv cb).1 (fun _ _ => obsOf cb) := by
  refine ⟨rfl, ?_⟩
  intro img off hat hlen
  have hm : G.cbV21Magic.length = 4 := rfl
  have p16 : (65536 : Nat) = 256 ^ 2 := by decide
  have p32 : (2 : Nat) ^ 32 = 256 ^ 4 := by decide
  have wr := wf.rkr
  have hne : bytesV21 cb ≠ [] := by rw [bytesV21_eq]; exact List.cons_ne_nil _ _
  obtain ⟨P, Q, himg, hP⟩ := certAt_split hat hne
  obtain ⟨b1, b2, b3, b4⟩ := rkr_bit ca used cb.rkr.rkh.length cv wr.used_lt (by have := wr.count4; omega) wr.cv_ok
  rw [← wr.flags] at b1 b2 b3 b4
  have hfl : cb.rkr.flags < 256 ^ 4 := by rw [← p32]; exact (rkrFlags_lt wr).1
  have hflat := Rkht.flatten_lenN _ _ wr.rkh
  have hpk2 : cb.rkr.rootPublicKey.length = 2 * cv.hashAlg.size := by rw [wr.pk]; omega
  have htl : (exportV21 cb.rkr.rkh).length = if cb.rkr.rkh.length > 1 then cb.rkr.rkh.length * cv.hashAlg.size else 0 := by
    simp only [exportV21]; split
    · rw [hflat, Nat.mul_comm]
    · rfl
  have hsz : headerSizeV21 + (rkrBytes cb.rkr).length + (iskPart cb).length < 256 ^ 4 := by
    rw [← p32]; have := wf.size; simp only [iskPart]; cases h : cb.isk <;> rw [h] at this <;> simpa using this
  have hrl : (rkrBytes cb.rkr).length = 4 + (exportV21 cb.rkr.rkh).length + cb.rkr.rootPublicKey.length := by
    simp only [rkrBytes, List.length_append, leEnc_len]
  have hblen : (bytesV21 cb).length = 12 + (rkrBytes cb.rkr).length + (iskPart cb).length := by
    rw [bytesV21_eq]; simp only [List.length_append, leEnc_len, hm, rkrBytes]; omega
  rw [bytesV21_eq] at himg
  have himg' : img = P ++ (G.cbV21Magic ++ (leEnc 2 cb.minor ++ (leEnc 2 cb.major ++
      (leEnc 4 (headerSizeV21 + (rkrBytes cb.rkr).length + (iskPart cb).length) ++
      (leEnc 4 cb.rkr.flags ++ (exportV21 cb.rkr.rkh ++ (cb.rkr.rootPublicKey ++ (iskPart cb ++ Q)))))))) := by
    rw [himg]; simp only [List.append_assoc]
  obtain ⟨w1, w2, w3, w4, w5, w6, w7, w8, w9⟩ := walk_v21 P _ _ _ _ _ _ _ _ off hP hm (leEnc_len _ _) (leEnc_len _ _)
    (leEnc_len _ _) (leEnc_len _ _) img himg'
  rw [leDec_leEnc 2 _ (by rw [← p16]; exact wf.minor)] at w2
  rw [leDec_leEnc 2 _ (by rw [← p16]; exact wf.major)] at w3
  rw [leDec_leEnc 4 _ hsz] at w4
  rw [leDec_leEnc 4 _ hfl] at w5
  have hentry : cb.rkr.rkh.length > 1 →
      sub (exportV21 cb.rkr.rkh) (used * cv.hashAlg.size) ((used + 1) * cv.hashAlg.size) = c.hash cv.hashAlg cb.rkr.rootPublicKey := by
    intro h1
    have e : exportV21 cb.rkr.rkh = cb.rkr.rkh.flatten := by simp [exportV21, h1]
    have := flatten_entry _ _ _ _ wr.rkh (rw_.entry h1)
    rw [e]; simp only [sub]
    rw [List.drop_take, this.symm]
    congr 1
    rw [Nat.add_mul]; omega
  have hcnt : (1 ≤ cb.rkr.rkh.length ∧ cb.rkr.rkh.length ≤ 4 ∧ used < cb.rkr.rkh.length) := ⟨wr.count1, wr.count4, rw_.used_lt⟩
  have hhdr : off + 12 + 4 ≤ img.length := by rw [w9]; omega
  have hpubin : off + 12 + 4 + (exportV21 cb.rkr.rkh).length + cb.rkr.rootPublicKey.length ≤ img.length := by rw [w9]; omega
  have hmag : (G.cbV21Magic == ([0x63, 0x68, 0x64, 0x72] : Bytes)) = true := by decide
  simp only [romCertV21, MbiRom.certV21HeaderSize, MbiRom.certV21Magic, w1, w2, w3, w5, b1, b2, b3, b4, hashOfCoord_size cv wr.cv_ok,
    ← htl, ← hpk2, w6, w7, hhdr, hmag, rw_.major, rw_.minor, hcnt, hpubin, decide_true, need_true, rbind_ok, beq_self_eq_true,
    and_self, true_and]
  have hchk1 : decide ((cb.rkr.rkh.length == 1) = true ∨
      (sub (exportV21 cb.rkr.rkh) (used * cv.hashAlg.size) ((used + 1) * cv.hashAlg.size) ==
        c.hash cv.hashAlg cb.rkr.rootPublicKey) = true) = true := by
    by_cases h1 : cb.rkr.rkh.length > 1
    · simp [hentry h1]
    · have : cb.rkr.rkh.length = 1 := by have := wr.count1; omega
      simp [this]
  have hchk2 : ((if (cb.rkr.rkh.length == 1) = true then c.hash cv.hashAlg cb.rkr.rootPublicKey
      else c.hash cv.hashAlg (exportV21 cb.rkr.rkh)) == renv.rkth) = true := by
    rw [hrkth, rotkhOfRecord]
    by_cases h1 : cb.rkr.rkh.length > 1
    · have hne1 : (cb.rkr.rkh.length == 1) = false := by simp; omega
      have e : exportV21 cb.rkr.rkh = cb.rkr.rkh.flatten := by simp [exportV21, h1]
      simp [h1, hne1, e]
    · have : cb.rkr.rkh.length = 1 := by have := wr.count1; omega
      simp [this]
  simp only [hchk1, hchk2, need_true, rbind_ok]
  have hbs : off + (headerSizeV21 + (rkrBytes cb.rkr).length + (iskPart cb).length) = off + (bytesV21 cb).length := by
    rw [hblen]; rfl
  cases ca with
  | true =>
    have hn := wf.isk_none rfl
    have hip : iskPart cb = [] := by simp [iskPart, hn]
    have hend : (off + 12 + 4 + (exportV21 cb.rkr.rkh).length + cb.rkr.rootPublicKey.length ==
        off + rd32 img (off + 8)) = true := by
      rw [w4, hrl, hip]; simp [headerSizeV21]; omega
    simp only [↓reduceIte, rpure_ok, rbind_ok, hend, need_true, signerOf, obsOf, hn]
    rw [hblen, hrl, hip]; simp; omega
  | false =>
    obtain ⟨i, hi, wi⟩ := wf.isk_some rfl
    have hip : iskPart cb = iskBytes i := by simp [iskPart, hi]
    obtain ⟨k1, k2⟩ := iskFlags_bit i.userData i.pubKey.length wi.pub
    rw [← wi.flags] at k1 k2
    obtain ⟨f1, _, _⟩ := iskFlags_facts i.userData i.pubKey.length wi.pub
    have hif : i.flags < 256 ^ 4 := by rw [wi.flags, ← p32]; exact f1
    have hpl : 2 * (i.pubKey.length / 2) = i.pubKey.length := by rcases wi.pub with h | h <;> rw [h]
    have hso : iskSigOffset i = 12 + i.pubKey.length + i.userData.length := by simp [iskSigOffset, wi.offset]; omega
    have hd : img.drop (off + 12 + 4 + (exportV21 cb.rkr.rkh).length + cb.rkr.rootPublicKey.length) =
        leEnc 4 (iskSigOffset i) ++ (leEnc 4 i.constraints ++ (leEnc 4 i.flags ++ (i.pubKey ++ (i.userData ++ (i.signature ++ Q))))) := by
      rw [w8, hip]; simp only [iskBytes, List.append_assoc]
    obtain ⟨v1, v2, v3, v4⟩ := walk_isk _ _ _ _ _ _ _ (leEnc_len _ _) (leEnc_len _ _) (leEnc_len _ _) img _ hd
    rw [leDec_leEnc 4 _ (by rw [← p32]; exact wi.sigoff)] at v1
    rw [leDec_leEnc 4 _ hif] at v2
    have hibl : (iskBytes i).length = 12 + i.pubKey.length + i.userData.length + i.signature.length := by
      simp only [iskBytes, List.length_append, leEnc_len]
    have hsigl : i.signature.length = cb.rkr.rootPublicKey.length := wi.sig
    -- the signed range, read from the image
    have hsigned : sub img (off + 12) (off + 12 + 4 + (exportV21 cb.rkr.rkh).length + cb.rkr.rootPublicKey.length + iskSigOffset i)
        = rkrBytes cb.rkr ++ iskSignedPart i := by
      have e : img = (P ++ G.cbV21Magic ++ leEnc 2 cb.minor ++ leEnc 2 cb.major ++
          leEnc 4 (headerSizeV21 + (rkrBytes cb.rkr).length + (iskPart cb).length)) ++
          ((rkrBytes cb.rkr ++ iskSignedPart i) ++ (i.signature ++ Q)) := by
        rw [himg', hip]; simp only [rkrBytes, iskBytes, iskSignedPart, List.append_assoc]
      rw [e]
      exact sub_at _ _ _ _ _ (by simp only [List.length_append, leEnc_len, hP, hm])
        (by simp only [rkrBytes, iskSignedPart, List.length_append, leEnc_len, hso]; omega)
    have n1 : off + 12 + 4 + (exportV21 cb.rkr.rkh).length + cb.rkr.rootPublicKey.length + 12 ≤ img.length := by
      rw [w9, hip, List.length_append, hibl]; omega
    have n2 : (iskSigOffset i ≥ 12 + 2 * (i.pubKey.length / 2)) := by rw [hpl, hso]; omega
    have n3 : ((!i.userData.isEmpty) == decide (iskSigOffset i > 12 + 2 * (i.pubKey.length / 2))) = true := by
      rw [hpl, hso]
      cases h : i.userData with
      | nil => simp
      | cons a t => simp
    have n4 : off + 12 + 4 + (exportV21 cb.rkr.rkh).length + cb.rkr.rootPublicKey.length + iskSigOffset i +
        cb.rkr.rootPublicKey.length ≤ img.length := by rw [w9, hip, List.length_append, hibl, hso, hsigl]; omega
    have v3' : sub img (off + 12 + 4 + (exportV21 cb.rkr.rkh).length + cb.rkr.rootPublicKey.length + 12)
        (off + 12 + 4 + (exportV21 cb.rkr.rkh).length + cb.rkr.rootPublicKey.length + 12 + 2 * (i.pubKey.length / 2)) = i.pubKey := by
      rw [hpl]; exact v3
    have v4' : sub img (off + 12 + 4 + (exportV21 cb.rkr.rkh).length + cb.rkr.rootPublicKey.length + iskSigOffset i)
        (off + 12 + 4 + (exportV21 cb.rkr.rkh).length + cb.rkr.rootPublicKey.length + iskSigOffset i + cb.rkr.rootPublicKey.length)
        = i.signature := by
      rw [hso]; rw [hsigl] at v4; exact v4
    have hend : (off + 12 + 4 + (exportV21 cb.rkr.rkh).length + cb.rkr.rootPublicKey.length + iskSigOffset i +
        cb.rkr.rootPublicKey.length == off + rd32 img (off + 8)) = true := by
      rw [w4, hrl, hip, hibl, hso, hsigl]; simp [headerSizeV21]; omega
    simp only [Bool.false_eq_true, ↓reduceIte, n1, decide_true, need_true, rbind_ok, v2, k1, v1, n2, k2, n3, n4, v3', v4', hsigned,
      rpure_ok, hend, signerOf, obsOf, hi]
    rw [hblen, hrl, hip, hibl, hso, hsigl]
    simp; omega

end MbiRom

section MbiRomV1
open SpsdkVerif.Spec.MbiRom (rd32 rd16 sub need Rom romCertV1 certEntries CertV1Info)
open SpsdkVerif.Mbi (certAt RomCertV1OK certSetImageLength)

/-- positions (offset of the DER bytes, length) of the certificates of a table that starts at `o` -/
def relCerts : List Bytes → Nat → List (Nat × Nat)
  | [], _ => []
  | c :: rest, o => (o + 4, c.length) :: relCerts rest (o + 4 + c.length)

theorem relCerts_shift : ∀ (certs : List Bytes) (o off : Nat),
    relCerts certs (off + o) = (relCerts certs o).map (fun p => (off + p.1, p.2))
  | [], _, _ => rfl
  | c :: rest, o, off => by
    simp only [relCerts, List.map_cons, List.cons.injEq, Prod.mk.injEq, and_true]
    refine ⟨by omega, ?_⟩
    have := relCerts_shift rest (o + 4 + c.length) off
    rw [← this]; congr 1; omega

/-- the ROM's walk over the length-prefixed certificate table -/
theorem certEntries_ok : ∀ (certs : List Bytes) (pre post : Bytes) (limit : Nat),
    (∀ c ∈ certs, 0 < c.length ∧ c.length < 256 ^ 4) →
    pre.length + certTableLength certs ≤ limit →
    certEntries (pre ++ ((certs.map (fun c => leEnc 4 c.length ++ c)).flatten ++ post)) certs.length pre.length limit
      = .ok (relCerts certs pre.length, pre.length + certTableLength certs)
  | [], pre, post, limit, _, _ => by simp [certEntries, relCerts, certTableLength]
  | c :: rest, pre, post, limit, h, hl => by
    obtain ⟨h0, h1⟩ := h c (by simp)
    have hctl : certTableLength (c :: rest) = c.length + 4 + certTableLength rest := by
      simp [certTableLength]
    rw [hctl] at hl
    have hrd : rd32 (pre ++ (((c :: rest).map (fun c => leEnc 4 c.length ++ c)).flatten ++ post)) pre.length = c.length := by
      simp only [List.map_cons, List.flatten_cons, List.append_assoc]
      exact rd32_at pre _ _ _ rfl h1
    have hre : pre ++ (((c :: rest).map (fun c => leEnc 4 c.length ++ c)).flatten ++ post) =
        (pre ++ leEnc 4 c.length ++ c) ++ ((rest.map (fun c => leEnc 4 c.length ++ c)).flatten ++ post) := by
      simp only [List.map_cons, List.flatten_cons, List.append_assoc]
    have hpl : (pre ++ leEnc 4 c.length ++ c).length = pre.length + 4 + c.length := by
      simp only [List.length_append, leEnc_len]
    have ih := certEntries_ok rest (pre ++ leEnc 4 c.length ++ c) post limit (fun x hx => h x (by simp [hx]))
      (by rw [hpl]; omega)
    rw [← hre, hpl] at ih
    have c1 : decide (pre.length + 4 ≤ limit) = true := by simp; omega
    have c2 : decide (c.length > 0 ∧ pre.length + 4 + c.length ≤ limit) = true := by simp; omega
    simp only [List.length_cons, certEntries, hrd, c1, c2, need_true, rbind_ok, ih, rpure_ok, relCerts, hctl]
    congr 2
    omega


/-- what the MBI ROM additionally requires of a well-formed v1 block: version 1.0, at most four non-empty certificates,
    and the block aligned to 4 (as `Mbi_MixinCertBlockV1` exports it) -/
structure RomWFv1 (cb : CertBlockV1) : Prop where
  major : cb.major = 1
  minor : cb.minor = 0
  count : cb.certs.length ≤ 4
  nonempty : ∀ c ∈ cb.certs, 0 < c.length
  align : cb.alignment = 4

theorem bytesV1_nested (cb : CertBlockV1) (pad : Bytes)
    (hpad : List.replicate (alignNat (bodyV1 cb).length cb.alignment - (bodyV1 cb).length) (0 : UInt8) = pad) :
    bytesV1 cb = G.cbV1Signature ++ (leEnc 2 cb.major ++ (leEnc 2 cb.minor ++ (leEnc 4 32 ++ (leEnc 4 cb.flags ++
      (leEnc 4 cb.buildNumber ++ (leEnc 4 cb.imageLength ++ (leEnc 4 cb.certs.length ++
      (leEnc 4 (certTableLength cb.certs) ++ ((cb.certs.map (fun c => leEnc 4 c.length ++ c)).flatten ++
        ((pad4 cb.rkh).flatten ++ pad)))))))))) := by
  unfold bytesV1; rw [hpad]; simp only [bodyV1, List.append_assoc]

theorem bodyV1_len_il (cb : CertBlockV1) (il : Nat) : (bodyV1 { cb with imageLength := il }).length = (bodyV1 cb).length := by
  simp only [bodyV1, List.length_append, leEnc_len]

/-- patching the `image_length` word of an exported block = exporting the block with that image length -/
theorem setImageLength_bytesV1 (cb : CertBlockV1) (il : Nat) :
    certSetImageLength (bytesV1 cb) il = bytesV1 { cb with imageLength := il } := by
  have hsig : G.cbV1Signature.length = 4 := rfl
  generalize hpad : List.replicate (alignNat (bodyV1 cb).length cb.alignment - (bodyV1 cb).length) (0 : UInt8) = pad
  have hpad' : List.replicate (alignNat (bodyV1 { cb with imageLength := il }).length cb.alignment -
      (bodyV1 { cb with imageLength := il }).length) (0 : UInt8) = pad := by rw [bodyV1_len_il]; exact hpad
  rw [bytesV1_nested cb pad hpad, bytesV1_nested { cb with imageLength := il } pad hpad']
  have e : ∀ (x t : Bytes), G.cbV1Signature ++ (leEnc 2 cb.major ++ (leEnc 2 cb.minor ++ (leEnc 4 32 ++ (leEnc 4 cb.flags ++
      (leEnc 4 cb.buildNumber ++ (x ++ t)))))) = (G.cbV1Signature ++ leEnc 2 cb.major ++ leEnc 2 cb.minor ++ leEnc 4 32 ++
      leEnc 4 cb.flags ++ leEnc 4 cb.buildNumber) ++ (x ++ t) := by intro x t; simp only [List.append_assoc]
  have hl : (G.cbV1Signature ++ leEnc 2 cb.major ++ leEnc 2 cb.minor ++ leEnc 4 32 ++
      leEnc 4 cb.flags ++ leEnc 4 cb.buildNumber).length = 20 := by simp only [List.length_append, leEnc_len, hsig]
  simp only [certSetImageLength, Mbi.setAt, Mbi.certImageLengthOffset, Mbi.le32]
  rw [e, e, List.take_left' hl, leEnc_len, show 20 + 4 = 20 + 4 from rfl, ← List.drop_drop, List.drop_left' hl,
    List.drop_left' (leEnc_len 4 _)]
  simp only [List.append_assoc]


theorem alignNat4 (n : Nat) : alignNat n 4 = MbiRom.align4 n := rfl

theorem table_of_pad4 (l : List Bytes) (hl : l.length ≤ 4) (h32 : ∀ h ∈ l, h.length = 32) :
    (List.range 4).map (fun i => sub (pad4 l).flatten (i * 32) ((i + 1) * 32)) = pad4 l := by
  obtain ⟨a, b, c, d, e⟩ := Rkht.list_eq4 (pad4 l) (pad4_len l hl)
  have hm := pad4_32 l h32
  rw [e] at hm ⊢
  have ha := hm a (by simp); have hb := hm b (by simp); have hc := hm c (by simp); have hd := hm d (by simp)
  have r : List.range 4 = [0, 1, 2, 3] := by decide
  simp only [r, List.map_cons, List.map_nil, List.flatten_cons, List.flatten_nil, List.append_nil]
  have s0 : sub (a ++ (b ++ (c ++ d))) (0 * 32) ((0 + 1) * 32) = a := sub_at [] a _ _ _ rfl (by simp [ha])
  have s1 : sub (a ++ (b ++ (c ++ d))) (1 * 32) ((1 + 1) * 32) = b := sub_at a b _ _ _ (by simp [ha]) (by simp [hb])
  have s2 : sub (a ++ (b ++ (c ++ d))) (2 * 32) ((2 + 1) * 32) = c := by
    have := sub_at (a ++ b) c d (2 * 32) ((2 + 1) * 32) (by simp [ha, hb]) (by simp [hc])
    simpa only [List.append_assoc] using this
  have s3 : sub (a ++ (b ++ (c ++ d))) (3 * 32) ((3 + 1) * 32) = d := by
    have := sub_at (a ++ b ++ c) d [] (3 * 32) ((3 + 1) * 32) (by simp [ha, hb, hc]) (by simp [hd])
    simpa only [List.append_assoc, List.append_nil] using this
  rw [s0, s1, s2, s3]

/-- MBI ROM (Spec/MbiRom.lean `romCertV1`, property C02): wherever a well-formed exported v1 block (with any `image_length`
    patched in) sits in an image, the walk accepts it against the fuse value SHA-256(RKH table), finds the certificates at
    their positions, the four-slot RKH table, the image length, and ends at `off + |block|` - this is `RomCertV1OK` -/
theorem mbi_romCertV1_ok {c : CryptoOps} {certOk : Bytes → Bool} {cb : CertBlockV1} (wf : WFv1 certOk cb) (rwf : RomWFv1 cb)
    (renv : Spec.MbiRom.RomEnv) (hrkth : renv.rkth = c.hash .sha256 (pad4 cb.rkh).flatten) :
    RomCertV1OK c renv (bytesV1 cb) (relCerts cb.certs 32) (pad4 cb.rkh) := by
  refine ⟨?_, ?_⟩
  · cases h : cb.certs with
    | nil => exact absurd h wf.certs_ne
    | cons a t => simp [relCerts]
  intro body off il hat hil
  rw [setImageLength_bytesV1] at hat
  have p16 : (65536 : Nat) = 256 ^ 2 := by decide
  have p32 : (2 : Nat) ^ 32 = 256 ^ 4 := by decide
  have hsig : G.cbV1Signature.length = 4 := rfl
  have wf' : WFv1 certOk { cb with imageLength := il } := { wf with image := hil }
  generalize hcb' : ({ cb with imageLength := il } : CertBlockV1) = cb' at hat wf'
  have f1 : cb'.major = 1 := by rw [← hcb']; exact rwf.major
  have f2 : cb'.minor = 0 := by rw [← hcb']; exact rwf.minor
  have f3 : cb'.certs = cb.certs := by rw [← hcb']
  have f4 : cb'.rkh = cb.rkh := by rw [← hcb']
  have f5 : cb'.alignment = 4 := by rw [← hcb']; exact rwf.align
  have f6 : cb'.imageLength = il := by rw [← hcb']
  have hlen' : (bytesV1 cb').length = (bytesV1 cb).length := by
    rw [← hcb']; simp only [bytesV1, List.length_append, List.length_replicate, bodyV1_len_il]
  have hne : bytesV1 cb' ≠ [] := by
    intro h; have := congrArg List.length h; rw [hlen'] at this
    have hb := bodyV1_len certOk cb wf
    simp only [bytesV1, List.length_append, List.length_nil] at this; omega
  obtain ⟨P, Q, himg, hP⟩ := certAt_split hat hne
  generalize hpad : List.replicate (alignNat (bodyV1 cb').length cb'.alignment - (bodyV1 cb').length) (0 : UInt8) = pad
  rw [bytesV1_nested cb' pad hpad] at himg
  have hmaj : cb'.major < 256 ^ 2 := by rw [f1]; decide
  have hmin : cb'.minor < 256 ^ 2 := by rw [f2]; decide
  have hcount : cb'.certs.length < 256 ^ 4 := by rw [← p32]; exact wf'.count
  have hctl : certTableLength cb'.certs < 256 ^ 4 := by rw [← p32]; exact wf'.table
  have hil' : cb'.imageLength < 256 ^ 4 := by rw [← p32]; exact wf'.image
  have hT : (pad4 cb'.rkh).flatten.length = 128 := by
    rw [flatten32 _ (pad4_32 _ wf'.rkh), pad4_len _ wf'.rkh_len]
  have hcb : (cb'.certs.map (fun c => leEnc 4 c.length ++ c)).flatten.length = certTableLength cb'.certs := certsBytes_len _
  have r1 : sub body off (off + 4) = G.cbV1Signature := by
    rw [himg]; exact sub_at P _ _ _ _ hP (by rw [hsig])
  have r2 : rd16 body (off + 4) = cb'.major := by
    rw [himg, show ∀ t : Bytes, P ++ (G.cbV1Signature ++ (leEnc 2 cb'.major ++ t) ++ Q) =
      (P ++ G.cbV1Signature) ++ (leEnc 2 cb'.major ++ (t ++ Q)) from by intro t; simp only [List.append_assoc]]
    exact rd16_at _ _ _ _ (by simp only [List.length_append, hP, hsig]) hmaj
  have r3 : rd16 body (off + 6) = cb'.minor := by
    rw [himg, show ∀ t : Bytes, P ++ (G.cbV1Signature ++ (leEnc 2 cb'.major ++ (leEnc 2 cb'.minor ++ t)) ++ Q) =
      (P ++ G.cbV1Signature ++ leEnc 2 cb'.major) ++ (leEnc 2 cb'.minor ++ (t ++ Q)) from by intro t; simp only [List.append_assoc]]
    exact rd16_at _ _ _ _ (by simp only [List.length_append, hP, hsig, leEnc_len]) hmin
  have r4 : rd32 body (off + 8) = 32 := by
    rw [himg, show ∀ t : Bytes, P ++ (G.cbV1Signature ++ (leEnc 2 cb'.major ++ (leEnc 2 cb'.minor ++ (leEnc 4 32 ++ t))) ++ Q) =
      (P ++ G.cbV1Signature ++ leEnc 2 cb'.major ++ leEnc 2 cb'.minor) ++ (leEnc 4 32 ++ (t ++ Q)) from by
        intro t; simp only [List.append_assoc]]
    exact rd32_at _ _ _ _ (by simp only [List.length_append, hP, hsig, leEnc_len]) (by decide)
  have r5 : rd32 body (off + 20) = cb'.imageLength := by
    rw [himg, show ∀ t : Bytes, P ++ (G.cbV1Signature ++ (leEnc 2 cb'.major ++ (leEnc 2 cb'.minor ++ (leEnc 4 32 ++
      (leEnc 4 cb'.flags ++ (leEnc 4 cb'.buildNumber ++ (leEnc 4 cb'.imageLength ++ t)))))) ++ Q) =
      (P ++ G.cbV1Signature ++ leEnc 2 cb'.major ++ leEnc 2 cb'.minor ++ leEnc 4 32 ++ leEnc 4 cb'.flags ++ leEnc 4 cb'.buildNumber)
        ++ (leEnc 4 cb'.imageLength ++ (t ++ Q)) from by intro t; simp only [List.append_assoc]]
    exact rd32_at _ _ _ _ (by simp only [List.length_append, hP, hsig, leEnc_len]) hil'
  have r6 : rd32 body (off + 24) = cb'.certs.length := by
    rw [himg, show ∀ t : Bytes, P ++ (G.cbV1Signature ++ (leEnc 2 cb'.major ++ (leEnc 2 cb'.minor ++ (leEnc 4 32 ++
      (leEnc 4 cb'.flags ++ (leEnc 4 cb'.buildNumber ++ (leEnc 4 cb'.imageLength ++ (leEnc 4 cb'.certs.length ++ t))))))) ++ Q) =
      (P ++ G.cbV1Signature ++ leEnc 2 cb'.major ++ leEnc 2 cb'.minor ++ leEnc 4 32 ++ leEnc 4 cb'.flags ++ leEnc 4 cb'.buildNumber
        ++ leEnc 4 cb'.imageLength) ++ (leEnc 4 cb'.certs.length ++ (t ++ Q)) from by intro t; simp only [List.append_assoc]]
    exact rd32_at _ _ _ _ (by simp only [List.length_append, hP, hsig, leEnc_len]) hcount
  have r7 : rd32 body (off + 28) = certTableLength cb'.certs := by
    rw [himg, show ∀ t : Bytes, P ++ (G.cbV1Signature ++ (leEnc 2 cb'.major ++ (leEnc 2 cb'.minor ++ (leEnc 4 32 ++
      (leEnc 4 cb'.flags ++ (leEnc 4 cb'.buildNumber ++ (leEnc 4 cb'.imageLength ++ (leEnc 4 cb'.certs.length ++
      (leEnc 4 (certTableLength cb'.certs) ++ t)))))))) ++ Q) =
      (P ++ G.cbV1Signature ++ leEnc 2 cb'.major ++ leEnc 2 cb'.minor ++ leEnc 4 32 ++ leEnc 4 cb'.flags ++ leEnc 4 cb'.buildNumber
        ++ leEnc 4 cb'.imageLength ++ leEnc 4 cb'.certs.length) ++ (leEnc 4 (certTableLength cb'.certs) ++ (t ++ Q)) from by
        intro t; simp only [List.append_assoc]]
    exact rd32_at _ _ _ _ (by simp only [List.length_append, hP, hsig, leEnc_len]) hctl
  -- the part behind the 32-byte header
  have hbody : body = (P ++ G.cbV1Signature ++ leEnc 2 cb'.major ++ leEnc 2 cb'.minor ++ leEnc 4 32 ++ leEnc 4 cb'.flags ++
      leEnc 4 cb'.buildNumber ++ leEnc 4 cb'.imageLength ++ leEnc 4 cb'.certs.length ++ leEnc 4 (certTableLength cb'.certs)) ++
      ((cb'.certs.map (fun c => leEnc 4 c.length ++ c)).flatten ++ ((pad4 cb'.rkh).flatten ++ (pad ++ Q))) := by
    rw [himg]; simp only [List.append_assoc]
  have hpre : (P ++ G.cbV1Signature ++ leEnc 2 cb'.major ++ leEnc 2 cb'.minor ++ leEnc 4 32 ++ leEnc 4 cb'.flags ++
      leEnc 4 cb'.buildNumber ++ leEnc 4 cb'.imageLength ++ leEnc 4 cb'.certs.length ++ leEnc 4 (certTableLength cb'.certs)).length
      = off + 32 := by simp only [List.length_append, hP, hsig, leEnc_len]
  have hce := certEntries_ok cb'.certs _ ((pad4 cb'.rkh).flatten ++ (pad ++ Q)) (off + 32 + certTableLength cb'.certs)
    (fun x hx => ⟨by rw [f3] at hx; exact rwf.nonempty x hx, by rw [← p32]; exact (wf'.certs x hx).1⟩) (by rw [hpre]; exact Nat.le_refl _)
  rw [← hbody, hpre] at hce
  have hbl : body.length = off + 32 + certTableLength cb'.certs + 128 + pad.length + Q.length := by
    rw [hbody]; simp only [List.length_append, hpre, hcb, hT]; omega
  have rT : sub body (off + 32 + certTableLength cb'.certs) (off + 32 + certTableLength cb'.certs + 4 * 32) = (pad4 cb'.rkh).flatten := by
    rw [hbody, show ∀ (a b c d : Bytes), a ++ (b ++ (c ++ d)) = (a ++ b) ++ (c ++ d) from by intros; simp only [List.append_assoc]]
    exact sub_at _ _ _ _ _ (by simp only [List.length_append, hpre, hcb]) (by rw [hT])
  have hmag : (G.cbV1Signature == MbiRom.certV1Magic) = true := by decide
  have n0 : off + 32 ≤ body.length := by rw [hbl]; omega
  have ncnt : 1 ≤ cb'.certs.length ∧ cb'.certs.length ≤ 4 := by
    rw [f3]; refine ⟨?_, rwf.count⟩
    cases h : cb.certs with
    | nil => exact absurd h wf.certs_ne
    | cons a t => simp
  have nrk : off + 32 + certTableLength cb'.certs + 4 * 32 ≤ body.length := by rw [hbl]; omega
  have hh : (c.hash .sha256 (pad4 cb'.rkh).flatten == renv.rkth) = true := by rw [hrkth, f4]; simp
  simp only [romCertV1, MbiRom.certV1HeaderSize, MbiRom.rkhTableEntries, MbiRom.rkhSize, n0, decide_true, need_true, rbind_ok,
    r1, hmag, r2, r3, r4, f1, f2, beq_self_eq_true, and_self, r5, r6, r7, ncnt, hce, nrk, rT, hh, rpure_ok]
  refine ⟨_, rfl, ?_, ?_, f6, ?_⟩
  · simp only [f3]; exact relCerts_shift cb.certs 32 off
  · simp only [f4]; exact table_of_pad4 cb.rkh wf.rkh_len wf.rkh
  · simp only
    have hb := bodyV1_len certOk cb wf
    have : (bytesV1 cb).length = alignNat (32 + certTableLength cb.certs + 128) 4 := by
      have ha := (alignNat_spec (bodyV1 cb).length cb.alignment wf.align).2.1
      simp only [bytesV1, List.length_append, List.length_replicate]
      rw [Nat.add_sub_cancel' ha, hb, rwf.align]
    have e : off + 32 + certTableLength cb.certs + 4 * 32 - off = 32 + certTableLength cb.certs + 128 := by omega
    rw [this, alignNat4, f3, e]

end MbiRomV1

section EndToEnd
open SpsdkVerif.Rkht
open SpsdkVerif.Mbi (RomCertV21OK RomCertV1OK)

/-! ### end to end: blocks built from root keys are accepted against `Spec.rotkh` -/

theorem hashAlg_of_curve {k : Key} {cv : Curve} (h : k.curve? = some cv) : k.hashAlg = cv.hashAlg := by
  obtain ⟨x, y, rfl⟩ := key_of_curve h; rfl

/-- the fuse value of a calculated root key record is the documented cert-block-2.1 value of the key list -/
theorem rotkhOfRecord_calculated (c : CryptoOps) (ks : List Key) (cv : Curve) (ku : Key) (used : Nat) (flags : Nat)
    (h1 : 1 ≤ ks.length) (hku : ks[used]? = some ku) (hu : used < ks.length) (hall : ∀ k ∈ ks, k.curve? = some cv) :
    rotkhOfRecord c cv { flags := flags, rkh := ks.map (keyHash c), rootPublicKey := ku.material } = Spec.rotkh c .certBlock21 ks := by
  have e : Spec.rotkh c .certBlock21 ks = rotkhV21 c ks := by simp [Spec.rotkh, rotkhCa, List.map_map, Function.comp_def]
  rw [e]
  cases ks with
  | nil => simp at h1
  | cons k0 rest =>
    cases rest with
    | nil =>
      have h0 : used = 0 := by simp at hu; omega
      subst h0
      simp only [List.getElem?_cons_zero, Option.some.injEq] at hku
      subst hku
      have hh := hashAlg_of_curve (hall k0 (by simp))
      simp [rotkhOfRecord, rotkhV21, keyHash, hh]
    | cons k1 r =>
      simp [rotkhOfRecord, rotkhV21, ctrkTable, hashAlg_of_curve (hall k0 (by simp))]

theorem romWF_calculated (c : CryptoOps) (ks : List Key) (cv : Curve) (ku : Key) (used : Nat) (flags : Nat) (isk : Option IskCert)
    (hku : ks[used]? = some ku) (hu : used < ks.length) (hall : ∀ k ∈ ks, k.curve? = some cv) :
    RomWF c used cv ⟨2, 1, { flags := flags, rkh := ks.map (keyHash c), rootPublicKey := ku.material }, isk⟩ where
  major := rfl
  minor := rfl
  used_lt := by simpa using hu
  entry := by
    intro _
    have hm : ku ∈ ks := List.mem_of_getElem? hku
    simp only [List.getElem?_map, hku, Option.map_some, keyHash, hashAlg_of_curve (hall ku hm)]


theorem exportV21_len_le {c : CryptoOps} {ca : Bool} {used : Nat} {cv : Curve} {r : RootKeyRecord} (wr : WFrkr c ca used cv r) :
    (rkrBytes r).length ≤ 4 + 4 * 48 + 96 := by
  have hs : cv.hashAlg.size ≤ 48 := by
    cases cv with
    | p256 => decide
    | p384 => decide
    | p521 => exact absurd rfl wr.cv_ok
  have hfl := Rkht.flatten_lenN _ _ wr.rkh
  have : (exportV21 r.rkh).length ≤ 4 * 48 := by
    simp only [exportV21]; split
    · rw [hfl]; have := Nat.mul_le_mul hs wr.count4; omega
    · simp
  simp only [rkrBytes, List.length_append, leEnc_len, wr.pk]; omega

/-- a block without ISK certificate around a well-formed record is well formed -/
theorem wf_caBlock {c : CryptoOps} (pointOk : Bytes → Bool) {used : Nat} {cv : Curve} {r : RootKeyRecord}
    (wr : WFrkr c true used cv r) : WFv21 c pointOk true used cv ⟨2, 1, r, none⟩ where
  major := by show 2 < 65536; decide
  minor := by show 1 < 65536; decide
  rkr := wr
  isk_none := fun _ => rfl
  isk_some := fun h => by cases h
  size := by have := exportV21_len_le wr; simp only [headerSizeV21]; omega

/-- END TO END (cert block v2.1, no ISK): the block SPSDK builds from a key list of the documented domain
    (`RootKeyRecord.calculate`, CA flag set, any used index) is accepted by the SB3.1 loader and by the MBI ROM against the
    documented fuse value `Spec.rotkh … cert_block_21 ks`, and both report the selected root key as the signing key -/
theorem built_v21_block_accepted (c : CryptoOps) (hc : CryptoLaws c) (ks : List Key) (h : KeysOK .certBlock21 ks)
    (used : Nat) (hu : used < ks.length) :
    ∃ (r : RootKeyRecord) (cv : Curve) (ku : Key), rkrCalculate c true ks used = .ok r ∧ ks[used]? = some ku ∧
      exportV21Block ⟨2, 1, r, none⟩ = .ok (bytesV21 ⟨2, 1, r, none⟩) ∧
      Sb31.Rom.romCert c (Spec.rotkh c .certBlock21 ks) (bytesV21 ⟨2, 1, r, none⟩) = .ok (⟨ku.material, cv.hashAlg.size⟩, []) ∧
      ∀ renv : Spec.MbiRom.RomEnv, renv.rkth = Spec.rotkh c .certBlock21 ks →
        RomCertV21OK c renv (bytesV21 ⟨2, 1, r, none⟩) ku.material.length ku.material (fun _ _ => []) := by
  obtain ⟨h1, h4, _, _⟩ := keysOK_cb21 h
  obtain ⟨cv, ku, hcv, hku, hkc, hall, hcalc⟩ := rkrCalculate_ok c hc ks h used hu true
  have wr := wf_calculated c hc ks cv ku used true hcv h1 h4 hu hku hkc hall
  have wf := wf_caBlock (c := c) (fun _ => true) wr
  have rw_ := romWF_calculated c ks cv ku used (rkrFlags true used ks.length cv) none hku hu hall
  have hrot := rotkhOfRecord_calculated c ks cv ku used (rkrFlags true used ks.length cv) h1 hku hu hall
  refine ⟨_, cv, ku, hcalc, hku, exportV21Block_ok wf, ?_, ?_⟩
  · have := sb31_romCert_accepts wf rw_ (fun i hi => by cases hi)
    rw [hrot] at this
    exact this
  · intro renv hr
    have := mbi_romCertV21_ok wf rw_ renv (by rw [hr, hrot])
    exact this

/-- the ISK signature made by the selected root key verifies: the hypothesis of `sb31_romCert_accepts` for a block whose
    ISK certificate was signed at export (`CryptoLaws.verify_sign`) -/
theorem isk_signature_accepted (c : CryptoOps) (hc : CryptoLaws c) (alg : HashAlg) (sk rand : Bytes) (r : RootKeyRecord) (i : IskCert)
    (hpub : r.rootPublicKey = c.pubOf sk) (hs : i.signature = c.sign (.ecdsa alg) sk (rkrBytes r ++ iskSignedPart i) rand) :
    c.verify (.ecdsa alg) r.rootPublicKey (rkrBytes r ++ iskSignedPart i) i.signature = true := by
  rw [hpub, hs]; exact hc.verify_sign _ _ _ _

/-- the signed part does not mention the signature: signing first and attaching the signature afterwards is consistent -/
theorem iskSignedPart_sig (i : IskCert) (s : Bytes) : iskSignedPart { i with signature := s } = iskSignedPart i := rfl

/-- END TO END (cert block v1): the fuse value the MBI ROM compares the RKH table with is the documented
    `Spec.rotkh … cert_block_1 ks` when the table holds the hashes `CertBlockV1.set_root_key_hash` computes -/
theorem built_v1_block_accepted (c : CryptoOps) (hc : CryptoLaws c) (ks : List Key) (h : KeysOK .certBlock1 ks)
    {certOk : Bytes → Bool} {cb : CertBlockV1} (wf : WFv1 certOk cb) (rwf : RomWFv1 cb)
    (hrkh : certBlockV1Rkh c ks = .ok cb.rkh) (renv : Spec.MbiRom.RomEnv) (hr : renv.rkth = Spec.rotkh c .certBlock1 ks) :
    RomCertV1OK c renv (bytesV1 cb) (relCerts cb.certs 32) (pad4 cb.rkh) := by
  apply mbi_romCertV1_ok wf rwf renv
  obtain ⟨_, h4, hk⟩ := keysOK_cb1 h
  have hs := setAll_ok c hc ks [] (by simpa using h4) (fun k hk' => (hk k hk').1) (by simp)
  have hm : ks.map (fun k => c.hash .sha256 k.material) = ks.map (keyHash c) := by
    apply List.map_congr_left
    intro k hk'
    simp only [keyHash, hashAlg_rsa (hk k hk').2]
  simp only [List.length_nil, List.nil_append] at hs
  rw [certBlockV1Rkh, hs, hm] at hrkh
  have hrk : cb.rkh = ks.map (keyHash c) := by injection hrkh with e; exact e.symm
  rw [hr, hrk]
  simp [Spec.rotkh, rotkhCa, rotkhV1, rkhTableV1, pad4, List.map_map, Function.comp_def]

/-- NEGATIVE, as a reduction: a device fused for the key list `ks` accepts (SB3.1 loader) the block SPSDK builds from a key
    list `ks'` of the same length only if `ks' = ks` - or the proof exhibits a hash collision -/
theorem rom_refuses_other_keys (c : CryptoOps) (hc : CryptoLaws c) (ks ks' : List Key) (h : KeysOK .certBlock21 ks)
    (h' : KeysOK .certBlock21 ks') (hl : ks'.length = ks.length) (used : Nat) (hu : used < ks'.length)
    (r' : RootKeyRecord) (hcalc : rkrCalculate c true ks' used = .ok r')
    (x : Sb31.Rom.CertInfo × List Sb31.Rom.SigOb)
    (hacc : Sb31.Rom.romCert c (Spec.rotkh c .certBlock21 ks) (bytesV21 ⟨2, 1, r', none⟩) = .ok x) :
    ks' = ks ∨ Crypto.Break c := by
  obtain ⟨h1, h4, _, _⟩ := keysOK_cb21 h'
  obtain ⟨cv, ku, hcv, hku, hkc, hall, hcalc'⟩ := rkrCalculate_ok c hc ks' h' used hu true
  rw [hcalc] at hcalc'
  injection hcalc' with hr
  subst hr
  have wr := wf_calculated c hc ks' cv ku used true hcv h1 h4 hu hku hkc hall
  have wf := wf_caBlock (c := c) (fun _ => true) wr
  have rw_ := romWF_calculated c ks' cv ku used (rkrFlags true used ks'.length cv) none hku hu hall
  have hrot := rotkhOfRecord_calculated c ks' cv ku used (rkrFlags true used ks'.length cv) h1 hku hu hall
  have := sb31_romCert_ok_rot wf rw_ (fun i hi => by cases hi) _ x hacc
  rw [hrot] at this
  have e : ∀ l, Spec.rotkh c .certBlock21 l = rotkhV21 c l := by
    intro l; simp [Spec.rotkh, rotkhCa, List.map_map, Function.comp_def]
  rw [e, e] at this
  exact rotkhV21_binding c hc ks' ks h' h hl this.symm

end EndToEnd

end SpsdkVerif.CertBlock
