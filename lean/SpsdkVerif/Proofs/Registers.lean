/- Helper lemmas for Properties/C11.lean. -/
import SpsdkVerif.Model.Registers

namespace SpsdkVerif.Regs
open SpsdkVerif SpsdkVerif.Misc

/-! ### generic `Nat` bit lemmas -/

theorem testBit_eq_false_of_lt {x n k : Nat} (h : x < 2 ^ n) (hk : n ≤ k) : x.testBit k = false :=
  Nat.testBit_lt_two_pow (Nat.lt_of_lt_of_le h (Nat.pow_le_pow_right (by decide) hk))

theorem add_eq_or_of_and_eq_zero : ∀ (a b : Nat), a &&& b = 0 → a + b = a ||| b := by
  intro a
  induction a using Nat.strongRecOn with
  | ind a ih =>
    intro b h
    by_cases ha : a = 0
    · subst ha; simp
    · have h2 : a / 2 &&& b / 2 = 0 := by rw [← Nat.and_div_two, h]
      have h3 := ih (a / 2) (by omega) (b / 2) h2
      have hm : ¬ (a % 2 = 1 ∧ b % 2 = 1) := by
        rw [← Nat.and_mod_two_eq_one, h]; simp
      have e1 : (a ||| b) / 2 = a / 2 ||| b / 2 := Nat.or_div_two
      have e2 := @Nat.or_mod_two_eq_one a b
      omega

/-- truncated subtraction of a bitwise subset clears exactly those bits -/
theorem sub_and_eq_xor (a m : Nat) : a - (a &&& m) = a ^^^ (a &&& m) := by
  have hd : (a &&& m) &&& (a ^^^ (a &&& m)) = 0 := by
    apply Nat.eq_of_testBit_eq; intro k
    simp only [Nat.testBit_and, Nat.testBit_xor, Nat.zero_testBit]
    cases a.testBit k <;> cases m.testBit k <;> rfl
  have ho : (a &&& m) ||| (a ^^^ (a &&& m)) = a := by
    apply Nat.eq_of_testBit_eq; intro k
    simp only [Nat.testBit_and, Nat.testBit_xor, Nat.testBit_or]
    cases a.testBit k <;> cases m.testBit k <;> rfl
  have := add_eq_or_of_and_eq_zero _ _ hd
  rw [ho] at this
  omega

theorem testBit_sub_and (a m k : Nat) : (a - (a &&& m)).testBit k = (a.testBit k && !m.testBit k) := by
  rw [sub_and_eq_xor]
  simp only [Nat.testBit_and, Nat.testBit_xor]
  cases a.testBit k <;> cases m.testBit k <;> rfl

theorem testBit_mask (w k : Nat) : (mask w).testBit k = decide (k < w) := by
  simp [mask, Nat.testBit_two_pow_sub_one]

theorem testBit_mask_shl (w off k : Nat) :
    (mask w <<< off).testBit k = (decide (off ≤ k) && decide (k - off < w)) := by
  simp [Nat.testBit_shiftLeft, testBit_mask]

theorem two_pow_eq_256_pow (w : Nat) (h8 : w % 8 = 0) : 2 ^ w = 256 ^ (w / 8) := by
  have : w = 8 * (w / 8) := by omega
  conv => lhs; rw [this, Nat.pow_mul]

/-! ### `insertBits` -/

theorem testBit_insertBits (rv off w v k : Nat) :
    (insertBits rv off w v).testBit k =
      if off ≤ k ∧ k < off + w then v.testBit (k - off) else rv.testBit k := by
  unfold insertBits
  simp only [Nat.testBit_or, testBit_sub_and, Nat.testBit_and, Nat.testBit_shiftLeft, testBit_mask]
  by_cases h1 : off ≤ k
  · by_cases h2 : k - off < w
    · have : off ≤ k ∧ k < off + w := ⟨h1, by omega⟩
      rw [if_pos this]; simp [h1, h2]
    · have : ¬ (off ≤ k ∧ k < off + w) := by omega
      rw [if_neg this]; simp [h1, h2]
  · have : ¬ (off ≤ k ∧ k < off + w) := by omega
    rw [if_neg this]; simp [h1]

theorem insertBits_lt (rv off w v W : Nat) (hrv : rv < 2 ^ W) (hin : off + w ≤ W) :
    insertBits rv off w v < 2 ^ W := by
  apply Nat.lt_pow_two_of_testBit
  intro k hk
  rw [testBit_insertBits]
  have : ¬ (off ≤ k ∧ k < off + w) := by omega
  simp only [this, if_false]
  exact testBit_eq_false_of_lt hrv hk

/-! ### big/little-endian encode / decode (own copies; Proofs/Misc.lean is not imported) -/

theorem beEnc_length (n v : Nat) : (beEnc n v).length = n := by
  induction n generalizing v with
  | zero => rfl
  | succ n ih => simp [beEnc, ih]

theorem beDec_append_singleton (l : Bytes) (x : UInt8) : beDec (l ++ [x]) = beDec l * 256 + x.toNat := by
  simp [beDec, List.foldl_append]

theorem beDec_beEnc_mod (n v : Nat) : beDec (beEnc n v) = v % 256 ^ n := by
  induction n generalizing v with
  | zero => simp [beEnc, beDec, Nat.mod_one]
  | succ n ih =>
    rw [beEnc, beDec_append_singleton, ih, Nat.pow_succ, Nat.mul_comm (256 ^ n) 256, Nat.mod_mul]
    have : (UInt8.ofNat (v % 256)).toNat = v % 256 := by
      rw [UInt8.toNat_ofNat']; omega
    rw [this]; omega

theorem beDec_beEnc (n v : Nat) (h : v < 256 ^ n) : beDec (beEnc n v) = v := by
  rw [beDec_beEnc_mod, Nat.mod_eq_of_lt h]

theorem beDec_reverse_lt (l : Bytes) : beDec l.reverse < 256 ^ l.length := by
  induction l with
  | nil => simp [beDec]
  | cons x l ih =>
    rw [List.reverse_cons, beDec_append_singleton, List.length_cons, Nat.pow_succ]
    have := x.toNat_lt
    omega

theorem beDec_lt (l : Bytes) : beDec l < 256 ^ l.length := by
  have := beDec_reverse_lt l.reverse
  simpa using this

theorem beEnc_beDec_reverse (l : Bytes) : beEnc l.length (beDec l.reverse) = l.reverse := by
  induction l with
  | nil => simp [beEnc]
  | cons x l ih =>
    rw [List.reverse_cons, beDec_append_singleton, List.length_cons, beEnc]
    have := x.toNat_lt
    have e1 : (beDec l.reverse * 256 + x.toNat) / 256 = beDec l.reverse := by omega
    have e2 : (beDec l.reverse * 256 + x.toNat) % 256 = x.toNat := by omega
    rw [e1, e2, ih, UInt8.ofNat_toNat]

theorem beEnc_beDec (l : Bytes) : beEnc l.length (beDec l) = l := by
  have := beEnc_beDec_reverse l.reverse
  simpa using this

theorem leDec_leEnc (n v : Nat) (h : v < 256 ^ n) : leDec (leEnc n v) = v := by
  simp [leDec, leEnc, beDec_beEnc n v h]

theorem leEnc_length (n v : Nat) : (leEnc n v).length = n := by
  simp [leEnc, beEnc_length]

/-! ### `brev` -/

theorem brev_eq (w v : Nat) (h8 : w % 8 = 0) (hv : v < 2 ^ w) :
    brev w v = some (leDec (beEnc (w / 8) v)) := by
  rw [two_pow_eq_256_pow w h8] at hv
  simp [brev, hv]

theorem leDec_beEnc_lt (n v : Nat) : leDec (beEnc n v) < 256 ^ n := by
  have := beDec_lt (beEnc n v).reverse
  simpa [leDec, beEnc_length] using this

theorem leDec_beEnc_invol (n v : Nat) (hv : v < 256 ^ n) :
    leDec (beEnc n (leDec (beEnc n v))) = v := by
  have h := beEnc_beDec_reverse (beEnc n v)
  rw [beEnc_length] at h
  simp only [leDec]
  rw [h, List.reverse_reverse, beDec_beEnc n v hv]

theorem brev_invol' (w v : Nat) (h8 : w % 8 = 0) (hv : v < 2 ^ w) :
    ∃ x, brev w v = some x ∧ x < 2 ^ w ∧ brev w x = some v := by
  have hx : leDec (beEnc (w / 8) v) < 2 ^ w := by
    rw [two_pow_eq_256_pow w h8]; exact leDec_beEnc_lt _ _
  refine ⟨_, brev_eq w v h8 hv, hx, ?_⟩
  rw [brev_eq w _ h8 hx, leDec_beEnc_invol]
  rw [← two_pow_eq_256_pow w h8]; exact hv

/-! ### plain registers -/

theorem isGroup_false (r : Reg) (hp : r.subW = 0) : r.isGroup = false := by
  simp [Reg.isGroup, hp]

theorem isGroup_true (r : Reg) (hp : 0 < r.subW) : r.isGroup = true := by
  simp [Reg.isGroup]; omega

theorem get_plain (r : Reg) (raw : Bool) (hp : r.subW = 0) (hn : r.reverse = false) :
    r.get raw = .ok r.value := by
  simp [Reg.get, isGroup_false r hp, hn]

theorem set_plain (r : Reg) (v : Nat) (raw : Bool) (hp : r.subW = 0) (hn : r.reverse = false)
    (hv : v < 2 ^ r.width) : r.set v raw = .ok { r with value := v } := by
  have : ¬ (v ≥ 2 ^ r.width) := by omega
  simp [Reg.set, isGroup_false r hp, hn, this]

theorem set_reject (r : Reg) (v : Nat) (raw : Bool) (hv : 2 ^ r.width ≤ v) : r.set v raw = .error .spsdk := by
  simp [Reg.set, hv]

theorem set_plain_inv (r r' : Reg) (v : Nat) (raw : Bool) (hp : r.subW = 0) (hn : r.reverse = false)
    (hs : r.set v raw = .ok r') : v < 2 ^ r.width ∧ r' = { r with value := v } := by
  by_cases hv : v < 2 ^ r.width
  · rw [set_plain r v raw hp hn hv] at hs
    exact ⟨hv, by cases hs; rfl⟩
  · rw [set_reject r v raw (by omega)] at hs
    cases hs

theorem fieldGet_plain (r : Reg) (f : Field) (hp : r.subW = 0) (hn : r.reverse = false) :
    fieldGet r f = .ok (((r.value >>> f.offset) &&& mask f.width) <<< f.shift) := by
  simp [fieldGet, get_plain r false hp hn]

theorem fieldGet_plain_upd (r : Reg) (f : Field) (x : Nat) (hp : r.subW = 0) (hn : r.reverse = false) :
    fieldGet { r with value := x } f = .ok (((x >>> f.offset) &&& mask f.width) <<< f.shift) :=
  fieldGet_plain { r with value := x } f hp hn

theorem fieldSet_reject (r : Reg) (f : Field) (v : Nat) (raw : Bool) (hv : 2 ^ f.width ≤ v >>> f.shift) :
    fieldSet r f v raw false = .error .spsdk := by
  simp [fieldSet, hv]

theorem fieldSet_plain (r : Reg) (f : Field) (v : Nat) (raw : Bool) (hp : r.subW = 0) (hn : r.reverse = false)
    (hv : v >>> f.shift < 2 ^ f.width) :
    fieldSet r f v raw false = r.set (insertBits r.value f.offset f.width (v >>> f.shift)) raw := by
  have : ¬ (v >>> f.shift ≥ 2 ^ f.width) := by omega
  simp [fieldSet, get_plain r raw hp hn, this]

theorem fieldSet_plain_ok (r : Reg) (f : Field) (v : Nat) (raw : Bool) (hp : r.subW = 0) (hn : r.reverse = false)
    (hb : r.value < 2 ^ r.width) (hin : f.offset + f.width ≤ r.width) (hv : v >>> f.shift < 2 ^ f.width) :
    fieldSet r f v raw false =
      .ok { r with value := insertBits r.value f.offset f.width (v >>> f.shift) } := by
  rw [fieldSet_plain r f v raw hp hn hv, set_plain r _ raw hp hn]
  exact insertBits_lt _ _ _ _ _ hb hin

theorem fieldSet_plain_inv (r r' : Reg) (f : Field) (v : Nat) (raw : Bool) (hp : r.subW = 0)
    (hn : r.reverse = false) (hs : fieldSet r f v raw false = .ok r') :
    v >>> f.shift < 2 ^ f.width ∧
      insertBits r.value f.offset f.width (v >>> f.shift) < 2 ^ r.width ∧
      r' = { r with value := insertBits r.value f.offset f.width (v >>> f.shift) } := by
  by_cases hv : v >>> f.shift < 2 ^ f.width
  · rw [fieldSet_plain r f v raw hp hn hv] at hs
    exact ⟨hv, set_plain_inv r r' _ raw hp hn hs⟩
  · rw [fieldSet_reject r f v raw (by omega)] at hs
    cases hs

/-- a field slice only depends on the bits of the field -/
theorem slice_congr (a b off w : Nat) (h : ∀ k, off ≤ k → k < off + w → a.testBit k = b.testBit k) :
    (a >>> off) &&& mask w = (b >>> off) &&& mask w := by
  apply Nat.eq_of_testBit_eq; intro k
  simp only [Nat.testBit_and, Nat.testBit_shiftRight, testBit_mask]
  by_cases hk : k < w
  · rw [h (off + k) (by omega) (by omega)]
  · simp [hk]

theorem slice_insertBits_same (rv off w v : Nat) (hv : v < 2 ^ w) :
    (insertBits rv off w v >>> off) &&& mask w = v := by
  apply Nat.eq_of_testBit_eq; intro k
  simp only [Nat.testBit_and, Nat.testBit_shiftRight, testBit_mask, testBit_insertBits]
  by_cases hk : k < w
  · have : off ≤ off + k ∧ off + k < off + w := by omega
    simp [hk]
  · simp [hk]
    exact testBit_eq_false_of_lt hv (by omega)

theorem slice_insertBits_disjoint (rv off w v off' w' : Nat)
    (hd : off + w ≤ off' ∨ off' + w' ≤ off) :
    (insertBits rv off w v >>> off') &&& mask w' = (rv >>> off') &&& mask w' := by
  apply slice_congr
  intro k h1 h2
  rw [testBit_insertBits]
  have : ¬ (off ≤ k ∧ k < off + w) := by omega
  rw [if_neg this]

/-! ### register-file operations: what a successful step does to each register -/

theorem updAt_inv (rf rf' : RegFile) (i : Nat) (g : Reg → PyRes Reg) (h : updAt rf i g = .ok rf') :
    ∃ r r', rf[i]? = some r ∧ g r = .ok r' ∧ rf' = rf.set i r' := by
  unfold updAt at h
  split at h
  · cases h
  · rename_i r hr
    split at h
    · cases h
    · rename_i r' hg
      cases h
      exact ⟨r, r', hr, hg, rfl⟩

theorem updAt_getElem?_ne (rf rf' : RegFile) (i k : Nat) (g : Reg → PyRes Reg) (h : updAt rf i g = .ok rf')
    (hk : i ≠ k) : rf'[k]? = rf[k]? := by
  obtain ⟨r, r', _, _, rfl⟩ := updAt_inv rf rf' i g h
  simp [List.getElem?_set, hk]

theorem updAt_getElem?_eq (rf rf' : RegFile) (i : Nat) (g : Reg → PyRes Reg) (h : updAt rf i g = .ok rf') :
    ∃ r r', rf[i]? = some r ∧ g r = .ok r' ∧ rf'[i]? = some r' := by
  obtain ⟨r, r', hr, hg, rfl⟩ := updAt_inv rf rf' i g h
  refine ⟨r, r', hr, hg, ?_⟩
  have : i < rf.length := by
    rcases Nat.lt_or_ge i rf.length with h | h
    · exact h
    · rw [List.getElem?_eq_none h] at hr; cases hr
  simp [List.getElem?_set, this]

/-- pointwise relation between two lists of the same length (core has no `List.Forall₂`) -/
inductive Forall2 {α : Type} (R : α → α → Prop) : List α → List α → Prop
  | nil : Forall2 R [] []
  | cons {a b : α} {as bs : List α} : R a b → Forall2 R as bs → Forall2 R (a :: as) (b :: bs)

/-- one register before/after a successful register-file operation -/
inductive RegStep (r r' : Reg) : Prop
  | same : r' = r → RegStep r r'
  | set (v : Nat) (raw : Bool) : r.set v raw = .ok r' → RegStep r r'
  | field (f : Field) (v : Nat) (raw : Bool) : f ∈ r.fields → fieldSet r f v raw false = .ok r' → RegStep r r'

theorem forall2_refl_same : ∀ (rf : RegFile), Forall2 RegStep rf rf
  | [] => .nil
  | _ :: rs => .cons (.same rfl) (forall2_refl_same rs)

theorem forall2_set (rf : RegFile) (i : Nat) (r r' : Reg) (hr : rf[i]? = some r) (hs : RegStep r r') :
    Forall2 RegStep rf (rf.set i r') := by
  induction rf generalizing i with
  | nil => simp at hr
  | cons a as ih =>
    cases i with
    | zero =>
      simp at hr; subst hr
      exact .cons hs (forall2_refl_same as)
    | succ i =>
      simp at hr
      exact .cons (.same rfl) (ih i hr)

theorem updAt_forall2 (rf rf' : RegFile) (i : Nat) (g : Reg → PyRes Reg) (h : updAt rf i g = .ok rf')
    (hg : ∀ r r', g r = .ok r' → RegStep r r') : Forall2 RegStep rf rf' := by
  obtain ⟨r, r', hr, hgr, rfl⟩ := updAt_inv rf rf' i g h
  exact forall2_set rf i r r' hr (hg r r' hgr)

theorem resetAll_forall2 (rf rf' : RegFile) (h : resetAllRegs rf = .ok rf') : Forall2 RegStep rf rf' := by
  induction rf generalizing rf' with
  | nil => simp [resetAllRegs] at h; subst h; exact .nil
  | cons r rs ih =>
    unfold resetAllRegs at h
    split at h
    · cases h
    · rename_i r' hr
      split at h
      · cases h
      · rename_i rs' hrs
        cases h
        exact .cons (.set _ true hr) (ih rs' hrs)

theorem parseAll_forall2 (rf rf' : RegFile) (off : Nat) (b : Bytes) (little : Bool)
    (h : parseAll rf off b little = .ok rf') : Forall2 RegStep rf rf' := by
  induction rf generalizing rf' off with
  | nil => simp [parseAll] at h; subst h; exact .nil
  | cons r rs ih =>
    unfold parseAll at h
    split at h
    · cases h; exact forall2_refl_same _
    · simp only [] at h
      split at h
      · cases h
      · rename_i r' hr
        split at h
        · cases h
        · rename_i rs' hrs
          cases h
          exact .cons (.set _ true hr) (ih rs' _ hrs)

theorem step_forall2 (rf rf' : RegFile) (op : Op) (h : step rf op = .ok rf') : Forall2 RegStep rf rf' := by
  cases op with
  | setReg i v raw => exact updAt_forall2 rf rf' i _ h (fun r r' hg => .set v raw hg)
  | setField i j v raw =>
    refine updAt_forall2 rf rf' i _ h (fun r r' hg => ?_)
    split at hg
    · cases hg
    · rename_i f hf
      exact .field f v raw (List.mem_of_getElem? hf) hg
  | setEnum i j k =>
    refine updAt_forall2 rf rf' i _ h (fun r r' hg => ?_)
    split at hg
    · cases hg
    · rename_i f hf
      split at hg
      · cases hg
      · exact .field f _ false (List.mem_of_getElem? hf) hg
  | resetReg i => exact updAt_forall2 rf rf' i _ h (fun r r' hg => .set _ true hg)
  | resetAll => exact resetAll_forall2 rf rf' h
  | parse b little => exact parseAll_forall2 rf rf' 0 b little h

/-- a relation that preserves an invariant and a key, lifted to lists -/
theorem forall2_preserve {α β : Type} {R : α → α → Prop} {P : α → Prop} {key : α → β} {l l' : List α}
    (h : Forall2 R l l') (hP : ∀ a ∈ l, P a)
    (hR : ∀ a a', P a → R a a' → P a' ∧ key a' = key a) :
    (∀ a ∈ l', P a) ∧ l'.map key = l.map key := by
  induction h with
  | nil => simp
  | @cons a a' as as' hab _ ih =>
    have h1 := hR a a' (hP a (by simp)) hab
    have h2 := ih (fun x hx => hP x (by simp [hx]))
    refine ⟨?_, ?_⟩
    · intro x hx
      simp at hx
      rcases hx with rfl | hx
      · exact h1.1
      · exact h2.1 x hx
    · simp [h1.2, h2.2]

theorem getElem?_of_map_eq {α β : Type} {key : α → β} {l l' : List α} (h : l'.map key = l.map key)
    {i : Nat} {a : α} (ha : l[i]? = some a) : ∃ a', l'[i]? = some a' ∧ key a' = key a := by
  have := congrArg (fun x => x[i]?) h
  simp only [List.getElem?_map, ha, Option.map_some] at this
  cases h' : l'[i]? with
  | none => simp [h'] at this
  | some a' =>
    simp [h'] at this
    exact ⟨a', rfl, this⟩

/-- a step of a plain, non-reversed register only changes the value, and keeps it in range -/
theorem regStep_plain (r r' : Reg) (hs : RegStep r r') (hp : r.subW = 0) (hn : r.reverse = false)
    (hb : r.value < 2 ^ r.width) : ∃ x, x < 2 ^ r.width ∧ r' = { r with value := x } := by
  cases hs with
  | same h => exact ⟨r.value, hb, h⟩
  | set v raw h => exact ⟨v, set_plain_inv r r' v raw hp hn h⟩
  | field f v raw _ h => exact ⟨_, (fieldSet_plain_inv r r' f v raw hp hn h).2⟩

theorem step_setField_inv (s s' : RegFile) (i j v : Nat) (raw : Bool)
    (h : step s (.setField i j v raw) = .ok s') :
    ∃ r g r', s[i]? = some r ∧ r.fields[j]? = some g ∧ fieldSet r g v raw false = .ok r' ∧
      s'[i]? = some r' ∧ ∀ k, i ≠ k → s'[k]? = s[k]? := by
  simp only [step] at h
  obtain ⟨r, r', hr, hg, hr'⟩ := updAt_getElem?_eq s s' i _ h
  split at hg
  · cases hg
  · rename_i g hgj
    exact ⟨r, g, r', hr, hgj, hg, hr', fun k hk => updAt_getElem?_ne s s' i k _ h hk⟩

theorem step_setEnum_inv (s s' : RegFile) (i j e : Nat)
    (h : step s (.setEnum i j e) = .ok s') :
    ∃ r g ev r', s[i]? = some r ∧ r.fields[j]? = some g ∧ g.enums[e]? = some ev ∧
      fieldSet r g ev false false = .ok r' ∧
      s'[i]? = some r' ∧ ∀ k, i ≠ k → s'[k]? = s[k]? := by
  simp only [step] at h
  obtain ⟨r, r', hr, hg, hr'⟩ := updAt_getElem?_eq s s' i _ h
  split at hg
  · cases hg
  · rename_i g hgj
    split at hg
    · cases hg
    · rename_i ev hev
      exact ⟨r, g, ev, r', hr, hgj, hev, hg, hr', fun k hk => updAt_getElem?_ne s s' i k _ h hk⟩

/-! ### grouped registers -/

theorem testBit_foldl_or (l : List Nat) (g : Nat → Nat) (acc k : Nat) :
    (l.foldl (fun acc i => acc ||| g i) acc).testBit k = (acc.testBit k || l.any (fun i => (g i).testBit k)) := by
  induction l generalizing acc with
  | nil => simp
  | cons a l ih => simp [ih, Nat.testBit_or, Bool.or_assoc]

theorem testBit_assemble (r : Reg) (k : Nat) :
    (assemble r).testBit k = true ↔
      ∃ i, i < r.subs.length ∧ subPos r i ≤ k ∧ (r.subs.getD i 0).testBit (k - subPos r i) = true := by
  unfold assemble
  rw [testBit_foldl_or]
  simp [List.any_eq_true, Nat.testBit_shiftLeft]

/-- the sub-register list written by `Reg.set` on a group -/
def distribute (r : Reg) (v : Nat) : List Nat :=
  (List.range r.subs.length).map (fun i =>
    if i < r.width / r.subW then (v >>> subPos r i) &&& mask r.subW else r.subs.getD i 0)

theorem set_group (r : Reg) (v : Nat) (hg : 0 < r.subW) (hv : v < 2 ^ r.width) :
    r.set v true = .ok { r with subs := distribute r v } := by
  have : ¬ (v ≥ 2 ^ r.width) := by omega
  simp [Reg.set, isGroup_true r hg, this, distribute]

theorem set_group_rev (r : Reg) (v x : Nat) (raw : Bool) (hg : 0 < r.subW) (hv : v < 2 ^ r.width)
    (hc : (!raw && r.reverse) = true) (hx : brev r.width v = some x) :
    r.set v raw = .ok { r with subs := distribute r x } := by
  have : ¬ (v ≥ 2 ^ r.width) := by omega
  simp [Reg.set, isGroup_true r hg, this, distribute, hc, hx]

theorem set_group_norev (r : Reg) (v : Nat) (raw : Bool) (hg : 0 < r.subW) (hv : v < 2 ^ r.width)
    (hc : (!raw && r.reverse) = false) :
    r.set v raw = .ok { r with subs := distribute r v } := by
  have : ¬ (v ≥ 2 ^ r.width) := by omega
  simp [Reg.set, isGroup_true r hg, this, distribute, hc]

theorem distribute_length (r : Reg) (v : Nat) : (distribute r v).length = r.subs.length := by
  simp [distribute]

theorem distribute_getElem? (r : Reg) (v i : Nat) (hw : r.width = r.subW * r.subs.length) (hg : 0 < r.subW)
    (hi : i < r.subs.length) :
    (distribute r v)[i]? = some ((v >>> subPos r i) &&& mask r.subW) := by
  have hn : r.width / r.subW = r.subs.length := by rw [hw, Nat.mul_div_cancel_left _ hg]
  simp [distribute, hi, hn]

theorem subPos_upd (r : Reg) (l : List Nat) (i : Nat) : subPos { r with subs := l } i = subPos r i := rfl

/-- the sub-register slots tile `[0, width)` -/
theorem subPos_cover (r : Reg) (k : Nat) (hw : r.width = r.subW * r.subs.length) (hg : 0 < r.subW)
    (hk : k < r.width) : ∃ i, i < r.subs.length ∧ subPos r i ≤ k ∧ k - subPos r i < r.subW := by
  have hq : k / r.subW < r.subs.length := by
    apply Nat.div_lt_of_lt_mul; rw [← hw]; exact hk
  have h1 : k / r.subW * r.subW ≤ k := Nat.div_mul_le_self k r.subW
  have h2 : k - k / r.subW * r.subW < r.subW := by
    have := Nat.mod_lt k hg
    have e := Nat.div_add_mod k r.subW
    rw [Nat.mul_comm] at e
    omega
  generalize k / r.subW = q at hq h1 h2
  by_cases hr : r.revSubs = true
  · refine ⟨r.subs.length - 1 - q, by omega, ?_⟩
    have e : subPos r (r.subs.length - 1 - q) = q * r.subW := by
      simp only [subPos, hr, if_true]
      have e1 : r.subs.length - 1 - q + 1 = r.subs.length - q := by omega
      rw [e1, hw, Nat.sub_mul, Nat.mul_comm r.subW]
      have : q * r.subW ≤ r.subs.length * r.subW := Nat.mul_le_mul_right _ (by omega)
      omega
    rw [e]; exact ⟨h1, h2⟩
  · refine ⟨q, hq, ?_⟩
    have e : subPos r (q) = q * r.subW := by
      simp [subPos, hr]
    rw [e]; exact ⟨h1, h2⟩

theorem assemble_distribute (r : Reg) (v : Nat) (hw : r.width = r.subW * r.subs.length) (hg : 0 < r.subW)
    (hv : v < 2 ^ r.width) : assemble { r with subs := distribute r v } = v := by
  apply Nat.eq_of_testBit_eq; intro k
  rw [Bool.eq_iff_iff, testBit_assemble]
  simp only [distribute_length, subPos_upd]
  constructor
  · rintro ⟨i, hi, hp, hb⟩
    rw [List.getD_eq_getElem?_getD, distribute_getElem? r v i hw hg hi] at hb
    simp only [Option.getD_some, Nat.testBit_and, Nat.testBit_shiftRight, Bool.and_eq_true] at hb
    have : subPos r i + (k - subPos r i) = k := by omega
    rw [this] at hb
    exact hb.1
  · intro hb
    have hk : k < r.width := by
      rcases Nat.lt_or_ge k r.width with h | h
      · exact h
      · rw [testBit_eq_false_of_lt hv h] at hb; cases hb
    obtain ⟨i, hi, hp, hlt⟩ := subPos_cover r k hw hg hk
    refine ⟨i, hi, hp, ?_⟩
    rw [List.getD_eq_getElem?_getD, distribute_getElem? r v i hw hg hi]
    simp only [Option.getD_some, Nat.testBit_and, Nat.testBit_shiftRight, Bool.and_eq_true, testBit_mask]
    have : subPos r i + (k - subPos r i) = k := by omega
    rw [this]
    exact ⟨hb, by simpa using hlt⟩

theorem distribute_bound (r : Reg) (v : Nat) (hw : r.width = r.subW * r.subs.length) (hg : 0 < r.subW) :
    ∀ s ∈ distribute r v, s < 2 ^ r.subW := by
  intro s hs
  obtain ⟨i, hsi⟩ := List.getElem?_of_mem hs
  have hi' : i < r.subs.length := by
    rcases Nat.lt_or_ge i r.subs.length with h | h
    · exact h
    · rw [List.getElem?_eq_none (by rw [distribute_length]; exact h)] at hsi; cases hsi
  rw [distribute_getElem? r v i hw hg hi'] at hsi
  cases hsi
  apply Nat.and_lt_two_pow
  simp only [mask]
  have : 0 < 2 ^ r.subW := Nat.two_pow_pos _
  omega

/-! ### export / parse -/

/-- the bytes of one register in `exportRegs` -/
def encReg (little : Bool) (r : Reg) (v : Nat) : Bytes :=
  if little then leEnc (r.width / 8) v else beEnc (r.width / 8) v

/-- the folding function of `exportRegs` -/
def expF (little : Bool) (acc : PyRes Bytes) (r : Reg) : PyRes Bytes :=
  match acc, r.get true with
  | .error e, _ => .error e
  | _, .error e => .error e
  | .ok b, .ok v =>
    if v ≥ 256 ^ (r.width / 8) ∧ v ≠ 0 then .error .spsdk
    else .ok (b ++ (if little then leEnc (r.width / 8) v else beEnc (r.width / 8) v))

theorem exportRegs_eq (rf : RegFile) (little : Bool) : exportRegs rf little = rf.foldl (expF little) (.ok []) := rfl

theorem foldl_expF_error (rs : RegFile) (little : Bool) (e : PyErr) :
    rs.foldl (expF little) (.error e) = .error e := by
  induction rs with
  | nil => rfl
  | cons r rs ih => simp only [List.foldl_cons]; rw [show expF little (.error e) r = .error e from rfl, ih]

theorem expF_ok (little : Bool) (a : Bytes) (r : Reg) :
    expF little (.ok a) r = (expF little (.ok []) r).map (a ++ ·) := by
  unfold expF
  cases r.get true with
  | error e => rfl
  | ok v =>
    simp only []
    split <;> simp [Except.map]

theorem foldl_expF_ok (rs : RegFile) (little : Bool) (a : Bytes) :
    rs.foldl (expF little) (.ok a) = (rs.foldl (expF little) (.ok [])).map (a ++ ·) := by
  induction rs generalizing a with
  | nil => simp [Except.map]
  | cons r rs ih =>
    simp only [List.foldl_cons]
    rw [expF_ok little a r]
    cases h : expF little (.ok []) r with
    | error e => simp [Except.map, foldl_expF_error]
    | ok c =>
      simp only [Except.map]
      rw [ih (a ++ c), ih c]
      cases rs.foldl (expF little) (.ok []) with
      | error e => rfl
      | ok d => simp [Except.map, List.append_assoc]

theorem exportRegs_cons_inv (r : Reg) (rs : RegFile) (little : Bool) (b : Bytes)
    (h : exportRegs (r :: rs) little = .ok b) :
    ∃ v b', r.get true = .ok v ∧ (v < 256 ^ (r.width / 8) ∨ v = 0) ∧ exportRegs rs little = .ok b' ∧
      b = encReg little r v ++ b' := by
  rw [exportRegs_eq, List.foldl_cons] at h
  cases hg : r.get true with
  | error e =>
    have : expF little (.ok []) r = .error e := by simp [expF, hg]
    rw [this, foldl_expF_error] at h; cases h
  | ok v =>
    by_cases hc : v ≥ 256 ^ (r.width / 8) ∧ v ≠ 0
    · have : expF little (.ok []) r = .error .spsdk := by simp [expF, hg, hc]
      rw [this, foldl_expF_error] at h; cases h
    · have : expF little (.ok []) r = .ok (encReg little r v) := by
        simp only [expF, hg, hc, if_false, encReg, List.nil_append]
      rw [this, foldl_expF_ok] at h
      cases hr : rs.foldl (expF little) (.ok []) with
      | error e => rw [hr] at h; cases h
      | ok b' =>
        rw [hr] at h
        simp only [Except.map] at h
        cases h
        exact ⟨v, b', rfl, by omega, hr, rfl⟩

theorem encReg_length (little : Bool) (r : Reg) (v : Nat) : (encReg little r v).length = r.width / 8 := by
  unfold encReg; split <;> simp [leEnc_length, beEnc_length]

theorem dec_encReg (little : Bool) (r : Reg) (v : Nat) (hv : v < 256 ^ (r.width / 8) ∨ v = 0) :
    (if little then leDec (encReg little r v) else beDec (encReg little r v)) = v := by
  have hm : v % 256 ^ (r.width / 8) = v := by
    rcases hv with h | h
    · exact Nat.mod_eq_of_lt h
    · subst h; simp
  cases little <;> simp [encReg, leDec, leEnc, beDec_beEnc_mod, hm]

theorem exportRegs_length (rf : RegFile) (little : Bool) (b : Bytes) (he : exportRegs rf little = .ok b) :
    b.length = (rf.map (fun r => r.width / 8)).sum := by
  induction rf generalizing b with
  | nil => simp [exportRegs] at he; subst he; rfl
  | cons r rs ih =>
    obtain ⟨v, b', _, _, hrs, rfl⟩ := exportRegs_cons_inv r rs little b he
    simp [encReg_length, ih b' hrs]

theorem zeroed_eq (r r' : Reg) (h : { r' with value := 0 } = { r with value := 0 }) :
    { r' with value := r.value } = r ∧ r'.width = r.width ∧ r'.subW = r.subW ∧ r'.reverse = r.reverse := by
  cases r; cases r'
  simp only [Reg.mk.injEq] at h ⊢
  simp [h]

theorem parseAll_export (rf rf' : RegFile) (little : Bool) (pre mid suf : Bytes)
    (hp : ∀ r ∈ rf, r.subW = 0 ∧ r.reverse = false ∧ r.value < 2 ^ r.width)
    (hl : rf'.map (fun r => { r with value := 0 }) = rf.map (fun r => { r with value := 0 }))
    (he : exportRegs rf little = .ok mid) :
    parseAll rf' pre.length (pre ++ mid ++ suf) little = .ok rf := by
  induction rf generalizing rf' pre mid with
  | nil =>
    cases rf' with
    | nil => rfl
    | cons a as => simp at hl
  | cons r rs ih =>
    cases rf' with
    | nil => simp at hl
    | cons r' rs' =>
      simp only [List.map_cons, List.cons.injEq] at hl
      obtain ⟨hz, hw, hsw, hrv⟩ := zeroed_eq r r' hl.1
      obtain ⟨hp1, hp2, hp3⟩ := hp r (by simp)
      obtain ⟨v, b', hg, hv, hrs, rfl⟩ := exportRegs_cons_inv r rs little mid he
      rw [get_plain r true hp1 hp2] at hg
      cases hg
      have hset : r'.set r.value true = .ok r := by
        rw [set_plain r' r.value true (hsw.trans hp1) (hrv.trans hp2) (hw ▸ hp3), hz]
      have hrec := ih rs' (pre ++ encReg little r r.value) b' (fun x hx => hp x (by simp [hx])) hl.2 hrs
      simp only [List.length_append, encReg_length, List.append_assoc] at hrec
      unfold parseAll
      have hlen : ¬ ((pre ++ (encReg little r r.value ++ b') ++ suf).length < pre.length + r'.width / 8) := by
        simp only [List.length_append, encReg_length, hw]; omega
      rw [if_neg hlen]
      simp only [hw, List.append_assoc]
      have hchunk : ((pre ++ (encReg little r r.value ++ (b' ++ suf))).drop pre.length).take (r.width / 8)
          = encReg little r r.value := by
        rw [List.drop_left]
        conv => lhs; rw [← encReg_length little r r.value]
        rw [List.take_left]
      rw [hchunk, dec_encReg little r r.value hv, hset]
      simp only []
      rw [hrec]

end SpsdkVerif.Regs
