/- Helper lemmas for Properties/C11.lean. -/
import SpsdkVerif.Model.Registers

namespace SpsdkVerif.Regs

end SpsdkVerif.Regs
