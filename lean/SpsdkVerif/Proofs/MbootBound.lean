/-
Bounded time (C10): the number of `device.read` calls an operation makes is bounded by what the stream can deliver plus
the number of data packets plus a constant - there is no unbounded retry loop.  `Host.reads` counts every
`device.read` call (successful or not), `Host.pending` is everything a replay peer can still deliver (Model/Mboot.lean).

Proof idea: `Φ h = h.reads + h.pending` is a potential.  A successful read pays for itself (it consumes at least one
unit of `pending`), a write never increases `pending`, so `Φ` only grows by one per FAILED read.  Straight-line readers
stop at the first failed read (`Straight`: the potential grows by one only if the result is a timeout); loops continue
only after iterations without a failed read.
-/
import SpsdkVerif.Model.Mboot
import SpsdkVerif.Proofs.Mboot
import SpsdkVerif.Proofs.MbootFault

namespace SpsdkVerif.Mboot.Bound
open SpsdkVerif SpsdkVerif.Mboot SpsdkVerif.Mboot.H SpsdkVerif.Mboot.Fault

/-! ### potential and cost relations -/

/-- the peer is a replay script or absent (never the live reference device) -/
def peerOK (h : Host) : Prop := (∃ cs, h.peer = .script cs) ∨ h.peer = .none

/-- the potential: reads made so far plus everything that can still be read -/
def Φ (h : Host) : Nat := h.reads + h.pending

/-- from `h` to `h'` the potential grew by at most `c` -/
def Step (h h' : Host) (c : Nat) : Prop := peerOK h' ∧ Φ h' ≤ Φ h + c

theorem Step.refl {h : Host} (hp : peerOK h) (c : Nat) : Step h h c := ⟨hp, Nat.le_add_right _ _⟩

theorem Step.trans {a b c : Host} {x y z : Nat} (h1 : Step a b x) (h2 : Step b c y) (hz : x + y ≤ z) : Step a c z :=
  ⟨h2.1, by have := h1.2; have := h2.2; omega⟩

theorem Step.mono {a b : Host} {x y : Nat} (h1 : Step a b x) (hz : x ≤ y) : Step a b y :=
  ⟨h1.1, by have := h1.2; omega⟩

/-- `m` lets the potential grow by at most `c` -/
def Costs {α} (m : H α) (c : Nat) : Prop := ∀ h, peerOK h → Step h (m h).2 c

/-- cost of a result of a straight-line reader: one if it is a timeout -/
def tc {α} : Except HErr α → Nat
  | .error .timeout => 1
  | _ => 0

theorem tc_le_one {α} (r : Except HErr α) : tc r ≤ 1 := by
  unfold tc; split <;> omega

/-- `m` stops at the first failed read: the potential grows (by one) only if the result is a timeout -/
def Straight {α} (m : H α) : Prop := ∀ h, peerOK h → Step h (m h).2 (tc (m h).1)

theorem Straight.costs {α} {m : H α} (hm : Straight m) : Costs m 1 :=
  fun h hp => (hm h hp).mono (tc_le_one _)

theorem Costs.mono {α} {m : H α} {a b : Nat} (hm : Costs m a) (hab : a ≤ b) : Costs m b :=
  fun h hp => (hm h hp).mono hab

/-! ### combinators -/

theorem pure_costs {α} (a : α) (c : Nat) : Costs (pure a : H α) c := fun _ hp => Step.refl hp c
theorem fail_costs {α} (e : HErr) (c : Nat) : Costs (fail e : H α) c := fun _ hp => Step.refl hp c
theorem get_costs (c : Nat) : Costs H.get c := fun _ hp => Step.refl hp c
theorem lift_costs {α} (x : Except HErr α) (c : Nat) : Costs (H.lift x) c := fun _ hp => Step.refl hp c

theorem Costs.bind {α β} {m : H α} {f : α → H β} (a b : Nat) {c : Nat} (hm : Costs m a) (hf : ∀ x, Costs (f x) b)
    (hc : a + b ≤ c) : Costs (m >>= f) c := by
  intro h hp
  have h1 := hm h hp
  simp only [bind_run]
  rcases hmh : m h with ⟨x, h'⟩
  rw [hmh] at h1
  cases x with
  | error e => exact h1.mono (by omega)
  | ok v => exact h1.trans (hf v h' h1.1) hc

theorem Costs.catch {α} {m : H α} {hd : HErr → H α} (a b : Nat) {c : Nat} (hm : Costs m a) (hf : ∀ e, Costs (hd e) b)
    (hc : a + b ≤ c) : Costs (catch_ m hd) c := by
  intro h hp
  have h1 := hm h hp
  simp only [catch_run]
  rcases hmh : m h with ⟨x, h'⟩
  rw [hmh] at h1
  cases x with
  | error e => exact h1.trans (hf e h' h1.1) hc
  | ok v => exact h1.mono (by omega)

theorem Costs.ite {α} {p : Prop} [Decidable p] {a b : H α} {c : Nat} (ha : Costs a c) (hb : Costs b c) :
    Costs (if p then a else b) c := by
  split
  · exact ha
  · exact hb

theorem pure_straight {α} (a : α) : Straight (pure a : H α) := fun _ hp => Step.refl hp _
theorem fail_straight {α} (e : HErr) : Straight (fail e : H α) := fun _ hp => Step.refl hp _
theorem get_straight : Straight H.get := fun _ hp => Step.refl hp _
theorem lift_straight {α} (x : Except HErr α) : Straight (H.lift x) := fun _ hp => Step.refl hp _

theorem Straight.bind {α β} {m : H α} {f : α → H β} (hm : Straight m) (hf : ∀ x, Straight (f x)) :
    Straight (m >>= f) := by
  intro h hp
  have h1 := hm h hp
  simp only [bind_run]
  rcases hmh : m h with ⟨x, h'⟩
  rw [hmh] at h1
  cases x with
  | error e =>
    have : tc (.error e : Except HErr β) = tc (.error e : Except HErr α) := by cases e <;> rfl
    simp only [this]; exact h1
  | ok v => exact h1.trans (hf v h' h1.1) (by simp [tc])

theorem Straight.ite {α} {p : Prop} [Decidable p] {a b : H α} (ha : Straight a) (hb : Straight b) :
    Straight (if p then a else b) := by
  split
  · exact ha
  · exact hb

/-! ### state changes that do not touch the link -/

/-- `f` leaves the read counter, the receive buffers and the peer alone -/
def Inert (f : Host → Host) : Prop :=
  ∀ h, (f h).reads = h.reads ∧ (f h).rxB = h.rxB ∧ (f h).rxR = h.rxR ∧ (f h).peer = h.peer

theorem inert_step {f : Host → Host} (hf : Inert f) {h : Host} (hp : peerOK h) (c : Nat) : Step h (f h) c := by
  obtain ⟨h1, h2, h3, h4⟩ := hf h
  refine ⟨?_, ?_⟩
  · unfold peerOK; rw [h4]; exact hp
  · unfold Φ Host.pending; rw [h1, h2, h3, h4]; omega

theorem modify_costs {f : Host → Host} (hf : Inert f) (c : Nat) : Costs (H.modify f) c :=
  fun _ hp => inert_step hf hp c
theorem modify_straight {f : Host → Host} (hf : Inert f) : Straight (H.modify f) :=
  fun _ hp => inert_step hf hp _

theorem inert_status (st : Nat) : Inert (fun h => { h with status := st }) := fun _ => ⟨rfl, rfl, rfl, rfl⟩
theorem inert_opened (b : Bool) : Inert (fun h => { h with opened := b }) := fun _ => ⟨rfl, rfl, rfl, rfl⟩
theorem inert_eda (b : Bool) : Inert (fun h => { h with eda := b }) := fun _ => ⟨rfl, rfl, rfl, rfl⟩
theorem inert_mps (v : Option Nat) : Inert (fun h => { h with mps := v }) := fun _ => ⟨rfl, rfl, rfl, rfl⟩

theorem setStatus_costs (st c : Nat) : Costs (setStatus st) c := modify_costs (inert_status st) c
theorem setStatus_straight (st : Nat) : Straight (setStatus st) := modify_straight (inert_status st)

/-! ### the link primitives -/

theorem sum_len_succ (c : List Bytes) : (c.map (fun r => r.length + 1)).sum = c.flatten.length + c.length := by
  induction c with
  | nil => rfl
  | cons x r ih => simp only [List.map_cons, List.sum_cons, List.flatten_cons, List.length_append, List.length_cons, ih]; omega

theorem write_step (h : Host) (w : Bytes) (hp : peerOK h) : Step h (h.write w) 0 := by
  unfold Step peerOK Φ Host.pending Host.write
  rcases hp with ⟨cs, hcs⟩ | hn
  · cases cs with
    | nil => cases htr : h.cfg.tr <;> simp [hcs]
    | cons c cs =>
      cases htr : h.cfg.tr <;> simp [hcs, sum_len_succ] <;> omega
  · cases htr : h.cfg.tr <;> simp [hn]

theorem devWrite_straight (w : Bytes) : Straight (devWrite w) := fun h hp => write_step h w hp
theorem devWrite_costs (w : Bytes) (c : Nat) : Costs (devWrite w) c := fun h hp => (write_step h w hp).mono (by omega)

theorem devRead_straight (n : Nat) : Straight (devRead n) := by
  intro h hp
  unfold devRead
  simp only
  split
  · exact ⟨hp, by simp [tc, Φ, Host.pending]; omega⟩
  · rename_i hc
    have hn : n ≠ 0 := fun e => hc (Or.inl e)
    have hl : 0 < h.rxB.length := by
      cases hr : h.rxB with
      | nil => exact absurd (Or.inr (by simp [hr])) hc
      | cons _ _ => simp
    split
    · exact ⟨hp, by simp [tc, Φ, Host.pending]; omega⟩
    · split
      · exact ⟨hp, by simp [tc, Φ, Host.pending]; omega⟩
      · exact ⟨hp, by simp [tc, Φ, Host.pending]; omega⟩

theorem hidDevRead_straight : Straight hidDevRead := by
  intro h hp
  unfold hidDevRead
  simp only
  cases hr : h.rxR with
  | nil => exact ⟨hp, by simp [tc, Φ, Host.pending, hr]; omega⟩
  | cons r rs =>
    simp only
    split
    · exact ⟨hp, by simp [tc, Φ, Host.pending, hr]; omega⟩
    · exact ⟨hp, by simp [tc, Φ, Host.pending, hr]; omega⟩

/-! ### straight-line readers -/

/-- syntax directed proof of `Straight` for a `do` block built from straight pieces -/
macro "straight_step" : tactic =>
  `(tactic| first
    | exact pure_straight _ | exact fail_straight _ | exact get_straight | exact lift_straight _
    | exact devWrite_straight _ | exact devRead_straight _ | exact hidDevRead_straight
    | exact setStatus_straight _ | assumption
    | refine Straight.bind ?_ (fun _ => ?_) | split | dsimp only)

macro "straight" : tactic => `(tactic| repeat straight_step)

theorem waitGo_straight (f : Nat) : Straight (waitGo f) := by
  induction f with
  | zero => exact fail_straight _
  | succ f ih => unfold waitGo; straight

theorem waitForData_straight : Straight waitForData := fun h hp => waitGo_straight _ h hp

theorem readFrameHeader_straight (e : Option Nat) : Straight (readFrameHeader e) := by
  have := waitForData_straight
  unfold readFrameHeader; straight

theorem sendAck_straight : Straight sendAck := devWrite_straight _

theorem serialRead_straight : Straight serialRead := by
  have := readFrameHeader_straight none
  have := sendAck_straight
  unfold serialRead; straight

theorem serialSendFrame_straight (t : Nat) (d : Bytes) : Straight (serialSendFrame t d) := by
  have := readFrameHeader_straight (some Spec.fAck)
  unfold serialSendFrame; straight

theorem hidRead_straight : Straight hidRead := by
  unfold hidRead; straight

theorem hidWriteReport_straight (rid : Nat) (d : Bytes) : Straight (hidWriteReport rid d) := by
  unfold hidWriteReport; straight

theorem readAny_straight : Straight readAny := by
  have := serialRead_straight
  have := hidRead_straight
  unfold readAny; straight

theorem writeCommand_straight (p : CmdPkt) : Straight (writeCommand p) := by
  unfold writeCommand; straight
  · exact serialSendFrame_straight _ _
  · exact hidWriteReport_straight _ _

theorem pingDummyLoop_straight (f : Nat) : Straight (pingDummyLoop f) := by
  induction f with
  | zero => exact pure_straight _
  | succ f ih => unfold pingDummyLoop; straight

theorem ping_straight : Straight ping := by
  have := pingDummyLoop_straight Spec.maxPingDummy
  unfold ping; straight

/-! ### data packets host→device -/

theorem hidWriteData_costs (a : Bool) (d : Bytes) : Costs (hidWriteData a d) 1 := by
  unfold hidWriteData
  split
  · exact fail_costs _ _
  · split
    · refine Costs.bind 1 0 (Costs.catch 1 0 ?_ (fun e => ?_) (by omega)) (fun got => ?_) (by omega)
      · exact (Straight.bind hidDevRead_straight (fun _ => pure_straight _)).costs
      · split
        · exact pure_costs _ _
        · exact fail_costs _ _
      · split
        · exact fail_costs _ _
        · exact devWrite_costs _ _
    · exact devWrite_costs _ _

theorem writeData_costs (a : Bool) (d : Bytes) : Costs (writeData a d) 1 := by
  unfold writeData
  refine Costs.bind 0 1 (get_costs 0) (fun h => ?_) (by omega)
  split
  · exact (serialSendFrame_straight _ _).costs
  · exact hidWriteData_costs _ _

theorem sendChunks_costs (a : Bool) (cs : List Bytes) (s : Nat) : Costs (sendChunks a cs s) cs.length := by
  induction cs generalizing s with
  | nil => exact pure_costs _ _
  | cons c cs ih =>
    intro h hp
    unfold sendChunks
    have h1 := writeData_costs a c h hp
    rcases hw : writeData a c h with ⟨x, h'⟩
    rw [hw] at h1
    cases x with
    | error e => exact h1.mono (by simp)
    | ok u => exact h1.trans (ih _ h' h1.1) (by simp; omega)

/-! ### `_process_cmd` -/

/-- a command answered with SUCCESS involved no failed read -/
def pcost : Except HErr Resp → Nat
  | .ok r => if r.status = Spec.stSuccess then 0 else 1
  | .error _ => 1

theorem pcost_le_one (r : Except HErr Resp) : pcost r ≤ 1 := by
  unfold pcost; split
  · split <;> omega
  · omega

theorem processCmd_step (p : CmdPkt) (h : Host) (hp : peerOK h) :
    Step h (processCmd p h).2 (pcost (processCmd p h).1) := by
  have hs : Straight (do writeCommand p; readAny : H RxItem) :=
    Straight.bind (writeCommand_straight p) (fun _ => readAny_straight)
  have h1 := hs h hp
  unfold processCmd
  simp only [bind_run, requireOpen, get_run]
  by_cases ho : h.opened = true
  · simp only [ho, if_true, pure_run]
    simp only [catch_run]
    rcases hm : (do writeCommand p; readAny : H RxItem) h with ⟨x, h'⟩
    rw [hm] at h1
    cases x with
    | ok it =>
      have h1' : Step h h' 0 := h1
      cases it with
      | data b => exact h1'.mono (Nat.zero_le _)
      | resp r =>
        simp only [bind_run, setStatus_run, get_run]
        have h2 : Step h { h' with status := r.status } 0 :=
          h1'.trans (inert_step (inert_status r.status) h1.1 0) (by omega)
        split <;> exact h2.mono (Nat.zero_le _)
    | error e =>
      by_cases he : e = .timeout
      · subst he
        have h1' : Step h h' 1 := h1
        simp only [if_true, bind_run, setStatus_run, pure_run, get_run, noResponse]
        have h2 : Step h { h' with status := Spec.stNoResponse } 1 :=
          h1'.trans (inert_step (inert_status Spec.stNoResponse) h1.1 0) (by omega)
        split
        · exact h2
        · exact h2
      · have h1' : Step h h' 0 := by
          have : tc (.error e : Except HErr RxItem) = 0 := by cases e <;> simp_all [tc]
          simpa [this] using h1
        simp only [he, if_false, fail_run]
        exact h1'.mono (Nat.zero_le _)
  · simp only [ho]
    exact Step.refl hp _

theorem processCmd_costs (p : CmdPkt) : Costs (processCmd p) 1 :=
  fun h hp => (processCmd_step p h hp).mono (pcost_le_one _)

/-! ### `_read_data` -/

/-- one turn of the `while True` loop of `_read_data` -/
def rdStep : H (Option RxItem) :=
  catch_ (do let x ← readAny; pure (some x))
    (fun e =>
      if e = .abort then (do let x ← readAny; pure (some x))
      else if e = .timeout then (do setStatus Spec.stNoResponse; pure none)
      else fail e)

theorem readDataLoop_succ (cmdTag f : Nat) (acc : Bytes) :
    readDataLoop cmdTag (f + 1) acc = (do
      let r ← rdStep
      match r with
      | none => pure acc
      | some (.data b) => readDataLoop cmdTag f (acc ++ b)
      | some (.resp r) =>
        if r.kind = .generic then do
          setStatus r.status
          if r.cmdTag = cmdTag then pure acc else readDataLoop cmdTag f acc
        else readDataLoop cmdTag f acc) := rfl

def scost : Except HErr (Option RxItem) → Nat
  | .ok (some _) => 0
  | _ => 1

theorem tc_zero_of_ne {α} (e : HErr) (he : e ≠ .timeout) : tc (.error e : Except HErr α) = 0 := by
  cases e <;> simp_all [tc]

theorem rdStep_step (h : Host) (hp : peerOK h) :
    Step h (rdStep h).2 (scost (rdStep h).1) ∧ ((rdStep h).1 = .ok none → (rdStep h).2.status = Spec.stNoResponse) := by
  have hs : Straight (do let x ← readAny; pure (some x) : H (Option RxItem)) :=
    Straight.bind readAny_straight (fun _ => pure_straight _)
  have h1 := hs h hp
  unfold rdStep
  simp only [catch_run]
  rcases hm : (do let x ← readAny; pure (some x) : H (Option RxItem)) h with ⟨x, h'⟩
  rw [hm] at h1
  cases x with
  | ok it =>
    have h1' : Step h h' 0 := h1
    have hit : ∃ v, it = some v := by
      simp only [bind_run] at hm
      rcases hr : readAny h with ⟨y, h2⟩
      rw [hr] at hm
      cases y with
      | error e => simp at hm
      | ok v => exact ⟨v, by simp at hm; exact hm.1.symm⟩
    obtain ⟨v, rfl⟩ := hit
    exact ⟨h1'.mono (Nat.zero_le _), by simp⟩
  | error e =>
    by_cases ha : e = .abort
    · subst ha
      have h1' : Step h h' 0 := h1
      simp only [if_true]
      have h2 := hs h' h1.1
      rcases hm2 : (do let x ← readAny; pure (some x) : H (Option RxItem)) h' with ⟨x2, h2'⟩
      rw [hm2] at h2
      cases x2 with
      | ok it =>
        have hit : ∃ v, it = some v := by
          simp only [bind_run] at hm2
          rcases hr : readAny h' with ⟨y, h3⟩
          rw [hr] at hm2
          cases y with
          | error e => simp at hm2
          | ok v => exact ⟨v, by simp at hm2; exact hm2.1.symm⟩
        obtain ⟨v, rfl⟩ := hit
        exact ⟨h1'.trans h2 (by simp [tc, scost]), by simp⟩
      | error e2 => exact ⟨h1'.trans h2 (by simp [scost]; exact tc_le_one _), by simp⟩
    · by_cases ht : e = .timeout
      · subst ht
        have h1' : Step h h' 1 := h1
        simp only [ha, if_false, if_true, bind_run, setStatus_run, pure_run]
        exact ⟨h1'.trans (inert_step (inert_status Spec.stNoResponse) h1.1 0) (by simp [scost]), by first | trivial | exact fun _ => rfl⟩
      · have h1' : Step h h' 0 := by simpa [tc_zero_of_ne e ht] using h1
        simp only [ha, ht, if_false, fail_run]
        exact ⟨h1'.mono (Nat.zero_le _), by simp⟩

def lcost (r : Except HErr Bytes) (h' : Host) : Nat :=
  match r with
  | .ok _ => if h'.status = Spec.stNoResponse then 1 else 0
  | .error _ => 1

theorem lcost_le_one (r : Except HErr Bytes) (h' : Host) : lcost r h' ≤ 1 := by
  unfold lcost; split
  · split <;> omega
  · omega

theorem readDataLoop_step (cmdTag f : Nat) (acc : Bytes) (h : Host) (hp : peerOK h) :
    Step h (readDataLoop cmdTag f acc h).2 (lcost (readDataLoop cmdTag f acc h).1 (readDataLoop cmdTag f acc h).2) := by
  induction f generalizing acc h with
  | zero => exact Step.refl hp _
  | succ f ih =>
    rw [readDataLoop_succ]
    simp only [bind_run]
    obtain ⟨h1, h2⟩ := rdStep_step h hp
    rcases hm : rdStep h with ⟨x, h'⟩
    rw [hm] at h1 h2
    cases x with
    | error e => exact h1
    | ok r =>
      cases r with
      | none =>
        have : h'.status = Spec.stNoResponse := h2 rfl
        simp only [pure_run, lcost, this, if_true]
        exact h1
      | some it =>
        have h1' : Step h h' 0 := h1
        cases it with
        | data b => dsimp only; exact h1'.trans (ih _ h' h1.1) (by omega)
        | resp r =>
          dsimp only
          split
          · simp only [bind_run, setStatus_run]
            have h3 : Step h { h' with status := r.status } 0 :=
              h1'.trans (inert_step (inert_status r.status) h1.1 0) (by omega)
            split
            · exact h3.mono (Nat.zero_le _)
            · exact h3.trans (ih _ _ h3.1) (by omega)
          · exact h1'.trans (ih _ h' h1.1) (by omega)

def dcost (r : Except HErr Bytes) (h' : Host) : Nat :=
  match r with
  | .ok _ => if h'.status = Spec.stSuccess then 0 else 1
  | .error _ => 1

theorem dcost_le_one (r : Except HErr Bytes) (h' : Host) : dcost r h' ≤ 1 := by
  unfold dcost; split
  · split <;> omega
  · omega

theorem readData_step (t n : Nat) (h : Host) (hp : peerOK h) :
    Step h (readData t n h).2 (dcost (readData t n h).1 (readData t n h).2) := by
  unfold readData
  simp only [bind_run, requireOpen, get_run]
  by_cases ho : h.opened = true
  · simp only [ho, if_true, pure_run]
    have h1 := readDataLoop_step t (n + h.fuelHint + h.rxB.length + h.rxR.length + 8) [] h hp
    rcases hl : readDataLoop t (n + h.fuelHint + h.rxB.length + h.rxR.length + 8) [] h with ⟨x, h'⟩
    rw [hl] at h1
    cases x with
    | error e => exact h1
    | ok data =>
      dsimp only
      have h1' : Step h h' 1 := h1.mono (lcost_le_one _ _)
      by_cases hc : data.length < n ∨ h'.status ≠ Spec.stSuccess
      · rw [if_pos hc]
        by_cases hz : h'.status = Spec.stSuccess
        · simp only [bind_run, hz, if_true, setStatus_run, get_run]
          have h2 : Step h { h' with status := Spec.stFail } 1 :=
            h1'.trans (inert_step (inert_status Spec.stFail) h1.1 0) (by omega)
          split
          · exact h2
          · exact h2
        · simp only [bind_run, hz, if_false, get_run]
          split
          · exact h1'
          · simp only [pure_run, dcost, hz, if_false]; exact h1'
      · rw [if_neg hc]
        have hz : h'.status = Spec.stSuccess := by
          by_cases hz : h'.status = Spec.stSuccess
          · exact hz
          · exact absurd (Or.inr hz) hc
        have hne : ¬ (h'.status = Spec.stNoResponse) := by rw [hz]; decide
        simp only [lcost, hne, if_false] at h1
        simp only [pure_run, dcost, hz, if_true]
        exact h1
  · simp only [ho]
    exact Step.refl hp _

theorem readData_costs (t n : Nat) : Costs (readData t n) 1 :=
  fun h hp => (readData_step t n h hp).mono (dcost_le_one _ _)

/-- leaves and zero-cost glue of a `Costs` goal -/
macro "costs0" : tactic =>
  `(tactic| repeat (first
    | exact pure_costs _ _ | exact fail_costs _ _ | exact get_costs _ | exact lift_costs _ _
    | exact setStatus_costs _ _ | exact modify_costs (fun _ => ⟨rfl, rfl, rfl, rfl⟩) _ | assumption
    | refine Costs.bind 0 _ ?_ (fun _ => ?_) (Nat.le_of_eq (Nat.zero_add _))
    | split | dsimp only))

theorem Costs.bind_of {α β} {m : H α} {f : α → H β} (P : α → Prop) (a b : Nat) {c : Nat} (hm : Costs m a)
    (hP : ∀ h x h', m h = (.ok x, h') → P x) (hf : ∀ x, P x → Costs (f x) b) (hc : a + b ≤ c) :
    Costs (m >>= f) c := by
  intro h hp
  have h1 := hm h hp
  simp only [bind_run]
  rcases hmh : m h with ⟨x, h'⟩
  rw [hmh] at h1
  cases x with
  | error e => exact h1.mono (by omega)
  | ok v => exact h1.trans (hf v (hP h v h' hmh) h' h1.1) hc

theorem requireOpen_costs (c : Nat) : Costs requireOpen c := by
  unfold requireOpen; costs0

/-! ### the chunk loop of `read_memory` -/

theorem readChunks_costs (a m payload rem packets k : Nat) (acc : Bytes) :
    Costs (readChunks a m payload rem packets k acc) 2 := by
  induction k generalizing acc with
  | zero => exact pure_costs _ _
  | succ k ih =>
    intro h hp
    unfold readChunks
    simp only [bind_run]
    have h1 := processCmd_step ⟨Spec.cReadMemory, 0, [a + (packets - (k + 1)) * payload,
      if packets - (k + 1) = packets - 1 ∧ rem ≠ 0 then rem else payload, m]⟩ h hp
    rcases hm : processCmd ⟨Spec.cReadMemory, 0, [a + (packets - (k + 1)) * payload,
      if packets - (k + 1) = packets - 1 ∧ rem ≠ 0 then rem else payload, m]⟩ h with ⟨x, h'⟩
    rw [hm] at h1
    cases x with
    | error e => exact h1.mono (by simp [pcost])
    | ok r =>
      dsimp only
      by_cases hz : r.status = Spec.stSuccess
      · rw [if_pos hz]
        have h1' : Step h h' 0 := by simpa [pcost, hz] using h1
        simp only [bind_run]
        have h2 := readData_step Spec.cReadMemory
          (if packets - (k + 1) = packets - 1 ∧ rem ≠ 0 then rem else payload) h' h1.1
        rcases hd : readData Spec.cReadMemory
          (if packets - (k + 1) = packets - 1 ∧ rem ≠ 0 then rem else payload) h' with ⟨y, h''⟩
        rw [hd] at h2
        cases y with
        | error e => exact h1'.trans h2 (by simp [dcost])
        | ok d =>
          simp only [get_run]
          by_cases hs : h''.status ≠ Spec.stSuccess
          · rw [if_pos hs]
            exact h1'.trans h2 (by have := dcost_le_one (.ok d) h''; simp only at this ⊢; omega)
          · rw [if_neg hs]
            have hs' : h''.status = Spec.stSuccess := by
              by_cases q : h''.status = Spec.stSuccess
              · exact q
              · exact absurd q hs
            have h2' : Step h' h'' 0 := by simpa [dcost, hs'] using h2
            exact (h1'.trans h2' (Nat.le_refl _)).trans (ih _ h'' h2.1) (by omega)
      · rw [if_neg hz]
        exact h1.mono (by have := pcost_le_one (.ok r); simp only at this ⊢; omega)

/-! ### `_send_data` -/

theorem sendDataHandler_costs (e : HErr) : Costs (sendDataHandler e) 1 := by
  unfold sendDataHandler
  split
  · costs0
  · split
    · exact readAny_straight.costs
    · exact fail_costs _ _

theorem sendDataFinal_costs : Costs (catch_ readAny sendDataHandler) 1 := by
  intro h hp
  have h1 := readAny_straight h hp
  simp only [catch_run]
  rcases hm : readAny h with ⟨x, h'⟩
  rw [hm] at h1
  cases x with
  | ok v => exact h1.mono (tc_le_one _)
  | error e =>
    dsimp only
    by_cases ht : e = .timeout
    · subst ht
      have h1' : Step h h' 1 := h1
      unfold sendDataHandler
      simp only [if_true, bind_run, setStatus_run, fail_run]
      exact h1'.trans (inert_step (inert_status Spec.stNoResponse) h1.1 0) (by omega)
    · have h1' : Step h h' 0 := by simpa [tc_zero_of_ne e ht] using h1
      exact h1'.trans (sendDataHandler_costs e h' h1.1) (by omega)

theorem sendData_costs (cs : List Bytes) : Costs (sendData cs) (cs.length + 1) := by
  unfold sendData
  refine Costs.bind 0 (cs.length + 1) (requireOpen_costs 0) (fun _ => ?_) (by omega)
  refine Costs.bind 0 (cs.length + 1) (get_costs 0) (fun h => ?_) (by omega)
  dsimp only
  refine Costs.bind cs.length 1 (sendChunks_costs _ _ _) (fun x => ?_) (by omega)
  split
  · refine Costs.bind 1 0 sendDataFinal_costs (fun r => ?_) (by omega)
    costs0
  · refine Costs.bind 1 0 (sendDataHandler_costs _) (fun r => ?_) (by omega)
    costs0

theorem sendDataNoResp_costs (cs : List Bytes) : Costs (sendDataNoResp cs) cs.length := by
  unfold sendDataNoResp
  refine Costs.bind 0 cs.length (requireOpen_costs 0) (fun _ => ?_) (by omega)
  refine Costs.bind 0 cs.length (get_costs 0) (fun h => ?_) (by omega)
  dsimp only
  refine Costs.bind cs.length 0 (sendChunks_costs _ _ _) (fun x => ?_) (by omega)
  costs0

/-! ### packet size and splitting -/

theorem getProperty_costs (t i : Nat) : Costs (getProperty t i) 1 := by
  unfold getProperty
  refine Costs.bind 1 0 (processCmd_costs _) (fun r => ?_) (by omega)
  costs0

theorem getMaxPacketSize_costs : Costs getMaxPacketSize 1 := by
  unfold getMaxPacketSize
  refine Costs.bind 0 1 (get_costs 0) (fun h => ?_) (by omega)
  split
  · exact pure_costs _ _
  · refine Costs.bind 1 0 (Costs.catch 1 0 (getProperty_costs _ _) (fun e => ?_) (by omega)) (fun v => ?_) (by omega)
    · costs0
    · costs0

theorem length_le_flatten (cs : List Bytes) (h : ∀ c ∈ cs, c ≠ []) : cs.length ≤ cs.flatten.length := by
  induction cs with
  | nil => simp
  | cons c cs ih =>
    have hc : 0 < c.length := List.length_pos_iff.mpr (h c (by simp))
    have := ih (fun q hq => h q (by simp [hq]))
    simp only [List.length_cons, List.flatten_cons, List.length_append]
    omega

theorem split_length_le (n : Nat) (hn : 0 < n) (l : Bytes) : (split n l).length ≤ l.length := by
  have h1 := length_le_flatten (split n l) (fun c hc => (split_chunks' n hn l c hc).2)
  rw [split_flatten' n hn l] at h1
  exact h1

theorem splitData_costs (d : Bytes) : Costs (splitData d) 1 := by
  unfold splitData
  refine Costs.bind 1 0 getMaxPacketSize_costs (fun n => ?_) (by omega)
  costs0

theorem splitData_ok (d : Bytes) (h : Host) (cs : List Bytes) (h' : Host) (hr : splitData d h = (.ok cs, h')) :
    cs.length ≤ d.length := by
  unfold splitData at hr
  simp only [bind_run] at hr
  rcases hg : getMaxPacketSize h with ⟨x, h1⟩
  rw [hg] at hr
  cases x with
  | error e => simp at hr
  | ok n =>
    dsimp only at hr
    by_cases hn : n = 0
    · simp [hn] at hr
    · simp only [hn, if_false, pure_run, Prod.mk.injEq, Except.ok.injEq] at hr
      rw [← hr.1]
      exact split_length_le n (by omega) d

/-! ### the operations -/

theorem simpleCmd_costs (t : Nat) (ps : List Nat) : Costs (simpleCmd t ps) 1 := by
  unfold simpleCmd
  refine Costs.bind 1 0 (processCmd_costs _) (fun r => ?_) (by omega)
  costs0

theorem dataOutTail_costs (cs : List Bytes) (p : CmdPkt) :
    Costs (do
      let r ← processCmd p
      if r.status = Spec.stSuccess then do
        let ok ← sendData cs
        pure (.bool ok)
      else pure (.bool false) : H Val) (cs.length + 2) := by
  refine Costs.bind 1 (cs.length + 1) (processCmd_costs _) (fun r => ?_) (by omega)
  split
  · refine Costs.bind (cs.length + 1) 0 (sendData_costs cs) (fun _ => ?_) (by omega)
    costs0
  · costs0

theorem writeMemory_costs (a : Nat) (d : Bytes) (m : Nat) : Costs (writeMemory a d m) (d.length + 3) := by
  unfold writeMemory
  refine Costs.bind_of (fun cs => cs.length ≤ d.length) 1 (d.length + 2) (splitData_costs d)
    (fun h x h' hr => splitData_ok d h x h' hr) (fun cs hcs => ?_) (by omega)
  exact (dataOutTail_costs cs _).mono (by omega)

theorem dataOutCmd_costs (t : Nat) (ps : List Nat) (d : Bytes) : Costs (dataOutCmd t ps d) (d.length + 3) := by
  unfold dataOutCmd
  refine Costs.bind_of (fun cs => cs.length ≤ d.length) 1 (d.length + 2) (splitData_costs d)
    (fun h x h' hr => splitData_ok d h x h' hr) (fun cs hcs => ?_) (by omega)
  exact (dataOutTail_costs cs _).mono (by omega)

theorem receiveSbFile_costs (d : Bytes) (c : Bool) : Costs (receiveSbFile d c) (d.length + 3) := by
  unfold receiveSbFile
  refine Costs.bind_of (fun cs => cs.length ≤ d.length) 1 (d.length + 2) (splitData_costs d)
    (fun h x h' hr => splitData_ok d h x h' hr) (fun cs hcs => ?_) (by omega)
  refine Costs.bind 1 (cs.length + 1) (processCmd_costs _) (fun r => ?_) (by omega)
  split
  · refine Costs.bind 0 (cs.length + 1) (modify_costs (inert_eda _) 0) (fun _ => ?_) (by omega)
    refine Costs.bind (cs.length + 1) 0 (sendData_costs cs) (fun _ => ?_) (by omega)
    costs0
  · costs0

theorem loadImage_costs (d : Bytes) : Costs (loadImage d) (d.length + 1) := by
  unfold loadImage
  refine Costs.bind_of (fun cs => cs.length ≤ d.length) 1 d.length (splitData_costs d)
    (fun h x h' hr => splitData_ok d h x h' hr) (fun cs hcs => ?_) (by omega)
  refine Costs.bind 0 d.length (setStatus_costs _ 0) (fun _ => ?_) (by omega)
  refine Costs.bind cs.length 0 (sendDataNoResp_costs cs) (fun _ => ?_) (by omega)
  costs0

theorem dataInCmd_costs (t : Nat) (ps : List Nat) (k : RKind) : Costs (dataInCmd t ps k) 2 := by
  unfold dataInCmd
  refine Costs.bind 1 1 (processCmd_costs _) (fun r => ?_) (by omega)
  split
  · split
    · refine Costs.bind 1 0 (readData_costs _ _) (fun _ => ?_) (by omega)
      costs0
    · costs0
  · costs0

theorem readMemory_costs (a n m : Nat) (f : Bool) : Costs (readMemory a n m f) 3 := by
  unfold readMemory
  refine Costs.bind 0 3 (get_costs 0) (fun h => ?_) (by omega)
  split
  · refine Costs.bind 1 2 getMaxPacketSize_costs (fun payload => ?_) (by omega)
    split
    · costs0
    · dsimp only
      refine Costs.bind 2 0 (readChunks_costs _ _ _ _ _ _ _) (fun _ => ?_) (by omega)
      costs0
  · refine Costs.bind 1 1 (processCmd_costs _) (fun r => ?_) (by omega)
    split
    · split
      · refine Costs.bind 1 0 (readData_costs _ _) (fun _ => ?_) (by omega)
        costs0
      · costs0
    · costs0

theorem efuseReadOnce_costs (i : Nat) : Costs (efuseReadOnce i) 1 := by
  unfold efuseReadOnce
  refine Costs.bind 1 0 (processCmd_costs _) (fun r => ?_) (by omega)
  costs0

theorem efuseProgramOnce_costs (i v : Nat) (c : Bool) : Costs (efuseProgramOnce i v c) 2 := by
  unfold efuseProgramOnce
  refine Costs.bind 1 1 (processCmd_costs _) (fun r => ?_) (by omega)
  split
  · costs0
  · split
    · refine Costs.bind 1 0 (efuseReadOnce_costs _) (fun _ => ?_) (by omega)
      costs0
    · costs0

theorem flashReadOnce_costs (i c : Nat) : Costs (flashReadOnce i c) 1 := by
  unfold flashReadOnce
  split
  · costs0
  · refine Costs.bind 1 0 (processCmd_costs _) (fun r => ?_) (by omega)
    costs0

theorem flashProgramOnce_costs (i : Nat) (d : Bytes) : Costs (flashProgramOnce i d) 1 := by
  unfold flashProgramOnce
  split
  · costs0
  · refine Costs.bind 1 0 (processCmd_costs _) (fun r => ?_) (by omega)
    costs0

theorem openSerial_costs (k : Nat) : Costs (openSerial k) k := by
  induction k with
  | zero => exact fail_costs _ _
  | succ k ih =>
    unfold openSerial
    refine Costs.bind 0 (k + 1) (modify_costs (inert_opened _) 0) (fun _ => ?_) (by omega)
    refine Costs.catch 1 k ping_straight.costs (fun e => ?_) (by omega)
    refine Costs.bind 0 k (modify_costs (inert_opened _) 0) (fun _ => ?_) (by omega)
    split
    · exact ih
    · exact fail_costs _ _

theorem reset_costs (r : Bool) : Costs (reset r) 4 := by
  unfold reset
  refine Costs.bind 1 3 (processCmd_costs _) (fun r => ?_) (by omega)
  refine Costs.bind 0 3 (modify_costs (inert_opened _) 0) (fun _ => ?_) (by omega)
  refine Costs.bind 0 3 (get_costs 0) (fun h => ?_) (by omega)
  dsimp only
  split
  · costs0
  · split
    · refine Costs.bind 0 3 (setStatus_costs _ 0) (fun _ => ?_) (by omega)
      split
      · split
        · costs0
        · refine Costs.catch 3 0 ?_ (fun e => ?_) (by omega)
          · refine Costs.bind 3 0 (openSerial_costs Spec.openAttempts) (fun _ => ?_) (by omega)
            costs0
          · costs0
      · costs0
    · skip
      split
      · split
        · costs0
        · refine Costs.catch 3 0 ?_ (fun e => ?_) (by omega)
          · refine Costs.bind 3 0 (openSerial_costs Spec.openAttempts) (fun _ => ?_) (by omega)
            costs0
          · costs0
      · costs0

theorem runOp_costs (op : Op) : Costs (runOp op) (op.dataLen + 16) := by
  cases op with
  | open_ =>
    simp only [runOp]
    refine Costs.bind 0 3 (get_costs 0) (fun h => ?_) (by omega)
    split
    · refine Costs.bind 3 0 (openSerial_costs Spec.openAttempts) (fun _ => ?_) (by omega)
      costs0
    · costs0
  | getProperty t i =>
    simp only [runOp]
    refine Costs.bind 1 0 (getProperty_costs _ _) (fun _ => ?_) (by omega)
    costs0
  | setProperty t v => exact Costs.mono (a := 1) (simpleCmd_costs _ _) (by omega)
  | fillMemory a n p => exact Costs.mono (a := 1) (simpleCmd_costs _ _) (by omega)
  | eraseRegion a n m => exact Costs.mono (a := 1) (simpleCmd_costs _ _) (by omega)
  | eraseAll m => exact Costs.mono (a := 1) (simpleCmd_costs _ _) (by omega)
  | execute a g s => exact Costs.mono (a := 1) (simpleCmd_costs _ _) (by omega)
  | call a g => exact Costs.mono (a := 1) (simpleCmd_costs _ _) (by omega)
  | eraseAllUnsecure => exact Costs.mono (a := 1) (simpleCmd_costs _ _) (by omega)
  | configureMemory a m => exact Costs.mono (a := 1) (simpleCmd_costs _ _) (by omega)
  | reliableUpdate a => exact Costs.mono (a := 1) (simpleCmd_costs _ _) (by omega)
  | readMemory a n m f => exact Costs.mono (a := 3) (readMemory_costs _ _ _ _) (by omega)
  | writeMemory a d m => exact (writeMemory_costs _ _ _).mono (by simp only [Op.dataLen]; omega)
  | receiveSbFile d c => exact (receiveSbFile_costs _ _).mono (by simp only [Op.dataLen]; omega)
  | loadImage d => exact (loadImage_costs _).mono (by simp only [Op.dataLen]; omega)
  | flashReadOnce i c => exact Costs.mono (a := 1) (flashReadOnce_costs _ _) (by omega)
  | flashProgramOnce i d => exact Costs.mono (a := 1) (flashProgramOnce_costs _ _) (by omega)
  | efuseReadOnce i =>
    simp only [runOp]
    refine Costs.bind 1 0 (efuseReadOnce_costs _) (fun _ => ?_) (by omega)
    costs0
  | efuseProgramOnce i v c => exact Costs.mono (a := 2) (efuseProgramOnce_costs _ _ _) (by omega)
  | flashReadResource a n o =>
    simp only [runOp]
    split
    · costs0
    · exact Costs.mono (a := 2) (dataInCmd_costs _ _ _) (by omega)
  | kpEnroll => exact Costs.mono (a := 1) (simpleCmd_costs _ _) (by omega)
  | kpSetIntrinsicKey t z => exact Costs.mono (a := 1) (simpleCmd_costs _ _) (by omega)
  | kpWriteNonvolatile m => exact Costs.mono (a := 1) (simpleCmd_costs _ _) (by omega)
  | kpReadNonvolatile m => exact Costs.mono (a := 1) (simpleCmd_costs _ _) (by omega)
  | kpSetUserKey t d => exact (dataOutCmd_costs _ _ _).mono (by simp only [Op.dataLen]; omega)
  | kpWriteKeyStore d => exact (dataOutCmd_costs _ _ _).mono (by simp only [Op.dataLen]; omega)
  | kpReadKeyStore => exact Costs.mono (a := 2) (dataInCmd_costs _ _ _) (by omega)
  | reset r => exact Costs.mono (a := 4) (reset_costs r) (by omega)
  | logCmd t ps => exact Costs.mono (a := 1) (simpleCmd_costs _ _) (by omega)
  | fuseProgram a d m => exact (dataOutCmd_costs _ _ _).mono (by simp only [Op.dataLen]; omega)
  | fuseRead a n m => exact Costs.mono (a := 2) (dataInCmd_costs _ _ _) (by omega)

/-- every operation, both transports, strict and partial reads, ANY replayed stream (well-formed or garbage) -/
theorem reads_bounded (h : Host) (op : Op) (hpeer : (∃ cs, h.peer = .script cs) ∨ h.peer = .none) :
    (runOp op h).2.reads ≤ h.reads + h.pending + op.dataLen + 16 := by
  have h1 := (runOp_costs op h hpeer).2
  unfold Φ at h1
  omega

end SpsdkVerif.Mboot.Bound
