/-
Helper lemmas for Properties/C05.lean (Secure Binary 3.1).  Core Lean only.
-/
import SpsdkVerif.Model.Sb31
import SpsdkVerif.Proofs.Misc
import SpsdkVerif.Proofs.Crypto
import SpsdkVerif.Crypto.Break

namespace SpsdkVerif.Sb31
open SpsdkVerif SpsdkVerif.Misc SpsdkVerif.Crypto SpsdkVerif.Generated
open Rom Spec

set_option linter.unusedSimpArgs false

/-! ## integer codecs and the byte readers -/

theorem leDec_leEnc (n v : Nat) (h : v < 256 ^ n) : leDec (leEnc n v) = v := by
  simp [leDec, leEnc, beDec_beEnc_mod, Nat.mod_eq_of_lt h]

@[simp] theorem u16_length (v : Nat) : (u16 v).length = 2 := by simp [u16, leEnc_length]
@[simp] theorem u32_length (v : Nat) : (u32 v).length = 4 := by simp [u32, leEnc_length]
@[simp] theorem u64_length (v : Nat) : (u64 v).length = 8 := by simp [u64, leEnc_length]

theorem takeB_append (x r : Bytes) (n : Nat) (h : x.length = n) : takeB n (x ++ r) = .ok (x, r) := by
  subst h; simp [takeB]

theorem takeB_self (x : Bytes) (n : Nat) (h : x.length = n) : takeB n x = .ok (x, []) := by
  have := takeB_append x [] n h
  simpa using this

theorem takeU_append (x r : Bytes) (n : Nat) (h : x.length = n) : takeU n (x ++ r) = .ok (leDec x, r) := by
  subst h; simp [takeU]

theorem takeU_u16 (v : Nat) (r : Bytes) (h : v < 65536) : takeU 2 (u16 v ++ r) = .ok (v, r) := by
  rw [takeU_append _ _ _ (u16_length v), u16, leDec_leEnc _ _ (by simpa using h)]

theorem takeU_u32 (v : Nat) (r : Bytes) (h : v < 4294967296) : takeU 4 (u32 v ++ r) = .ok (v, r) := by
  rw [takeU_append _ _ _ (u32_length v), u32, leDec_leEnc _ _ (by simpa using h)]

theorem takeU_u64 (v : Nat) (r : Bytes) (h : v < 18446744073709551616) : takeU 8 (u64 v ++ r) = .ok (v, r) := by
  rw [takeU_append _ _ _ (u64_length v), u64, leDec_leEnc _ _ (by simpa using h)]

theorem u32_zero : u32 0 = zeros 4 := by decide

theorem allZero_zeros (n : Nat) : allZero (zeros n) = true := by
  simp [allZero, zeros]

theorem zeros_add (a b : Nat) : zeros a ++ zeros b = zeros (a + b) := by
  simp [zeros, List.replicate_append_replicate]

theorem takeWordRes3_enc (m : Nat) (r : Bytes) (h : m < 4294967296) :
    takeWordRes3 (u32 m ++ (u32 0 ++ (u32 0 ++ (u32 0 ++ r)))) = .ok (m, r) := by
  have e : u32 0 ++ (u32 0 ++ (u32 0 ++ r)) = zeros 12 ++ r := by
    rw [u32_zero, ← List.append_assoc, ← List.append_assoc, zeros_add, zeros_add]
  simp only [takeWordRes3, bind, Except.bind, takeU_u32 _ _ h, e,
    takeB_append (zeros 12) r 12 (by simp), allZero_zeros, check, pure, Except.pure]
  rfl

theorem takeData_enc (d r : Bytes) : takeData d.length (d ++ (zeros (pad16 d.length) ++ r)) = .ok (d, r) := by
  have e := takeB_append (zeros (pad16 d.length)) r (pad16 d.length) (by simp)
  simp only [takeData, bind, Except.bind, takeB_append d _ d.length rfl, e, allZero_zeros, check, pure, Except.pure]
  rfl

theorem takeData_enc' (n : Nat) (d r : Bytes) (h : n = d.length) :
    takeData n (d ++ (zeros (pad16 d.length) ++ r)) = .ok (d, r) := by
  subst h; exact takeData_enc d r

/-- aligning `prefix ++ data` where the prefix is already a multiple of 16 pads the data only -/
theorem zeroPad16_prefix (x d : Bytes) (hx : x.length % 16 = 0) :
    zeroPad 16 (x ++ d) = x ++ (d ++ zeros (pad16 d.length)) := by
  simp only [zeroPad, List.length_append, pad16, List.append_assoc]
  have : (x.length + d.length) % 16 = d.length % 16 := by omega
  rw [this]

@[simp] theorem baseHdr_length (a b t : Nat) : (baseHdr a b t).length = 16 := by simp [baseHdr]
@[simp] theorem words4_length (a b c d : Nat) : (words4 a b c d).length = 16 := by simp [words4]

theorem loadLike_some (tag a len m : Nat) (d : Bytes) :
    loadLike tag a len (some m) d = baseHdr a len tag ++ (words4 m 0 0 0 ++ (d ++ zeros (pad16 d.length))) := by
  simp only [loadLike, Sb31Consts.loadAlign]
  rw [← List.append_assoc, zeroPad16_prefix _ _ (by simp), List.append_assoc]

theorem loadLike_none (tag a len : Nat) (d : Bytes) :
    loadLike tag a len none d = baseHdr a len tag ++ (d ++ zeros (pad16 d.length)) := by
  simp only [loadLike, Sb31Consts.loadAlign, List.append_nil]
  rw [zeroPad16_prefix _ _ (by simp)]

/-! ## command round trip -/

/-- reading the common 16-byte header back -/
theorem parse_hdr (a b t : Nat) (ha : a < 4294967296) (hb : b < 4294967296) (ht : t < 4294967296)
    (r : Bytes) (k : Nat → Nat → Nat → Bytes → R (Cmd × Bytes)) :
    (do let (magic, b1) ← takeU 4 (baseHdr a b t ++ r)
        check (magic == 0x55AAAA55) .cmdMagic
        let (w1, b2) ← takeU 4 b1
        let (w2, b3) ← takeU 4 b2
        let (tag, b4) ← takeU 4 b3
        k w1 w2 tag b4) = k a b t r := by
  simp only [baseHdr, List.append_assoc, bind, Except.bind, Sb31Consts.cmdMagic]
  rw [takeU_u32 _ _ (by decide)]
  simp [check, takeU_u32, ha, hb, ht]

theorem leDec_append (a b : Bytes) : leDec (a ++ b) = leDec a + 256 ^ a.length * leDec b := by
  induction a with
  | nil => simp [leDec, beDec]
  | cons x xs ih =>
    have hx : ∀ l : Bytes, leDec (x :: l) = x.toNat + 256 * leDec l := by
      intro l; simp [leDec, beDec_append_single]; omega
    rw [List.cons_append, hx, hx, ih, List.length_cons, Nat.pow_succ]
    rw [Nat.mul_add, ← Nat.mul_assoc, Nat.add_assoc, Nat.mul_comm 256 (256 ^ xs.length)]

theorem takeU_u16pair (o k : Nat) (r : Bytes) (ho : o < 65536) (hk : k < 65536) :
    takeU 4 (u16 o ++ (u16 k ++ r)) = .ok (o + 65536 * k, r) := by
  rw [← List.append_assoc, takeU_append _ _ 4 (by simp), leDec_append]
  simp only [u16, leDec_leEnc 2 o (by simpa using ho), leDec_leEnc 2 k (by simpa using hk), leEnc_length]

theorem parseCmd_enc (cmd : Cmd) (h : cmd.wf = true) (rest : Bytes) :
    parseCmd (encCmd cmd ++ rest) = .ok (cmd, rest) := by
  cases cmd with
  | erase a l m =>
    simp [Cmd.wf, Cmd.inRange, isU32] at h
    simp only [encCmd, baseHdr, words4, List.append_assoc, parseCmd, parseTail, bind, Except.bind, Sb31Consts.cmdMagic, Sb31Consts.tagErase]
    rw [takeU_u32 _ _ (by decide)]
    simp [check, takeU_u32, takeWordRes3_enc, h, pure, Except.pure]
  | load a d m =>
    simp [Cmd.wf, Cmd.inRange, isU32] at h
    simp only [encCmd, loadLike_some, baseHdr, words4, List.append_assoc, parseCmd, parseTail, bind, Except.bind, Sb31Consts.cmdMagic, Sb31Consts.tagLoad]
    rw [takeU_u32 _ _ (by decide)]
    simp [check, takeU_u32, takeWordRes3_enc, takeData_enc, h, pure, Except.pure]
  | execute a =>
    simp [Cmd.wf, Cmd.inRange, isU32] at h
    simp only [encCmd, baseHdr, List.append_assoc, parseCmd, parseTail, bind, Except.bind, Sb31Consts.cmdMagic, Sb31Consts.tagExecute]
    rw [takeU_u32 _ _ (by decide)]
    simp [check, takeU_u32, h, pure, Except.pure]
  | call a =>
    simp [Cmd.wf, Cmd.inRange, isU32] at h
    simp only [encCmd, baseHdr, List.append_assoc, parseCmd, parseTail, bind, Except.bind, Sb31Consts.cmdMagic, Sb31Consts.tagCall]
    rw [takeU_u32 _ _ (by decide)]
    simp [check, takeU_u32, h, pure, Except.pure]
  | progFuses a d =>
    simp [Cmd.wf, Cmd.inRange, isU32] at h
    have hlen : d.length / 4 < 4294967296 := by omega
    have h4 : 4 * (d.length / 4) = d.length := by omega
    simp only [encCmd, loadLike_none, baseHdr, List.append_assoc, parseCmd, parseTail, bind, Except.bind, Sb31Consts.cmdMagic,
      Sb31Consts.tagProgFuses, Sb31Consts.fuseWordSize]
    rw [takeU_u32 _ _ (by decide)]
    simp [check, takeU_u32, takeData_enc, h, hlen, h4, pure, Except.pure]
  | progIfr a d =>
    simp [Cmd.wf, Cmd.inRange, isU32] at h
    simp only [encCmd, loadLike_none, baseHdr, List.append_assoc, parseCmd, parseTail, bind, Except.bind, Sb31Consts.cmdMagic, Sb31Consts.tagProgIfr]
    rw [takeU_u32 _ _ (by decide)]
    simp [check, takeU_u32, takeData_enc, h, pure, Except.pure]
  | loadCmac a d m =>
    simp [Cmd.wf, Cmd.inRange, isU32] at h
    simp only [encCmd, loadLike_some, baseHdr, words4, List.append_assoc, parseCmd, parseTail, bind, Except.bind, Sb31Consts.cmdMagic, Sb31Consts.tagLoadCmac]
    rw [takeU_u32 _ _ (by decide)]
    simp [check, takeU_u32, takeWordRes3_enc, takeData_enc, h, pure, Except.pure]
  | copy a l dst mf mt =>
    simp [Cmd.wf, Cmd.inRange, isU32] at h
    simp only [encCmd, baseHdr, words4, List.append_assoc, parseCmd, parseTail, bind, Except.bind, Sb31Consts.cmdMagic, Sb31Consts.tagCopy]
    rw [takeU_u32 _ _ (by decide)]
    simp [check, takeU_u32, h, pure, Except.pure]
  | loadHashLocking a d m =>
    simp [Cmd.wf, Cmd.inRange, isU32] at h
    simp only [encCmd, loadLike_some, baseHdr, words4, List.append_assoc, parseCmd, parseTail, bind, Except.bind, Sb31Consts.cmdMagic,
      Sb31Consts.tagLoadHashLocking, Sb31Consts.hashLockTail]
    rw [takeU_u32 _ _ (by decide)]
    simp [check, takeU_u32, takeWordRes3_enc, takeData_enc, takeB_append (zeros 64) rest 64 (by simp), allZero_zeros, h, pure, Except.pure]
  | loadKeyBlob off d kw =>
    simp [Cmd.wf, Cmd.inRange, isU32, isU16] at h
    simp only [encCmd, Sb31Consts.keyBlobAlign]
    rw [show u32 Sb31Consts.cmdMagic ++ u16 off ++ u16 kw ++ u32 d.length ++ u32 Sb31Consts.tagLoadKeyBlob ++ d
          = (u32 Sb31Consts.cmdMagic ++ u16 off ++ u16 kw ++ u32 d.length ++ u32 Sb31Consts.tagLoadKeyBlob) ++ d from rfl,
        zeroPad16_prefix _ _ (by simp)]
    simp only [List.append_assoc, parseCmd, parseTail, bind, Except.bind, Sb31Consts.cmdMagic, Sb31Consts.tagLoadKeyBlob]
    rw [takeU_u32 _ _ (by decide)]
    have e1 : (off + 65536 * kw) % 65536 = off := by omega
    have e2 : (off + 65536 * kw) / 65536 = kw := by omega
    simp [check, takeU_u32, takeU_u16pair, takeData_enc, h, e1, e2, pure, Except.pure]
  | configureMemory a m =>
    simp [Cmd.wf, Cmd.inRange, isU32] at h
    simp only [encCmd, baseHdr, List.append_assoc, parseCmd, parseTail, bind, Except.bind, Sb31Consts.cmdMagic, Sb31Consts.tagConfigureMemory]
    rw [takeU_u32 _ _ (by decide)]
    simp [check, takeU_u32, h, pure, Except.pure]
  | fillMemory a l p =>
    simp [Cmd.wf, Cmd.inRange, isU32] at h
    simp only [encCmd, baseHdr, words4, List.append_assoc, parseCmd, parseTail, bind, Except.bind, Sb31Consts.cmdMagic, Sb31Consts.tagFillMemory]
    rw [takeU_u32 _ _ (by decide)]
    simp [check, takeU_u32, takeWordRes3_enc, h, pure, Except.pure]
  | fwVersionCheck v cid =>
    simp [Cmd.wf, Cmd.inRange, isU32] at h
    simp only [encCmd, baseHdr, List.append_assoc, parseCmd, parseTail, bind, Except.bind, Sb31Consts.cmdMagic, Sb31Consts.tagFwVersionCheck]
    rw [takeU_u32 _ _ (by decide)]
    simp [check, takeU_u32, h, pure, Except.pure]
  | reset =>
    simp only [encCmd, baseHdr, List.append_assoc, parseCmd, parseTail, bind, Except.bind, Sb31Consts.cmdMagic, Sb31Consts.tagReset]
    rw [takeU_u32 _ _ (by decide)]
    simp [check, takeU_u32, pure, Except.pure]

theorem encKeyBlob_eq (off kw : Nat) (d : Bytes) :
    encCmd (.loadKeyBlob off d kw) =
      u32 Sb31Consts.cmdMagic ++ (u16 off ++ (u16 kw ++ (u32 d.length ++ (u32 Sb31Consts.tagLoadKeyBlob ++
        (d ++ zeros (pad16 d.length)))))) := by
  simp only [encCmd, Sb31Consts.keyBlobAlign]
  rw [show u32 Sb31Consts.cmdMagic ++ u16 off ++ u16 kw ++ u32 d.length ++ u32 Sb31Consts.tagLoadKeyBlob ++ d
        = (u32 Sb31Consts.cmdMagic ++ u16 off ++ u16 kw ++ u32 d.length ++ u32 Sb31Consts.tagLoadKeyBlob) ++ d from rfl,
      zeroPad16_prefix _ _ (by simp)]
  simp only [List.append_assoc]

theorem encCmd_length (cmd : Cmd) : (encCmd cmd).length = cmdSize cmd := by
  cases cmd with
  | loadKeyBlob off d kw => rw [encKeyBlob_eq]; simp [cmdSize, a16]; omega
  | _ => simp [encCmd, cmdSize, a16, loadLike_some, loadLike_none, Sb31Consts.hashLockTail] <;> omega

theorem cmdSize_ge (cmd : Cmd) : 16 ≤ cmdSize cmd := by
  cases cmd <;> simp [cmdSize] <;> omega

theorem a16_mod (n : Nat) : a16 n % 16 = 0 := by unfold a16 pad16; omega

theorem cmdSize_mod (cmd : Cmd) : cmdSize cmd % 16 = 0 := by
  cases cmd <;> simp [cmdSize] <;> (try have := a16_mod ‹Bytes›.length) <;> omega

theorem cmdBytes_cons (cmd : Cmd) (cs : List Cmd) : cmdBytes (cmd :: cs) = encCmd cmd ++ cmdBytes cs := by
  simp [cmdBytes]

theorem cmdBytes_length_ge (cs : List Cmd) : cs.length ≤ (cmdBytes cs).length := by
  induction cs with
  | nil => simp [cmdBytes]
  | cons c cs ih =>
    rw [cmdBytes_cons, List.length_append, encCmd_length]
    have := cmdSize_ge c
    simp only [List.length_cons]; omega

theorem parseCmds_enc (cs : List Cmd) (h : ∀ c ∈ cs, c.wf = true) :
    ∀ f, cs.length ≤ f → parseCmds f (cmdBytes cs) = .ok cs := by
  induction cs with
  | nil => intro f _; cases f <;> simp [parseCmds, cmdBytes, pure, Except.pure]
  | cons c cs ih =>
    intro f hf
    cases f with
    | zero => simp at hf
    | succ f =>
      have hne : (cmdBytes (c :: cs)).isEmpty = false := by
        have := cmdBytes_length_ge (c :: cs)
        cases hb : cmdBytes (c :: cs) with
        | nil => simp [hb] at this
        | cons _ _ => rfl
      rw [parseCmds, hne]
      simp only [Bool.false_eq_true, if_false, cmdBytes_cons, bind, Except.bind]
      rw [parseCmd_enc c (h c (by simp))]
      simp only []
      rw [ih (fun x hx => h x (by simp [hx])) f (by simpa using hf)]
      rfl

/-! ## plaintext stream -/

theorem cmdBytes_length (cs : List Cmd) : (cmdBytes cs).length = (cs.map cmdSize).sum := by
  induction cs with
  | nil => simp [cmdBytes]
  | cons c cs ih => rw [cmdBytes_cons, List.length_append, encCmd_length, ih]; simp

theorem cmdStream_length (cs : List Cmd) : (cmdStream cs).length = streamLen cs := by
  simp [cmdStream, sectionHdr, streamLen, cmdBytes_length]; omega

theorem zeroPad_eq (n : Nat) (m : Bytes) : zeroPad n m = m ++ zeros ((n - m.length % n) % n) := rfl

theorem parseStream_enc (cs : List Cmd) (h : ∀ c ∈ cs, c.wf = true) (hlen : (cmdBytes cs).length < 4294967296) :
    parseStream (zeroPad 256 (cmdStream cs)) = .ok cs := by
  rw [zeroPad_eq]
  have hk : (256 - (cmdStream cs).length % 256) % 256 < 256 := Nat.mod_lt _ (by decide)
  generalize (256 - (cmdStream cs).length % 256) % 256 = k at hk
  simp only [cmdStream, sectionHdr, List.append_assoc, parseStream, bind, Except.bind,
    Sb31Consts.sectionUid, Sb31Consts.sectionType]
  rw [takeU_u32 _ _ (by decide)]
  simp only []
  rw [takeU_u32 _ _ (by decide)]
  simp only []
  rw [takeU_u32 _ _ hlen]
  simp only []
  rw [takeU_u32 _ _ (by decide)]
  simp only [check, takeB_append (cmdBytes cs) (zeros k) _ rfl]
  simp [allZero_zeros, hk, parseCmds_enc cs h _ (cmdBytes_length_ge cs)]

/-! ## chunking -/

theorem splitBlocks_length (sz n : Nat) (b : Bytes) : (splitBlocks sz n b).length = n := by
  induction n generalizing b with
  | zero => rfl
  | succ n ih => simp [splitBlocks, ih]

theorem splitBlocks_flatten (sz n : Nat) (b : Bytes) (h : b.length = sz * n) : (splitBlocks sz n b).flatten = b := by
  induction n generalizing b with
  | zero => simp at h; simp [splitBlocks, h]
  | succ n ih =>
    simp only [splitBlocks, List.flatten_cons]
    rw [ih (b.drop sz) (by simp [h, Nat.mul_succ])]
    exact List.take_append_drop sz b

theorem splitBlocks_mem (sz n : Nat) (b : Bytes) (h : b.length = sz * n) : ∀ x ∈ splitBlocks sz n b, x.length = sz := by
  induction n generalizing b with
  | zero => simp [splitBlocks]
  | succ n ih =>
    intro x hx
    simp only [splitBlocks, List.mem_cons] at hx
    rcases hx with rfl | hx
    · simp [h, Nat.mul_succ]
    · exact ih (b.drop sz) (by simp [h, Nat.mul_succ]) x hx

theorem zeroPad256_length (m : Bytes) : (zeroPad 256 m).length = 256 * ((zeroPad 256 m).length / 256) := by
  have := zeroPad_length_mod 256 (by decide) m
  omega

theorem dataBlocks_flatten (total : Bytes) : (dataBlocks total).flatten = zeroPad 256 total := by
  simp only [dataBlocks, Sb31Consts.chunkLen]
  exact splitBlocks_flatten _ _ _ (zeroPad256_length total)

theorem dataBlocks_mem (total : Bytes) : ∀ x ∈ dataBlocks total, x.length = 256 := by
  simp only [dataBlocks, Sb31Consts.chunkLen]
  exact splitBlocks_mem _ _ _ (zeroPad256_length total)

/-- number of blocks = ⌈length / 256⌉ -/
theorem dataBlocks_length (total : Bytes) : (dataBlocks total).length = (total.length + 255) / 256 := by
  simp only [dataBlocks, Sb31Consts.chunkLen, splitBlocks_length, zeroPad, List.length_append, zeros_length]
  omega

/-! ## key derivation: the documented formula is what the code computes -/

theorem kdfInput_eq (const rights : Nat) (blk : Bool) (keyBits iter : Nat) (hr : rights < 4)
    (hk : keyBits = 128 ∨ keyBits = 256) :
    kdfInput const rights blk keyBits iter =
      Sb31Consts.kdfData const rights (if blk then Sb31Consts.kdfModeBlk else Sb31Consts.kdfModeKdk) keyBits iter := by
  have hr' : rights = 0 ∨ rights = 1 ∨ rights = 2 ∨ rights = 3 := by omega
  rcases hr' with rfl | rfl | rfl | rfl <;> rcases hk with rfl | rfl <;> cases blk <;>
    simp [kdfInput, Sb31Consts.kdfData, Sb31Consts.kdfModeBlk, Sb31Consts.kdfModeKdk, beEnc, zeros]

theorem kdf_eq (c : CryptoOps) (key : Bytes) (const rights : Nat) (blk : Bool) (keyBits : Nat) (hr : rights < 4)
    (hk : keyBits = 128 ∨ keyBits = 256) :
    kdf c key const rights blk keyBits =
      deriveKey c key const rights (if blk then Sb31Consts.kdfModeBlk else Sb31Consts.kdfModeKdk) keyBits := by
  have e1 := kdfInput_eq const rights blk keyBits 1 hr hk
  have e2 := kdfInput_eq const rights blk keyBits 2 hr hk
  rcases hk with rfl | rfl <;>
    simp [kdf, deriveKey, Sb31Consts.kdfIterationsFor, List.find?, List.flatMap, e1, e2]

/-! ## hash chain -/

theorem algOfCoord_size (hl : Nat) (h : hl = 32 ∨ hl = 48) : (algOfCoord hl).size = hl := by
  rcases h with rfl | rfl <;> simp [algOfCoord, HashAlg.size]

theorem hashAlgOf_eq (hl : Nat) : hashAlgOf hl = algOfCoord hl := rfl

theorem buildChain_fst_length {c : CryptoOps} (hc : CryptoLaws c) (s : ObjState) (start : Bytes) (hl : Nat)
    (hhl : s.cfg.hashLen = hl) (h : hl = 32 ∨ hl = 48) (hs : start.length = hl) (i : Nat) (blocks : List Bytes) :
    (buildChain c s start i blocks).1.length = hl := by
  cases blocks with
  | nil => simpa [buildChain] using hs
  | cons b bs => simp [buildChain, hc.hash_len, hhl, hashAlgOf_eq, algOfCoord_size hl h]

theorem buildChain_block_length {c : CryptoOps} (hc : CryptoLaws c) (s : ObjState) (start : Bytes) (hl : Nat)
    (hhl : s.cfg.hashLen = hl) (h : hl = 32 ∨ hl = 48) (hs : start.length = hl)
    (henc : ∀ j b, b.length = 256 → (encPayload c s j b).length = 256) :
    ∀ (blocks : List Bytes) (i : Nat), (∀ b ∈ blocks, b.length = 256) →
      ∀ x ∈ (buildChain c s start i blocks).2, x.length = 4 + hl + 256 := by
  intro blocks
  induction blocks with
  | nil => intro i _ x hx; simp [buildChain] at hx
  | cons b bs ih =>
    intro i hb x hx
    simp only [buildChain, List.mem_cons] at hx
    rcases hx with rfl | hx
    · simp [fullBlock, buildChain_fst_length hc s start hl hhl h hs, henc i b (hb b (by simp))]; omega
    · exact ih (i + 1) (fun y hy => hb y (by simp [hy])) x hx

theorem buildChain_length (c : CryptoOps) (s : ObjState) (start : Bytes) :
    ∀ (blocks : List Bytes) (i : Nat), (buildChain c s start i blocks).2.length = blocks.length := by
  intro blocks
  induction blocks with
  | nil => intro i; simp [buildChain]
  | cons b bs ih => intro i; simp [buildChain, ih]

theorem flatten_length_const (l : List Bytes) (n : Nat) (h : ∀ x ∈ l, x.length = n) : l.flatten.length = l.length * n := by
  induction l with
  | nil => simp
  | cons x xs ih =>
    simp only [List.flatten_cons, List.length_append, List.length_cons]
    rw [ih (fun y hy => h y (by simp [hy])), h x (by simp), Nat.succ_mul]; omega

/-- the forward walk of the loader over the chain built backwards by the exporter returns the plaintext -/
theorem walk_buildChain {c : CryptoOps} (hc : CryptoLaws c) (s : ObjState) (hl : Nat)
    (hhl : s.cfg.hashLen = hl) (h : hl = 32 ∨ hl = 48) (dec : Nat → Bytes → Bytes)
    (henc : ∀ j b, b.length = 256 → (encPayload c s j b).length = 256)
    (hdec : ∀ j b, b.length = 256 → dec j (encPayload c s j b) = b) :
    ∀ (blocks : List Bytes) (i : Nat), (∀ b ∈ blocks, b.length = 256) → i + blocks.length ≤ 4294967296 →
      walk c (algOfCoord hl) hl dec blocks.length i (buildChain c s (zeros hl) i blocks).1
        (buildChain c s (zeros hl) i blocks).2.flatten = .ok blocks.flatten := by
  intro blocks
  induction blocks with
  | nil => intro i _ _; simp [buildChain, walk, check, bind, Except.bind, pure, Except.pure]
  | cons b bs ih =>
    intro i hb hi
    have hb0 : b.length = 256 := hb b (by simp)
    have hi' : i < 4294967296 := by simp at hi; omega
    have hfl := buildChain_fst_length hc s (zeros hl) hl hhl h (by simp) (i + 1) bs
    simp only [buildChain, List.flatten_cons, List.length_cons, walk, bind, Except.bind]
    rw [takeB_append _ _ _ (by simp [fullBlock, hfl, henc i b hb0]; omega)]
    simp only [check, hashAlgOf_eq, hhl, beq_self_eq_true, if_true, fullBlock, List.append_assoc]
    rw [takeU_u32 _ _ hi']
    simp only [beq_self_eq_true, if_true]
    rw [takeB_append _ _ _ hfl]
    simp only []
    rw [ih (i + 1) (fun y hy => hb y (by simp [hy])) (by simp at hi; omega)]
    simp [hdec i b hb0, pure, Except.pure]

/-! ## payload encryption -/

theorem encPayload_length {c : CryptoOps} (hc : CryptoLaws c) (s : ObjState) (j : Nat) (b : Bytes) (hb : b.length = 256) :
    (encPayload c s j b).length = 256 := by
  unfold encPayload
  split
  · rw [cbcEnc_length hc, zeroPad16, zeroPad_of_aligned 16 b (by omega), hb]
  · exact hb

theorem keyBitsOf_cases (hl : Nat) : keyBitsOf hl = 128 ∨ keyBitsOf hl = 256 := by
  unfold keyBitsOf; split <;> simp

/-- the device decrypts block `j` with the key the exporter encrypted it with -/
theorem decFn_encPayload {c : CryptoOps} (hc : CryptoLaws c) (s : ObjState) (hg : Good c s) (dev : Dev)
    (hpck : dev.pck = s.cfg.pck) (hr : dev.rights = s.cfg.rights) (he : dev.encrypted = s.cfg.encrypted)
    (j : Nat) (b : Bytes) (hb : b.length = 256) :
    decFn c dev s.cfg.timestamp s.cfg.hashLen j (encPayload c s j b) = b := by
  unfold decFn encPayload
  simp only [he]
  cases henc : s.cfg.encrypted with
  | false => simp
  | true =>
    have hr4 := hg.rights henc
    simp only [if_true, hpck, hr]
    rw [kdf_eq c _ _ _ false _ hr4 (keyBitsOf_cases _), kdf_eq c _ _ _ true _ hr4 (keyBitsOf_cases _)]
    simp only [Bool.false_eq_true, if_false, if_true, blockKey, deriveVia, Sb31Consts.blkCall, hg.kdk henc, hg.keyLen]
    rw [zeroPad16, zeroPad_of_aligned 16 b (by omega)]
    exact cbc_inv hc _ _ b (by simp) (by omega)

/-! ## header -/

theorem parseHeader_enc (h : Header) (wf : HeaderWF h) (rest : Bytes) :
    parseHeader (encHeader h ++ rest) = .ok (h, rest) := by
  simp only [encHeader, List.append_assoc, parseHeader, bind, Except.bind, Sb31Consts.hdrMagic,
    Sb31Consts.hdrVersionMajor, Sb31Consts.hdrVersionMinor]
  rw [takeB_append _ _ 4 (by rfl)]
  simp only [check]
  rw [takeU_u16 _ _ (by decide)]
  simp only []
  rw [takeU_u16 _ _ (by decide)]
  simp [takeU_u32, takeU_u64, takeB_append _ _ 16 wf.description, wf.flags, wf.blockCount, wf.blockSize, wf.timestamp,
    wf.fwVersion, wf.totalLength, wf.imageType, wf.certOffset, pure, Except.pure]

theorem adjustDesc_length (d : Bytes) : (adjustDesc d).length = 16 := by
  simp [adjustDesc, Sb31Consts.descLen]; omega

theorem encHeader_length (h : Header) (hd : h.description.length = 16) : (encHeader h).length = 60 := by
  simp [encHeader, Sb31Consts.hdrMagic, hd]

/-! ## block 0 -/

theorem parseBlock0_gen (c : CryptoOps) (rotkh : Bytes) (H : Header) (hwf : HeaderWF H) (hl : Nat)
    (hhl : hl = 32 ∨ hl = 48) (hbs : H.blockSize = 260 + hl) (hco : H.certOffset = 60 + hl)
    (hit : H.imageType = 6 ∨ H.imageType = 7) (hbc : 1 ≤ H.blockCount)
    (h1 cert sig data : Bytes) (hh1 : h1.length = hl) (htot : H.totalLength = 60 + hl + cert.length + 2 * hl)
    (hsig : sig.length = 2 * hl) (ci : CertInfo) (obs : List SigOb) (hcert : romCert c rotkh cert = .ok (ci, obs))
    (hcoord : ci.coord = hl)
    (hver : c.verify (.ecdsa (algOfCoord hl)) ci.signPub (encHeader H ++ (h1 ++ cert)) sig = true) :
    parseBlock0 c rotkh (encHeader H ++ (h1 ++ (cert ++ (sig ++ data)))) =
      if data.length = H.blockCount * H.blockSize
      then .ok ⟨H, hl, h1, obs ++ [⟨hl, ci.signPub, encHeader H ++ (h1 ++ cert), sig⟩], data⟩
      else .error .fileLength := by
  have htake : (encHeader H ++ (h1 ++ (cert ++ (sig ++ data)))).take (H.totalLength - 2 * hl) = encHeader H ++ (h1 ++ cert) := by
    have e : encHeader H ++ (h1 ++ (cert ++ (sig ++ data))) = (encHeader H ++ (h1 ++ cert)) ++ (sig ++ data) := by
      simp [List.append_assoc]
    rw [e]
    apply List.take_left'
    simp [encHeader_length H hwf.description, hh1, htot]; omega
  have hhlv : hashLenOfBlockSize H.blockSize = .ok hl := by
    rcases hhl with rfl | rfl <;> simp [hashLenOfBlockSize, hbs, pure, Except.pure]
  unfold parseBlock0
  simp only [bind, Except.bind, parseHeader_enc H hwf, hhlv, htake]
  have hc1 : (H.certOffset == 60 + hl) = true := by simp [hco]
  have hc2 : (H.imageType == 6 || H.imageType == 7) = true := by rcases hit with h | h <;> simp [h]
  have hc3 : decide (1 ≤ H.blockCount) = true := by simp [hbc]
  have hc4 : decide (60 + hl + 2 * hl ≤ H.totalLength) = true := by simp [htot]
  have hlen : H.totalLength - 2 * hl - (60 + hl) = cert.length := by omega
  simp only [check, hc1, hc2, hc3, hc4, if_true, takeB_append h1 _ hl hh1, hlen, takeB_append cert _ _ rfl,
    takeB_append sig data _ hsig, hcert, hcoord, beq_self_eq_true, hver, pure, Except.pure]
  by_cases hd : data.length = H.blockCount * H.blockSize
  · simp [hd]
  · simp [hd]

theorem parseBlock0_ok (c : CryptoOps) (rotkh : Bytes) (H : Header) (hwf : HeaderWF H) (hl : Nat)
    (hhl : hl = 32 ∨ hl = 48) (hbs : H.blockSize = 260 + hl) (hco : H.certOffset = 60 + hl)
    (hit : H.imageType = 6 ∨ H.imageType = 7) (hbc : 1 ≤ H.blockCount)
    (h1 cert sig data : Bytes) (hh1 : h1.length = hl) (htot : H.totalLength = 60 + hl + cert.length + 2 * hl)
    (hsig : sig.length = 2 * hl) (ci : CertInfo) (obs : List SigOb) (hcert : romCert c rotkh cert = .ok (ci, obs))
    (hcoord : ci.coord = hl)
    (hver : c.verify (.ecdsa (algOfCoord hl)) ci.signPub (encHeader H ++ (h1 ++ cert)) sig = true)
    (hdata : data.length = H.blockCount * H.blockSize) :
    parseBlock0 c rotkh (encHeader H ++ (h1 ++ (cert ++ (sig ++ data)))) =
      .ok ⟨H, hl, h1, obs ++ [⟨hl, ci.signPub, encHeader H ++ (h1 ++ cert), sig⟩], data⟩ := by
  rw [parseBlock0_gen c rotkh H hwf hl hhl hbs hco hit hbc h1 cert sig data hh1 htot hsig ci obs hcert hcoord hver, if_pos hdata]

/-! ## the export as a whole -/

/-- `update()` recomputes the length of block 0 from scratch: no dependence on the value left by an earlier export.
    (Generated from the source; an accumulating `+=` makes this lemma, and everything below, fail.) -/
theorem updTotalLength_eq (old h cert : Nat) : Sb31Consts.updTotalLength old h cert = 60 + h + cert + 2 * h := by
  simp only [Sb31Consts.updTotalLength] <;> omega

/-- the chain of every export starts from the all-zero hash, not from the hash left by an earlier export -/
theorem chainStartHash_eq (old : Bytes) (h : Nat) : Sb31Consts.chainStartHash old h = zeros h := rfl

/-- the per-hash-length layout functions (generated by executing the properties for both hash lengths) -/
theorem layout_eq (h : Nat) (hh : h = 32 ∨ h = 48) :
    Sb31Consts.certBlockOffset h = 60 + h ∧ Sb31Consts.blockSize h = 260 + h := by
  rcases hh with rfl | rfl <;> exact ⟨by decide, by decide⟩

theorem headerOf_eq (s : ObjState) (hh : s.cfg.hashLen = 32 ∨ s.cfg.hashLen = 48) :
    headerOf s (dataBlocks (cmdStream s.cmds)).length
      (Sb31Consts.updTotalLength s.totalLength s.cfg.hashLen s.cfg.cert.length) = hdrSpec s := by
  have hl := layout_eq _ hh
  have hi : (if s.cfg.isNxp then Sb31Consts.imageTypeNxp else Sb31Consts.imageTypeOem) = if s.cfg.isNxp then 7 else 6 := by
    cases s.cfg.isNxp <;> decide
  unfold headerOf hdrSpec
  rw [hl.1, hl.2, hi, dataBlocks_length, cmdStream_length, updTotalLength_eq]

theorem exportSb_bytes (c : CryptoOps) (s : ObjState) (r : Rand) (hh : s.cfg.hashLen = 32 ∨ s.cfg.hashLen = 48) :
    (exportSb c s r).2 =
      encHeader (hdrSpec s) ++ ((chainOf c s).1 ++ (s.cfg.cert ++ (sigOf c s r ++ (chainOf c s).2.flatten))) := by
  simp only [exportSb, headerOf_eq s hh, chainStartHash_eq, sigOf, signedOf, chainOf, List.append_assoc]

theorem exportSb_state (c : CryptoOps) (s : ObjState) (r : Rand) :
    (exportSb c s r).1.cfg = s.cfg ∧ (exportSb c s r).1.cmds = s.cmds ∧ (exportSb c s r).1.keyLen = s.keyLen ∧
    (exportSb c s r).1.kdk = s.kdk := by
  simp [exportSb]

theorem streamLen_eq (cs : List Cmd) : streamLen cs = 16 + (cmdBytes cs).length := by
  simp [streamLen, cmdBytes_length]

theorem hdrSpec_wf {c : CryptoOps} (s : ObjState) (hg : Good c s) (wf : StateWF c s) : HeaderWF (hdrSpec s) := by
  have hsz := wf.size
  have := streamLen_eq s.cmds
  rcases hg.hl with h | h <;>
  exact ⟨wf.flags, by simp only [hdrSpec]; omega, by simp only [hdrSpec]; omega, wf.timestamp, wf.fwVersion,
    by have := wf.cert; simp only [hdrSpec]; omega, by simp only [hdrSpec]; split <;> omega, by simp only [hdrSpec]; omega,
    adjustDesc_length _⟩

theorem romLoad_export {c : CryptoOps} (hc : CryptoLaws c) (s : ObjState) (hg : Good c s) (wf : StateWF c s)
    (dev : Dev) (obs : List SigOb) (hd : DevOK c dev s obs) (r : Rand) :
    romLoad c dev (exportSb c s r).2 =
      .ok ⟨hdrSpec s, s.cmds, obs ++ [⟨s.cfg.hashLen, c.pubOf s.cfg.sk, signedOf c s, sigOf c s r⟩]⟩ := by
  have hhl := hg.hl
  have hHwf := hdrSpec_wf s hg wf
  have hblocks := dataBlocks_mem (cmdStream s.cmds)
  have hh1 : (chainOf c s).1.length = s.cfg.hashLen :=
    buildChain_fst_length hc s _ _ rfl hhl (by simp) _ _
  have hbl := buildChain_block_length hc s (zeros s.cfg.hashLen) _ rfl hhl (by simp)
    (fun j b hb => encPayload_length hc s j b hb) (dataBlocks (cmdStream s.cmds)) 1 hblocks
  have hdata : (chainOf c s).2.flatten.length = (hdrSpec s).blockCount * (hdrSpec s).blockSize := by
    rw [chainOf, flatten_length_const _ _ hbl, buildChain_length, dataBlocks_length, cmdStream_length]
    simp only [hdrSpec]; congr 1; omega
  have hbc : 1 ≤ (hdrSpec s).blockCount := by
    simp only [hdrSpec, streamLen]; omega
  have hb0 := parseBlock0_ok c dev.rotkh (hdrSpec s) hHwf s.cfg.hashLen hhl rfl rfl
    (by simp only [hdrSpec]; split <;> simp) hbc (chainOf c s).1 s.cfg.cert (sigOf c s r) (chainOf c s).2.flatten
    hh1 rfl (wf.sigLen _ _) _ obs hd.cert rfl (hc.verify_sign _ _ _ _) hdata
  rw [exportSb_bytes _ _ _ hg.hl]
  unfold romLoad
  simp only [bind, Except.bind, hb0]
  have hw := walk_buildChain hc s s.cfg.hashLen rfl hhl (decFn c dev s.cfg.timestamp s.cfg.hashLen)
    (fun j b hb => encPayload_length hc s j b hb)
    (fun j b hb => decFn_encPayload hc s hg dev hd.pck hd.rights hd.encrypted j b hb)
    (dataBlocks (cmdStream s.cmds)) 1 hblocks (by
      rw [dataBlocks_length, cmdStream_length, streamLen_eq]; have := wf.size; omega)
  have hbcl : (hdrSpec s).blockCount = (dataBlocks (cmdStream s.cmds)).length := by
    rw [dataBlocks_length, cmdStream_length]; rfl
  have hts : (hdrSpec s).timestamp = s.cfg.timestamp := rfl
  simp only [hbcl, hts]
  rw [show (chainOf c s) = buildChain c s (zeros s.cfg.hashLen) 1 (dataBlocks (cmdStream s.cmds)) from rfl] at *
  rw [hw]
  simp only [dataBlocks_flatten, parseStream_enc s.cmds wf.cmds wf.size]
  rfl

/-! ## chain, coverage, histories -/

theorem buildChain_chained {c : CryptoOps} (hc : CryptoLaws c) (s : ObjState) (hhl : s.cfg.hashLen = 32 ∨ s.cfg.hashLen = 48) :
    ∀ (blocks : List Bytes) (i : Nat), (∀ b ∈ blocks, b.length = 256) →
      Chained c (algOfCoord s.cfg.hashLen) s.cfg.hashLen i
        (buildChain c s (zeros s.cfg.hashLen) i blocks).1 (buildChain c s (zeros s.cfg.hashLen) i blocks).2 := by
  intro blocks
  induction blocks with
  | nil => intro i _; exact Chained.last i
  | cons b bs ih =>
    intro i hb
    simp only [buildChain, fullBlock, List.append_assoc, hashAlgOf_eq]
    exact Chained.block i _ _ _ (buildChain_fst_length hc s _ _ rfl hhl (by simp) _ _)
      (encPayload_length hc s i b (hb b (by simp))) (ih (i + 1) (fun y hy => hb y (by simp [hy])))

theorem tiles_append (a m b : Nat) (l₁ l₂ : List (Nat × Nat)) (h₁ : Tiles a l₁ m) (h₂ : Tiles m l₂ b) : Tiles a (l₁ ++ l₂) b := by
  induction l₁ generalizing a with
  | nil => simp only [Tiles] at h₁; subst h₁; simpa using h₂
  | cons p ps ih => exact ⟨h₁.1, ih _ h₁.2⟩

theorem tiles_blocks (a bs : Nat) : ∀ n, Tiles a ((List.range n).map (fun i => (a + i * bs, bs))) (a + n * bs) := by
  intro n
  induction n with
  | zero => simp [Tiles]
  | succ n ih =>
    rw [List.range_succ, List.map_append]
    refine tiles_append _ _ _ _ _ ih ?_
    simp [Tiles, Nat.succ_mul]; omega

theorem tiles_cover (l : List (Nat × Nat)) : ∀ a b, Tiles a l b → ∀ j, a ≤ j → j < b → ∃ p ∈ l, p.1 ≤ j ∧ j < p.1 + p.2 := by
  induction l with
  | nil => intro a b h j h1 h2; simp only [Tiles] at h; omega
  | cons p ps ih =>
    intro a b h j h1 h2
    by_cases hj : j < a + p.2
    · exact ⟨p, by simp, by have := h.1; omega, by have := h.1; omega⟩
    · obtain ⟨q, hq, hq1, hq2⟩ := ih _ _ h.2 j (by omega) h2
      exact ⟨q, by simp [hq], hq1, hq2⟩

theorem export_length {c : CryptoOps} (hc : CryptoLaws c) (s : ObjState) (hg : Good c s) (wf : StateWF c s) (r : Rand) :
    (exportSb c s r).2.length = (hdrSpec s).totalLength + (hdrSpec s).blockCount * (hdrSpec s).blockSize := by
  have hbl := buildChain_block_length hc s (zeros s.cfg.hashLen) _ rfl hg.hl (by simp)
    (fun j b hb => encPayload_length hc s j b hb) (dataBlocks (cmdStream s.cmds)) 1 (dataBlocks_mem _)
  have hH : (encHeader (hdrSpec s)).length = 60 := encHeader_length _ (adjustDesc_length _)
  rw [exportSb_bytes _ _ _ hg.hl]
  simp only [List.length_append, hH, sigOf, wf.sigLen,
    buildChain_fst_length hc s _ _ rfl hg.hl (by simp : (zeros s.cfg.hashLen).length = s.cfg.hashLen), chainOf,
    flatten_length_const _ _ hbl, buildChain_length, dataBlocks_length, cmdStream_length]
  simp only [hdrSpec]
  have : 4 + s.cfg.hashLen + 256 = 260 + s.cfg.hashLen := by omega
  rw [this]; omega

theorem newObj_good (c : CryptoOps) (cfg : Cfg) (s : ObjState) (h : newObj c cfg = .ok s) :
    Good c s ∧ s.cfg = cfg ∧ s.cmds = [] := by
  unfold newObj at h
  cases hk : lookup Sb31Consts.keyLenOfHash cfg.hashLen with
  | none => simp [hk] at h
  | some keyLen =>
    simp only [hk] at h
    have hcases : (cfg.hashLen = 32 ∧ keyLen = 128) ∨ (cfg.hashLen = 48 ∧ keyLen = 256) := by
      simp only [lookup, Sb31Consts.keyLenOfHash, List.find?] at hk
      by_cases h1 : cfg.hashLen = 32
      · simp [h1] at hk; exact Or.inl ⟨h1, hk.symm⟩
      · by_cases h2 : cfg.hashLen = 48
        · simp [h2] at hk; exact Or.inr ⟨h2, hk.symm⟩
        · have e1 : ((32 : Nat) == cfg.hashLen) = false := by simp; omega
          have e2 : ((48 : Nat) == cfg.hashLen) = false := by simp; omega
          simp [e1, e2] at hk
    split at h
    · simp at h
    · rename_i hr
      injection h with h
      subst h
      refine ⟨⟨?_, ?_, ?_, ?_⟩, rfl, rfl⟩
      · rcases hcases with ⟨a, _⟩ | ⟨a, _⟩ <;> simp [a]
      · rcases hcases with ⟨a, b⟩ | ⟨a, b⟩ <;> simp [a, b, keyBitsOf]
      · intro he
        have he' : cfg.encrypted = true := he
        simp [he', Sb31Consts.kdfRights] at hr
        show cfg.rights < 4
        omega
      · intro he
        have he' : cfg.encrypted = true := he
        simp [he', deriveVia, Sb31Consts.kdkCall, Sb31Consts.kdfModeKdk]

theorem step_frame (c : CryptoOps) (s : ObjState) (op : Op) :
    (step c s op).cfg = s.cfg ∧ (step c s op).keyLen = s.keyLen ∧ (step c s op).kdk = s.kdk ∧
    (step c s op).cmds = s.cmds ++ addsOf [op] := by
  cases op <;> simp [step, addCmd, exportSb, addsOf]

theorem addsOf_cons (op : Op) (ops : List Op) : addsOf (op :: ops) = addsOf [op] ++ addsOf ops := by
  cases op <;> simp [addsOf]

/-- no method changes the configuration or the derived keys; the command list only grows by the added commands -/
theorem run_frame (c : CryptoOps) (ops : List Op) : ∀ (s : ObjState),
    (run c s ops).cfg = s.cfg ∧ (run c s ops).keyLen = s.keyLen ∧ (run c s ops).kdk = s.kdk ∧
    (run c s ops).cmds = s.cmds ++ addsOf ops := by
  induction ops with
  | nil => intro s; simp [run, addsOf]
  | cons op ops ih =>
    intro s
    have h1 := step_frame c s op
    have h2 := ih (step c s op)
    simp only [run, List.foldl_cons] at h2 ⊢
    rw [addsOf_cons]
    refine ⟨h2.1.trans h1.1, h2.2.1.trans h1.2.1, h2.2.2.1.trans h1.2.2.1, ?_⟩
    rw [h2.2.2.2, h1.2.2.2, List.append_assoc]

theorem good_of_frame {c : CryptoOps} (s s' : ObjState) (hg : Good c s) (h1 : s'.cfg = s.cfg) (h2 : s'.keyLen = s.keyLen)
    (h3 : s'.kdk = s.kdk) : Good c s' := by
  refine ⟨?_, ?_, ?_, ?_⟩
  · rw [h1]; exact hg.hl
  · rw [h1, h2]; exact hg.keyLen
  · rw [h1]; exact hg.rights
  · rw [h1, h2, h3]; exact hg.kdk

theorem run_good {c : CryptoOps} (s : ObjState) (hg : Good c s) (ops : List Op) : Good c (run c s ops) :=
  let h := run_frame c ops s
  good_of_frame s _ hg h.1 h.2.1 h.2.2.1


/-! ## binding: one signature authenticates the data blocks -/

theorem takeB_ok {n : Nat} {b x r : Bytes} (h : takeB n b = .ok (x, r)) : b = x ++ r ∧ x.length = n := by
  unfold takeB at h
  split at h
  · injection h with h; injection h with h1 h2
    subst h1; subst h2
    exact ⟨(List.take_append_drop n b).symm, by simp; omega⟩
  · cases h

theorem takeU_ok {n : Nat} {b r : Bytes} {v : Nat} (h : takeU n b = .ok (v, r)) : b = b.take n ++ r ∧ v = leDec (b.take n) := by
  unfold takeU at h
  split at h
  · injection h with h; injection h with h1 h2
    subst h1; subst h2
    exact ⟨(List.take_append_drop n b).symm, rfl⟩
  · cases h

theorem check_ok {b : Bool} {e : RomErr} (h : check b e = .ok ()) : b = true := by
  unfold check at h; split at h <;> simp_all

theorem bind_ok {α β : Type} {x : R α} {f : α → R β} {b : β} :
    (x >>= f) = .ok b ↔ ∃ a, x = .ok a ∧ f a = .ok b := by
  cases x <;> simp [bind, Except.bind]

/-- two byte strings that the chain walk accepts from the same anchor (number of blocks, first block number,
    expected hash of the first block) are equal — or two different blocks with the same digest are exhibited -/
theorem walk_binding (c : CryptoOps) (alg : HashAlg) (hl : Nat) (dec : Nat → Bytes → Bytes) :
    ∀ (k i : Nat) (expected rest₁ rest₂ out₁ out₂ : Bytes),
      walk c alg hl dec k i expected rest₁ = .ok out₁ → walk c alg hl dec k i expected rest₂ = .ok out₂ →
      rest₁ = rest₂ ∨ Break c := by
  intro k
  induction k with
  | zero =>
    intro i expected rest₁ rest₂ out₁ out₂ h₁ h₂
    simp only [walk, bind_ok] at h₁ h₂
    obtain ⟨_, _, _, a, _⟩ := h₁
    obtain ⟨_, _, _, b, _⟩ := h₂
    have a := check_ok a
    have b := check_ok b
    left
    simp only [List.isEmpty_iff] at a b
    rw [a, b]
  | succ k ih =>
    intro i expected rest₁ rest₂ out₁ out₂ h₁ h₂
    simp only [walk, bind_ok] at h₁ h₂
    obtain ⟨⟨blk₁, r₁⟩, t₁, _, hh₁, ⟨num₁, b₁⟩, u₁, _, _, ⟨next₁, pay₁⟩, n₁, more₁, w₁, _⟩ := h₁
    obtain ⟨⟨blk₂, r₂⟩, t₂, _, hh₂, ⟨num₂, b₂⟩, u₂, _, _, ⟨next₂, pay₂⟩, n₂, more₂, w₂, _⟩ := h₂
    have e₁ := takeB_ok t₁
    have e₂ := takeB_ok t₂
    have hh₁ := check_ok hh₁
    have hh₂ := check_ok hh₂
    simp only [beq_iff_eq] at hh₁ hh₂
    by_cases hb : blk₁ = blk₂
    · subst hb
      have hu : (num₁, b₁) = (num₂, b₂) := by
        have := u₁.symm.trans u₂; injection this
      injection hu with _ hb'
      subst hb'
      have hn : (next₁, pay₁) = (next₂, pay₂) := by
        have := n₁.symm.trans n₂; injection this
      injection hn with hn' _
      subst hn'
      rcases ih (i + 1) next₁ r₁ r₂ more₁ more₂ w₁ w₂ with h | h
      · left; rw [e₁.1, e₂.1, h]
      · right; exact h
    · right
      exact Break.collision alg blk₁ blk₂ hb (hh₁.trans hh₂.symm)


/-- keep block 0 of an exported file (header, hash, certificate block, signature) and replace everything after it:
    if the loader still accepts, the replacement IS the exported blocks -- or a hash collision is exhibited -/
theorem tamper_blocks_detected {c : CryptoOps} (hc : CryptoLaws c) (s : ObjState) (hg : Good c s) (wf : StateWF c s)
    (dev : Dev) (obs : List SigOb) (hd : DevOK c dev s obs) (r : Rand) (rest' : Bytes) (res : RomOk)
    (h : romLoad c dev (signedOf c s ++ (sigOf c s r ++ rest')) = .ok res) :
    rest' = (chainOf c s).2.flatten ∨ Break c := by
  have hhl := hg.hl
  have hblocks := dataBlocks_mem (cmdStream s.cmds)
  have hh1 : (chainOf c s).1.length = s.cfg.hashLen := buildChain_fst_length hc s _ _ rfl hhl (by simp) _ _
  have hbc : 1 ≤ (hdrSpec s).blockCount := by simp only [hdrSpec, streamLen]; omega
  have hb0 := parseBlock0_gen c dev.rotkh (hdrSpec s) (hdrSpec_wf s hg wf) s.cfg.hashLen hhl rfl rfl
    (by simp only [hdrSpec]; split <;> simp) hbc (chainOf c s).1 s.cfg.cert (sigOf c s r) rest'
    hh1 rfl (wf.sigLen _ _) _ obs hd.cert rfl (hc.verify_sign _ _ _ _)
  have e : signedOf c s ++ (sigOf c s r ++ rest') =
      encHeader (hdrSpec s) ++ ((chainOf c s).1 ++ (s.cfg.cert ++ (sigOf c s r ++ rest'))) := by
    simp [signedOf, List.append_assoc]
  rw [e] at h
  unfold romLoad at h
  simp only [bind_ok] at h
  obtain ⟨b0, hp, stream, hw, _⟩ := h
  rw [hb0] at hp
  split at hp
  · injection hp with hp
    subst hp
    have hg' := walk_buildChain hc s s.cfg.hashLen rfl hhl (decFn c dev s.cfg.timestamp s.cfg.hashLen)
      (fun j b hb => encPayload_length hc s j b hb)
      (fun j b hb => decFn_encPayload hc s hg dev hd.pck hd.rights hd.encrypted j b hb)
      (dataBlocks (cmdStream s.cmds)) 1 hblocks (by
        rw [dataBlocks_length, cmdStream_length, streamLen_eq]; have := wf.size; omega)
    have hbcl : (hdrSpec s).blockCount = (dataBlocks (cmdStream s.cmds)).length := by
      rw [dataBlocks_length, cmdStream_length]; rfl
    have hts : (hdrSpec s).timestamp = s.cfg.timestamp := rfl
    simp only [hbcl, hts] at hw
    exact walk_binding c _ _ _ _ _ _ _ _ _ _ hw hg'
  · cases hp

/-! ## binding of the manifest: inversion of block 0, reduction to a signature forgery -/

theorem takeU_ok' {n : Nat} {b r : Bytes} {v : Nat} (h : takeU n b = .ok (v, r)) : ∃ x, b = x ++ r ∧ x.length = n := by
  unfold takeU at h
  split at h
  · injection h with h; injection h with h1 h2
    subst h2
    exact ⟨b.take n, (List.take_append_drop n b).symm, by simp; omega⟩
  · cases h

theorem parseHeader_inv (file b : Bytes) (hdr : Header) (h : parseHeader file = .ok (hdr, b)) :
    ∃ p, file = p ++ b ∧ p.length = 60 := by
  unfold parseHeader at h
  simp only [bind_ok] at h
  obtain ⟨⟨m1, b1⟩, t1, _, _, ⟨_, b2⟩, t2, ⟨_, b3⟩, t3, _, _, ⟨_, b4⟩, t4, ⟨_, b5⟩, t5, ⟨_, b6⟩, t6, ⟨_, b7⟩, t7,
    ⟨_, b8⟩, t8, ⟨_, b9⟩, t9, ⟨_, b10⟩, t10, ⟨_, b11⟩, t11, ⟨d12, b12⟩, t12, hp⟩ := h
  dsimp only at t1 t2 t3 t4 t5 t6 t7 t8 t9 t10 t11 t12 hp
  simp only [pure, Except.pure] at hp
  injection hp with hp
  injection hp with _ hb
  subst hb
  have e1 := takeB_ok t1
  obtain ⟨x2, e2, l2⟩ := takeU_ok' t2
  obtain ⟨x3, e3, l3⟩ := takeU_ok' t3
  obtain ⟨x4, e4, l4⟩ := takeU_ok' t4
  obtain ⟨x5, e5, l5⟩ := takeU_ok' t5
  obtain ⟨x6, e6, l6⟩ := takeU_ok' t6
  obtain ⟨x7, e7, l7⟩ := takeU_ok' t7
  obtain ⟨x8, e8, l8⟩ := takeU_ok' t8
  obtain ⟨x9, e9, l9⟩ := takeU_ok' t9
  obtain ⟨x10, e10, l10⟩ := takeU_ok' t10
  obtain ⟨x11, e11, l11⟩ := takeU_ok' t11
  have e12 := takeB_ok t12
  refine ⟨m1 ++ (x2 ++ (x3 ++ (x4 ++ (x5 ++ (x6 ++ (x7 ++ (x8 ++ (x9 ++ (x10 ++ (x11 ++ d12)))))))))), ?_, ?_⟩
  · rw [e1.1, e2, e3, e4, e5, e6, e7, e8, e9, e10, e11, e12.1]; simp only [List.append_assoc]
  · simp only [List.length_append, e1.2, l2, l3, l4, l5, l6, l7, l8, l9, l10, l11, e12.2]

/-- what an accepted block 0 was accepted for: the file splits as `manifest ‖ signature ‖ data blocks`, the
    manifest is the prefix that ends where the signature field begins, and exactly that signature was verified
    over exactly that prefix (last obligation) -/
theorem parseBlock0_inv (c : CryptoOps) (rotkh file : Bytes) (b0 : Block0) (h : parseBlock0 c rotkh file = .ok b0) :
    ∃ (pub sig : Bytes) (obs : List SigOb),
      b0.obs = obs ++ [⟨b0.hl, pub, file.take (b0.hdr.totalLength - 2 * b0.hl), sig⟩] ∧
      c.verify (.ecdsa (algOfCoord b0.hl)) pub (file.take (b0.hdr.totalLength - 2 * b0.hl)) sig = true ∧
      sig.length = 2 * b0.hl ∧
      file = file.take (b0.hdr.totalLength - 2 * b0.hl) ++ (sig ++ b0.rest) ∧
      (file.take (b0.hdr.totalLength - 2 * b0.hl)).length = b0.hdr.totalLength - 2 * b0.hl ∧
      2 * b0.hl ≤ b0.hdr.totalLength := by
  unfold parseBlock0 at h
  simp only [bind_ok] at h
  obtain ⟨⟨hdr, b⟩, hh, hl, _, _, _, _, _, _, _, ⟨h1, b1⟩, th1, _, htl, ⟨cert, b2⟩, tc, ⟨sig, b3⟩, hs, ⟨ci, obs⟩, _, _, _, _,
    hv, _, _, hp⟩ := h
  dsimp only at th1 tc hs htl hv hp
  have hv := check_ok hv
  have htl := check_ok htl
  simp only [decide_eq_true_eq] at htl
  have hs := takeB_ok hs
  have tc := takeB_ok tc
  have th1 := takeB_ok th1
  obtain ⟨p, hp60, lp⟩ := parseHeader_inv _ _ _ hh
  simp only [pure, Except.pure] at hp
  injection hp with hp
  subst hp
  refine ⟨ci.signPub, sig, obs, rfl, hv, hs.2, ?_⟩
  dsimp only
  have e : file = (p ++ (h1 ++ cert)) ++ (sig ++ b3) := by
    rw [hp60, th1.1, tc.1, hs.1]; simp only [List.append_assoc]
  have l : (p ++ (h1 ++ cert)).length = hdr.totalLength - 2 * hl := by
    simp only [List.length_append, lp, th1.2, tc.2]; omega
  have : file.take (hdr.totalLength - 2 * hl) = p ++ (h1 ++ cert) := by
    rw [e]; exact List.take_left' l
  rw [this]; exact ⟨e, l, by omega⟩

theorem romLoad_inv (c : CryptoOps) (dev : Dev) (file : Bytes) (res : RomOk) (h : romLoad c dev file = .ok res) :
    ∃ b0, parseBlock0 c dev.rotkh file = .ok b0 ∧ res.hdr = b0.hdr ∧ res.obligations = b0.obs := by
  unfold romLoad at h
  simp only [bind_ok] at h
  obtain ⟨b0, hb, _, _, _, _, hp⟩ := h
  simp only [pure, Except.pure] at hp
  injection hp with hp
  subst hp
  exact ⟨b0, hb, rfl, rfl⟩

theorem getLast_append_single {α} (l : List α) (a : α) : (l ++ [a]).getLast? = some a := by simp

/-- ONE SIGNATURE AUTHENTICATES THE WHOLE FILE.  Any file the loader accepts on the strength of the genuine
    signature of an export (same signing key, same signature bytes in its signature field) IS that export —
    otherwise a signature forgery (a different manifest verifying under the old signature) or a hash collision
    (a different data block with the expected digest) is exhibited.  No idealised assumption. -/
theorem whole_file_bound {c : CryptoOps} (hc : CryptoLaws c) (s : ObjState) (hg : Good c s) (wf : StateWF c s)
    (dev : Dev) (obs : List SigOb) (hd : DevOK c dev s obs) (r : Rand) (file' : Bytes) (res : RomOk)
    (h : romLoad c dev file' = .ok res) (ob : SigOb) (hlast : res.obligations.getLast? = some ob)
    (hkey : ob.pub = c.pubOf s.cfg.sk) (hsig : ob.sig = sigOf c s r) :
    file' = (exportSb c s r).2 ∨ Break c := by
  obtain ⟨b0, hb0, _, hobs⟩ := romLoad_inv c dev file' res h
  obtain ⟨pub, sig, obs', hob, hver, hlen, hsplit, _, _⟩ := parseBlock0_inv c dev.rotkh file' b0 hb0
  rw [hobs, hob, getLast_append_single] at hlast
  injection hlast with hlast
  subst hlast
  dsimp only at hkey hsig
  subst hkey; subst hsig
  have hcoord : b0.hl = s.cfg.hashLen := by
    have := wf.sigLen (signedOf c s) r
    simp only [sigOf] at hlen
    omega
  by_cases hm : file'.take (b0.hdr.totalLength - 2 * b0.hl) = signedOf c s
  · rw [hm] at hsplit
    rw [hsplit] at h ⊢
    exact (tamper_blocks_detected hc s hg wf dev obs hd r b0.rest res h).elim
      (fun e => Or.inl (by rw [e, exportSb_bytes _ _ _ hg.hl]; simp [signedOf, List.append_assoc])) Or.inr
  · right
    refine Break.sigForgery (sigAlgOf s.cfg.hashLen) s.cfg.sk (signedOf c s) _ r (fun e => hm e.symm) ?_
    rw [hcoord] at hver ⊢
    exact hver

/-! ## key separation (reductions to a CMAC forgery) -/

/-- the derivation input determines the derivation constant (its first 12 bytes are the constant, little endian) -/
theorem kdfInput_inj_const (n m rights : Nat) (blk : Bool) (keyBits iter : Nat) (hn : n < 256 ^ 12) (hm : m < 256 ^ 12)
    (h : kdfInput n rights blk keyBits iter = kdfInput m rights blk keyBits iter) : n = m := by
  have h12 := congrArg (fun l => leDec (l.take 12)) h
  simp only [kdfInput, List.append_assoc] at h12
  rw [List.take_left' (leEnc_length 12 n), List.take_left' (leEnc_length 12 m), leDec_leEnc _ _ hn, leDec_leEnc _ _ hm] at h12
  exact h12

/-- the derivation input determines the access rights (byte 20 = rights · 64) -/
theorem kdfInput_inj_rights (n r₁ r₂ : Nat) (blk : Bool) (keyBits iter : Nat) (h₁ : r₁ < 4) (h₂ : r₂ < 4)
    (h : kdfInput n r₁ blk keyBits iter = kdfInput n r₂ blk keyBits iter) : r₁ = r₂ := by
  have hb := congrArg (fun l => (l.drop 20).head?) h
  simp only [kdfInput, List.append_assoc] at hb
  have e : ∀ (x : Bytes) (y : Bytes), x.length = 12 → ((x ++ (zeros 8 ++ y)).drop 20) = y := by
    intro x y hx
    rw [← List.append_assoc]; exact List.drop_left' (by simp [hx])
  rw [e _ _ (leEnc_length 12 n), e _ _ (leEnc_length 12 n)] at hb
  simp only [List.cons_append, List.head?_cons, Option.some.injEq] at hb
  have : r₁ = 0 ∨ r₁ = 1 ∨ r₁ = 2 ∨ r₁ = 3 := by omega
  have : r₂ = 0 ∨ r₂ = 1 ∨ r₂ = 2 ∨ r₂ = 3 := by omega
  rcases ‹r₁ = 0 ∨ _› with rfl | rfl | rfl | rfl <;> rcases ‹r₂ = 0 ∨ _› with rfl | rfl | rfl | rfl <;>
    first | rfl | (exact absurd hb (by decide))

/-- equal derived keys come from equal first CMAC blocks -/
theorem kdf_first_block {c : CryptoOps} (hc : CryptoLaws c) (key : Bytes) (a₁ a₂ r₁ r₂ : Nat) (blk : Bool) (keyBits : Nat)
    (h : kdf c key a₁ r₁ blk keyBits = kdf c key a₂ r₂ blk keyBits) :
    cmac c key (kdfInput a₁ r₁ blk keyBits 1) = cmac c key (kdfInput a₂ r₂ blk keyBits 1) := by
  simp only [kdf] at h
  exact List.append_inj_left h (by rw [cmac_length hc, cmac_length hc])

/-- KEY SEPARATION: two blocks get the same key only if they are the same block — or a CMAC forgery is exhibited -/
theorem kdf_sep_const {c : CryptoOps} (hc : CryptoLaws c) (key : Bytes) (n m rights : Nat) (blk : Bool) (keyBits : Nat)
    (hn : n < 256 ^ 12) (hm : m < 256 ^ 12)
    (h : kdf c key n rights blk keyBits = kdf c key m rights blk keyBits) : n = m ∨ Break c := by
  by_cases e : kdfInput n rights blk keyBits 1 = kdfInput m rights blk keyBits 1
  · exact Or.inl (kdfInput_inj_const n m rights blk keyBits 1 hn hm e)
  · exact Or.inr (Break.cmacForgery key _ _ e (kdf_first_block hc key n m rights rights blk keyBits h))

/-- … and keys derived under different access rights differ, or a CMAC forgery is exhibited -/
theorem kdf_sep_rights {c : CryptoOps} (hc : CryptoLaws c) (key : Bytes) (n r₁ r₂ : Nat) (blk : Bool) (keyBits : Nat)
    (h₁ : r₁ < 4) (h₂ : r₂ < 4)
    (h : kdf c key n r₁ blk keyBits = kdf c key n r₂ blk keyBits) : r₁ = r₂ ∨ Break c := by
  by_cases e : kdfInput n r₁ blk keyBits 1 = kdfInput n r₂ blk keyBits 1
  · exact Or.inl (kdfInput_inj_rights n r₁ r₂ blk keyBits 1 h₁ h₂ e)
  · exact Or.inr (Break.cmacForgery key _ _ e (kdf_first_block hc key n n r₁ r₂ blk keyBits h))

/-! ## progress of the command decoder (the only loop of the loader) -/

theorem takeB_len {n : Nat} {b x r : Bytes} (h : takeB n b = .ok (x, r)) : r.length + n = b.length := by
  have := takeB_ok h
  have e := congrArg List.length this.1
  simp only [List.length_append] at e; omega

theorem takeU_len {n : Nat} {b r : Bytes} {v : Nat} (h : takeU n b = .ok (v, r)) : r.length + n = b.length := by
  obtain ⟨x, e, l⟩ := takeU_ok' h
  have e := congrArg List.length e
  simp only [List.length_append] at e; omega

theorem takeData_len {n : Nat} {b d r : Bytes} (h : takeData n b = .ok (d, r)) : r.length ≤ b.length := by
  unfold takeData at h
  simp only [bind_ok] at h
  obtain ⟨⟨_, b1⟩, t1, ⟨_, b2⟩, t2, _, _, hp⟩ := h
  dsimp only at t1 t2 hp
  simp only [pure, Except.pure] at hp
  injection hp with hp; injection hp with _ hb; subst hb
  have := takeB_len t1; have := takeB_len t2; omega

theorem takeWordRes3_len {b r : Bytes} {v : Nat} (h : takeWordRes3 b = .ok (v, r)) : r.length ≤ b.length := by
  unfold takeWordRes3 at h
  simp only [bind_ok] at h
  obtain ⟨⟨_, b1⟩, t1, ⟨_, b2⟩, t2, _, _, hp⟩ := h
  dsimp only at t1 t2 hp
  simp only [pure, Except.pure] at hp
  injection hp with hp; injection hp with _ hb; subst hb
  have := takeU_len t1; have := takeB_len t2; omega


section steps
variable {cmd : Cmd} {rest b : Bytes}

theorem step_U {n : Nat} {f : Nat × Bytes → R (Cmd × Bytes)} (h : (takeU n b >>= f) = .ok (cmd, rest))
    (k : ∀ v b1, b1.length ≤ b.length → f (v, b1) = .ok (cmd, rest) → rest.length ≤ b1.length) : rest.length ≤ b.length := by
  obtain ⟨⟨v, b1⟩, t, hf⟩ := bind_ok.mp h
  have := takeU_len t
  exact Nat.le_trans (k v b1 (by omega) hf) (by omega)

theorem step_B {n : Nat} {f : Bytes × Bytes → R (Cmd × Bytes)} (h : (takeB n b >>= f) = .ok (cmd, rest))
    (k : ∀ v b1, b1.length ≤ b.length → f (v, b1) = .ok (cmd, rest) → rest.length ≤ b1.length) : rest.length ≤ b.length := by
  obtain ⟨⟨v, b1⟩, t, hf⟩ := bind_ok.mp h
  have := takeB_len t
  exact Nat.le_trans (k v b1 (by omega) hf) (by omega)

theorem step_D {n : Nat} {f : Bytes × Bytes → R (Cmd × Bytes)} (h : (takeData n b >>= f) = .ok (cmd, rest))
    (k : ∀ v b1, b1.length ≤ b.length → f (v, b1) = .ok (cmd, rest) → rest.length ≤ b1.length) : rest.length ≤ b.length := by
  obtain ⟨⟨v, b1⟩, t, hf⟩ := bind_ok.mp h
  have := takeData_len t
  exact Nat.le_trans (k v b1 this hf) this

theorem step_W {f : Nat × Bytes → R (Cmd × Bytes)} (h : (takeWordRes3 b >>= f) = .ok (cmd, rest))
    (k : ∀ v b1, b1.length ≤ b.length → f (v, b1) = .ok (cmd, rest) → rest.length ≤ b1.length) : rest.length ≤ b.length := by
  obtain ⟨⟨v, b1⟩, t, hf⟩ := bind_ok.mp h
  have := takeWordRes3_len t
  exact Nat.le_trans (k v b1 this hf) this

theorem step_C {c : Bool} {e : RomErr} {f : Unit → R (Cmd × Bytes)} (h : (check c e >>= f) = .ok (cmd, rest))
    (k : f () = .ok (cmd, rest) → rest.length ≤ b.length) : rest.length ≤ b.length := by
  obtain ⟨_, _, hf⟩ := bind_ok.mp h
  exact k hf

theorem step_P {c : Cmd} (h : (pure (c, b) : R (Cmd × Bytes)) = .ok (cmd, rest)) : rest.length ≤ b.length := by
  have h2 : (Except.ok (c, b) : R (Cmd × Bytes)) = .ok (cmd, rest) := h
  injection h2 with h2; injection h2 with _ hb; rw [← hb]; exact Nat.le_refl _
end steps

theorem parseTail_len (tag w1 w2 : Nat) (b rest : Bytes) (cmd : Cmd) (h : parseTail tag w1 w2 b = .ok (cmd, rest)) :
    rest.length ≤ b.length := by
  unfold parseTail at h
  by_cases h1 : (tag == 1) = true
  · rw [if_pos h1] at h
    exact step_W h (fun _ _ _ h => step_P h)
  rw [if_neg h1] at h
  by_cases h2 : (tag == 2) = true
  · rw [if_pos h2] at h
    exact step_W h (fun _ _ _ h => step_D h (fun _ _ _ h => step_P h))
  rw [if_neg h2] at h
  by_cases h3 : (tag == 3) = true
  · rw [if_pos h3] at h
    exact step_C h (fun h => step_P h)
  rw [if_neg h3] at h
  by_cases h4 : (tag == 4) = true
  · rw [if_pos h4] at h
    exact step_C h (fun h => step_P h)
  rw [if_neg h4] at h
  by_cases h5 : (tag == 5) = true
  · rw [if_pos h5] at h
    exact step_D h (fun _ _ _ h => step_P h)
  rw [if_neg h5] at h
  by_cases h6 : (tag == 6) = true
  · rw [if_pos h6] at h
    exact step_D h (fun _ _ _ h => step_P h)
  rw [if_neg h6] at h
  by_cases h7 : (tag == 7) = true
  · rw [if_pos h7] at h
    exact step_W h (fun _ _ _ h => step_D h (fun _ _ _ h => step_P h))
  rw [if_neg h7] at h
  by_cases h8 : (tag == 8) = true
  · rw [if_pos h8] at h
    exact step_U h (fun _ _ _ h => step_U h (fun _ _ _ h => step_U h (fun _ _ _ h => step_U h (fun _ _ _ h => step_C h (fun h => step_P h)))))
  rw [if_neg h8] at h
  by_cases h9 : (tag == 9) = true
  · rw [if_pos h9] at h
    exact step_W h (fun _ _ _ h => step_D h (fun _ _ _ h => step_B h (fun _ _ _ h => step_C h (fun h => step_P h))))
  rw [if_neg h9] at h
  by_cases h10 : (tag == 10) = true
  · rw [if_pos h10] at h
    exact step_D h (fun _ _ _ h => step_P h)
  rw [if_neg h10] at h
  by_cases h11 : (tag == 11) = true
  · rw [if_pos h11] at h
    exact step_P h
  rw [if_neg h11] at h
  by_cases h12 : (tag == 12) = true
  · rw [if_pos h12] at h
    exact step_W h (fun _ _ _ h => step_P h)
  rw [if_neg h12] at h
  by_cases h13 : (tag == 13) = true
  · rw [if_pos h13] at h
    exact step_P h
  rw [if_neg h13] at h
  by_cases h14 : (tag == 14) = true
  · rw [if_pos h14] at h
    exact step_C h (fun h => step_P h)
  rw [if_neg h14] at h
  cases h

/-- PROGRESS: every command the decoder accepts consumes at least its 16-byte header; an unknown tag is refused -/
theorem parseCmd_progress (b rest : Bytes) (cmd : Cmd) (h : parseCmd b = .ok (cmd, rest)) : rest.length + 16 ≤ b.length := by
  unfold parseCmd at h
  obtain ⟨⟨_, b1⟩, t1, h⟩ := bind_ok.mp h
  obtain ⟨_, _, h⟩ := bind_ok.mp h
  obtain ⟨⟨w1, b2⟩, t2, h⟩ := bind_ok.mp h
  obtain ⟨⟨w2, b3⟩, t3, h⟩ := bind_ok.mp h
  obtain ⟨⟨tag, b4⟩, t4, h⟩ := bind_ok.mp h
  have l1 := takeU_len t1; have l2 := takeU_len t2; have l3 := takeU_len t3; have l4 := takeU_len t4
  have := parseTail_len _ _ _ _ _ _ h
  try dsimp only at l1 l2 l3 l4 this
  omega

/-- the fuel of the command-sequence decoder (one unit per command; the loader calls `parseCmds body.length body`) is never what
    decides: with one unit per 16 remaining bytes, any additional fuel gives the same answer -/
theorem parseCmds_fuel_suffices : ∀ (f k : Nat) (b : Bytes), b.length ≤ 16 * f → parseCmds (f + k) b = parseCmds f b := by
  intro f
  induction f with
  | zero =>
    intro k b hb
    have : b = [] := List.eq_nil_of_length_eq_zero (by omega)
    subst this
    cases k <;> simp [parseCmds]
  | succ f ih =>
    intro k b hb
    rw [show f + 1 + k = (f + k) + 1 by omega]
    unfold parseCmds
    split
    · rfl
    · cases hp : parseCmd b with
      | error e => rfl
      | ok v =>
        obtain ⟨cmd, rest⟩ := v
        have hprog := parseCmd_progress b rest cmd hp
        simp only [bind, Except.bind]
        rw [ih k rest (by omega)]

end SpsdkVerif.Sb31
