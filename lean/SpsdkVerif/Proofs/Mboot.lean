/- Helper lemmas for Properties/C10.lean: integers, CRC-16, frame / report / command / response codecs, splitting. -/
import SpsdkVerif.Model.Mboot

namespace SpsdkVerif.Mboot
open SpsdkVerif

/-! ### little-endian integers -/

theorem toNat_ofNat8 (x : Nat) : (UInt8.ofNat x).toNat = x % 256 := by
  simp [UInt8.toNat_ofNat']

theorem toNat_ofNat8_lt {x : Nat} (h : x < 256) : (UInt8.ofNat x).toNat = x := by
  rw [toNat_ofNat8, Nat.mod_eq_of_lt h]

theorem xor_cancel_right {a b c : Nat} (h : a ^^^ c = b ^^^ c) : a = b := by
  have := congrArg (· ^^^ c) h
  simpa [Nat.xor_assoc, Nat.xor_self, Nat.xor_zero] using this

theorem xor_cancel_left {a b c : Nat} (h : c ^^^ a = c ^^^ b) : a = b := by
  rw [Nat.xor_comm c a, Nat.xor_comm c b] at h
  exact xor_cancel_right h

@[simp] theorem le_length (n v : Nat) : (le n v).length = n := by
  induction n generalizing v with
  | zero => simp [le]
  | succ n ih => simp [le, ih]

theorem fromLe_le (n v : Nat) : fromLe (le n v) = v % 256 ^ n := by
  induction n generalizing v with
  | zero => simp [le, fromLe, Nat.mod_one]
  | succ n ih =>
    simp only [le, fromLe, ih, toNat_ofNat8]
    rw [Nat.pow_succ, Nat.mul_comm (256 ^ n) 256, Nat.mod_mul, Nat.mod_mod]

theorem fromLe_le_of_lt (n v : Nat) (h : v < 256 ^ n) : fromLe (le n v) = v := by
  rw [fromLe_le, Nat.mod_eq_of_lt h]

theorem fromLe_lt (b : Bytes) : fromLe b < 256 ^ b.length := by
  induction b with
  | nil => simp [fromLe]
  | cons x r ih =>
    simp only [fromLe, List.length_cons, Nat.pow_succ]
    have := x.toNat_lt
    omega

theorem le_fromLe (b : Bytes) : le b.length (fromLe b) = b := by
  induction b with
  | nil => simp [le]
  | cons x r ih =>
    simp only [List.length_cons, le, fromLe]
    have hx := x.toNat_lt
    have h1 : (x.toNat + 256 * fromLe r) % 256 = x.toNat := by omega
    have h2 : (x.toNat + 256 * fromLe r) / 256 = fromLe r := by omega
    rw [h1, h2, ih]
    simp

theorem le_injective (n a b : Nat) (ha : a < 256 ^ n) (hb : b < 256 ^ n) (h : le n a = le n b) : a = b := by
  rw [← fromLe_le_of_lt n a ha, ← fromLe_le_of_lt n b hb, h]

@[simp] theorem take_le_self (n v : Nat) : (le n v).take n = le n v :=
  List.take_of_length_le (by simp)

@[simp] theorem drop_le_self (n v : Nat) : (le n v).drop n = [] :=
  List.drop_of_length_le (by simp)

@[simp] theorem take_le_append (n v : Nat) (r : Bytes) : (le n v ++ r).take n = le n v := by
  rw [List.take_append_of_le_length (by simp)]; simp [List.take_of_length_le]

@[simp] theorem drop_le_append (n v : Nat) (r : Bytes) : (le n v ++ r).drop n = r := by
  rw [List.drop_append_of_le_length (by simp)]; simp [List.drop_of_length_le]

theorem le2_cases (v : Nat) : le 2 v = [UInt8.ofNat (v % 256), UInt8.ofNat (v / 256 % 256)] := by
  simp [le]

theorem u32s_flatMap_le (ps : List Nat) (rest : Bytes) (h : ∀ p ∈ ps, p < 4294967296) :
    u32s ps.length (ps.flatMap (le 4) ++ rest) = ps := by
  induction ps with
  | nil => simp [u32s]
  | cons p r ih =>
    have hp : p < 256 ^ 4 := by have := h p (by simp); omega
    simp only [List.length_cons, u32s, List.flatMap_cons, List.append_assoc, take_le_append, drop_le_append]
    rw [fromLe_le_of_lt 4 p hp, ih (fun q hq => h q (by simp [hq]))]

theorem flatMap_le4_length (ps : List Nat) : (ps.flatMap (le 4)).length = 4 * ps.length := by
  induction ps with
  | nil => simp
  | cons p r ih => simp [List.flatMap_cons, ih]; omega

/-! ### CRC-16: the register stays below 2^16; the bit step is injective; a single changed byte changes the CRC -/

theorem xor_lt_65536 {a b : Nat} (ha : a < 65536) (hb : b < 65536) : a ^^^ b < 65536 :=
  Nat.xor_lt_two_pow (n := 16) ha hb

theorem crcBit_lt {s : Nat} (h : s < 65536) : crcBit s < 65536 := by
  unfold crcBit
  split
  · exact xor_lt_65536 (by omega) (by decide)
  · omega

theorem xor_poly_odd (x : Nat) (hx : x % 2 = 0) : (x ^^^ Spec.crcPoly) % 2 = 1 := by
  rw [Nat.xor_mod_two_eq_one]
  simp [Spec.crcPoly]
  omega

theorem crcBit_inj {a b : Nat} (ha : a < 65536) (hb : b < 65536) (h : crcBit a = crcBit b) : a = b := by
  unfold crcBit at h
  by_cases ca : 32768 ≤ a <;> by_cases cb : 32768 ≤ b <;> simp only [ca, cb, if_true, if_false] at h
  · have := xor_cancel_right h
    omega
  · have h1 := xor_poly_odd ((a - 32768) * 2) (by omega)
    omega
  · have h1 := xor_poly_odd ((b - 32768) * 2) (by omega)
    omega
  · omega

theorem crcByte_lt {s : Nat} (b : UInt8) (h : s < 65536) : crcByte s b < 65536 := by
  unfold crcByte
  have hb := b.toNat_lt
  have h0 : s ^^^ (b.toNat * 256) < 65536 := xor_lt_65536 h (by omega)
  exact crcBit_lt (crcBit_lt (crcBit_lt (crcBit_lt (crcBit_lt (crcBit_lt (crcBit_lt (crcBit_lt h0)))))))

theorem crcByte_inj_state {s t : Nat} (b : UInt8) (hs : s < 65536) (ht : t < 65536)
    (h : crcByte s b = crcByte t b) : s = t := by
  unfold crcByte at h
  have hb := b.toNat_lt
  have h0 : s ^^^ (b.toNat * 256) < 65536 := xor_lt_65536 hs (by omega)
  have h1 : t ^^^ (b.toNat * 256) < 65536 := xor_lt_65536 ht (by omega)
  have l1 := crcBit_lt h0; have m1 := crcBit_lt h1
  have l2 := crcBit_lt l1; have m2 := crcBit_lt m1
  have l3 := crcBit_lt l2; have m3 := crcBit_lt m2
  have l4 := crcBit_lt l3; have m4 := crcBit_lt m3
  have l5 := crcBit_lt l4; have m5 := crcBit_lt m4
  have l6 := crcBit_lt l5; have m6 := crcBit_lt m5
  have l7 := crcBit_lt l6; have m7 := crcBit_lt m6
  have e := crcBit_inj h0 h1 (crcBit_inj l1 m1 (crcBit_inj l2 m2 (crcBit_inj l3 m3 (crcBit_inj l4 m4
    (crcBit_inj l5 m5 (crcBit_inj l6 m6 (crcBit_inj l7 m7 h)))))))
  exact xor_cancel_right e

theorem crcByte_inj_byte {s : Nat} (x y : UInt8) (hs : s < 65536) (h : crcByte s x = crcByte s y) : x = y := by
  unfold crcByte at h
  have hx := x.toNat_lt
  have hy := y.toNat_lt
  have h0 : s ^^^ (x.toNat * 256) < 65536 := xor_lt_65536 hs (by omega)
  have h1 : s ^^^ (y.toNat * 256) < 65536 := xor_lt_65536 hs (by omega)
  have l1 := crcBit_lt h0; have m1 := crcBit_lt h1
  have l2 := crcBit_lt l1; have m2 := crcBit_lt m1
  have l3 := crcBit_lt l2; have m3 := crcBit_lt m2
  have l4 := crcBit_lt l3; have m4 := crcBit_lt m3
  have l5 := crcBit_lt l4; have m5 := crcBit_lt m4
  have l6 := crcBit_lt l5; have m6 := crcBit_lt m5
  have l7 := crcBit_lt l6; have m7 := crcBit_lt m6
  have e := crcBit_inj h0 h1 (crcBit_inj l1 m1 (crcBit_inj l2 m2 (crcBit_inj l3 m3 (crcBit_inj l4 m4
    (crcBit_inj l5 m5 (crcBit_inj l6 m6 (crcBit_inj l7 m7 h)))))))
  have e2 : x.toNat * 256 = y.toNat * 256 := xor_cancel_left e
  exact UInt8.toNat_inj.mp (by omega)

theorem foldl_crcByte_lt (d : Bytes) {s : Nat} (h : s < 65536) : d.foldl crcByte s < 65536 := by
  induction d generalizing s with
  | nil => simpa
  | cons x r ih =>
    simp only [List.foldl_cons]
    exact ih (crcByte_lt x h)

theorem foldl_crcByte_inj (d : Bytes) {s t : Nat} (hs : s < 65536) (ht : t < 65536)
    (h : d.foldl crcByte s = d.foldl crcByte t) : s = t := by
  induction d generalizing s t with
  | nil => simpa using h
  | cons x r ih =>
    simp only [List.foldl_cons] at h
    exact crcByte_inj_state x hs ht (ih (crcByte_lt x hs) (crcByte_lt x ht) h)

theorem crc16_lt (d : Bytes) : crc16 d < 65536 := by
  unfold crc16
  exact foldl_crcByte_lt d (by omega)

/-- changing exactly one byte of the input changes the CRC-16 -/
theorem crc16_single_byte_ne (pre suf : Bytes) (x y : UInt8) (h : x ≠ y) :
    crc16 (pre ++ x :: suf) ≠ crc16 (pre ++ y :: suf) := by
  unfold crc16
  simp only [List.foldl_append, List.foldl_cons]
  intro e
  have hs : pre.foldl crcByte 0 < 65536 := foldl_crcByte_lt pre (by omega)
  have := foldl_crcByte_inj suf (crcByte_lt x hs) (crcByte_lt y hs) e
  exact h (crcByte_inj_byte x y hs this)

/-! ### frames -/

theorem mkFrame_length (t : Nat) (p : Bytes) : (mkFrame t p).length = 6 + p.length := by
  simp [mkFrame]; omega

theorem frame_roundtrip' (t : Nat) (p rest : Bytes) (ht : t < 256) (hp : p.length < 65536) :
    parseFrame (mkFrame t p ++ rest) = .ok (t, p, rest) := by
  have hcrc := crc16_lt (crcInput t p)
  have h1 : fromLe (le 2 p.length) = p.length := fromLe_le_of_lt 2 _ (by simpa using hp)
  have h2 : fromLe (le 2 (frameCrc t p)) = frameCrc t p := fromLe_le_of_lt 2 _ (by simpa [frameCrc] using hcrc)
  rw [le2_cases] at h1 h2
  simp only [mkFrame, le2_cases, List.cons_append, List.nil_append, List.append_assoc, parseFrame]
  have e0 : (UInt8.ofNat Spec.startByte).toNat = Spec.startByte := by decide
  have e1 : (UInt8.ofNat t).toNat = t := toNat_ofNat8_lt ht
  simp only [e0, e1, h1, h2, ne_eq, not_true_eq_false, if_false, List.length_append]
  simp

/-! ### reports -/

theorem hid_roundtrip' (rid : Nat) (p pad : Bytes) (hr : rid < 256) (hp : p.length < 65536) :
    parseReport (mkReport rid p ++ pad) = some (rid, p) := by
  have h1 : fromLe (le 2 p.length) = p.length := fromLe_le_of_lt 2 _ (by simpa using hp)
  rw [le2_cases] at h1
  simp only [mkReport, le2_cases, List.cons_append, List.nil_append, List.append_assoc, parseReport, h1]
  have e1 : (UInt8.ofNat rid).toNat = rid := toNat_ofNat8_lt hr
  simp [e1]

/-! ### command packets -/

structure CmdPkt.WF (p : CmdPkt) : Prop where
  tag : p.tag < 256
  flags : p.flags < 256
  count : p.params.length < 256
  params : ∀ v ∈ p.params, v < 4294967296

theorem cmd_roundtrip' (p : CmdPkt) (h : p.WF) : parseCmd p.encode = some p := by
  obtain ⟨tag, flags, params⟩ := p
  have e1 : (UInt8.ofNat tag).toNat = tag := toNat_ofNat8_lt h.tag
  have e2 : (UInt8.ofNat flags).toNat = flags := toNat_ofNat8_lt h.flags
  have e3 : (UInt8.ofNat params.length).toNat = params.length := toNat_ofNat8_lt h.count
  have e4 := u32s_flatMap_le params [] h.params
  simp only [List.append_nil] at e4
  have e5 := flatMap_le4_length params
  simp only [CmdPkt.encode, List.cons_append, List.nil_append, parseCmd, e1, e2, e3, e4, e5, if_true]

theorem toBytes_ok (p : CmdPkt) (h : p.WF) : p.toBytes = .ok p.encode := by
  unfold CmdPkt.toBytes
  have h1 := h.tag; have h2 := h.flags; have h3 := h.count
  have h4 : p.params.any (fun v => decide (4294967296 ≤ v)) = false := by
    rw [List.any_eq_false]; intro v hv; have := h.params v hv; simp; omega
  have : ¬ (256 ≤ p.tag ∨ 256 ≤ p.flags ∨ 256 ≤ p.params.length ∨ p.params.any (fun v => decide (4294967296 ≤ v)) = true) := by
    rw [h4]; simp; omega
  rw [if_neg this]

theorem encode_length (p : CmdPkt) : p.encode.length = 4 + 4 * p.params.length := by
  simp only [CmdPkt.encode, List.length_append, List.length_cons, List.length_nil, flatMap_le4_length]

/-! ### responses -/

theorem genericResp_parse (st tag : Nat) (h1 : st < 4294967296) (h2 : tag < 4294967296) :
    parseCmdResponse (genericResp st tag) =
      .ok { kind := .generic, tag := Spec.rGeneric, pc := 2, status := st, cmdTag := tag } := by
  have a : fromLe (le 4 st) = st := fromLe_le_of_lt 4 st (by omega)
  have b : fromLe (le 4 tag) = tag := fromLe_le_of_lt 4 tag (by omega)
  have k : kindOf (UInt8.ofNat Spec.rGeneric).toNat = .generic := by decide
  simp only [genericResp, List.cons_append, List.nil_append, parseCmdResponse, k]
  simp [a, b]
  decide

theorem readMemResp_parse (st len : Nat) (h1 : st < 4294967296) (h2 : len < 4294967296) :
    parseCmdResponse (readMemResp st len) =
      .ok { kind := .readMemory, tag := Spec.rReadMemory, pc := 2, status := st, length := len } := by
  have a : fromLe (le 4 st) = st := fromLe_le_of_lt 4 st (by omega)
  have b : fromLe (le 4 len) = len := fromLe_le_of_lt 4 len (by omega)
  have k : kindOf (UInt8.ofNat Spec.rReadMemory).toNat = .readMemory := by decide
  simp only [readMemResp, List.cons_append, List.nil_append, parseCmdResponse, k]
  simp [a, b]
  decide

theorem getPropResp_parse (st : Nat) (vals : List Nat) (h1 : st < 4294967296) (hv : ∀ v ∈ vals, v < 4294967296)
    (hn : vals.length < 255) :
    parseCmdResponse (getPropResp st vals) =
      .ok { kind := .getProperty, tag := Spec.rGetProperty, pc := 1 + vals.length, status := st, values := vals } := by
  have a : fromLe (le 4 st) = st := fromLe_le_of_lt 4 st (by omega)
  have k : kindOf (UInt8.ofNat Spec.rGetProperty).toNat = .getProperty := by decide
  have e3 : (UInt8.ofNat (1 + vals.length)).toNat = 1 + vals.length := toNat_ofNat8_lt (by omega)
  have e4 := u32s_flatMap_le vals [] hv
  simp only [List.append_nil] at e4
  simp only [getPropResp, List.cons_append, List.nil_append, parseCmdResponse, k, e3]
  have e5 := flatMap_le4_length vals
  have c1 : ¬ (le 4 st ++ List.flatMap (le 4) vals).length < 4 := by simp
  have c2 : ¬ ((le 4 st ++ List.flatMap (le 4) vals).length < 4 * (1 + vals.length) ∨ 1 + vals.length = 0) := by
    simp only [List.length_append, le_length, e5]; omega
  rw [if_neg c1]
  simp only [if_neg c2, take_le_append, drop_le_append, a, e4, Nat.add_sub_cancel_left]
  rfl

/-! ### splitting -/

theorem splitN_flatten (n : Nat) (hn : 0 < n) (f : Nat) (l : Bytes) (h : l.length ≤ f) :
    (splitN n f l).flatten = l := by
  induction f generalizing l with
  | zero => simp at h; simp [splitN, h]
  | succ f ih =>
    unfold splitN
    by_cases he : l.isEmpty
    · simp at he; simp [he]
    · simp only [he, Bool.false_eq_true, if_false, List.flatten_cons]
      have hl : 0 < l.length := by
        cases l with
        | nil => simp at he
        | cons _ _ => simp
      rw [ih (l.drop n) (by simp; omega), List.take_append_drop]

theorem split_flatten' (n : Nat) (hn : 0 < n) (l : Bytes) : (split n l).flatten = l :=
  splitN_flatten n hn l.length l (Nat.le_refl _)

theorem splitN_chunks (n : Nat) (hn : 0 < n) (f : Nat) (l : Bytes) :
    ∀ c ∈ splitN n f l, c.length ≤ n ∧ c ≠ [] := by
  induction f generalizing l with
  | zero => simp [splitN]
  | succ f ih =>
    unfold splitN
    by_cases he : l.isEmpty
    · simp [he]
    · simp only [he, Bool.false_eq_true, if_false, List.mem_cons]
      rintro c (rfl | hc)
      · refine ⟨by simp; omega, ?_⟩
        cases l with
        | nil => simp at he
        | cons x r =>
          cases n with
          | zero => omega
          | succ n => simp
      · exact ih _ c hc

theorem split_chunks' (n : Nat) (hn : 0 < n) (l : Bytes) : ∀ c ∈ split n l, c.length ≤ n ∧ c ≠ [] :=
  splitN_chunks n hn l.length l

theorem split_nil (n : Nat) : split n [] = [] := by simp [split, splitN]

theorem split_cons (n : Nat) (hn : 0 < n) (l : Bytes) (hl : l ≠ []) :
    split n l = l.take n :: split n (l.drop n) := by
  have key : ∀ (f g : Nat) (l : Bytes), l.length ≤ f → l.length ≤ g → splitN n f l = splitN n g l := by
    intro f
    induction f with
    | zero => intro g l h _; simp at h; subst h; cases g <;> simp [splitN]
    | succ f ih =>
      intro g l hf hg
      cases g with
      | zero => simp at hg; subst hg; simp [splitN]
      | succ g =>
        unfold splitN
        by_cases he : l.isEmpty
        · simp [he]
        · simp only [he, Bool.false_eq_true, if_false]
          have hl : 0 < l.length := by
            cases l with
            | nil => simp at he
            | cons _ _ => simp
          rw [ih g (l.drop n) (by simp; omega) (by simp; omega)]
  have hpos : 0 < l.length := List.length_pos_iff.mpr hl
  obtain ⟨k, hk⟩ : ∃ k, l.length = k + 1 := ⟨l.length - 1, by omega⟩
  have he : l.isEmpty = false := by cases l <;> simp_all
  have e : split n l = splitN n (k + 1) l := by unfold split; rw [hk]
  have e2 : splitN n (k + 1) l = l.take n :: splitN n k (l.drop n) := by
    rw [splitN]; simp [he]
  have e3 : split n (l.drop n) = splitN n k (l.drop n) :=
    key (l.drop n).length k (l.drop n) (Nat.le_refl _) (by simp; omega)
  rw [e, e2, e3]

end SpsdkVerif.Mboot
