/- C07 helper lemmas, part 11: data references of the standard command list, and the ROM-side reader's walk over it. -/
import SpsdkVerif.Proofs.HabRomStd
import SpsdkVerif.Proofs.HabRomCmds
import SpsdkVerif.Proofs.HabRomRefs

namespace SpsdkVerif.Hab
open SpsdkVerif SpsdkVerif.Misc SpsdkVerif.Generated
open SpsdkVerif.Spec
open SpsdkVerif.Spec.HabRom (bindE chk sub rdN u8at u16be u32be u32le RCmd Walk)

theorem assignLocs_app_noref (n : Nat) (l1 l2 : List CsfCmd) (h : ∀ c ∈ l1, needsRef c.cmd = false) :
    assignLocs n (l1 ++ l2) = l1 ++ assignLocs n l2 := by
  induction l1 with
  | nil => rfl
  | cons a r ih =>
    have ha := h a (by simp)
    simp only [List.cons_append, assignLocs, ha, Bool.false_eq_true, ↓reduceIte]
    rw [ih (fun c hc => h c (by simp [hc]))]

theorem extras_noref (ex : List Cmd) (h : ∀ e ∈ ex, isExtra e = true) :
    ∀ c ∈ ex.map (fun c => (⟨c, none⟩ : CsfCmd)), needsRef c.cmd = false := by
  intro c hc
  obtain ⟨e, he, rfl⟩ := List.mem_map.1 hc
  exact (isExtra_facts e (h e he)).2

/-- assigning data references to a standard list gives a standard list (same commands and data, some locations) -/
theorem assign_std (s : StdCsf) (hex : ∀ e ∈ s.extras, isExtra e = true) (n : Nat) (L0 : Nat → Nat) (sigC : Bytes)
    (bd : List (Nat × Nat)) (sigD : Bytes) (enc : Option EncPart) (hm : ∀ e, enc = some e → e.mac.isSome) :
    ∃ L, assignLocs n (s.list L0 sigC bd sigD enc) = s.list L sigC bd sigD enc := by
  have hnr := extras_noref s.extras hex
  cases enc with
  | none =>
    refine ⟨fun k => if k = 1 then n else if k = 2 then n + alignUp s.srkBlob.length 4
      else if k = 3 then n + alignUp s.srkBlob.length 4 + alignUp s.csfCert.length 4
      else if k = 4 then n + alignUp s.srkBlob.length 4 + alignUp s.csfCert.length 4 + alignUp sigC.length 4
      else n + alignUp s.srkBlob.length 4 + alignUp s.csfCert.length 4 + alignUp sigC.length 4 + alignUp s.imgCert.length 4, ?_⟩
    simp [StdCsf.list, assignLocs, needsRef, Cmd.setLoc, assignLocs_app_noref _ _ _ hnr, Hab.Spec.insKeyABS]
  | some e =>
    obtain ⟨m, hmm⟩ := Option.isSome_iff_exists.1 (hm e rfl)
    refine ⟨fun k => if k = 1 then n else if k = 2 then n + alignUp s.srkBlob.length 4
      else if k = 3 then n + alignUp s.srkBlob.length 4 + alignUp s.csfCert.length 4
      else if k = 4 then n + alignUp s.srkBlob.length 4 + alignUp s.csfCert.length 4 + alignUp sigC.length 4
      else if k = 5 then n + alignUp s.srkBlob.length 4 + alignUp s.csfCert.length 4 + alignUp sigC.length 4 + alignUp s.imgCert.length 4
      else n + alignUp s.srkBlob.length 4 + alignUp s.csfCert.length 4 + alignUp sigC.length 4 + alignUp s.imgCert.length 4 + alignUp sigD.length 4, ?_⟩
    simp [StdCsf.list, assignLocs, needsRef, Cmd.setLoc, assignLocs_app_noref _ _ _ hnr, Hab.Spec.insKeyABS, hmm]

theorem refsOf_app_noref (l1 l2 : List CsfCmd) (h : ∀ c ∈ l1, needsRef c.cmd = false) :
    refsOf (l1 ++ l2) = refsOf l2 := by
  induction l1 with
  | nil => rfl
  | cons a r ih =>
    have ha := h a (by simp)
    simp only [List.cons_append, refsOf, ha, Bool.false_eq_true, ↓reduceIte, List.nil_append]
    exact ih (fun c hc => h c (by simp [hc]))

/-- data references of a standard list, in command order -/
theorem refsOf_std (s : StdCsf) (hex : ∀ e ∈ s.extras, isExtra e = true) (L : Nat → Nat) (sigC : Bytes)
    (bd : List (Nat × Nat)) (sigD : Bytes) (enc : Option EncPart) :
    refsOf (s.list L sigC bd sigD enc) =
      [(L 1, s.srkBlob.length), (L 2, s.csfCert.length), (L 3, sigC.length)] ++
      ([(L 4, s.imgCert.length), (L 5, sigD.length)] ++
       (match enc with
        | some e => (match e.mac with | some m => [(L 6, m.length)] | none => [])
        | none => [])) := by
  have hnr := extras_noref s.extras hex
  cases enc with
  | none => simp [StdCsf.list, refsOf, needsRef, Cmd.loc, refsOf_app_noref _ _ hnr, Hab.Spec.insKeyABS]
  | some e =>
    cases hm : e.mac <;> simp [StdCsf.list, refsOf, needsRef, Cmd.loc, refsOf_app_noref _ _ hnr, Hab.Spec.insKeyABS, hm]

/-! ### the walk -/
theorem walk_append (region : Bytes) (hdrLen self csf : Nat) (w : Walk) (l1 l2 : List RCmd) :
    HabRom.walk region hdrLen self csf w (l1 ++ l2) =
      bindE (HabRom.walk region hdrLen self csf w l1) (fun w' => HabRom.walk region hdrLen self csf w' l2) := by
  induction l1 generalizing w with
  | nil => rfl
  | cons a r ih =>
    simp only [List.cons_append, HabRom.walk]
    cases HabRom.stepCmd region hdrLen self csf w a with
    | error e => rfl
    | ok w' => simp only [bindE_ok]; exact ih w'

theorem walk_extras (region : Bytes) (hdrLen self csf : Nat) (w : Walk) (ex : List Cmd) (h : ∀ e ∈ ex, isExtra e = true) :
    HabRom.walk region hdrLen self csf w (ex.map toR) = .ok w := by
  induction ex with
  | nil => rfl
  | cons a r ih =>
    have ha := h a (by simp)
    have : ∃ t l, toR a = .other t l := by cases a <;> simp_all [isExtra, toR]
    obtain ⟨t, l, e⟩ := this
    simp only [List.map_cons, HabRom.walk, e, HabRom.stepCmd, bindE_ok]
    exact ih (fun e he => h e (by simp [he]))


/-! ### single steps -/
section steps
variable (region : Bytes) (hdrLen self csf : Nat)

theorem step_srk (w : Walk) (alg src loc n : Nat) (hs : src ≤ 3) (hw : w.srk = none)
    (d : HabRom.dataRef region hdrLen loc 0xD7 "SRK table" = .ok (loc, n)) :
    HabRom.stepCmd region hdrLen self csf w (.insKey 0 3 alg src 0 loc) =
      .ok { w with srk := some (loc, n, src), refs := (loc, n) :: w.refs, slots := (0, 0) :: w.slots } := by
  simp [HabRom.stepCmd, d, hw, hs, chk]

theorem step_csfk (w : Walk) (alg loc n : Nat) (hw : HabRom.hasSlot w 0 0 = true)
    (d : HabRom.dataRef region hdrLen loc 0xD7 "certificate" = .ok (loc, n)) :
    HabRom.stepCmd region hdrLen self csf w (.insKey 2 9 alg 0 1 loc) =
      .ok { w with csfCert := some (loc, n), slots := (1, 1) :: w.slots, refs := (loc, n) :: w.refs } := by
  simp [HabRom.stepCmd, d, hw, chk]

theorem step_autcsf (w : Walk) (eng cfg loc n : Nat) (hw : HabRom.hasSlot w 1 1 = true) (hn : w.csfSig = none)
    (d : HabRom.dataRef region hdrLen loc 0xD8 "signature" = .ok (loc, n)) :
    HabRom.stepCmd region hdrLen self csf w (.autDat 0 1 0xC5 eng cfg loc []) =
      .ok { w with csfSig := some (loc, n), refs := (loc, n) :: w.refs } := by
  simp [HabRom.stepCmd, HabRom.toOffsets, d, hw, hn, chk]

theorem step_imgkey (w : Walk) (alg slot loc n : Nat) (hsl : 2 ≤ slot ∧ slot ≤ 5) (hw : HabRom.hasSlot w 0 0 = true)
    (hc : w.csfSig.isSome = true) (d : HabRom.dataRef region hdrLen loc 0xD7 "certificate" = .ok (loc, n)) :
    HabRom.stepCmd region hdrLen self csf w (.insKey 0 9 alg 0 slot loc) =
      .ok { w with imgCert := some (loc, n), slots := (slot, 2) :: w.slots, refs := (loc, n) :: w.refs } := by
  simp [HabRom.stepCmd, d, hw, hc, hsl.1, hsl.2, chk]

theorem step_autdat (w : Walk) (slot eng cfg loc n : Nat) (bd offs : List (Nat × Nat)) (hbd : bd ≠ [])
    (hw : HabRom.hasSlot w slot 2 = true) (hc : w.csfSig.isSome = true) (hn : w.dataSig = none)
    (ho : HabRom.toOffsets self csf bd = .ok offs)
    (d : HabRom.dataRef region hdrLen loc 0xD8 "signature" = .ok (loc, n)) :
    HabRom.stepCmd region hdrLen self csf w (.autDat 0 slot 0xC5 eng cfg loc bd) =
      .ok { w with dataSig := some (loc, n), auth := offs, refs := (loc, n) :: w.refs } := by
  have hbe : bd.isEmpty = false := by cases bd <;> simp_all
  simp [HabRom.stepCmd, d, hw, hc, hn, ho, hbe, chk]

theorem step_secret (w : Walk) (alg kek tgt loc : Nat) (hk : kek ≤ 3) (ht : tgt ≤ 3) :
    HabRom.stepCmd region hdrLen self csf w (.insKey 1 0xBB alg kek tgt loc) =
      .ok { w with secretLoc := some loc, slots := (tgt, 3) :: w.slots } := by
  simp [HabRom.stepCmd, hk, ht, chk]

theorem step_decrypt (w : Walk) (slot eng cfg loc n : Nat) (be offs : List (Nat × Nat)) (hbe : be ≠ [])
    (hw : HabRom.hasSlot w slot 3 = true) (hn : w.macRef = none)
    (ho : HabRom.toOffsets self csf be = .ok offs)
    (d : HabRom.dataRef region hdrLen loc 0xAC "MAC" = .ok (loc, n)) :
    HabRom.stepCmd region hdrLen self csf w (.autDat 0 slot 0xA3 eng cfg loc be) =
      .ok { w with macRef := some (loc, n), dec := offs, refs := (loc, n) :: w.refs } := by
  have hbe' : be.isEmpty = false := by cases be <;> simp_all
  simp [HabRom.stepCmd, d, hw, hn, ho, hbe', chk]

end steps

/-- intermediate states of the walk -/
def wA (s : StdCsf) (L : Nat → Nat) (n1 : Nat) : Walk :=
  { slots := [(0, 0)], srk := some (L 1, n1, s.srkSrc), refs := [(L 1, n1)] }
def wB (s : StdCsf) (L : Nat → Nat) (n1 n2 : Nat) : Walk :=
  { slots := [(1, 1), (0, 0)], srk := some (L 1, n1, s.srkSrc), csfCert := some (L 2, n2), refs := [(L 2, n2), (L 1, n1)] }
def wC (s : StdCsf) (L : Nat → Nat) (n1 n2 n3 : Nat) : Walk :=
  { slots := [(1, 1), (0, 0)], srk := some (L 1, n1, s.srkSrc), csfCert := some (L 2, n2), csfSig := some (L 3, n3),
    refs := [(L 3, n3), (L 2, n2), (L 1, n1)] }
def wD (s : StdCsf) (L : Nat → Nat) (n1 n2 n3 n4 : Nat) : Walk :=
  { slots := [(s.imgSlot, 2), (1, 1), (0, 0)], srk := some (L 1, n1, s.srkSrc), csfCert := some (L 2, n2),
    csfSig := some (L 3, n3), imgCert := some (L 4, n4), refs := [(L 4, n4), (L 3, n3), (L 2, n2), (L 1, n1)] }
/-- result of the walk over the authenticated part -/
def walk5 (s : StdCsf) (L : Nat → Nat) (n1 n2 n3 n4 n5 : Nat) (offsD : List (Nat × Nat)) : Walk :=
  { slots := [(s.imgSlot, 2), (1, 1), (0, 0)], srk := some (L 1, n1, s.srkSrc), csfCert := some (L 2, n2),
    imgCert := some (L 4, n4), csfSig := some (L 3, n3), dataSig := some (L 5, n5), macRef := none,
    auth := offsD, dec := [], refs := [(L 5, n5), (L 4, n4), (L 3, n3), (L 2, n2), (L 1, n1)], secretLoc := none }
def wE (s : StdCsf) (L : Nat → Nat) (n1 n2 n3 n4 n5 : Nat) (offsD : List (Nat × Nat)) (loc : Nat) : Walk :=
  { slots := [(s.keySlot, 3), (s.imgSlot, 2), (1, 1), (0, 0)], srk := some (L 1, n1, s.srkSrc), csfCert := some (L 2, n2),
    imgCert := some (L 4, n4), csfSig := some (L 3, n3), dataSig := some (L 5, n5), macRef := none,
    auth := offsD, dec := [], refs := [(L 5, n5), (L 4, n4), (L 3, n3), (L 2, n2), (L 1, n1)], secretLoc := some loc }
/-- … and with the encrypted part -/
def walk7 (s : StdCsf) (L : Nat → Nat) (n1 n2 n3 n4 n5 n6 : Nat) (offsD offsE : List (Nat × Nat)) (loc : Nat) : Walk :=
  { slots := [(s.keySlot, 3), (s.imgSlot, 2), (1, 1), (0, 0)], srk := some (L 1, n1, s.srkSrc), csfCert := some (L 2, n2),
    imgCert := some (L 4, n4), csfSig := some (L 3, n3), dataSig := some (L 5, n5), macRef := some (L 6, n6),
    auth := offsD, dec := offsE, refs := [(L 6, n6), (L 5, n5), (L 4, n4), (L 3, n3), (L 2, n2), (L 1, n1)],
    secretLoc := some loc }

theorem walk_std (region : Bytes) (hdrLen self csf : Nat) (s : StdCsf) (hex : ∀ e ∈ s.extras, isExtra e = true)
    (L : Nat → Nat) (sigC : Bytes) (bd : List (Nat × Nat)) (sigD : Bytes) (enc : Option EncPart)
    (n1 n2 n3 n4 n5 n6 : Nat) (offsD offsE : List (Nat × Nat))
    (d1 : HabRom.dataRef region hdrLen (L 1) 0xD7 "SRK table" = .ok (L 1, n1))
    (d2 : HabRom.dataRef region hdrLen (L 2) 0xD7 "certificate" = .ok (L 2, n2))
    (d3 : HabRom.dataRef region hdrLen (L 3) 0xD8 "signature" = .ok (L 3, n3))
    (d4 : HabRom.dataRef region hdrLen (L 4) 0xD7 "certificate" = .ok (L 4, n4))
    (d5 : HabRom.dataRef region hdrLen (L 5) 0xD8 "signature" = .ok (L 5, n5))
    (hsrc : s.srkSrc ≤ 3) (hslot : 2 ≤ s.imgSlot ∧ s.imgSlot ≤ 5) (hbd : bd ≠ [])
    (ho : HabRom.toOffsets self csf bd = .ok offsD)
    (henc : ∀ e, enc = some e → s.kek ≤ 3 ∧ s.keySlot ≤ 3 ∧ e.blocks ≠ [] ∧
      HabRom.dataRef region hdrLen (L 6) 0xAC "MAC" = .ok (L 6, n6) ∧ HabRom.toOffsets self csf e.blocks = .ok offsE) :
    HabRom.walk region hdrLen self csf {} ((s.list L sigC bd sigD enc).map (fun c => toR c.cmd)) =
      .ok (match enc with
           | none => walk5 s L n1 n2 n3 n4 n5 offsD
           | some e => walk7 s L n1 n2 n3 n4 n5 n6 offsD offsE e.loc) := by
  have hmap : (s.extras.map (fun c => (⟨c, none⟩ : CsfCmd))).map (fun c => toR c.cmd) = s.extras.map toR := by
    simp [List.map_map, Function.comp_def]
  simp only [StdCsf.list, List.map_append, hmap]
  rw [walk_append]
  have f1 : HabRom.stepCmd region hdrLen self csf {} (.insKey 0 3 s.srkAlg s.srkSrc 0 (L 1)) = .ok (wA s L n1) :=
    step_srk region hdrLen self csf {} s.srkAlg s.srkSrc (L 1) n1 hsrc rfl d1
  have f2 : HabRom.stepCmd region hdrLen self csf (wA s L n1) (.insKey 2 9 s.csfkAlg 0 1 (L 2)) = .ok (wB s L n1 n2) :=
    step_csfk region hdrLen self csf (wA s L n1) s.csfkAlg (L 2) n2 (by rfl) d2
  have f3 : HabRom.stepCmd region hdrLen self csf (wB s L n1 n2) (.autDat 0 1 0xC5 s.engCsf s.cfgCsf (L 3) []) =
      .ok (wC s L n1 n2 n3) :=
    step_autcsf region hdrLen self csf (wB s L n1 n2) s.engCsf s.cfgCsf (L 3) n3 (by rfl) rfl d3
  have hfront : HabRom.walk region hdrLen self csf {}
      (List.map (fun (c : CsfCmd) => toR c.cmd)
        [⟨.insKey 0 3 s.srkAlg s.srkSrc 0 (L 1), some s.srkBlob⟩, ⟨.insKey 2 9 s.csfkAlg 0 1 (L 2), some s.csfCert⟩,
         ⟨.autDat 0 1 0xC5 s.engCsf s.cfgCsf (L 3) [], some sigC⟩]) = .ok (wC s L n1 n2 n3) := by
    simp only [List.map_cons, List.map_nil, toR, HabRom.walk]
    rw [f1, bindE_ok, f2, bindE_ok, f3, bindE_ok]
  rw [hfront, bindE_ok, walk_append, walk_extras _ _ _ _ _ _ hex, bindE_ok, walk_append]
  have b1 : HabRom.stepCmd region hdrLen self csf (wC s L n1 n2 n3) (.insKey 0 9 s.imgAlg 0 s.imgSlot (L 4)) =
      .ok (wD s L n1 n2 n3 n4) :=
    step_imgkey region hdrLen self csf (wC s L n1 n2 n3) s.imgAlg s.imgSlot (L 4) n4 hslot (by rfl) rfl d4
  have b2 : HabRom.stepCmd region hdrLen self csf (wD s L n1 n2 n3 n4)
      (.autDat 0 s.imgSlot 0xC5 s.engDat s.cfgDat (L 5) bd) = .ok (walk5 s L n1 n2 n3 n4 n5 offsD) :=
    step_autdat region hdrLen self csf (wD s L n1 n2 n3 n4) s.imgSlot s.engDat s.cfgDat (L 5) n5 bd offsD hbd
      (by simp [HabRom.hasSlot, wD]) rfl rfl ho d5
  have hback : HabRom.walk region hdrLen self csf (wC s L n1 n2 n3)
      (List.map (fun (c : CsfCmd) => toR c.cmd)
        [⟨.insKey 0 9 s.imgAlg 0 s.imgSlot (L 4), some s.imgCert⟩,
         ⟨.autDat 0 s.imgSlot 0xC5 s.engDat s.cfgDat (L 5) bd, some sigD⟩]) = .ok (walk5 s L n1 n2 n3 n4 n5 offsD) := by
    simp only [List.map_cons, List.map_nil, toR, HabRom.walk]
    rw [b1, bindE_ok, b2, bindE_ok]
  rw [hback, bindE_ok]
  cases enc with
  | none => rfl
  | some e =>
    obtain ⟨hk, hks, hbe, d6, hoe⟩ := henc e rfl
    have e1 : HabRom.stepCmd region hdrLen self csf (walk5 s L n1 n2 n3 n4 n5 offsD)
        (.insKey 1 0xBB s.skAlg s.kek s.keySlot e.loc) = .ok (wE s L n1 n2 n3 n4 n5 offsD e.loc) :=
      step_secret region hdrLen self csf (walk5 s L n1 n2 n3 n4 n5 offsD) s.skAlg s.kek s.keySlot e.loc hk hks
    have e2 : HabRom.stepCmd region hdrLen self csf (wE s L n1 n2 n3 n4 n5 offsD e.loc)
        (.autDat 0 s.keySlot 0xA3 s.engDec s.cfgDec (L 6) e.blocks) = .ok (walk7 s L n1 n2 n3 n4 n5 n6 offsD offsE e.loc) :=
      step_decrypt region hdrLen self csf (wE s L n1 n2 n3 n4 n5 offsD e.loc) s.keySlot s.engDec s.cfgDec (L 6) n6
        e.blocks offsE hbe (by simp [HabRom.hasSlot, wE]) rfl hoe d6
    simp only [List.map_cons, List.map_nil, toR, HabRom.walk]
    rw [e1, bindE_ok, e2, bindE_ok]

end SpsdkVerif.Hab
