/-
Helper proofs for C08, part A: the DER `ECDSA-Sig-Value` codec, `ECDSASignature`, `serialize_signature`,
`verify_signature`'s candidate list and `SignatureProvider.get_signature`.
-/
import SpsdkVerif.Proofs.KeysBase

namespace SpsdkVerif.Keys
open SpsdkVerif SpsdkVerif.Misc SpsdkVerif.Generated

/-! ### minimal big-endian bytes -/

theorem beEnc_head (k v : Nat) : (beEnc (k + 1) v).head? = some (UInt8.ofNat (v / 256 ^ k % 256)) := by
  induction k generalizing v with
  | zero => simp [beEnc]
  | succ k ih =>
    rw [beEnc, List.head?_append, ih (v / 256)]
    simp [Nat.div_div_eq_div_mul, Nat.pow_succ, Nat.mul_comm]

theorem beDec_zero_cons (l : Bytes) : beDec (0 :: l) = beDec l := by
  simp [beDec]

theorem beDec_singleton (b : UInt8) : beDec [b] = b.toNat := by
  simp [beDec]

theorem minBE_zero : minBE 0 = [] := by simp [minBE, byteLen_zero, beEnc]

theorem minBE_length (n : Nat) : (minBE n).length = byteLen n := by simp [minBE, beEnc_length]

theorem beDec_minBE (n : Nat) : beDec (minBE n) = n := beDec_beEnc _ _ (lt_pow_byteLen n)

/-- for `n > 0` the minimal encoding starts with a non-zero byte -/
theorem minBE_pos (n : Nat) (h : 0 < n) :
    ∃ b rest, minBE n = b :: rest ∧ 0 < b.toNat := by
  have hk := byteLen_pos n h
  obtain ⟨k, hk'⟩ := Nat.exists_eq_succ_of_ne_zero (by omega : byteLen n ≠ 0)
  have hh := beEnc_head k n
  have hlo := pow_byteLen_le n h
  have hhi := lt_pow_byteLen n
  rw [hk'] at hlo hhi
  simp only [Nat.succ_eq_add_one, Nat.add_sub_cancel] at hlo
  have hq1 : 0 < n / 256 ^ k := Nat.div_pos hlo (Nat.pow_pos (by omega))
  have hq2 : n / 256 ^ k < 256 := by
    rw [Nat.div_lt_iff_lt_mul (Nat.pow_pos (by omega))]
    rw [Nat.pow_succ] at hhi; rw [Nat.mul_comm]; exact hhi
  unfold minBE
  rw [hk']
  cases hb : beEnc (k + 1) n with
  | nil => rw [hb] at hh; simp at hh
  | cons b rest =>
    refine ⟨b, rest, rfl, ?_⟩
    rw [hb] at hh
    simp at hh
    rw [hh, UInt8.toNat_ofNat']
    omega

/-! ### INTEGER content -/

theorem encInt_cons (n : Nat) (b : UInt8) (rest : Bytes) (h : minBE n = b :: rest) :
    encIntContent n = if 128 ≤ b.toNat then 0 :: b :: rest else b :: rest := by
  unfold encIntContent; rw [h]

theorem decInt_encInt (n : Nat) : decIntContent (encIntContent n) = some n := by
  by_cases hn : n = 0
  · subst hn; simp [encIntContent, minBE_zero, decIntContent]
  · obtain ⟨b, rest, hb, hpos⟩ := minBE_pos n (by omega)
    have hv := beDec_minBE n
    rw [hb] at hv
    rw [encInt_cons n b rest hb]
    by_cases hhi : 128 ≤ b.toNat
    · rw [if_pos hhi]
      have h0 : ¬ 128 ≤ (0 : UInt8).toNat := by decide
      simp only [decIntContent, h0, if_false]
      have : ¬ (True ∧ b.toNat < 128) := by omega
      simp only [this, if_false]
      rw [beDec_zero_cons, hv]
    · rw [if_neg hhi]
      cases rest with
      | nil =>
        have : b.toNat < 128 := by omega
        simp only [decIntContent, this, if_true]
        rw [beDec_singleton] at hv; rw [hv]
      | cons b1 r =>
        have hb0 : ¬ b = 0 := by
          intro e; rw [e] at hpos; simp at hpos
        simp only [decIntContent, hhi, if_false, hb0, false_and, hv]

theorem encInt_ne_nil (n : Nat) : encIntContent n ≠ [] := by
  unfold encIntContent
  split
  · simp
  · split <;> simp

/-! ### lengths and TLVs -/

theorem readLen_encLen (l : Nat) (rest : Bytes) (h : l < 2 ^ 32) :
    readLen (encLen l ++ rest) = some (l, rest) := by
  unfold encLen
  by_cases hs : l < 128
  · simp only [hs, if_true, List.cons_append, List.nil_append, readLen]
    have : (UInt8.ofNat l).toNat = l := by rw [UInt8.toNat_ofNat']; omega
    simp [this, hs]
  · simp only [hs, if_false, List.cons_append, readLen]
    have hk1 : 0 < byteLen l := byteLen_pos l (by omega)
    have hk4 : byteLen l ≤ 4 := byteLen_le_of_lt l 4 (by
      have : (256 : Nat) ^ 4 = 2 ^ 32 := by decide
      omega)
    have hb : (UInt8.ofNat (128 + byteLen l)).toNat = 128 + byteLen l := by
      rw [UInt8.toNat_ofNat']; omega
    rw [hb]
    have c1 : ¬ (128 + byteLen l < 128) := by omega
    have c2 : ¬ (128 + byteLen l - 128 = 0 ∨ 4 < 128 + byteLen l - 128) := by omega
    have hlen : (minBE l ++ rest).length = byteLen l + rest.length := by
      rw [List.length_append, minBE_length]
    have c3 : ¬ ((minBE l ++ rest).length < 128 + byteLen l - 128) := by omega
    simp only [c1, c2, c3, if_false]
    have e : 128 + byteLen l - 128 = (minBE l).length := by rw [minBE_length]; omega
    rw [e, List.take_left', List.drop_left', beDec_minBE] <;> try rfl
    obtain ⟨b, r, hbr, hpos⟩ := minBE_pos l (by omega)
    have c4 : ¬ ((minBE l).head? = some 0 ∨ l < 128) := by
      rw [hbr]
      simp only [List.head?_cons, Option.some.injEq]
      intro hh
      rcases hh with hh | hh
      · rw [hh] at hpos; simp at hpos
      · omega
    simp only [c4, if_false]

theorem readTLV_encTLV (tag : UInt8) (c rest : Bytes) (h : c.length < 2 ^ 32) :
    readTLV tag (encTLV tag c ++ rest) = some (c, rest) := by
  unfold encTLV
  simp only [List.cons_append, readTLV, ne_eq, not_true_eq_false, if_false, List.append_assoc]
  rw [readLen_encLen _ _ h]
  simp only
  have : ¬ ((c ++ rest).length < c.length) := by rw [List.length_append]; omega
  simp only [this, if_false, List.take_left', List.drop_left']

theorem encTLV_length (tag : UInt8) (c : Bytes) : (encTLV tag c).length = tlvLen c.length := by
  simp [encTLV, tlvLen]; omega

theorem derEncode_length (r s : Nat) : (derEncode r s).length = derLen r s := by
  unfold derEncode derLen
  rw [encTLV_length, List.length_append, encTLV_length, encTLV_length]
  rfl

theorem encLen_length_le (l : Nat) (h : l < 2 ^ 32) : (encLen l).length ≤ 5 := by
  unfold encLen
  split
  · simp
  · have hk4 : byteLen l ≤ 4 := byteLen_le_of_lt l 4 (by
      have : (256 : Nat) ^ 4 = 2 ^ 32 := by decide
      omega)
    simp [minBE_length]; omega

theorem le_tlvLen (l : Nat) : l < tlvLen l := by unfold tlvLen; omega

/-- the DER codec round trip; the hypothesis says the encoding is at most 4 GiB long (rust-asn1 refuses
    longer length-of-length forms), see Properties/C08.lean -/
theorem derDecode_derEncode (r s : Nat) (h : derLen r s < 2 ^ 32) : derDecode (derEncode r s) = some (r, s) := by
  have hbody : tlvLen (intLen r) + tlvLen (intLen s) < 2 ^ 32 := by
    have := le_tlvLen (tlvLen (intLen r) + tlvLen (intLen s)); unfold derLen at h; omega
  have hr : intLen r < 2 ^ 32 := by have := le_tlvLen (intLen r); omega
  have hs : intLen s < 2 ^ 32 := by have := le_tlvLen (intLen s); omega
  unfold derDecode derEncode
  have e0 := readTLV_encTLV 0x30 (encTLV 0x02 (encIntContent r) ++ encTLV 0x02 (encIntContent s)) []
    (by rw [List.length_append, encTLV_length, encTLV_length]; exact hbody)
  rw [List.append_nil] at e0
  rw [e0]
  simp only
  rw [readTLV_encTLV 0x02 (encIntContent r) _ hr]
  simp only
  have e2 := readTLV_encTLV 0x02 (encIntContent s) [] hs
  rw [List.append_nil] at e2
  rw [e2]
  simp only [decInt_encInt]

theorem intLen_le (n k : Nat) (h : n < 256 ^ k) : intLen n ≤ k + 1 := by
  have hb := byteLen_le_of_lt n k h
  unfold intLen encIntContent
  have hl := minBE_length n
  split
  · simp
  · rename_i b rest heq
    rw [heq] at hl
    simp only [List.length_cons] at hl
    split <;> simp only [List.length_cons] <;> omega

theorem intLen_pos (n : Nat) : 0 < intLen n := by
  unfold intLen
  have := encInt_ne_nil n
  cases h : encIntContent n with
  | nil => exact absurd h this
  | cons _ _ => simp

theorem tlvLen_le (l : Nat) (h : l < 2 ^ 32) : tlvLen l ≤ l + 6 := by
  have := encLen_length_le l h
  unfold tlvLen; omega

/-- numbers below `256 ^ k` (k up to 2^30 bytes) always have a DER signature the decoder can read -/
theorem derLen_lt (r s k : Nat) (hk : k ≤ 2 ^ 30) (hr : r < 256 ^ k) (hs : s < 256 ^ k) : derLen r s ≤ 2 * k + 20 := by
  have h1 := intLen_le r k hr
  have h2 := intLen_le s k hs
  have e30 : (2 : Nat) ^ 32 = 4 * 2 ^ 30 := by decide
  have t1 := tlvLen_le (intLen r) (by omega)
  have t2 := tlvLen_le (intLen s) (by omega)
  have t3 := tlvLen_le (tlvLen (intLen r) + tlvLen (intLen s)) (by omega)
  unfold derLen; omega

/-! ### `ECDSASignature` on raw signatures -/

theorem rawSig_length (c : Curve) (r s : Nat) : (rawSig c r s).length = 2 * c.cl := pair_length _ _ _

theorem raw_window_facts (c : Curve) :
    KeysTables.sigSniffNxp (2 * c.cl) = true ∧ sigCurve (2 * c.cl) = .ok c ∧ sigCoordLen c = c.cl ∧
      2 * c.cl / 2 = c.cl ∧ c.sigSize = 2 * c.cl ∧ KeysTables.verifyCoordinateSize c.keySize = c.cl := by
  cases c <;> decide

theorem sigSniff_raw (c : Curve) (r s : Nat) : sigSniff (rawSig c r s) = .ok .nxp := by
  simp [sigSniff, rawSig_length, (raw_window_facts c).1]

theorem sigParse_raw (c : Curve) (r s : Nat) (hr : r < 256 ^ c.cl) (hs : s < 256 ^ c.cl) :
    sigParse (rawSig c r s) = .ok ⟨r, s, c⟩ := by
  obtain ⟨_, h2, _, h4, _, _⟩ := raw_window_facts c
  unfold sigParse
  rw [sigSniff_raw]
  simp only [rawSig_length, h2, h4]
  unfold rawSig
  rw [take_pair, drop_pair, beDec_beEnc _ _ hr, beDec_beEnc _ _ hs]

theorem sigExport_raw (c : Curve) (r s : Nat) (hr : r < 256 ^ c.cl) (hs : s < 256 ^ c.cl) :
    sigExport ⟨r, s, c⟩ .nxp = .ok (rawSig c r s) := by
  simp only [sigExport, (raw_window_facts c).2.2.1]
  exact rawPair_ok _ _ _ hr hs

theorem sigExport_raw_overflow (c : Curve) (r s : Nat) (h : 256 ^ c.cl ≤ r ∨ 256 ^ c.cl ≤ s) :
    sigExport ⟨r, s, c⟩ .nxp = .error .other := by
  simp only [sigExport, (raw_window_facts c).2.2.1, rawPair, toBytes]
  by_cases hr : r < 256 ^ c.cl
  · have hs : ¬ s < 256 ^ c.cl := by omega
    simp [hr, hs]
  · simp [hr]

/-! ### `ECDSASignature` on DER signatures -/

/-- inside the window of curve `c` the length is not taken for raw and `get_ecc_curve` answers `c` -/
theorem der_window_facts (c : Curve) :
    ∀ L, L < 200 → 2 * c.cl + 3 ≤ L → L ≤ 2 * c.cl + 8 →
      KeysTables.sigSniffNxp L = false ∧ sigCurve L = .ok c := by
  cases c <;> decide +kernel

theorem window_small (c : Curve) (r s : Nat) (hw : LenWindow c r s) : derLen r s < 200 := by
  obtain ⟨_, h2⟩ := hw
  have := cl_values
  cases c <;> omega

theorem sigParse_der (c : Curve) (r s : Nat) (hw : LenWindow c r s) :
    sigParse (derEncode r s) = .ok ⟨r, s, c⟩ := by
  have hsmall := window_small c r s hw
  obtain ⟨f1, f2⟩ := der_window_facts c (derLen r s) hsmall hw.1 hw.2
  have hdec := derDecode_derEncode r s (by
    have : (200 : Nat) < 2 ^ 32 := by decide
    omega)
  unfold sigParse sigSniff
  simp only [derEncode_length, f1, hdec, f2]
  simp

/-! ### `serialize_signature`, `verify_signature`, `get_signature` -/

theorem serialize_der (r s cl : Nat) (h : derLen r s < 2 ^ 32) :
    serializeSignature (derEncode r s) cl = rawPair cl r s := by
  simp [serializeSignature, derDecode_derEncode r s h]

theorem verifyCandidates_raw (c : Curve) (r s : Nat) (hr : r < 256 ^ c.cl) (hs : s < 256 ^ c.cl) :
    verifyCandidates c (rawSig c r s) = [derEncode r s, rawSig c r s] := by
  obtain ⟨_, _, _, _, h5, h6⟩ := raw_window_facts c
  unfold verifyCandidates
  simp only [rawSig_length, h5, h6, if_true]
  unfold rawSig
  rw [take_pair, drop_pair, beDec_beEnc _ _ hr, beDec_beEnc _ _ hs]

theorem mem_verifyCandidates (c : Curve) (sig : Bytes) : sig ∈ verifyCandidates c sig := by
  unfold verifyCandidates
  split <;> simp

theorem getSignature_raw (c : Curve) (r s : Nat) (hr : r < 256 ^ c.cl) (hs : s < 256 ^ c.cl) (e : Option Enc) :
    getSignature (rawSig c r s) e =
      match e with
      | none | some .nxp => .ok (rawSig c r s)
      | some .der => .ok (derEncode r s)
      | some .pem => .ok (rawSig c r s) := by
  unfold getSignature
  rw [sigParse_raw c r s hr hs]
  have hx := sigExport_raw c r s hr hs
  rcases e with _ | e
  · simp only [Option.getD_none, hx]
  · cases e
    · simp only [Option.getD_some, hx]
    · simp [sigExport]
    · simp [sigExport]

theorem getSignature_der (c : Curve) (r s : Nat) (hr : r < 256 ^ c.cl) (hs : s < 256 ^ c.cl)
    (hw : LenWindow c r s) : getSignature (derEncode r s) none = .ok (rawSig c r s) := by
  unfold getSignature
  rw [sigParse_der c r s hw]
  simp only [Option.getD_none, sigExport_raw c r s hr hs]

end SpsdkVerif.Keys
