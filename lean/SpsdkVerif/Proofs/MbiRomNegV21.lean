/-
C02, negative side for ECC signed (v2.1 / manifest) images, as a REDUCTION: if any byte of the application that the ROM does
not use for the layout is changed and the ROM model still accepts with its ECDSA obligations holding under `co.verify`, then
a cryptographic primitive is broken (`Break co`): the genuine signature verifies for a different message
(`Break.sigForgery`).  No idealised axiom.
-/
import SpsdkVerif.Proofs.MbiRomV21
import SpsdkVerif.Crypto.Break

namespace SpsdkVerif.Mbi
open SpsdkVerif SpsdkVerif.Misc SpsdkVerif.Crypto
open SpsdkVerif.Generated.IvtConsts

variable {co : CryptoOps} {env : Env} {c : Cls} {cfg : Cfg} {signer : Signer}

/-! ### inversion of the ROM's steps -/

theorem romNegV21_need_inv {α : Type} {b : Bool} {why : String} {f : Unit → Spec.MbiRom.Rom α} {a : α}
    (h : (Spec.MbiRom.need b why >>= f) = .ok a) : f () = .ok a := by
  unfold Spec.MbiRom.need at h
  cases b with
  | true => exact h
  | false => cases h

theorem romNegV21_bind_inv {α β : Type} {x : Spec.MbiRom.Rom β} {f : β → Spec.MbiRom.Rom α} {a : α}
    (h : (x >>= f) = .ok a) : ∃ v, f v = .ok a := by
  cases x with
  | error e => cases h
  | ok v => exact ⟨v, h⟩

theorem romNegV21_ok_bind {α β : Type} (x : β) (f : β → Spec.MbiRom.Rom α) : ((Except.ok x : Spec.MbiRom.Rom β) >>= f) = f x := rfl

/-- whatever `romSignedV21` accepts, its last obligation is the ECDSA check of the bytes before the signature -/
theorem romNegV21_signed_inv (co : CryptoOps) (renv : Spec.MbiRom.RomEnv) (e : Bytes) (A C : Nat) (signPub : Bytes)
    (obs : List Spec.MbiRom.Obligation) (mLen : Nat) (a : Spec.MbiRom.Accepted)
    (e1 : Spec.MbiRom.rd32 e Spec.MbiRom.offCrcOrCert = A)
    (hcert : Spec.MbiRom.romCertV21 co renv e A = .ok (signPub, C, obs))
    (e2 : Spec.MbiRom.rd32 e (C + 12) = mLen)
    (h : Spec.MbiRom.romSignedV21 co renv e = .ok a) :
    a.obligations = obs ++ [Spec.MbiRom.Obligation.ecdsa signPub (List.take (C + mLen) e)
          (Spec.MbiRom.sub e (C + mLen) (C + mLen + List.length signPub))] := by
  unfold Spec.MbiRom.romSignedV21 at h
  simp only [e1] at h
  replace h := romNegV21_need_inv h
  simp only [hcert, romNegV21_ok_bind, e2] at h
  replace h := romNegV21_need_inv h
  replace h := romNegV21_need_inv h
  replace h := romNegV21_need_inv h
  replace h := romNegV21_need_inv h
  replace h := romNegV21_need_inv h
  replace h := romNegV21_need_inv h
  replace h := romNegV21_need_inv h
  replace h := romNegV21_need_inv h
  obtain ⟨v, h⟩ := romNegV21_bind_inv h
  replace h := romNegV21_need_inv h
  simp only [pure, Except.pure, Except.ok.injEq] at h
  rw [← h]


/-! ### a changed byte and the reads around it -/

theorem romNegV21_rd32_set (b : Bytes) (i : Nat) (y : UInt8) (off : Nat) (h : i < off ∨ off + 4 ≤ i) :
    rd32 (b.set i y) off = rd32 b off := by
  unfold rd32
  rcases h with h | h
  · rw [List.drop_set_of_lt h]
  · rw [List.drop_set, if_neg (by omega), List.take_set, List.set_eq_of_length_le (by rw [List.length_take]; omega)]

theorem romNegV21_slice_set (b : Bytes) (i : Nat) (y : UInt8) (lo hi : Nat) (h : i < lo) :
    slice (b.set i y) lo hi = slice b lo hi := by
  unfold slice
  rw [List.take_set, List.drop_set_of_lt h]

theorem romNegV21_set_ne (b : Bytes) (i : Nat) (y : UInt8) (hi : i < b.length) (h : b[i]? ≠ some y) : b ≠ b.set i y := by
  intro heq
  apply h
  rw [heq, List.getElem?_set_self hi]


theorem tamper_rejected_signedV21 (h : Hyp co env c cfg signer) (hf : c.family = some .signedV21) (ht : signedTypeOk c = true)
    (rkth : Bytes) (uk : Option Bytes) (signPub : Bytes) (obs : Bytes → Nat → List Spec.MbiRom.Obligation)
    (hrom : RomCertV21OK co (romEnvOf c rkth uk) cfg.cert cfg.sigLen signPub obs)
    (alg : SigAlg) (sk : PrivKey) (r : Rand) (hsigner : signer = fun m => co.sign alg sk m r) (hpub : signPub = co.pubOf sk) :
    ∃ e, exportImage co c cfg signer = .ok e
      ∧ ∀ (i : Nat) (y : UInt8), i < appLen c cfg → ¬ layoutWord i → e[i]? ≠ some y →
          ∀ a, Spec.MbiRom.romCheck co (romEnvOf c rkth uk) (e.set i y) = .ok a →
            (∀ ob ∈ a.obligations, holdsEcdsa co alg ob) → Break co := by
  have F := signedV21_classFacts h.hcls hf
  have G := signedV21_cfgFacts F h.hcfg
  obtain ⟨k, hk⟩ := Option.isSome_iff_exists.mp F.mkSome
  refine ⟨v21Image co c cfg signer k, signedV21_export F G k hk, ?_⟩
  intro i y hi hlw hne a hacc hobs
  have R := romV21_facts h F G hk
  obtain ⟨hck, -⟩ := romV21_renv F hk rkth uk
  obtain ⟨hS, hcertOK⟩ := hrom
  have hA := signedV21_app_len F G
  have hL := romV21_manifestLen k cfg
  rw [signedV21_appLen F] at hi
  generalize v21Image co c cfg signer k = e at R hne hacc
  generalize hrenv : romEnvOf c rkth uk = renv at hck hcertOK hacc
  have hzt : renv.zeroTotalLength = c.zeroTotalLength := by rw [← hrenv]; rfl
  have hlen := R.len
  have hlw' : i < 32 ∨ 44 ≤ i := by
    unfold layoutWord at hlw; omega
  have hlen' : (e.set i y).length = e.length := List.length_set
  -- the reads of the changed image
  have w32 : rd32 (e.set i y) ivtImageLengthOffset = (if c.zeroTotalLength then 0 else (e.set i y).length) := by
    rw [romNegV21_rd32_set _ _ _ _ (by simp only [ivtImageLengthOffset]; omega), R.w32, hlen']
  have w36 : rd32 (e.set i y) ivtImageFlagsOffset = flagsOf c cfg := by
    rw [romNegV21_rd32_set _ _ _ _ (by simp only [ivtImageFlagsOffset]; omega), R.w36]
  have w40 : rd32 (e.set i y) ivtCrcCertificateOffset = (appData cfg).length := by
    rw [romNegV21_rd32_set _ _ _ _ (by simp only [ivtCrcCertificateOffset]; omega), R.w40]
  have hcertAt : certAt (e.set i y) cfg.cert (appData cfg).length := by
    unfold certAt
    show slice _ _ _ = _
    rw [romNegV21_slice_set _ _ _ _ _ hi, R.cert]
  have mlen : rd32 (e.set i y) ((appData cfg).length + cfg.cert.length + 12) = manifestLen k cfg := by
    have := R.mlen
    rw [R.hC] at this
    rw [romNegV21_rd32_set _ _ _ _ (by omega), this]
  have hcert := hcertOK (e.set i y) (appData cfg).length hcertAt (by
    rw [hlen', hlen, R.hM, R.hC, hL]; simp only [manifestHeaderSize]; omega)
  -- romCheck is romSignedV21
  obtain ⟨-, -, -, g4⟩ := signedV21_flag_getters F G
  have hty : c.imageType = 1 ∨ c.imageType = 4 ∨ c.imageType = 8 := by
    unfold signedTypeOk at ht
    simp only [F.sign, hf] at ht
    simpa [or_assoc] using ht
  have hcheck := romV21_check_abs co renv (e.set i y) (flagsOf c cfg) c.imageType w36
    (by apply decide_eq_true; rw [hlen', hlen, R.hM, R.hC]; simp only [Spec.MbiRom.ivtSize, minIvtSize] at hA ⊢; omega)
    (by rw [hzt]
        show (if c.zeroTotalLength = true then rd32 (e.set i y) ivtImageLengthOffset == 0
          else rd32 (e.set i y) ivtImageLengthOffset == (e.set i y).length) = true
        rw [w32]; cases c.zeroTotalLength <;> simp)
    (by have : flagsOf c cfg >>> Spec.MbiRom.shiftTzType &&& Spec.MbiRom.maskTzType = cfg.tz.tag := by
          rw [← g4]; exact rom_tz _
        rw [this]
        cases cfg.tz <;> simp [TzCfg.tag, tzEnabled, tzCustom, tzDisabled, Spec.MbiRom.tzEnabled, Spec.MbiRom.tzCustom,
          Spec.MbiRom.tzDisabled])
    (by rw [← romV21_imageType F G]; exact rom_type _) hty hck
  rw [hcheck] at hacc
  have hobl := romNegV21_signed_inv co renv (e.set i y) (appData cfg).length ((appData cfg).length + cfg.cert.length)
    signPub (obs (e.set i y) (appData cfg).length) (manifestLen k cfg) a w40 hcert mlen hacc
  -- the ECDSA obligation is a forgery
  have hlast := hobs (Spec.MbiRom.Obligation.ecdsa signPub
      (List.take ((appData cfg).length + cfg.cert.length + manifestLen k cfg) (e.set i y))
      (Spec.MbiRom.sub (e.set i y) ((appData cfg).length + cfg.cert.length + manifestLen k cfg)
        ((appData cfg).length + cfg.cert.length + manifestLen k cfg + List.length signPub)))
    (by rw [hobl]; simp)
  have hp := R.pre
  have hs := R.sig
  rw [R.hM, R.hC] at hp hs
  have hsig' : Spec.MbiRom.sub (e.set i y) ((appData cfg).length + cfg.cert.length + manifestLen k cfg)
        ((appData cfg).length + cfg.cert.length + manifestLen k cfg + List.length signPub)
      = signer (v21Raw c cfg k) := by
    show slice _ _ _ = _
    rw [romNegV21_slice_set _ _ _ _ _ (by omega), hS, hs]
  have hrl := signedV21_raw_length F G k
  have hraw_i : (v21Raw c cfg k)[i]? ≠ some y := by
    rw [← hp, List.getElem?_take_of_lt (by omega)]; exact hne
  simp only [holdsEcdsa, hsig', List.take_set, hp] at hlast
  rw [hpub, hsigner] at hlast
  exact Break.sigForgery alg sk (v21Raw c cfg k) ((v21Raw c cfg k).set i y) r
    (romNegV21_set_ne _ _ _ (by rw [hrl]; omega) hraw_i) hlast

end SpsdkVerif.Mbi
