/-
C03 phase 3 — HAB `SrkItemEcc`: the generated field description of `export` / `parse` against the documented item layout.
-/
import SpsdkVerif.Proofs.Rkht

namespace SpsdkVerif.Rkht
open SpsdkVerif SpsdkVerif.Spec
open SpsdkVerif.Misc hiding Bytes
open SpsdkVerif.Crypto (HashAlg CryptoOps CryptoLaws Bytes)

theorem beDec_beEnc_fit (n v : Nat) (h : v < 256 ^ n) : beDec (beEnc n v) = v := by
  rw [beDec_beEnc_mod, Nat.mod_eq_of_lt h]

/-- the documented item, as twelve header bytes followed by the two coordinates -/
theorem habItem_ecc_layout (cv : Curve) (x y : Nat) (ca : Bool) :
    habItem (.ecc cv x y) ca =
      [0xE1] ++ beEnc 2 (12 + 2 * cv.coordSize) ++ [0x27, 0, 0, 0, byte (caFlag ca), byte cv.habId, 0] ++ beEnc 2 cv.bits ++
        (beEnc cv.coordSize x ++ beEnc cv.coordSize y) := by
  simp [habItem]

/-- `SrkItemEcc.parse` (generated positions / coordinate-size rule) reads the documented item back — for each curve, both flag values,
    all coordinates that fit the field, whatever follows the item -/
theorem habEccParse_item (cv : Curve) (x y : Nat) (ca : Bool) (hx : x < 256 ^ cv.coordSize) (hy : y < 256 ^ cv.coordSize)
    (tail : Bytes) :
    habEccParse (habItem (.ecc cv x y) ca ++ tail) = .ok { keySize := cv.bits, x := x, y := y, flag := caFlag ca } := by
  have g1 : G.habHeaderSize = 4 := rfl
  have g2 : G.habEccParseFlagIdx = 7 := rfl
  have g3 : G.habEccParseCurveIdx = 8 := rfl
  have g4 : G.habEccParseBitsIdx = [(10, 8), (11, 0)] := rfl
  have g5 : G.habEccParseCoordOff = 12 := rfl
  have g6 : UInt8.ofNat G.habTagKeyPublic = 0xE1 := by decide
  have hp : habParseCoordSize cv.bits = cv.coordSize := by cases cv <;> decide
  have hc : habCoordSize cv.bits = cv.coordSize := by cases cv <;> decide
  obtain ⟨h0, h1, h2, h3, e01, e23, hlen, hflag, hfv, hcurve, hks⟩ : ∃ h0 h1 h2 h3 : UInt8,
      beEnc 2 (12 + 2 * cv.coordSize) = [h0, h1] ∧ beEnc 2 cv.bits = [h2, h3] ∧ ¬ (beDec [h0, h1] < 4) ∧
      ¬ ((byte (caFlag ca)).toNat ≠ 0 ∧ (byte (caFlag ca)).toNat ≠ 0x80) ∧ (byte (caFlag ca)).toNat = caFlag ca ∧
      (G.habEccKeyType.any (fun p => p.2 == (byte cv.habId).toNat)) = true ∧ (h2.toNat <<< 8) + ((h3.toNat <<< 0) + 0) = cv.bits := by
    cases cv <;> cases ca
    · exact ⟨0, 76, 1, 0, by decide, by decide, by decide, by decide, by decide, by decide, by decide⟩
    · exact ⟨0, 76, 1, 0, by decide, by decide, by decide, by decide, by decide, by decide, by decide⟩
    · exact ⟨0, 108, 1, 128, by decide, by decide, by decide, by decide, by decide, by decide, by decide⟩
    · exact ⟨0, 108, 1, 128, by decide, by decide, by decide, by decide, by decide, by decide, by decide⟩
    · exact ⟨0, 144, 2, 9, by decide, by decide, by decide, by decide, by decide, by decide, by decide⟩
    · exact ⟨0, 144, 2, 9, by decide, by decide, by decide, by decide, by decide, by decide, by decide⟩
  rw [habItem_ecc_layout, e01, e23]
  have hd : [0xE1] ++ [h0, h1] ++ [0x27, 0, 0, 0, byte (caFlag ca), byte cv.habId, 0] ++ [h2, h3] ++
      (beEnc cv.coordSize x ++ beEnc cv.coordSize y) ++ tail =
      0xE1 :: h0 :: h1 :: 0x27 :: 0 :: 0 :: 0 :: byte (caFlag ca) :: byte cv.habId :: 0 :: h2 :: h3 ::
        (beEnc cv.coordSize x ++ (beEnc cv.coordSize y ++ tail)) := by simp
  rw [hd]
  have hx' : ((beEnc cv.coordSize x ++ (beEnc cv.coordSize y ++ tail))).take cv.coordSize = beEnc cv.coordSize x :=
    List.take_left' (beEnc_length' _ _)
  have hy' : ((beEnc cv.coordSize x ++ (beEnc cv.coordSize y ++ tail)).drop cv.coordSize).take cv.coordSize = beEnc cv.coordSize y := by
    rw [List.drop_left' (beEnc_length' _ _)]; exact List.take_left' (beEnc_length' _ _)
  simp only [habEccParse, g1, g2, g3, g4, g5, g6, List.length_cons, List.headD_cons, List.drop_succ_cons, List.drop_zero,
    List.take_succ_cons, List.take_zero, hlen, List.map_cons, List.map_nil, List.foldl_cons, List.foldl_nil,
    List.getD_cons_succ, List.getD_cons_zero, List.sum_cons, List.sum_nil, hks, hcurve, hp, hc, hflag, hfv,
    bind_ok, pure_eq_ok, ↓reduceIte, Bool.not_true, Bool.false_eq_true, ne_eq, not_true_eq_false]
  have hl : ¬ (beEnc cv.coordSize x ++ (beEnc cv.coordSize y ++ tail)).length + 1 + 1 + 1 + 1 + 1 + 1 + 1 + 1 + 1 + 1 + 1 + 1 < 4 := by omega
  have hl2 : ¬ (beEnc cv.coordSize x ++ (beEnc cv.coordSize y ++ tail)).length + 1 + 1 + 1 + 1 + 1 + 1 + 1 + 1 + 1 + 1 + 1 + 1 <
      max (max (max 7 8) 10) 11 + 1 := by
    have : max (max (max 7 8) 10) 11 + 1 = 12 := by decide
    omega
  have hflag' : ¬ (¬ caFlag ca = 0 ∧ ¬ caFlag ca = 128) := by cases ca <;> decide
  have hdrop : ∀ (n : Nat) (a1 a2 a3 a4 a5 a6 a7 a8 a9 a10 a11 a12 : UInt8) (l : Bytes),
      List.drop (12 + n) (a1 :: a2 :: a3 :: a4 :: a5 :: a6 :: a7 :: a8 :: a9 :: a10 :: a11 :: a12 :: l) = List.drop n l := by
    intro n a1 a2 a3 a4 a5 a6 a7 a8 a9 a10 a11 a12 l
    rw [Nat.add_comm]; rfl
  simp only [hl, hl2, hflag', hdrop, ↓reduceIte, List.drop_drop, hx', hy', beDec_beEnc_fit _ _ hx, beDec_beEnc_fit _ _ hy, toBytes_fit _ _ hx,
    toBytes_fit _ _ hy, bind_ok, pure_eq_ok]

end SpsdkVerif.Rkht
