/-
C03 phase 3 — HAB `SrkItemEcc`: the generated field description of `export` / `parse` against the documented item layout.
-/
import SpsdkVerif.Proofs.Rkht

namespace SpsdkVerif.Rkht
open SpsdkVerif SpsdkVerif.Spec
open SpsdkVerif.Misc hiding Bytes
open SpsdkVerif.Crypto (HashAlg CryptoOps CryptoLaws Bytes)

theorem beDec_beEnc_fit (n v : Nat) (h : v < 256 ^ n) : beDec (beEnc n v) = v := by
  rw [beDec_beEnc_mod, Nat.mod_eq_of_lt h]

/-- the documented item, as twelve header bytes followed by the two coordinates -/
theorem habItem_ecc_layout (cv : Curve) (x y : Nat) (ca : Bool) :
    habItem (.ecc cv x y) ca =
      [0xE1] ++ beEnc 2 (12 + 2 * cv.coordSize) ++ [0x27, 0, 0, 0, byte (caFlag ca), byte cv.habId, 0] ++ beEnc 2 cv.bits ++
        (beEnc cv.coordSize x ++ beEnc cv.coordSize y) := by
  simp [habItem]

/-- `SrkItemEcc.parse` (generated positions / coordinate-size rule) reads the documented item back — for each curve, both flag values,
    all coordinates that fit the field, whatever follows the item -/
theorem habEccParse_item (cv : Curve) (x y : Nat) (ca : Bool) (hx : x < 256 ^ cv.coordSize) (hy : y < 256 ^ cv.coordSize)
    (tail : Bytes) :
    habEccParse (habItem (.ecc cv x y) ca ++ tail) = .ok { keySize := cv.bits, x := x, y := y, flag := caFlag ca } := by
  have g1 : G.habHeaderSize = 4 := rfl
  have g2 : G.habEccParseFlagIdx = 7 := rfl
  have g3 : G.habEccParseCurveIdx = 8 := rfl
  have g4 : G.habEccParseBitsIdx = [(10, 8), (11, 0)] := rfl
  have g5 : G.habEccParseCoordOff = 12 := rfl
  have g6 : UInt8.ofNat G.habTagKeyPublic = 0xE1 := by decide
  have hp : habParseCoordSize cv.bits = cv.coordSize := by cases cv <;> decide
  have hc : habCoordSize cv.bits = cv.coordSize := by cases cv <;> decide
  obtain ⟨h0, h1, h2, h3, e01, e23, hlen, hflag, hfv, hcurve, hks⟩ : ∃ h0 h1 h2 h3 : UInt8,
      beEnc 2 (12 + 2 * cv.coordSize) = [h0, h1] ∧ beEnc 2 cv.bits = [h2, h3] ∧ ¬ (beDec [h0, h1] < 4) ∧
      ¬ ((byte (caFlag ca)).toNat ≠ 0 ∧ (byte (caFlag ca)).toNat ≠ 0x80) ∧ (byte (caFlag ca)).toNat = caFlag ca ∧
      (G.habEccKeyType.any (fun p => p.2 == (byte cv.habId).toNat)) = true ∧ (h2.toNat <<< 8) + ((h3.toNat <<< 0) + 0) = cv.bits := by
    cases cv <;> cases ca
    · exact ⟨0, 76, 1, 0, by decide, by decide, by decide, by decide, by decide, by decide, by decide⟩
    · exact ⟨0, 76, 1, 0, by decide, by decide, by decide, by decide, by decide, by decide, by decide⟩
    · exact ⟨0, 108, 1, 128, by decide, by decide, by decide, by decide, by decide, by decide, by decide⟩
    · exact ⟨0, 108, 1, 128, by decide, by decide, by decide, by decide, by decide, by decide, by decide⟩
    · exact ⟨0, 144, 2, 9, by decide, by decide, by decide, by decide, by decide, by decide, by decide⟩
    · exact ⟨0, 144, 2, 9, by decide, by decide, by decide, by decide, by decide, by decide, by decide⟩
  rw [habItem_ecc_layout, e01, e23]
  have hd : [0xE1] ++ [h0, h1] ++ [0x27, 0, 0, 0, byte (caFlag ca), byte cv.habId, 0] ++ [h2, h3] ++
      (beEnc cv.coordSize x ++ beEnc cv.coordSize y) ++ tail =
      0xE1 :: h0 :: h1 :: 0x27 :: 0 :: 0 :: 0 :: byte (caFlag ca) :: byte cv.habId :: 0 :: h2 :: h3 ::
        (beEnc cv.coordSize x ++ (beEnc cv.coordSize y ++ tail)) := by simp
  rw [hd]
  have hx' : ((beEnc cv.coordSize x ++ (beEnc cv.coordSize y ++ tail))).take cv.coordSize = beEnc cv.coordSize x :=
    List.take_left' (beEnc_length' _ _)
  have hy' : ((beEnc cv.coordSize x ++ (beEnc cv.coordSize y ++ tail)).drop cv.coordSize).take cv.coordSize = beEnc cv.coordSize y := by
    rw [List.drop_left' (beEnc_length' _ _)]; exact List.take_left' (beEnc_length' _ _)
  simp only [habEccParse, g1, g2, g3, g4, g5, g6, List.length_cons, List.headD_cons, List.drop_succ_cons, List.drop_zero,
    List.take_succ_cons, List.take_zero, hlen, List.map_cons, List.map_nil, List.foldl_cons, List.foldl_nil,
    List.getD_cons_succ, List.getD_cons_zero, List.sum_cons, List.sum_nil, hks, hcurve, hp, hc, hflag, hfv,
    bind_ok, pure_eq_ok, ↓reduceIte, Bool.not_true, Bool.false_eq_true, ne_eq, not_true_eq_false]
  have hl : ¬ (beEnc cv.coordSize x ++ (beEnc cv.coordSize y ++ tail)).length + 1 + 1 + 1 + 1 + 1 + 1 + 1 + 1 + 1 + 1 + 1 + 1 < 4 := by omega
  have hl2 : ¬ (beEnc cv.coordSize x ++ (beEnc cv.coordSize y ++ tail)).length + 1 + 1 + 1 + 1 + 1 + 1 + 1 + 1 + 1 + 1 + 1 + 1 <
      max (max (max 7 8) 10) 11 + 1 := by
    have : max (max (max 7 8) 10) 11 + 1 = 12 := by decide
    omega
  have hflag' : ¬ (¬ caFlag ca = 0 ∧ ¬ caFlag ca = 128) := by cases ca <;> decide
  have hdrop : ∀ (n : Nat) (a1 a2 a3 a4 a5 a6 a7 a8 a9 a10 a11 a12 : UInt8) (l : Bytes),
      List.drop (12 + n) (a1 :: a2 :: a3 :: a4 :: a5 :: a6 :: a7 :: a8 :: a9 :: a10 :: a11 :: a12 :: l) = List.drop n l := by
    intro n a1 a2 a3 a4 a5 a6 a7 a8 a9 a10 a11 a12 l
    rw [Nat.add_comm]; rfl
  simp only [hl, hl2, hflag', hdrop, ↓reduceIte, List.drop_drop, hx', hy', beDec_beEnc_fit _ _ hx, beDec_beEnc_fit _ _ hy, toBytes_fit _ _ hx,
    toBytes_fit _ _ hy, bind_ok, pure_eq_ok]

/-! ### every item the constructor and `export` accept (any key size of the generated curve table) -/

theorem bind_err {α β} (e : PyErr) (f : α → PyRes β) : ((Except.error e : PyRes α) >>= f) = .error e := rfl
theorem throw_eq {α} (e : PyErr) : (throw e : PyRes α) = .error e := rfl
theorem toBytes_nofit (w v : Nat) (h : ¬ v < 256 ^ w) : toBytes w v = .error .other := by simp [toBytes, h]

theorem habCurveName_le (ks : Nat) (nm : String) (h : habCurveName ks = .ok nm) : ks ≤ 775 := by
  have hall : ∀ r ∈ G.habEccCurveRanges, r.2.1 ≤ 775 := by decide
  simp only [habCurveName] at h
  cases hf : G.habEccCurveRanges.find? (fun r => decide (r.1 ≤ ks) && decide (ks ≤ r.2.1)) with
  | none => rw [hf] at h; cases h
  | some r =>
    have hp := List.find?_some hf
    have hm := List.mem_of_find?_eq_some hf
    simp only [Bool.and_eq_true, decide_eq_true_eq] at hp
    exact Nat.le_trans hp.2 (hall r hm)

theorem habKeyType_id (nm : String) (id : Nat) (h : G.habEccKeyType.lookup nm = some id) : id = 0x4B ∨ id = 0x4D ∨ id = 0x4E := by
  have e : G.habEccKeyType = [("secp256r1", 75), ("secp384r1", 77), ("secp521r1", 78)] := rfl
  rw [e] at h
  simp only [List.lookup] at h
  split at h
  · injection h with h; exact Or.inl h.symm
  · split at h
    · injection h with h; exact Or.inr (Or.inl h.symm)
    · split at h
      · injection h with h; exact Or.inr (Or.inr h.symm)
      · cases h

theorem beEnc2 (v : Nat) : beEnc 2 v = [UInt8.ofNat (v / 256 % 256), UInt8.ofNat (v % 256)] := by simp [beEnc]

theorem be16_bytes (v : Nat) (h : v < 65536) :
    (UInt8.ofNat (v >>> 8 &&& 255)).toNat <<< 8 + ((UInt8.ofNat (v >>> 0 &&& 255)).toNat <<< 0 + 0) = v := by
  have e255 : (255 : Nat) = 2 ^ 8 - 1 := rfl
  simp only [UInt8.toNat_ofNat', e255, Nat.and_two_pow_sub_one_eq_mod, Nat.shiftRight_eq_div_pow, Nat.shiftLeft_eq, Nat.shiftRight_zero,
    Nat.pow_zero, Nat.mul_one, Nat.add_zero]
  omega

/-- `SrkItemEcc.parse(SrkItemEcc(key_size, x, y, flag).export() ‖ rest)` gives the item back for EVERY item the constructor and `export`
    accept - any key size of the generated `get_ecc_curve` table (0..535, 768..775; e.g. 512..519 are exported with the P-256 curve id),
    both flag values, all coordinates that fit -/
theorem habEccParse_export_any (it : HabEccItem) (b : Bytes) (h : habEccExport it = .ok b) (rest : Bytes) :
    habEccParse (b ++ rest) = .ok it := by
  have g1 : G.habHeaderSize = 4 := rfl
  have g2 : G.habEccParseFlagIdx = 7 := rfl
  have g3 : G.habEccParseCurveIdx = 8 := rfl
  have g4 : G.habEccParseBitsIdx = [(10, 8), (11, 0)] := rfl
  have g5 : G.habEccParseCoordOff = 12 := rfl
  have g6 : UInt8.ofNat G.habTagKeyPublic = 0xE1 := by decide
  have g7 : G.habEccLenExtra = 8 := rfl
  have hcs : ∀ ks, habParseCoordSize ks = habCoordSize ks := fun _ => rfl
  obtain ⟨ks, x, y, flag⟩ := it
  by_cases hf : flag ≠ 0 ∧ flag ≠ 0x80
  · simp only [habEccExport, if_pos hf, throw_eq, bind_err] at h; cases h
  by_cases hx : ¬ x < 256 ^ habCoordSize ks
  · simp only [habEccExport, hf, ↓reduceIte, toBytes_nofit _ _ hx, bind_ok, pure_eq_ok, bind_err] at h; cases h
  have hx := Classical.not_not.mp hx
  by_cases hy : ¬ y < 256 ^ habCoordSize ks
  · simp only [habEccExport, hf, ↓reduceIte, toBytes_fit _ _ hx, toBytes_nofit _ _ hy, bind_ok, pure_eq_ok, bind_err] at h; cases h
  have hy := Classical.not_not.mp hy
  simp only [habEccExport, hf, ↓reduceIte, toBytes_fit _ _ hx, toBytes_fit _ _ hy, bind_ok, pure_eq_ok, beEnc_length', g1, g7] at h
  by_cases hlen : 4 + 8 + habCoordSize ks + habCoordSize ks ≥ 65536
  · simp only [hlen, ↓reduceIte, throw_eq, bind_err] at h; cases h
  simp only [hlen, ↓reduceIte, bind_ok, pure_eq_ok] at h
  cases hnm : habCurveName ks with
  | error e => rw [hnm] at h; cases h
  | ok nm =>
    rw [hnm] at h
    simp only [bind_ok] at h
    cases hid : G.habEccKeyType.lookup nm with
    | none => rw [hid] at h; cases h
    | some id =>
      rw [hid] at h
      simp only [bind_ok, pure_eq_ok] at h
      have hfields : G.habEccExportFields.map (habEccField flag id ks) =
          [0, 0, 0, flag >>> 0 &&& 255, id >>> 0 &&& 255, 0, ks >>> 8 &&& 255, ks >>> 0 &&& 255] := rfl
      rw [hfields] at h
      split at h
      · cases h
      · injection h with h
        subst h
        have hks := habCurveName_le ks nm hnm
        have hidv := habKeyType_id nm id hid
        have hfl : flag = 0 ∨ flag = 128 := by omega
        have hL : 4 + 8 + habCoordSize ks + habCoordSize ks < 256 ^ 2 := by
          have : (256 : Nat) ^ 2 = 65536 := by decide
          omega
        have hbd := beDec_beEnc_fit 2 _ hL
        obtain ⟨h0, h1, e01⟩ : ∃ h0 h1 : UInt8, beEnc 2 (4 + 8 + habCoordSize ks + habCoordSize ks) = [h0, h1] :=
          ⟨_, _, beEnc2 _⟩
        rw [e01] at hbd ⊢
        have hlen4 : ¬ beDec [h0, h1] < 4 := by omega
        have hflag : (UInt8.ofNat (flag >>> 0 &&& 255)).toNat = flag := by rcases hfl with rfl | rfl <;> decide
        have hcurve : (G.habEccKeyType.any fun p => p.2 == (UInt8.ofNat (id >>> 0 &&& 255)).toNat) = true := by
          rcases hidv with rfl | rfl | rfl <;> decide
        have hk := be16_bytes ks (by omega)
        have e2 : UInt8.ofNat G.habAlgEcdsa = 0x27 := by decide
        have hd : [UInt8.ofNat G.habTagKeyPublic] ++ [h0, h1] ++ [UInt8.ofNat G.habAlgEcdsa] ++
            List.map UInt8.ofNat [0, 0, 0, flag >>> 0 &&& 255, id >>> 0 &&& 255, 0, ks >>> 8 &&& 255, ks >>> 0 &&& 255] ++
            beEnc (habCoordSize ks) x ++ beEnc (habCoordSize ks) y ++ rest =
            0xE1 :: h0 :: h1 :: 0x27 :: UInt8.ofNat 0 :: UInt8.ofNat 0 :: UInt8.ofNat 0 :: UInt8.ofNat (flag >>> 0 &&& 255) ::
              UInt8.ofNat (id >>> 0 &&& 255) :: UInt8.ofNat 0 :: UInt8.ofNat (ks >>> 8 &&& 255) :: UInt8.ofNat (ks >>> 0 &&& 255) ::
              (beEnc (habCoordSize ks) x ++ (beEnc (habCoordSize ks) y ++ rest)) := by
          simp only [g6, e2, List.map_cons, List.map_nil, List.cons_append, List.nil_append, List.append_assoc]
        rw [hd]
        have hx' : ((beEnc (habCoordSize ks) x ++ (beEnc (habCoordSize ks) y ++ rest))).take (habCoordSize ks) = beEnc (habCoordSize ks) x :=
          List.take_left' (beEnc_length' _ _)
        have hy' : ((beEnc (habCoordSize ks) x ++ (beEnc (habCoordSize ks) y ++ rest)).drop (habCoordSize ks)).take (habCoordSize ks) =
            beEnc (habCoordSize ks) y := by
          rw [List.drop_left' (beEnc_length' _ _)]; exact List.take_left' (beEnc_length' _ _)
        have hflag' : ¬ (¬ flag = 0 ∧ ¬ flag = 128) := by omega
        have hdrop : ∀ (n : Nat) (a1 a2 a3 a4 a5 a6 a7 a8 a9 a10 a11 a12 : UInt8) (l : Bytes),
            List.drop (12 + n) (a1 :: a2 :: a3 :: a4 :: a5 :: a6 :: a7 :: a8 :: a9 :: a10 :: a11 :: a12 :: l) = List.drop n l := by
          intro n a1 a2 a3 a4 a5 a6 a7 a8 a9 a10 a11 a12 l
          rw [Nat.add_comm]; rfl
        simp only [habEccParse, g1, g2, g3, g4, g5, g6, List.length_cons, List.headD_cons, List.drop_succ_cons, List.drop_zero,
          List.take_succ_cons, List.take_zero, hlen4, List.map_cons, List.map_nil, List.foldl_cons, List.foldl_nil,
          List.getD_cons_succ, List.getD_cons_zero, List.sum_cons, List.sum_nil, hk, hcurve, hcs, hflag,
          bind_ok, pure_eq_ok, ↓reduceIte, Bool.not_true, Bool.false_eq_true, ne_eq, not_true_eq_false]
        have hl : ¬ (beEnc (habCoordSize ks) x ++ (beEnc (habCoordSize ks) y ++ rest)).length + 1 + 1 + 1 + 1 + 1 + 1 + 1 + 1 + 1 + 1 + 1 + 1 < 4 := by omega
        have hl2 : ¬ (beEnc (habCoordSize ks) x ++ (beEnc (habCoordSize ks) y ++ rest)).length + 1 + 1 + 1 + 1 + 1 + 1 + 1 + 1 + 1 + 1 + 1 + 1 <
            max (max (max 7 8) 10) 11 + 1 := by
          have : max (max (max 7 8) 10) 11 + 1 = 12 := by decide
          omega
        simp only [hl, hl2, hflag', hdrop, ↓reduceIte, hx', hy', beDec_beEnc_fit _ _ hx, beDec_beEnc_fit _ _ hy, toBytes_fit _ _ hx,
          toBytes_fit _ _ hy, bind_ok, pure_eq_ok]

end SpsdkVerif.Rkht
