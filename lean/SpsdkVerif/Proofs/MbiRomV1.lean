/-
C02 for the cert-block-v1 (RSA) family: the signature covers exactly the bytes that precede it (with HMAC / key store taken
out), the certificate block announces that length, the HMAC covers the first 64 bytes under the derived key, and the
independent ROM model (Spec/MbiRom.lean) accepts what the model exports - given what its walk over the (opaque)
certificate block answers.
-/
import SpsdkVerif.Proofs.MbiRomFlags
import SpsdkVerif.Proofs.MbiSignedV1
import SpsdkVerif.Proofs.MbiRomDefs

namespace SpsdkVerif.Mbi
open SpsdkVerif SpsdkVerif.Misc SpsdkVerif.Crypto
open SpsdkVerif.Generated.IvtConsts
open SpsdkVerif.Generated.MbiClasses (MixinName Method Attr provider attrs preParsed isData parent countInLegacyCertBlockLen)

variable {co : CryptoOps} {env : Env} {c : Cls} {cfg : Cfg} {signer : Signer}

/-- the image without the HMAC / key store block inserted at offset 64 -/
def bodyOf (c : Cls) (cfg : Cfg) (e : Bytes) : Bytes :=
  if c.has .Mbi_MixinHmac then e.take hmacOffset ++ e.drop (hmacOffset + hmacSize + (cfg.keyStore.getD []).length) else e

namespace RomV1
open SignedV1

/-! ### the image as header ++ inserted block ++ rest -/

theorem spec_rd32 (b : Bytes) (off : Nat) : Spec.MbiRom.rd32 b off = rd32 b off := rfl
theorem spec_sub (b : Bytes) (i j : Nat) : Spec.MbiRom.sub b i j = slice b i j := rfl

/-- everything behind the inserted block -/
def restOf (c : Cls) (cfg : Cfg) (sig : Bytes) : Bytes :=
  (ivtApp c cfg).drop hmacOffset ++ relocBlk cfg ++ certInImage c cfg ++ cfg.tz.bytes ++ sig

theorem img_parts (co : CryptoOps) (c : Cls) (cfg : Cfg) (sig : Bytes) :
    imgOf co c cfg sig = (ivtApp c cfg).take hmacOffset ++ insOf co c cfg ++ restOf c cfg sig := rfl

theorem head_rest (c : Cls) (cfg : Cfg) (sig : Bytes) :
    (ivtApp c cfg).take hmacOffset ++ restOf c cfg sig = rawOf c cfg ++ sig := by
  simp only [restOf, rawOf, List.append_assoc]
  rw [← List.append_assoc, List.take_append_drop]

theorem head_length (k : ClsF c) (g : CfgF c cfg) (hH : c.has .Mbi_MixinHmac = true) :
    ((ivtApp c cfg).take hmacOffset).length = hmacOffset := by
  have := g.hAppH hH
  rw [List.length_take, ivtApp_length k g]; omega

theorem ins_length (hl : CryptoLaws co) (g : CfgF c cfg) (hH : c.has .Mbi_MixinHmac = true) :
    (insOf co c cfg).length = hmacSize + (cfg.keyStore.getD []).length := by
  rw [insOf_length hl g, shift, hH]; rfl

theorem img_take (_hl : CryptoLaws co) (k : ClsF c) (g : CfgF c cfg) (sig : Bytes) (hH : c.has .Mbi_MixinHmac = true) :
    (imgOf co c cfg sig).take hmacOffset = (ivtApp c cfg).take hmacOffset := by
  rw [img_parts, List.append_assoc]
  exact List.take_left' (head_length k g hH)

theorem img_drop_ins (hl : CryptoLaws co) (k : ClsF c) (g : CfgF c cfg) (sig : Bytes) (hH : c.has .Mbi_MixinHmac = true) :
    (imgOf co c cfg sig).drop (hmacOffset + hmacSize + (cfg.keyStore.getD []).length) = restOf c cfg sig := by
  rw [img_parts]
  apply List.drop_left'
  rw [List.length_append, head_length k g hH, ins_length hl g hH]; omega

theorem body_eq (hl : CryptoLaws co) (k : ClsF c) (g : CfgF c cfg) (sig : Bytes) :
    Mbi.bodyOf c cfg (imgOf co c cfg sig) = rawOf c cfg ++ sig := by
  unfold Mbi.bodyOf
  cases hH : c.has .Mbi_MixinHmac with
  | false =>
    simp only [Bool.false_eq_true, if_false, img_parts, insOf, hH, List.append_nil]
    exact head_rest c cfg sig
  | true =>
    simp only [if_true, img_take hl k g sig hH, img_drop_ins hl k g sig hH]
    exact head_rest c cfg sig

/-! ### the signed range -/

theorem raw_length (k : ClsF c) (g : CfgF c cfg) : (rawOf c cfg).length = (totalLenForCertBlock c cfg).toNat := by
  rw [legacyLen_nat cfg k, Int.toNat_natCast]
  simp only [rawOf, List.length_append, certInImage_length k g, appLen_blocks k g]

theorem il_bound (k : ClsF c) (g : CfgF c cfg) : (totalLenForCertBlock c cfg).toNat < 2 ^ 32 := by
  have := total_bound k g
  rw [totalLen_nat k g] at this
  rw [legacyLen_nat cfg k]
  omega

theorem raw_cert (k : ClsF c) (g : CfgF c cfg) (sig : Bytes) :
    slice (rawOf c cfg ++ sig) (appLen c cfg) (appLen c cfg + cfg.cert.length) = certInImage c cfg := by
  have e : rawOf c cfg ++ sig = (ivtApp c cfg ++ relocBlk cfg) ++ certInImage c cfg ++ (cfg.tz.bytes ++ sig) := by
    simp only [rawOf, List.append_assoc]
  rw [e, appLen_blocks k g, ← List.length_append, ← certInImage_length k g]
  exact slice_append_mid _ _ _

theorem cert_il (k : ClsF c) (g : CfgF c cfg) :
    rd32 (certInImage c cfg) certImageLengthOffset = (totalLenForCertBlock c cfg).toNat := by
  have h := g.hCertLen
  simp only [certHeaderSize] at h
  have e : certInImage c cfg = cfg.cert.take 20 ++ le32 (totalLenForCertBlock c cfg).toNat ++ cfg.cert.drop 24 := by
    rw [certInImage_eq cfg k]
    simp only [certSetImageLength, setAt, certImageLengthOffset, le32_length]
  exact rd32_at _ _ _ _ _ e (by rw [List.length_take, certImageLengthOffset]; omega) (il_bound k g)

/-! ### the HMAC block -/

theorem derivation_const : Spec.MbiRom.hmacKeyDerivation = deriveHmacKeyConst := by decide

/-- the HMAC of the header as the ROM computes it -/
def romMac (co : CryptoOps) (c : Cls) (cfg : Cfg) (key : Bytes) : Bytes :=
  hmac co .sha256 (ecbEnc co key Spec.MbiRom.hmacKeyDerivation) ((ivtApp c cfg).take hmacOffset)

theorem hmacKey_some (g : CfgF c cfg) (hH : c.has .Mbi_MixinHmac = true) :
    ∃ key, cfg.hmacKey = some key ∧ key.length = hmacKeyLength := by
  cases hk : cfg.hmacKey with
  | none => have := g.hHkN hk; rw [hH] at this; cases this
  | some key => exact ⟨key, rfl, (g.hHk key hk).1⟩

theorem ins_eq (co : CryptoOps) (hH : c.has .Mbi_MixinHmac = true) (key : Bytes) (hk : cfg.hmacKey = some key) :
    insOf co c cfg = romMac co c cfg key ++ cfg.keyStore.getD [] := by
  simp only [insOf, hH, if_true, computeHmac, hk, deriveHmacKey, romMac, derivation_const]

theorem romMac_length (hl : CryptoLaws co) (key : Bytes) : (romMac co c cfg key).length = hmacSize := by
  rw [romMac, hmac_length hl]; rfl

theorem img_mac (hl : CryptoLaws co) (k : ClsF c) (g : CfgF c cfg) (sig : Bytes) (hH : c.has .Mbi_MixinHmac = true)
    (key : Bytes) (hk : cfg.hmacKey = some key) :
    slice (imgOf co c cfg sig) hmacOffset (hmacOffset + hmacSize) = romMac co c cfg key := by
  have e : imgOf co c cfg sig = (ivtApp c cfg).take hmacOffset ++ romMac co c cfg key
      ++ (cfg.keyStore.getD [] ++ restOf c cfg sig) := by
    rw [img_parts, ins_eq co hH key hk]; simp only [List.append_assoc]
  rw [e]
  have := slice_append_mid ((ivtApp c cfg).take hmacOffset) (romMac co c cfg key) (cfg.keyStore.getD [] ++ restOf c cfg sig)
  rwa [head_length k g hH, romMac_length hl] at this

theorem img_keyStore (hl : CryptoLaws co) (k : ClsF c) (g : CfgF c cfg) (sig : Bytes) (hH : c.has .Mbi_MixinHmac = true)
    (key : Bytes) (hk : cfg.hmacKey = some key) :
    slice (imgOf co c cfg sig) (hmacOffset + hmacSize) (hmacOffset + hmacSize + (cfg.keyStore.getD []).length)
      = cfg.keyStore.getD [] := by
  have e : imgOf co c cfg sig = ((ivtApp c cfg).take hmacOffset ++ romMac co c cfg key)
      ++ cfg.keyStore.getD [] ++ restOf c cfg sig := by
    rw [img_parts, ins_eq co hH key hk]; simp only [List.append_assoc]
  rw [e]
  have := slice_append_mid ((ivtApp c cfg).take hmacOffset ++ romMac co c cfg key) (cfg.keyStore.getD [])
    (restOf c cfg sig)
  rwa [List.length_append, head_length k g hH, romMac_length hl] at this

/-! ### the ROM's checks -/

theorem need_ok {b : Bool} {w : String} (h : b = true) : Spec.MbiRom.need b w = .ok () := by
  simp [Spec.MbiRom.need, h]

theorem relocImages_mod4 (es : List RelocEntry) : (relocImages es).length % 4 = 0 := by
  induction es with
  | nil => rfl
  | cons e es ih =>
    have := align4_length_mod e.image
    rw [relocImages_cons, List.length_append]; omega

theorem appLen_mod4 (k : ClsF c) (cfg : Cfg) : appLen c cfg % 4 = 0 := by
  rw [appLen_eq cfg k]
  have h1 : (appData cfg).length % 4 = 0 := align4_length_mod _
  have h2 : relocLen c cfg % 4 = 0 := by
    unfold relocLen
    cases cfg.reloc with
    | none => rfl
    | some es => have := relocImages_mod4 es; simp only [relocExport_length]; omega
  split <;> omega

theorem appLen_ge (k : ClsF c) (g : CfgF c cfg) : minIvtSize ≤ appLen c cfg := by
  have := app_ge k g.hval
  rw [appLen_eq cfg k]; omega

theorem body_word (k : ClsF c) (g : CfgF c cfg) (sig : Bytes) :
    rd32 (rawOf c cfg ++ sig) ivtCrcCertificateOffset = appLen c cfg := by
  have hge := app_ge k g.hval
  simp only [minIvtSize] at hge
  rw [rd32_append_left _ _ _ (by
    simp only [rawOf, List.length_append, ivtApp_length k g, ivtCrcCertificateOffset]; omega),
    rawOf_word k g _ (by decide)]
  exact (ivtApp_words k g).2.2.1

theorem romSignedV1_ok (k : ClsF c) (g : CfgF c cfg) (sig : Bytes) (hs : sig.length = cfg.sigLen)
    (renv : Spec.MbiRom.RomEnv) (certs : List (Nat × Nat)) (table : List Bytes)
    (hrom : RomCertV1OK co renv cfg.cert certs table) (stripped : Nat) :
    ∃ a last, Spec.MbiRom.romSignedV1 co renv (rawOf c cfg ++ sig) stripped = .ok a
      ∧ (certs.map (fun p => (appLen c cfg + p.1, p.2))).getLast? = some last
      ∧ a.obligations = [.x509Chain (certs.map (fun p => (appLen c cfg + p.1, p.2))) table,
                         .rsaByCert last (totalLenForCertBlock c cfg).toNat]
      ∧ a.stripped = stripped := by
  obtain ⟨hne, hwalk⟩ := hrom
  have hat : certAt (rawOf c cfg ++ sig) (certSetImageLength cfg.cert (totalLenForCertBlock c cfg).toNat) (appLen c cfg) := by
    unfold certAt
    rw [spec_sub, ← certInImage_eq cfg k, certInImage_length k g]
    exact raw_cert k g sig
  obtain ⟨ci, h1, h2, h3, h4, h5⟩ := hwalk _ _ _ hat (il_bound k g)
  have hmapne : certs.map (fun p => (appLen c cfg + p.1, p.2)) ≠ [] := by
    intro h; exact hne (List.map_eq_nil_iff.1 h)
  obtain ⟨last, hlast⟩ : ∃ last, (certs.map (fun p => (appLen c cfg + p.1, p.2))).getLast? = some last := by
    cases hl : (certs.map (fun p => (appLen c cfg + p.1, p.2))).getLast? with
    | none => exact absurd (List.getLast?_eq_none_iff.1 hl) hmapne
    | some last => exact ⟨last, rfl⟩
  have hw : Spec.MbiRom.rd32 (rawOf c cfg ++ sig) Spec.MbiRom.offCrcOrCert = appLen c cfg := body_word k g sig
  have c1 : decide (appLen c cfg ≥ Spec.MbiRom.ivtSize ∧ (appLen c cfg % 4 == 0) = true) = true := by
    have := appLen_ge k g; have := appLen_mod4 k cfg
    simp only [minIvtSize] at *
    simp only [Spec.MbiRom.ivtSize, decide_eq_true_eq, beq_iff_eq]; omega
  have c2 : decide (ci.blockEnd ≤ ci.imageLength ∧ ci.imageLength < (rawOf c cfg ++ sig).length) = true := by
    have := g.hSigLen
    rw [h4, h5, List.length_append, raw_length k g, hs, legacyLen_nat cfg k]
    simp only [decide_eq_true_eq]; omega
  refine ⟨{ stripped := stripped, obligations := [.x509Chain ci.certs ci.table, .rsaByCert last ci.imageLength],
            authenticated := [(0, (rawOf c cfg ++ sig).length + stripped)] }, last, ?_, hlast, ?_, ?_⟩
  · unfold Spec.MbiRom.romSignedV1
    simp only [hw, need_ok c1, h1, need_ok c2, bind, Except.bind, h2, hlast, pure, Except.pure]
  · simp only [h2, h3, h4]
  · rfl

theorem romHmac_ok (hl : CryptoLaws co) (k : ClsF c) (g : CfgF c cfg) (sig : Bytes) (hH : c.has .Mbi_MixinHmac = true)
    (rkth : Bytes) :
    Spec.MbiRom.romHmac co (romEnvOf c rkth cfg.hmacKey) (imgOf co c cfg sig)
      = .ok (rawOf c cfg ++ sig, hmacSize + (cfg.keyStore.getD []).length, cfg.keyStore.isSome) := by
  obtain ⟨key, hk, hkl⟩ := hmacKey_some g hH
  have hks : (Spec.MbiRom.rd32 (imgOf co c cfg sig) Spec.MbiRom.offFlags &&& Spec.MbiRom.flagKeyStore != 0)
      = cfg.keyStore.isSome := by
    have : Spec.MbiRom.rd32 (imgOf co c cfg sig) Spec.MbiRom.offFlags = flagsIn (imgOf co c cfg sig) := rfl
    rw [this, img_flags co k g, ← (flags_get k g).2.2.2.1]
    exact rom_ks _
  have hstrip : Spec.MbiRom.hmacSize + (if cfg.keyStore.isSome = true then Spec.MbiRom.keyStoreSize else 0)
      = hmacSize + (cfg.keyStore.getD []).length := by
    have := ksLen_eq g
    unfold ksLen at this
    rw [this]; rfl
  have c1 : decide ((imgOf co c cfg sig).length ≥ Spec.MbiRom.hmacOffset + (hmacSize + (cfg.keyStore.getD []).length))
      = true := by
    have h2 : (appData cfg).length ≥ 64 := g.hAppH hH
    have h3 := imgOf_length hl k g sig
    have h4 : shift c cfg = hmacSize + (cfg.keyStore.getD []).length := by rw [shift, hH]; rfl
    have h5 : Spec.MbiRom.hmacOffset = 64 := rfl
    rw [appLen_eq cfg k, h4] at h3
    rw [h3, h5, decide_eq_true_eq]; omega
  have c2 : (key.length == Spec.MbiRom.userKeySize) = true := by
    rw [hkl]; rfl
  have hmac64 : Spec.MbiRom.sub (imgOf co c cfg sig) Spec.MbiRom.hmacOffset (Spec.MbiRom.hmacOffset + Spec.MbiRom.hmacSize)
      = romMac co c cfg key := img_mac hl k g sig hH key hk
  have htake : (imgOf co c cfg sig).take Spec.MbiRom.hmacOffset = (ivtApp c cfg).take hmacOffset :=
    img_take hl k g sig hH
  have hdrop : (imgOf co c cfg sig).drop (Spec.MbiRom.hmacOffset + (hmacSize + (cfg.keyStore.getD []).length))
      = restOf c cfg sig := by
    rw [← Nat.add_assoc]; exact img_drop_ins hl k g sig hH
  have huk : (romEnvOf c rkth cfg.hmacKey).userKey = some key := hk
  unfold Spec.MbiRom.romHmac
  simp only [hks, hstrip, need_ok c1, huk, need_ok c2, hmac64, htake, hdrop, bind, Except.bind, pure, Except.pure]
  have c3 : (romMac co c cfg key == hmac co .sha256 (ecbEnc co key Spec.MbiRom.hmacKeyDerivation)
      ((ivtApp c cfg).take hmacOffset)) = true := by
    simp [romMac]
  simp only [need_ok c3, head_rest]

theorem flags_type (k : ClsF c) (g : CfgF c cfg) : getImageType (flagsOf c cfg) = c.imageType := by
  have hv : cfg.imageVersion ≤ imgVerMask := by have := g.hVer; simp only [imgVerMask]; omega
  exact (flags_fields c.imageType cfg.tz.tag cfg.subType cfg.imageVersion
    (match cfg.keyStore with | some b => b.length | none => 0)
    c.hasTrustZone (c.hasAttr .image_subtype) (c.hasAttr .user_hw_key_enabled) cfg.hwKey (c.hasAttr .key_store)
    cfg.keyStore.isSome (c.hasAttr .app_table) cfg.reloc.isSome (c.hasAttr .image_version)
    (c.hasAttr .image_version_to_image_type) true k.hType (tag_le _) g.hSub hv).1

theorem type_cases (k : ClsF c) (hf : c.family = some .signedV1) (ht : signedTypeOk c = true) :
    c.imageType = 1 ∨ c.imageType = 4 ∨ c.imageType = 8 := by
  unfold signedTypeOk at ht
  rw [k.sk, hf] at ht
  simpa [or_assoc] using ht

theorem romCheck_ok (hl : CryptoLaws co) (k : ClsF c) (g : CfgF c cfg) (hf : c.family = some .signedV1)
    (ht : signedTypeOk c = true) (sig : Bytes) (hs : sig.length = cfg.sigLen) (rkth : Bytes) :
    Spec.MbiRom.romCheck co (romEnvOf c rkth cfg.hmacKey) (imgOf co c cfg sig)
      = (if c.has .Mbi_MixinHmac then
          Spec.MbiRom.romSignedV1 co (romEnvOf c rkth cfg.hmacKey) (rawOf c cfg ++ sig)
            (hmacSize + (cfg.keyStore.getD []).length)
         else Spec.MbiRom.romSignedV1 co (romEnvOf c rkth cfg.hmacKey) (imgOf co c cfg sig) 0) := by
  have hfl : Spec.MbiRom.rd32 (imgOf co c cfg sig) Spec.MbiRom.offFlags = flagsOf c cfg := img_flags co k g sig
  have hty : flagsOf c cfg &&& Spec.MbiRom.maskImageType = c.imageType := (rom_type _).trans (flags_type k g)
  have htz : (flagsOf c cfg >>> Spec.MbiRom.shiftTzType) &&& Spec.MbiRom.maskTzType = cfg.tz.tag := (rom_tz _).trans (flags_get k g).1
  have htot : Spec.MbiRom.rd32 (imgOf co c cfg sig) Spec.MbiRom.offTotalLength
      = (if c.zeroTotalLength then 0 else (imgOf co c cfg sig).length) := by
    have : Spec.MbiRom.rd32 (imgOf co c cfg sig) Spec.MbiRom.offTotalLength = rd32 (imgOf co c cfg sig) ivtImageLengthOffset := rfl
    rw [this, imgOf_head co k g _ _ (by decide), (ivtApp_words k g).1, imgOf_length_total hl k g sig hs]
  have c0 : decide ((imgOf co c cfg sig).length ≥ Spec.MbiRom.ivtSize) = true := by
    have h1 : 56 ≤ appLen c cfg := appLen_ge k g
    have h2 : Spec.MbiRom.ivtSize = 56 := rfl
    rw [imgOf_length hl k g, h2, decide_eq_true_eq]; omega
  have c1 : (if (romEnvOf c rkth cfg.hmacKey).zeroTotalLength = true
      then (if c.zeroTotalLength then 0 else (imgOf co c cfg sig).length) == 0
      else (if c.zeroTotalLength then 0 else (imgOf co c cfg sig).length) == (imgOf co c cfg sig).length) = true := by
    have : (romEnvOf c rkth cfg.hmacKey).zeroTotalLength = c.zeroTotalLength := rfl
    rw [this]; cases c.zeroTotalLength <;> simp
  have c2 : decide ((cfg.tz.tag == Spec.MbiRom.tzEnabled) = true ∨ (cfg.tz.tag == Spec.MbiRom.tzCustom) = true
      ∨ (cfg.tz.tag == Spec.MbiRom.tzDisabled) = true) = true := by
    cases cfg.tz <;> simp [TzCfg.tag, tzEnabled, tzCustom, tzDisabled, Spec.MbiRom.tzEnabled, Spec.MbiRom.tzCustom,
      Spec.MbiRom.tzDisabled]
  have hck : (romEnvOf c rkth cfg.hmacKey).certKind = .v1 := by simp [romEnvOf, k.hV1]
  have hhh : (romEnvOf c rkth cfg.hmacKey).hmacHeader = c.has .Mbi_MixinHmac := rfl
  unfold Spec.MbiRom.romCheck
  simp only [need_ok c0, hfl, hty, htz, htot, need_ok c1, need_ok c2, bind, Except.bind, hck, hhh]
  have hT := type_cases k hf ht
  have e1 : (c.imageType == Spec.MbiRom.typePlain) = false := by
    rcases hT with h | h | h <;> rw [h] <;> rfl
  have e2 : ¬ ((c.imageType == Spec.MbiRom.typeCrcRam) = true ∨ (c.imageType == Spec.MbiRom.typeCrcXip) = true) := by
    rcases hT with h | h | h <;> rw [h] <;> decide
  have e3 : (c.imageType == Spec.MbiRom.typeSignedRam) = true ∨ (c.imageType == Spec.MbiRom.typeSignedXip) = true
      ∨ (c.imageType == Spec.MbiRom.typeSignedXipNxp) = true := by
    rcases hT with h | h | h <;> rw [h] <;> decide
  simp only [e1, Bool.false_eq_true, if_false, if_neg e2, if_pos e3]
  cases hH : c.has .Mbi_MixinHmac with
  | false => simp only [Bool.false_eq_true, if_false]
  | true => simp only [if_true, romHmac_ok hl k g sig hH rkth]

end RomV1

/-- the signed range is the prefix of the body that precedes the signature, nothing follows the signature, and the
    certificate block inside the signed range announces exactly that length -/
theorem signed_range_is_prefix_signedV1 (h : Hyp co env c cfg signer) (hf : c.family = some .signedV1) :
    ∃ e pre, exportImage co c cfg signer = .ok e
      ∧ bodyOf c cfg e = pre ++ signer pre
      ∧ pre.length = (totalLenForCertBlock c cfg).toNat
      ∧ slice pre (appLen c cfg) (appLen c cfg + cfg.cert.length) = certInImage c cfg
      ∧ rd32 (certInImage c cfg) certImageLengthOffset = pre.length := by
  have k := SignedV1.clsF h.hcls hf
  have g := SignedV1.cfgF k h.hcfg
  refine ⟨_, SignedV1.rawOf c cfg, SignedV1.export_eq signer k g, RomV1.body_eq h.hlaws k g _, RomV1.raw_length k g, ?_, ?_⟩
  · have := RomV1.raw_cert k g []
    rwa [List.append_nil] at this
  · rw [RomV1.cert_il k g, RomV1.raw_length k g]

/-- the HMAC block is HMAC-SHA256 of the first 64 bytes under AES-ECB(user key, ROM's derivation constant), followed by the key store -/
theorem hmac_covers_header_signedV1 (h : Hyp co env c cfg signer) (hf : c.family = some .signedV1)
    (hh : c.has .Mbi_MixinHmac = true) :
    ∃ e k, exportImage co c cfg signer = .ok e ∧ cfg.hmacKey = some k
      ∧ slice e hmacOffset (hmacOffset + hmacSize)
          = hmac co .sha256 (ecbEnc co k Spec.MbiRom.hmacKeyDerivation) (e.take hmacOffset)
      ∧ slice e (hmacOffset + hmacSize) (hmacOffset + hmacSize + (cfg.keyStore.getD []).length) = cfg.keyStore.getD [] := by
  have k := SignedV1.clsF h.hcls hf
  have g := SignedV1.cfgF k h.hcfg
  obtain ⟨key, hk, _⟩ := RomV1.hmacKey_some g hh
  refine ⟨_, key, SignedV1.export_eq signer k g, hk, ?_, RomV1.img_keyStore h.hlaws k g _ hh key hk⟩
  rw [RomV1.img_mac h.hlaws k g _ hh key hk, RomV1.img_take h.hlaws k g _ hh]
  rfl

/-- the ROM accepts the exported image; what is left to the environment is the X.509 chain of the block and the RSA
    verification, by the last certificate, of the signature over the announced (= signed) prefix -/
theorem rom_accepts_signedV1 (h : Hyp co env c cfg signer) (hf : c.family = some .signedV1) (ht : signedTypeOk c = true)
    (rkth : Bytes) (certs : List (Nat × Nat)) (table : List Bytes)
    (hrom : RomCertV1OK co (romEnvOf c rkth cfg.hmacKey) cfg.cert certs table) :
    ∃ e a last, exportImage co c cfg signer = .ok e
      ∧ Spec.MbiRom.romCheck co (romEnvOf c rkth cfg.hmacKey) e = .ok a
      ∧ (certs.map (fun p => (appLen c cfg + p.1, p.2))).getLast? = some last
      ∧ a.obligations = [.x509Chain (certs.map (fun p => (appLen c cfg + p.1, p.2))) table,
                         .rsaByCert last (totalLenForCertBlock c cfg).toNat]
      ∧ a.stripped = (if c.has .Mbi_MixinHmac then hmacSize + (cfg.keyStore.getD []).length else 0) := by
  have k := SignedV1.clsF h.hcls hf
  have g := SignedV1.cfgF k h.hcfg
  have hs := h.hsig (SignedV1.rawOf c cfg)
  obtain ⟨a, last, h1, h2, h3, h4⟩ := RomV1.romSignedV1_ok k g (signer (SignedV1.rawOf c cfg)) hs
    (romEnvOf c rkth cfg.hmacKey) certs table hrom
    (if c.has .Mbi_MixinHmac then hmacSize + (cfg.keyStore.getD []).length else 0)
  refine ⟨_, a, last, SignedV1.export_eq signer k g, ?_, h2, h3, h4⟩
  rw [RomV1.romCheck_ok h.hlaws k g hf ht _ hs rkth]
  cases hH : c.has .Mbi_MixinHmac with
  | true => rw [hH] at h1; exact h1
  | false =>
    rw [hH] at h1
    have hb := RomV1.body_eq h.hlaws k g (signer (SignedV1.rawOf c cfg))
    unfold Mbi.bodyOf at hb
    rw [hH] at hb
    simp only [Bool.false_eq_true, if_false] at hb h1 ⊢
    rw [hb]; exact h1

end SpsdkVerif.Mbi
