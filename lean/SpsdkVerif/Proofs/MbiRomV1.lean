/-
C02 for the cert-block-v1 (RSA) family: the signature covers exactly the bytes that precede it (with HMAC / key store taken
out), the certificate block announces that length, the HMAC covers the first 64 bytes under the derived key, and the
independent ROM model (Spec/MbiRom.lean) accepts what the model exports - given what its walk over the (opaque)
certificate block answers.
-/
import SpsdkVerif.Proofs.MbiSignedV1
import SpsdkVerif.Proofs.MbiRomDefs

namespace SpsdkVerif.Mbi
open SpsdkVerif SpsdkVerif.Misc SpsdkVerif.Crypto
open SpsdkVerif.Generated.IvtConsts
open SpsdkVerif.Generated.MbiClasses (MixinName Method Attr provider attrs preParsed isData parent countInLegacyCertBlockLen)

variable {co : CryptoOps} {env : Env} {c : Cls} {cfg : Cfg} {signer : Signer}

/-- the image without the HMAC / key store block inserted at offset 64 -/
def bodyOf (c : Cls) (cfg : Cfg) (e : Bytes) : Bytes :=
  if c.has .Mbi_MixinHmac then e.take hmacOffset ++ e.drop (hmacOffset + hmacSize + (cfg.keyStore.getD []).length) else e

/-- the signed range is the prefix of the body that precedes the signature, nothing follows the signature, and the
    certificate block inside the signed range announces exactly that length -/
theorem signed_range_is_prefix_signedV1 (h : Hyp co env c cfg signer) (hf : c.family = some .signedV1) :
    ∃ e pre, exportImage co c cfg signer = .ok e
      ∧ bodyOf c cfg e = pre ++ signer pre
      ∧ pre.length = (totalLenForCertBlock c cfg).toNat
      ∧ slice pre (appLen c cfg) (appLen c cfg + cfg.cert.length) = certInImage c cfg
      ∧ rd32 (certInImage c cfg) certImageLengthOffset = pre.length := by
  sorry

/-- the HMAC block is HMAC-SHA256 of the first 64 bytes under AES-ECB(user key, ROM's derivation constant), followed by the key store -/
theorem hmac_covers_header_signedV1 (h : Hyp co env c cfg signer) (hf : c.family = some .signedV1)
    (hh : c.has .Mbi_MixinHmac = true) :
    ∃ e k, exportImage co c cfg signer = .ok e ∧ cfg.hmacKey = some k
      ∧ slice e hmacOffset (hmacOffset + hmacSize)
          = hmac co .sha256 (ecbEnc co k Spec.MbiRom.hmacKeyDerivation) (e.take hmacOffset)
      ∧ slice e (hmacOffset + hmacSize) (hmacOffset + hmacSize + (cfg.keyStore.getD []).length) = cfg.keyStore.getD [] := by
  sorry

/-- the ROM accepts the exported image; what is left to the environment is the X.509 chain of the block and the RSA
    verification, by the last certificate, of the signature over the announced (= signed) prefix -/
theorem rom_accepts_signedV1 (h : Hyp co env c cfg signer) (hf : c.family = some .signedV1) (ht : signedTypeOk c = true)
    (rkth : Bytes) (certs : List (Nat × Nat)) (table : List Bytes)
    (hrom : RomCertV1OK co (romEnvOf c rkth cfg.hmacKey) cfg.cert certs table) :
    ∃ e a last, exportImage co c cfg signer = .ok e
      ∧ Spec.MbiRom.romCheck co (romEnvOf c rkth cfg.hmacKey) e = .ok a
      ∧ (certs.map (fun p => (appLen c cfg + p.1, p.2))).getLast? = some last
      ∧ a.obligations = [.x509Chain (certs.map (fun p => (appLen c cfg + p.1, p.2))) table,
                         .rsaByCert last (totalLenForCertBlock c cfg).toNat]
      ∧ a.stripped = (if c.has .Mbi_MixinHmac then hmacSize + (cfg.keyStore.getD []).length else 0) := by
  sorry

end SpsdkVerif.Mbi
