/-
C02 for the cert-block-v2.1 / manifest family: the signature covers exactly the bytes that precede it, the optional digest
is the hash of the same bytes, and the independent ROM model (Spec/MbiRom.lean) accepts what the model exports - given
what its walk over the (opaque) certificate block answers.
-/
import SpsdkVerif.Proofs.MbiRomFlags
import SpsdkVerif.Proofs.MbiSignedV21
import SpsdkVerif.Proofs.MbiRomDefs

namespace SpsdkVerif.Mbi
open SpsdkVerif SpsdkVerif.Misc SpsdkVerif.Crypto
open SpsdkVerif.Generated.IvtConsts
open SpsdkVerif.Generated.MbiClasses (MixinName Method Attr provider attrs preParsed isData parent countInLegacyCertBlockLen)

variable {co : CryptoOps} {env : Env} {c : Cls} {cfg : Cfg} {signer : Signer}

/-- the digest block in the form of the statements -/
theorem romV21_hash_eq (G : V21Cfg c cfg) {k : ManifestKind} (hk : c.manifestKind = some k) (raw : Bytes) :
    v21Hash co cfg k raw = (match cfg.digest with | some a => co.hash a raw | none => []) := by
  cases k with
  | digest => cases hd : cfg.digest <;> simp [v21Hash, hd]
  | crc =>
    have := G.dig (by rw [hk]; decide)
    simp [v21Hash, this]

theorem romV21_image_eq (G : V21Cfg c cfg) {k : ManifestKind} (hk : c.manifestKind = some k) :
    v21Image co c cfg signer k = v21Raw c cfg k ++ signer (v21Raw c cfg k)
      ++ (match cfg.digest with | some a => co.hash a (v21Raw c cfg k) | none => []) := by
  rw [← romV21_hash_eq G hk]; rfl

/-- the signed range is the prefix of the image that precedes the signature; signature and optional manifest digest
    follow it and nothing else: e = pre ++ signer pre ++ hash(pre) -/
theorem signed_range_is_prefix_signedV21 (h : Hyp co env c cfg signer) (hf : c.family = some .signedV21) :
    ∃ e pre, exportImage co c cfg signer = .ok e
      ∧ e = pre ++ signer pre ++ (match cfg.digest with | some a => co.hash a pre | none => [])
      ∧ (rd32 e ivtCrcCertificateOffset + cfg.cert.length ≤ pre.length)
      ∧ pre.take (rd32 e ivtCrcCertificateOffset) = updateIvt c cfg (appData cfg) (totalLen c cfg).toNat (appLen c cfg) := by
  have F := signedV21_classFacts h.hcls hf
  have G := signedV21_cfgFacts F h.hcfg
  obtain ⟨k, hk⟩ := Option.isSome_iff_exists.mp F.mkSome
  refine ⟨v21Image co c cfg signer k, v21Raw c cfg k, signedV21_export F G k hk, romV21_image_eq G hk, ?_, ?_⟩
  all_goals
    rw [signedV21_image_assoc, (signedV21_words F G _).2.2.1]
  · rw [signedV21_raw_length F G]; omega
  · rw [← signedV21_app_length F G]; simp [v21Raw, v21App]


/-! ### CRC-32/MPEG-2 values fit a word -/

theorem romV21_bitStep_lt (x : Nat) : Crc.bitStep Crc.crc32Mpeg2 x < 2 ^ 32 := by
  unfold Crc.bitStep
  have hw : Crc.crc32Mpeg2.width = 32 := rfl
  have hp : Crc.crc32Mpeg2.poly < 2 ^ 32 := by decide
  simp only [hw]
  split
  · exact Nat.xor_lt_two_pow (Nat.mod_lt _ (by decide)) hp
  · exact Nat.mod_lt _ (by decide)

theorem romV21_register_lt (d : Bytes) : Crc.register Crc.crc32Mpeg2 d < 2 ^ 32 := by
  unfold Crc.register
  have : ∀ (l : Bytes) (x : Nat), x < 2 ^ 32 → List.foldl (Crc.byteStep Crc.crc32Mpeg2) x l < 2 ^ 32 := by
    intro l
    induction l with
    | nil => intro x hx; simpa using hx
    | cons a l ih =>
      intro x _
      simp only [List.foldl_cons]
      apply ih
      unfold Crc.byteStep
      exact romV21_bitStep_lt _
  exact this d _ (by decide)

theorem romV21_crc32m_lt (d : Bytes) : crc32m d < 2 ^ 32 := by
  unfold crc32m Crc.crc
  have h1 : Crc.crc32Mpeg2.refOut = false := rfl
  have h2 : Crc.crc32Mpeg2.xorOut = 0 := rfl
  simp only [h1, h2, Bool.false_eq_true, if_false, Nat.xor_zero]
  exact romV21_register_lt d

/-! ### the words of the manifest -/

theorem romV21_rd32_drop (b : Bytes) (n x : Nat) : rd32 (b.drop n) x = rd32 b (n + x) := by
  unfold rd32; rw [List.drop_drop]

/-- the CRC word the manifest carries (0: digest manifest) -/
def romV21Crc (c : Cls) (cfg : Cfg) (k : ManifestKind) : Nat :=
  match k with
  | .digest => 0
  | .crc => crc32m (dropLast (v21App c cfg ++ cfg.cert ++ manifestBytes .crc cfg 0) 4)

theorem romV21_man_eq (c : Cls) (cfg : Cfg) (k : ManifestKind) :
    v21Man c cfg k = manifestBytes k cfg (romV21Crc c cfg k) := by
  cases k <;> rfl

theorem romV21_manifest_words (k : ManifestKind) (cfg : Cfg) (crc : Nat) (tail : Bytes)
    (hml : manifestLen k cfg < 2 ^ 32) :
    (manifestBytes k cfg crc ++ tail).take 4 = manifestMagic
    ∧ rd32 (manifestBytes k cfg crc ++ tail) 4 = manifestFormatVersion
    ∧ rd32 (manifestBytes k cfg crc ++ tail) 12 = manifestLen k cfg
    ∧ rd32 (manifestBytes k cfg crc ++ tail) 16 = v21ManFlags k cfg := by
  generalize hd : manifestBytes k cfg crc ++ tail = d
  have hform : d = manifestMagic ++ le32 manifestFormatVersion ++ le32 cfg.fwVersion ++ le32 (manifestLen k cfg)
      ++ le32 (v21ManFlags k cfg) ++ (cfg.tz.bytes ++ v21CrcPart k crc ++ tail) := by
    rw [← hd]; cases k <;> simp [manifestBytes, v21ManFlags, v21CrcPart, List.append_assoc]
  refine ⟨?_, ?_, ?_, ?_⟩
  · rw [hform]; simp only [List.append_assoc]; exact List.take_left' (by decide)
  · exact rd32_at d manifestMagic _ _ 4 (by rw [hform]; simp only [List.append_assoc]; try rfl) (by decide) (by decide)
  · exact rd32_at d (manifestMagic ++ le32 manifestFormatVersion ++ le32 cfg.fwVersion) _ _ 12
      (by rw [hform]; simp only [List.append_assoc]; try rfl) (by simp [le32_length, manifestMagic]) hml
  · exact rd32_at d (manifestMagic ++ le32 manifestFormatVersion ++ le32 cfg.fwVersion ++ le32 (manifestLen k cfg)) _ _ 16
      (by rw [hform]) (by simp [le32_length, manifestMagic]) (signedV21_manFlags_lt k cfg)


/-- the part of the CRC manifest the CRC covers -/
def romV21ManHead (cfg : Cfg) : Bytes :=
  manifestMagic ++ le32 manifestFormatVersion ++ le32 cfg.fwVersion ++ le32 (manifestLen .crc cfg) ++ le32 0 ++ cfg.tz.bytes

theorem romV21_manifestBytes_crc (cfg : Cfg) (x : Nat) : manifestBytes .crc cfg x = romV21ManHead cfg ++ le32 x := by
  simp [manifestBytes, romV21ManHead]

theorem romV21_manHead_length (cfg : Cfg) : (romV21ManHead cfg).length + 4 = manifestLen .crc cfg := by
  simp [romV21ManHead, manifestLen, le32_length, manifestMagic, manifestHeaderSize]; omega

/-- the CRC manifest's last word is the CRC of everything before it -/
theorem romV21_crc_word (F : V21Cls c) (G : V21Cfg c cfg) (tail : Bytes) :
    let e := v21App c cfg ++ (cfg.cert ++ (v21Man c cfg .crc ++ tail))
    let n := (appData cfg).length + cfg.cert.length + manifestLen .crc cfg - 4
    rd32 e n = crc32m (e.take n) := by
  intro e n
  have hAl := signedV21_app_length F G
  have hpre : (v21App c cfg ++ cfg.cert ++ romV21ManHead cfg).length = n := by
    have := romV21_manHead_length cfg
    simp only [List.length_append, hAl, n]; omega
  have hcrc : romV21Crc c cfg .crc = crc32m (v21App c cfg ++ cfg.cert ++ romV21ManHead cfg) := by
    simp only [romV21Crc, romV21_manifestBytes_crc, dropLast]
    rw [← List.append_assoc, List.take_left' (by simp [le32_length]; omega)]
  have he : e = (v21App c cfg ++ cfg.cert ++ romV21ManHead cfg) ++ le32 (romV21Crc c cfg .crc) ++ tail := by
    simp only [e, romV21_man_eq, romV21_manifestBytes_crc, List.append_assoc]
  rw [rd32_at e _ _ _ n he hpre (by rw [hcrc]; exact romV21_crc32m_lt _), he, List.append_assoc,
    List.take_left' hpre, hcrc]


/-- what the ROM reads in the exported image (`C` = end of the certificate block, `M` = end of the manifest) -/
structure RomV21Facts (co : CryptoOps) (c : Cls) (cfg : Cfg) (signer : Signer) (k : ManifestKind) (e : Bytes) (C M : Nat) : Prop where
  hC : C = (appData cfg).length + cfg.cert.length
  hM : M = C + manifestLen k cfg
  len : e.length = M + cfg.sigLen + v21DigLen k cfg
  w32 : rd32 e ivtImageLengthOffset = (if c.zeroTotalLength then 0 else e.length)
  w36 : rd32 e ivtImageFlagsOffset = flagsOf c cfg
  w40 : rd32 e ivtCrcCertificateOffset = (appData cfg).length
  cert : slice e (appData cfg).length ((appData cfg).length + cfg.cert.length) = cfg.cert
  magic : slice e C (C + 4) = manifestMagic
  ver : rd32 e (C + 4) = manifestFormatVersion
  mlen : rd32 e (C + 12) = manifestLen k cfg
  mfl : rd32 e (C + 16) = v21ManFlags k cfg
  pre : e.take M = v21Raw c cfg k
  sig : slice e M (M + cfg.sigLen) = signer (v21Raw c cfg k)
  dig : slice e (M + cfg.sigLen) (M + cfg.sigLen + v21DigLen k cfg) = v21Hash co cfg k (v21Raw c cfg k)
  crc : k = .crc → rd32 e (M - 4) = crc32m (e.take (M - 4))

theorem romV21_facts (h : Hyp co env c cfg signer) (F : V21Cls c) (G : V21Cfg c cfg) {k : ManifestKind}
    (hk : c.manifestKind = some k) :
    RomV21Facts co c cfg signer k (v21Image co c cfg signer k) ((appData cfg).length + cfg.cert.length)
      ((appData cfg).length + cfg.cert.length + manifestLen k cfg) := by
  have hlenI := signedV21_image_length (signer := signer) h.hlaws h.hsig F G k hk
  have hrl := signedV21_raw_length F G k
  have hAl := signedV21_app_length F G
  have hH := signedV21_hash_length h.hlaws G k (v21Raw c cfg k)
  have htail : 0 < (signer (v21Raw c cfg k) ++ v21Hash co cfg k (v21Raw c cfg k)).length := by
    have := G.sigpos
    rw [List.length_append, h.hsig]; omega
  have hassoc := signedV21_image_assoc co c cfg signer k
  have hlenI' := hlenI
  rw [hassoc] at hlenI'
  have I := signedV21_img F G k _ htail hlenI'
  rw [← hassoc] at I
  obtain ⟨hp0, hp1⟩ := signedV21_pack G
  have htl := signedV21_totalLen (cfg := cfg) F k hk
  have hml : manifestLen k cfg < 2 ^ 32 := by simp only [encIvtCopySize, encIvSize] at hp1; omega
  obtain ⟨m0, m4, m12, m16⟩ := romV21_manifest_words k cfg (romV21Crc c cfg k)
    (signer (v21Raw c cfg k) ++ v21Hash co cfg k (v21Raw c cfg k)) hml
  rw [← romV21_man_eq, ← I.dropC] at m0 m4 m12 m16
  rw [romV21_rd32_drop] at m4 m12 m16
  obtain ⟨w1, w2, w3, -⟩ := signedV21_words F G (cfg.cert ++ (v21Man c cfg k ++ (signer (v21Raw c cfg k)
      ++ v21Hash co cfg k (v21Raw c cfg k))))
  rw [← hassoc] at w1 w2 w3
  have hlen : (v21Image co c cfg signer k).length
      = (appData cfg).length + cfg.cert.length + manifestLen k cfg + cfg.sigLen + v21DigLen k cfg := by
    simp only [v21Image, List.length_append, hrl, h.hsig, hH]
  refine ⟨rfl, rfl, hlen, ?_, w2, w3, ?_, ?_, m4, m12, m16, ?_, ?_, ?_, ?_⟩
  · rw [w1]
    have : (totalLen c cfg).toNat = (v21Image co c cfg signer k).length := by
      clear hlenI' I m0 m4 m12 m16 w1 w2 w3 hlen
      generalize (v21Image co c cfg signer k).length = n at hlenI ⊢
      omega
    rw [this]
  · rw [hassoc, ← hAl, ← List.append_assoc]
    have := slice_append_mid (v21App c cfg) cfg.cert (v21Man c cfg k ++ (signer (v21Raw c cfg k)
      ++ v21Hash co cfg k (v21Raw c cfg k)))
    exact this
  · rw [← m0]; unfold slice; rw [List.drop_take, Nat.add_sub_cancel_left]
  · rw [← hrl]; simp only [v21Image, List.append_assoc]; exact List.take_left' rfl
  · rw [← hrl, ← h.hsig (v21Raw c cfg k)]; exact slice_append_mid _ _ _
  · rw [← hrl, ← h.hsig (v21Raw c cfg k), ← hH, ← List.length_append]
    have := slice_append_mid (v21Raw c cfg k ++ signer (v21Raw c cfg k)) (v21Hash co cfg k (v21Raw c cfg k)) []
    simpa [v21Image] using this
  · intro hkc
    subst hkc
    rw [hassoc]
    exact romV21_crc_word F G _

/-! ### the ROM side, step by step -/

theorem romV21_need_ok {b : Bool} (why : String) (h : b = true) : Spec.MbiRom.need b why = .ok () := by
  simp [Spec.MbiRom.need, h]

/-- the four ways the ROM's digest step succeeds, with the digest length it returns -/
inductive RomV21Dig (co : CryptoOps) (renv : Spec.MbiRom.RomEnv) (e : Bytes) (mFlags M S : Nat) : Nat → Prop
  | none (hc : ¬ ((renv.manifestKind == Spec.MbiRom.ManifestKind.digest) = true
                  ∧ (mFlags &&& Spec.MbiRom.manifestDigestPresent != 0) = true))
      (hf : decide ((renv.manifestKind == Spec.MbiRom.ManifestKind.crc) = true ∨ (mFlags == 0) = true) = true) :
      RomV21Dig co renv e mFlags M S 0
  | d1 (hc : (renv.manifestKind == Spec.MbiRom.ManifestKind.digest) = true
                  ∧ (mFlags &&& Spec.MbiRom.manifestDigestPresent != 0) = true)
      (hm : mFlags &&& Spec.MbiRom.manifestHashMask = 1)
      (hh : (Spec.MbiRom.sub e (M + S) (M + S + 32) == co.hash HashAlg.sha256 (List.take M e)) = true) :
      RomV21Dig co renv e mFlags M S 32
  | d2 (hc : (renv.manifestKind == Spec.MbiRom.ManifestKind.digest) = true
                  ∧ (mFlags &&& Spec.MbiRom.manifestDigestPresent != 0) = true)
      (hm : mFlags &&& Spec.MbiRom.manifestHashMask = 2)
      (hh : (Spec.MbiRom.sub e (M + S) (M + S + 48) == co.hash HashAlg.sha384 (List.take M e)) = true) :
      RomV21Dig co renv e mFlags M S 48
  | d3 (hc : (renv.manifestKind == Spec.MbiRom.ManifestKind.digest) = true
                  ∧ (mFlags &&& Spec.MbiRom.manifestDigestPresent != 0) = true)
      (hm : mFlags &&& Spec.MbiRom.manifestHashMask = 3)
      (hh : (Spec.MbiRom.sub e (M + S) (M + S + 64) == co.hash HashAlg.sha512 (List.take M e)) = true) :
      RomV21Dig co renv e mFlags M S 64

/-- `romSignedV21` step by step, for an image whose reads are known -/
theorem romV21_signed_abs (co : CryptoOps) (renv : Spec.MbiRom.RomEnv) (e : Bytes) (A C : Nat) (signPub : Bytes)
    (obs : List Spec.MbiRom.Obligation) (mLen mFlags dl : Nat)
    (e1 : Spec.MbiRom.rd32 e Spec.MbiRom.offCrcOrCert = A)
    (b1 : decide (A ≥ Spec.MbiRom.ivtSize ∧ (A % 4 == 0) = true) = true)
    (hcert : Spec.MbiRom.romCertV21 co renv e A = .ok (signPub, C, obs))
    (b2 : decide (C + Spec.MbiRom.manifestHeaderSize ≤ List.length e) = true)
    (b3 : (Spec.MbiRom.sub e C (C + 4) == Spec.MbiRom.manifestMagic) = true)
    (b4 : (Spec.MbiRom.rd32 e (C + 4) == Spec.MbiRom.manifestVersion) = true)
    (e2 : Spec.MbiRom.rd32 e (C + 12) = mLen)
    (e3 : Spec.MbiRom.rd32 e (C + 16) = mFlags)
    (b5 : decide ((mLen ≥ Spec.MbiRom.manifestHeaderSize +
                    if (renv.manifestKind == Spec.MbiRom.ManifestKind.crc) = true then 4 else 0) ∧
                  C + mLen ≤ List.length e) = true)
    (b6 : decide (((mLen - Spec.MbiRom.manifestHeaderSize -
                          if (renv.manifestKind == Spec.MbiRom.ManifestKind.crc) = true then 4 else 0) == 0) = true ∨
                    ((mLen - Spec.MbiRom.manifestHeaderSize -
                          if (renv.manifestKind == Spec.MbiRom.ManifestKind.crc) = true then 4 else 0) ==
                        renv.tzSize) = true) = true)
    (b7 : (((mLen - Spec.MbiRom.manifestHeaderSize -
                        if (renv.manifestKind == Spec.MbiRom.ManifestKind.crc) = true then 4 else 0) != 0) ==
                    (Spec.MbiRom.rd32 e Spec.MbiRom.offFlags >>> Spec.MbiRom.shiftTzType &&& Spec.MbiRom.maskTzType ==
                      Spec.MbiRom.tzCustom)) = true)
    (b8 : decide ((renv.manifestKind != Spec.MbiRom.ManifestKind.crc) = true ∨
                        (Spec.MbiRom.rd32 e (C + mLen - 4) ==
                            Crc.crc Spec.MbiRom.crcParams (List.take (C + mLen - 4) e)) = true) = true)
    (b9 : decide (C + mLen + List.length signPub ≤ List.length e) = true)
    (hd : RomV21Dig co renv e mFlags (C + mLen) signPub.length dl)
    (b10 : (C + mLen + List.length signPub + dl == List.length e) = true) :
    Spec.MbiRom.romSignedV21 co renv e = .ok
      { obligations := obs ++ [Spec.MbiRom.Obligation.ecdsa signPub (List.take (C + mLen) e)
          (Spec.MbiRom.sub e (C + mLen) (C + mLen + List.length signPub))],
        authenticated := [(0, List.length e)] } := by
  unfold Spec.MbiRom.romSignedV21
  simp only [e1, romV21_need_ok _ b1, hcert, e2, e3, bind, Except.bind, romV21_need_ok _ b2, romV21_need_ok _ b3,
    romV21_need_ok _ b4, romV21_need_ok _ b5, romV21_need_ok _ b6, romV21_need_ok _ b7, romV21_need_ok _ b8,
    romV21_need_ok _ b9]
  cases hd with
  | none hc hf => simp only [if_neg hc, romV21_need_ok _ hf, pure, Except.pure, romV21_need_ok _ b10]
  | d1 hc hm hh => simp only [if_pos hc, hm, romV21_need_ok _ hh, pure, Except.pure, romV21_need_ok _ b10]
  | d2 hc hm hh => simp only [if_pos hc, hm, romV21_need_ok _ hh, pure, Except.pure, romV21_need_ok _ b10]
  | d3 hc hm hh => simp only [if_pos hc, hm, romV21_need_ok _ hh, pure, Except.pure, romV21_need_ok _ b10]


/-- `romCheck` of a signed image with a v2.1 block is `romSignedV21` -/
theorem romV21_check_abs (co : CryptoOps) (renv : Spec.MbiRom.RomEnv) (e : Bytes) (fl ty : Nat)
    (e1 : Spec.MbiRom.rd32 e Spec.MbiRom.offFlags = fl)
    (c1 : decide (List.length e ≥ Spec.MbiRom.ivtSize) = true)
    (c2 : (if renv.zeroTotalLength = true then Spec.MbiRom.rd32 e Spec.MbiRom.offTotalLength == 0
          else Spec.MbiRom.rd32 e Spec.MbiRom.offTotalLength == List.length e) = true)
    (c3 : decide ((fl >>> Spec.MbiRom.shiftTzType &&& Spec.MbiRom.maskTzType == Spec.MbiRom.tzEnabled) = true ∨
                (fl >>> Spec.MbiRom.shiftTzType &&& Spec.MbiRom.maskTzType == Spec.MbiRom.tzCustom) = true ∨
                  (fl >>> Spec.MbiRom.shiftTzType &&& Spec.MbiRom.maskTzType == Spec.MbiRom.tzDisabled) = true) = true)
    (ht : fl &&& Spec.MbiRom.maskImageType = ty) (hty : ty = 1 ∨ ty = 4 ∨ ty = 8)
    (hk : renv.certKind = Spec.MbiRom.CertKind.v21) :
    Spec.MbiRom.romCheck co renv e = Spec.MbiRom.romSignedV21 co renv e := by
  unfold Spec.MbiRom.romCheck
  simp only [e1, bind, Except.bind, romV21_need_ok _ c1, romV21_need_ok _ c2, romV21_need_ok _ c3, ht, hk]
  rcases hty with rfl | rfl | rfl <;>
    simp [Spec.MbiRom.typePlain, Spec.MbiRom.typeCrcRam, Spec.MbiRom.typeCrcXip, Spec.MbiRom.typeSignedRam,
      Spec.MbiRom.typeSignedXip, Spec.MbiRom.typeSignedXipNxp]


/-! ### the exported image passes -/

theorem romV21_imageType (F : V21Cls c) (G : V21Cfg c cfg) : getImageType (flagsOf c cfg) = c.imageType := by
  have htag : cfg.tz.tag ≤ tzTypeMask := by cases cfg.tz <;> simp [TzCfg.tag, tzTypeMask, tzEnabled, tzCustom, tzDisabled]
  have hiv : cfg.imageVersion ≤ imgVerMask := by have := G.iv; simp only [imgVerMask]; omega
  have hfo : flagsOf c cfg = createFlags c.imageType c.hasTrustZone cfg.tz.tag (c.hasAttr .image_subtype) cfg.subType
      (c.hasAttr .user_hw_key_enabled) cfg.hwKey (c.hasAttr .key_store) false 0
      (c.hasAttr .app_table) cfg.reloc.isSome (c.hasAttr .image_version) cfg.imageVersion
      (c.hasAttr .image_version_to_image_type) true := by
    unfold flagsOf; rw [G.ks]; rfl
  rw [hfo]
  exact (flags_fields c.imageType cfg.tz.tag cfg.subType cfg.imageVersion 0
    c.hasTrustZone (c.hasAttr .image_subtype) (c.hasAttr .user_hw_key_enabled) cfg.hwKey (c.hasAttr .key_store)
    false (c.hasAttr .app_table) cfg.reloc.isSome (c.hasAttr .image_version)
    (c.hasAttr .image_version_to_image_type) true F.itype htag G.st hiv).1

/-- the ROM's name of the manifest flavour -/
def romV21SpecKind (k : ManifestKind) : Spec.MbiRom.ManifestKind := match k with | .crc => .crc | .digest => .digest

theorem romV21_renv (F : V21Cls c) {k : ManifestKind} (hk : c.manifestKind = some k) (rkth : Bytes) (uk : Option Bytes) :
    (romEnvOf c rkth uk).certKind = .v21
    ∧ (romEnvOf c rkth uk).manifestKind = romV21SpecKind k := by
  simp only [romEnvOf, F.hasV1, F.hasV21, hk, Bool.false_eq_true, if_false, if_true, true_and]
  cases k <;> simp [romV21SpecKind]

/-- the TrustZone data in the manifest: nothing, or exactly the preset size with the CUSTOM type -/
theorem romV21_tz (F : V21Cls c) (G : V21Cfg c cfg) :
    (cfg.tz.bytes.length = 0 ∧ cfg.tz.tag = tzEnabled) ∨ (cfg.tz.bytes.length = c.tzSize ∧ c.tzSize > 0 ∧ cfg.tz.tag = tzCustom) := by
  have hnd := signedV21_tz_ne_disabled F G
  cases ht : cfg.tz with
  | disabled => exact absurd ht hnd
  | enabled => left; simp [TzCfg.bytes, TzCfg.tag]
  | custom d =>
    obtain ⟨h1, h2⟩ := G.tz d ht
    right; simp [TzCfg.bytes, TzCfg.tag, h1, h2]


theorem romV21_dig (G : V21Cfg c cfg) {k : ManifestKind} {renv : Spec.MbiRom.RomEnv} {e : Bytes} {C M : Nat}
    (R : RomV21Facts co c cfg signer k e C M) (S : Nat) (hS : S = cfg.sigLen)
    (hmk : renv.manifestKind = romV21SpecKind k) :
    RomV21Dig co renv e (v21ManFlags k cfg) M S (v21DigLen k cfg) := by
  subst hS
  have hdig := R.dig
  have hpre := R.pre
  have hsha := G.sha1
  cases k with
  | crc =>
    simp only [romV21SpecKind] at hmk
    exact RomV21Dig.none (by simp [hmk]) (by simp [hmk])
  | digest =>
    simp only [romV21SpecKind] at hmk
    simp only [v21ManFlags, v21DigLen] at hdig ⊢
    cases hd : cfg.digest with
    | none =>
      simp only [digestSize]
      exact RomV21Dig.none (by simp [manifestFlags]) (by simp [manifestFlags])
    | some a =>
      rw [hd] at hdig
      cases a with
      | sha1 => exact absurd hd hsha
      | sha256 =>
        refine RomV21Dig.d1 ⟨by simp [hmk], by decide⟩ (by decide) ?_
        rw [hpre]; simp only [digestSize, v21Hash, hd] at hdig
        simpa [Spec.MbiRom.sub, slice] using hdig
      | sha384 =>
        refine RomV21Dig.d2 ⟨by simp [hmk], by decide⟩ (by decide) ?_
        rw [hpre]; simp only [digestSize, v21Hash, hd] at hdig
        simpa [Spec.MbiRom.sub, slice] using hdig
      | sha512 =>
        refine RomV21Dig.d3 ⟨by simp [hmk], by decide⟩ (by decide) ?_
        rw [hpre]; simp only [digestSize, v21Hash, hd] at hdig
        simpa [Spec.MbiRom.sub, slice] using hdig


def romV21CrcLen (k : ManifestKind) : Nat := match k with | .crc => 4 | .digest => 0
def romV21IsCrc (k : ManifestKind) : Bool := match k with | .crc => true | .digest => false

theorem romV21_manifestLen (k : ManifestKind) (cfg : Cfg) :
    manifestLen k cfg = manifestHeaderSize + cfg.tz.bytes.length + romV21CrcLen k := rfl

/-- the ROM accepts the exported image; its obligations are the ISK obligation of the certificate block and the ECDSA
    verification of `signer pre` over `pre` under the signing key of the block -/
theorem rom_accepts_signedV21 (h : Hyp co env c cfg signer) (hf : c.family = some .signedV21) (ht : signedTypeOk c = true)
    (rkth : Bytes) (uk : Option Bytes) (signPub : Bytes) (obs : Bytes → Nat → List Spec.MbiRom.Obligation)
    (hrom : RomCertV21OK co (romEnvOf c rkth uk) cfg.cert cfg.sigLen signPub obs) :
    ∃ e pre a, exportImage co c cfg signer = .ok e
      ∧ e = pre ++ signer pre ++ (match cfg.digest with | some a => co.hash a pre | none => [])
      ∧ Spec.MbiRom.romCheck co (romEnvOf c rkth uk) e = .ok a
      ∧ a.obligations = obs e (appLen c cfg) ++ [.ecdsa signPub pre (signer pre)] := by
  have F := signedV21_classFacts h.hcls hf
  have G := signedV21_cfgFacts F h.hcfg
  obtain ⟨k, hk⟩ := Option.isSome_iff_exists.mp F.mkSome
  have R := romV21_facts h F G hk
  obtain ⟨hck, hmk⟩ := romV21_renv F hk rkth uk
  obtain ⟨hS, hcertOK⟩ := hrom
  have hA := signedV21_app_len F G
  have hA4 : (appData cfg).length % 4 = 0 := align4_length_mod _
  have hL := romV21_manifestLen k cfg
  have hcl : romV21CrcLen k ≤ 4 := by cases k <;> simp [romV21CrcLen]
  have hsp := G.sigpos
  generalize he : v21Image co c cfg signer k = e at R
  generalize hrenv : romEnvOf c rkth uk = renv at hck hmk hcertOK
  have htzs : renv.tzSize = c.tzSize := by rw [← hrenv]; rfl
  have hzt : renv.zeroTotalLength = c.zeroTotalLength := by rw [← hrenv]; rfl
  have hlen := R.len
  -- the certificate walk
  have hcert := hcertOK e (appData cfg).length R.cert (by
    rw [hlen, R.hM, R.hC, hL]; simp only [manifestHeaderSize]; omega)
  -- the flag word
  obtain ⟨-, -, -, g4⟩ := signedV21_flag_getters F G
  have hty : c.imageType = 1 ∨ c.imageType = 4 ∨ c.imageType = 8 := by
    unfold signedTypeOk at ht
    simp only [F.sign, hf] at ht
    simpa [or_assoc] using ht
  have htzc := romV21_tz F G
  have hkc : (renv.manifestKind == Spec.MbiRom.ManifestKind.crc) = romV21IsCrc k := by
    rw [hmk]; cases k <;> rfl
  have hextra : manifestLen k cfg - Spec.MbiRom.manifestHeaderSize
      - (if (renv.manifestKind == Spec.MbiRom.ManifestKind.crc) = true then 4 else 0) = cfg.tz.bytes.length := by
    rw [hkc, hL]; cases k <;> simp [manifestHeaderSize, Spec.MbiRom.manifestHeaderSize, romV21CrcLen, romV21IsCrc] <;> omega
  have htzt : Spec.MbiRom.rd32 e Spec.MbiRom.offFlags >>> Spec.MbiRom.shiftTzType &&& Spec.MbiRom.maskTzType
      = cfg.tz.tag := by
    rw [← g4, ← R.w36]; exact rom_tz _
  have hsigned := romV21_signed_abs co renv e (appData cfg).length ((appData cfg).length + cfg.cert.length) signPub
    (obs e (appData cfg).length) (manifestLen k cfg) (v21ManFlags k cfg) (v21DigLen k cfg)
    R.w40
    (by apply decide_eq_true; simp only [Spec.MbiRom.ivtSize, minIvtSize] at hA ⊢; exact ⟨hA, by simp [hA4]⟩)
    hcert
    (by apply decide_eq_true; rw [hlen, R.hM, R.hC, hL]
        simp only [manifestHeaderSize, Spec.MbiRom.manifestHeaderSize]; omega)
    (by have := R.magic; rw [R.hC] at this; simp only [Spec.MbiRom.sub]; unfold slice at this; rw [this]; decide)
    (by have := R.ver; rw [R.hC] at this; show (rd32 e _ == _) = true; rw [this]; decide)
    (by have := R.mlen; rw [R.hC] at this; exact this)
    (by have := R.mfl; rw [R.hC] at this; exact this)
    (by apply decide_eq_true; rw [hkc, hlen, R.hM, R.hC, hL]
        cases k <;> simp [manifestHeaderSize, Spec.MbiRom.manifestHeaderSize, romV21CrcLen, romV21IsCrc] <;> omega)
    (by rw [hextra, htzs]; rcases htzc with ⟨h1, -⟩ | ⟨h1, -, -⟩ <;> simp [h1])
    (by rw [hextra, htzt]
        rcases htzc with ⟨h1, h2⟩ | ⟨h1, h2, h3⟩
        · simp [h1, h2, tzEnabled, Spec.MbiRom.tzCustom]
        · have : c.tzSize ≠ 0 := by omega
          simp [h1, h3, this, tzCustom, Spec.MbiRom.tzCustom])
    (by cases k with
        | digest => simp [hmk, romV21SpecKind]
        | crc =>
          have := R.crc rfl
          rw [R.hM, R.hC] at this
          have hc : Spec.MbiRom.crcParams = Crc.crc32Mpeg2 := rfl
          apply decide_eq_true
          right
          show (rd32 e _ == _) = true
          rw [this, hc]; simp [crc32m])
    (by apply decide_eq_true; rw [hlen, R.hM, R.hC, hS]; omega)
    (by have := romV21_dig (renv := renv) G R signPub.length hS hmk; rw [R.hM, R.hC] at this; exact this)
    (by rw [hlen, R.hM, R.hC, hS]; simp)
  have hcheck := romV21_check_abs co renv e (flagsOf c cfg) c.imageType R.w36
    (by apply decide_eq_true; rw [hlen, R.hM, R.hC]; simp only [Spec.MbiRom.ivtSize, minIvtSize] at hA ⊢; omega)
    (by have := R.w32
        rw [hzt]
        show (if c.zeroTotalLength = true then rd32 e ivtImageLengthOffset == 0
          else rd32 e ivtImageLengthOffset == e.length) = true
        rw [this]; cases c.zeroTotalLength <;> simp)
    (by have : flagsOf c cfg >>> Spec.MbiRom.shiftTzType &&& Spec.MbiRom.maskTzType = cfg.tz.tag := by
          rw [← g4]; exact rom_tz _
        rw [this]
        cases cfg.tz <;> simp [TzCfg.tag, tzEnabled, tzCustom, tzDisabled, Spec.MbiRom.tzEnabled, Spec.MbiRom.tzCustom,
          Spec.MbiRom.tzDisabled])
    (by rw [← romV21_imageType F G]; exact rom_type _) hty hck
  refine ⟨e, v21Raw c cfg k, _, ?_, ?_, hcheck.trans hsigned, ?_⟩
  · rw [← he]; exact signedV21_export F G k hk
  · rw [← he]; exact romV21_image_eq G hk
  · have hp := R.pre
    have hs := R.sig
    rw [R.hM, R.hC] at hp hs
    simp only [signedV21_appLen F, hp, Spec.MbiRom.sub, hS]
    unfold slice at hs
    rw [hs]

end SpsdkVerif.Mbi
