/-
C14 proofs, part 5: many init-offset assignments on one object (`runOps`): the `excluded` flags are a function of the current
init offset only (history independence).  Rests on the generated facts that the setter calls `_update_segments()` on both of
its paths (`BimgTables.setterUpdatesOnZero`, `setterUpdatesOnNonZero`, read from the setter's AST).
-/
import SpsdkVerif.Model.Bimg
import SpsdkVerif.Model.BimgSpec

namespace SpsdkVerif.Bimg
open SpsdkVerif SpsdkVerif.Misc SpsdkVerif.Generated

/-- the object invariant: the flags are what `_update_segments()` computes from the stored init offset -/
def ObjInv (segs : List Seg) (s : ObjState) : Prop := s.excl = updateSegments segs s.init

theorem bimgS_fresh (segs : List Seg) : ObjInv segs (freshObj segs) := by
  unfold ObjInv freshObj updateSegments
  apply List.map_congr_left
  intro s _
  unfold excluded
  cases s.pos <;> simp

theorem bimgS_applySet (hz : BimgTables.setterUpdatesOnZero = true) (hn : BimgTables.setterUpdatesOnNonZero = true)
    (segs : List Seg) (s : ObjState) (req : Int) (h : ObjInv segs s) : ObjInv segs (applySet segs s req) := by
  unfold applySet
  cases setInit segs req with
  | error e => exact h
  | ok m =>
    simp only [hz, hn, ite_self, if_true]
    rfl

theorem bimgS_step (hz : BimgTables.setterUpdatesOnZero = true) (hn : BimgTables.setterUpdatesOnNonZero = true)
    (segs : List Seg) (s : ObjState) (op : InitOp) (h : ObjInv segs s) : ObjInv segs (stepOp segs s op) := by
  unfold stepOp
  split
  · exact bimgS_applySet hz hn segs s _ h
  · split
    · exact h
    · split
      · exact h
      · exact bimgS_applySet hz hn segs s _ h

theorem bimgS_run (hz : BimgTables.setterUpdatesOnZero = true) (hn : BimgTables.setterUpdatesOnNonZero = true)
    (segs : List Seg) (ops : List InitOp) (s : ObjState) (h : ObjInv segs s) : ObjInv segs (runOps segs s ops) := by
  induction ops generalizing s with
  | nil => exact h
  | cons op rest ih => exact ih (stepOp segs s op) (bimgS_step hz hn segs s op h)

end SpsdkVerif.Bimg
