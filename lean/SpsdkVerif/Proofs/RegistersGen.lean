/- Lemmas that tie Generated/RegArith.lean (integer arithmetic translated from spsdk/utils/registers.py on every run) to the hand
   model of Model/Registers.lean.  The proofs normalise BOTH sides (Python-int operations on casts of naturals → natural-number
   operations → bits), so that behaviour-preserving rewrites of the source (other temporaries, helper methods, `x ^ (x & m)` for
   `x & ~m`, 0-based for 1-based positions, if/else for early return) leave them valid. -/
import SpsdkVerif.Model.Registers
import SpsdkVerif.Proofs.Registers
import SpsdkVerif.Proofs.RegistersCfg
import SpsdkVerif.Base.PyInt
import SpsdkVerif.Base.PyIntOps
import SpsdkVerif.Generated.RegArith

set_option linter.unusedSimpArgs false

namespace SpsdkVerif.Regs
open SpsdkVerif SpsdkVerif.Misc SpsdkVerif.Generated

/-! ### Python-int operations on casts of naturals -/

theorem shlI_cast (a : Nat) (p : Int) : shlI (a : Int) p = ((a <<< p.toNat : Nat) : Int) := by
  simp [shlI, Nat.shiftLeft_eq]

theorem shlI_one (p : Int) : shlI 1 p = ((2 ^ p.toNat : Nat) : Int) := by
  simp [shlI]

theorem mask_cast (p : Int) : shlI 1 p - 1 = ((mask p.toNat : Nat) : Int) := by
  have : 1 ≤ 2 ^ p.toNat := Nat.one_le_two_pow
  simp only [shlI_one, mask]
  omega

theorem pow_sub_one_cast (n : Nat) : ((2 ^ n : Nat) : Int) - 1 = ((mask n : Nat) : Int) := by
  have : 1 ≤ 2 ^ n := Nat.one_le_two_pow
  simp only [mask]
  omega

theorem shrI_cast (a : Nat) (p : Int) : shrI (a : Int) p = ((a >>> p.toNat : Nat) : Int) := by
  simp [shrI]

theorem intAnd_cast (a b : Nat) : intAnd (a : Int) (b : Int) = ((a &&& b : Nat) : Int) := rfl
theorem intOr_cast (a b : Nat) : intOr (a : Int) (b : Int) = ((a ||| b : Nat) : Int) := rfl
theorem intXor_cast (a b : Nat) : intXor (a : Int) (b : Int) = ((a ^^^ b : Nat) : Int) := rfl
theorem intAnd_not_cast (a m : Nat) : intAnd (a : Int) (Int.not (m : Int)) = ((natAndNot a m : Nat) : Int) := rfl
theorem intAnd_not_cast' (a m : Nat) : intAnd (Int.not (m : Int)) (a : Int) = ((natAndNot a m : Nat) : Int) := rfl
theorem intOr_zero_cast (b : Nat) : intOr 0 (b : Int) = (b : Int) := by
  show intOr ((0 : Nat) : Int) (b : Int) = _
  rw [intOr_cast]; simp
theorem intOr_cast_zero (b : Nat) : intOr (b : Int) 0 = (b : Int) := by
  show intOr (b : Int) ((0 : Nat) : Int) = _
  rw [intOr_cast]; simp

theorem testBit_natAndNot (a m k : Nat) : (natAndNot a m).testBit k = (a.testBit k && !m.testBit k) := by
  simp only [natAndNot, Nat.testBit_xor, Nat.testBit_and]
  cases a.testBit k <;> cases m.testBit k <;> rfl

theorem fdiv_cast (a b : Nat) : Int.fdiv (a : Int) (b : Int) = ((a / b : Nat) : Int) := by
  rw [Int.fdiv_eq_ediv_of_nonneg _ (Int.natCast_nonneg b)]
  exact (Int.natCast_ediv a b).symm

theorem fdiv_cast_lit (a : Nat) : Int.fdiv (a : Int) 8 = ((a / 8 : Nat) : Int) := fdiv_cast a 8

/-! ### config processors -/

theorem srPre_eq (s v : Nat) : RegArith.srPre s v = ((v >>> s : Nat) : Int) := by
  simp only [RegArith.srPre, shrI_cast, Int.toNat_natCast]

theorem srPost_eq (s v : Nat) : RegArith.srPost s v = ((v <<< s : Nat) : Int) := by
  simp only [RegArith.srPost, shlI_cast, Int.toNat_natCast]

theorem srWidth_eq (s w : Nat) : RegArith.srWidth s w = ((w + s : Nat) : Int) := by
  simp only [RegArith.srWidth]; push_cast; omega

theorem nop_eq (v : Int) : RegArith.nopPre v = v ∧ RegArith.nopPost v = v ∧ RegArith.nopWidth v = v := by
  simp only [RegArith.nopPre, RegArith.nopPost, RegArith.nopWidth, and_self]

/-! ### bit-fields -/

/-- Python-int operations on casts → natural-number operations -/
macro "to_nat" : tactic => `(tactic| simp only [mask_cast, pow_sub_one_cast, shlI_one, shlI_cast, shrI_cast, intAnd_cast, intOr_cast, intXor_cast,
  intAnd_not_cast, intAnd_not_cast', intOr_zero_cast, intOr_cast_zero, fdiv_cast, fdiv_cast_lit, srPre_eq, srPost_eq, srWidth_eq,
  Int.toNat_natCast, Int.toNat_sub, Int.add_mul, Int.one_mul, Int.add_sub_cancel, Int.add_zero, Int.zero_add,
  ← Int.natCast_mul, ← Int.natCast_add, Int.natCast_inj, Int.ofNat_le, Int.ofNat_lt, Except.ok.injEq, if_true, if_false, Bool.false_eq_true])

/-- natural-number bit operations → bits -/
macro "to_bits" : tactic => `(tactic| simp only [Nat.testBit_or, Nat.testBit_and, Nat.testBit_xor, Nat.testBit_shiftLeft,
  Nat.testBit_shiftRight, testBit_natAndNot, testBit_mask, testBit_insertBits, testBit_sub_and, Nat.testBit_two_pow_sub_one,
  Nat.zero_testBit, Bool.or_false, Bool.false_or, Bool.and_true, Bool.true_and])

theorem bfGet_eq (rv off w s : Nat) :
    RegArith.bfGet rv off w (RegArith.srPost s) = ((((rv >>> off) &&& mask w) <<< s : Nat) : Int) := by
  unfold RegArith.bfGet
  to_nat <;>
  · apply Nat.eq_of_testBit_eq; intro k
    to_bits
    by_cases h1 : s ≤ k <;> by_cases h2 : k - s < w <;> simp [h1, h2, Nat.add_comm]

theorem bfGet_nop_eq (rv off w : Nat) :
    RegArith.bfGet rv off w RegArith.nopPost = (((rv >>> off) &&& mask w : Nat) : Int) := by
  unfold RegArith.bfGet RegArith.nopPost
  to_nat <;>
  · apply Nat.eq_of_testBit_eq; intro k
    to_bits
    by_cases h2 : k < w <;> simp [h2, Nat.add_comm]

theorem bfSet_value (rv off w v1 : Nat) (x : Nat)
    (hx : ∀ k, x.testBit k = if off ≤ k ∧ k < off + w then v1.testBit (k - off) else rv.testBit k) :
    x = insertBits rv off w v1 := by
  apply Nat.eq_of_testBit_eq; intro k
  rw [hx k, testBit_insertBits]

/-- decide a range guard whatever its shape (`0 <= v < m`, `v < 0 or v >= m`, early raise or if/else) -/
macro "guard_simp" : tactic => `(tactic| simp only [*, Int.natCast_nonneg, ge_iff_le, gt_iff_lt, Nat.not_le, Nat.not_lt, Int.not_le, Int.not_lt, decide_true, decide_false,
  Bool.and_true, Bool.true_and, Bool.and_false, Bool.false_and, Bool.or_true, Bool.true_or, Bool.or_false, Bool.false_or,
  Bool.not_true, Bool.not_false, Bool.and_self, Bool.or_self, Bool.false_eq_true, if_true, if_false, ite_true, ite_false,
  decide_not, decide_eq_true_eq, decide_eq_false_iff_not])

/-- one case of `bfSet_eq`: decide the guard from `v1 < 2^w`, then compare the written value bit by bit -/
macro "bfset_case" v1:term "," rv:term "," off:term "," w:term : tactic => `(tactic| (
  have hneg : ¬ (($v1 : Nat) : Int) < 0 := Int.not_lt.2 (Int.natCast_nonneg _)
  by_cases hfit : $v1 < 2 ^ $w
  · have h' : ¬ 2 ^ $w ≤ $v1 := by omega
    guard_simp
    to_nat <;>
    · apply Nat.eq_of_testBit_eq; intro k
      to_bits
      by_cases h1 : $off ≤ k
      · by_cases h2 : k < $off + $w
        · have h3 : k - $off < $w := by omega
          simp [h1, h2, h3]
        · have h3 : ¬ k - $off < $w := by omega
          simp [h1, h2, h3]
      · simp [h1]
  · have h' : 2 ^ $w ≤ $v1 := by omega
    guard_simp))

theorem bfSet_eq (v rv off w s : Nat) (noPre : Bool) :
    RegArith.bfSet v noPre rv off w (RegArith.srPre s) =
      (if (if noPre then v else v >>> s) ≥ 2 ^ w then .error .spsdk
       else .ok ((insertBits rv off w (if noPre then v else v >>> s) : Nat) : Int)) := by
  unfold RegArith.bfSet
  cases noPre
  · to_nat
    bfset_case (v >>> s), rv, off, w
  · to_nat
    bfset_case v, rv, off, w

theorem bfConfigWidth_eq (w s : Nat) : RegArith.bfConfigWidth w (RegArith.srWidth s) = ((w + s : Nat) : Int) := by
  unfold RegArith.bfConfigWidth
  to_nat

/-! ### registers -/

theorem regSetGuard_eq (v w : Nat) :
    RegArith.regSetGuard v w = (if v < 2 ^ w then .ok true else .error .spsdk) := by
  unfold RegArith.regSetGuard
  to_nat
  have hneg : ¬ ((v : Nat) : Int) < 0 := Int.not_lt.2 (Int.natCast_nonneg _)
  by_cases hfit : v < 2 ^ w
  · have h' : ¬ 2 ^ w ≤ v := by omega
    guard_simp
  · have h' : 2 ^ w ≤ v := by omega
    guard_simp

theorem regSetGuard_neg (n w : Nat) : RegArith.regSetGuard (Int.negSucc n) w = .error .spsdk := by
  unfold RegArith.regSetGuard
  have h1 : Int.negSucc n < 0 := Int.negSucc_lt_zero n
  have h2 : ¬ (0 : Int) ≤ Int.negSucc n := by omega
  guard_simp

theorem swapCond_eq (raw rev : Bool) :
    RegArith.regSetSwapCond raw rev = (!raw && rev) ∧ RegArith.regGetSwapCond raw rev = (!raw && rev) := by
  unfold RegArith.regSetSwapCond RegArith.regGetSwapCond
  cases raw <;> cases rev <;> decide

theorem swapBytes_eq (aw w : Nat) :
    RegArith.regSetSwapBytes aw w = ((aw / 8 : Nat) : Int) ∧ RegArith.regGetSwapBytes aw w = ((aw / 8 : Nat) : Int) := by
  unfold RegArith.regSetSwapBytes RegArith.regGetSwapBytes
  constructor <;> to_nat

theorem swaps_eq : RegArith.regSetSwaps = true ∧ RegArith.regGetSwapsBig = true ∧ RegArith.regGetSwapsLittle = true := by
  decide

theorem subCount_eq (aw sw : Nat) : RegArith.subCount aw sw = ((aw / sw : Nat) : Int) := by
  unfold RegArith.subCount
  to_nat

theorem subValue_eq (r : Reg) (v aw k : Nat) :
    RegArith.subValue v aw r.subW k r.revSubs = (((v >>> subPosW r aw k) &&& mask r.subW : Nat) : Int) := by
  unfold RegArith.subValue subPosW
  cases r.revSubs <;> to_nat <;>
  · simp only [Nat.add_mul, Nat.one_mul, Nat.add_zero, Nat.zero_add]

theorem asmInit_eq : RegArith.asmInit = 0 := by decide

theorem asmStep_eq (r : Reg) (acc sv k : Nat) :
    RegArith.asmStep acc sv r.width r.subW k r.revSubs = ((acc ||| (sv <<< subPos r k) : Nat) : Int) := by
  unfold RegArith.asmStep subPos
  cases r.revSubs <;> to_nat <;>
  · simp only [Nat.add_mul, Nat.one_mul, Nat.add_zero, Nat.zero_add]

theorem resetOr_eq (acc reset off w : Nat) :
    RegArith.resetOr acc reset off w = ((acc ||| ((reset &&& mask w) <<< off) : Nat) : Int) := by
  unfold RegArith.resetOr
  to_nat <;>
  · apply Nat.eq_of_testBit_eq; intro k
    to_bits

/-! ### alternative widths -/

theorem altFlags_eq : RegArith.altSorted = true ∧ RegArith.altCntAlign = false ∧ RegArith.altCntByteCnt = false := by
  decide

theorem altFits_eq (w c a : Nat) : RegArith.altFits w c a = decide (c ≤ a / 8) := by
  unfold RegArith.altFits
  to_nat
  by_cases h : c ≤ a / 8 <;> simp [h]

theorem altWidth_cons_fit (a : Nat) (as : List Nat) (w v : Nat) (hf : byteCnt v ≤ a / 8) (hle : ∀ x ∈ as, a ≤ x) :
    altWidth (a :: as) w v = a := by
  unfold altWidth
  simp only [List.filter_cons, hf, decide_true, if_true]
  obtain ⟨h1, _⟩ := foldl_min_le (as.filter (fun a => decide (byteCnt v ≤ a / 8))) a
  rcases foldl_min_mem (as.filter (fun a => decide (byteCnt v ≤ a / 8))) a with h | h
  · exact h
  · have := hle _ (List.mem_filter.1 h).1
    omega

theorem altWidth_cons_nofit (a : Nat) (as : List Nat) (w v : Nat) (hf : ¬ byteCnt v ≤ a / 8) :
    altWidth (a :: as) w v = altWidth as w v := by
  unfold altWidth
  simp only [List.filter_cons, hf, decide_false, Bool.false_eq_true, if_false]

theorem altSel_eq (w v : Nat) (alts : List Nat) (hs : alts.Pairwise (· ≤ ·)) :
    RegArith.altSel w (byteCnt v) (alts.map (fun (a : Nat) => (a : Int))) = ((altWidth alts w v : Nat) : Int) := by
  induction alts with
  | nil => simp [RegArith.altSel, altWidth_nil]
  | cons a as ih =>
    rw [List.pairwise_cons] at hs
    simp only [List.map_cons, RegArith.altSel]
    to_nat
    by_cases hf : byteCnt v ≤ a / 8
    · rw [altWidth_cons_fit a as w v hf hs.1]
      simp only [hf, decide_true, if_true]
    · rw [altWidth_cons_nofit a as w v hf, ← ih hs.2]
      simp only [hf, decide_false, Bool.false_eq_true, if_false]

theorem getAltWidth_eq (w v : Nat) (alts : List Nat) (hs : alts.Pairwise (· ≤ ·)) :
    RegArith.getAltWidth w (byteCnt v) (alts.map (fun (a : Nat) => (a : Int))) = ((altWidth alts w v : Nat) : Int) := by
  unfold RegArith.getAltWidth
  cases alts with
  | nil => simp [altWidth_nil, RegArith.altSel]
  | cons a as =>
    have := altSel_eq w v (a :: as) hs
    simp only [List.map_cons] at this
    simp [this]

/-- the hand model's `altWidth` does not depend on the order of the list (the code sorts it first) -/
theorem altWidth_perm (l l' : List Nat) (w v : Nat) (hp : l.Perm l') : altWidth l w v = altWidth l' w v := by
  rcases altWidth_cases l w v with ⟨h1, h2⟩ | ⟨h1, h2, h3⟩
  · rcases altWidth_cases l' w v with ⟨h1', _⟩ | ⟨h1', h2', _⟩
    · rw [h1, h1']
    · exact absurd h2' (h2 _ (hp.mem_iff.2 h1'))
  · rcases altWidth_cases l' w v with ⟨_, h2'⟩ | ⟨h1', h2', h3'⟩
    · exact absurd h2 (h2' _ (hp.mem_iff.1 h1))
    · have a := h3 _ (hp.mem_iff.2 h1') h2'
      have b := h3' _ (hp.mem_iff.1 h1) h2
      omega

/-! ### the hand model's functions in terms of the generated arithmetic -/

theorem foldl_cast {α : Type} (l : List α) (f : Nat → α → Nat) (g : Int → α → Int) (a : Nat)
    (h : ∀ acc x, ((f acc x : Nat) : Int) = g acc x) : ((l.foldl f a : Nat) : Int) = l.foldl g a := by
  induction l generalizing a with
  | nil => rfl
  | cons x xs ih => simp only [List.foldl_cons]; rw [ih, h]

theorem fieldGet_gen (r : Reg) (f : Field) :
    fieldGet r f = (match r.get false with
      | .error e => .error e
      | .ok rv => .ok (RegArith.bfGet rv f.offset f.width (RegArith.srPost f.shift)).toNat) := by
  unfold fieldGet
  cases r.get false with
  | error e => rfl
  | ok rv => simp only [bfGet_eq, Int.toNat_natCast]

theorem fieldSet_gen (r : Reg) (f : Field) (v : Nat) (raw noPre : Bool) :
    fieldSet r f v raw noPre = (match r.get raw with
      | .ok rv => (match RegArith.bfSet v noPre rv f.offset f.width (RegArith.srPre f.shift) with
        | .error e => .error e
        | .ok x => r.set x.toNat raw)
      | .error e => (match RegArith.bfSet v noPre 0 f.offset f.width (RegArith.srPre f.shift) with
        | .error e' => .error e'
        | .ok _ => .error e)) := by
  unfold fieldSet
  have h0 : RegArith.bfSet v noPre 0 f.offset f.width (RegArith.srPre f.shift) =
      (if (if noPre then v else v >>> f.shift) ≥ 2 ^ f.width then .error .spsdk
       else .ok ((insertBits 0 f.offset f.width (if noPre then v else v >>> f.shift) : Nat) : Int)) := by
    have := bfSet_eq v 0 f.offset f.width f.shift noPre
    simpa using this
  cases hg : r.get raw with
  | error e =>
    simp only [h0]
    cases noPre <;> simp only [if_true, if_false, Bool.false_eq_true] <;> split <;> rfl
  | ok rv =>
    simp only [bfSet_eq]
    cases noPre <;> simp only [if_true, if_false, Bool.false_eq_true, Int.toNat_natCast] <;> split <;> simp_all

theorem distributeW_gen (r : Reg) (aw x : Nat) :
    distributeW r aw x = (List.range r.subs.length).map (fun (i : Nat) =>
      if ((i : Nat) : Int) < RegArith.subCount aw r.subW then (RegArith.subValue x aw r.subW i r.revSubs).toNat
      else r.subs.getD i 0) := by
  unfold distributeW
  apply List.map_congr_left
  intro i _
  simp only [subCount_eq, subValue_eq, Int.toNat_natCast, Int.ofNat_lt]

theorem assemble_gen (r : Reg) :
    ((assemble r : Nat) : Int) = (List.range r.subs.length).foldl
      (fun acc (i : Nat) => RegArith.asmStep acc (r.subs.getD i 0 : Nat) r.width r.subW i r.revSubs) RegArith.asmInit := by
  unfold assemble
  rw [foldl_cast _ _ (fun acc (i : Nat) => RegArith.asmStep acc (r.subs.getD i 0 : Nat) r.width r.subW i r.revSubs) 0
    (fun acc i => (asmStep_eq r acc (r.subs.getD i 0) i).symm), asmInit_eq]
  rfl

theorem resetValue_gen (r : Reg) :
    ((r.resetValue : Nat) : Int) = r.fields.foldl
      (fun acc f => RegArith.resetOr acc f.reset f.offset f.width) (r.resetRaw : Int) := by
  unfold Reg.resetValue
  exact foldl_cast _ _ _ _ (fun acc f => (resetOr_eq acc f.reset f.offset f.width).symm)

end SpsdkVerif.Regs
