/-
Helper proofs for C08 phase 2 (Model/KeysGlue.lean): attempt chains, key-index matching, the trailing-zero loop of
`Certificate.parse`, chain walking, parameter filtering of the signature providers, raw key files of the CLI.
-/
import SpsdkVerif.Proofs.Keys
import SpsdkVerif.Model.KeysGlue

namespace SpsdkVerif.Keys
open SpsdkVerif SpsdkVerif.Misc SpsdkVerif.Generated

/-! ### attempt chains -/

theorem firstAccept_append_spsdk {α : Type} (pre rest : List (Try α)) (h : ∀ t ∈ pre, t = .spsdk) :
    firstAccept (pre ++ rest) = firstAccept rest := by
  induction pre with
  | nil => rfl
  | cons t pre ih =>
    have ht : t = .spsdk := h t (by simp)
    subst ht
    simp only [List.cons_append, firstAccept]
    exact ih (fun t' ht' => h t' (by simp [ht']))

theorem firstAccept_ok_iff {α : Type} (l : List (Try α)) (a : α) :
    firstAccept l = .ok a ↔ ∃ pre post, l = pre ++ .ok a :: post ∧ ∀ t ∈ pre, t = .spsdk := by
  constructor
  · intro h
    induction l with
    | nil => simp [firstAccept] at h
    | cons t rest ih =>
      cases t with
      | ok b =>
        simp only [firstAccept, Except.ok.injEq] at h
        subst h
        exact ⟨[], rest, rfl, by simp⟩
      | other => simp [firstAccept] at h
      | spsdk =>
        simp only [firstAccept] at h
        obtain ⟨pre, post, e, hp⟩ := ih h
        refine ⟨.spsdk :: pre, post, by simp [e], ?_⟩
        intro t ht
        simp only [List.mem_cons] at ht
        rcases ht with rfl | ht
        · rfl
        · exact hp t ht
  · rintro ⟨pre, post, e, hp⟩
    subst e
    rw [firstAccept_append_spsdk pre _ hp]
    rfl

theorem firstAccept_other_iff {α : Type} (l : List (Try α)) :
    firstAccept l = .error .other ↔ ∃ pre post, l = pre ++ .other :: post ∧ ∀ t ∈ pre, t = .spsdk := by
  constructor
  · intro h
    induction l with
    | nil => simp [firstAccept] at h
    | cons t rest ih =>
      cases t with
      | ok b => simp [firstAccept] at h
      | other => exact ⟨[], rest, rfl, by simp⟩
      | spsdk =>
        simp only [firstAccept] at h
        obtain ⟨pre, post, e, hp⟩ := ih h
        refine ⟨.spsdk :: pre, post, by simp [e], ?_⟩
        intro t ht
        simp only [List.mem_cons] at ht
        rcases ht with rfl | ht
        · rfl
        · exact hp t ht
  · rintro ⟨pre, post, e, hp⟩
    subst e
    rw [firstAccept_append_spsdk pre _ hp]
    rfl

theorem firstAccept_spsdk_iff {α : Type} (l : List (Try α)) :
    firstAccept l = .error .spsdk ↔ ∀ t ∈ l, t = .spsdk := by
  induction l with
  | nil => simp [firstAccept]
  | cons t rest ih =>
    cases t with
    | ok b => simp [firstAccept]
    | other => simp [firstAccept]
    | spsdk => simp [firstAccept, ih]

/-! ### key-index matching -/

theorem firstTrueFrom_ok_iff (ms : List Bool) (b i : Nat) :
    firstTrueFrom b ms = .ok i ↔ b ≤ i ∧ ms[i - b]? = some true ∧ ∀ j, j < i - b → ms[j]? = some false := by
  induction ms generalizing b with
  | nil => simp [firstTrueFrom]
  | cons m rest ih =>
    cases m with
    | true =>
      simp only [firstTrueFrom, Except.ok.injEq]
      constructor
      · intro h; subst h; simp
      · rintro ⟨h1, h2, h3⟩
        by_cases hz : i - b = 0
        · omega
        · have := h3 0 (by omega)
          simp at this
    | false =>
      simp only [firstTrueFrom]
      rw [ih (b + 1)]
      constructor
      · rintro ⟨h1, h2, h3⟩
        have e : i - b = (i - (b + 1)) + 1 := by omega
        refine ⟨by omega, ?_, ?_⟩
        · rw [e, List.getElem?_cons_succ]; exact h2
        · intro j hj
          cases j with
          | zero => simp
          | succ j => rw [List.getElem?_cons_succ]; exact h3 j (by omega)
      · rintro ⟨h1, h2, h3⟩
        have hne : i - b ≠ 0 := by
          intro hz; rw [hz] at h2; simp at h2
        have e : i - b = (i - (b + 1)) + 1 := by omega
        refine ⟨by omega, ?_, ?_⟩
        · rw [e, List.getElem?_cons_succ] at h2; exact h2
        · intro j hj
          have := h3 (j + 1) (by omega)
          rw [List.getElem?_cons_succ] at this; exact this

theorem firstTrueFrom_err_iff (ms : List Bool) (b : Nat) :
    firstTrueFrom b ms = .error .spsdk ↔ ∀ m ∈ ms, m = false := by
  induction ms generalizing b with
  | nil => simp [firstTrueFrom]
  | cons m rest ih =>
    cases m with
    | true => simp [firstTrueFrom]
    | false => simp [firstTrueFrom, ih]

/-! ### `Certificate.parse`: trailing zeros -/

theorem dropLast_append_replicate_succ (der : Bytes) (k : Nat) :
    (der ++ List.replicate (k + 1) (0 : UInt8)).dropLast = der ++ List.replicate k 0 := by
  rw [List.replicate_succ', ← List.append_assoc, List.dropLast_concat]

theorem getLast_append_replicate_succ (der : Bytes) (k : Nat) :
    (der ++ List.replicate (k + 1) (0 : UInt8)).getLast? = some 0 := by
  rw [List.replicate_succ', ← List.append_assoc, List.getLast?_concat]

theorem certLoadDerF_padded {γ : Type} (load : Bytes → LoadRes γ) (der : Bytes) (c : γ)
    (hload : load der = .ok c) (hextra : ∀ k, 0 < k → load (der ++ List.replicate k 0) = .extraData)
    (k fuel : Nat) (hf : k ≤ fuel) :
    certLoadDerF load fuel (der ++ List.replicate k 0) = .ok c := by
  induction k generalizing fuel with
  | zero =>
    simp only [List.replicate_zero, List.append_nil]
    unfold certLoadDerF; rw [hload]
  | succ k ih =>
    unfold certLoadDerF
    rw [hextra (k + 1) (by omega), getLast_append_replicate_succ]
    simp only [if_true]
    cases fuel with
    | zero => omega
    | succ f =>
      simp only
      rw [dropLast_append_replicate_succ]
      exact ih f (by omega)

/-! ### parameter filtering -/

theorem lookup_filter_none (k : String) (f : String × PVal → Bool) (l : Params)
    (h : ∀ p : String × PVal, p.1 = k → f p = false) : (l.filter f).lookup k = none := by
  induction l with
  | nil => rfl
  | cons p rest ih =>
    simp only [List.filter]
    cases hp : f p with
    | false => exact ih
    | true =>
      simp only [List.lookup]
      have hne : ¬ p.1 = k := fun e => by rw [h p e] at hp; exact absurd hp (by simp)
      have : (k == p.1) = false := by
        rw [beq_eq_false_iff_ne]; exact fun e => hne e.symm
      rw [this]; exact ih

theorem lookup_filter_keep (k : String) (f : String × PVal → Bool) (l : Params)
    (h : ∀ p : String × PVal, p.1 = k → f p = true) : (l.filter f).lookup k = l.lookup k := by
  induction l with
  | nil => rfl
  | cons p rest ih =>
    simp only [List.filter]
    by_cases hk : p.1 = k
    · rw [h p hk]
      simp only [List.lookup]
      have : (k == p.1) = true := by rw [beq_iff_eq]; exact hk.symm
      rw [this]
    · have hb : (k == p.1) = false := by rw [beq_eq_false_iff_ne]; exact fun e => hk e.symm
      cases hp : f p with
      | false => simp only [List.lookup, hb]; exact ih
      | true => simp only [List.lookup, hb]; exact ih

end SpsdkVerif.Keys
