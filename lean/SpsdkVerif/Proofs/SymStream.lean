/-
Proofs for Model/SymStream.lean (C09 phase 3), core Lean only.

  * Merkle–Damgård streaming = one-shot, for EVERY chunking (`MdAlg.stream_eq_oneShot`): invariant
    "chaining value = fold over the complete blocks of everything fed so far, buffer = the rest, count = length".
  * CRC continuation through `initial_value` (`crc_resume`), and burst detection up to the register width
    (`crc_detects_burst`): multiplication by `x` is injective modulo a generator with constant term 1.
  * AES-CTR split at a block boundary (`ctrXorWith_split`) and the position `Counter` reaches (`counter_block_be`).
-/
import SpsdkVerif.Model.SymStream
import SpsdkVerif.Proofs.Crypto
import SpsdkVerif.Proofs.Crc
import SpsdkVerif.Proofs.SymWrappers

namespace SpsdkVerif.SymStream
open SpsdkVerif SpsdkVerif.Crypto SpsdkVerif.SymWrappers
open SpsdkVerif.Misc (beEnc beDec leEnc leDec)

/-! ## `foldChunks` over concatenations -/

theorem foldChunks_add {σ : Type} (n : Nat) (f : σ → Bytes → σ) :
    ∀ (k1 k2 : Nat) (s : σ) (m : Bytes),
      Sha.foldChunks n f (k1 + k2) s m = Sha.foldChunks n f k2 (Sha.foldChunks n f k1 s m) (m.drop (n * k1))
  | 0, k2, s, m => by simp [Sha.foldChunks]
  | k1 + 1, k2, s, m => by
    have e : k1 + 1 + k2 = (k1 + k2) + 1 := by omega
    rw [e]
    simp only [Sha.foldChunks]
    rw [foldChunks_add n f k1 k2, List.drop_drop]
    congr 2
    rw [Nat.mul_succ]; omega

theorem foldChunks_append {σ : Type} (n : Nat) (f : σ → Bytes → σ) :
    ∀ (k : Nat) (s : σ) (m x : Bytes), n * k ≤ m.length →
      Sha.foldChunks n f k s (m ++ x) = Sha.foldChunks n f k s m
  | 0, _, _, _, _ => by simp [Sha.foldChunks]
  | k + 1, s, m, x, h => by
    have hn : n ≤ m.length := by rw [Nat.mul_succ] at h; omega
    simp only [Sha.foldChunks]
    rw [List.take_append_of_le_length hn, List.drop_append_of_le_length hn]
    apply foldChunks_append n f k
    rw [Nat.mul_succ] at h
    simp only [List.length_drop]; omega

theorem pad_eq (blk lb : Nat) (m : Bytes) : Sha.pad blk lb m = m ++ mdSuffix blk lb m.length := by
  simp [Sha.pad, mdSuffix, List.append_assoc]

/-! ## the streaming invariant -/

namespace MdAlg
variable {σ : Type} (A : MdAlg σ)

/-- state `s` has absorbed exactly the message `d` -/
structure Inv (s : MdState σ) (d : Bytes) : Prop where
  total : s.total = d.length
  buf : s.buf = d.drop (A.blk * (d.length / A.blk))
  h : s.h = Sha.foldChunks A.blk A.compress (d.length / A.blk) A.iv d

theorem inv_init : A.Inv A.init [] := ⟨rfl, by simp [MdAlg.init], by simp [MdAlg.init, Sha.foldChunks]⟩

theorem inv_buf_length (_hb : 0 < A.blk) {s : MdState σ} {d : Bytes} (h : A.Inv s d) :
    s.buf.length = d.length % A.blk := by
  rw [h.buf, List.length_drop]
  have := Nat.div_add_mod d.length A.blk
  omega

/-- the buffer never holds a complete block -/
theorem inv_buf_lt (hb : 0 < A.blk) {s : MdState σ} {d : Bytes} (h : A.Inv s d) : s.buf.length < A.blk := by
  rw [A.inv_buf_length hb h]; exact Nat.mod_lt _ hb

theorem inv_update (hb : 0 < A.blk) {s : MdState σ} {d : Bytes} (h : A.Inv s d) (x : Bytes) :
    A.Inv (A.update s x) (d ++ x) := by
  have hbl := A.inv_buf_length hb h
  have hdm := Nat.div_add_mod d.length A.blk
  have hq : A.blk * (d.length / A.blk) ≤ d.length := by omega
  have hdiv : (d ++ x).length / A.blk = d.length / A.blk + (s.buf ++ x).length / A.blk := by
    have e : (d ++ x).length = A.blk * (d.length / A.blk) + (s.buf ++ x).length := by
      simp only [List.length_append, hbl]; omega
    rw [e, Nat.mul_add_div hb]
  refine ⟨?_, ?_, ?_⟩
  · simp [MdAlg.update, h.total]
  · simp only [MdAlg.update]
    rw [hdiv, Nat.mul_add, ← List.drop_drop, List.drop_append_of_le_length hq, ← h.buf]
  · simp only [MdAlg.update]
    rw [hdiv, foldChunks_add, foldChunks_append _ _ _ _ d x hq, ← h.h,
      List.drop_append_of_le_length hq, ← h.buf]

theorem inv_foldl (hb : 0 < A.blk) : ∀ (chunks : List Bytes) (s : MdState σ) (d : Bytes), A.Inv s d →
    A.Inv (chunks.foldl A.update s) (d ++ chunks.flatten)
  | [], s, d, h => by simpa using h
  | x :: xs, s, d, h => by
    have := inv_foldl hb xs (A.update s x) (d ++ x) (A.inv_update hb h x)
    simpa [List.append_assoc] using this

theorem inv_finalize (hb : 0 < A.blk) {s : MdState σ} {d : Bytes} (h : A.Inv s d) :
    A.finalize s = A.oneShot d := by
  have hbl := A.inv_buf_length hb h
  have hdm := Nat.div_add_mod d.length A.blk
  have hq : A.blk * (d.length / A.blk) ≤ d.length := by omega
  simp only [MdAlg.finalize, MdAlg.oneShot, pad_eq, h.total]
  have hdiv : (d ++ mdSuffix A.blk A.lenBytes d.length).length / A.blk =
      d.length / A.blk + (s.buf ++ mdSuffix A.blk A.lenBytes d.length).length / A.blk := by
    have e : (d ++ mdSuffix A.blk A.lenBytes d.length).length =
        A.blk * (d.length / A.blk) + (s.buf ++ mdSuffix A.blk A.lenBytes d.length).length := by
      simp only [List.length_append, hbl]; omega
    rw [e, Nat.mul_add_div hb]
  rw [hdiv, foldChunks_add, foldChunks_append _ _ _ _ d _ hq, ← h.h, List.drop_append_of_le_length hq, ← h.buf]

/-- **streaming = one-shot, for every chunking** (empty chunks, chunks of any size, any number of them) -/
theorem stream_eq_oneShot (hb : 0 < A.blk) (chunks : List Bytes) :
    A.finalize (chunks.foldl A.update A.init) = A.oneShot chunks.flatten := by
  have := A.inv_foldl hb chunks A.init [] A.inv_init
  exact A.inv_finalize hb (by simpa using this)

/-- the running state depends only on the bytes fed so far, not on how they were cut — two chunkings of the same
    message reach the same digest AND buffer the same number of bytes -/
theorem stream_buffered (hb : 0 < A.blk) (chunks : List Bytes) :
    (chunks.foldl A.update A.init).buf.length = chunks.flatten.length % A.blk ∧
    (chunks.foldl A.update A.init).total = chunks.flatten.length := by
  have := A.inv_foldl hb chunks A.init [] A.inv_init
  simp only [List.nil_append] at this
  exact ⟨A.inv_buf_length hb this, this.total⟩

end MdAlg

theorem alg1_oneShot (m : Bytes) : alg1.oneShot m = Sha.sha1 m := rfl
theorem alg256_oneShot (m : Bytes) : alg256.oneShot m = Sha.sha256 m := rfl
theorem alg384_oneShot (m : Bytes) : alg384.oneShot m = Sha.sha384 m := rfl
theorem alg512_oneShot (m : Bytes) : alg512.oneShot m = Sha.sha512 m := rfl

/-! ## CRC: continuation and burst detection -/

namespace CrcX
open SpsdkVerif.Crypto.Crc

theorem byteStep_init (p : Params) (i : Nat) : byteStep { p with init := i } = byteStep p := by
  funext c b; rfl

theorem registerFrom_init (p : Params) (i s : Nat) (d : Bytes) :
    registerFrom { p with init := i } s d = registerFrom p s d := by
  simp [registerFrom, byteStep_init]

/-- the register behind a CRC value: undo xor-out and output reflection -/
def unOut (p : Params) (v : Nat) : Nat :=
  if p.refOut then reflect p.width (v ^^^ p.xorOut) else v ^^^ p.xorOut

theorem unOut_crc {p : Params} (h : WF p) (hinit : p.init < 2 ^ p.width) (a : Bytes) :
    unOut p (crc p a) = register p a := by
  have hr := registerFrom_lt h a p.init hinit
  simp only [unOut, crc, Nat.xor_assoc, Nat.xor_self, Nat.xor_zero]
  split
  · exact reflect_reflect _ _ hr
  · rfl

/-- **continuation**: a CRC restarted from the register behind `crc p a` and run over `b` is the CRC of `a ++ b` -/
theorem crc_resume {p : Params} (h : WF p) (hinit : p.init < 2 ^ p.width) (a b : Bytes) :
    crc { p with init := unOut p (crc p a) } b = crc p (a ++ b) := by
  have e : register { p with init := unOut p (crc p a) } b = register p (a ++ b) := by
    rw [register_eq, register_eq, registerFrom_init, registerFrom_append, unOut_crc h hinit]
    rfl
  show (if p.refOut then reflect p.width (register { p with init := unOut p (crc p a) } b)
    else register { p with init := unOut p (crc p a) } b) ^^^ p.xorOut = _
  rw [e]; rfl

theorem crc_eq_register {p : Params} (h : WF p) (hinit : p.init < 2 ^ p.width) (m m' : Bytes)
    (e : crc p m = crc p m') : register p m = register p m' := by
  have := congrArg (unOut p) e
  rwa [unOut_crc h hinit, unOut_crc h hinit] at this

theorem shl_mod_two (y : Nat) : (y <<< 1) % 2 = 0 := by
  rw [Nat.shiftLeft_eq]; omega

theorem clmul_mod_two (q g : Nat) : clmul q g % 2 = (q % 2) * (g % 2) := by
  rw [clmul_eq, xor_mod_two, shl_mod_two]
  split
  · rename_i hq; rw [hq]; omega
  · rename_i hq; have : q % 2 = 0 := by omega
    rw [this]; simp

theorem gen_odd {p : Params} (h : WF p) (hodd : p.poly % 2 = 1) : gen p % 2 = 1 := by
  have hw := h.w8
  have : (2 ^ p.width) % 2 = 0 := by
    obtain ⟨k, hk⟩ : ∃ k, p.width = k + 1 := ⟨p.width - 1, by omega⟩
    rw [hk, Nat.pow_succ]; omega
  rw [gen, xor_mod_two, this, hodd]

theorem shl_one_inj {a b : Nat} (e : a <<< 1 = b <<< 1) : a = b := by
  rw [Nat.shiftLeft_eq, Nat.shiftLeft_eq] at e; omega

/-- **multiplication by `x` is injective modulo a generator with constant term 1**: if `B·x^k` is a multiple of `G`
    then so is `B` -/
theorem clmul_cancel_shift (G : Nat) (hG : G % 2 = 1) : ∀ (k B q : Nat), B <<< k = clmul q G → ∃ q', B = clmul q' G
  | 0, B, q, e => ⟨q, by simpa using e⟩
  | k + 1, B, q, e => by
    have e1 : (B <<< k) <<< 1 = clmul q G := by rw [← Nat.shiftLeft_add]; exact e
    have hq : q % 2 = 0 := by
      have := congrArg (· % 2) e1
      simp only [shl_mod_two, clmul_mod_two, hG] at this
      omega
    have hq2 : q = 2 * (q / 2) := by omega
    rw [hq2, clmul_double] at e1
    exact clmul_cancel_shift G hG k B (q / 2) (shl_one_inj e1)

/-- **burst detection up to the register width**: two messages of the same length whose message polynomials differ by
    `B·x^j` with `0 ≠ B`, `deg B < width` (all changed bits inside a window of `width` bits, anywhere, across byte
    boundaries) never have the same CRC — any width ≥ 8, any generator with constant term 1, any init / xor-out /
    reflection (for a reflected CRC the window is in transmission order, `msgPoly` reflects each byte). -/
theorem crc_detects_burst {p : Params} (h : WF p) (hodd : p.poly % 2 = 1) (hinit : p.init < 2 ^ p.width)
    (m m' : Bytes) (hl : m.length = m'.length) (B j : Nat) (hB0 : B ≠ 0) (hB : B < 2 ^ p.width)
    (hd : msgPoly p m ^^^ msgPoly p m' = B <<< j) : crc p m ≠ crc p m' := by
  intro e
  have hr := crc_eq_register h hinit m m' e
  rw [register_eq, register_eq] at hr
  obtain ⟨q1, e1⟩ := registerFrom_congr h m p.init hinit
  obtain ⟨q2, e2⟩ := registerFrom_congr h m' p.init hinit
  rw [← hl, ← hr] at e2
  have ex : (msgPoly p m ^^^ msgPoly p m') <<< p.width = clmul (q1 ^^^ q2) (gen p) := by
    rw [clmul_xor', Nat.shiftLeft_xor_distrib]
    apply Nat.eq_of_testBit_eq; intro i
    have t1 := congrArg (·.testBit i) e1
    have t2 := congrArg (·.testBit i) e2
    simp only [Nat.testBit_xor] at t1 t2 ⊢
    revert t1 t2
    cases (p.init <<< (8 * m.length)).testBit i <;> cases (msgPoly p m <<< p.width).testBit i <;>
      cases (msgPoly p m' <<< p.width).testBit i <;> cases (clmul q1 (gen p)).testBit i <;>
      cases (clmul q2 (gen p)).testBit i <;> cases (registerFrom p p.init m).testBit i <;> simp
  rw [hd, ← Nat.shiftLeft_add] at ex
  obtain ⟨q', eq'⟩ := clmul_cancel_shift (gen p) (gen_odd h hodd) _ B _ ex
  have hq0 : q' ≠ 0 := by
    intro hz; rw [hz, clmul_zero] at eq'; exact hB0 eq'
  have := clmul_ge (gen p) p.width q' (gen_range h).1 (gen_range h).2 hq0
  omega

end CrcX

/-! ## AES-CTR: splitting at a block boundary, and where `Counter` lands -/

theorem streamOf_add (f : Bytes → Bytes) (blk : Nat → Bytes) :
    ∀ (n1 n2 i : Nat), streamOf f blk (n1 + n2) i = streamOf f blk n1 i ++ streamOf f blk n2 (i + n1)
  | 0, n2, i => by simp [streamOf]
  | n1 + 1, n2, i => by
    have e : n1 + 1 + n2 = (n1 + n2) + 1 := by omega
    rw [e]
    simp only [streamOf]
    rw [streamOf_add f blk n1 n2 (i + 1), List.append_assoc]
    congr 3; omega

theorem streamOf_shift (f : Bytes → Bytes) (blk blk' : Nat → Bytes) (d : Nat) (hb : ∀ j, blk' j = blk (j + d)) :
    ∀ (n i : Nat), streamOf f blk' n i = streamOf f blk n (i + d)
  | 0, _ => by simp [streamOf]
  | n + 1, i => by
    simp only [streamOf]
    rw [hb, streamOf_shift f blk blk' d hb n (i + 1)]
    congr 2; omega

theorem beEnc_mod : ∀ (n v : Nat), beEnc n (v % 256 ^ n) = beEnc n v
  | 0, _ => rfl
  | n + 1, v => by
    simp only [beEnc]
    have h1 : v % 256 ^ (n + 1) / 256 = v / 256 % 256 ^ n := by
      rw [Nat.pow_succ, Nat.mul_comm, Nat.mod_mul_right_div_self]
    have h2 : v % 256 ^ (n + 1) % 256 = v % 256 := by
      rw [Nat.pow_succ]; exact Nat.mod_mul_left_mod v _ 256
    rw [h1, h2, beEnc_mod n]

/-- block `j` of a CTR stream started at block `n` of another = block `n + j` of that one (128-bit arithmetic,
    wrap at 2^128 included) -/
theorem ctrBlock_ctrBlock (iv : Bytes) (n j : Nat) : ctrBlock (ctrBlock iv n) j = ctrBlock iv (j + n) := by
  simp only [ctrBlock]
  rw [Crc.beDec_beEnc, ← beEnc_mod 16 (_ + j), Nat.mod_add_mod, beEnc_mod]
  congr 1; omega

theorem blocksFor_mul_add (n l : Nat) : blocksFor (16 * n + l) = n + blocksFor l := by
  simp only [blocksFor]; omega

/-- **splitting a CTR encryption at any block boundary**: the first `16·n` bytes under `iv`, the rest under the
    counter block advanced by `n` — equals the single call, for every block function, every length of the rest -/
theorem ctrXorWith_split {enc : Bytes → Bytes} (he : ∀ b, (enc b).length = 16) (iv a b : Bytes) (n : Nat)
    (ha : a.length = 16 * n) :
    ctrXorWith enc iv (a ++ b) = ctrXorWith enc iv a ++ ctrXorWith enc (ctrBlock iv n) b := by
  have h1 : blocksFor (a ++ b).length = n + blocksFor b.length := by
    rw [List.length_append, ha, blocksFor_mul_add]
  have h2 : blocksFor a.length = n := by
    have := blocksFor_mul_add n 0; simpa [ha, blocksFor] using this
  simp only [ctrXorWith, ctrStream, h1, h2]
  rw [streamOf_add, xorBytes_append _ _ _ _ (by rw [streamOf_length he, ha]),
    streamOf_shift enc (ctrBlock iv) (ctrBlock (ctrBlock iv n)) n (ctrBlock_ctrBlock iv n)]

theorem bytes_rev_ind {P : Bytes → Prop} (h0 : P []) (hs : ∀ l x, P l → P (l ++ [x])) : ∀ l, P l := by
  intro l
  rw [← List.reverse_reverse l]
  induction l.reverse with
  | nil => simpa using h0
  | cons x t ih => rw [List.reverse_cons]; exact hs _ _ ih

theorem beEnc_beDec (b : Bytes) : beEnc b.length (beDec b) = b := by
  induction b using bytes_rev_ind with
  | h0 => simp [beEnc]
  | hs l x ih =>
    rw [Crc.beDec_append_single, List.length_append, List.length_singleton, beEnc]
    have hx := x.toNat_lt
    have h1 : (beDec l * 256 + x.toNat) / 256 = beDec l := by omega
    have h2 : (beDec l * 256 + x.toNat) % 256 = x.toNat := by omega
    rw [h1, h2, ih, UInt8.ofNat_toNat]

theorem beDec_append (a b : Bytes) : beDec (a ++ b) = beDec a * 256 ^ b.length + beDec b := by
  induction b using bytes_rev_ind with
  | h0 => simp [beDec]
  | hs l x ih =>
    rw [← List.append_assoc, Crc.beDec_append_single, Crc.beDec_append_single, ih, List.length_append,
      List.length_singleton, Nat.pow_succ]
    rw [Nat.add_mul, Nat.mul_assoc, Nat.add_assoc]

theorem beEnc_add_mul (n m hi lo : Nat) (h : lo < 256 ^ m) :
    beEnc (n + m) (hi * 256 ^ m + lo) = beEnc n hi ++ beEnc m lo := by
  induction m generalizing lo with
  | zero => simp at h; subst h; simp [beEnc]
  | succ m ih =>
    have hp : 256 ^ (m + 1) = 256 ^ m * 256 := Nat.pow_succ ..
    rw [← Nat.add_assoc, beEnc, beEnc, ← List.append_assoc]
    have h1 : (hi * 256 ^ (m + 1) + lo) / 256 = hi * 256 ^ m + lo / 256 := by
      rw [hp, ← Nat.mul_assoc]; omega
    have h2 : (hi * 256 ^ (m + 1) + lo) % 256 = lo % 256 := by
      rw [hp, ← Nat.mul_assoc]; omega
    rw [h1, h2, ih (lo / 256) (by rw [hp] at h; omega)]

/-- the 32-bit word a `Counter` currently encodes -/
def Counter.word (cn : Counter) : Nat := (cn.ctr % 4294967296).toNat

theorem Counter.word_lt (cn : Counter) : Counter.word cn < 4294967296 := by
  simp only [Counter.word]; omega

/-- the 128-bit CTR block `n` positions after a big-endian `Counter` value, as nonce ‖ word with the carry made explicit -/
theorem ctrBlock_counter (cn : Counter) (hn : cn.nonce.length = 12) (hl : cn.little = false) (n : Nat) :
    ctrBlock cn.value n =
      beEnc 12 (beDec cn.nonce + (Counter.word cn + n) / 4294967296) ++ beEnc 4 ((Counter.word cn + n) % 4294967296) := by
  have hw := Counter.word_lt cn
  have e4 : (256 : Nat) ^ 4 = 4294967296 := by decide
  have hv : beDec cn.value = beDec cn.nonce * 256 ^ 4 + Counter.word cn := by
    simp only [Counter.value, hl, enc32, Bool.false_eq_true, if_false]
    rw [beDec_append, Crc.beEnc_length, Crc.beDec_beEnc, Nat.mod_eq_of_lt (by rw [e4]; exact hw)]
    rfl
  simp only [ctrBlock, hv]
  have hsplit : beDec cn.nonce * 256 ^ 4 + Counter.word cn + n =
      (beDec cn.nonce + (Counter.word cn + n) / 4294967296) * 256 ^ 4 + (Counter.word cn + n) % 4294967296 := by
    rw [e4]; omega
  rw [hsplit]
  exact beEnc_add_mul 12 4 _ _ (by rw [e4]; omega)

/-- **no wrap**: while the 32-bit word does not overflow, `increment(n)` lands exactly on block `n` of the running
    128-bit CTR stream -/
theorem counter_block_be (cn : Counter) (hn : cn.nonce.length = 12) (hl : cn.little = false) (n : Nat)
    (hw : Counter.word cn + n < 4294967296) : (cn.increment (n : Int)).value = ctrBlock cn.value n := by
  rw [ctrBlock_counter cn hn hl n, Nat.div_eq_of_lt hw, Nat.mod_eq_of_lt hw, Nat.add_zero]
  have e : ((cn.ctr + (n : Int)) % 4294967296).toNat = Counter.word cn + n := by
    simp only [Counter.word] at hw ⊢; omega
  simp only [Counter.value, Counter.increment, hl, enc32, Bool.false_eq_true, if_false, e]
  rw [← hn, beEnc_beDec]


/-! ## `ShaObj`: the four instances -/

theorem foldl_s1 (chunks : List Bytes) (s) :
    chunks.foldl ShaObj.update (.s1 s) = .s1 (chunks.foldl alg1.update s) := by
  induction chunks generalizing s with
  | nil => rfl
  | cons x xs ih => simp only [List.foldl_cons, ShaObj.update, ih]

theorem foldl_s256 (chunks : List Bytes) (s) :
    chunks.foldl ShaObj.update (.s256 s) = .s256 (chunks.foldl alg256.update s) := by
  induction chunks generalizing s with
  | nil => rfl
  | cons x xs ih => simp only [List.foldl_cons, ShaObj.update, ih]

theorem foldl_s384 (chunks : List Bytes) (s) :
    chunks.foldl ShaObj.update (.s384 s) = .s384 (chunks.foldl alg384.update s) := by
  induction chunks generalizing s with
  | nil => rfl
  | cons x xs ih => simp only [List.foldl_cons, ShaObj.update, ih]

theorem foldl_s512 (chunks : List Bytes) (s) :
    chunks.foldl ShaObj.update (.s512 s) = .s512 (chunks.foldl alg512.update s) := by
  induction chunks generalizing s with
  | nil => rfl
  | cons x xs ih => simp only [List.foldl_cons, ShaObj.update, ih]

theorem shaObj_stream (a : HashAlg) (chunks : List Bytes) :
    (chunks.foldl ShaObj.update (ShaObj.new a)).finalize = Sha.hash a chunks.flatten := by
  cases a
  · simp only [ShaObj.new, foldl_s1, ShaObj.finalize, Sha.hash]
    rw [alg1.stream_eq_oneShot (by decide), alg1_oneShot]
  · simp only [ShaObj.new, foldl_s256, ShaObj.finalize, Sha.hash]
    rw [alg256.stream_eq_oneShot (by decide), alg256_oneShot]
  · simp only [ShaObj.new, foldl_s384, ShaObj.finalize, Sha.hash]
    rw [alg384.stream_eq_oneShot (by decide), alg384_oneShot]
  · simp only [ShaObj.new, foldl_s512, ShaObj.finalize, Sha.hash]
    rw [alg512.stream_eq_oneShot (by decide), alg512_oneShot]

theorem shaObj_buffered (a : HashAlg) (chunks : List Bytes) :
    (chunks.foldl ShaObj.update (ShaObj.new a)).buffered = chunks.flatten.length % a.blockSize := by
  cases a
  · simp only [ShaObj.new, foldl_s1, ShaObj.buffered]; exact (alg1.stream_buffered (by decide) chunks).1
  · simp only [ShaObj.new, foldl_s256, ShaObj.buffered]; exact (alg256.stream_buffered (by decide) chunks).1
  · simp only [ShaObj.new, foldl_s384, ShaObj.buffered]; exact (alg384.stream_buffered (by decide) chunks).1
  · simp only [ShaObj.new, foldl_s512, ShaObj.buffered]; exact (alg512.stream_buffered (by decide) chunks).1

theorem foldl_call (calls : List HashCall) (o : ShaObj) :
    calls.foldl ShaObj.call o = (calls.map HashCall.data).foldl ShaObj.update o := by
  induction calls generalizing o with
  | nil => rfl
  | cons x xs ih =>
    simp only [List.foldl_cons, List.map_cons, ih]
    cases x <;> rfl

theorem foldl_hmac (chunks : List Bytes) (o : HmacObj) :
    chunks.foldl HmacObj.update o = { o with inner := chunks.foldl ShaObj.update o.inner } := by
  induction chunks generalizing o with
  | nil => rfl
  | cons x xs ih => simp only [List.foldl_cons, ih, HmacObj.update]

theorem hmacObj_stream (a : HashAlg) (key : Bytes) (chunks : List Bytes) :
    (chunks.foldl HmacObj.update (HmacObj.new a key)).finalize = hmac execOps a key chunks.flatten := by
  rw [foldl_hmac]
  simp only [HmacObj.finalize, HmacObj.new]
  have h1 := shaObj_stream a ((hmacKey0 execOps a key).map (· ^^^ 0x36) :: chunks)
  simp only [List.foldl_cons, List.flatten_cons] at h1
  rw [h1]
  have h2 := shaObj_stream a [(hmacKey0 execOps a key).map (· ^^^ 0x5c),
    Sha.hash a ((hmacKey0 execOps a key).map (· ^^^ 0x36) ++ chunks.flatten)]
  simp only [List.foldl_cons, List.foldl_nil, List.flatten_cons, List.flatten_nil, List.append_nil] at h2
  rw [h2]
  rfl

/-! ## `ctrChunks` -/

theorem beDec_lt (b : Bytes) : beDec b < 256 ^ b.length := by
  induction b using bytes_rev_ind with
  | h0 => simp [beDec]
  | hs l x ih =>
    rw [Crc.beDec_append_single, List.length_append, List.length_singleton, Nat.pow_succ]
    have := x.toNat_lt
    omega

theorem counter_value_length (cn : Counter) (hn : cn.nonce.length = 12) : cn.value.length = 16 := by
  simp [Counter.value, hn, enc32_length]

theorem counter_word_increment (cn : Counter) (n : Nat) (hw : Counter.word cn + n < 4294967296) :
    Counter.word (cn.increment (n : Int)) = Counter.word cn + n := by
  simp only [Counter.word, Counter.increment] at hw ⊢; omega

/-- chunked encryption with the counter advanced by `increment(len/16)` after each chunk = one call, as long as
    the 32-bit word does not overflow before the last chunk starts -/
theorem ctrChunks_eq {c : CryptoOps} (h : CryptoLaws c) (k : Bytes) (hk : aesKeyOk k = true) :
    ∀ (chunks : List Bytes) (cn : Counter), cn.nonce.length = 12 → cn.little = false →
      (∀ ch ∈ chunks, ch.length % 16 = 0) → Counter.word cn + chunks.flatten.length / 16 < 4294967296 →
      ctrChunks c k cn chunks = aesCtr c k chunks.flatten cn.value
  | [], cn, hn, _, _, _ => by
    simp [ctrChunks, aesCtr, hk, counter_value_length cn hn, ctrXor, ctrXorWith, xorBytes]
  | ch :: rest, cn, hn, hl, hal, hw => by
    have ha : ch.length = 16 * (ch.length / 16) := by
      have := hal ch (by simp); omega
    have hlen : (ch :: rest).flatten.length / 16 = ch.length / 16 + rest.flatten.length / 16 := by
      simp only [List.flatten_cons, List.length_append]; omega
    rw [hlen] at hw
    have hw1 : Counter.word cn + ch.length / 16 < 4294967296 := by omega
    have ih := ctrChunks_eq h k hk rest (cn.increment ((ch.length / 16 : Nat) : Int)) hn hl
      (fun x hx => hal x (by simp [hx])) (by rw [counter_word_increment cn _ hw1]; omega)
    have hv := counter_value_length cn hn
    have hv' := counter_value_length (cn.increment ((ch.length / 16 : Nat) : Int)) hn
    simp only [ctrChunks, ih]
    simp only [aesCtr, hk, hv, hv', List.flatten_cons, Bool.not_true, Bool.false_eq_true, if_false, ne_eq,
      not_true_eq_false]
    rw [counter_block_be cn hn hl _ hw1]
    simp only [ctrXor]
    rw [ctrXorWith_split (h.enc_len k) cn.value ch rest.flatten (ch.length / 16) ha]

/-- **at the wrap** the helper and a single 128-bit CTR stream part ways: `Counter` keeps the 12 nonce bytes, the
    128-bit counter carries into them -/
theorem counter_wrap_diverges (cn : Counter) (hn : cn.nonce.length = 12) (hl : cn.little = false) (n : Nat)
    (hn32 : n < 4294967296) (hw : 4294967296 ≤ Counter.word cn + n) :
    (cn.increment (n : Int)).value ≠ ctrBlock cn.value n ∧
    (cn.increment (n : Int)).value = cn.nonce ++ beEnc 4 (Counter.word cn + n - 4294967296) ∧
    ctrBlock cn.value n = beEnc 12 (beDec cn.nonce + 1) ++ beEnc 4 (Counter.word cn + n - 4294967296) := by
  have hwl := Counter.word_lt cn
  have hq : (Counter.word cn + n) / 4294967296 = 1 := by omega
  have hm : (Counter.word cn + n) % 4294967296 = Counter.word cn + n - 4294967296 := by omega
  have e2 : ctrBlock cn.value n = beEnc 12 (beDec cn.nonce + 1) ++ beEnc 4 (Counter.word cn + n - 4294967296) := by
    rw [ctrBlock_counter cn hn hl n, hq, hm]
  have e1 : (cn.increment (n : Int)).value = cn.nonce ++ beEnc 4 (Counter.word cn + n - 4294967296) := by
    have e : ((cn.ctr + (n : Int)) % 4294967296).toNat = Counter.word cn + n - 4294967296 := by
      simp only [Counter.word] at hw hwl ⊢; omega
    simp only [Counter.value, Counter.increment, hl, enc32, Bool.false_eq_true, if_false, e]
  refine ⟨?_, e1, e2⟩
  rw [e1, e2]
  intro heq
  have h12 : (beEnc 12 (beDec cn.nonce + 1)).length = cn.nonce.length := by rw [Crc.beEnc_length, hn]
  have := (List.append_inj heq h12.symm).1
  have hd := congrArg beDec this
  rw [Crc.beDec_beEnc] at hd
  have hlt := beDec_lt cn.nonce
  rw [hn] at hlt
  have e12 : (256 : Nat) ^ 12 = 79228162514264337593543950336 := by decide
  rw [e12] at hd hlt
  omega


end SpsdkVerif.SymStream
