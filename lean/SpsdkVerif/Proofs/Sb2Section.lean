/-
C04 helper lemmas, section layer: AES-CTR with the SB2 block counter (builder's running counter = ROM's
`nonce counter + file offset / 16`), MAC table, one boot section and a list of boot sections through the ROM model.
INTERFACE lemmas (used by Proofs/Sb2Image.lean and Properties/C04.lean) are marked `-- INTERFACE`:
keep their names and statements.
-/
import SpsdkVerif.Proofs.Sb2Cmd
import SpsdkVerif.Crypto.Break

namespace SpsdkVerif.Sb2
open SpsdkVerif SpsdkVerif.Sb2.Rom
open SpsdkVerif.Misc (Bytes beEnc beDec leEnc leDec)
open SpsdkVerif.Crypto (CryptoOps CryptoLaws xorBytes zeroPad16 zeros hmac Break)
open SpsdkVerif.Generated

variable {c : CryptoOps}

/-! ## counter -/

-- INTERFACE: the ROM's key stream for file offset `off` is the builder's key stream for counter `nonce ctr + off/16`
theorem ksAt_eq_ksBlock (dek nonce : Bytes) (off : Nat) :
    Rom.ksAt c dek nonce off = ksBlock c dek nonce (nonceCtr nonce + off / 16) := by
  rfl

theorem ksBlock_length (h : CryptoLaws c) (dek nonce : Bytes) (ctr : Nat) :
    (ksBlock c dek nonce ctr).length = 16 := h.enc_len _ _

-- INTERFACE
theorem ctrBlocks_length (h : CryptoLaws c) (dek nonce : Bytes) (n ctr : Nat) (d : Bytes) (hd : d.length = 16 * n) :
    (ctrBlocks c dek nonce n ctr d).length = 16 * n := by
  induction n generalizing ctr d with
  | zero => simp [ctrBlocks]
  | succ n ih =>
    simp only [ctrBlocks, List.length_append, Crypto.xorBytes_length, List.length_take, ksBlock_length h]
    rw [ih]
    · omega
    · simp; omega

-- INTERFACE (counter agreement): what the builder encrypted with its running counter, placed at a 16-aligned
-- file offset `pre.length`, is decrypted by the ROM with counter `nonce ctr + file offset / 16`, block for block
theorem decryptAt_ctrBlocks (h : CryptoLaws c) (dek nonce pre d post : Bytes) (n : Nat)
    (hpre : pre.length % 16 = 0) (hd : d.length = 16 * n) :
    Rom.decryptAt c dek nonce (pre ++ ctrBlocks c dek nonce n (nonceCtr nonce + pre.length / 16) d ++ post) n pre.length = d := by
  induction n generalizing pre d with
  | zero =>
    simp [Rom.decryptAt]
    exact List.eq_nil_of_length_eq_zero (by omega)
  | succ n ih =>
    simp only [Rom.decryptAt, ctrBlocks]
    have hB : (xorBytes (d.take 16) (ksBlock c dek nonce (nonceCtr nonce + pre.length / 16))).length = 16 := by
      simp [ksBlock_length h]; omega
    generalize hB0 : xorBytes (d.take 16) (ksBlock c dek nonce (nonceCtr nonce + pre.length / 16)) = B0 at hB
    have e1 : ((pre ++ (B0 ++ ctrBlocks c dek nonce n (nonceCtr nonce + pre.length / 16 + 1) (d.drop 16)) ++ post).drop pre.length).take 16 = B0 := by
      simp [List.append_assoc, hB]
    rw [e1, ksAt_eq_ksBlock, ← hB0, Crypto.xorBytes_cancel _ _ (by simp [ksBlock_length h]; omega)]
    have e2 : pre ++ (B0 ++ ctrBlocks c dek nonce n (nonceCtr nonce + pre.length / 16 + 1) (d.drop 16)) ++ post
        = (pre ++ B0) ++ ctrBlocks c dek nonce n (nonceCtr nonce + (pre ++ B0).length / 16) (d.drop 16) ++ post := by
      have : (pre ++ B0).length / 16 = pre.length / 16 + 1 := by simp [hB]
      rw [this]; simp [List.append_assoc, Nat.add_assoc]
    have e3 : pre.length + 16 = (pre ++ B0).length := by simp [hB]
    rw [hB0, e2, e3, ih]
    · simp
    · simp [hB]; omega
    · simp; omega


/-! ## one section -/

theorem cmdsLen_facts (cmds : List Cmd) (hne : cmds ≠ []) :
    Spec.cmdsLen cmds % 16 = 0 ∧ 16 ≤ Spec.cmdsLen cmds := by
  have h2 := (cmdsData_length cmds).2
  have h3 := cmds_length_le cmds
  have h4 : 1 ≤ cmds.length := by cases cmds <;> simp_all
  omega

-- INTERFACE
theorem effHmacCount_eq (s : Section) (wf : Spec.WFsection s) :
    s.effHmacCount = Spec.macCount s ∧ 1 ≤ Spec.macCount s ∧ Spec.macCount s ≤ Spec.cmdsLen s.cmds / 16 := by
  obtain ⟨_, hne, _, _⟩ := wf
  have h1 := rawSize_sum s.cmds
  have ⟨h2, h3⟩ := cmdsLen_facts s.cmds hne
  unfold Section.effHmacCount Spec.macCount
  simp only [h1]
  repeat' split
  all_goals omega

theorem align16_of_mod {x : Nat} (h : x % 16 = 0) : align16 x = x := by unfold align16; omega

-- INTERFACE
theorem rawSize_eq_sectionLen (s : Section) (wf : Spec.WFsection s) :
    s.rawSize = Spec.sectionLen s ∧ Spec.sectionLen s % 16 = 0 ∧ 96 ≤ Spec.sectionLen s := by
  have ⟨e1, e2, e3⟩ := effHmacCount_eq s wf
  obtain ⟨_, hne, _, _⟩ := wf
  have ⟨h2, h3⟩ := cmdsLen_facts s.cmds hne
  unfold Section.rawSize Spec.sectionLen
  rw [rawSize_sum, e1, align16_of_mod (by omega)]
  omega

theorem hmac256_length (h : CryptoLaws c) (k m : Bytes) : (hmac256 c k m).length = 32 := by
  unfold hmac256; rw [Crypto.hmac_length h]; rfl

theorem hmacEntries_length (h : CryptoLaws c) (mac : Bytes) (hc bs : Nat) (d : Bytes) :
    (hmacEntries c mac hc bs d).length = 32 * hc := by
  induction hc generalizing d with
  | zero => simp [hmacEntries]
  | succ n ih =>
    cases n with
    | zero => simp [hmacEntries, hmac256_length h]
    | succ m => simp only [hmacEntries, List.length_append, hmac256_length h, ih]; omega

-- INTERFACE
theorem buildSectionWith_length (h : CryptoLaws c) (dek mac nonce : Bytes) (ctr flags : Nat) (s : Section)
    (wf : Spec.WFsection s) : (buildSectionWith c dek mac nonce ctr flags s).length = Spec.sectionLen s := by
  have ⟨e1, e2, e3⟩ := effHmacCount_eq s wf
  have ⟨l1, l2⟩ := cmdsData_length s.cmds
  unfold buildSectionWith Spec.sectionLen
  simp only [List.length_append, Crypto.xorBytes_length, encodeHdr_length, ksBlock_length h, hmac256_length h,
    hmacEntries_length h]
  rw [ctrBlocks_length h _ _ _ _ _ (by omega), e1, l1]
  omega

/-- the middle one of three concatenated pieces -/
theorem slice_mid (a b d : Bytes) (off len : Nat) (ho : off = a.length) (hl : len = b.length) :
    Rom.slice (a ++ b ++ d) off len = b := by
  subst ho hl
  simp [Rom.slice, List.append_assoc]

theorem slice_head (a d : Bytes) (len : Nat) (hl : len = a.length) : Rom.slice (a ++ d) 0 len = a := by
  subst hl; simp [Rom.slice]

theorem slice_tail (a b : Bytes) (off len : Nat) (ho : off = a.length) (hl : len = b.length) :
    Rom.slice (a ++ b) off len = b := by
  subst ho hl; simp [Rom.slice]

/-- the MAC table the builder writes is the one the ROM accepts (same block size, same ciphertext) -/
theorem checkMacs_hmacEntries (h : CryptoLaws c) (mac : Bytes) (hc bs : Nat) (ec : Bytes) :
    Rom.checkMacs c mac hc bs (hmacEntries c mac hc bs ec) ec = true := by
  induction hc generalizing ec with
  | zero => simp [checkMacs]
  | succ n ih =>
    cases n with
    | zero =>
      have := hmac256_length h mac ec
      simp only [checkMacs, hmacEntries]
      rw [List.take_of_length_le (by omega)]
      simp [hmac256]
    | succ m =>
      have := hmac256_length h mac (ec.take bs)
      simp only [checkMacs, hmacEntries]
      rw [List.take_left' this, List.drop_left' this, ih]
      simp [hmac256]


-- INTERFACE (section round trip): the ROM, positioned at a 16-aligned offset where a section was built with the
-- counter of that offset, checks both MAC levels, decrypts and returns uid, MAC count and the command list
theorem readSection_buildSection (h : CryptoLaws c) (dek mac nonce pre post : Bytes) (s : Section)
    (wf : Spec.WFsection s) (hpre : pre.length % 16 = 0) :
    Rom.readSection c dek mac nonce
        (pre ++ buildSection c dek mac nonce (nonceCtr nonce + pre.length / 16) s ++ post) pre.length
      = .ok (Spec.expectedSection s, pre.length + Spec.sectionLen s) := by
  have ⟨e1, e2, e3⟩ := effHmacCount_eq s wf
  have ⟨l1, l2⟩ := cmdsData_length s.cmds
  obtain ⟨wuid, hne, wcmds, wlen⟩ := wf
  have ⟨l3, l4⟩ := cmdsLen_facts s.cmds hne
  unfold buildSection buildSectionWith
  simp only [e1]
  generalize hN : (cmdsData s.cmds).length / 16 = N
  have hN' : Spec.cmdsLen s.cmds = 16 * N := by omega
  generalize hhc : Spec.macCount s = hc at *
  generalize hhdr : (⟨Sb2Consts.tagTag, imageSectionFlags, s.uid, N, hc⟩ : CmdHdr) = hdr
  have hr : hdr.inRange = true := by
    subst hhdr
    simp [CmdHdr.inRange, Sb2Consts.tagTag, imageSectionFlags, Sb2Consts.sectFlagBootable, Sb2Consts.sectFlagLastSect]
    omega
  generalize heh : xorBytes (encodeHdr hdr) (ksBlock c dek nonce (nonceCtr nonce + pre.length / 16)) = eh
  have leh : eh.length = 16 := by subst heh; simp [encodeHdr_length, ksBlock_length h]
  have hctr : nonceCtr nonce + pre.length / 16 + (1 + (hc + 1) * 2)
      = nonceCtr nonce + (pre ++ eh ++ hmac256 c mac eh ++ hmacEntries c mac hc (N / hc * 16)
          (ctrBlocks c dek nonce N (nonceCtr nonce + pre.length / 16 + (1 + (hc + 1) * 2)) (cmdsData s.cmds))).length / 16 := by
    simp only [List.length_append, leh, hmac256_length h, hmacEntries_length h]
    omega
  generalize hec : ctrBlocks c dek nonce N (nonceCtr nonce + pre.length / 16 + (1 + (hc + 1) * 2)) (cmdsData s.cmds) = ec at hctr
  have lec : ec.length = 16 * N := by subst hec; exact ctrBlocks_length h _ _ _ _ _ (by omega)
  have hcm := checkMacs_hmacEntries h mac hc (N / hc * 16) ec
  generalize htbl : hmacEntries c mac hc (N / hc * 16) ec = tbl at hcm hctr
  have ltbl : tbl.length = 32 * hc := by subst htbl; exact hmacEntries_length h _ _ _ _
  have lhm := hmac256_length h mac eh
  generalize hfile : pre ++ (eh ++ hmac256 c mac eh ++ tbl ++ ec) ++ post = file
  have F1 : file.length = pre.length + 48 + 32 * hc + 16 * N + post.length := by
    subst hfile; simp only [List.length_append, leh, lhm, ltbl, lec]; omega
  have F2 : Rom.slice file pre.length 16 = eh := by
    have : file = pre ++ eh ++ (hmac256 c mac eh ++ tbl ++ ec ++ post) := by subst hfile; simp [List.append_assoc]
    rw [this]; exact slice_mid _ _ _ _ _ rfl leh.symm
  have F3 : Rom.slice file (pre.length + 16) 32 = hmac256 c mac eh := by
    have : file = (pre ++ eh) ++ hmac256 c mac eh ++ (tbl ++ ec ++ post) := by subst hfile; simp [List.append_assoc]
    rw [this]; exact slice_mid _ _ _ _ _ (by simp [leh]) lhm.symm
  have F6 : Rom.slice file (pre.length + 48) (32 * hc) = tbl := by
    have : file = (pre ++ eh ++ hmac256 c mac eh) ++ tbl ++ (ec ++ post) := by subst hfile; simp [List.append_assoc]
    rw [this]; exact slice_mid _ _ _ _ _ (by simp [leh, lhm]) ltbl.symm
  have F7 : Rom.slice file (pre.length + 48 + 32 * hc) (16 * N) = ec := by
    have : file = (pre ++ eh ++ hmac256 c mac eh ++ tbl) ++ ec ++ post := by subst hfile; simp [List.append_assoc]
    rw [this]; exact slice_mid _ _ _ _ _ (by simp [leh, lhm, ltbl]; omega) lec.symm
  have F4 : xorBytes eh (Rom.ksAt c dek nonce pre.length) = encodeHdr hdr := by
    rw [ksAt_eq_ksBlock, ← heh]
    exact Crypto.xorBytes_cancel _ _ (by simp [encodeHdr_length, ksBlock_length h])
  have F5 : Rom.readHdr (encodeHdr hdr) = .ok ⟨1, 0x8001, s.uid, N, hc⟩ := by
    have := readHdr_encodeHdr hdr hr []
    rw [List.append_nil] at this
    rw [this, ← hhdr]
    rfl
  have F9 : Rom.decryptAt c dek nonce file N (pre.length + 48 + 32 * hc) = cmdsData s.cmds := by
    have e : file = (pre ++ eh ++ hmac256 c mac eh ++ tbl) ++ ec ++ post := by subst hfile; simp [List.append_assoc]
    have e' : pre.length + 48 + 32 * hc = (pre ++ eh ++ hmac256 c mac eh ++ tbl).length := by
      simp [leh, lhm, ltbl]; omega
    rw [e, e', ← hec, hctr]
    exact decryptAt_ctrBlocks h dek nonce _ _ post N (by rw [← e']; omega) (by omega)
  have F10 := readCmds_cmdsData s.cmds wcmds N (by have := cmds_length_le s.cmds; omega)
  simp [Rom.readSection, F1, F2, F3, F4, F5, F6, F7, F9, F10, hmac256, hcm]
  rw [if_neg (by omega), if_pos (by rfl : 1 = Spec.tagTag), if_neg (by omega), if_neg (by omega)]
  simp only [Spec.expectedSection, Spec.sectionLen, hhc, hN']
  rw [show pre.length + 48 + 32 * hc + 16 * N = pre.length + (16 + 32 + 32 * hc + 16 * N) by omega]

/-! ## all sections -/

-- INTERFACE
theorem buildSections_length (h : CryptoLaws c) (dek mac nonce : Bytes) (ss : List Section)
    (wf : ∀ s ∈ ss, Spec.WFsection s) (ctr : Nat) :
    (buildSections c dek mac nonce ctr ss).length = Spec.sectionsLen ss ∧ Spec.sectionsLen ss % 16 = 0 := by
  induction ss generalizing ctr with
  | nil => simp [buildSections, Spec.sectionsLen]
  | cons s rest ih =>
    have wfs := wf s (by simp)
    have ⟨i1, i2⟩ := ih (fun x hx => wf x (by simp [hx])) (ctr + (buildSection c dek mac nonce ctr s).length / 16)
    have ⟨_, r2, _⟩ := rawSize_eq_sectionLen s wfs
    have hl : (buildSection c dek mac nonce ctr s).length = Spec.sectionLen s := buildSectionWith_length h _ _ _ _ _ s wfs
    unfold Spec.sectionsLen at *
    simp only [buildSections, List.length_append, List.map_cons, List.sum_cons]
    rw [i1, hl]
    omega

-- INTERFACE
theorem rawSize_sum_sections (ss : List Section) (wf : ∀ s ∈ ss, Spec.WFsection s) :
    (ss.map Section.rawSize).sum = Spec.sectionsLen ss ∧ maxMacCount ss = (ss.map Spec.macCount).sum := by
  induction ss with
  | nil => simp [Spec.sectionsLen, maxMacCount]
  | cons s rest ih =>
    have wfs := wf s (by simp)
    have ⟨i1, i2⟩ := ih (fun x hx => wf x (by simp [hx]))
    have ⟨r1, _, _⟩ := rawSize_eq_sectionLen s wfs
    have ⟨e1, _, _⟩ := effHmacCount_eq s wfs
    unfold Spec.sectionsLen maxMacCount at *
    simp only [List.map_cons, List.sum_cons, i1, i2, r1, e1]
    simp

-- INTERFACE: sections are read back one after the other up to `stop`, the counter running on across sections
theorem readSections_buildSections (h : CryptoLaws c) (dek mac nonce post : Bytes) (ss : List Section)
    (wf : ∀ s ∈ ss, Spec.WFsection s) (pre : Bytes) (hpre : pre.length % 16 = 0) (fuel : Nat) (hf : ss.length ≤ fuel) :
    Rom.readSections c dek mac nonce
        (pre ++ buildSections c dek mac nonce (nonceCtr nonce + pre.length / 16) ss ++ post)
        (pre.length + Spec.sectionsLen ss) fuel pre.length
      = .ok (ss.map Spec.expectedSection) := by
  induction ss generalizing pre fuel with
  | nil =>
    cases fuel <;> simp [Rom.readSections, Spec.sectionsLen]
  | cons s rest ih =>
    have wfs := wf s (by simp)
    have ⟨_, r2, r3⟩ := rawSize_eq_sectionLen s wfs
    cases fuel with
    | zero => simp at hf
    | succ f =>
      generalize hb : buildSection c dek mac nonce (nonceCtr nonce + pre.length / 16) s = b
      have hl : b.length = Spec.sectionLen s := by subst hb; exact buildSectionWith_length h _ _ _ _ _ s wfs
      have hsl : Spec.sectionsLen (s :: rest) = Spec.sectionLen s + Spec.sectionsLen rest := by
        simp [Spec.sectionsLen]
      have hfile : pre ++ buildSections c dek mac nonce (nonceCtr nonce + pre.length / 16) (s :: rest) ++ post
          = pre ++ b ++ (buildSections c dek mac nonce (nonceCtr nonce + (pre ++ b).length / 16) rest ++ post) := by
        have : (pre ++ b).length / 16 = pre.length / 16 + b.length / 16 := by simp; omega
        simp only [buildSections, hb, this, List.append_assoc, Nat.add_assoc]
      have hrs := readSection_buildSection h dek mac nonce pre
        (buildSections c dek mac nonce (nonceCtr nonce + (pre ++ b).length / 16) rest ++ post) s wfs hpre
      rw [hb] at hrs
      have hih := ih (fun x hx => wf x (by simp [hx])) (pre ++ b) (by simp; omega) f (by simpa using hf)
      have hstop : pre.length + Spec.sectionsLen (s :: rest) = (pre ++ b).length + Spec.sectionsLen rest := by
        simp [hsl, hl]; omega
      have hnext : pre.length + Spec.sectionLen s = (pre ++ b).length := by simp [hl]
      rw [hfile]
      unfold Rom.readSections
      rw [if_neg (by omega), if_neg (by omega), hrs]
      simp only []
      rw [hstop, hnext]
      rw [← List.append_assoc]
      rw [hih]
      simp

/-! ## reductions: a modified section is refused unless HMAC is broken -/

/-- the four pieces of a built section: encrypted header, its MAC, the MAC table over the ciphertext, the ciphertext -/
theorem buildSection_parts (h : CryptoLaws c) (dek mac nonce : Bytes) (ctr : Nat) (s : Section) (wf : Spec.WFsection s) :
    ∃ eh ec : Bytes,
      buildSection c dek mac nonce ctr s
        = eh ++ hmac c .sha256 mac eh ++
            hmacEntries c mac (Spec.macCount s) (Spec.cmdsLen s.cmds / 16 / Spec.macCount s * 16) ec ++ ec ∧
      eh.length = 16 ∧ ec.length = Spec.cmdsLen s.cmds ∧
      xorBytes eh (ksBlock c dek nonce ctr)
        = encodeHdr ⟨Sb2Consts.tagTag, imageSectionFlags, s.uid, Spec.cmdsLen s.cmds / 16, Spec.macCount s⟩ := by
  have ⟨e1, _, _⟩ := effHmacCount_eq s wf
  have ⟨l1, l2⟩ := cmdsData_length s.cmds
  refine ⟨xorBytes (encodeHdr ⟨Sb2Consts.tagTag, imageSectionFlags, s.uid, Spec.cmdsLen s.cmds / 16, Spec.macCount s⟩)
      (ksBlock c dek nonce ctr),
    ctrBlocks c dek nonce (Spec.cmdsLen s.cmds / 16) (ctr + (1 + (Spec.macCount s + 1) * 2)) (cmdsData s.cmds), ?_, ?_, ?_, ?_⟩
  · unfold buildSection buildSectionWith
    simp only [e1, l1]
    rfl
  · simp [encodeHdr_length, ksBlock_length h]
  · rw [ctrBlocks_length h _ _ _ _ _ (by omega)]; omega
  · exact Crypto.xorBytes_cancel _ _ (by simp [encodeHdr_length, ksBlock_length h])

/-- ROM side: a header MAC that is not the MAC of the 16 header bytes is refused -/
theorem readSection_hdrMac_bad (dek mac nonce pre eh hm rest : Bytes) (leh : eh.length = 16) (lhm : hm.length = 32)
    (hne : hm ≠ hmac c .sha256 mac eh) :
    Rom.readSection c dek mac nonce (pre ++ eh ++ hm ++ rest) pre.length = .error .badSectionMac := by
  have F1 : (pre ++ eh ++ hm ++ rest).length = pre.length + 48 + rest.length := by
    simp only [List.length_append, leh, lhm]
  have F2 : Rom.slice (pre ++ eh ++ hm ++ rest) pre.length 16 = eh := by
    have : pre ++ eh ++ hm ++ rest = pre ++ eh ++ (hm ++ rest) := by simp [List.append_assoc]
    rw [this]; exact slice_mid _ _ _ _ _ rfl leh.symm
  have F3 : Rom.slice (pre ++ eh ++ hm ++ rest) (pre.length + 16) 32 = hm :=
    slice_mid _ _ _ _ _ (by simp [leh]) lhm.symm
  unfold Rom.readSection
  rw [if_neg (by omega)]
  simp only [F2, F3]
  rw [if_pos hne]

/-- ROM side: a section whose header decrypts to `hdr` but whose MAC table does not fit the ciphertext is refused -/
theorem readSection_table_bad (h : CryptoLaws c) (dek mac nonce pre eh tbl ec post : Bytes) (hdr : CmdHdr)
    (hr : hdr.inRange = true) (htag : hdr.tag = 1) (leh : eh.length = 16)
    (hx : xorBytes eh (ksBlock c dek nonce (nonceCtr nonce + pre.length / 16)) = encodeHdr hdr)
    (h1 : 1 ≤ hdr.data) (h2 : hdr.data ≤ hdr.count)
    (ltbl : tbl.length = 32 * hdr.data) (lec : ec.length = 16 * hdr.count)
    (hck : Rom.checkMacs c mac hdr.data (hdr.count / hdr.data * 16) tbl ec = false) :
    Rom.readSection c dek mac nonce (pre ++ eh ++ hmac c .sha256 mac eh ++ tbl ++ ec ++ post) pre.length
      = .error .badSectionMac := by
  have lhm : (hmac c .sha256 mac eh).length = 32 := hmac256_length h mac eh
  generalize hfile : pre ++ eh ++ hmac c .sha256 mac eh ++ tbl ++ ec ++ post = file
  have F1 : file.length = pre.length + 48 + 32 * hdr.data + 16 * hdr.count + post.length := by
    subst hfile; simp only [List.length_append, leh, lhm, ltbl, lec]
  have F2 : Rom.slice file pre.length 16 = eh := by
    have : file = pre ++ eh ++ (hmac c .sha256 mac eh ++ tbl ++ ec ++ post) := by subst hfile; simp [List.append_assoc]
    rw [this]; exact slice_mid _ _ _ _ _ rfl leh.symm
  have F3 : Rom.slice file (pre.length + 16) 32 = hmac c .sha256 mac eh := by
    have : file = (pre ++ eh) ++ hmac c .sha256 mac eh ++ (tbl ++ ec ++ post) := by subst hfile; simp [List.append_assoc]
    rw [this]; exact slice_mid _ _ _ _ _ (by simp [leh]) lhm.symm
  have F6 : Rom.slice file (pre.length + 48) (32 * hdr.data) = tbl := by
    have : file = (pre ++ eh ++ hmac c .sha256 mac eh) ++ tbl ++ (ec ++ post) := by subst hfile; simp [List.append_assoc]
    rw [this]; exact slice_mid _ _ _ _ _ (by simp [leh, lhm]) ltbl.symm
  have F7 : Rom.slice file (pre.length + 48 + 32 * hdr.data) (16 * hdr.count) = ec := by
    have : file = (pre ++ eh ++ hmac c .sha256 mac eh ++ tbl) ++ ec ++ post := by subst hfile; simp [List.append_assoc]
    rw [this]; exact slice_mid _ _ _ _ _ (by simp [leh, lhm, ltbl]; omega) lec.symm
  have F4 : xorBytes eh (Rom.ksAt c dek nonce pre.length) = encodeHdr hdr := by rw [ksAt_eq_ksBlock, hx]
  have F5 : Rom.readHdr (encodeHdr hdr) = .ok ⟨hdr.tag, hdr.flags, hdr.address, hdr.count, hdr.data⟩ := by
    have := readHdr_encodeHdr hdr hr []
    rwa [List.append_nil] at this
  unfold Rom.readSection
  rw [if_neg (by omega)]
  simp only [F2, F3, F4, F5, F6, F7, hck, htag]
  simp only [Spec.tagTag, ne_eq, not_true_eq_false, if_false, Bool.not_false, if_true]
  rw [if_neg (by omega), if_neg (by omega)]

/-- a MAC table computed over `ec` that also passes for a different `ec'` of the same length exhibits an HMAC forgery -/
theorem checkMacs_forgery (h : CryptoLaws c) (mac : Bytes) (hc bs : Nat) (ec ec' : Bytes) (hpos : 1 ≤ hc)
    (hl : ec'.length = ec.length) (hne : ec' ≠ ec)
    (hck : Rom.checkMacs c mac hc bs (hmacEntries c mac hc bs ec) ec' = true) : Break c := by
  induction hc generalizing ec ec' with
  | zero => omega
  | succ n ih =>
    cases n with
    | zero =>
      have l := hmac256_length h mac ec
      simp only [checkMacs, hmacEntries] at hck
      rw [List.take_of_length_le (by omega)] at hck
      have e : hmac c .sha256 mac ec = hmac c .sha256 mac ec' := by simpa [hmac256] using hck
      exact Break.hmacForgery .sha256 mac ec ec' (fun e' => hne e'.symm) e
    | succ m =>
      have l := hmac256_length h mac (ec.take bs)
      simp only [checkMacs, hmacEntries] at hck
      rw [List.take_left' l, List.drop_left' l, Bool.and_eq_true] at hck
      obtain ⟨hck1, hck2⟩ := hck
      have e : hmac c .sha256 mac (ec.take bs) = hmac c .sha256 mac (ec'.take bs) := by simpa [hmac256] using hck1
      by_cases ht : ec.take bs = ec'.take bs
      · refine ih (ec.drop bs) (ec'.drop bs) (by omega) (by simp [hl]) ?_ hck2
        intro hd
        apply hne
        rw [← List.take_append_drop bs ec', ← List.take_append_drop bs ec, ht, hd]
      · exact Break.hmacForgery .sha256 mac _ _ ht e

/-- a table of the right length that the ROM accepts for `ec` is the builder's table for `ec` -/
theorem checkMacs_eq_entries (mac : Bytes) (hc bs : Nat) (tbl ec : Bytes) (ltbl : tbl.length = 32 * hc)
    (hck : Rom.checkMacs c mac hc bs tbl ec = true) : tbl = hmacEntries c mac hc bs ec := by
  induction hc generalizing tbl ec with
  | zero => simp [hmacEntries]; exact List.eq_nil_of_length_eq_zero (by omega)
  | succ n ih =>
    cases n with
    | zero =>
      simp only [checkMacs] at hck
      rw [List.take_of_length_le (by omega)] at hck
      simpa [hmacEntries, hmac256] using hck
    | succ m =>
      simp only [checkMacs, Bool.and_eq_true] at hck
      obtain ⟨hck1, hck2⟩ := hck
      have e1 : tbl.take 32 = hmac256 c mac (ec.take bs) := by simpa [hmac256] using hck1
      have e2 := ih (tbl.drop 32) (ec.drop bs) (by simp [ltbl]; omega) hck2
      rw [← List.take_append_drop 32 tbl, e1, e2]
      simp [hmacEntries]

theorem sectionHdr_inRange (s : Section) (wf : Spec.WFsection s) :
    (⟨Sb2Consts.tagTag, imageSectionFlags, s.uid, Spec.cmdsLen s.cmds / 16, Spec.macCount s⟩ : CmdHdr).inRange = true := by
  have ⟨_, _, e3⟩ := effHmacCount_eq s wf
  obtain ⟨wuid, _, _, wlen⟩ := wf
  simp [CmdHdr.inRange, Sb2Consts.tagTag, imageSectionFlags, Sb2Consts.sectFlagBootable, Sb2Consts.sectFlagLastSect]
  omega

-- INTERFACE: ciphertext body replaced
theorem readSection_body_tampered (h : CryptoLaws c) (dek mac nonce pre post : Bytes) (s : Section)
    (wf : Spec.WFsection s) (hpre : pre.length % 16 = 0) (body' : Bytes)
    (hlen : body'.length = Spec.cmdsLen s.cmds)
    (hne : body' ≠ (buildSection c dek mac nonce (nonceCtr nonce + pre.length / 16) s).drop (48 + 32 * Spec.macCount s)) :
    Rom.readSection c dek mac nonce
        (pre ++ (buildSection c dek mac nonce (nonceCtr nonce + pre.length / 16) s).take (48 + 32 * Spec.macCount s) ++ body' ++ post)
        pre.length = .error .badSectionMac ∨ Break c := by
  have ⟨_, e2, e3⟩ := effHmacCount_eq s wf
  have hr := sectionHdr_inRange s wf
  have ⟨l3, l4⟩ := cmdsLen_facts s.cmds wf.2.1
  obtain ⟨eh, ec, hS, leh, lec, hx⟩ := buildSection_parts h dek mac nonce (nonceCtr nonce + pre.length / 16) s wf
  have lhm : (hmac c .sha256 mac eh).length = 32 := hmac256_length h mac eh
  generalize htbl : hmacEntries c mac (Spec.macCount s) (Spec.cmdsLen s.cmds / 16 / Spec.macCount s * 16) ec = tbl at hS
  have ltbl : tbl.length = 32 * Spec.macCount s := by subst htbl; exact hmacEntries_length h _ _ _ _
  have l48 : (eh ++ hmac c .sha256 mac eh ++ tbl).length = 48 + 32 * Spec.macCount s := by
    simp only [List.length_append, leh, lhm, ltbl]
  rw [hS, List.drop_left' l48] at hne
  rw [hS, List.take_left' l48]
  by_cases hck : Rom.checkMacs c mac (Spec.macCount s) (Spec.cmdsLen s.cmds / 16 / Spec.macCount s * 16) tbl body' = true
  · right
    rw [← htbl] at hck
    exact checkMacs_forgery h mac _ _ ec body' e2 (by omega) hne hck
  · left
    have := readSection_table_bad h dek mac nonce pre eh tbl body' post _ hr rfl leh hx e2 e3 ltbl (by simp only []; omega)
      (by simpa using hck)
    simpa [List.append_assoc] using this

-- INTERFACE: encrypted header replaced
theorem readSection_header_tampered (h : CryptoLaws c) (dek mac nonce pre post : Bytes) (s : Section)
    (wf : Spec.WFsection s) (hpre : pre.length % 16 = 0) (eh' : Bytes) (hlen : eh'.length = 16)
    (hne : eh' ≠ (buildSection c dek mac nonce (nonceCtr nonce + pre.length / 16) s).take 16) :
    Rom.readSection c dek mac nonce
        (pre ++ eh' ++ (buildSection c dek mac nonce (nonceCtr nonce + pre.length / 16) s).drop 16 ++ post)
        pre.length = .error .badSectionMac ∨ Break c := by
  obtain ⟨eh, ec, hS, leh, lec, hx⟩ := buildSection_parts h dek mac nonce (nonceCtr nonce + pre.length / 16) s wf
  have lhm : (hmac c .sha256 mac eh).length = 32 := hmac256_length h mac eh
  generalize hmacEntries c mac (Spec.macCount s) (Spec.cmdsLen s.cmds / 16 / Spec.macCount s * 16) ec = tbl at hS
  have hS' : buildSection c dek mac nonce (nonceCtr nonce + pre.length / 16) s
      = eh ++ (hmac c .sha256 mac eh ++ tbl ++ ec) := by rw [hS]; simp [List.append_assoc]
  rw [hS', List.take_left' leh] at hne
  rw [hS', List.drop_left' leh]
  by_cases he : hmac c .sha256 mac eh = hmac c .sha256 mac eh'
  · right
    exact Break.hmacForgery .sha256 mac eh eh' (fun e => hne e.symm) he
  · left
    have := readSection_hdrMac_bad (c := c) dek mac nonce pre eh' (hmac c .sha256 mac eh) (tbl ++ ec ++ post) hlen lhm he
    simpa [List.append_assoc] using this

-- INTERFACE: header MAC / MAC table replaced (no crypto assumption: the ROM recomputes and compares)
theorem readSection_macs_tampered (h : CryptoLaws c) (dek mac nonce pre post : Bytes) (s : Section)
    (wf : Spec.WFsection s) (hpre : pre.length % 16 = 0) (macs' : Bytes)
    (hlen : macs'.length = 32 + 32 * Spec.macCount s)
    (hne : macs' ≠ ((buildSection c dek mac nonce (nonceCtr nonce + pre.length / 16) s).drop 16).take (32 + 32 * Spec.macCount s)) :
    Rom.readSection c dek mac nonce
        (pre ++ (buildSection c dek mac nonce (nonceCtr nonce + pre.length / 16) s).take 16 ++ macs' ++
          (buildSection c dek mac nonce (nonceCtr nonce + pre.length / 16) s).drop (48 + 32 * Spec.macCount s) ++ post)
        pre.length = .error .badSectionMac := by
  have ⟨_, e2, e3⟩ := effHmacCount_eq s wf
  have hr := sectionHdr_inRange s wf
  have ⟨l3, l4⟩ := cmdsLen_facts s.cmds wf.2.1
  obtain ⟨eh, ec, hS, leh, lec, hx⟩ := buildSection_parts h dek mac nonce (nonceCtr nonce + pre.length / 16) s wf
  have lhm : (hmac c .sha256 mac eh).length = 32 := hmac256_length h mac eh
  generalize htbl : hmacEntries c mac (Spec.macCount s) (Spec.cmdsLen s.cmds / 16 / Spec.macCount s * 16) ec = tbl at hS
  have ltbl : tbl.length = 32 * Spec.macCount s := by subst htbl; exact hmacEntries_length h _ _ _ _
  have l48 : (eh ++ hmac c .sha256 mac eh ++ tbl).length = 48 + 32 * Spec.macCount s := by
    simp only [List.length_append, leh, lhm, ltbl]
  have l32 : (hmac c .sha256 mac eh ++ tbl).length = 32 + 32 * Spec.macCount s := by
    simp only [List.length_append, lhm, ltbl]
  have hS' : buildSection c dek mac nonce (nonceCtr nonce + pre.length / 16) s
      = eh ++ (hmac c .sha256 mac eh ++ tbl ++ ec) := by rw [hS]; simp [List.append_assoc]
  have hS'' : buildSection c dek mac nonce (nonceCtr nonce + pre.length / 16) s
      = eh ++ ((hmac c .sha256 mac eh ++ tbl) ++ ec) := by rw [hS]; simp [List.append_assoc]
  rw [hS'', List.drop_left' leh, List.take_left' l32] at hne
  have hT : (buildSection c dek mac nonce (nonceCtr nonce + pre.length / 16) s).take 16 = eh := by
    rw [hS', List.take_left' leh]
  have hD : (buildSection c dek mac nonce (nonceCtr nonce + pre.length / 16) s).drop (48 + 32 * Spec.macCount s) = ec := by
    rw [hS, List.drop_left' l48]
  rw [hT, hD]
  obtain ⟨m1, m2, rfl, lt, ld⟩ : ∃ m1 m2 : Bytes, macs' = m1 ++ m2 ∧ m1.length = 32 ∧ m2.length = 32 * Spec.macCount s :=
    ⟨macs'.take 32, macs'.drop 32, (List.take_append_drop 32 macs').symm, by simp; omega, by simp; omega⟩
  by_cases he : m1 = hmac c .sha256 mac eh
  · have hd : m2 ≠ tbl := by
      intro e; apply hne; rw [he, e]
    have hck : Rom.checkMacs c mac (Spec.macCount s) (Spec.cmdsLen s.cmds / 16 / Spec.macCount s * 16) m2 ec = false := by
      cases hb : Rom.checkMacs c mac (Spec.macCount s) (Spec.cmdsLen s.cmds / 16 / Spec.macCount s * 16) m2 ec with
      | false => rfl
      | true => exact absurd ((checkMacs_eq_entries mac _ _ _ ec ld hb).trans htbl) hd
    have := readSection_table_bad h dek mac nonce pre eh m2 ec post _ hr rfl leh hx e2 e3 ld (by simp only []; omega) hck
    rw [he]
    simpa [List.append_assoc] using this
  · have := readSection_hdrMac_bad (c := c) dek mac nonce pre eh m1 (m2 ++ ec ++ post) leh lt he
    simpa [List.append_assoc] using this

end SpsdkVerif.Sb2
