/- Helper lemmas for the SDP part of Properties/C10.lean. -/
import SpsdkVerif.Model.Sdp

namespace SpsdkVerif.Sdp
open SpsdkVerif SpsdkVerif.Sdp.S

@[simp] theorem be_length (n v : Nat) : (be n v).length = n := by
  induction n with
  | zero => simp [be]
  | succ n ih => simp [be, ih]

theorem foldl_be (n v acc : Nat) :
    (be n v).foldl (fun a x => a * 256 + x.toNat) acc = acc * 256 ^ n + v % 256 ^ n := by
  induction n generalizing acc with
  | zero => simp [be, Nat.mod_one]
  | succ n ih =>
    simp only [be, List.foldl_cons, ih]
    have h8 : (UInt8.ofNat (v / 256 ^ n % 256)).toNat = v / 256 ^ n % 256 := by
      simp [UInt8.toNat_ofNat']
    rw [h8, Nat.pow_succ, Nat.mod_mul (a := 256 ^ n) (b := 256)]
    rw [Nat.add_mul, Nat.mul_assoc, Nat.mul_comm 256 (256 ^ n), Nat.mul_comm (v / 256 ^ n % 256) (256 ^ n)]
    omega

theorem fromBe_be (n v : Nat) (h : v < 256 ^ n) : fromBe (be n v) = v := by
  unfold fromBe
  rw [foldl_be, Nat.mod_eq_of_lt h]
  simp

theorem take_be (n v : Nat) (r : Bytes) : (be n v ++ r).take n = be n v := by
  rw [List.take_append_of_le_length (by simp)]; exact List.take_of_length_le (by simp)

theorem drop_be (n v : Nat) (r : Bytes) : (be n v ++ r).drop n = r := by
  rw [List.drop_append_of_le_length (by simp)]; simp [List.drop_of_length_le]

theorem encode_length (c : Cmd) : c.encode.length = 16 := by simp [Cmd.encode]

theorem cmd_roundtrip' (c : Cmd) (h : c.fits) : parseCmd c.encode = some c := by
  obtain ⟨h1, h2, h3, h4, h5⟩ := h
  unfold parseCmd
  rw [if_pos (encode_length c)]
  have e : c.encode = be 2 c.tag ++ (be 4 c.address ++ (be 1 c.format ++ (be 4 c.count ++ (be 4 c.value ++ [0])))) := by
    simp [Cmd.encode]
  have d2 : c.encode.drop 2 = be 4 c.address ++ (be 1 c.format ++ (be 4 c.count ++ (be 4 c.value ++ [0]))) := by
    rw [e, drop_be]
  have d6 : c.encode.drop 6 = be 1 c.format ++ (be 4 c.count ++ (be 4 c.value ++ [0])) := by
    have : c.encode.drop 6 = (c.encode.drop 2).drop 4 := by rw [List.drop_drop]
    rw [this, d2, drop_be]
  have d7 : c.encode.drop 7 = be 4 c.count ++ (be 4 c.value ++ [0]) := by
    have : c.encode.drop 7 = (c.encode.drop 6).drop 1 := by rw [List.drop_drop]
    rw [this, d6, drop_be]
  have d11 : c.encode.drop 11 = be 4 c.value ++ [0] := by
    have : c.encode.drop 11 = (c.encode.drop 7).drop 4 := by rw [List.drop_drop]
    rw [this, d7, drop_be]
  rw [d2, d6, d7, d11, e, take_be, take_be, take_be, take_be, take_be]
  rw [fromBe_be 2 _ (by omega), fromBe_be 4 _ (by omega), fromBe_be 1 _ (by omega), fromBe_be 4 _ (by omega),
    fromBe_be 4 _ (by omega)]

/-! ### monad plumbing -/
@[simp] theorem pure_run {α} (a : α) (s : Host) : (pure a : S α) s = (.ok a, s) := rfl
@[simp] theorem bind_run {α β} (m : S α) (f : α → S β) (s : Host) :
    (m >>= f) s = match m s with
      | (.ok a, s') => f a s'
      | (.error e, s') => (.error e, s') := rfl
@[simp] theorem fail_run {α} (e : SErr) (s : Host) : (fail e : S α) s = (.error e, s) := rfl
@[simp] theorem get_run (s : Host) : S.get s = (.ok s, s) := rfl
@[simp] theorem modify_run (f : Host → Host) (s : Host) : S.modify f s = (.ok (), f s) := rfl
@[simp] theorem guardConn_run {α} (m : S α) (s : Host) :
    guardConn m s = match m s with
      | (.ok a, s') => (.ok a, s')
      | (.error _, s') => (.error .conn, s') := rfl

/-! ### silent link -/

/-- nothing to read and the replay script will never release anything -/
def Silent (h : Host) : Prop :=
  h.rx = [] ∧ (∀ r ∈ h.rxR, r = []) ∧ ∃ cs, h.peer = .script cs ∧ ∀ c ∈ cs, ∀ r ∈ c, r = []

theorem flatten_all_nil (c : List Bytes) (h : ∀ r ∈ c, r = []) : c.flatten = [] := by
  induction c with
  | nil => rfl
  | cons x r ih =>
    have hx : x = [] := h x (by simp)
    simp [hx, ih (fun q hq => h q (by simp [hq]))]

theorem devWrite_silent (h : Host) (w : Bytes) (hs : Silent h) :
    Silent (h.devWrite w) ∧ (h.devWrite w).opened = h.opened ∧ (h.devWrite w).ce = h.ce ∧ (h.devWrite w).tr = h.tr ∧
      (h.devWrite w).packSize = h.packSize := by
  obtain ⟨h1, h2, cs, h3, h4⟩ := hs
  unfold Host.devWrite
  cases cs with
  | nil =>
    cases htr : h.tr <;> simp only [h3, htr] <;>
      exact ⟨⟨by simp [h1], by simpa using h2, [], rfl, by simp⟩, (by first | rfl | trivial | simp [htr]), (by first | rfl | trivial | simp [htr]), (by first | rfl | trivial | simp [htr]), (by first | rfl | trivial | simp [htr])⟩
  | cons c cs =>
    have hc : ∀ r ∈ c, r = [] := h4 c (by simp)
    have hcs : ∀ c' ∈ cs, ∀ r ∈ c', r = [] := fun c' hc' => h4 c' (by simp [hc'])
    cases htr : h.tr <;> simp only [h3, htr]
    · exact ⟨⟨by simp [h1, flatten_all_nil c hc], by simpa using h2, cs, rfl, hcs⟩, (by first | rfl | trivial | simp [htr]), (by first | rfl | trivial | simp [htr]), (by first | rfl | trivial | simp [htr]), (by first | rfl | trivial | simp [htr])⟩
    · refine ⟨⟨by simp [h1], ?_, cs, rfl, hcs⟩, (by first | rfl | trivial | simp [htr]), (by first | rfl | trivial | simp [htr]), (by first | rfl | trivial | simp [htr]), (by first | rfl | trivial | simp [htr])⟩
      intro r hr
      simp only [List.mem_append] at hr
      rcases hr with hr | hr
      · exact h2 r hr
      · exact hc r hr

theorem foldl_devWrite_silent (fs : List Bytes) (h : Host) (hs : Silent h) :
    Silent (fs.foldl (fun x f => x.devWrite f) h) ∧ (fs.foldl (fun x f => x.devWrite f) h).opened = h.opened ∧
      (fs.foldl (fun x f => x.devWrite f) h).ce = h.ce ∧ (fs.foldl (fun x f => x.devWrite f) h).tr = h.tr ∧
      (fs.foldl (fun x f => x.devWrite f) h).packSize = h.packSize := by
  induction fs generalizing h with
  | nil => exact ⟨hs, rfl, rfl, rfl, rfl⟩
  | cons f fs ih =>
    obtain ⟨a, b, c, d, e⟩ := devWrite_silent h f hs
    obtain ⟨a', b', c', d', e'⟩ := ih (h.devWrite f) a
    exact ⟨a', b'.trans b, c'.trans c, d'.trans d, e'.trans e⟩

/-- writing a command / data never fails on a silent link unless the packet cannot be encoded, and stays silent -/
theorem sendFrame_silent (rid : Nat) (w : Bytes) (h : Host) (hs : Silent h) :
    ∃ r h', sendFrame rid w h = (r, h') ∧ Silent h' ∧ h'.opened = h.opened ∧ h'.ce = h.ce := by
  unfold sendFrame
  cases htr : h.tr with
  | serial =>
    obtain ⟨a, b, c, _, _⟩ := devWrite_silent h w hs
    refine ⟨.ok (), h.write w, rfl, ?_, ?_, ?_⟩
    · exact ⟨a.1, a.2.1, a.2.2⟩
    · exact b
    · exact c
  | hid =>
    simp only
    by_cases hp : h.packSize = 0 ∧ ¬ w.isEmpty = true
    · rw [if_pos hp]; exact ⟨_, h, rfl, hs, rfl, rfl⟩
    · rw [if_neg hp]
      obtain ⟨a, b, c, _, _⟩ := foldl_devWrite_silent (hidFrames rid h.packSize w) h hs
      exact ⟨_, _, rfl, a, b, c⟩

theorem protoRead_silent (h : Host) (n : Nat) (hs : Silent h) :
    ∃ h', protoRead n h = (.error .other, h') ∧ Silent h' ∧ h'.opened = h.opened ∧ h'.ce = h.ce := by
  unfold protoRead
  cases htr : h.tr with
  | serial =>
    refine ⟨{ h with rx := [] }, by simp only [htr]; simp [hs.1], ⟨rfl, hs.2.1, hs.2.2⟩, rfl, rfl⟩
  | hid =>
    cases hr : h.rxR with
    | nil => exact ⟨h, by simp only [htr, hr], hs, rfl, rfl⟩
    | cons r rs =>
      have : r = [] := hs.2.1 r (by simp [hr])
      subst this
      refine ⟨{ h with rxR := rs }, by simp only [htr, hr], ⟨hs.1, ?_, hs.2.2⟩, rfl, rfl⟩
      intro q hq
      exact hs.2.1 q (by simp [hr, hq])

theorem writeCommand_silent (c : Cmd) (h : Host) (hs : Silent h) :
    ∃ r h', writeCommand c h = (r, h') ∧ Silent h' := by
  unfold writeCommand
  by_cases hf : c.fits
  · rw [if_pos hf]
    obtain ⟨r, h', e, s', _, _⟩ := sendFrame_silent Spec.ridCmd c.encode h hs
    exact ⟨r, h', e, s'⟩
  · rw [if_neg hf]; exact ⟨_, h, rfl, hs⟩

theorem processCmd_silent (h : Host) (c : Cmd) (hs : Silent h) : (processCmd c h).1 = .error .conn := by
  unfold processCmd
  simp only [bind_run, get_run]
  by_cases ho : h.opened = true
  · have hno : ¬ ¬ h.opened = true := fun x => x ho
    rw [if_neg hno]
    simp only [bind_run, modify_run, guardConn_run]
    have hs1 : Silent { h with status := Spec.stSuccess } := ⟨hs.1, hs.2.1, hs.2.2⟩
    obtain ⟨r, h1, e1, s1⟩ := writeCommand_silent c _ hs1
    rw [e1]
    cases r with
    | error e => rfl
    | ok u =>
      obtain ⟨h2, e2, _, _, _⟩ := protoRead_silent h1 0 s1
      simp only [e2]
  · simp [ho]

theorem sendData_silent (h : Host) (c : Cmd) (d : Bytes) (hs : Silent h) : (sendData c d h).1 = .error .conn := by
  unfold sendData
  simp only [bind_run, get_run]
  by_cases ho : h.opened = true
  · have hno : ¬ ¬ h.opened = true := fun x => x ho
    rw [if_neg hno]
    simp only [bind_run, modify_run, guardConn_run]
    have hs1 : Silent { h with status := Spec.stSuccess } := ⟨hs.1, hs.2.1, hs.2.2⟩
    obtain ⟨r, h1, e1, s1⟩ := writeCommand_silent c _ hs1
    rw [e1]
    cases r with
    | error e => rfl
    | ok u =>
      obtain ⟨r2, h2, e2, s2, _, _⟩ := sendFrame_silent Spec.ridData d h1 s1
      simp only [e2]
      cases r2 with
      | error e => rfl
      | ok u2 =>
        obtain ⟨h3, e3, _, _, _⟩ := protoRead_silent h2 0 s2
        simp only [e3]
  · simp [ho]

/-- on a silent link every SDP operation (SDPS writes only and is excluded) raises SdpConnectionError -/
theorem runOp_silent (h : Host) (op : Op) (hs : Silent h) (hop : ∀ nc ps d, op ≠ .sdpsWriteFile nc ps d) :
    (runOp op h).1 = .error .conn := by
  cases op with
  | read a n f =>
    have := processCmd_silent h ⟨Spec.cReadRegister, a, f, n, 0⟩ hs
    simp only [runOp, bind_run]
    rcases hp : processCmd ⟨Spec.cReadRegister, a, f, n, 0⟩ h with ⟨r, h1⟩
    rw [hp] at this; simp only at this; subst this; rfl
  | write a v c f =>
    have := processCmd_silent h ⟨Spec.cWriteRegister, a, f, c, v⟩ hs
    simp only [runOp, bind_run]
    rcases hp : processCmd ⟨Spec.cWriteRegister, a, f, c, v⟩ h with ⟨r, h1⟩
    rw [hp] at this; simp only at this; subst this; rfl
  | writeFile a d =>
    have := sendData_silent h ⟨Spec.cWriteFile, a, 0, d.length, 0⟩ d hs
    simp only [runOp, bind_run]
    rcases hp : sendData ⟨Spec.cWriteFile, a, 0, d.length, 0⟩ d h with ⟨r, h1⟩
    rw [hp] at this; simp only at this; subst this; rfl
  | writeDcd a d =>
    have := sendData_silent h ⟨Spec.cWriteDcd, a, 0, d.length, 0⟩ d hs
    simp only [runOp, bind_run]
    rcases hp : sendData ⟨Spec.cWriteDcd, a, 0, d.length, 0⟩ d h with ⟨r, h1⟩
    rw [hp] at this; simp only at this; subst this; rfl
  | writeCsf a d =>
    have := sendData_silent h ⟨Spec.cWriteCsf, a, 0, d.length, 0⟩ d hs
    simp only [runOp, bind_run]
    rcases hp : sendData ⟨Spec.cWriteCsf, a, 0, d.length, 0⟩ d h with ⟨r, h1⟩
    rw [hp] at this; simp only at this; subst this; rfl
  | skipDcd =>
    have := processCmd_silent h ⟨Spec.cSkipDcdHeader, 0, 0, 0, 0⟩ hs
    simp only [runOp, bind_run]
    rcases hp : processCmd ⟨Spec.cSkipDcdHeader, 0, 0, 0, 0⟩ h with ⟨r, h1⟩
    rw [hp] at this; simp only at this; subst this; rfl
  | jumpAndRun a =>
    have := processCmd_silent h ⟨Spec.cJumpAddress, a, 0, 0, 0⟩ hs
    simp only [runOp, bind_run]
    rcases hp : processCmd ⟨Spec.cJumpAddress, a, 0, 0, 0⟩ h with ⟨r, h1⟩
    rw [hp] at this; simp only at this; subst this; rfl
  | readStatus =>
    have := processCmd_silent h ⟨Spec.cErrorStatus, 0, 0, 0, 0⟩ hs
    simp only [runOp, bind_run]
    rcases hp : processCmd ⟨Spec.cErrorStatus, 0, 0, 0, 0⟩ h with ⟨r, h1⟩
    rw [hp] at this; simp only at this; subst this; rfl
  | sdpsWriteFile nc ps d => exact absurd rfl (hop nc ps d)

/-- `write` / `skip_dcd` return `True` only if the status word read from the device is the OK value -/
theorem statusTail_true (st okv failSt : Nat) (h h' : Host) (hr : statusTail st okv failSt h = (.ok (.bool true), h')) :
    st = okv := by
  unfold statusTail at hr
  by_cases hne : st ≠ okv
  · simp only [hne, ne_eq, not_false_eq_true, if_true, bind_run, modify_run, get_run] at hr
    by_cases hce : h.ce = true <;> simp [hce] at hr
  · exact Classical.not_not.mp hne

/-- the data read by `_read_data` has exactly the requested length (it loops until complete or raises) -/
theorem readDataLoop_length (length f : Nat) (acc d : Bytes) (h h' : Host)
    (hr : readDataLoop length f acc h = (.ok d, h')) : d.length = length := by
  induction f generalizing acc h with
  | zero => simp [readDataLoop] at hr
  | succ f ih =>
    unfold readDataLoop at hr
    by_cases hl : acc.length < length
    · simp only [hl, if_true, bind_run, modify_run, guardConn_run] at hr
      rcases hp : protoRead (min (length - acc.length) Spec.maxRead) { h with expectStatus := false } with ⟨r, h1⟩
      rw [hp] at hr
      cases r with
      | error e => simp at hr
      | ok x =>
        simp only at hr
        by_cases hh : ¬ x.1 = true
        · rw [if_pos hh] at hr; exact ih _ _ hr
        · rw [if_neg hh] at hr
          cases hv : respValue x.2 with
          | error e => rw [hv] at hr; simp at hr
          | ok v =>
            rw [hv] at hr
            simp only [bind_run, modify_run] at hr
            exact ih _ _ hr
    · simp only [hl, if_false, pure_run, Prod.mk.injEq, Except.ok.injEq] at hr
      obtain ⟨rfl, _⟩ := hr
      simp; omega

end SpsdkVerif.Sdp
