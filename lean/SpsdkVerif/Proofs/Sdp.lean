/- Helper lemmas for the SDP part of Properties/C10.lean. -/
import SpsdkVerif.Model.Sdp

namespace SpsdkVerif.Sdp
open SpsdkVerif SpsdkVerif.Sdp.S

@[simp] theorem be_length (n v : Nat) : (be n v).length = n := by
  induction n with
  | zero => simp [be]
  | succ n ih => simp [be, ih]

theorem foldl_be (n v acc : Nat) :
    (be n v).foldl (fun a x => a * 256 + x.toNat) acc = acc * 256 ^ n + v % 256 ^ n := by
  induction n generalizing acc with
  | zero => simp [be, Nat.mod_one]
  | succ n ih =>
    simp only [be, List.foldl_cons, ih]
    have h8 : (UInt8.ofNat (v / 256 ^ n % 256)).toNat = v / 256 ^ n % 256 := by
      simp [UInt8.toNat_ofNat']
    rw [h8, Nat.pow_succ, Nat.mod_mul (a := 256 ^ n) (b := 256)]
    rw [Nat.add_mul, Nat.mul_assoc, Nat.mul_comm 256 (256 ^ n), Nat.mul_comm (v / 256 ^ n % 256) (256 ^ n)]
    omega

theorem fromBe_be (n v : Nat) (h : v < 256 ^ n) : fromBe (be n v) = v := by
  unfold fromBe
  rw [foldl_be, Nat.mod_eq_of_lt h]
  simp

theorem take_be (n v : Nat) (r : Bytes) : (be n v ++ r).take n = be n v := by
  rw [List.take_append_of_le_length (by simp)]; exact List.take_of_length_le (by simp)

theorem drop_be (n v : Nat) (r : Bytes) : (be n v ++ r).drop n = r := by
  rw [List.drop_append_of_le_length (by simp)]; simp [List.drop_of_length_le]

theorem encode_length (c : Cmd) : c.encode.length = 16 := by simp [Cmd.encode]

theorem cmd_roundtrip' (c : Cmd) (h : c.fits) : parseCmd c.encode = some c := by
  obtain ⟨h1, h2, h3, h4, h5⟩ := h
  unfold parseCmd
  rw [if_pos (encode_length c)]
  have e : c.encode = be 2 c.tag ++ (be 4 c.address ++ (be 1 c.format ++ (be 4 c.count ++ (be 4 c.value ++ [0])))) := by
    simp [Cmd.encode]
  have d2 : c.encode.drop 2 = be 4 c.address ++ (be 1 c.format ++ (be 4 c.count ++ (be 4 c.value ++ [0]))) := by
    rw [e, drop_be]
  have d6 : c.encode.drop 6 = be 1 c.format ++ (be 4 c.count ++ (be 4 c.value ++ [0])) := by
    have : c.encode.drop 6 = (c.encode.drop 2).drop 4 := by rw [List.drop_drop]
    rw [this, d2, drop_be]
  have d7 : c.encode.drop 7 = be 4 c.count ++ (be 4 c.value ++ [0]) := by
    have : c.encode.drop 7 = (c.encode.drop 6).drop 1 := by rw [List.drop_drop]
    rw [this, d6, drop_be]
  have d11 : c.encode.drop 11 = be 4 c.value ++ [0] := by
    have : c.encode.drop 11 = (c.encode.drop 7).drop 4 := by rw [List.drop_drop]
    rw [this, d7, drop_be]
  rw [d2, d6, d7, d11, e, take_be, take_be, take_be, take_be, take_be]
  rw [fromBe_be 2 _ (by omega), fromBe_be 4 _ (by omega), fromBe_be 1 _ (by omega), fromBe_be 4 _ (by omega),
    fromBe_be 4 _ (by omega)]

/-! ### monad plumbing -/
@[simp] theorem pure_run {α} (a : α) (s : Host) : (pure a : S α) s = (.ok a, s) := rfl
@[simp] theorem bind_run {α β} (m : S α) (f : α → S β) (s : Host) :
    (m >>= f) s = match m s with
      | (.ok a, s') => f a s'
      | (.error e, s') => (.error e, s') := rfl
@[simp] theorem fail_run {α} (e : SErr) (s : Host) : (fail e : S α) s = (.error e, s) := rfl
@[simp] theorem get_run (s : Host) : S.get s = (.ok s, s) := rfl
@[simp] theorem modify_run (f : Host → Host) (s : Host) : S.modify f s = (.ok (), f s) := rfl
@[simp] theorem guardConn_run {α} (m : S α) (s : Host) :
    guardConn m s = match m s with
      | (.ok a, s') => (.ok a, s')
      | (.error _, s') => (.error .conn, s') := rfl

/-! ### silent link -/

/-- nothing to read and the replay script is exhausted -/
def Silent (h : Host) : Prop := h.rx = [] ∧ ∃ cs, h.peer = .script cs ∧ ∀ c ∈ cs, c = []

theorem write_silent (h : Host) (w : Bytes) (hs : Silent h) : Silent (h.write w) := by
  obtain ⟨h1, cs, h2, h3⟩ := hs
  unfold Host.write
  cases cs with
  | nil => simp only [h2]; exact ⟨by simp [h1], [], rfl, by simp⟩
  | cons c cs =>
    have hc : c = [] := h3 c (by simp)
    simp only [h2]
    exact ⟨by simp [h1, hc], cs, rfl, fun q hq => h3 q (by simp [hq])⟩

theorem protoRead_silent (h : Host) (n : Nat) (hs : Silent h) :
    protoRead n h = (.error .other, { h with rx := [] }) := by
  unfold protoRead
  simp [hs.1]

theorem silent_rx_nil (h : Host) (hs : Silent h) : Silent { h with rx := [] } := ⟨rfl, hs.2⟩

theorem processCmd_silent (h : Host) (c : Cmd) (hs : Silent h) : (processCmd c h).1 = .error .conn := by
  unfold processCmd
  simp only [bind_run, get_run]
  by_cases ho : h.opened = true
  · have hno : ¬ ¬ h.opened = true := fun x => x ho
    rw [if_neg hno]
    simp only [bind_run, modify_run, guardConn_run, writeCommand]
    have hs1 : Silent { h with status := Spec.stSuccess } := ⟨hs.1, hs.2⟩
    by_cases hf : c.fits
    · simp only [hf, if_true, sendFrame, modify_run,
        protoRead_silent _ 0 (write_silent _ c.encode hs1)]
    · simp only [hf, if_false, fail_run]
  · simp [ho]

theorem sendData_silent (h : Host) (c : Cmd) (d : Bytes) (hs : Silent h) : (sendData c d h).1 = .error .conn := by
  unfold sendData
  simp only [bind_run, get_run]
  by_cases ho : h.opened = true
  · have hno : ¬ ¬ h.opened = true := fun x => x ho
    rw [if_neg hno]
    simp only [bind_run, modify_run, guardConn_run, writeCommand]
    have hs1 : Silent { h with status := Spec.stSuccess } := ⟨hs.1, hs.2⟩
    by_cases hf : c.fits
    · simp only [hf, if_true, sendFrame, modify_run,
        protoRead_silent _ 0 (write_silent _ d (write_silent _ c.encode hs1))]
    · simp only [hf, if_false, fail_run]
  · simp [ho]

/-- on a silent link every SDP operation raises SdpConnectionError -/
theorem runOp_silent (h : Host) (op : Op) (hs : Silent h) : (runOp op h).1 = .error .conn := by
  cases op with
  | read a n f =>
    have := processCmd_silent h ⟨Spec.cReadRegister, a, f, n, 0⟩ hs
    simp only [runOp, bind_run]
    rcases hp : processCmd ⟨Spec.cReadRegister, a, f, n, 0⟩ h with ⟨r, h1⟩
    rw [hp] at this; simp only at this; subst this; rfl
  | write a v c f =>
    have := processCmd_silent h ⟨Spec.cWriteRegister, a, f, c, v⟩ hs
    simp only [runOp, bind_run]
    rcases hp : processCmd ⟨Spec.cWriteRegister, a, f, c, v⟩ h with ⟨r, h1⟩
    rw [hp] at this; simp only at this; subst this; rfl
  | writeFile a d =>
    have := sendData_silent h ⟨Spec.cWriteFile, a, 0, d.length, 0⟩ d hs
    simp only [runOp, bind_run]
    rcases hp : sendData ⟨Spec.cWriteFile, a, 0, d.length, 0⟩ d h with ⟨r, h1⟩
    rw [hp] at this; simp only at this; subst this; rfl
  | writeDcd a d =>
    have := sendData_silent h ⟨Spec.cWriteDcd, a, 0, d.length, 0⟩ d hs
    simp only [runOp, bind_run]
    rcases hp : sendData ⟨Spec.cWriteDcd, a, 0, d.length, 0⟩ d h with ⟨r, h1⟩
    rw [hp] at this; simp only at this; subst this; rfl
  | writeCsf a d =>
    have := sendData_silent h ⟨Spec.cWriteCsf, a, 0, d.length, 0⟩ d hs
    simp only [runOp, bind_run]
    rcases hp : sendData ⟨Spec.cWriteCsf, a, 0, d.length, 0⟩ d h with ⟨r, h1⟩
    rw [hp] at this; simp only at this; subst this; rfl
  | skipDcd =>
    have := processCmd_silent h ⟨Spec.cSkipDcdHeader, 0, 0, 0, 0⟩ hs
    simp only [runOp, bind_run]
    rcases hp : processCmd ⟨Spec.cSkipDcdHeader, 0, 0, 0, 0⟩ h with ⟨r, h1⟩
    rw [hp] at this; simp only at this; subst this; rfl
  | jumpAndRun a =>
    have := processCmd_silent h ⟨Spec.cJumpAddress, a, 0, 0, 0⟩ hs
    simp only [runOp, bind_run]
    rcases hp : processCmd ⟨Spec.cJumpAddress, a, 0, 0, 0⟩ h with ⟨r, h1⟩
    rw [hp] at this; simp only at this; subst this; rfl
  | readStatus =>
    have := processCmd_silent h ⟨Spec.cErrorStatus, 0, 0, 0, 0⟩ hs
    simp only [runOp, bind_run]
    rcases hp : processCmd ⟨Spec.cErrorStatus, 0, 0, 0, 0⟩ h with ⟨r, h1⟩
    rw [hp] at this; simp only at this; subst this; rfl

/-- `write` / `skip_dcd` return `True` only if the status word read from the device is the OK value -/
theorem statusTail_true (st okv failSt : Nat) (h h' : Host) (hr : statusTail st okv failSt h = (.ok (.bool true), h')) :
    st = okv := by
  unfold statusTail at hr
  by_cases hne : st ≠ okv
  · simp only [hne, ne_eq, not_false_eq_true, if_true, bind_run, modify_run, get_run] at hr
    by_cases hce : h.ce = true <;> simp [hce] at hr
  · exact Classical.not_not.mp hne

/-- the data read by `_read_data` has exactly the requested length (it loops until complete or raises) -/
theorem readDataLoop_length (length f : Nat) (acc d : Bytes) (h h' : Host)
    (hr : readDataLoop length f acc h = (.ok d, h')) : d.length = length := by
  induction f generalizing acc h with
  | zero => simp [readDataLoop] at hr
  | succ f ih =>
    unfold readDataLoop at hr
    by_cases hl : acc.length < length
    · simp only [hl, if_true, bind_run, modify_run, guardConn_run] at hr
      rcases hp : protoRead (min (length - acc.length) Spec.maxRead) { h with expectStatus := false } with ⟨r, h1⟩
      rw [hp] at hr
      cases r with
      | error e => simp at hr
      | ok x => exact ih _ _ hr
    · simp only [hl, if_false, pure_run, Prod.mk.injEq, Except.ok.injEq] at hr
      obtain ⟨rfl, _⟩ := hr
      simp; omega

end SpsdkVerif.Sdp
